/-
  A connection invariant that is not part of `GInv`:

      a held handle is the handle of the mailbox the connection remembers
      `∀ x ∈ conns, ∀ h, x.mailbox = some h → x.mailboxId = some h`

  (`handle_open` sets `_mailbox_id` before it gets the handle; `handle_close` may transiently hold a
  handle for an id it does not remember -- `close m` on a connection that never opened -- but drops it
  before the step ends: the `IndexError` path that would keep it cannot be taken, because every nameplate
  has a side row (`mailboxClose_true`).)

  `GSys.Reach.handleId`: it holds in every state reachable by a well-formed history, crashes included.

  Proof device: for the connection `c` a command arrives on, split the invariant into
  `Except c` (every OTHER record is fine) -- preserved by every primitive, whatever it does to `c`'s record --
  and `Own c P` (every record with id `c` satisfies `P`), tracked through the handler.
-/
import Wormhole.Inv.Main
import Wormhole.Inv.MsgConns
import Wormhole.Inv.SimCore
import Wormhole.Props.C17

namespace Wormhole

/-- the handle, if any, is the handle of the remembered mailbox id -/
def Conn.HandleOk (x : Conn) : Prop := ∀ h, x.mailbox = some h → x.mailboxId = some h

namespace Sys

/-- **the invariant** -/
def HandleId (s : Sys) : Prop := ∀ x ∈ s.conns, ∀ h, x.mailbox = some h → x.mailboxId = some h

/-- every record of another connection is fine -/
def HExcept (c : Nat) (s : Sys) : Prop := ∀ y ∈ s.conns, y.id ≠ c → y.HandleOk

/-- every record of connection `c` satisfies `P` -/
def Own (c : Nat) (P : Conn → Prop) (s : Sys) : Prop := ∀ y ∈ s.conns, y.id = c → P y

theorem HandleId.split {s : Sys} (h : s.HandleId) (c : Nat) : s.HExcept c ∧ s.Own c Conn.HandleOk :=
  ⟨fun y hy _ => h y hy, fun y hy _ => h y hy⟩

theorem HandleId.join {s : Sys} {c : Nat} {P : Conn → Prop} (h1 : s.HExcept c) (h2 : s.Own c P)
    (hP : ∀ y, P y → y.HandleOk) : s.HandleId := by
  intro y hy
  by_cases e : y.id = c
  · exact hP y (h2 y hy e)
  · exact h1 y hy e

theorem HandleId.of_conns {s s' : Sys} (h : s.HandleId) (e : s'.conns = s.conns) : s'.HandleId := by
  unfold HandleId; rw [e]; exact h

theorem HExcept.of_conns {c : Nat} {s s' : Sys} (h : s.HExcept c) (e : s'.conns = s.conns) : s'.HExcept c := by
  unfold HExcept; rw [e]; exact h

theorem Own.of_conns {c : Nat} {P : Conn → Prop} {s s' : Sys} (h : s.Own c P) (e : s'.conns = s.conns) :
    s'.Own c P := by
  unfold Own; rw [e]; exact h

theorem Own.mono {c : Nat} {P Q : Conn → Prop} {s : Sys} (h : s.Own c P) (hPQ : ∀ y, P y → Q y) : s.Own c Q :=
  fun y hy e => hPQ y (h y hy e)

theorem mem_updConn {s : Sys} {c : Nat} {f : Conn → Conn} {y' : Conn} (h : y' ∈ (s.updConn c f).conns) :
    ∃ y ∈ s.conns, y' = if y.id = c then f y else y := by
  simp only [updConn, List.mem_map] at h
  obtain ⟨y, hy, e⟩ := h
  exact ⟨y, hy, e.symm⟩

theorem HExcept.updConn {c : Nat} {s : Sys} (h : s.HExcept c) {f : Conn → Conn} (hf : ∀ y, (f y).id = y.id) :
    (s.updConn c f).HExcept c := by
  intro y' hy' hne
  obtain ⟨y, hy, rfl⟩ := mem_updConn hy'
  by_cases e : y.id = c
  · rw [if_pos e] at hne
    exact absurd ((hf y).trans e) hne
  · rw [if_neg e]; exact h y hy e

theorem Own.updConn {c : Nat} {P Q : Conn → Prop} {s : Sys} (h : s.Own c P) {f : Conn → Conn}
    (hf : ∀ y, P y → Q (f y)) : (s.updConn c f).Own c Q := by
  intro y' hy' he
  obtain ⟨y, hy, rfl⟩ := mem_updConn hy'
  by_cases e : y.id = c
  · rw [if_pos e]; exact hf y (h y hy e)
  · rw [if_neg e] at he; exact absurd he e

theorem HandleId.updConn {s : Sys} (h : s.HandleId) {c : Nat} {f : Conn → Conn}
    (hf : ∀ y : Conn, y.HandleOk → (f y).HandleOk) : (s.updConn c f).HandleId := by
  intro y' hy'
  obtain ⟨y, hy, rfl⟩ := mem_updConn hy'
  split
  · exact hf y (h y hy)
  · exact h y hy

theorem stopC_handleOk {a m : String} {y : Conn} (h : y.HandleOk) : (stopC a m y).HandleOk := by
  unfold stopC
  split
  · intro _ e; cases e
  · exact h

theorem HExcept.stopListeners {c : Nat} {s : Sys} (h : s.HExcept c) (a m : String) :
    (s.stopListeners a m).HExcept c := by
  intro y' hy' hne
  rw [stopListeners_conns'] at hy'
  obtain ⟨y, hy, rfl⟩ := List.mem_map.1 hy'
  rw [stopC_id] at hne
  exact stopC_handleOk (h y hy hne)

theorem Own.stopListeners {c : Nat} {P : Conn → Prop} {s : Sys} (h : s.Own c P) (a m : String)
    (hP : ∀ y, P y → P (stopC a m y)) : (s.stopListeners a m).Own c P := by
  intro y' hy' he
  rw [stopListeners_conns'] at hy'
  obtain ⟨y, hy, rfl⟩ := List.mem_map.1 hy'
  rw [stopC_id] at he
  exact hP y (h y hy he)

theorem HExcept.mailboxClose {c : Nat} {s : Sys} (h : s.HExcept c) (app mb side mood t) :
    (s.mailboxClose app mb side mood t).1.HExcept c := by
  rcases mailboxClose_conns s app mb side mood t with ⟨e, _⟩ | ⟨e, _⟩
  · exact h.of_conns e
  · exact (h.stopListeners app mb).of_conns e

theorem Own.mailboxClose {c : Nat} {P : Conn → Prop} {s : Sys} (h : s.Own c P) (app mb side mood t)
    (hP : ∀ y, P y → P (stopC app mb y)) : (s.mailboxClose app mb side mood t).1.Own c P := by
  rcases mailboxClose_conns s app mb side mood t with ⟨e, _⟩ | ⟨e, _⟩
  · exact h.of_conns e
  · exact (h.stopListeners app mb hP).of_conns e

/-- with unique connection ids the record found for `c` is the only one with that id -/
theorem own_eq_of_find {s : Sys} (hids : s.conns.Pairwise (fun a b => ¬ a.id = b.id)) {c : Nat} {x : Conn}
    (hx : s.findConn c = some x) : s.Own c (fun y => y = x) := by
  intro y hy e
  exact Chan.eq_of_pairwise_ne hids hy (findConn_mem hx) (e.trans (findConn_id hx).symm)

/-! ### the handlers that never touch `mailbox` / `mailboxId` -/

section simple
variable {s : Sys} {x : Conn}

theorem handlePing_handleId (h : s.HandleId) {c v} : (s.handlePing c v).HandleId := by
  unfold handlePing; split <;> exact h.of_conns rfl

theorem handleBind_handleId (h : s.HandleId) {t a sd i v} : (s.handleBind x t a sd i v).HandleId := by
  unfold handleBind
  split
  · exact h.of_conns rfl
  · split
    · exact h.of_conns rfl
    · split
      · exact h.of_conns rfl
      · exact (h.updConn (c := x.id) (f := fun y => { y with app := some _, side := some _ })
          (fun y hy => hy)).of_conns (logClientVersion_conns _ _ _ _ _ _)

theorem handleList_handleId (h : s.HandleId) {app} : (s.handleList x app).HandleId := h.of_conns rfl

theorem handleAllocate_handleId (h : s.HandleId) {app side t pick draws fresh} :
    (s.handleAllocate x app side t pick draws fresh).HandleId := by
  unfold handleAllocate
  split
  · exact h.of_conns rfl
  · split
    · exact h.of_conns rfl
    · rename_i name _
      have hc := claimNameplate_conns s app name side t fresh
      split <;> rename_i heq <;> rw [heq] at hc
      · exact ((h.of_conns hc).updConn (c := x.id) (f := fun y => { y with didAllocate := true })
          (fun y hy => hy)).of_conns rfl
      · exact h.of_conns hc
      · exact h.of_conns hc
      · exact h.of_conns hc

theorem handleClaim_handleId (h : s.HandleId) {app side t nameplate fresh} :
    (s.handleClaim x app side t nameplate fresh).HandleId := by
  unfold handleClaim
  split
  · exact h.of_conns rfl
  · rename_i name
    split
    · exact h.of_conns rfl
    · have h0 : (s.updConn x.id (fun y => { y with didClaim := true, nameplateId := some name })).HandleId :=
        h.updConn (fun y hy => hy)
      have hc := claimNameplate_conns (s.updConn x.id (fun y => { y with didClaim := true, nameplateId := some name }))
        app name side t fresh
      simp only []
      split <;> rename_i heq <;> rw [heq] at hc <;> exact h0.of_conns hc

theorem handleRelease_handleId (h : s.HandleId) {app side t n} : (s.handleRelease x app side t n).HandleId := by
  have hgo : ∀ name, HandleId
      (match (s.updConn x.id (fun y => { y with didRelease := true })).releaseNameplate app name side t with
        | (s1, true) => s1.send x.id .released
        | (s1, false) => s1.internalErr x.id "IndexError") := by
    intro name
    have h0 : (s.updConn x.id (fun y => { y with didRelease := true })).HandleId := h.updConn (fun y hy => hy)
    have hc := releaseNameplate_conns (s.updConn x.id (fun y => { y with didRelease := true })) app name side t
    split <;> rename_i heq <;> rw [heq] at hc <;> exact h0.of_conns hc
  unfold handleRelease
  split
  · exact h.of_conns rfl
  · simp only []
    split
    · split
      · exact h.of_conns rfl
      · exact hgo _
    · exact hgo _
    · exact hgo _
    · exact h.of_conns rfl

theorem handleAdd_handleId (h : s.HandleId) {app side t id ph bd} : (s.handleAdd x app side t id ph bd).HandleId := by
  unfold handleAdd
  split
  · exact h.of_conns rfl
  · split
    · exact h.of_conns rfl
    · split
      · exact h.of_conns rfl
      · exact h.of_conns (by rw [broadcast_conns]; exact addMessage_conns)

end simple

/-! ### `open` and `close` -/

theorem handleOpen_handleId {s : Sys} {x : Conn} (h : s.HandleId) (hown : s.Own x.id (fun y => y = x))
    {app side t mailbox} : (s.handleOpen x app side t mailbox).HandleId := by
  unfold handleOpen
  split
  · exact h.of_conns rfl
  · rename_i hxm
    have hxm : x.mailbox = none := by simpa using hxm
    split
    · exact h.of_conns rfl
    · rename_i mb
      obtain ⟨hE, _⟩ := h.split x.id
      have hE0 : (s.updConn x.id (fun y => { y with mailboxId := some mb })).HExcept x.id :=
        hE.updConn (fun _ => rfl)
      have hO0 : (s.updConn x.id (fun y => { y with mailboxId := some mb })).Own x.id
          (fun y => y.mailbox = none ∧ y.mailboxId = some mb) :=
        hown.updConn (fun y hy => by subst hy; exact ⟨hxm, rfl⟩)
      have hc := openMailbox_conns (s.updConn x.id (fun y => { y with mailboxId := some mb })) app mb side t
      simp only []
      split <;> rename_i heq <;> rw [heq] at hc
      · exact HandleId.join (hE0.of_conns hc) (hO0.of_conns hc) (fun y hy _ e => by rw [hy.1] at e; cases e)
      · exact HandleId.join (hE0.of_conns hc) (hO0.of_conns hc) (fun y hy _ e => by rw [hy.1] at e; cases e)
      · rename_i s1
        have hE1 : (s1.updConn x.id (fun y => { y with mailbox := some mb, listening := true })).HExcept x.id :=
          (hE0.of_conns hc).updConn (fun _ => rfl)
        have hO1 : (s1.updConn x.id (fun y => { y with mailbox := some mb, listening := true })).Own x.id
            (fun y => y.mailbox = some mb ∧ y.mailboxId = some mb) :=
          (hO0.of_conns hc).updConn (fun y hy => ⟨rfl, hy.2⟩)
        refine HandleId.join (hE1.of_conns (replay_conns _ _ _)) (hO1.of_conns (replay_conns _ _ _)) ?_
        intro y hy _ e
        rw [hy.1] at e
        cases e
        exact hy.2

theorem openMailbox_npHasSide {s : Sys} (hN : s.db.NpHasSide) (app mb side : String) (t : Time) :
    (s.openMailbox app mb side t).1.db.NpHasSide := by
  cases e : s.openMailbox app mb side t with
  | mk s1 r =>
    have hd := (openMailbox_spec e).1.np
    simp only [Chan.npPart, Prod.mk.injEq] at hd
    show s1.db.NpHasSide
    unfold Chan.NpHasSide
    rw [hd.1, hd.2.1]
    exact hN

theorem handleClose_handleId {s : Sys} {x : Conn} (h : s.HandleId)
    (hN : s.db.NpHasSide) {app side t m mood} : (s.handleClose x app side t m mood).HandleId := by
  obtain ⟨hE, hO⟩ := h.split x.id
  have hstop : ∀ (a k : String) (y : Conn), y.HandleOk → (stopC a k y).HandleOk := fun a k y => stopC_handleOk
  have hgo : ∀ mb, HandleId
      (match (match x.mailbox with
          | some h => (s, OpenRes.ok, h)
          | none =>
            match s.openMailbox app mb side t with
            | (s1, r) =>
              (s1.updConn x.id (fun y => if r = .ok then { y with mailbox := some mb } else y), r, mb)
          : Sys × OpenRes × String) with
      | (s1, .crowded, _) => s1.sendError x.id "crowded"
      | (s1, .integrity, _) => s1.internalErr x.id "IntegrityError"
      | (s1, .ok, h) =>
        match (s1.updConn x.id (fun y => { y with listening := false, didClose := true })).mailboxClose
            app h side mood t with
        | (s3, false) => s3.internalErr x.id "IndexError"
        | (s3, true) => (s3.updConn x.id (fun y => { y with mailbox := none })).send x.id .closed) := by
    intro mb
    -- after the (possible) implicit open: the others are fine; own record fine unless the open
    -- answered ok; the nameplate tables are untouched
    have hop : ∀ s1 r hh, (match x.mailbox with
          | some h => (s, OpenRes.ok, h)
          | none =>
            match s.openMailbox app mb side t with
            | (s1, r) =>
              (s1.updConn x.id (fun y => if r = .ok then { y with mailbox := some mb } else y), r, mb)
          : Sys × OpenRes × String) = (s1, r, hh) →
        s1.HExcept x.id ∧ s1.db.NpHasSide ∧ (r ≠ .ok → s1.Own x.id Conn.HandleOk) := by
      intro s1 r hh heq
      split at heq
      · cases heq
        exact ⟨hE, hN, fun _ => hO⟩
      · split at heq
        rename_i s1' r' hom
        cases heq
        have hc := openMailbox_conns s app mb side t
        have hn := openMailbox_npHasSide hN app mb side t
        rw [hom] at hc hn
        refine ⟨(hE.of_conns hc).updConn (fun y => by split <;> rfl), hn, ?_⟩
        intro hr
        exact (hO.of_conns hc).updConn (fun y hy => by rw [if_neg hr]; exact hy)
    split <;> rename_i heq <;> obtain ⟨hE1, hN1, hO1⟩ := hop _ _ _ heq
    · exact HandleId.join (hE1.of_conns rfl) ((hO1 (by simp)).of_conns rfl) (fun _ hy => hy)
    · exact HandleId.join (hE1.of_conns rfl) ((hO1 (by simp)).of_conns rfl) (fun _ hy => hy)
    · rename_i _ s1 hh
      have hE2 : (s1.updConn x.id (fun y => { y with listening := false, didClose := true })).HExcept x.id :=
        hE1.updConn (fun _ => rfl)
      have htrue := mailboxClose_true (s1.updConn x.id (fun y => { y with listening := false, didClose := true }))
        app hh side mood t hN1
      have hE3 := hE2.mailboxClose app hh side mood t
      split <;> rename_i heq2 <;> rw [heq2] at htrue hE3
      · cases htrue
      · rename_i s3
        have hE4 : (s3.updConn x.id (fun y => { y with mailbox := none })).HExcept x.id :=
          hE3.updConn (fun _ => rfl)
        have hO4 : (s3.updConn x.id (fun y => { y with mailbox := none })).Own x.id (fun y => y.mailbox = none) :=
          (show s3.Own x.id (fun _ => True) from fun _ _ _ => trivial).updConn (fun _ _ => rfl)
        exact HandleId.join (hE4.of_conns rfl) (hO4.of_conns rfl) (fun y hy _ e => by rw [hy] at e; cases e)
  unfold handleClose
  split
  · exact h.of_conns rfl
  · simp only []
    split
    · split
      · exact h.of_conns rfl
      · exact hgo _
    · exact hgo _
    · exact hgo _
    · exact h.of_conns rfl

/-! ### `onMessage`, one step, every reachable state -/

theorem onMessage_handleId {s : Sys} (h : s.HandleId) (hids : s.conns.Pairwise (fun a b => ¬ a.id = b.id))
    (hN : s.db.NpHasSide) (c : Nat) (t : Time) (id : Val) (cmd : Cmd) : (s.onMessage c t id cmd).HandleId := by
  unfold onMessage
  cases hx : s.findConn c with
  | none => exact h
  | some x =>
    have hown0 : s.Own x.id (fun y => y = x) := by
      rw [findConn_id hx]; exact own_eq_of_find hids hx
    have h1 : (s.send c (.ack id)).HandleId := h.of_conns rfl
    have hown : (s.send c (.ack id)).Own x.id (fun y => y = x) := hown0.of_conns rfl
    have hN1 : (s.send c (.ack id)).db.NpHasSide := hN
    cases cmd with
    | noType => exact h.of_conns rfl
    | ping v => exact handlePing_handleId h1
    | bind a sd i v => exact handleBind_handleId h1
    | unknown => cases happ : x.app <;> simp only [happ] <;> exact h1.of_conns rfl
    | list =>
      cases happ : x.app <;> simp only [happ]
      · exact h1.of_conns rfl
      · exact handleList_handleId h1
    | allocate p d f =>
      cases happ : x.app <;> simp only [happ]
      · exact h1.of_conns rfl
      · exact handleAllocate_handleId h1
    | claim n f =>
      cases happ : x.app <;> simp only [happ]
      · exact h1.of_conns rfl
      · exact handleClaim_handleId h1
    | release n =>
      cases happ : x.app <;> simp only [happ]
      · exact h1.of_conns rfl
      · exact handleRelease_handleId h1
    | open_ m =>
      cases happ : x.app <;> simp only [happ]
      · exact h1.of_conns rfl
      · exact handleOpen_handleId h1 hown
    | add ph bd =>
      cases happ : x.app <;> simp only [happ]
      · exact h1.of_conns rfl
      · exact handleAdd_handleId h1
    | close m mood =>
      cases happ : x.app <;> simp only [happ]
      · exact h1.of_conns rfl
      · exact handleClose_handleId h1 hN1

theorem stepPlain_handleId {s : Sys} (h : s.HandleId) (hids : s.conns.Pairwise (fun a b => ¬ a.id = b.id))
    (hN : s.db.NpHasSide) (op : Op) : (s.stepPlain op).HandleId := by
  cases op with
  | connect c =>
    intro y hy
    have hy' : y ∈ s.conns ++ [({ id := c } : Conn)] := hy
    rcases List.mem_append.1 hy' with hy | hy
    · exact h y hy
    · rw [List.mem_singleton] at hy
      subst hy
      intro _ e; cases e
  | recv c t id cmd => exact onMessage_handleId h hids hN c t id cmd
  | drop c =>
    intro y hy
    exact h y (List.mem_filter.1 hy).1
  | sweep now fault => exact h.of_conns (expire_conns s now fault)
  | restart t =>
    intro y hy
    have : y ∈ ([] : List Conn) := hy
    cases this
  | crashIn k op => exact h

end Sys

namespace GSys

/-- one step preserves the invariant (for states satisfying the global invariant; crashes included) -/
theorem handleId_step {g : GSys} (hI : g.GInv) (h : g.sys.HandleId) (op : Op) : (g.step op).sys.HandleId := by
  show (g.sys.step op).HandleId
  cases hc : op.isCrash with
  | false =>
    rw [Sys.step_eq_of_not_crash g.sys hc]
    exact Sys.stepPlain_handleId (s := { g.sys with out := [], snaps := [] }) h hI.conn.ids hI.cinv.npHasSide op
  | true =>
    cases op with
    | crashIn k op' =>
      obtain ⟨_, _, _, _, _, _, e⟩ := step_crash_spec g.sys k op'
      intro y hy
      rw [e] at hy
      cases hy
    | _ => simp [Op.isCrash] at hc

/-- **in every reachable state a held handle is the handle of the remembered mailbox id** -/
theorem Reach.handleId {g : GSys} (hr : g.Reach) :
    ∀ x ∈ g.sys.conns, ∀ h, x.mailbox = some h → x.mailboxId = some h := by
  induction hr with
  | init cfg rb =>
    intro x hx
    have : x ∈ ([] : List Conn) := hx
    cases this
  | step op hr' _ ih => exact handleId_step hr'.ginv ih op

end GSys
end Wormhole
