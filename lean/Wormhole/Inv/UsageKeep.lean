/-
  The growth phase of an operation: the statements that only add rows or set fields
  (`_add_mailbox`, `Mailbox.open`, `_add_message`, `claim_nameplate`, the handlers built from
  them) write no usage `nameplates` / `mailboxes` row and delete no nameplate / mailbox row.

  `Keep B U0 cl s`: the two usage tables are those of `U0`, `client_versions` is `U0.clients ++ cl`,
  and every nameplate row id / mailbox id of `B` is still in the channel database of `s`.
-/
import Wormhole.Inv.UsageDefs
import Wormhole.Props.C17

namespace Wormhole

/-- the INSERT / UPDATE statements of the growth phase -/
inductive InsPrim : (Chan → Chan) → Prop
  | insMailbox (r) : InsPrim (fun d => d.insMailbox r)
  | insMbSide (r) : InsPrim (fun d => d.insMbSide r)
  | touch (mb t) : InsPrim (fun d => d.touch mb t)
  | insMessage (r) : InsPrim (fun d => d.insMessage r)
  | insNameplate (a n m) : InsPrim (fun d => d.insNameplate a n m)
  | insNpSide (r) : InsPrim (fun d => d.insNpSide r)

theorem InsPrim.ids {f : Chan → Chan} (hf : InsPrim f) (d : Chan) :
    (∀ i ∈ d.nameplates.map (·.id), i ∈ (f d).nameplates.map (·.id)) ∧
    (∀ i ∈ d.mailboxes.map (·.id), i ∈ (f d).mailboxes.map (·.id)) := by
  cases hf with
  | insMailbox r =>
    refine ⟨fun i h => h, fun i h => ?_⟩
    simp only [Chan.insMailbox, List.map_append, List.mem_append]
    exact Or.inl h
  | insMbSide r => exact ⟨fun i h => h, fun i h => h⟩
  | touch mb t =>
    refine ⟨fun i h => h, fun i h => ?_⟩
    simp only [Chan.touch, List.map_map]
    have : ((fun (x : MailboxRow) => x.id) ∘ fun (r : MailboxRow) => if r.id = mb then { r with updated := t } else r)
        = fun x => x.id := by
      funext r
      simp only [Function.comp]
      split <;> rfl
    rw [this]; exact h
  | insMessage r => exact ⟨fun i h => h, fun i h => h⟩
  | insNameplate a n m =>
    refine ⟨fun i h => ?_, fun i h => h⟩
    simp only [Chan.insNameplate, List.map_append, List.mem_append]
    exact Or.inl h
  | insNpSide r => exact ⟨fun i h => h, fun i h => h⟩

namespace Sys

structure Keep (B : Chan) (U0 : Usage) (cl : List UClient) (s : Sys) : Prop where
  unp : s.udb.nameplates = U0.nameplates
  umb : s.udb.mailboxes = U0.mailboxes
  ucl : s.udb.clients = U0.clients ++ cl
  np : ∀ n ∈ B.nameplates, n.id ∈ s.db.nameplates.map (·.id)
  mb : ∀ m ∈ B.mailboxes, m.id ∈ s.db.mailboxes.map (·.id)

variable {B : Chan} {U0 : Usage} {cl : List UClient}

theorem Keep.start (s : Sys) : Keep s.db s.udb [] s :=
  ⟨rfl, rfl, by simp, fun n hn => List.mem_map.2 ⟨n, hn, rfl⟩, fun n hn => List.mem_map.2 ⟨n, hn, rfl⟩⟩

theorem Keep.of_eq {s s' : Sys} (h : Keep B U0 cl s) (hd : s'.db = s.db) (hu : s'.udb = s.udb) :
    Keep B U0 cl s' := by
  obtain ⟨a, b, c, d, e⟩ := h
  exact ⟨by rw [hu]; exact a, by rw [hu]; exact b, by rw [hu]; exact c, by rw [hd]; exact d, by rw [hd]; exact e⟩

theorem Keep.ins {s : Sys} (h : Keep B U0 cl s) {f : Chan → Chan} (hf : InsPrim f) : Keep B U0 cl (s.modDb f) :=
  ⟨h.unp, h.umb, h.ucl, fun n hn => (hf.ids s.db).1 _ (h.np n hn), fun m hm => (hf.ids s.db).2 _ (h.mb m hm)⟩

theorem Keep.emit {s : Sys} (h : Keep B U0 cl s) (e) : Keep B U0 cl (s.emit e) := h.of_eq rfl rfl
theorem Keep.send {s : Sys} (h : Keep B U0 cl s) (c f) : Keep B U0 cl (s.send c f) := h.of_eq rfl rfl
theorem Keep.sendError {s : Sys} (h : Keep B U0 cl s) (c x) : Keep B U0 cl (s.sendError c x) := h.of_eq rfl rfl
theorem Keep.internalErr {s : Sys} (h : Keep B U0 cl s) (c x) : Keep B U0 cl (s.internalErr c x) :=
  h.of_eq rfl rfl
theorem Keep.updConn {s : Sys} (h : Keep B U0 cl s) (c f) : Keep B U0 cl (s.updConn c f) := h.of_eq rfl rfl
theorem Keep.commit {s : Sys} (h : Keep B U0 cl s) : Keep B U0 cl s.commit := h.of_eq (by simp) (by simp)
theorem Keep.ucommit {s : Sys} (h : Keep B U0 cl s) : Keep B U0 cl s.ucommit := h.of_eq (by simp) (by simp)

theorem Keep.foldl_send {α : Type} (g : α → Nat) (fr : α → Frame) (l : List α) :
    ∀ {s : Sys}, Keep B U0 cl s → Keep B U0 cl (l.foldl (fun s a => s.send (g a) (fr a)) s) := by
  induction l with
  | nil => intro s h; exact h
  | cons a l ih => intro s h; exact ih (h.send _ _)

theorem Keep.replay {s : Sys} (h : Keep B U0 cl s) (c app mb) : Keep B U0 cl (s.replay c app mb) := by
  unfold Sys.replay
  exact Keep.foldl_send (fun _ => c) (fun (m : Message) => .message m.side m.phase m.body m.rx m.msgId) _ h

theorem Keep.broadcast {s : Sys} (h : Keep B U0 cl s) (app mb f) : Keep B U0 cl (s.broadcast app mb f) := by
  unfold Sys.broadcast
  exact Keep.foldl_send (fun c => c) (fun _ => f) _ h

theorem Keep.mailboxOpen {s : Sys} (h : Keep B U0 cl s) (mb side t) : Keep B U0 cl (s.mailboxOpen mb side t) := by
  unfold Sys.mailboxOpen
  split
  · exact ((h.ins (.insMbSide _)).ins (.touch _ _)).commit
  · exact (h.ins (.touch _ _)).commit

theorem Keep.addMailbox {s s1 : Sys} (h : Keep B U0 cl s) {app mb forNp t}
    (e : s.addMailbox app mb forNp t = some s1) : Keep B U0 cl s1 := by
  unfold Sys.addMailbox at e
  split at e
  · cases e; exact h
  · split at e
    · cases e
    · cases e; exact h.ins (.insMailbox _)

theorem Keep.openMailbox {s : Sys} (h : Keep B U0 cl s) (app mb side t) :
    Keep B U0 cl (s.openMailbox app mb side t).1 := by
  unfold Sys.openMailbox
  split
  · exact h
  · rename_i s1 e
    have h2 := ((h.addMailbox e).mailboxOpen mb side t).commit
    dsimp only
    split <;> exact h2

theorem Keep.addMessage {s : Sys} (h : Keep B U0 cl s) (app mb side ph bd t id) :
    Keep B U0 cl (s.addMessage app mb side ph bd t id) := by
  unfold Sys.addMessage
  exact ((h.ins (.insMessage _)).ins (.touch _ _)).commit

theorem Keep.claimCont {s : Sys} (h : Keep B U0 cl s) (app npid mb side t) :
    Keep B U0 cl (claimCont s app npid mb side t).1 := by
  unfold Sys.claimCont
  have h3 := h.commit.openMailbox app mb side t
  dsimp only
  split
  all_goals
    rename_i e
    rw [e] at h3
  · exact h3
  · exact h3
  · split <;> exact h3

theorem Keep.claimTail {s : Sys} (h : Keep B U0 cl s) (app npid mb side t) :
    Keep B U0 cl (s.claimTail app npid mb side t).1 := by
  rw [claimTail_eq]
  split
  · exact (h.ins (.insNpSide _)).claimCont _ _ _ _ _
  · split
    · exact h.claimCont _ _ _ _ _
    · exact h

theorem Keep.claimNameplate {s : Sys} (h : Keep B U0 cl s) (app name side t fresh) :
    Keep B U0 cl (s.claimNameplate app name side t fresh).1 := by
  unfold Sys.claimNameplate
  split
  · split
    · exact h
    · rename_i s1 e
      exact ((h.addMailbox e).ins (.insNameplate _ _ _)).claimTail _ _ _ _ _
  · exact h.claimTail _ _ _ _ _

theorem Keep.handlePing {s : Sys} (h : Keep B U0 cl s) (c v) : Keep B U0 cl (s.handlePing c v) := by
  unfold Sys.handlePing; split
  · exact h.sendError _ _
  · exact h.send _ _

theorem Keep.handleList {s : Sys} (h : Keep B U0 cl s) (x app) : Keep B U0 cl (s.handleList x app) :=
  h.send _ _

theorem Keep.handleAllocate {s : Sys} (h : Keep B U0 cl s) (x app side t pick draws fresh) :
    Keep B U0 cl (s.handleAllocate x app side t pick draws fresh) := by
  unfold Sys.handleAllocate
  split
  · exact h.sendError _ _
  · split
    · exact h.internalErr _ _
    · rename_i name _
      have h1 := h.claimNameplate app name side t fresh
      split
      all_goals
        rename_i e
        rw [e] at h1
      · exact (h1.updConn _ _).send _ _
      · exact h1.internalErr _ _
      · exact h1.internalErr _ _
      · exact h1.internalErr _ _

theorem Keep.handleClaim {s : Sys} (h : Keep B U0 cl s) (x app side t n fresh) :
    Keep B U0 cl (s.handleClaim x app side t n fresh) := by
  unfold Sys.handleClaim
  split
  · exact h.sendError _ _
  · rename_i name
    split
    · exact h.sendError _ _
    · have h1 := (h.updConn x.id (fun y => { y with didClaim := true, nameplateId := some name })).claimNameplate
        app name side t fresh
      dsimp only
      split
      all_goals
        rename_i e
        rw [e] at h1
      · exact h1.send _ _
      · exact h1.sendError _ _
      · exact h1.sendError _ _
      · exact h1.internalErr _ _

theorem Keep.handleOpen {s : Sys} (h : Keep B U0 cl s) (x app side t m) :
    Keep B U0 cl (s.handleOpen x app side t m) := by
  unfold Sys.handleOpen
  split
  · exact h.sendError _ _
  · split
    · exact h.sendError _ _
    · rename_i mb
      have h1 := (h.updConn x.id (fun y => { y with mailboxId := some mb })).openMailbox app mb side t
      dsimp only
      split
      all_goals
        rename_i e
        rw [e] at h1
      · exact h1.sendError _ _
      · exact h1.internalErr _ _
      · exact (h1.updConn _ _).replay _ _ _

theorem Keep.handleAdd {s : Sys} (h : Keep B U0 cl s) (x app side t id ph bd) :
    Keep B U0 cl (s.handleAdd x app side t id ph bd) := by
  unfold Sys.handleAdd
  split
  · exact h.sendError _ _
  · split
    · exact h.sendError _ _
    · split
      · exact h.sendError _ _
      · exact (h.addMessage _ _ _ _ _ _ _).broadcast _ _ _

/-- the `client_versions` row an accepted `bind` writes -/
def bindRows (s : Sys) (x : Conn) (t : Time) (a sd i v : Option String) : List UClient :=
  match a, sd with
  | some a, some sd =>
    if s.cfg.usage ∧ ¬ (x.app.isSome ∨ (x.side.isSome ∧ x.side ≠ some "")) then [⟨a, sd, s.blurTime t, i, v⟩]
    else []
  | _, _ => []

theorem Keep.handleBind {s : Sys} (h : Keep B U0 [] s) (x t a sd i v) :
    Keep B U0 (bindRows s x t a sd i v) (s.handleBind x t a sd i v) := by
  by_cases hb : x.app.isSome ∨ (x.side.isSome ∧ x.side ≠ some "")
  · have e1 : s.handleBind x t a sd i v = s.sendError x.id "already bound" := by
      unfold Sys.handleBind; rw [if_pos hb]
    have e2 : bindRows s x t a sd i v = [] := by
      unfold bindRows; cases a <;> cases sd <;> simp [hb]
    rw [e1, e2]; exact h.sendError _ _
  · cases a with
    | none =>
      have e1 : s.handleBind x t none sd i v = s.sendError x.id "bind requires 'appid'" := by
        unfold Sys.handleBind; rw [if_neg hb]
      rw [e1]; exact h.sendError _ _
    | some a' =>
      cases sd with
      | none =>
        have e1 : s.handleBind x t (some a') none i v = s.sendError x.id "bind requires 'side'" := by
          unfold Sys.handleBind; rw [if_neg hb]
        rw [e1]; exact h.sendError _ _
      | some sd' =>
        have e1 : s.handleBind x t (some a') (some sd') i v =
            (s.updConn x.id (fun y => { y with app := some a', side := some sd' })).logClientVersion a' sd' t i v := by
          unfold Sys.handleBind; rw [if_neg hb]
        rw [e1]
        unfold Sys.logClientVersion bindRows
        simp only [updConn_cfg]
        have h1 := h.updConn x.id (fun y => { y with app := some a', side := some sd' })
        by_cases hu : s.cfg.usage = true
        · simp only [hu, hb, if_true, not_false_eq_true, and_self]
          apply Keep.ucommit
          refine ⟨h1.unp, h1.umb, ?_, h1.np, h1.mb⟩
          simp only [modUdb_udb, updConn_udb]
          rw [h.ucl]
          have : (s.updConn x.id fun y => { y with app := some a', side := some sd' }).blurTime = s.blurTime :=
            blurTime_congr rfl
          rw [this]
          simp
        · have hu' : s.cfg.usage = false := by simpa using hu
          simp only [hu', Bool.false_eq_true, if_false, false_and]
          exact h1

/-- the `client_versions` rows a command received on connection `c` writes -/
def cmdClients (s : Sys) (c : Nat) (t : Time) : Cmd → List UClient
  | .bind a sd i v =>
    match s.findConn c with
    | some x => bindRows s x t a sd i v
    | none => []
  | _ => []

/-- `onMessage` for the commands other than `release` and `close` -/
theorem Keep.onMessage {s : Sys} (h : Keep B U0 [] s) (c : Nat) (t : Time) (id : Val) {cmd : Cmd}
    (hrel : ∀ n, cmd ≠ .release n) (hclose : ∀ m mood, cmd ≠ .close m mood) :
    Keep B U0 (s.cmdClients c t cmd) (s.onMessage c t id cmd) := by
  unfold Sys.onMessage cmdClients
  cases hx : s.findConn c with
  | none => cases cmd <;> exact h
  | some x =>
    have ha : Keep B U0 [] (s.send c (.ack id)) := h.send _ _
    have hbl : (s.send c (.ack id)).blurTime = s.blurTime := blurTime_congr rfl
    cases cmd with
    | noType => exact h.sendError _ _
    | unknown =>
      dsimp only
      split
      · exact ha.sendError _ _
      · exact ha.sendError _ _
    | ping v => exact ha.handlePing _ _
    | bind a sd i v =>
      have := ha.handleBind x t a sd i v
      simp only [bindRows, hbl] at this
      exact this
    | list =>
      dsimp only
      split
      · exact ha.sendError _ _
      · exact ha.handleList _ _
    | allocate p d f =>
      dsimp only
      split
      · exact ha.sendError _ _
      · exact ha.handleAllocate _ _ _ _ _ _ _
    | claim n f =>
      dsimp only
      split
      · exact ha.sendError _ _
      · exact ha.handleClaim _ _ _ _ _ _
    | release n => exact absurd rfl (hrel n)
    | open_ m =>
      dsimp only
      split
      · exact ha.sendError _ _
      · exact ha.handleOpen _ _ _ _ _
    | add ph bd =>
      dsimp only
      split
      · exact ha.sendError _ _
      · exact ha.handleAdd _ _ _ _ _ _ _
    | close m mood => exact absurd rfl (hclose m mood)

end Sys
end Wormhole
