/-
  The expiry sweep against the registry: the touch loop over `self._mailboxes.values()` touches
  exactly the rows `Sys.touchListened` touches; `prune_all_apps` with its `get_app` / `del
  self._apps[app_id]` is `Sys.pruneApps`; `dump_stats` writes the number of listening connections.

  `Sys`-side facts used (all part of `Sys.Good`, Inv/StepInv.lean, which every sweep preserves):
  a listening connection's handle points at a mailbox row of its app, and `mailboxes.id` is unique.
-/
import Wormhole.Inv.RegStep
import Wormhole.Inv.StepInv

set_option linter.unusedSimpArgs false

namespace Wormhole
namespace RSys

/-! ### the touch loop -/

/-- the mailbox ids the loop touches: those of the objects with a listener, in dict order -/
def touchIds (r : RSys) (l : List (String × Nat)) : List String :=
  (l.filter (fun p => match r.findMb p.2 with | some k => decide (k.listeners ≠ []) | none => false)).map (·.1)

/-- `UPDATE mailboxes SET updated=now WHERE id=?` for every id of the list -/
def touchAll (ids : List String) (now : Time) (d : Chan) : Chan := ids.foldl (fun d m => d.touch m now) d

theorem touchAll_eq (now : Time) (ids : List String) : ∀ d : Chan,
    touchAll ids now d =
      { d with mailboxes := d.mailboxes.map (fun row => if row.id ∈ ids then { row with updated := now } else row) } := by
  induction ids with
  | nil => intro d; simp [touchAll]
  | cons m rest ih =>
    intro d
    unfold touchAll at ih ⊢
    rw [List.foldl_cons, ih]
    simp only [Chan.touch, List.map_map]
    congr 1
    apply List.map_congr_left
    intro row _
    simp only [Function.comp, List.mem_cons]
    by_cases e1 : row.id = m
    · by_cases e2 : row.id ∈ rest <;> simp [e1, e2]
    · by_cases e2 : row.id ∈ rest <;> simp [e1, e2]

theorem touchLoop_eq (now : Time) (l : List (String × Nat)) : ∀ (r : RSys), r.RegInv →
    (∀ p ∈ l, ∃ k ∈ r.mbs, k.oid = p.2 ∧ k.mailboxId = p.1) →
    r.touchLoop now l = r.onCore (fun s => s.modDb (touchAll (r.touchIds l) now)) := by
  induction l with
  | nil => intro r _ _; rfl
  | cons p rest ih =>
    intro r h hl
    obtain ⟨k, hk, e1, e2⟩ := hl p (List.mem_cons_self)
    have hf : r.findMb p.2 = some k := (findMb_eq_some h).2 ⟨hk, e1⟩
    unfold touchLoop
    rw [hf]
    dsimp only
    have hrest : ∀ q ∈ rest, ∃ k ∈ r.mbs, k.oid = q.2 ∧ k.mailboxId = q.1 := fun q hq => hl q (List.mem_cons_of_mem _ hq)
    by_cases hne : k.listeners ≠ []
    · rw [if_pos hne, ih _ (h.onCore _) hrest]
      have : r.touchIds (p :: rest) = p.1 :: r.touchIds rest := by
        have hd : decide (k.listeners ≠ []) = true := decide_eq_true hne
        simp only [touchIds, List.filter_cons, hf, hd, if_true, List.map_cons]
      rw [this]
      have t2 : (r.onCore (fun s => s.modDb (·.touch k.mailboxId now))).touchIds rest = r.touchIds rest := rfl
      rw [t2, e2]
      rfl
    · rw [if_neg hne, ih _ h hrest]
      have : r.touchIds (p :: rest) = r.touchIds rest := by
        have hd : decide (k.listeners ≠ []) = false := decide_eq_false hne
        simp only [touchIds, List.filter_cons, hf, hd, Bool.false_eq_true, if_false]
      rw [this]

/-- what the `Sys` side must know for the touch loops to agree -/
structure TouchOk (s : Sys) : Prop where
  lh : s.LHandleOk
  mbIds : s.db.mailboxes.Pairwise (fun a b => ¬ a.id = b.id)

/-- the touch loop over the registered namespace of `app` touches exactly the mailboxes
    `Sys.touchListened` touches -/
theorem touchLoop_spec {r : RSys} (h : r.RegInv) (hs : TouchOk r.abs) {ns : Ns} (hns : ns ∈ r.nss)
    (hreg : (ns.app, ns.oid) ∈ r.apps) (now : Time) :
    (r.touchLoop now ns.boxes).abs = r.abs.touchListened ns.app now ∧
    r.touchLoop now ns.boxes = r.onCore (fun s => s.modDb (touchAll (r.touchIds ns.boxes) now)) := by
  have hl : ∀ p ∈ ns.boxes, ∃ k ∈ r.mbs, k.oid = p.2 ∧ k.mailboxId = p.1 := by
    intro p hp
    obtain ⟨k, hk, e1, _, _, e4⟩ := h.boxesMb ns hns p hp
    exact ⟨k, hk, e1, e4⟩
  have heq := touchLoop_eq now ns.boxes r h hl
  refine ⟨?_, heq⟩
  rw [heq, abs_onCore _ _ (by intro s cs; rfl)]
  unfold Sys.touchListened Sys.modDb
  rw [touchAll_eq]
  simp only [Sys.mk.injEq, true_and, and_true, Chan.mk.injEq, abs_db]
  apply List.map_congr_left
  intro row hrow
  have key : row.id ∈ r.touchIds ns.boxes ↔ (row.app = ns.app ∧ r.abs.listeners ns.app row.id ≠ []) := by
    constructor
    · intro hin
      simp only [touchIds, List.mem_map, List.mem_filter] at hin
      obtain ⟨p, ⟨hp, hlis⟩, e⟩ := hin
      obtain ⟨k, hk, e1, _, e3, e4⟩ := h.boxesMb ns hns p hp
      rw [(findMb_eq_some h).2 ⟨hk, e1⟩] at hlis
      simp only [decide_eq_true_eq] at hlis
      have hregk : r.Registered k.app k.mailboxId k.oid := ⟨ns, hns, by rw [e3]; exact hreg, by rw [e4, e1]; exact hp⟩
      have hperm := h.listeners_perm hk hregk
      rw [e3, e4, e] at hperm
      have hne : r.abs.listeners ns.app row.id ≠ [] := by
        intro h0
        rw [h0] at hperm
        exact hlis (List.Perm.eq_nil hperm)
      refine ⟨?_, hne⟩
      -- a listener's handle points at a row of its app; ids are unique
      cases hc : k.listeners with
      | nil => exact absurd hc hlis
      | cons c _ =>
        obtain ⟨y, hy, ey, hmy⟩ := h.lisConn k hk c (by simp [hc])
        have hyl := (h.listenIff y hy k hk hmy).1 (by rw [ey]; simp [hc])
        have hya := h.heldMem hy hk hmy
        have hmem : absConn r.mbs y ∈ r.abs.conns := List.mem_map.2 ⟨y, hy, rfl⟩
        obtain ⟨a, ha, row', hrow', er1, er2⟩ := hs.lh _ hmem hyl k.mailboxId (absConn_mailbox_eq h hk hmy)
        rw [absConn_app, hya] at ha
        simp only [Option.some.injEq] at ha
        have : row' = row := pw_eq (f := MailboxRow.id) hs.mbIds hrow' hrow (by rw [er1, e4, e])
        subst this
        rw [er2, ← ha, e3]
    · rintro ⟨happ, hne⟩
      -- some connection listens on (app, row.id); it holds the registered object, which is in `ns`
      have : ∃ c, c ∈ r.abs.listeners ns.app row.id := by
        cases hc : r.abs.listeners ns.app row.id with
        | nil => exact absurd hc hne
        | cons c _ => exact ⟨c, by simp⟩
      obtain ⟨c, hc⟩ := this
      simp only [Sys.listeners, List.mem_map, List.mem_filter, decide_eq_true_eq, abs_conns, aconns] at hc
      obtain ⟨z, ⟨hz, hzl, hza, hzm⟩, _⟩ := hc
      obtain ⟨y, hy, rfl⟩ := hz
      rw [absConn_mailbox] at hzm
      cases hmo : y.mailbox with
      | none => rw [hmo] at hzm; cases hzm
      | some o =>
        obtain ⟨k, hk, rfl, hka⟩ := h.heldObj y hy o hmo
        rw [hmo] at hzm
        simp only [Option.bind_some] at hzm
        rw [mbIdOf_eq h hk] at hzm
        simp only [Option.some.injEq] at hzm
        rw [absConn_app] at hza
        rw [hza] at hka
        simp only [Option.some.injEq] at hka
        obtain ⟨ns', hns', ha', hb'⟩ := h.heldReg y hy k hk hmo hzl
        have e1 := pw_eq (f := fun p : String × Nat => p.1) h.appsKey ha' hreg (by simp only; exact hka.symm)
        simp only [Prod.mk.injEq] at e1
        have : ns' = ns := pw_eq (f := Ns.oid) h.nsOids hns' hns e1.2
        subst this
        simp only [touchIds, List.mem_map, List.mem_filter]
        refine ⟨(k.mailboxId, k.oid), ⟨hb', ?_⟩, hzm⟩
        rw [(findMb_eq_some h).2 ⟨hk, rfl⟩]
        simp only [decide_eq_true_eq]
        intro h0
        have := (h.listenIff y hy k hk hmo).2 hzl
        rw [h0] at this
        simp at this
  by_cases hin : row.id ∈ r.touchIds ns.boxes
  · rw [if_pos hin, if_pos (key.1 hin)]
  · rw [if_neg hin, if_neg (fun hc => hin (key.2 hc))]

end RSys
end Wormhole

namespace Wormhole
namespace RSys

/-! ### prune, prune_all_apps -/

theorem TouchOk.of_good {U : String → Prop} {t : Time} {S : Prop} {s : Sys} (g : s.Good U t S) : TouchOk s :=
  ⟨g.lh, g.db.cinv.toPInv.mbIds⟩

/-- the registry components are those of `r` -/
structure SameReg (r r' : RSys) : Prop where
  conns : r'.conns = r.conns
  apps : r'.apps = r.apps
  nss : r'.nss = r.nss
  mbs : r'.mbs = r.mbs
  nextOid : r'.nextOid = r.nextOid

theorem SameReg.regInv {r r' : RSys} (e : SameReg r r') (h : r.RegInv) : r'.RegInv := by
  have : r' = { r with core := r'.core } := by
    cases r'; cases r
    simp only [RSys.mk.injEq, true_and]
    exact ⟨e.conns, e.apps, e.nss, e.mbs, e.nextOid⟩
  rw [this]; exact h.core _

theorem SameReg.aconns {r r' : RSys} (e : SameReg r r') : r'.aconns = r.aconns := by
  unfold RSys.aconns; rw [e.conns, e.mbs]

/-- `AppNamespace.prune` on the registered namespace of `app` -/
theorem prune_spec {r : RSys} (h : r.RegInv) (hs : TouchOk r.abs) {app : String} {n : Nat} (hn : (app, n) ∈ r.apps)
    (now old : Time) :
    SameReg r (r.prune n now old).1 ∧
    (r.prune n now old).1.abs = (r.abs.prune app now old).1 ∧
    (r.prune n now old).2.1 = (r.abs.prune app now old).2 ∧
    ∃ ns ∈ r.nss, ns.oid = n ∧ ns.app = app ∧ (r.prune n now old).2.2 = !ns.boxes.isEmpty := by
  obtain ⟨ns, hns, e1, e2⟩ := h.appsNs _ hn
  simp only at e1 e2
  subst e2
  have hf : r.findNs n = some ns := (findNs_eq_some h).2 ⟨hns, e1⟩
  obtain ⟨t1, t2⟩ := touchLoop_spec h hs hns (by rw [e1]; exact hn) now
  unfold prune
  rw [hf, Sys.prune_eq_tail]
  dsimp only
  rw [t2] at t1 ⊢
  have a1 : ((r.onCore (fun s => s.modDb (touchAll (r.touchIds ns.boxes) now))).onCore (·.commit)).abs =
      (r.abs.touchListened ns.app now).commit := by
    rw [abs_onCore _ _ framed_commit, t1]
  rw [← a1]
  generalize hr1 : (r.onCore (fun s => s.modDb (touchAll (r.touchIds ns.boxes) now))).onCore (·.commit) = r1
  have s1 : SameReg r r1 := by rw [← hr1]; exact ⟨rfl, rfl, rfl, rfl, rfl⟩
  have e : r1.abs.pruneTail ns.app now old =
      ((r1.core.pruneTail ns.app now old).1.setConns r1.aconns, (r1.core.pruneTail ns.app now old).2) := by
    rw [abs_eq', Sys.pruneTail_setConns]
  rw [e]
  exact ⟨⟨s1.conns, s1.apps, s1.nss, s1.mbs, s1.nextOid⟩, rfl, rfl, ns, hns, e1, rfl, rfl⟩

/-- `del self._apps[app_id]` for a namespace without Mailbox objects -/
theorem RegInv.delApp {r : RSys} (h : r.RegInv) {ns : Ns} (hns : ns ∈ r.nss) (hreg : (ns.app, ns.oid) ∈ r.apps)
    (hempty : ns.boxes = []) : ({ r with apps := r.apps.filter (fun p => ¬ p.1 = ns.app) } : RSys).RegInv := by
  have hother : ∀ ns' ∈ r.nss, (ns'.app, ns'.oid) ∈ r.apps → ns'.app = ns.app → ns' = ns := by
    intro ns' hns' hr' ea
    have e1 := pw_eq (f := fun p : String × Nat => p.1) h.appsKey hr' hreg ea
    simp only [Prod.mk.injEq] at e1
    exact pw_eq (f := Ns.oid) h.nsOids hns' hns e1.2
  refine ⟨h.connIds, List.Pairwise.filter _ h.appsKey, h.nsOids, h.mbOids, h.nsBound, h.mbBound, ?_, h.boxesKey,
    h.boxesMb, ?_, h.mbNs, h.heldObj, ?_, h.listenIff, h.lisConn, h.lisNodup⟩
  · intro p hp
    exact h.appsNs p (List.mem_filter.1 hp).1
  · intro ns' hns' hne
    have hr' := h.nsReg ns' hns' hne
    refine List.mem_filter.2 ⟨hr', ?_⟩
    simp only [decide_not, Bool.not_eq_eq_eq_not, Bool.not_true, decide_eq_false_iff_not]
    intro ea
    have := hother ns' hns' hr' ea
    subst this
    exact hne hempty
  · intro x hx k hk hm hl
    obtain ⟨ns', hns', ha', hb'⟩ := h.heldReg x hx k hk hm hl
    refine ⟨ns', hns', List.mem_filter.2 ⟨ha', ?_⟩, hb'⟩
    simp only [decide_not, Bool.not_eq_eq_eq_not, Bool.not_true, decide_eq_false_iff_not]
    intro ea
    obtain ⟨ns2, hns2, e1, e2⟩ := h.appsNs _ ha'
    simp only at e1 e2
    have : ns2 = ns' := pw_eq (f := Ns.oid) h.nsOids hns2 hns' e1
    subst this
    have := hother ns2 hns' (by rw [e2]; exact ha') (by rw [e2]; exact ea)
    subst this
    rw [hempty] at hb'
    cases hb'

/-- `Server.prune_all_apps`, the loop -/
theorem pruneApps_spec {U : String → Prop} {t : Time} {S : Prop} {now old : Time} (hnow : now ≤ t) (hold : old < now)
    (l : List String) : ∀ {r : RSys}, r.RegInv → r.abs.Good U t S →
    (r.pruneApps now old l).1.RegInv ∧
    (r.pruneApps now old l).1.abs = (r.abs.pruneApps now old l).1 ∧
    (r.pruneApps now old l).2 = (r.abs.pruneApps now old l).2 ∧
    (r.pruneApps now old l).1.conns = r.conns ∧ (r.pruneApps now old l).1.mbs = r.mbs := by
  induction l with
  | nil => intro r h _; exact ⟨h, rfl, rfl, rfl, rfl⟩
  | cons app rest ih =>
    intro r h g
    unfold pruneApps Sys.pruneApps
    obtain ⟨j1, j2, j3, j4, _, j6⟩ := getApp_spec h app
    have hs0 : TouchOk (r.getApp app).1.abs := by rw [j2]; exact TouchOk.of_good g
    obtain ⟨p1, p2, p3, ns, hns, en1, en2, p4⟩ := prune_spec j1 hs0 j6 now old
    rw [j2] at p2 p3
    rcases hq : (r.getApp app).1.prune (r.getApp app).2 now old with ⟨r1, ok, inUse⟩
    rcases hsq : r.abs.prune app now old with ⟨s1, ok'⟩
    rw [hq] at p1 p4; rw [hq, hsq] at p2 p3
    simp only at p1 p2 p3 p4
    subst p2 p3
    have h1 : r1.RegInv := p1.regInv j1
    cases ok
    · exact ⟨h1, rfl, rfl, by rw [p1.conns, j3], by rw [p1.mbs, j4]⟩
    · dsimp only
      obtain ⟨g1, _, _, _⟩ := Sys.prune_good g hnow hold hsq
      have hfin : ∀ r2 : RSys, r2.RegInv → r2.abs = r1.abs → r2.conns = r1.conns → r2.mbs = r1.mbs →
          (r2.pruneApps now old rest).1.RegInv ∧
          (r2.pruneApps now old rest).1.abs = (r1.abs.pruneApps now old rest).1 ∧
          (r2.pruneApps now old rest).2 = (r1.abs.pruneApps now old rest).2 ∧
          (r2.pruneApps now old rest).1.conns = r.conns ∧ (r2.pruneApps now old rest).1.mbs = r.mbs := by
        intro r2 h2 a2 c2 m2
        obtain ⟨i1, i2, i3, i4, i5⟩ := ih h2 (by rw [a2]; exact g1)
        rw [a2] at i2 i3
        exact ⟨i1, i2, i3, by rw [i4, c2, p1.conns, j3], by rw [i5, m2, p1.mbs, j4]⟩
      cases hu : inUse
      · -- `del self._apps[app_id]`
        simp only [Bool.false_eq_true, if_false]
        subst hu
        have hb : ns.boxes = [] := by
          cases hbx : ns.boxes with
          | nil => rfl
          | cons _ _ => rw [hbx] at p4; simp at p4
        have hns1 : ns ∈ r1.nss := by rw [p1.nss]; exact hns
        have hreg1 : (ns.app, ns.oid) ∈ r1.apps := by rw [p1.apps, en1, en2]; exact j6
        have := h1.delApp hns1 hreg1 hb
        rw [en2] at this
        exact hfin _ this rfl rfl rfl
      · simp only [if_true]
        exact hfin r1 h1 rfl rfl rfl

end RSys
end Wormhole

namespace Wormhole
namespace RSys

/-! ### dump_stats -/

/-- all listener handles of all registered Mailbox objects, in the order `dump_stats` walks them -/
def allListeners (r : RSys) : List Nat :=
  r.apps.flatMap (fun p => match r.findNs p.2 with
    | some ns => ns.boxes.flatMap (fun q => match r.findMb q.2 with | some k => k.listeners | none => [])
    | none => [])

theorem countListeners_eq (r : RSys) : r.countListeners = r.allListeners.length := by
  unfold countListeners allListeners nsCount
  rw [List.length_flatMap]
  congr 1
  apply List.map_congr_left
  intro p _
  cases r.findNs p.2 with
  | none => rfl
  | some ns =>
    dsimp only
    rw [List.length_flatMap]
    congr 1
    apply List.map_congr_left
    intro q _
    cases r.findMb q.2 <;> rfl

/-- a handle found while walking `_apps[a]` belongs to a registered Mailbox object of app `a` -/
theorem mem_walk {r : RSys} (h : r.RegInv) {p : String × Nat} (hp : p ∈ r.apps) {c : Nat}
    (hc : c ∈ (match r.findNs p.2 with
      | some ns => ns.boxes.flatMap (fun (q : String × Nat) => match r.findMb q.2 with | some k => k.listeners | none => [])
      | none => [])) :
    ∃ k ∈ r.mbs, k.app = p.1 ∧ c ∈ k.listeners := by
  obtain ⟨ns, hns, e1, e2⟩ := h.appsNs p hp
  rw [(findNs_eq_some h).2 ⟨hns, e1⟩] at hc
  simp only [List.mem_flatMap] at hc
  obtain ⟨q, hq, hc⟩ := hc
  obtain ⟨k, hk, e3, _, e5, _⟩ := h.boxesMb ns hns q hq
  rw [(findMb_eq_some h).2 ⟨hk, e3⟩] at hc
  exact ⟨k, hk, by rw [e5, e2], hc⟩

/-- two objects with a common listener are the same object -/
theorem RegInv.same_of_common {r : RSys} (h : r.RegInv) {k1 k2 : MbObj} (h1 : k1 ∈ r.mbs) (h2 : k2 ∈ r.mbs) {c : Nat}
    (c1 : c ∈ k1.listeners) (c2 : c ∈ k2.listeners) : k1 = k2 := by
  obtain ⟨y1, hy1, e1, m1⟩ := h.lisConn k1 h1 c c1
  obtain ⟨y2, hy2, e2, m2⟩ := h.lisConn k2 h2 c c2
  have : y1 = y2 := pw_eq (f := RConn.id) h.connIds hy1 hy2 (by rw [e1, e2])
  subst this
  rw [m1] at m2
  exact pw_eq (f := MbObj.oid) h.mbOids h1 h2 (Option.some.inj m2)

theorem allListeners_nodup {r : RSys} (h : r.RegInv) : r.allListeners.Pairwise (fun a b => ¬ a = b) := by
  unfold allListeners
  rw [List.pairwise_flatMap]
  constructor
  · intro p hp
    obtain ⟨ns, hns, e1, e2⟩ := h.appsNs p hp
    rw [(findNs_eq_some h).2 ⟨hns, e1⟩]
    dsimp only
    rw [List.pairwise_flatMap]
    constructor
    · intro q hq
      obtain ⟨k, hk, e3, _⟩ := h.boxesMb ns hns q hq
      rw [(findMb_eq_some h).2 ⟨hk, e3⟩]
      exact h.lisNodup k hk
    · refine List.Pairwise.imp_of_mem ?_ (h.boxesKey ns hns)
      intro q1 q2 hq1 hq2 hne x hx y hy exy
      obtain ⟨k1, hk1, a1, _, _, a4⟩ := h.boxesMb ns hns q1 hq1
      obtain ⟨k2, hk2, b1, _, _, b4⟩ := h.boxesMb ns hns q2 hq2
      rw [(findMb_eq_some h).2 ⟨hk1, a1⟩] at hx
      rw [(findMb_eq_some h).2 ⟨hk2, b1⟩] at hy
      subst exy
      have := h.same_of_common hk1 hk2 hx hy
      subst this
      exact hne (by rw [← a4, ← b4])
  · refine List.Pairwise.imp_of_mem ?_ h.appsKey
    intro p1 p2 hp1 hp2 hne x hx y hy exy
    obtain ⟨k1, hk1, a1, c1⟩ := mem_walk h hp1 hx
    obtain ⟨k2, hk2, a2, c2⟩ := mem_walk h hp2 hy
    subst exy
    have := h.same_of_common hk1 hk2 c1 c2
    subst this
    exact hne (by rw [← a1, ← a2])

/-- **the number `dump_stats` computes is the number of listening connections** -/
theorem countListeners_spec {r : RSys} (h : r.RegInv) (hl : ∀ x ∈ r.conns, x.listening = true → x.mailbox.isSome = true) :
    r.countListeners = (r.conns.filter (·.listening)).length := by
  rw [countListeners_eq]
  have hperm : r.allListeners.Perm ((r.conns.filter (·.listening)).map (·.id)) := by
    apply (List.perm_ext_iff_of_nodup (allListeners_nodup h) ?_).2
    · intro c
      constructor
      · intro hc
        unfold allListeners at hc
        simp only [List.mem_flatMap] at hc
        obtain ⟨p, hp, hc⟩ := hc
        obtain ⟨k, hk, _, ck⟩ := mem_walk h hp hc
        obtain ⟨y, hy, e1, m1⟩ := h.lisConn k hk c ck
        have := (h.listenIff y hy k hk m1).1 (by rw [e1]; exact ck)
        exact List.mem_map.2 ⟨y, List.mem_filter.2 ⟨hy, this⟩, e1⟩
      · intro hc
        obtain ⟨y, hy, rfl⟩ := List.mem_map.1 hc
        obtain ⟨hy, hyl⟩ := List.mem_filter.1 hy
        have hsome := hl y hy hyl
        cases hm : y.mailbox with
        | none => rw [hm] at hsome; cases hsome
        | some o =>
          obtain ⟨k, hk, rfl, _⟩ := h.heldObj y hy o hm
          obtain ⟨ns, hns, ha, hb⟩ := h.heldReg y hy k hk hm hyl
          have hin := (h.listenIff y hy k hk hm).2 hyl
          unfold allListeners
          simp only [List.mem_flatMap]
          refine ⟨(k.app, ns.oid), ha, ?_⟩
          rw [(findNs_eq_some h).2 ⟨hns, rfl⟩]
          simp only [List.mem_flatMap]
          refine ⟨(k.mailboxId, k.oid), hb, ?_⟩
          rw [(findMb_eq_some h).2 ⟨hk, rfl⟩]
          exact hin
    · show List.Pairwise _ _
      rw [List.pairwise_map]
      exact List.Pairwise.filter _ h.connIds
  rw [hperm.length_eq, List.length_map]

theorem aconns_listening_length (r : RSys) :
    (r.aconns.filter (·.listening)).length = (r.conns.filter (·.listening)).length := by
  unfold aconns
  rw [List.filter_map, List.length_map]
  rfl

theorem dumpStats_spec {r : RSys} (h : r.RegInv) (hl : ∀ x ∈ r.conns, x.listening = true → x.mailbox.isSome = true)
    (now : Time) : (r.dumpStats now).RegInv ∧ (r.dumpStats now).abs = r.abs.dumpStats now := by
  unfold dumpStats Sys.dumpStats
  rw [abs_cfg]
  split
  · refine ⟨h.onCore _, ?_⟩
    rw [abs_onCore _ _ (by intro s cs; simp)]
    rw [countListeners_spec h hl, ← aconns_listening_length]
    rfl
  · exact ⟨h, rfl⟩

/-! ### expire -/

theorem expire_spec {U : String → Prop} {t : Time} {S : Prop} {r : RSys} (h : r.RegInv) (g : r.abs.Good U t S)
    (hl : ∀ x ∈ r.conns, x.listening = true → x.mailbox.isSome = true) {now : Time} (hnow : now ≤ t) (fault : Bool) :
    (r.expire now fault).RegInv ∧ (r.expire now fault).abs = r.abs.expire now fault := by
  unfold expire Sys.expire
  dsimp only
  have hold : now - Generated.expirationTicks < now := Int.sub_lt_self now expirationTicks_pos
  have h0 : (r.emit (.fired now (now - Generated.expirationTicks))).RegInv := h.emit _
  have g0 : (r.emit (.fired now (now - Generated.expirationTicks))).abs.Good U t S := g.emit _
  cases fault with
  | true =>
    simp only [if_true]
    obtain ⟨k1, k2⟩ := dumpStats_spec (r := (r.emit (.fired now (now - Generated.expirationTicks))).emit
      (.internal none "OperationalError")) (h0.emit _) hl now
    exact ⟨k1, k2⟩
  | false =>
    simp only [Bool.false_eq_true, if_false]
    obtain ⟨p1, p2, p3, p4, _⟩ := pruneApps_spec hnow hold
      (r.emit (.fired now (now - Generated.expirationTicks))).core.allApps h0 g0
    have hall : (r.abs.emit (.fired now (now - Generated.expirationTicks))).allApps =
        (r.emit (.fired now (now - Generated.expirationTicks))).core.allApps := rfl
    rw [hall]
    rw [show (r.emit (.fired now (now - Generated.expirationTicks))).abs =
      r.abs.emit (.fired now (now - Generated.expirationTicks)) from rfl] at p2 p3
    rcases hq : (r.emit (.fired now (now - Generated.expirationTicks))).pruneApps now (now - Generated.expirationTicks)
      (r.emit (.fired now (now - Generated.expirationTicks))).core.allApps with ⟨r1, b⟩
    rcases hs : (r.abs.emit (.fired now (now - Generated.expirationTicks))).pruneApps now (now - Generated.expirationTicks)
      (r.emit (.fired now (now - Generated.expirationTicks))).core.allApps with ⟨s1, b'⟩
    rw [hq] at p1 p4; rw [hq, hs] at p2 p3
    simp only at p1 p2 p3 p4
    subst p2 p3
    have hl1 : ∀ x ∈ r1.conns, x.listening = true → x.mailbox.isSome = true := by rw [p4]; exact hl
    cases b
    · dsimp only
      obtain ⟨k1, k2⟩ := dumpStats_spec (r := r1.emit (.internal none "IndexError")) (p1.emit _) hl1 now
      exact ⟨k1, k2⟩
    · dsimp only
      exact dumpStats_spec p1 hl1 now

end RSys
end Wormhole
