/-
  Consequences of `Chan.NpRel lbl d0 d` (Inv/NpStep.lean) by list reasoning: which nameplate
  rows and nameplate-side rows of `d` come from `d0`, which are new, which rows of `d0` are gone,
  and what the label must have been in each case.  `d0` satisfies `PInv`.
-/
import Wormhole.Inv.NpStep

namespace Wormhole
namespace Chan

theorem find?_mem_pred {α : Type} {p : α → Bool} {l : List α} {a : α} (h : l.find? p = some a) :
    a ∈ l ∧ p a = true := ⟨List.mem_of_find?_eq_some h, List.find?_some h⟩

theorem findNameplate_spec {d : Chan} {a n : String} {row : Nameplate} (h : d.findNameplate a n = some row) :
    row ∈ d.nameplates ∧ row.app = a ∧ row.name = n := by
  have := find?_mem_pred h
  simpa using this

theorem findNameplate_none_spec {d : Chan} {a n : String} (h : d.findNameplate a n = none) :
    ∀ row ∈ d.nameplates, ¬ (row.app = a ∧ row.name = n) := by
  simpa [findNameplate] using h

theorem findNpSide_spec {d : Chan} {i : Nat} {σ : String} {r : NpSide} (h : d.findNpSide i σ = some r) :
    r ∈ d.npSides ∧ r.npid = i ∧ r.side = σ := by
  have := find?_mem_pred h
  simpa using this

/-- the unique row with a given id -/
theorem PInv.np_eq_of_id {d : Chan} (hp : d.PInv) {n1 n2 : Nameplate} (h1 : n1 ∈ d.nameplates)
    (h2 : n2 ∈ d.nameplates) (e : n1.id = n2.id) : n1 = n2 :=
  eq_of_pairwise_ne (f := Nameplate.id) hp.npIds h1 h2 e

/-- the unique row with a given (app, name) -/
theorem PInv.np_eq_of_key {d : Chan} (hp : d.PInv) {n1 n2 : Nameplate} (h1 : n1 ∈ d.nameplates)
    (h2 : n2 ∈ d.nameplates) (ea : n1.app = n2.app) (en : n1.name = n2.name) : n1 = n2 := by
  have := eq_of_pairwise_ne (f := fun n : Nameplate => (n.app, n.name)) (l := d.nameplates)
    (by simpa using hp.npKey) h1 h2 (by simp [ea, en])
  exact this

/-- the unique side row with a given (nameplate, side) -/
theorem PInv.ns_eq_of_key {d : Chan} (hp : d.PInv) {r1 r2 : NpSide} (h1 : r1 ∈ d.npSides)
    (h2 : r2 ∈ d.npSides) (ei : r1.npid = r2.npid) (es : r1.side = r2.side) : r1 = r2 := by
  have := eq_of_pairwise_ne (f := fun r : NpSide => (r.npid, r.side)) (l := d.npSides)
    (by simpa using hp.nsKey) h1 h2 (by simp [ei, es])
  exact this

section facts
variable {lbl : NpLbl} {d0 d : Chan}

/-- **rows of `d`**: a nameplate row of `d` is a row of `d0`, or it is THE new row of a `claim`
    that found no nameplate: `id` = the old counter, `mailbox` = the generated id -/
theorem NpRel.np_mem (h : NpRel lbl d0 d) {n : Nameplate} (hn : n ∈ d.nameplates) :
    n ∈ d0.nameplates ∨
    ∃ a nm σ fresh t, lbl = .claim a nm σ fresh t ∧ n = ⟨d0.nextNp, a, nm, fresh⟩ ∧
      d0.findNameplate a nm = none := by
  cases lbl with
  | quiet =>
    simp only [NpRel, npPart, Prod.mk.injEq] at h
    rw [h.1] at hn; exact Or.inl hn
  | claim a nm σ fresh t =>
    simp only [NpRel, npPart, Prod.mk.injEq] at h
    rcases h with h | ⟨row, _, _, h⟩ | ⟨hnone, h⟩
    · rw [h.1] at hn; exact Or.inl hn
    · rw [h.1] at hn; exact Or.inl hn
    · rw [h.1] at hn
      simp only [List.mem_append, List.mem_singleton] at hn
      rcases hn with hn | rfl
      · exact Or.inl hn
      · exact Or.inr ⟨a, nm, σ, fresh, t, rfl, rfl, hnone⟩
  | release a nm σ =>
    simp only [NpRel, npPart, unclaim, delNameplate, delNpSidesOf, Prod.mk.injEq] at h
    rcases h with h | ⟨np, r, _, _, h | ⟨_, h⟩⟩
    · rw [h.1] at hn; exact Or.inl hn
    · rw [h.1] at hn; exact Or.inl hn
    · rw [h.1] at hn; exact Or.inl (List.mem_filter.1 hn).1
  | close a hd =>
    simp only [NpRel, npPart, delNameplatesOfMailbox, delNpSidesOfMailbox, Prod.mk.injEq] at h
    rcases h with h | ⟨h, _⟩
    · rw [h.1] at hn; exact Or.inl hn
    · rw [h.1] at hn; exact Or.inl (List.mem_filter.1 hn).1
  | sweep => exact Or.inl (h.npSub n hn)

/-- the AUTOINCREMENT counter never decreases -/
theorem NpRel.nextNp_le (h : NpRel lbl d0 d) : d0.nextNp ≤ d.nextNp := by
  cases lbl with
  | quiet =>
    simp only [NpRel, npPart, Prod.mk.injEq] at h
    omega
  | claim a nm σ fresh t =>
    simp only [NpRel, npPart, Prod.mk.injEq] at h
    rcases h with h | ⟨row, _, _, h⟩ | ⟨hnone, h⟩ <;> omega
  | release a nm σ =>
    simp only [NpRel, npPart, unclaim, delNameplate, delNpSidesOf, Prod.mk.injEq] at h
    rcases h with h | ⟨np, r, _, _, h | ⟨_, h⟩⟩ <;> omega
  | close a hd =>
    simp only [NpRel, npPart, delNameplatesOfMailbox, delNpSidesOfMailbox, Prod.mk.injEq] at h
    rcases h with h | ⟨h, _⟩ <;> omega
  | sweep => exact Nat.le_of_eq h.nextNp.symm

/-- a row of `d` with an id that was in use in `d0` is that row of `d0`, unchanged -/
theorem NpRel.np_same (h : NpRel lbl d0 d) (hp : d0.PInv) {n n0 : Nameplate} (hn : n ∈ d.nameplates)
    (hn0 : n0 ∈ d0.nameplates) (e : n.id = n0.id) : n = n0 := by
  rcases h.np_mem hn with h1 | ⟨a, nm, σ, fresh, t, _, rfl, _⟩
  · exact hp.np_eq_of_id h1 hn0 e
  · have := hp.bounded.1 n0 hn0
    simp at e; omega

/-- ids stay unique -/
theorem NpRel.np_id_inj (h : NpRel lbl d0 d) (hp : d0.PInv) {n1 n2 : Nameplate} (h1 : n1 ∈ d.nameplates)
    (h2 : n2 ∈ d.nameplates) (e : n1.id = n2.id) : n1 = n2 := by
  rcases h.np_mem h1 with a1 | ⟨a, nm, σ, fresh, t, hl, rfl, _⟩
  · exact (h.np_same hp h2 a1 e.symm).symm
  · rcases h.np_mem h2 with a2 | ⟨a', nm', σ', fresh', t', hl', rfl, _⟩
    · exact h.np_same hp h1 a2 e
    · rw [hl] at hl'
      cases hl'
      rfl

/-- **side rows of `d`**: a nameplate-side row of `d` stems from a row of `d0` with the same
    nameplate id and side (and was claimed there if it is claimed now), or it is THE row the
    `claim` of the step inserted: claimed, the caller's side, on the nameplate of that name -/
theorem NpRel.ns_mem (h : NpRel lbl d0 d) (hb : d0.IdsBounded) {r : NpSide} (hr : r ∈ d.npSides) :
    (∃ r0 ∈ d0.npSides, r0.npid = r.npid ∧ r0.side = r.side ∧ (r.claimed = true → r0 = r)) ∨
    ∃ a nm σ fresh t, lbl = .claim a nm σ fresh t ∧ r = ⟨r.npid, true, σ, t⟩ ∧
      (∀ r0 ∈ d0.npSides, ¬ (r0.npid = r.npid ∧ r0.side = σ)) ∧
      ∃ np ∈ d.nameplates, np.id = r.npid ∧ np.app = a ∧ np.name = nm := by
  have old : ∀ r, r ∈ d0.npSides →
      ∃ r0 ∈ d0.npSides, r0.npid = r.npid ∧ r0.side = r.side ∧ (r.claimed = true → r0 = r) :=
    fun r hr => ⟨r, hr, rfl, rfl, fun _ => rfl⟩
  cases lbl with
  | quiet =>
    simp only [NpRel, npPart, Prod.mk.injEq] at h
    rw [h.2.1] at hr; exact Or.inl (old r hr)
  | claim a nm σ fresh t =>
    simp only [NpRel, npPart, Prod.mk.injEq] at h
    rcases h with h | ⟨row, hrow, hside, h⟩ | ⟨hnone, h⟩
    · rw [h.2.1] at hr; exact Or.inl (old r hr)
    · rw [h.2.1] at hr
      simp only [List.mem_append, List.mem_singleton] at hr
      rcases hr with hr | rfl
      · exact Or.inl (old r hr)
      · obtain ⟨m1, m2, m3⟩ := findNameplate_spec hrow
        refine Or.inr ⟨a, nm, σ, fresh, t, rfl, rfl, ?_, row, by rw [h.1]; exact m1, rfl, m2, m3⟩
        simpa [findNpSide] using hside
    · rw [h.2.1] at hr
      simp only [List.mem_append, List.mem_singleton] at hr
      rcases hr with hr | rfl
      · exact Or.inl (old r hr)
      · refine Or.inr ⟨a, nm, σ, fresh, t, rfl, rfl, ?_, ⟨d0.nextNp, a, nm, fresh⟩, by rw [h.1]; simp, rfl, rfl, rfl⟩
        intro r0 hr0 e
        have := hb.2 r0 hr0
        simp at e; omega
  | release a nm σ =>
    simp only [NpRel, npPart, unclaim, delNameplate, delNpSidesOf, Prod.mk.injEq] at h
    have key : ∀ (i : Nat), r ∈ d0.npSides.map (fun r => if r.npid = i ∧ r.side = σ then { r with claimed := false } else r) →
        ∃ r0 ∈ d0.npSides, r0.npid = r.npid ∧ r0.side = r.side ∧ (r.claimed = true → r0 = r) := by
      intro i hm
      obtain ⟨r0, hr0, rfl⟩ := List.mem_map.1 hm
      refine ⟨r0, hr0, ?_, ?_, ?_⟩ <;> split <;> simp
    rcases h with h | ⟨np, r', _, _, h | ⟨_, h⟩⟩
    · rw [h.2.1] at hr; exact Or.inl (old r hr)
    · rw [h.2.1] at hr; exact Or.inl (key _ hr)
    · rw [h.2.1] at hr; exact Or.inl (key _ (List.mem_filter.1 hr).1)
  | close a hd =>
    simp only [NpRel, npPart, delNameplatesOfMailbox, delNpSidesOfMailbox, Prod.mk.injEq] at h
    rcases h with h | ⟨h, _⟩
    · rw [h.2.1] at hr; exact Or.inl (old r hr)
    · rw [h.2.1] at hr; exact Or.inl (old r (List.mem_filter.1 hr).1)
  | sweep => exact Or.inl (old r (h.nsSub r hr))


/-- **side rows of a surviving nameplate**: a side row of a nameplate that is in `d0` and in `d`
    is still there, unaltered -- except in a `release` of exactly that nameplate by exactly
    that side, which leaves the row with `claimed = false` -/
theorem NpRel.ns_kept (h : NpRel lbl d0 d) (hp : d0.PInv) {np : Nameplate} {r0 : NpSide}
    (hn0 : np ∈ d0.nameplates) (hn : np ∈ d.nameplates) (hr0 : r0 ∈ d0.npSides) (e : r0.npid = np.id) :
    r0 ∈ d.npSides ∨
    (lbl = .release np.app np.name r0.side ∧ ({ r0 with claimed := false } : NpSide) ∈ d.npSides) := by
  cases lbl with
  | quiet =>
    simp only [NpRel, npPart, Prod.mk.injEq] at h
    rw [h.2.1]; exact Or.inl hr0
  | claim a nm σ fresh t =>
    simp only [NpRel, npPart, Prod.mk.injEq] at h
    rcases h with h | ⟨row, _, _, h⟩ | ⟨hnone, h⟩ <;> rw [h.2.1] <;> simp [hr0]
  | release a nm σ =>
    simp only [NpRel, npPart, unclaim, delNameplate, delNpSidesOf, Prod.mk.injEq] at h
    rcases h with h | ⟨np', r', hnp', _, h | ⟨_, h⟩⟩
    · rw [h.2.1]; exact Or.inl hr0
    · obtain ⟨m1, m2, m3⟩ := findNameplate_spec hnp'
      rw [h.2.1]
      by_cases hc : r0.npid = np'.id ∧ r0.side = σ
      · have : np' = np := hp.np_eq_of_id m1 hn0 (by omega)
        subst this
        refine Or.inr ⟨by rw [m2, m3, hc.2], ?_⟩
        exact List.mem_map.2 ⟨r0, hr0, by simp [hc]⟩
      · exact Or.inl (List.mem_map.2 ⟨r0, hr0, by simp [hc]⟩)
    · rw [h.1] at hn
      have hne : ¬ np.id = np'.id := by simpa using (List.mem_filter.1 hn).2
      rw [h.2.1]
      refine Or.inl (List.mem_filter.2 ⟨List.mem_map.2 ⟨r0, hr0, ?_⟩, ?_⟩)
      · have : ¬ (r0.npid = np'.id ∧ r0.side = σ) := fun hc => hne (e ▸ hc.1)
        simp [this]
      · simpa [e] using hne
  | close a hd =>
    simp only [NpRel, npPart, delNameplatesOfMailbox, delNpSidesOfMailbox, nameplatesOfMailbox, Prod.mk.injEq] at h
    rcases h with h | ⟨h, _⟩
    · rw [h.2.1]; exact Or.inl hr0
    · rw [h.1] at hn
      have hne : ¬ (np.app = a ∧ np.mailbox = hd) := by
        have := (List.mem_filter.1 hn).2
        simpa only [decide_eq_true_eq] using this
      rw [h.2.1]
      refine Or.inl (List.mem_filter.2 ⟨hr0, ?_⟩)
      apply decide_eq_true
      intro hmem
      obtain ⟨n', hn', e'⟩ := List.mem_map.1 hmem
      obtain ⟨hn'', hk⟩ := List.mem_filter.1 hn'
      have : n' = np := hp.np_eq_of_id hn'' hn0 (by omega)
      subst this
      exact hne (by simpa using hk)
  | sweep => exact Or.inl (h.nsKeep r0 hr0 ⟨np, hn, e.symm⟩)

/-- **deleted rows**: a nameplate row of `d0` that is not in `d` was deleted by
    (i) a `release` of that very nameplate after which no claimed side row would remain, or
    (ii) the `close` that deletes its mailbox, or (iii) a sweep that deletes its mailbox -/
theorem NpRel.np_gone (h : NpRel lbl d0 d) (hp : d0.PInv) {np : Nameplate}
    (hn0 : np ∈ d0.nameplates) (hn : np ∉ d.nameplates) :
    (∃ σ, lbl = .release np.app np.name σ ∧
      ∀ r ∈ d0.npSides, r.npid = np.id → r.side ≠ σ → r.claimed = false) ∨
    (lbl = .close np.app np.mailbox ∧ ∀ m ∈ d.mailboxes, m.id ≠ np.mailbox) ∨
    (lbl = .sweep ∧ ∀ m ∈ d.mailboxes, m.id ≠ np.mailbox) := by
  cases lbl with
  | quiet =>
    simp only [NpRel, npPart, Prod.mk.injEq] at h
    rw [h.1] at hn; exact absurd hn0 hn
  | claim a nm σ fresh t =>
    simp only [NpRel, npPart, Prod.mk.injEq] at h
    rcases h with h | ⟨row, _, _, h⟩ | ⟨hnone, h⟩ <;> rw [h.1] at hn <;> simp [hn0] at hn
  | release a nm σ =>
    simp only [NpRel, npPart, unclaim, delNameplate, delNpSidesOf, Prod.mk.injEq] at h
    rcases h with h | ⟨np', r', hnp', _, h | ⟨hany, h⟩⟩
    · rw [h.1] at hn; exact absurd hn0 hn
    · rw [h.1] at hn; exact absurd hn0 hn
    · obtain ⟨m1, m2, m3⟩ := findNameplate_spec hnp'
      rw [h.1] at hn
      have hid : np.id = np'.id := by
        apply Classical.byContradiction
        intro hc
        exact hn (List.mem_filter.2 ⟨hn0, by simpa using hc⟩)
      have : np' = np := hp.np_eq_of_id m1 hn0 hid.symm
      subst this
      refine Or.inl ⟨σ, by rw [m2, m3], ?_⟩
      intro r hr e hs
      simp only [npSidesOf, List.any_eq_false, List.mem_filter, List.mem_map, decide_eq_true_eq,
        Bool.not_eq_true, and_imp, forall_exists_index] at hany
      have := hany r r hr (by simp [hs]) e
      exact this
  | close a hd =>
    simp only [NpRel, npPart, delNameplatesOfMailbox, delNpSidesOfMailbox, nameplatesOfMailbox, Prod.mk.injEq] at h
    rcases h with h | ⟨h, hmb⟩
    · rw [h.1] at hn; exact absurd hn0 hn
    · rw [h.1] at hn
      have hk : np.app = a ∧ np.mailbox = hd := by
        apply Classical.byContradiction
        intro hc
        exact hn (List.mem_filter.2 ⟨hn0, decide_eq_true hc⟩)
      exact Or.inr (Or.inl ⟨by rw [hk.1, hk.2], by rw [hk.2]; exact hmb⟩)
  | sweep => exact Or.inr (Or.inr ⟨rfl, h.gone np hn0 hn⟩)

/-- a step that deletes a nameplate row creates none -/
theorem NpRel.sub_of_gone (h : NpRel lbl d0 d) (hp : d0.PInv) {np : Nameplate}
    (hn0 : np ∈ d0.nameplates) (hn : np ∉ d.nameplates) : ∀ n ∈ d.nameplates, n ∈ d0.nameplates := by
  intro n hn'
  rcases h.np_mem hn' with h1 | ⟨a, nm, σ, fresh, t, hl, _, _⟩
  · exact h1
  · rcases h.np_gone hp hn0 hn with ⟨σ', hl', _⟩ | ⟨hl', _⟩ | ⟨hl', _⟩ <;> rw [hl] at hl' <;> cases hl'

/-- two nameplate rows with different ids have different mailboxes -/
def NpMbInjective (d : Chan) : Prop :=
  ∀ n1 ∈ d.nameplates, ∀ n2 ∈ d.nameplates, n1.id ≠ n2.id → n1.mailbox ≠ n2.mailbox

theorem NpRel.npMbInjective (h : NpRel lbl d0 d) (hp : d0.PInv) (hinj : d0.NpMbInjective)
    (hfresh : ∀ a nm σ fresh t, lbl = .claim a nm σ fresh t → ∀ m ∈ d0.mailboxes, m.id ≠ fresh) :
    d.NpMbInjective := by
  intro n1 h1 n2 h2 hne
  have old_new : ∀ n ∈ d0.nameplates, ∀ a nm σ fresh t, lbl = .claim a nm σ fresh t → n.mailbox ≠ fresh := by
    intro n hn a nm σ fresh t hl e
    obtain ⟨m, hm, e1, _⟩ := hp.npMb n hn
    exact hfresh a nm σ fresh t hl m hm (e1.trans e)
  rcases h.np_mem h1 with a1 | ⟨a, nm, σ, fresh, t, hl, rfl, _⟩
  · rcases h.np_mem h2 with a2 | ⟨a', nm', σ', fresh', t', hl', rfl, _⟩
    · exact hinj n1 a1 n2 a2 hne
    · exact old_new n1 a1 _ _ _ _ _ hl'
  · rcases h.np_mem h2 with a2 | ⟨a', nm', σ', fresh', t', hl', rfl, _⟩
    · exact fun e => old_new n2 a2 _ _ _ _ _ hl e.symm
    · exact absurd rfl hne

end facts
end Chan
end Wormhole
