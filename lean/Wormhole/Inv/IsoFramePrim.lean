/-
  C06 (application isolation), frame lemmas, part 1: the statements of Store.lean.

  `b` is the observed app.  Every primitive leaves b's rows alone (`Chan.SameB b d (prim d)`)
  under the weakest natural side condition:
    * statements keyed by a mailbox id `m` alone: "no mailbox of b has id m" (`m ∉ d.mbIdsB b`);
      callers get it from `d.HasMb a m` with `a ≠ b` and the global uniqueness of mailbox ids
      (`not_mem_mbIdsB_of_hasMb`), or from `findMailboxById m = none`;
      for `DELETE FROM messages WHERE mailbox_id=m`: "no message of b is filed under m", which
      follows from the former by `PInv.msgFk` (`msgsB_ne_of_not_mem`);
    * statements keyed by a nameplate id: `npid ∉ d.npIdsB b`; callers: the id of a nameplate of
      another app (`not_mem_npIdsB_of_mem`, uniqueness of nameplate ids) or the next
      AUTOINCREMENT value (`nextNp_not_mem_npIdsB`);
    * statements carrying an app column: that app is not b.
  All side conditions are phrased over b's rows, so they transfer along `SameB`
  (`SameB.npIdsB_eq`, `SameB.mbIdsB_eq`, `SameB.msgs`).
-/
import Wormhole.Inv.IsoDefs

set_option linter.unusedSimpArgs false

namespace Wormhole

/-! ### list helpers -/

/-- an UPDATE that fixes every row the filter selects, and never moves a row across the filter -/
theorem filter_map_fix {α : Type} (p : α → Bool) (f : α → α) (l : List α)
    (h1 : ∀ x ∈ l, p (f x) = p x) (h2 : ∀ x ∈ l, p x = true → f x = x) :
    (l.map f).filter p = l.filter p := by
  induction l with
  | nil => rfl
  | cons a l ih =>
    have ih' := ih (fun x hx => h1 x (by simp [hx])) (fun x hx => h2 x (by simp [hx]))
    simp only [List.map_cons, List.filter_cons, h1 a (by simp)]
    cases hp : p a with
    | true => simp [h2 a (by simp) hp, ih']
    | false => simpa using ih'

/-- a DELETE that keeps every row the filter selects -/
theorem filter_filter_keep {α : Type} (p q : α → Bool) (l : List α)
    (h : ∀ x ∈ l, p x = true → q x = true) : (l.filter q).filter p = l.filter p := by
  rw [List.filter_filter]
  apply List.filter_congr
  intro x hx
  cases hp : p x with
  | true => simp [h x hx hp]
  | false => simp

/-- an INSERT of a row the filter does not select -/
theorem filter_append_singleton_neg {α : Type} (p : α → Bool) (l : List α) (r : α) (h : p r = false) :
    (l ++ [r]).filter p = l.filter p := by
  simp [List.filter_append, h]

namespace Chan

section
variable {b : String} {d : Chan}

theorem mem_mbIdsB_row {m : String} : m ∈ d.mbIdsB b ↔ ∃ r ∈ d.mailboxes, r.app = b ∧ r.id = m := by
  simp only [mbIdsB, mbsB, List.mem_map, List.mem_filter, decide_eq_true_eq]
  constructor
  · rintro ⟨r, ⟨h1, h2⟩, h3⟩; exact ⟨r, h1, h2, h3⟩
  · rintro ⟨r, h1, h2, h3⟩; exact ⟨r, ⟨h1, h2⟩, h3⟩

theorem mem_npIdsB_row {k : Nat} : k ∈ d.npIdsB b ↔ ∃ n ∈ d.nameplates, n.app = b ∧ n.id = k := by
  simp only [npIdsB, npsB, List.mem_map, List.mem_filter, decide_eq_true_eq]
  constructor
  · rintro ⟨r, ⟨h1, h2⟩, h3⟩; exact ⟨r, h1, h2, h3⟩
  · rintro ⟨r, h1, h2, h3⟩; exact ⟨r, ⟨h1, h2⟩, h3⟩

theorem mem_msgsB_row {r : Message} : r ∈ d.msgsB b ↔ r ∈ d.messages ∧ r.app = b := by
  simp only [msgsB, List.mem_filter, decide_eq_true_eq]

theorem SameB.npIdsB_eq {d' : Chan} (h : SameB b d d') : d'.npIdsB b = d.npIdsB b := by
  simp only [npIdsB, h.nps]

theorem SameB.mbIdsB_eq {d' : Chan} (h : SameB b d d') : d'.mbIdsB b = d.mbIdsB b := by
  simp only [mbIdsB, h.mbs]

/-- componentwise criterion, the side tables filtered with the OLD id lists -/
theorem SameB.of_parts {d' : Chan}
    (h1 : d'.nameplates.filter (fun n => n.app = b) = d.nameplates.filter (fun n => n.app = b))
    (h2 : d'.npSides.filter (fun r => r.npid ∈ d.npIdsB b) = d.npSides.filter (fun r => r.npid ∈ d.npIdsB b))
    (h3 : d'.mailboxes.filter (fun m => m.app = b) = d.mailboxes.filter (fun m => m.app = b))
    (h4 : d'.mbSides.filter (fun r => r.mailbox ∈ d.mbIdsB b) =
      d.mbSides.filter (fun r => r.mailbox ∈ d.mbIdsB b))
    (h5 : d'.messages.filter (fun m => m.app = b) = d.messages.filter (fun m => m.app = b)) :
    SameB b d d' := by
  have e1 : d'.npIdsB b = d.npIdsB b := by simp only [npIdsB, npsB, h1]
  have e3 : d'.mbIdsB b = d.mbIdsB b := by simp only [mbIdsB, mbsB, h3]
  refine ⟨h1, ?_, h3, ?_, h5⟩
  · simp only [npSidesB, e1]; exact h2
  · simp only [mbSidesB, e3]; exact h4

/-! ### where the side conditions come from -/

/-- mailbox ids are globally unique: a mailbox of another app is not a mailbox of `b` -/
theorem not_mem_mbIdsB_of_hasMb' (hu : d.mailboxes.Pairwise (fun x y => ¬ x.id = y.id)) {a m : String}
    (hmb : d.HasMb a m) (hab : a ≠ b) : m ∉ d.mbIdsB b := by
  intro hm
  obtain ⟨r, hr, e1, e2⟩ := mem_mbIdsB_row.1 hm
  obtain ⟨r', hr', e1', e2'⟩ := hmb
  have : r = r' := eq_of_pairwise_ne (f := MailboxRow.id) hu hr hr' (by rw [e2, e1'])
  subst this
  exact hab (e2'.symm.trans e1)

theorem not_mem_mbIdsB_of_hasMb (h : d.PInv) {a m : String} (hmb : d.HasMb a m) (hab : a ≠ b) :
    m ∉ d.mbIdsB b :=
  not_mem_mbIdsB_of_hasMb' h.mbIds hmb hab

/-- `SELECT * FROM mailboxes WHERE id=?` found nothing -/
theorem not_mem_mbIdsB_of_findById_none {m : String} (h : d.findMailboxById m = none) : m ∉ d.mbIdsB b := by
  intro hm
  obtain ⟨r, hr, _, e2⟩ := mem_mbIdsB_row.1 hm
  exact findMailboxById_none h r hr e2

/-- a message's mailbox exists under the message's app (`PInv.msgFk`): no message of `b` is filed
    under an id that no mailbox of `b` has -/
theorem msgsB_ne_of_not_mem' (hfk : ∀ r ∈ d.messages, ∃ m ∈ d.mailboxes, m.id = r.mailbox ∧ m.app = r.app)
    {m : String} (hm : m ∉ d.mbIdsB b) : ∀ r ∈ d.msgsB b, ¬ r.mailbox = m := by
  intro r hr e
  obtain ⟨h1, h2⟩ := mem_msgsB_row.1 hr
  obtain ⟨row, hrow, e1, e2⟩ := hfk r h1
  exact hm (mem_mbIdsB_row.2 ⟨row, hrow, e2.trans h2, e1.trans e⟩)

theorem msgsB_ne_of_not_mem (h : d.PInv) {m : String} (hm : m ∉ d.mbIdsB b) :
    ∀ r ∈ d.msgsB b, ¬ r.mailbox = m :=
  msgsB_ne_of_not_mem' h.msgFk hm

/-- nameplate ids are unique: the id of a nameplate of another app is not an id of `b` -/
theorem not_mem_npIdsB_of_mem' (hu : d.nameplates.Pairwise (fun x y => ¬ x.id = y.id)) {n : Nameplate}
    (hn : n ∈ d.nameplates) (ha : n.app ≠ b) : n.id ∉ d.npIdsB b := by
  intro hm
  obtain ⟨n', hn', e1, e2⟩ := mem_npIdsB_row.1 hm
  have : n' = n := eq_of_pairwise_ne (f := Nameplate.id) hu hn' hn e2
  subst this
  exact ha e1

theorem not_mem_npIdsB_of_mem (h : d.PInv) {n : Nameplate} (hn : n ∈ d.nameplates) (ha : n.app ≠ b) :
    n.id ∉ d.npIdsB b :=
  not_mem_npIdsB_of_mem' h.npIds hn ha

/-- AUTOINCREMENT: the next id is not in use -/
theorem nextNp_not_mem_npIdsB (h : d.IdsBounded) : d.nextNp ∉ d.npIdsB b := by
  intro hm
  obtain ⟨n, hn, _, e2⟩ := mem_npIdsB_row.1 hm
  have := h.1 n hn
  omega

/-! ### INSERTs -/

theorem insMailbox_sameB (r : MailboxRow) (hr : r.app ≠ b) : SameB b d (d.insMailbox r) :=
  SameB.of_parts rfl rfl (filter_append_singleton_neg _ _ _ (by simpa using hr)) rfl rfl

theorem insNameplate_sameB (a name mb : String) (hab : a ≠ b) : SameB b d (d.insNameplate a name mb) :=
  SameB.of_parts (filter_append_singleton_neg _ _ _ (by simpa using hab)) rfl rfl rfl rfl

theorem insNpSide_sameB (r : NpSide) (hr : r.npid ∉ d.npIdsB b) : SameB b d (d.insNpSide r) :=
  SameB.of_parts rfl (filter_append_singleton_neg _ _ _ (by simpa using hr)) rfl rfl rfl

theorem insMbSide_sameB (r : MbSide) (hr : r.mailbox ∉ d.mbIdsB b) : SameB b d (d.insMbSide r) :=
  SameB.of_parts rfl rfl rfl (filter_append_singleton_neg _ _ _ (by simpa using hr)) rfl

theorem insMessage_sameB (r : Message) (hr : r.app ≠ b) : SameB b d (d.insMessage r) :=
  SameB.of_parts rfl rfl rfl rfl (filter_append_singleton_neg _ _ _ (by simpa using hr))

/-! ### UPDATEs -/

/-- any UPDATE of `mailboxes` that keeps the app column and does not write rows of `b` -/
theorem mapMailboxes_sameB (f : MailboxRow → MailboxRow) (hk : ∀ r ∈ d.mailboxes, (f r).app = r.app)
    (hf : ∀ r ∈ d.mailboxes, r.app = b → f r = r) :
    SameB b d { d with mailboxes := d.mailboxes.map f } :=
  SameB.of_parts rfl rfl
    (filter_map_fix _ f _ (fun x hx => by simp only [hk x hx]) (fun x hx hp => hf x hx (by simpa using hp)))
    rfl rfl

/-- the UPDATE of `prune`'s touch loop for app `a`: only rows with `app = a` are written -/
theorem mapMailboxesOfApp_sameB (a : String) (hab : a ≠ b) (f : MailboxRow → MailboxRow)
    (hk : ∀ r, (f r).app = r.app) (hf : ∀ r, r.app ≠ a → f r = r) :
    SameB b d { d with mailboxes := d.mailboxes.map f } :=
  mapMailboxes_sameB f (fun r _ => hk r) (fun r _ e => hf r (by rw [e]; exact fun h => hab h.symm))

theorem touch_sameB {m : String} (t : Time) (hm : m ∉ d.mbIdsB b) : SameB b d (d.touch m t) := by
  apply mapMailboxes_sameB
  · intro r _; split <;> rfl
  · intro r hr e
    rw [if_neg]
    intro e'
    exact hm (mem_mbIdsB_row.2 ⟨r, hr, e, e'⟩)

theorem unclaim_sameB {npid : Nat} (side : String) (hn : npid ∉ d.npIdsB b) : SameB b d (d.unclaim npid side) := by
  refine SameB.of_parts rfl ?_ rfl rfl rfl
  apply filter_map_fix
  · intro r _
    split <;> rfl
  · intro r _ hp
    rw [if_neg]
    rintro ⟨e, _⟩
    simp only [decide_eq_true_eq] at hp
    exact hn (e ▸ hp)

theorem closeSide_sameB {m : String} (side : String) (mood : Option String) (hm : m ∉ d.mbIdsB b) :
    SameB b d (d.closeSide m side mood) := by
  refine SameB.of_parts rfl rfl rfl ?_ rfl
  apply filter_map_fix
  · intro r _
    split <;> rfl
  · intro r _ hp
    rw [if_neg]
    rintro ⟨e, _⟩
    simp only [decide_eq_true_eq] at hp
    exact hm (e ▸ hp)

/-! ### DELETEs -/

theorem delNpSidesOf_sameB {npid : Nat} (hn : npid ∉ d.npIdsB b) : SameB b d (d.delNpSidesOf npid) := by
  refine SameB.of_parts rfl ?_ rfl rfl rfl
  apply filter_filter_keep
  intro r _ hp
  simp only [decide_eq_true_eq, decide_not, Bool.not_eq_eq_eq_not, Bool.not_true, decide_eq_false_iff_not] at hp ⊢
  intro e
  exact hn (e ▸ hp)

theorem delNameplate_sameB {npid : Nat} (hn : npid ∉ d.npIdsB b) : SameB b d (d.delNameplate npid) := by
  refine SameB.of_parts ?_ rfl rfl rfl rfl
  apply filter_filter_keep
  intro n hmem hp
  simp only [decide_eq_true_eq, decide_not, Bool.not_eq_eq_eq_not, Bool.not_true, decide_eq_false_iff_not] at hp ⊢
  intro e
  exact hn (mem_npIdsB_row.2 ⟨n, hmem, hp, e⟩)

/-- nameplate ids are unique, so the ids of `a`'s nameplates are not ids of `b` -/
theorem delNpSidesOfMailbox_sameB' (hu : d.nameplates.Pairwise (fun x y => ¬ x.id = y.id)) (a m : String)
    (hab : a ≠ b) : SameB b d (d.delNpSidesOfMailbox a m) := by
  refine SameB.of_parts rfl ?_ rfl rfl rfl
  apply filter_filter_keep
  intro r _ hp
  simp only [decide_eq_true_eq] at hp
  apply decide_eq_true
  intro hin
  simp only [nameplatesOfMailbox, List.mem_map, List.mem_filter, decide_eq_true_eq] at hin
  obtain ⟨n, ⟨hn, ha, _⟩, e⟩ := hin
  have := not_mem_npIdsB_of_mem' (b := b) hu hn (by rw [ha]; exact hab)
  exact this (e ▸ hp)

theorem delNpSidesOfMailbox_sameB (h : d.PInv) (a m : String) (hab : a ≠ b) :
    SameB b d (d.delNpSidesOfMailbox a m) :=
  delNpSidesOfMailbox_sameB' h.npIds a m hab

theorem delNameplatesOfMailbox_sameB (a m : String) (hab : a ≠ b) : SameB b d (d.delNameplatesOfMailbox a m) := by
  refine SameB.of_parts ?_ rfl rfl rfl rfl
  apply filter_filter_keep
  intro n _ hp
  simp only [decide_eq_true_eq] at hp
  apply decide_eq_true
  rintro ⟨e, _⟩
  exact hab (e.symm.trans hp)

/-- `DELETE FROM messages WHERE mailbox_id=?` (no app column in the WHERE clause) -/
theorem delMessagesOf_sameB' {m : String} (hm : ∀ r ∈ d.msgsB b, ¬ r.mailbox = m) : SameB b d (d.delMessagesOf m) := by
  refine SameB.of_parts rfl rfl rfl rfl ?_
  apply filter_filter_keep
  intro r hmem hp
  simp only [decide_eq_true_eq] at hp
  apply decide_eq_true
  exact hm r (mem_msgsB_row.2 ⟨hmem, hp⟩)

theorem delMessagesOf_sameB (h : d.PInv) {m : String} (hm : m ∉ d.mbIdsB b) : SameB b d (d.delMessagesOf m) :=
  delMessagesOf_sameB' (msgsB_ne_of_not_mem h hm)

theorem delMbSidesOf_sameB {m : String} (hm : m ∉ d.mbIdsB b) : SameB b d (d.delMbSidesOf m) := by
  refine SameB.of_parts rfl rfl rfl ?_ rfl
  apply filter_filter_keep
  intro r _ hp
  simp only [decide_eq_true_eq] at hp
  apply decide_eq_true
  intro e
  exact hm (e ▸ hp)

theorem delMailbox_sameB {m : String} (hm : m ∉ d.mbIdsB b) : SameB b d (d.delMailbox m) := by
  refine SameB.of_parts rfl rfl ?_ rfl rfl
  apply filter_filter_keep
  intro r hmem hp
  simp only [decide_eq_true_eq] at hp
  apply decide_eq_true
  intro e
  exact hm (mem_mbIdsB_row.2 ⟨r, hmem, hp, e⟩)

/-! ### convenience forms: a mailbox row `(a, m)` exists, `a ≠ b` -/

section hasMb
variable {a m : String} (h : d.PInv) (hmb : d.HasMb a m) (hab : a ≠ b)
include h hmb hab

theorem touch_sameB_of_hasMb (t : Time) : SameB b d (d.touch m t) :=
  touch_sameB t (not_mem_mbIdsB_of_hasMb h hmb hab)
theorem closeSide_sameB_of_hasMb (side : String) (mood : Option String) : SameB b d (d.closeSide m side mood) :=
  closeSide_sameB side mood (not_mem_mbIdsB_of_hasMb h hmb hab)
theorem insMbSide_sameB_of_hasMb (r : MbSide) (e : r.mailbox = m) : SameB b d (d.insMbSide r) :=
  insMbSide_sameB r (by rw [e]; exact not_mem_mbIdsB_of_hasMb h hmb hab)
theorem delMessagesOf_sameB_of_hasMb : SameB b d (d.delMessagesOf m) :=
  delMessagesOf_sameB h (not_mem_mbIdsB_of_hasMb h hmb hab)
theorem delMbSidesOf_sameB_of_hasMb : SameB b d (d.delMbSidesOf m) :=
  delMbSidesOf_sameB (not_mem_mbIdsB_of_hasMb h hmb hab)
theorem delMailbox_sameB_of_hasMb : SameB b d (d.delMailbox m) :=
  delMailbox_sameB (not_mem_mbIdsB_of_hasMb h hmb hab)

end hasMb

/-! ### the blocks of statements of Core.lean -/

/-- `Mailbox.open`: the side row (unless present) and the time stamp -/
theorem openSide_sameB {m : String} (side : String) (t : Time) (hm : m ∉ d.mbIdsB b) :
    SameB b d (d.openSide m side t) := by
  unfold Chan.openSide
  split
  · have h1 : SameB b d (d.insMbSide ⟨m, true, side, t, none⟩) := insMbSide_sameB _ hm
    exact h1.trans (touch_sameB t (by rw [h1.mbIdsB_eq]; exact hm))
  · exact touch_sameB t hm

/-- `DELETE FROM nameplate_sides WHERE nameplates_id=?; DELETE FROM nameplates WHERE id=?` -/
theorem delById_sameB {npid : Nat} (hn : npid ∉ d.npIdsB b) : SameB b d ((d.delNpSidesOf npid).delNameplate npid) :=
  (delNpSidesOf_sameB hn).trans (delNameplate_sameB hn)

/-- the three DELETEs of one iteration of the mailbox loop of `prune` -/
theorem pruneBlock_sameB {m : String} (hm : m ∉ d.mbIdsB b) (hmsg : ∀ r ∈ d.msgsB b, ¬ r.mailbox = m) :
    SameB b d (((d.delMessagesOf m).delMbSidesOf m).delMailbox m) :=
  ((delMessagesOf_sameB' hmsg).trans (delMbSidesOf_sameB hm)).trans (delMailbox_sameB hm)

/-- the five DELETEs of `Mailbox.close` for app `a` -/
theorem closeBlock_sameB' (hu : d.nameplates.Pairwise (fun x y => ¬ x.id = y.id)) {a m : String} (hab : a ≠ b)
    (hm : m ∉ d.mbIdsB b) (hmsg : ∀ r ∈ d.msgsB b, ¬ r.mailbox = m) :
    SameB b d (((((d.delNpSidesOfMailbox a m).delNameplatesOfMailbox a m).delMessagesOf m).delMbSidesOf
      m).delMailbox m) :=
  ((delNpSidesOfMailbox_sameB' hu a m hab).trans (delNameplatesOfMailbox_sameB a m hab)).trans
    (pruneBlock_sameB hm hmsg)

theorem closeBlock_sameB (h : d.PInv) {a m : String} (hmb : d.HasMb a m) (hab : a ≠ b) :
    SameB b d (((((d.delNpSidesOfMailbox a m).delNameplatesOfMailbox a m).delMessagesOf m).delMbSidesOf
      m).delMailbox m) :=
  closeBlock_sameB' h.npIds hab (not_mem_mbIdsB_of_hasMb h hmb hab)
    (msgsB_ne_of_not_mem h (not_mem_mbIdsB_of_hasMb h hmb hab))

end

end Chan

/-! ### the usage tables -/

namespace Usage

section
variable {b : String} {u : Usage}

theorem addNp_sameB (r : UNameplate) (hr : r.app ≠ b) : SameB b u { u with nameplates := u.nameplates ++ [r] } :=
  ⟨filter_append_singleton_neg _ _ _ (by simpa using hr), rfl, rfl⟩

theorem addMb_sameB (r : UMailbox) (hr : r.app ≠ b) : SameB b u { u with mailboxes := u.mailboxes ++ [r] } :=
  ⟨rfl, filter_append_singleton_neg _ _ _ (by simpa using hr), rfl⟩

theorem addClient_sameB (r : UClient) (hr : r.app ≠ b) : SameB b u { u with clients := u.clients ++ [r] } :=
  ⟨rfl, rfl, filter_append_singleton_neg _ _ _ (by simpa using hr)⟩

/-- the `current` row has no app column -/
theorem setCurrent_sameB (l : List UCurrent) : SameB b u { u with current := l } := ⟨rfl, rfl, rfl⟩

end

end Usage

end Wormhole
