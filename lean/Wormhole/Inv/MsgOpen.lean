/-
  The accepted `open`: when `open_mailbox` answers ok (as a function of the database), and the
  exact output of the step (ack, commits, one `message` frame per stored row, ordered by `rx`).
-/
import Wormhole.Inv.MsgWs

namespace Wormhole

/-- what `AppNamespace.open_mailbox(m, σ)` under app `a` answers, as a function of the database:
    `integrity` when the id exists under another app (K-global-mailbox-id), `crowded` when the
    mailbox would have more than two side rows (K-crowded-rejoin), `ok` otherwise -/
def Chan.openRes (d : Chan) (a m σ : String) : Sys.OpenRes :=
  if d.findMailbox a m = none ∧ d.findMailboxById m ≠ none then .integrity
  else if (d.mbSidesOf m).length + (if d.findMbSide m σ = none then 1 else 0) > 2 then .crowded
  else .ok

namespace Sys

theorem addMailbox_none_iff (s : Sys) (a m : String) (f : Bool) (t : Time) :
    s.addMailbox a m f t = none ↔ s.db.findMailbox a m = none ∧ s.db.findMailboxById m ≠ none := by
  unfold addMailbox
  split
  · simp_all
  · split <;> simp_all

theorem addMailbox_mbSides {s s1 : Sys} {a m : String} {f : Bool} {t : Time}
    (h : s.addMailbox a m f t = some s1) : s1.db.mbSides = s.db.mbSides := by
  unfold addMailbox at h
  split at h
  · cases h; rfl
  · split at h
    · cases h
    · cases h; rfl

theorem mailboxOpen_sides (s : Sys) (m σ : String) (t : Time) :
    ((s.mailboxOpen m σ t).db.mbSidesOf m).length =
      (s.db.mbSidesOf m).length + (if s.db.findMbSide m σ = none then 1 else 0) := by
  unfold mailboxOpen
  split
  · rename_i h
    simp [h, Chan.mbSidesOf, Chan.touch, Chan.insMbSide, List.filter_append]
  · rename_i h
    simp [h, Chan.mbSidesOf, Chan.touch]

/-- the answer of `open_mailbox` depends on the database only -/
theorem openMailbox_res (s : Sys) (a m σ : String) (t : Time) :
    (s.openMailbox a m σ t).2 = s.db.openRes a m σ := by
  unfold openMailbox Chan.openRes
  split
  · rename_i h
    rw [if_pos ((addMailbox_none_iff s a m false t).1 h)]
  · rename_i s1 h
    have hn : ¬ (s.db.findMailbox a m = none ∧ s.db.findMailboxById m ≠ none) := by
      intro hc
      rw [(addMailbox_none_iff s a m false t).2 hc] at h
      cases h
    rw [if_neg hn]
    have hl := mailboxOpen_sides s1 m σ t
    have e1 : s1.db.mbSidesOf m = s.db.mbSidesOf m := by simp [Chan.mbSidesOf, addMailbox_mbSides h]
    have e2 : s1.db.findMbSide m σ = s.db.findMbSide m σ := by simp [Chan.findMbSide, addMailbox_mbSides h]
    rw [e1, e2] at hl
    simp only [commit_db, hl, apply_ite Prod.snd]

/-- the `message` frame that replays a stored row to connection `c` -/
def replayFrame (c : Nat) (r : Message) : Event :=
  .frame c (.message r.side r.phase r.body r.rx r.msgId) true

/-- the stored rows of `(a, m)` in replay order (`ORDER BY server_rx`, stable) -/
def _root_.Wormhole.Chan.replayRows (d : Chan) (a m : String) : List Message :=
  (d.messagesOf a m).mergeSort (fun r r' => decide (r.rx ≤ r'.rx))

/-- the state after an accepted `open` that `open_mailbox` answers ok -/
theorem onMessage_open_spec {s : Sys} {x : Conn} {c : Nat} {t : Time} {id : Val} {a m : String}
    (hs : s.Synced) (hx : s.findConn c = some x) (ha : x.app = some a) (hm : x.mailbox = none)
    (hok : s.db.openRes a m (x.side.getD "") = .ok) :
    let s' := s.onMessage c t id (.open_ (some m))
    (∃ commits, (∀ e ∈ commits, IsCommit e) ∧
      s'.out = s.out ++ [.frame c (.ack id) true] ++ commits ++ (s.db.replayRows a m).map (replayFrame c)) ∧
    s'.conns = ((s.updConn c (fun y => { y with mailboxId := some m })).updConn c
      (fun y => { y with mailbox := some m, listening := true })).conns ∧
    Chan.Grow s.db s'.db := by
  intro s'
  have hid : x.id = c := findConn_id hx
  have e : s' = (match ((s.send c (.ack id)).updConn c (fun y => { y with mailboxId := some m })).openMailbox
        a m (x.side.getD "") t with
      | (s1, .crowded) => s1.sendError c "crowded"
      | (s1, .integrity) => s1.internalErr c "IntegrityError"
      | (s1, .ok) =>
        (s1.updConn c (fun y => { y with mailbox := some m, listening := true })).replay c a m) := by
    simp [s', Sys.onMessage, hx, ha, Sys.handleOpen, hm, hid]
    rfl
  generalize hs0 : (s.send c (.ack id)).updConn c (fun y => { y with mailboxId := some m }) = s0 at e
  have hs0db : s0.db = s.db := by subst hs0; rfl
  have hres := openMailbox_res s0 a m (x.side.getD "") t
  rw [hs0db, hok] at hres
  have hc := CExt.openMailbox (OutExt.refl (s := s0)) (app := a) (mb := m) (side := x.side.getD "") (t := t)
  have hsp := openMailbox_spec (s := s0) (app := a) (mb := m) (side := x.side.getD "") (t := t)
    (s1 := (s0.openMailbox a m (x.side.getD "") t).1) (r := (s0.openMailbox a m (x.side.getD "") t).2) rfl
  have hg := (AllDb.openMailbox (W := False) (P := Chan.Grow s.db) (s := s0)
    (AllDb.dbOnly (by rw [hs0db]; exact Chan.Grow.refl _)) (Chan.growClosed_grow _)
    (app := a) (mb := m) (side := x.side.getD "") (t := t)).db
  have hcn := openMailbox_conns s0 a m (x.side.getD "") t
  cases hom : s0.openMailbox a m (x.side.getD "") t with
  | mk s1 r =>
    rw [hom] at hres hc hsp hg hcn
    simp only at hres hc hsp hg hcn
    subst hres
    rw [hom] at e
    simp only at e
    obtain ⟨d, _, hni⟩ := hsp
    have hsy1 : (s1.updConn c (fun y => { y with mailbox := some m, listening := true })).synced = true := by
      rw [synced_iff]
      refine ⟨(hni (by simp)).symm, ?_⟩
      simp only [updConn_udb, updConn_udisk, d.udb, d.udisk]
      subst hs0
      exact hs.2
    obtain ⟨f1, _, _, _, _, f6, _, _, f9⟩ := foldl_send_spec (fun _ => c)
      (fun (r : Message) => Frame.message r.side r.phase r.body r.rx r.msgId)
      (((s1.updConn c (fun y => { y with mailbox := some m, listening := true })).db.messagesOf a m).mergeSort
        (fun r r' => decide (r.rx ≤ r'.rx)))
      (s1.updConn c (fun y => { y with mailbox := some m, listening := true }))
    obtain ⟨l, hl, hlc⟩ := hc
    have hmsg : s1.db.messagesOf a m = s.db.messagesOf a m := by
      simp [Chan.messagesOf, hg.msgs]
    refine ⟨⟨l, hlc, ?_⟩, ?_, ?_⟩
    · rw [e]
      unfold Sys.replay
      rw [f9, hsy1]
      simp only [updConn_out, updConn_db, hl, hmsg]
      subst hs0
      simp [Sys.send, Sys.emit, (synced_iff s).2 hs, Chan.replayRows, replayFrame]
    · rw [e]
      unfold Sys.replay
      rw [f6]
      subst hs0
      simp only [Sys.updConn, hcn]
      rfl
    · rw [e]
      unfold Sys.replay
      rw [f1]
      exact hg

end Sys
end Wormhole
