/-
  Invariants of the channel database and of the system state (definitions only).

  Three strengths:
  * `PInv`  holds after every block of statements the code executes between two
            look-ups (uniqueness of keys, every foreign key resolved, id bounds);
  * `CInv`  = `PInv` + every nameplate has a side row: holds at every COMMIT point,
            i.e. in every state a crash can leave on disk;
  * `SInv`  = `CInv` + every nameplate has a *claimed* side row and every mailbox has an
            *opened* side row: holds between operations of crash-free histories.
-/
import Wormhole.Ws

namespace Wormhole

def Op.isCrash : Op → Bool
  | .crashIn _ _ => true
  | _ => false

namespace Chan

/-- AUTOINCREMENT: ids in use are below the counter -/
def IdsBounded (d : Chan) : Prop :=
  (∀ n ∈ d.nameplates, n.id < d.nextNp) ∧ (∀ r ∈ d.npSides, r.npid < d.nextNp)

structure PInv (d : Chan) : Prop where
  /-- `nameplates.id` is unique -/
  npIds : d.nameplates.Pairwise (fun a b => ¬ a.id = b.id)
  /-- at most one nameplate row per (app, name) -/
  npKey : d.nameplates.Pairwise (fun a b => ¬ (a.app = b.app ∧ a.name = b.name))
  bounded : d.IdsBounded
  /-- `mailboxes.id` is unique, across apps (PRIMARY KEY) -/
  mbIds : d.mailboxes.Pairwise (fun a b => ¬ a.id = b.id)
  /-- a nameplate's mailbox exists and belongs to the same app -/
  npMb : ∀ n ∈ d.nameplates, ∃ m ∈ d.mailboxes, m.id = n.mailbox ∧ m.app = n.app
  /-- a nameplate side's nameplate exists -/
  nsFk : ∀ r ∈ d.npSides, ∃ n ∈ d.nameplates, n.id = r.npid
  /-- at most one side row per (nameplate, side) -/
  nsKey : d.npSides.Pairwise (fun a b => ¬ (a.npid = b.npid ∧ a.side = b.side))
  /-- a mailbox side's mailbox exists -/
  msFk : ∀ r ∈ d.mbSides, ∃ m ∈ d.mailboxes, m.id = r.mailbox
  /-- at most one side row per (mailbox, side) -/
  msKey : d.mbSides.Pairwise (fun a b => ¬ (a.mailbox = b.mailbox ∧ a.side = b.side))
  /-- a message's mailbox exists under the message's app -/
  msgFk : ∀ r ∈ d.messages, ∃ m ∈ d.mailboxes, m.id = r.mailbox ∧ m.app = r.app

structure CInv (d : Chan) : Prop extends PInv d where
  npHasSide : ∀ n ∈ d.nameplates, ∃ r ∈ d.npSides, r.npid = n.id

structure SInv (d : Chan) : Prop extends CInv d where
  npClaimed : ∀ n ∈ d.nameplates, ∃ r ∈ d.npSides, r.npid = n.id ∧ r.claimed = true
  mbOpened : ∀ m ∈ d.mailboxes, ∃ r ∈ d.mbSides, r.mailbox = m.id ∧ r.opened = true

end Chan

namespace Sys

/-- connection records: ids are unique; a connection holds a mailbox handle exactly when it
    is subscribed, only when bound, and the mailbox row exists under its app -/
structure ConnInv (s : Sys) : Prop where
  ids : s.conns.Pairwise (fun a b => ¬ a.id = b.id)
  handle : ∀ x ∈ s.conns, ∀ mb, x.mailbox = some mb →
    x.listening = true ∧ ∃ a, x.app = some a ∧ ∃ m ∈ s.db.mailboxes, m.id = mb ∧ m.app = a
  listen : ∀ x ∈ s.conns, x.listening = true → x.mailbox.isSome
  bound : ∀ x ∈ s.conns, x.app.isSome ↔ x.side.isSome

/-- nothing uncommitted -/
def Synced (s : Sys) : Prop := s.db = s.disk ∧ s.udb = s.udisk

end Sys
end Wormhole
