/-
  Assembly: what ONE non-crash operation does to the usage database, for every operation.

  `UsageStep s s' B t pruned cl`: the configuration is unchanged; usage `nameplates` (`mailboxes`) of
  `s'` is that of `s` followed by one record per nameplate (mailbox) row of the base `B` whose id is
  absent from the channel database of `s'` -- as lists up to order --, each record being
  `npRecord` / `mbRecord` of the row's side rows IN `B`; `client_versions` gains exactly `cl`.

  The base `Sys.usageBase s op` is the channel database of `s`, except for an accepted `close`: there
  it is the database at the moment `Mailbox.close` tests whether any side is still open, i.e. after
  the implicit `open_mailbox` of a connection without a handle (which may CREATE the mailbox row and
  the closing side's row: `closePre`, a commit point of the step) and after the UPDATE that closes
  the closing side's row with the submitted mood (the next commit point).

  `step_usage`: every non-crash operation from a state with `CInv`, nothing uncommitted and a usage
  database configured is a `UsageStep`.
-/
import Wormhole.Inv.UsageSweep
import Wormhole.Inv.UsageKeep
import Wormhole.Inv.UsageTrack
import Wormhole.Inv.UsageClose

namespace Wormhole
namespace Sys

structure UsageStep (s s' : Sys) (B : Chan) (t : Time) (pruned : Bool) (cl : List UClient) : Prop where
  cfg : s'.cfg = s.cfg
  nameplates : ∃ recs, s'.udb.nameplates = s.udb.nameplates ++ recs ∧
    recs.Perm ((B.retiredNp s'.db).map (B.npRec s.blurTime t pruned))
  mailboxes : ∃ recs, s'.udb.mailboxes = s.udb.mailboxes ++ recs ∧
    recs.Perm ((B.retiredMb s'.db).map (B.mbRec s.blurTime t pruned))
  clients : s'.udb.clients = s.udb.clients ++ cl

/-- from the ledger of a deletion phase started at `s` -/
theorem UsageStep.of_sled {s s' : Sys} {t : Time} {pruned : Bool}
    (h : SLed s.db s.udb s.cfg t pruned s') : UsageStep s s' s.db t pruned [] := by
  have hb : s.cfg.blurTime = s.blurTime := (blurTime_eq_cfg s).symm
  refine ⟨h.cfg, ?_, ?_, by rw [h.led.clients]; simp⟩
  · rw [← hb]; exact h.led.recNp
  · rw [← hb]; exact h.led.recMb

/-- from a growth phase started at `s` -/
theorem UsageStep.of_keep {s s' : Sys} {cl : List UClient} (h : Keep s.db s.udb cl s') (hc : s'.cfg = s.cfg)
    (t : Time) (pruned : Bool) : UsageStep s s' s.db t pruned cl := by
  refine ⟨hc, ⟨[], by rw [h.unp]; simp, ?_⟩, ⟨[], by rw [h.umb]; simp, ?_⟩, h.ucl⟩
  · rw [Chan.retiredNp_eq_nil h.np]; exact List.Perm.refl _
  · rw [Chan.retiredMb_eq_nil h.mb]; exact List.Perm.refl _

/-- nothing retired, nothing written: any base whose row ids are all still present -/
theorem UsageStep.of_same {s s' : Sys} {B : Chan} (hc : s'.cfg = s.cfg) (hu : s'.udb = s.udb)
    (hn : ∀ n ∈ B.nameplates, n.id ∈ s'.db.nameplates.map (·.id))
    (hm : ∀ m ∈ B.mailboxes, m.id ∈ s'.db.mailboxes.map (·.id)) (t : Time) (pruned : Bool) :
    UsageStep s s' B t pruned [] := by
  refine ⟨hc, ⟨[], by rw [hu]; simp, ?_⟩, ⟨[], by rw [hu]; simp, ?_⟩, by rw [hu]; simp⟩
  · rw [Chan.retiredNp_eq_nil hn]; exact List.Perm.refl _
  · rw [Chan.retiredMb_eq_nil hm]; exact List.Perm.refl _

/-! ### `release` -/

theorem handleRelease_led {B : Chan} {U0 : Usage} {c0 : Cfg} {t : Time} (hB : B.PInv) (hu : c0.usage = true)
    {s : Sys} (h : SLed B U0 c0 t false s) (x : Conn) (app side : String) (n : Option String) :
    SLed B U0 c0 t false (s.handleRelease x app side t n) := by
  unfold Sys.handleRelease
  have go : ∀ name : String, SLed B U0 c0 t false
      (match (s.updConn x.id (fun y => { y with didRelease := true })).releaseNameplate app name side t with
      | (s1, true) => s1.send x.id .released
      | (s1, false) => s1.internalErr x.id "IndexError") := by
    intro name
    obtain ⟨s1, e1, h1⟩ := releaseNameplate_led hB hu app name side
      (h.updConn x.id (fun y => { y with didRelease := true }))
    rw [e1]
    exact h1.send _ _
  split
  · exact h.sendError _ _
  · dsimp only
    split
    · split
      · exact h.sendError _ _
      · exact go _
    · exact go _
    · exact go _
    · exact h.sendError _ _

theorem onMessage_release_led {B : Chan} {U0 : Usage} {c0 : Cfg} {t : Time} (hB : B.PInv)
    (hu : c0.usage = true) {s : Sys} (h : SLed B U0 c0 t false s) (c : Nat) (id : Val) (n : Option String) :
    SLed B U0 c0 t false (s.onMessage c t id (.release n)) := by
  unfold Sys.onMessage
  split
  · exact h
  · dsimp only
    split
    · exact (h.send _ _).sendError _ _
    · exact handleRelease_led hB hu (h.send _ _) _ _ _ _

/-! ### `close` -/

/-- the base of the retirements of an operation (see the header) -/
def usageBase (s : Sys) : Op → Chan
  | .recv c t _ (.close m mood) =>
    match s.findConn c with
    | none => s.db
    | some x =>
      match x.app, x.closeTarget m with
      | some app, some tgt =>
        if rejectText x (.close m mood) = none ∧ ¬ (x.mailbox = none ∧ s.db.Clash app tgt) then
          (closePre s x app tgt t).closeSide tgt (x.side.getD "") mood
        else s.db
      | _, _ => s.db
  | _ => s.db

theorem usageBase_of_not_close (s : Sys) {op : Op} (h : ∀ c t id m mood, op ≠ .recv c t id (.close m mood)) :
    s.usageBase op = s.db := by
  unfold usageBase
  split
  · rename_i c t id m mood
    exact absurd rfl (h c t id m mood)
  · rfl

theorem closePre_nameplates (s : Sys) (x : Conn) (app tgt : String) (t : Time) :
    (closePre s x app tgt t).nameplates = s.db.nameplates := by
  unfold closePre; split <;> rfl

theorem closePre_npSides (s : Sys) (x : Conn) (app tgt : String) (t : Time) :
    (closePre s x app tgt t).npSides = s.db.npSides := by
  unfold closePre; split <;> rfl

theorem closePre_pinv {s : Sys} (hP : s.db.PInv) (x : Conn) (app tgt : String) (t : Time)
    (h : ¬ (x.mailbox = none ∧ s.db.Clash app tgt)) : (closePre s x app tgt t).PInv := by
  unfold closePre
  split
  · rename_i hm
    exact hP.openDb _ _ (fun hc => h ⟨hm, hc⟩)
  · exact hP

/-- an accepted `close` -/
theorem close_ustep {s : Sys} (hP : s.db.PInv) (hN : s.db.NpHasSide) (hS : s.Synced)
    (hu : s.cfg.usage = true) {c : Nat} {x : Conn} (hx : s.findConn c = some x) {m mood : Option String}
    (hr : rejectText x (.close m mood) = none) (t : Time) (id : Val) :
    UsageStep s (s.step (.recv c t id (.close m mood))) (s.usageBase (.recv c t id (.close m mood))) t false [] := by
  obtain ⟨⟨app, happ⟩, _, ⟨mb, hn⟩, _⟩ := close_accepted hr
  have htg : ∃ tgt, x.closeTarget m = some tgt := by
    unfold Conn.closeTarget
    cases x.mailbox with
    | some h => exact ⟨h, rfl⟩
    | none => exact ⟨mb, hn⟩
  obtain ⟨tgt, htg⟩ := htg
  obtain ⟨hclash, hcrowd, hmain⟩ := close_step hP hN hS hx hr happ htg t id
  have hc := step_cfg s (.recv c t id (.close m mood))
  generalize hs' : s.step (.recv c t id (.close m mood)) = s' at hclash hcrowd hmain hc ⊢
  by_cases hcl : x.mailbox = none ∧ s.db.Clash app tgt
  · -- IntegrityError: nothing changes, the base is the database itself
    have hB : s.usageBase (.recv c t id (.close m mood)) = s.db := by
      simp [usageBase, hx, happ, htg, hr, hcl]
    rw [hB]
    obtain ⟨_, hun⟩ := hclash hcl.1 hcl.2
    exact UsageStep.of_same hc hun.udb (by rw [hun.db]; exact fun n hn => List.mem_map.2 ⟨n, hn, rfl⟩)
      (by rw [hun.db]; exact fun n hn => List.mem_map.2 ⟨n, hn, rfl⟩) t false
  · have hB : s.usageBase (.recv c t id (.close m mood)) =
        (closePre s x app tgt t).closeSide tgt (x.side.getD "") mood := by
      simp [usageBase, hx, happ, htg, hr, hcl]
    rw [hB]
    generalize hpre : closePre s x app tgt t = pre at *
    have hpreP : pre.PInv := by rw [← hpre]; exact closePre_pinv hP x app tgt t hcl
    have hBn : (pre.closeSide tgt (x.side.getD "") mood).nameplates = pre.nameplates := rfl
    have hBm : (pre.closeSide tgt (x.side.getD "") mood).mailboxes = pre.mailboxes := rfl
    by_cases hcr : x.mailbox = none ∧ (pre.mbSidesOf tgt).length > 2
    · -- crowded: the implicit open is committed, nothing else
      obtain ⟨_, hdb, _, hrest⟩ := hcrowd hcr.1 (fun h => hcl ⟨hcr.1, h⟩) hcr.2
      exact UsageStep.of_same hc hrest.udb
        (by rw [hdb, hBn]; exact fun n hn => List.mem_map.2 ⟨n, hn, rfl⟩)
        (by rw [hdb, hBm]; exact fun n hn => List.mem_map.2 ⟨n, hn, rfl⟩) t false
    · have hnot : ¬ (x.mailbox = none ∧ (s.db.Clash app tgt ∨ (pre.mbSidesOf tgt).length > 2)) := by
        rintro ⟨h1, h2 | h2⟩
        · exact hcl ⟨h1, h2⟩
        · exact hcr ⟨h1, h2⟩
      obtain ⟨_, hdb, _, _, _, hsurv, hdel⟩ := hmain hnot
      by_cases hd : pre.HasBox app tgt ∧ pre.findMbSide tgt (x.side.getD "") ≠ none ∧
          ¬ pre.OtherOpen tgt (x.side.getD "")
      · -- the mailbox is deleted
        obtain ⟨hbox, hside, hoo⟩ := hd
        have hdb' : s'.db = pre.dropMailbox app tgt := by
          rw [hdb]; unfold Chan.closeDb; rw [if_pos ⟨hbox, hside⟩, if_neg hoo]
        obtain ⟨row, hrow⟩ := Option.isSome_iff_exists.1 (Chan.findMailbox_isSome.2 hbox)
        obtain ⟨r0, hr0⟩ := Option.ne_none_iff_exists'.1 hside
        have hany : ((pre.closeSide tgt (x.side.getD "") mood).mbSidesOf tgt).any (·.opened) = false := by
          have := (not_congr (Chan.closeSide_any_opened pre tgt (x.side.getD "") mood)).2 hoo
          simpa using this
        have hudb := close_step_udb hP hN hu hx hr happ htg t id (by rw [hpre]; exact hnot)
          (row := row) (r0 := r0) (by rw [hpre]; exact hrow) (by rw [hpre]; exact hr0) (by rw [hpre]; exact hany)
        rw [hs', hpre] at hudb
        obtain ⟨hrowmem, hrowapp, hrowid⟩ := Chan.findMailbox_some_mbx hrow
        refine ⟨hc, ⟨_, by rw [hudb], ?_⟩, ⟨_, by rw [hudb], ?_⟩, by rw [hudb]; simp⟩
        · -- nameplates: those of the app that point at the mailbox
          have hret : (pre.closeSide tgt (x.side.getD "") mood).retiredNp s'.db = pre.nameplatesOfMailbox app tgt := by
            unfold Chan.retiredNp Chan.nameplatesOfMailbox
            rw [hdb', hBn]
            show pre.nameplates.filter (fun n => ¬ n.id ∈
              (pre.nameplates.filter (fun n => ¬ (n.app = app ∧ n.mailbox = tgt))).map (·.id)) = _
            have hf := filter_not_mem_filter (fun (n : Nameplate) => n.id)
              (fun n => decide ¬ (n.app = app ∧ n.mailbox = tgt)) hpreP.npIds
            refine hf.trans ?_
            apply List.filter_congr
            intro n _
            simp
          rw [hret]
          have : (pre.nameplatesOfMailbox app tgt).map
              (fun np => npRecord s.blurTime app ((pre.npSidesOf np.id).map (·.added)) t false) =
              (pre.nameplatesOfMailbox app tgt).map
                ((pre.closeSide tgt (x.side.getD "") mood).npRec s.blurTime t false) := by
            apply List.map_congr_left
            intro n hn
            have hna : n.app = app := by
              have := (List.mem_filter.1 hn).2
              simp only [decide_eq_true_eq] at this
              exact this.1
            unfold Chan.npRec
            rw [hna]
            rfl
          rw [this]
        · -- mailboxes: the one row (app, tgt)
          have hret : (pre.closeSide tgt (x.side.getD "") mood).retiredMb s'.db = [row] := by
            unfold Chan.retiredMb
            rw [hdb', hBm]
            show pre.mailboxes.filter (fun n => ¬ n.id ∈
              (pre.mailboxes.filter (fun m => ¬ (m.app = app ∧ m.id = tgt))).map (·.id)) = _
            have hf := filter_not_mem_filter (fun (n : MailboxRow) => n.id)
              (fun m => decide ¬ (m.app = app ∧ m.id = tgt)) hpreP.mbIds
            refine hf.trans ?_
            apply filter_eq_singleton (·.id) _ hpreP.mbIds hrowmem
            · simp [hrowapp, hrowid]
            · intro y _ hy
              simp only [decide_not, Bool.not_not, decide_eq_true_eq] at hy
              rw [hy.2, hrowid]
          rw [hret]
          simp only [List.map_cons, List.map_nil, Chan.mbRec, hrowapp, hrowid]
          exact List.Perm.refl _
      · -- the mailbox survives (or was not there): rows closed at most, nothing written
        obtain ⟨_, hudb⟩ := hsurv hd
        have hkeep : s'.db.nameplates = pre.nameplates ∧ s'.db.mailboxes = pre.mailboxes := by
          rw [hdb]
          unfold Chan.closeDb
          split
          · rename_i h1
            split
            · exact ⟨rfl, rfl⟩
            · rename_i h2; exact absurd ⟨h1.1, h1.2, h2⟩ hd
          · exact ⟨rfl, rfl⟩
        exact UsageStep.of_same hc hudb
          (by rw [hkeep.1, hBn]; exact fun n hn => List.mem_map.2 ⟨n, hn, rfl⟩)
          (by rw [hkeep.2, hBm]; exact fun n hn => List.mem_map.2 ⟨n, hn, rfl⟩) t false

/-! ### every operation -/

/-- the `client_versions` rows an operation writes -/
def newClients (s : Sys) : Op → List UClient
  | .recv c t _ cmd => s.cmdClients c t cmd
  | _ => []

/-- **every non-crash operation** from a state with the commit-point invariant, nothing
    uncommitted and a usage database configured -/
theorem step_usage {s : Sys} (hC : s.db.CInv) (hS : s.Synced) (hu : s.cfg.usage = true) (op : Op)
    (hop : op.isCrash = false) (t0 : Time) :
    UsageStep s (s.step op) (s.usageBase op) (op.time?.getD t0) op.isSweep (s.newClients op) := by
  have hP : s.db.PInv := hC.toPInv
  have hN : s.db.NpHasSide := hC.npHasSide
  have hc := step_cfg s op
  cases op with
  | crashIn k op' => simp [Op.isCrash] at hop
  | connect c =>
    refine UsageStep.of_keep ?_ hc _ _
    exact (Keep.start s).of_eq rfl rfl
  | drop c =>
    refine UsageStep.of_keep ?_ hc _ _
    exact (Keep.start s).of_eq rfl rfl
  | restart t' =>
    refine UsageStep.of_keep ?_ hc _ _
    exact (Keep.start s).of_eq hS.1.symm hS.2.symm
  | sweep now fault =>
    apply UsageStep.of_sled
    have h0 : SLed s.db s.udb s.cfg now true ({ s with out := [], snaps := [] } : Sys) :=
      ⟨rfl, Led.start hP⟩
    exact expire_led hP hN hu now fault h0
  | recv c t id cmd =>
    by_cases hrel : ∃ n, cmd = .release n
    · obtain ⟨n, rfl⟩ := hrel
      apply UsageStep.of_sled
      have h0 : SLed s.db s.udb s.cfg t false ({ s with out := [], snaps := [] } : Sys) :=
        ⟨rfl, Led.start hP⟩
      exact onMessage_release_led hP hu h0 c id n
    · by_cases hclose : ∃ m mood, cmd = .close m mood
      · obtain ⟨m, mood, rfl⟩ := hclose
        show UsageStep s _ _ t false []
        cases hx : s.findConn c with
        | none =>
          have hB : s.usageBase (.recv c t id (.close m mood)) = s.db := by simp only [usageBase, hx]
          rw [hB]
          refine UsageStep.of_keep ?_ hc _ _
          have : s.step (.recv c t id (.close m mood)) = ({ s with out := [], snaps := [] } : Sys) := by
            rw [step_recv]; unfold Sys.onMessage
            have : ({ s with out := [], snaps := [] } : Sys).findConn c = none := hx
            rw [this]
          rw [this]
          exact (Keep.start s).of_eq rfl rfl
        | some x =>
          cases hr : rejectText x (.close m mood) with
          | none => exact close_ustep hP hN hS hu hx hr t id
          | some text =>
            have hB : s.usageBase (.recv c t id (.close m mood)) = s.db := by
              simp only [usageBase, hx, hr]
              split <;> simp
            rw [hB]
            refine UsageStep.of_keep ?_ hc _ _
            rw [step_recv, onMessage_rejected (s := { s with out := [], snaps := [] }) hx hr]
            simp only [reduceCtorEq, if_false]
            exact (((Keep.start s).of_eq (s' := ({ s with out := [], snaps := [] } : Sys)) rfl rfl).send _ _).sendError _ _
      · have hB : s.usageBase (.recv c t id cmd) = s.db :=
          usageBase_of_not_close s (by
            intro c' t' id' m mood e
            cases e
            exact hclose ⟨m, mood, rfl⟩)
        rw [hB]
        have h0 : Keep s.db s.udb [] ({ s with out := [], snaps := [] } : Sys) :=
          (Keep.start s).of_eq rfl rfl
        have hk := h0.onMessage c t id (cmd := cmd) (fun n e => hrel ⟨n, e⟩)
          (fun m mood e => hclose ⟨m, mood, e⟩)
        exact UsageStep.of_keep hk hc _ _

end Sys
end Wormhole
