/-
  Two-run library, instance 2 (for C11): `RebRel`.

  The two runs have the same channel side, the same configuration and the same usage tables
  `nameplates`, `mailboxes`, `client_versions` (in `udb` and in `udisk`); they may differ in
  `rebooted` and in the usage `current` row.  Inside a step, before `dump_stats`, the `current`
  row is not written, so in each run `udb.current = udisk.current` stays true and
  `udb = udisk` holds in one run iff it holds in the other: usage commits are effective in both
  runs or in neither, and the events are compared EXACTLY (`a.out = b.out`).

  `dump_stats` is the one function that reads `rebooted`: it overwrites `current` and commits,
  so an effective usage commit may happen in one run and not in the other
  (`RebRel.dumpStats`: the outputs are equal up to one trailing `commit .usage` each).
-/
import Wormhole.Inv.SimWs

namespace Wormhole

/-- the three usage tables that do not mention the start time -/
def Usage.core (u : Usage) : List UNameplate × List UMailbox × List UClient :=
  (u.nameplates, u.mailboxes, u.clients)

theorem Usage.eq_iff (u v : Usage) : u = v ↔ u.core = v.core ∧ u.current = v.current := by
  cases u; cases v
  simp only [Usage.core, Usage.mk.injEq, Prod.mk.injEq]
  constructor
  · rintro ⟨h1, h2, h3, h4⟩; exact ⟨⟨h1, h2, h4⟩, h3⟩
  · rintro ⟨⟨h1, h2, h4⟩, h3⟩; exact ⟨h1, h2, h3, h4⟩

namespace Sys

structure RebRel (a b : Sys) : Prop where
  chan : ChanEq a b
  cfg : a.cfg = b.cfg
  out : a.out = b.out
  udb : a.udb.core = b.udb.core
  udisk : a.udisk.core = b.udisk.core
  cura : a.udb.current = a.udisk.current
  curb : b.udb.current = b.udisk.current

theorem RebRel.usync {a b : Sys} (h : RebRel a b) : a.udb = a.udisk ↔ b.udb = b.udisk := by
  rw [Usage.eq_iff, Usage.eq_iff, h.udb, h.udisk]
  simp [h.cura, h.curb]

theorem RebRel.blurTime {a b : Sys} (h : RebRel a b) : a.blurTime = b.blurTime := by
  funext t
  unfold Sys.blurTime Sys.blurTicks
  rw [h.cfg]

theorem RebRel.commit {a b : Sys} (h : RebRel a b) : RebRel a.commit b.commit := by
  obtain ⟨⟨e1, e2, e3⟩, hc, ho, hu, hd, ca, cb⟩ := h
  unfold Sys.commit
  by_cases hq : a.db = a.disk
  · have hq' : b.db = b.disk := by rw [← e1, ← e2]; exact hq
    rw [if_pos hq, if_pos hq']
    exact ⟨⟨e1, e2, e3⟩, hc, ho, hu, hd, ca, cb⟩
  · have hq' : ¬ b.db = b.disk := by rw [← e1, ← e2]; exact hq
    rw [if_neg hq, if_neg hq']
    exact ⟨⟨e1, e1, e3⟩, hc, by simp [ho], hu, hd, ca, cb⟩

theorem RebRel.ucommit {a b : Sys} (h : RebRel a b) : RebRel a.ucommit b.ucommit := by
  have hs := h.usync
  obtain ⟨⟨e1, e2, e3⟩, hc, ho, hu, hd, ca, cb⟩ := h
  unfold Sys.ucommit
  by_cases hq : a.udb = a.udisk
  · rw [if_pos hq, if_pos (hs.1 hq)]
    exact ⟨⟨e1, e2, e3⟩, hc, ho, hu, hd, ca, cb⟩
  · rw [if_neg hq, if_neg (fun h' => hq (hs.2 h'))]
    exact ⟨⟨e1, e2, e3⟩, hc, by simp [ho], hu, hu, rfl, rfl⟩

theorem RebRel.emit {a b : Sys} (h : RebRel a b) (e : Event) : RebRel (a.emit e) (b.emit e) :=
  ⟨h.chan, h.cfg, by simp [h.out], h.udb, h.udisk, h.cura, h.curb⟩

theorem RebRel.list {a b : Sys} (h : RebRel a b) (ha : a.Synced) (hb : b.Synced) (x : Conn) (app : String) :
    RebRel (a.handleList x app) (b.handleList x app) := by
  unfold Sys.handleList Sys.send
  rw [(synced_iff a).2 ha, (synced_iff b).2 hb, h.cfg, h.chan.1]
  exact h.emit _

theorem RebRel.uNp {a b : Sys} (h : RebRel a b) (app sides t p) :
    RebRel (a.uNp app sides t p).1 (b.uNp app sides t p).1 := by
  unfold Sys.uNp Sys.storeNameplateUsage
  rw [← h.cfg, ← h.blurTime]
  by_cases hu : a.cfg.usage = true
  · rw [if_pos hu, if_pos hu]
    cases summarizeNameplate a.blurTime (sides.map (·.added)) t p with
    | none => exact h
    | some u =>
      obtain ⟨hc, hcfg, ho, hudb, hud, ca, cb⟩ := h
      simp only [Usage.core, Prod.mk.injEq] at hudb
      exact ⟨hc, hcfg, ho, by simp [Usage.core, Sys.modUdb, hudb], hud, ca, cb⟩
  · rw [if_neg hu, if_neg hu]
    exact h

theorem RebRel.uMb {a b : Sys} (h : RebRel a b) (app f sides t p) :
    RebRel (a.uMb app f sides t p) (b.uMb app f sides t p) := by
  unfold Sys.uMb Sys.storeMailboxUsage
  rw [← h.cfg, ← h.blurTime]
  by_cases hu : a.cfg.usage = true
  · rw [if_pos hu, if_pos hu]
    obtain ⟨hc, hcfg, ho, hudb, hud, ca, cb⟩ := h
    simp only [Usage.core, Prod.mk.injEq] at hudb
    exact ⟨hc, hcfg, ho, by simp [Usage.core, Sys.modUdb, hudb], hud, ca, cb⟩
  · rw [if_neg hu, if_neg hu]
    exact h

theorem RebRel.uCommit {a b : Sys} (h : RebRel a b) : RebRel a.uCommit b.uCommit := by
  unfold Sys.uCommit
  rw [← h.cfg]
  by_cases hu : a.cfg.usage = true
  · rw [if_pos hu, if_pos hu]; exact h.ucommit
  · rw [if_neg hu, if_neg hu]; exact h

theorem RebRel.lcv {a b : Sys} (h : RebRel a b) (app side t i v) :
    RebRel (a.logClientVersion app side t i v) (b.logClientVersion app side t i v) := by
  unfold Sys.logClientVersion
  rw [← h.cfg, ← h.blurTime]
  by_cases hu : a.cfg.usage = true
  · rw [if_pos hu, if_pos hu]
    apply RebRel.ucommit
    obtain ⟨hc, hcfg, ho, hudb, hud, ca, cb⟩ := h
    simp only [Usage.core, Prod.mk.injEq] at hudb
    exact ⟨hc, hcfg, ho, by simp [Usage.core, Sys.modUdb, hudb], hud, ca, cb⟩
  · rw [if_neg hu, if_neg hu]
    exact h

/-- `RebRel` has the closure properties of the generic walk -/
theorem rebRel_simRel : SimRel RebRel where
  chan h := h.chan
  welcome h := by rw [h.cfg]
  modDb h f := ⟨⟨congrArg f h.chan.1, h.chan.2.1, h.chan.2.2⟩, h.cfg, h.out, h.udb, h.udisk, h.cura, h.curb⟩
  commit h := h.commit
  setConns h _ := ⟨⟨h.chan.1, h.chan.2.1, rfl⟩, h.cfg, h.out, h.udb, h.udisk, h.cura, h.curb⟩
  emit h e := h.emit e
  list h ha hb x app := h.list ha hb x app
  uNp h app sides t p := h.uNp app sides t p
  uMb h app f sides t p := h.uMb app f sides t p
  uCommit h := h.uCommit
  lcv h app side t i v := h.lcv app side t i v
  restart h _ := ⟨⟨h.chan.2.1, h.chan.2.1, rfl⟩, h.cfg, h.out, h.udisk, h.udisk, rfl, rfl⟩

/-- what `dump_stats` may append: nothing, or one effective usage commit -/
def DumpTail (d : List Event) : Prop := d = [] ∨ d = [.commit .usage]

/-- equal up to the usage commit of `dump_stats` at the end -/
def EqUpToDump (o₁ o₂ : List Event) : Prop :=
  ∃ pre d₁ d₂, o₁ = pre ++ d₁ ∧ o₂ = pre ++ d₂ ∧ DumpTail d₁ ∧ DumpTail d₂

theorem EqUpToDump.of_eq {o₁ o₂ : List Event} (h : o₁ = o₂) : EqUpToDump o₁ o₂ :=
  ⟨o₁, [], [], by simp, by simp [h], Or.inl rfl, Or.inl rfl⟩

theorem EqUpToDump.eraseUsage {o₁ o₂ : List Event} (h : EqUpToDump o₁ o₂) :
    o₁.filterMap eraseUsage = o₂.filterMap eraseUsage := by
  obtain ⟨pre, d₁, d₂, rfl, rfl, h1, h2⟩ := h
  rcases h1 with rfl | rfl <;> rcases h2 with rfl | rfl <;> simp [List.filterMap_append, Wormhole.eraseUsage]

theorem dumpStats_out (s : Sys) (now : Time) : ∃ d, (s.dumpStats now).out = s.out ++ d ∧ DumpTail d := by
  unfold Sys.dumpStats Sys.ucommit
  split
  · split
    · exact ⟨[], by simp [Sys.modUdb], Or.inl rfl⟩
    · exact ⟨[.commit .usage], by simp [Sys.modUdb], Or.inr rfl⟩
  · exact ⟨[], by simp, Or.inl rfl⟩

/-- `dump_stats` from related states: everything is related again except the events, which are
    equal up to the trailing usage commit; afterwards nothing of the usage side is pending
    provided nothing of it was pending before, and in any case `udb.current = udisk.current`. -/
theorem RebRel.dumpStats {a b : Sys} (h : RebRel a b) (now : Time) :
    ChanEq (a.dumpStats now) (b.dumpStats now) ∧ (a.dumpStats now).cfg = (b.dumpStats now).cfg ∧
    (a.dumpStats now).udb.core = (b.dumpStats now).udb.core ∧
    (a.dumpStats now).udisk.core = (b.dumpStats now).udisk.core ∧
    EqUpToDump (a.dumpStats now).out (b.dumpStats now).out := by
  obtain ⟨da, hoa, hda⟩ := dumpStats_out a now
  obtain ⟨db, hob, hdb⟩ := dumpStats_out b now
  refine ⟨⟨by simpa using h.chan.1, by simpa using h.chan.2.1, ?_⟩, by simpa using h.cfg, ?_, ?_,
    ⟨a.out, da, db, hoa, by rw [hob, h.out], hda, hdb⟩⟩
  · unfold Sys.dumpStats; split <;> split <;> simp [h.chan.2.2]
  · unfold Sys.dumpStats
    rw [← h.cfg]
    have := h.udb
    simp only [Usage.core, Prod.mk.injEq] at this
    split <;> simp [Usage.core, Sys.modUdb, this]
  · unfold Sys.dumpStats
    rw [← h.cfg]
    have h1 := h.udb
    have h2 := h.udisk
    simp only [Usage.core, Prod.mk.injEq] at h1 h2
    split
    · simp [Usage.core, Sys.modUdb, h1]
    · simp [Usage.core, h2]

end Sys
end Wormhole
