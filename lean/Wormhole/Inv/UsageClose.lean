/-
  The usage rows of a deleting `close`, exactly.

  `mailboxClose_udb`: when `Mailbox.close` finds no opened side left it appends one usage
  `nameplates` row per nameplate of the app that points at the mailbox (repair F, before the DELETEs)
  and one usage `mailboxes` row computed from the side rows AFTER its own UPDATE (the closing side's
  row already carries `opened = 0` and the submitted mood).
  `close_step_udb`: the same for the whole `close` operation (after the implicit `open_mailbox` of
  a connection without a handle).
-/
import Wormhole.Inv.UsageDefs
import Wormhole.Inv.MbStep

namespace Wormhole
namespace Sys

/-- the loop of repair F appends one row per nameplate, in order -/
theorem storeNameplatesOfMailbox_eq {app : String} {t : Time} (l : List Nameplate) :
    ∀ {s : Sys}, (∀ n ∈ l, s.db.npSidesOf n.id ≠ []) →
      s.storeNameplatesOfMailbox app t l =
        (s.modUdb (fun d => { d with
          nameplates := d.nameplates ++
            l.map (fun np => npRecord s.blurTime app ((s.db.npSidesOf np.id).map (·.added)) t false) }), true) := by
  induction l with
  | nil =>
    intro s _
    simp [storeNameplatesOfMailbox, modUdb]
  | cons np rest ih =>
    intro s h
    unfold storeNameplatesOfMailbox
    rw [storeNameplateUsage_eq _ _ _ _ (h np List.mem_cons_self)]
    dsimp only
    rw [ih (by intro n hn; exact h n (List.mem_cons_of_mem _ hn))]
    simp only [blurTime_modUdb, modUdb_db]
    simp [modUdb, List.append_assoc]

/-- **`Mailbox.close`, deleting case: the usage database afterwards** -/
theorem mailboxClose_udb {s : Sys} {app mb side : String} {mood : Option String} {t : Time} {row : MailboxRow}
    {r0 : MbSide} (hN : s.db.NpHasSide) (hu : s.cfg.usage = true)
    (hrow : s.db.findMailbox app mb = some row) (hside : s.db.findMbSide mb side = some r0)
    (hany : ((s.db.closeSide mb side mood).mbSidesOf mb).any (·.opened) = false) :
    (s.mailboxClose app mb side mood t).1.udb =
      { s.udb with
        nameplates := s.udb.nameplates ++ (s.db.nameplatesOfMailbox app mb).map
          (fun np => npRecord s.blurTime app ((s.db.npSidesOf np.id).map (·.added)) t false)
        mailboxes := s.udb.mailboxes ++
          [mbRecord s.blurTime app row.forNp ((s.db.closeSide mb side mood).mbSidesOf mb) t false] } := by
  unfold mailboxClose
  rw [hrow]
  dsimp only
  rw [hside]
  dsimp only
  simp only [commit_db, modDb_db, hany, Bool.false_eq_true, if_false, commit_cfg, modDb_cfg, hu, if_true]
  have hne : ∀ n ∈ (s.db.closeSide mb side mood).nameplatesOfMailbox app mb,
      ((s.modDb fun x => x.closeSide mb side mood).commit).db.npSidesOf n.id ≠ [] := by
    intro n hn
    simp only [commit_db, modDb_db]
    exact npSidesOf_ne_nil (d := s.db.closeSide mb side mood) hN (List.mem_filter.1 hn).1
  rw [storeNameplatesOfMailbox_eq _ hne]
  simp only [Bool.not_true, Bool.false_eq_true, if_false, modUdb_cfg, commit_cfg, modDb_cfg, hu, if_true,
    storeMailboxUsage_eq, blurTime_modDb, blurTime_modUdb, blurTime_commit, stopListeners_udb, commit_udb,
    ucommit_udb, modUdb_udb, modDb_udb, commit_db, modDb_db]
  rfl

/-- the answer of `handle_close` after `Mailbox.close` does not touch the usage database -/
theorem closeTail_udb (s2 : Sys) (c : Nat) (app tgt side : String) (mood : Option String) (t : Time) :
    (match s2.mailboxClose app tgt side mood t with
      | (s3, false) => s3.internalErr c "IndexError"
      | (s3, true) => (s3.updConn c (fun y => { y with mailbox := none })).send c .closed).udb =
      (s2.mailboxClose app tgt side mood t).1.udb := by
  cases s2.mailboxClose app tgt side mood t with
  | mk s3 b => cases b <;> rfl

/-- **a deleting `close`, the whole step: the usage database afterwards.**  `pre` is the channel
    database after the implicit `open_mailbox` (`closePre`). -/
theorem close_step_udb {s : Sys} (hP : s.db.PInv) (hN : s.db.NpHasSide) (hu : s.cfg.usage = true)
    {c : Nat} {x : Conn} (hx : s.findConn c = some x) {m mood : Option String}
    (hr : rejectText x (.close m mood) = none) {app : String} (happ : x.app = some app)
    {tgt : String} (htg : x.closeTarget m = some tgt) (t : Time) (id : Val)
    (hnot : ¬ (x.mailbox = none ∧ (s.db.Clash app tgt ∨ ((closePre s x app tgt t).mbSidesOf tgt).length > 2)))
    {row : MailboxRow} {r0 : MbSide} (hrow : (closePre s x app tgt t).findMailbox app tgt = some row)
    (hside : (closePre s x app tgt t).findMbSide tgt (x.side.getD "") = some r0)
    (hany : (((closePre s x app tgt t).closeSide tgt (x.side.getD "") mood).mbSidesOf tgt).any (·.opened) = false) :
    (s.step (.recv c t id (.close m mood))).udb =
      { s.udb with
        nameplates := s.udb.nameplates ++ ((closePre s x app tgt t).nameplatesOfMailbox app tgt).map
          (fun np => npRecord s.blurTime app (((closePre s x app tgt t).npSidesOf np.id).map (·.added)) t false)
        mailboxes := s.udb.mailboxes ++
          [mbRecord s.blurTime app row.forNp
            (((closePre s x app tgt t).closeSide tgt (x.side.getD "") mood).mbSidesOf tgt) t false] } := by
  obtain ⟨_, _, ⟨mb, hn⟩, _⟩ := close_accepted hr
  rw [step_close_eq hx hr happ hn]
  generalize hA : (({ s with out := [], snaps := [] } : Sys).send c (.ack id)) = sA
  have hAdb : sA.db = s.db := by rw [← hA]; rfl
  have hAudb : sA.udb = s.udb := by rw [← hA]; rfl
  have hAcfg : sA.cfg = s.cfg := by rw [← hA]; rfl
  cases hh : x.mailbox with
  | some h =>
    have htgt : tgt = h := by simp [Conn.closeTarget, hh] at htg; exact htg.symm
    subst htgt
    have hpre : closePre s x app tgt t = s.db := by simp [closePre, hh]
    rw [hpre] at hrow hside hany ⊢
    simp only [closeGo, hh]
    have key := mailboxClose_udb (s := sA.updConn x.id (fun y => { y with listening := false, didClose := true }))
      (t := t) (row := row) (r0 := r0) (by show sA.db.NpHasSide; rw [hAdb]; exact hN)
      (by show sA.cfg.usage = true; rw [hAcfg]; exact hu) (by show sA.db.findMailbox app tgt = _; rw [hAdb]; exact hrow)
      (by show sA.db.findMbSide tgt _ = _; rw [hAdb]; exact hside)
      (by show ((sA.db.closeSide tgt _ mood).mbSidesOf tgt).any _ = _; rw [hAdb]; exact hany)
    simp only [updConn_udb, updConn_db, hAudb, hAdb, blurTime_updConn, blurTime_congr hAcfg] at key
    cases e : (sA.updConn x.id (fun y => { y with listening := false, didClose := true })).mailboxClose
        app tgt (x.side.getD "") mood t with
    | mk s3 b =>
      rw [e] at key
      cases b <;> exact key
  | none =>
    have htgt : mb = tgt := by
      simp only [Conn.closeTarget, hh] at htg
      rw [hn] at htg; cases htg; rfl
    subst htgt
    have hpre : closePre s x app mb t = s.db.openDb app mb (x.side.getD "") t := by simp [closePre, hh]
    rw [hpre] at hrow hside hany hnot ⊢
    cases e : sA.openMailbox app mb (x.side.getD "") t with
    | mk s1 r =>
      obtain ⟨hint, hsame, hne, hcrowd⟩ := openMailbox_exact (by rw [hAdb]; exact hP) e
      rw [hAdb] at hint hne hcrowd
      cases r with
      | integrity => exact absurd ⟨hh, Or.inl (hint.1 rfl)⟩ hnot
      | crowded => exact absurd ⟨hh, Or.inr (hcrowd.1 rfl).2⟩ hnot
      | ok =>
        simp only [closeGo, hh, e, if_true]
        obtain ⟨hdb, _, hrest⟩ := hne (by simp)
        have key := mailboxClose_udb (s := (s1.updConn x.id (fun y => { y with mailbox := some mb })).updConn
            x.id (fun y => { y with listening := false, didClose := true }))
          (t := t) (row := row) (r0 := r0) (by show s1.db.NpHasSide; rw [hdb]; exact hN)
          (by show s1.cfg.usage = true; rw [hrest.cfg, hAcfg]; exact hu)
          (by show s1.db.findMailbox app mb = _; rw [hdb]; exact hrow)
          (by show s1.db.findMbSide mb _ = _; rw [hdb]; exact hside)
          (by show ((s1.db.closeSide mb _ mood).mbSidesOf mb).any _ = _; rw [hdb]; exact hany)
        simp only [updConn_udb, updConn_db, hrest.udb, hAudb, hdb, blurTime_updConn,
          blurTime_congr (hrest.cfg.trans hAcfg)] at key
        cases e2 : ((s1.updConn x.id (fun y => { y with mailbox := some mb })).updConn
            x.id (fun y => { y with listening := false, didClose := true })).mailboxClose
            app mb (x.side.getD "") mood t with
        | mk s3 b =>
          rw [e2] at key
          cases b <;> exact key

end Sys
end Wormhole
