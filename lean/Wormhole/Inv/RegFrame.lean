/-
  Frame lemmas: the functions of Core.lean / Ws.lean that the registry model runs on
  `RSys.core` neither read nor write the connection table, so they commute with replacing it
  (`Sys.setConns`).  This is what lets `RSys.abs` (which installs the abstracted connection
  table) be pushed through them.
-/
import Wormhole.Reg

namespace Wormhole
namespace Sys

/-- replace the connection table -/
def setConns (s : Sys) (cs : List Conn) : Sys := { s with conns := cs }

section
variable (s : Sys) (cs : List Conn)

@[simp] theorem setConns_cfg : (s.setConns cs).cfg = s.cfg := rfl
@[simp] theorem setConns_db : (s.setConns cs).db = s.db := rfl
@[simp] theorem setConns_disk : (s.setConns cs).disk = s.disk := rfl
@[simp] theorem setConns_udb : (s.setConns cs).udb = s.udb := rfl
@[simp] theorem setConns_udisk : (s.setConns cs).udisk = s.udisk := rfl
@[simp] theorem setConns_conns : (s.setConns cs).conns = cs := rfl
@[simp] theorem setConns_rebooted : (s.setConns cs).rebooted = s.rebooted := rfl
@[simp] theorem setConns_out : (s.setConns cs).out = s.out := rfl
@[simp] theorem setConns_snaps : (s.setConns cs).snaps = s.snaps := rfl
@[simp] theorem setConns_setConns (cs' : List Conn) : (s.setConns cs).setConns cs' = s.setConns cs' := rfl
@[simp] theorem setConns_synced : (s.setConns cs).synced = s.synced := rfl
@[simp] theorem setConns_blurTime : (s.setConns cs).blurTime = s.blurTime := rfl
@[simp] theorem setConns_allApps : (s.setConns cs).allApps = s.allApps := rfl

@[simp] theorem emit_setConns (e : Event) : (s.setConns cs).emit e = (s.emit e).setConns cs := rfl
@[simp] theorem send_setConns (c : Nat) (f : Frame) : (s.setConns cs).send c f = (s.send c f).setConns cs := rfl
@[simp] theorem sendError_setConns (c : Nat) (t : String) :
    (s.setConns cs).sendError c t = (s.sendError c t).setConns cs := rfl
@[simp] theorem internalErr_setConns (c : Nat) (t : String) :
    (s.setConns cs).internalErr c t = (s.internalErr c t).setConns cs := rfl
@[simp] theorem modDb_setConns (f : Chan → Chan) : (s.setConns cs).modDb f = (s.modDb f).setConns cs := rfl
@[simp] theorem modUdb_setConns (f : Usage → Usage) : (s.setConns cs).modUdb f = (s.modUdb f).setConns cs := rfl

@[simp] theorem commit_setConns : (s.setConns cs).commit = s.commit.setConns cs := by
  unfold commit
  split <;> rename_i h <;> simp only [setConns_db, setConns_disk] at h <;> simp [h] <;> rfl

@[simp] theorem ucommit_setConns : (s.setConns cs).ucommit = s.ucommit.setConns cs := by
  unfold ucommit
  split <;> rename_i h <;> simp only [setConns_udb, setConns_udisk] at h <;> simp [h] <;> rfl

@[simp] theorem handlePing_setConns (c : Nat) (v : Option Val) :
    (s.setConns cs).handlePing c v = (s.handlePing c v).setConns cs := by
  unfold handlePing; split <;> rfl

@[simp] theorem storeNameplateUsage_setConns (app : String) (sides : List NpSide) (t : Time) (p : Bool) :
    (s.setConns cs).storeNameplateUsage app sides t p =
      ((s.storeNameplateUsage app sides t p).1.setConns cs, (s.storeNameplateUsage app sides t p).2) := by
  unfold storeNameplateUsage
  simp only [setConns_blurTime]
  split <;> rfl

@[simp] theorem storeMailboxUsage_setConns (app : String) (fn : Bool) (sides : List MbSide) (t : Time) (p : Bool) :
    (s.setConns cs).storeMailboxUsage app fn sides t p = (s.storeMailboxUsage app fn sides t p).setConns cs := rfl

@[simp] theorem mailboxOpen_setConns (mb side : String) (t : Time) :
    (s.setConns cs).mailboxOpen mb side t = (s.mailboxOpen mb side t).setConns cs := by
  unfold mailboxOpen
  simp only [setConns_db]
  split <;> simp

@[simp] theorem addMailbox_setConns (app mb : String) (fn : Bool) (t : Time) :
    (s.setConns cs).addMailbox app mb fn t = (s.addMailbox app mb fn t).map (·.setConns cs) := by
  unfold addMailbox
  simp only [setConns_db]
  split
  · rfl
  · split <;> rfl

@[simp] theorem openMailbox_setConns (app mb side : String) (t : Time) :
    (s.setConns cs).openMailbox app mb side t =
      ((s.openMailbox app mb side t).1.setConns cs, (s.openMailbox app mb side t).2) := by
  unfold openMailbox
  simp only [addMailbox_setConns]
  cases s.addMailbox app mb false t with
  | none => rfl
  | some s1 =>
    simp only [Option.map_some, mailboxOpen_setConns, commit_setConns, setConns_db]
    split <;> rfl

@[simp] theorem addMessage_setConns (app mb side : String) (ph bd : Val) (t : Time) (id : Val) :
    (s.setConns cs).addMessage app mb side ph bd t id = (s.addMessage app mb side ph bd t id).setConns cs := by
  unfold addMessage
  simp

@[simp] theorem logClientVersion_setConns (app side : String) (t : Time) (i v : Option String) :
    (s.setConns cs).logClientVersion app side t i v = (s.logClientVersion app side t i v).setConns cs := by
  by_cases h : s.cfg.usage <;> simp [logClientVersion, h]

end

theorem storeNameplatesOfMailbox_setConns (app : String) (t : Time) (l : List Nameplate) :
    ∀ (s : Sys) (cs : List Conn), (s.setConns cs).storeNameplatesOfMailbox app t l =
      ((s.storeNameplatesOfMailbox app t l).1.setConns cs, (s.storeNameplatesOfMailbox app t l).2) := by
  induction l with
  | nil => intro s cs; rfl
  | cons np rest ih =>
    intro s cs
    unfold storeNameplatesOfMailbox
    simp only [storeNameplateUsage_setConns, setConns_db]
    cases h : s.storeNameplateUsage app (s.db.npSidesOf np.id) t false with
    | mk s1 b =>
      cases b with
      | false => rfl
      | true => exact ih s1 cs

attribute [simp] storeNameplatesOfMailbox_setConns

@[simp] theorem replay_setConns (s : Sys) (cs : List Conn) (c : Nat) (app mb : String) :
    (s.setConns cs).replay c app mb = (s.replay c app mb).setConns cs := by
  unfold replay
  simp only [setConns_db]
  generalize ((s.db.messagesOf app mb).mergeSort fun a b => decide (a.rx ≤ b.rx)) = l
  induction l generalizing s with
  | nil => rfl
  | cons m rest ih => simp only [List.foldl_cons, send_setConns]; exact ih _

@[simp] theorem releaseNameplate_setConns (s : Sys) (cs : List Conn) (app name side : String) (t : Time) :
    (s.setConns cs).releaseNameplate app name side t =
      ((s.releaseNameplate app name side t).1.setConns cs, (s.releaseNameplate app name side t).2) := by
  unfold releaseNameplate
  simp only [setConns_db]
  split
  · rfl
  · split
    · rfl
    · simp only [modDb_setConns, commit_setConns, setConns_db, setConns_cfg]
      split
      · rfl
      · split
        · simp only [storeNameplateUsage_setConns]
          generalize ((((s.modDb _).commit.modDb _).storeNameplateUsage _ _ _ _)) = q
          obtain ⟨s3, b⟩ := q
          cases b <;> simp
        · rfl

theorem pruneNameplates_setConns (app : String) (now : Time) (l : List Nameplate) :
    ∀ (s : Sys) (cs : List Conn), (s.setConns cs).pruneNameplates app now l =
      ((s.pruneNameplates app now l).1.setConns cs, (s.pruneNameplates app now l).2) := by
  induction l with
  | nil => intro s cs; rfl
  | cons np rest ih =>
    intro s cs
    unfold pruneNameplates
    simp only [modDb_setConns, setConns_cfg, setConns_db, storeNameplateUsage_setConns]
    split
    · cases h : (s.modDb fun d => (d.delNpSidesOf np.id).delNameplate np.id).storeNameplateUsage app
          (s.db.npSidesOf np.id) now true with
      | mk s1 b =>
        cases b with
        | false => rfl
        | true => exact ih s1 cs
    · exact ih _ cs

theorem pruneMailboxes_setConns (app : String) (now : Time) (l : List MailboxRow) :
    ∀ (s : Sys) (cs : List Conn), (s.setConns cs).pruneMailboxes app now l =
      (s.pruneMailboxes app now l).setConns cs := by
  induction l with
  | nil => intro s cs; rfl
  | cons row rest ih =>
    intro s cs
    rw [pruneMailboxes, pruneMailboxes]
    simp only [modDb_setConns, setConns_cfg, setConns_db]
    by_cases h : (s.modDb fun d => ((d.delMessagesOf row.id).delMbSidesOf row.id).delMailbox row.id).cfg.usage = true
    · simp only [h, if_true, storeMailboxUsage_setConns]; exact ih _ cs
    · simp only [h]; exact ih _ cs

attribute [simp] pruneNameplates_setConns pruneMailboxes_setConns

@[simp] theorem pruneLoops_setConns (s : Sys) (cs : List Conn) (app : String) (now : Time)
    (oldMb : List MailboxRow) (oldNp : List Nameplate) :
    (s.setConns cs).pruneLoops app now oldMb oldNp =
      ((s.pruneLoops app now oldMb oldNp).1.setConns cs, (s.pruneLoops app now oldMb oldNp).2) := by
  unfold pruneLoops
  rw [pruneNameplates_setConns]
  rcases h : s.pruneNameplates app now oldNp with ⟨s2, b⟩
  cases b
  · rfl
  · dsimp only
    simp only [pruneMailboxes_setConns, commit_setConns, setConns_cfg, ucommit_setConns]
    split
    · split <;> rfl
    · rfl

@[simp] theorem pruneTail_setConns (s : Sys) (cs : List Conn) (app : String) (now old : Time) :
    (s.setConns cs).pruneTail app now old =
      ((s.pruneTail app now old).1.setConns cs, (s.pruneTail app now old).2) := by
  unfold pruneTail
  exact pruneLoops_setConns _ _ _ _ _ _

/-- `AppNamespace.prune` = touch loop, commit, `pruneTail` -/
theorem prune_eq_tail (s : Sys) (app : String) (now old : Time) :
    s.prune app now old = ((s.touchListened app now).commit).pruneTail app now old := rfl

end Sys
end Wormhole
