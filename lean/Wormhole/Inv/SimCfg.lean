/-
  Two-run library, instance 1 (for C18): `CfgRel`.

  The two runs have the same channel side and the same `cfg.welcome`; NOTHING is assumed about
  `cfg.allowList`, `cfg.usage`, `cfg.blur`, `udb`, `udisk`, `rebooted`.  Events are compared
  after `eraseCfg` (usage commits dropped, payload of `nameplates` answers blanked).

  Every usage block is a `UStep`: it leaves `db`, `disk`, `conns`, `cfg` alone and appends
  only events that `eraseCfg` drops.  `dump_stats` is a `UStep` too.
-/
import Wormhole.Inv.SimWs

namespace Wormhole
namespace Sys

structure CfgRel (a b : Sys) : Prop where
  chan : ChanEq a b
  welcome : a.cfg.welcome = b.cfg.welcome
  out : a.out.filterMap eraseCfg = b.out.filterMap eraseCfg

/-- a step that is invisible on the channel side -/
structure UStep (s s' : Sys) : Prop where
  db : s'.db = s.db
  disk : s'.disk = s.disk
  conns : s'.conns = s.conns
  cfg : s'.cfg = s.cfg
  out : s'.out.filterMap eraseCfg = s.out.filterMap eraseCfg

theorem UStep.refl (s : Sys) : UStep s s := ⟨rfl, rfl, rfl, rfl, rfl⟩
theorem UStep.trans {a b c : Sys} (h1 : UStep a b) (h2 : UStep b c) : UStep a c :=
  ⟨h2.db.trans h1.db, h2.disk.trans h1.disk, h2.conns.trans h1.conns, h2.cfg.trans h1.cfg,
   h2.out.trans h1.out⟩

theorem UStep.modUdb (s : Sys) (f) : UStep s (s.modUdb f) := ⟨rfl, rfl, rfl, rfl, rfl⟩

theorem UStep.ucommit (s : Sys) : UStep s s.ucommit := by
  unfold Sys.ucommit
  split
  · exact UStep.refl s
  · exact ⟨rfl, rfl, rfl, rfl, by simp [List.filterMap_append, eraseCfg]⟩

theorem UStep.storeNameplateUsage (s : Sys) (app sides t p) : UStep s (s.storeNameplateUsage app sides t p).1 := by
  unfold Sys.storeNameplateUsage
  split
  · exact UStep.refl s
  · exact ⟨rfl, rfl, rfl, rfl, rfl⟩

theorem UStep.uNp (s : Sys) (app sides t p) : UStep s (s.uNp app sides t p).1 := by
  unfold Sys.uNp
  split
  · exact UStep.storeNameplateUsage s _ _ _ _
  · exact UStep.refl s

theorem UStep.uMb (s : Sys) (app f sides t p) : UStep s (s.uMb app f sides t p) := by
  unfold Sys.uMb Sys.storeMailboxUsage
  split
  · exact UStep.modUdb s _
  · exact UStep.refl s

theorem UStep.uCommit (s : Sys) : UStep s s.uCommit := by
  unfold Sys.uCommit
  split
  · exact UStep.ucommit s
  · exact UStep.refl s

theorem UStep.logClientVersion (s : Sys) (app side t i v) : UStep s (s.logClientVersion app side t i v) := by
  unfold Sys.logClientVersion
  split
  · exact (UStep.modUdb s _).trans (UStep.ucommit _)
  · exact UStep.refl s

theorem UStep.dumpStats (s : Sys) (now : Time) : UStep s (s.dumpStats now) := by
  unfold Sys.dumpStats
  split
  · exact (UStep.modUdb s _).trans (UStep.ucommit _)
  · exact UStep.refl s

theorem CfgRel.ustep {a b a' b' : Sys} (h : CfgRel a b) (ua : UStep a a') (ub : UStep b b') : CfgRel a' b' := by
  obtain ⟨⟨h1, h2, h3⟩, hw, ho⟩ := h
  refine ⟨⟨?_, ?_, ?_⟩, ?_, ?_⟩
  · rw [ua.db, ub.db]; exact h1
  · rw [ua.disk, ub.disk]; exact h2
  · rw [ua.conns, ub.conns]; exact h3
  · rw [ua.cfg, ub.cfg]; exact hw
  · rw [ua.out, ub.out]; exact ho

theorem CfgRel.commit {a b : Sys} (h : CfgRel a b) : CfgRel a.commit b.commit := by
  obtain ⟨⟨e1, e2, e3⟩, hw, ho⟩ := h
  unfold Sys.commit
  by_cases hc : a.db = a.disk
  · have hc' : b.db = b.disk := by rw [← e1, ← e2]; exact hc
    rw [if_pos hc, if_pos hc']
    exact ⟨⟨e1, e2, e3⟩, hw, ho⟩
  · have hc' : ¬ b.db = b.disk := by rw [← e1, ← e2]; exact hc
    rw [if_neg hc, if_neg hc']
    exact ⟨⟨e1, e1, e3⟩, hw, by simp [List.filterMap_append, ho, eraseCfg]⟩

theorem CfgRel.emit {a b : Sys} (h : CfgRel a b) (e : Event) : CfgRel (a.emit e) (b.emit e) :=
  ⟨h.chan, h.welcome, by simp [List.filterMap_append, h.out]⟩

theorem CfgRel.list {a b : Sys} (h : CfgRel a b) (ha : a.Synced) (hb : b.Synced) (x : Conn) (app : String) :
    CfgRel (a.handleList x app) (b.handleList x app) := by
  unfold Sys.handleList Sys.send
  rw [(synced_iff a).2 ha, (synced_iff b).2 hb]
  exact ⟨h.chan, h.welcome, by simp [List.filterMap_append, h.out, eraseCfg]⟩

/-- `CfgRel` has the closure properties of the generic walk -/
theorem cfgRel_simRel : SimRel CfgRel where
  chan h := h.chan
  welcome h := h.welcome
  modDb h f := ⟨⟨congrArg f h.chan.1, h.chan.2.1, h.chan.2.2⟩, h.welcome, h.out⟩
  commit h := h.commit
  setConns h _ := ⟨⟨h.chan.1, h.chan.2.1, rfl⟩, h.welcome, h.out⟩
  emit h e := h.emit e
  list h ha hb x app := h.list ha hb x app
  uNp h app sides t p := h.ustep (UStep.uNp _ app sides t p) (UStep.uNp _ app sides t p)
  uMb h app f sides t p := h.ustep (UStep.uMb _ app f sides t p) (UStep.uMb _ app f sides t p)
  uCommit h := h.ustep (UStep.uCommit _) (UStep.uCommit _)
  lcv h app side t i v := h.ustep (UStep.logClientVersion _ app side t i v) (UStep.logClientVersion _ app side t i v)
  restart h _ := ⟨⟨h.chan.2.1, h.chan.2.1, rfl⟩, h.welcome, h.out⟩

theorem CfgRel.dumpStats {a b : Sys} (h : CfgRel a b) (now : Time) : CfgRel (a.dumpStats now) (b.dumpStats now) :=
  h.ustep (UStep.dumpStats a now) (UStep.dumpStats b now)

/-- **the generic walk instantiated**: every non-crash operation, from related states that are
    at the start of a step (`out = []`) with nothing uncommitted and the nameplate tables in
    order -/
theorem W.stepPlain_cfg {a b : Sys} (w : W CfgRel a b) (op : Op) :
    W CfgRel (a.stepPlain op) (b.stepPlain op) := by
  cases op with
  | connect c => exact w.connect cfgRel_simRel c
  | recv c t id cmd => exact w.onMessage cfgRel_simRel c t id cmd
  | drop c => exact w.dropConn cfgRel_simRel c
  | sweep now fault =>
    have w1 := w.expireCore cfgRel_simRel now fault
    exact ⟨w1.rel.dumpStats now, w1.oka.dumpStats now, w1.okb.dumpStats now⟩
  | restart t => exact w.restart cfgRel_simRel t
  | crashIn k op => exact w

end Sys
end Wormhole
