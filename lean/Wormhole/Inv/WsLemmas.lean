/-
  Event-list lemmas for the websocket layer (used by Props/C17.lean).

  `OutExt P s s'`: the events of `s'` are those of `s` followed by events that all satisfy `P`.
  Every function of `Core.lean` that a handler calls only appends `commit` events
  (`CExt`); the handlers append frames, commits and `internal` events.
-/
import Wormhole.Ws

namespace Wormhole
namespace Sys

/-- `s'.out` is `s.out` followed by events that all satisfy `P` -/
def OutExt (P : Event → Prop) (s s' : Sys) : Prop :=
  ∃ l, s'.out = s.out ++ l ∧ ∀ e ∈ l, P e

theorem OutExt.refl {P} {s : Sys} : OutExt P s s := ⟨[], by simp, by simp⟩

theorem OutExt.of_out_eq {P} {s s' : Sys} (h : s'.out = s.out) : OutExt P s s' :=
  ⟨[], by simp [h], by simp⟩

theorem OutExt.trans {P} {s s1 s2 : Sys} (h1 : OutExt P s s1) (h2 : OutExt P s1 s2) :
    OutExt P s s2 := by
  obtain ⟨l1, e1, p1⟩ := h1
  obtain ⟨l2, e2, p2⟩ := h2
  refine ⟨l1 ++ l2, by simp [e2, e1], ?_⟩
  intro e he
  rcases List.mem_append.1 he with h | h
  · exact p1 e h
  · exact p2 e h

theorem OutExt.mono {P Q : Event → Prop} {s s' : Sys} (h : ∀ e, P e → Q e) :
    OutExt P s s' → OutExt Q s s' := by
  rintro ⟨l, e, p⟩
  exact ⟨l, e, fun x hx => h x (p x hx)⟩

theorem OutExt.emit {P} {s s1 : Sys} {e : Event} (h : OutExt P s s1) (he : P e) :
    OutExt P s (s1.emit e) :=
  h.trans ⟨[e], rfl, by simpa using he⟩

theorem OutExt.send {P} {s s1 : Sys} {c : Nat} {f : Frame} (h : OutExt P s s1)
    (hf : ∀ b, P (.frame c f b)) : OutExt P s (s1.send c f) :=
  h.emit (hf _)

theorem OutExt.modDb {P} {s s1 : Sys} {f} (h : OutExt P s s1) : OutExt P s (s1.modDb f) := h
theorem OutExt.modUdb {P} {s s1 : Sys} {f} (h : OutExt P s s1) : OutExt P s (s1.modUdb f) := h
theorem OutExt.updConn {P} {s s1 : Sys} {c f} (h : OutExt P s s1) : OutExt P s (s1.updConn c f) := h

theorem OutExt.commit {P} {s s1 : Sys} (h : OutExt P s s1) (hc : ∀ w, P (.commit w)) :
    OutExt P s s1.commit := by
  unfold Sys.commit
  split
  · exact h
  · exact h.trans ⟨[.commit .chan], rfl, by simpa using hc _⟩

theorem OutExt.ucommit {P} {s s1 : Sys} (h : OutExt P s s1) (hc : ∀ w, P (.commit w)) :
    OutExt P s s1.ucommit := by
  unfold Sys.ucommit
  split
  · exact h
  · exact h.trans ⟨[.commit .usage], rfl, by simpa using hc _⟩

/-- a fold of sends -/
theorem OutExt.foldl_send {P} {α} (g : α → Nat) (fr : α → Frame) (l : List α) :
    ∀ {s s1 : Sys}, OutExt P s s1 → (∀ a ∈ l, ∀ b, P (.frame (g a) (fr a) b)) →
      OutExt P s (l.foldl (fun s a => s.send (g a) (fr a)) s1) := by
  induction l with
  | nil => intro s s1 h _; exact h
  | cons a l ih =>
    intro s s1 h hp
    simp only [List.foldl_cons]
    exact ih (h.send (hp a (by simp))) (fun a' ha' => hp a' (by simp [ha']))

/-! ### `Core.lean` only commits -/

def IsCommit (e : Event) : Prop := ∃ w, e = .commit w

theorem isCommit_commit (w : DbId) : IsCommit (.commit w) := ⟨w, rfl⟩

/-- only `commit` events were appended -/
abbrev CExt (s s' : Sys) : Prop := OutExt IsCommit s s'

section core
variable {s s1 : Sys}

theorem CExt.commit' (h : CExt s s1) : CExt s s1.commit := OutExt.commit h isCommit_commit
theorem CExt.ucommit' (h : CExt s s1) : CExt s s1.ucommit := OutExt.ucommit h isCommit_commit

theorem CExt.storeNameplateUsage (h : CExt s s1) {app sides t pruned} :
    CExt s (s1.storeNameplateUsage app sides t pruned).1 := by
  unfold Sys.storeNameplateUsage
  split
  · exact h
  · exact h

theorem CExt.storeMailboxUsage (h : CExt s s1) {app forNp sides t pruned} :
    CExt s (s1.storeMailboxUsage app forNp sides t pruned) := h

theorem CExt.mailboxOpen (h : CExt s s1) {mb side t} : CExt s (s1.mailboxOpen mb side t) := by
  unfold Sys.mailboxOpen
  split
  · exact CExt.commit' (OutExt.modDb (OutExt.modDb h))
  · exact CExt.commit' (OutExt.modDb h)

theorem CExt.addMailbox (h : CExt s s1) {app mb forNp t s2}
    (h2 : s1.addMailbox app mb forNp t = some s2) : CExt s s2 := by
  unfold Sys.addMailbox at h2
  split at h2
  · cases h2; exact h
  · split at h2
    · cases h2
    · cases h2; exact OutExt.modDb h

theorem CExt.openMailbox (h : CExt s s1) {app mb side t} :
    CExt s (s1.openMailbox app mb side t).1 := by
  unfold Sys.openMailbox
  split
  · exact h
  · rename_i s2 h2
    have := (CExt.mailboxOpen (CExt.addMailbox h h2) (mb := mb) (side := side) (t := t)).commit'
    simp only []
    split <;> exact this

theorem CExt.addMessage (h : CExt s s1) {app mb side phase body t id} :
    CExt s (s1.addMessage app mb side phase body t id) := by
  unfold Sys.addMessage
  exact CExt.commit' (OutExt.modDb (OutExt.modDb h))

theorem CExt.storeNameplatesOfMailbox {app t} (l : List Nameplate) :
    ∀ {s1 : Sys}, CExt s s1 → CExt s (s1.storeNameplatesOfMailbox app t l).1 := by
  induction l with
  | nil => intro s1 h; exact h
  | cons np rest ih =>
    intro s1 h
    unfold Sys.storeNameplatesOfMailbox
    have h1 := CExt.storeNameplateUsage h (app := app) (sides := s1.db.npSidesOf np.id) (t := t)
      (pruned := false)
    split
    · rename_i s2 heq; rw [heq] at h1; exact h1
    · rename_i s2 heq; rw [heq] at h1; exact ih h1

theorem CExt.stopListeners (h : CExt s s1) {app mb} : CExt s (s1.stopListeners app mb) := h

theorem CExt.logClientVersion (h : CExt s s1) {app side t impl version} :
    CExt s (s1.logClientVersion app side t impl version) := by
  unfold Sys.logClientVersion
  split
  · exact CExt.ucommit' (OutExt.modUdb h)
  · exact h

theorem CExt.closeTail {s2 : Sys} (h2 : CExt s s2) {ok : Bool} {app mb : String} {forNp : Bool}
    {sideRows : List MbSide} {t : Time} :
    CExt s (if (!ok) = true then (s2, false) else
      let s3 := s2.modDb (fun d =>
        ((((d.delNpSidesOfMailbox app mb).delNameplatesOfMailbox app mb).delMessagesOf mb).delMbSidesOf
          mb).delMailbox mb)
      let s4 := if s3.cfg.usage then (s3.storeMailboxUsage app forNp sideRows t false).ucommit else s3
      ((s4.commit).stopListeners app mb, true)).1 := by
  split
  · exact h2
  · apply CExt.stopListeners
    apply CExt.commit'
    split
    · exact CExt.ucommit' (CExt.storeMailboxUsage (OutExt.modDb h2))
    · exact OutExt.modDb h2

theorem CExt.mailboxClose (h : CExt s s1) {app mb side mood t} :
    CExt s (s1.mailboxClose app mb side mood t).1 := by
  unfold Sys.mailboxClose
  split
  · exact h
  · split
    · exact h
    · have h1 : CExt s ((s1.modDb (·.closeSide mb side mood)).commit) := CExt.commit' (OutExt.modDb h)
      simp only []
      split
      · exact h1
      · split
        · have h2 := CExt.storeNameplatesOfMailbox (app := app) (t := t)
              (((s1.modDb (·.closeSide mb side mood)).commit).db.nameplatesOfMailbox app mb) h1
          exact CExt.closeTail h2
        · exact CExt.closeTail h1

theorem CExt.claimTail (h : CExt s s1) {app npid mb side t} :
    CExt s (s1.claimTail app npid mb side t).1 := by
  have cont : ∀ s2 : Sys, CExt s s2 →
      CExt s (match s2.commit.openMailbox app mb side t with
        | (s3, .integrity) => (s3, ClaimRes.integrity)
        | (s3, .crowded) => (s3, .crowded)
        | (s3, .ok) => if (s3.db.npSidesOf npid).length > 2 then (s3, .crowded) else (s3, .ok mb)).1 := by
    intro s2 h2
    have h3 := CExt.openMailbox (CExt.commit' h2) (app := app) (mb := mb) (side := side) (t := t)
    split <;> rename_i s3 heq <;> rw [heq] at h3
    · exact h3
    · exact h3
    · split <;> exact h3
  unfold Sys.claimTail
  simp only []
  split
  · exact cont _ (OutExt.modDb h)
  · split
    · exact cont _ h
    · exact h

theorem CExt.claimNameplate (h : CExt s s1) {app name side t fresh} :
    CExt s (s1.claimNameplate app name side t fresh).1 := by
  unfold Sys.claimNameplate
  split
  · split
    · exact h
    · rename_i s2 h2
      exact CExt.claimTail (OutExt.modDb (CExt.addMailbox h h2))
  · exact CExt.claimTail h

theorem CExt.releaseNameplate (h : CExt s s1) {app name side t} :
    CExt s (s1.releaseNameplate app name side t).1 := by
  unfold Sys.releaseNameplate
  split
  · exact h
  · split
    · exact h
    · rename_i _ np _ _ _ _
      have h1 : CExt s ((s1.modDb (·.unclaim np.id side)).commit) := CExt.commit' (OutExt.modDb h)
      simp only []
      split
      · exact h1
      · split
        · have h2 := CExt.storeNameplateUsage (OutExt.modDb (f := fun d => (d.delNpSidesOf np.id).delNameplate np.id) h1)
            (app := app) (sides := ((s1.modDb (·.unclaim np.id side)).commit).db.npSidesOf np.id) (t := t) (pruned := false)
          split <;> rename_i s3 heq <;> rw [heq] at h2
          · exact h2
          · exact CExt.commit' (CExt.ucommit' h2)
        · exact CExt.commit' (OutExt.modDb h1)

/-! ### the sweep emits no frames -/

theorem CExt.pruneNameplates {app now} (l : List Nameplate) :
    ∀ {s1 : Sys}, CExt s s1 → CExt s (s1.pruneNameplates app now l).1 := by
  induction l with
  | nil => intro s1 h; exact h
  | cons np rest ih =>
    intro s1 h
    unfold Sys.pruneNameplates
    simp only []
    split
    · have h1 := CExt.storeNameplateUsage
        (OutExt.modDb (f := fun d => (d.delNpSidesOf np.id).delNameplate np.id) h) (app := app)
        (sides := s1.db.npSidesOf np.id) (t := now) (pruned := true)
      split <;> rename_i heq <;> rw [heq] at h1
      · exact h1
      · exact ih h1
    · exact ih (OutExt.modDb h)

theorem CExt.pruneMailboxes {app now} (l : List MailboxRow) :
    ∀ {s1 : Sys}, CExt s s1 → CExt s (s1.pruneMailboxes app now l) := by
  induction l with
  | nil => intro s1 h; exact h
  | cons row rest ih =>
    intro s1 h
    unfold Sys.pruneMailboxes
    simp only []
    apply ih
    split
    · exact CExt.storeMailboxUsage (OutExt.modDb h)
    · exact OutExt.modDb h

theorem CExt.prune (h : CExt s s1) {app now old} : CExt s (s1.prune app now old).1 := by
  unfold Sys.prune
  simp only []
  have h1 : CExt s (s1.touchListened app now).commit := CExt.commit' (by unfold Sys.touchListened; exact OutExt.modDb h)
  have h2 := CExt.pruneNameplates (app := app) (now := now)
    (((s1.touchListened app now).commit.db.nameplatesOfApp app).filter (fun r => r.mailbox ∈
      (((s1.touchListened app now).commit.db.mailboxesOfApp app).filter (fun r => ¬ r.updated > old)).map (·.id))) h1
  split <;> rename_i heq <;> rw [heq] at h2
  · exact h2
  · have h3 := CExt.pruneMailboxes (app := app) (now := now)
      (((s1.touchListened app now).commit.db.mailboxesOfApp app).filter (fun r => ¬ r.updated > old)) h2
    split
    · split
      · exact CExt.ucommit' (CExt.commit' h3)
      · exact CExt.commit' h3
    · exact h3

theorem CExt.pruneApps {now old} (l : List String) :
    ∀ {s1 : Sys}, CExt s s1 → CExt s (s1.pruneApps now old l).1 := by
  induction l with
  | nil => intro s1 h; exact h
  | cons app rest ih =>
    intro s1 h
    unfold Sys.pruneApps
    have h1 := CExt.prune h (app := app) (now := now) (old := old)
    split <;> rename_i heq <;> rw [heq] at h1
    · exact h1
    · exact ih h1

theorem CExt.dumpStats (h : CExt s s1) {now} : CExt s (s1.dumpStats now) := by
  unfold Sys.dumpStats
  split
  · exact CExt.ucommit' (OutExt.modUdb h)
  · exact h

/-- not a frame: a commit, an `internal` or a `fired` event -/
def NotFrame : Event → Prop
  | .frame _ _ _ => False
  | _ => True

theorem notFrame_of_commit (e : Event) (h : IsCommit e) : NotFrame e := by
  obtain ⟨w, rfl⟩ := h; trivial

theorem expire_notFrame {now fault} : OutExt NotFrame s (s.expire now fault) := by
  unfold Sys.expire
  simp only []
  refine (OutExt.trans ?_ ((CExt.dumpStats OutExt.refl).mono notFrame_of_commit))
  have h0 : OutExt NotFrame s (s.emit (.fired now (now - Generated.expirationTicks))) :=
    OutExt.refl.emit trivial
  split
  · exact h0.emit trivial
  · have h1 := (CExt.pruneApps (now := now) (old := now - Generated.expirationTicks)
      ((s.emit (.fired now (now - Generated.expirationTicks))).allApps)
      (OutExt.refl (s := s.emit (.fired now (now - Generated.expirationTicks))))).mono notFrame_of_commit
    split <;> rename_i heq <;> rw [heq] at h1
    · exact h0.trans h1
    · exact (h0.trans h1).emit trivial

end core

end Sys
end Wormhole
