/-
  C14 (re-sending an acknowledged command), part 4: what "successfully answered" says about the
  original command — inversion from the frames of its step to the function-level facts, and from
  there to the state of the database afterwards (the hypotheses of Inv/DupStep.lean).

  `g` is the ghost state BEFORE the original operation (satisfying `GInv`), `g.step op` the one after
  it (`GInv` again, by `GInv.step`).
-/
import Wormhole.Inv.DupStep
import Wormhole.Inv.Main

namespace Wormhole

/-- an `error` frame or an escaped exception -/
def Event.isFailure : Event → Bool
  | .frame _ (.error _) _ => true
  | .internal _ _ => true
  | _ => false

/-- **"the command was processed successfully"**, read off the events `out` of its step
    (`recv c t id cmd`): the answer frame `claimed` / `released` / `closed` was sent to `c`; for `open`,
    which has no answer frame of its own, the command was acknowledged and neither an `error`
    frame nor an escaped exception occurred. -/
def Answered (out : List Event) (c : Nat) (id : Val) : Cmd → Prop
  | .claim _ _ => ∃ m b, Event.frame c (.claimed m) b ∈ out
  | .release _ => ∃ b, Event.frame c .released b ∈ out
  | .open_ _ => (∃ b, Event.frame c (.ack id) b ∈ out) ∧ ∀ e ∈ out, e.isFailure = false
  | .close _ _ => ∃ b, Event.frame c .closed b ∈ out
  | _ => False

/-- **the re-sent command**: the same command with its nameplate / mailbox named explicitly, as
    resolved on the original connection `x` (`release` without a name uses the claimed nameplate,
    `close` acts on the handle if one is held, else on the named / remembered id); a re-sent `claim`
    may carry ANY generated id `f'` (it is not used). -/
inductive Resend (x : Conn) : Cmd → Cmd → Prop
  | claim (n f f' : String) : Resend x (.claim (some n) f) (.claim (some n) f')
  | release (nm : Option String) (n : String) : Sys.Np.releaseTarget x nm = some n →
      Resend x (.release nm) (.release (some n))
  | open_ (m : String) : Resend x (.open_ (some m)) (.open_ (some m))
  | close (mo : Option String) (m : String) (mood : Option String) : x.closeTarget mo = some m →
      Resend x (.close mo mood) (.close (some m) mood)

namespace Sys

theorem getD_of_side {x : Conn} {σ : String} (h : x.side = some σ) : x.side.getD "" = σ := by simp [h]

/-- the output of a command refused by validation contains neither an answer nor is it free of failures -/
theorem rejected_out {s : Sys} {c : Nat} {x : Conn} {cmd : Cmd} {text : String} (t : Time) (id : Val)
    (hx : s.findConn c = some x) (hr : rejectText x cmd = some text) :
    ∀ e ∈ (s.step (.recv c t id cmd)).out, (∃ b, e = .frame c (.ack id) b) ∨ (∃ b, e = .frame c (.error text) b) := by
  intro e he
  rw [(C17_validation_error t id hx (rejected_of_rejectText hr)).1] at he
  split at he
  · simp only [List.nil_append, List.mem_singleton] at he
    exact Or.inr ⟨_, he⟩
  · simp only [List.cons_append, List.nil_append, List.mem_cons, List.not_mem_nil, or_false] at he
    rcases he with rfl | rfl
    · exact Or.inl ⟨_, rfl⟩
    · exact Or.inr ⟨_, rfl⟩

/-! ### claim -/

/-- **inversion, `claim`.**  If the step answered `claimed m` then the command named a nameplate `n`,
    `claim_nameplate` returned `ok m`, the output is exactly `ack, commits, claimed m`, and afterwards the
    database is in the state `ClaimDone` — in particular the mailbox and the nameplate have at most two
    side rows each: for an IMMEDIATE re-send the guard of K-crowded-rejoin is implied. -/
theorem orig_claim {g : GSys} (hI : g.GInv) {c : Nat} {x : Conn} {a σ : String} (hx : g.sys.findConn c = some x)
    (ha : x.app = some a) (hσ : x.side = some σ) {t : Time} {id : Val} {nm : Option String} {f : String}
    (hI' : (g.step (.recv c t id (.claim nm f))).GInv) {m : String} {b : Bool}
    (hA : Event.frame c (.claimed m) b ∈ (g.sys.step (.recv c t id (.claim nm f))).out) :
    ∃ n, nm = some n ∧ (g.sys.step (.recv c t id (.claim nm f))).db.ClaimDone a n σ m t ∧
      ∃ commits, (∀ e ∈ commits, IsCommit e) ∧
        (g.sys.step (.recv c t id (.claim nm f))).out =
          .frame c (.ack id) true :: (commits ++ [.frame c (.claimed m) true]) := by
  cases hr : rejectText x (.claim nm f) with
  | some text =>
    rcases rejected_out t id hx hr _ hA with ⟨_, e⟩ | ⟨_, e⟩ <;> cases e
  | none =>
    obtain ⟨_, _, n, rfl⟩ := claim_accepted hr
    obtain ⟨s1, r, e, ⟨commits, hc, hout⟩, hdb, _, _⟩ := claim_step hI.cinv.toPInv hI.synced hx hr ha t id
    have hr : r = .ok m := by
      rw [hout] at hA
      simp only [List.mem_cons, List.mem_append, List.not_mem_nil, or_false] at hA
      rcases hA with hA | hA | hA
      · cases hA
      · obtain ⟨w, hw⟩ := hc _ hA; cases hw
      · cases r <;> simp [claimAnswer] at hA
        exact congrArg _ hA.1.symm
    subst hr
    rw [getD_of_side hσ] at e
    refine ⟨n, rfl, ?_, commits, hc, hout⟩
    rw [hdb]
    exact claimNameplate_ok_done (by rw [← hdb]; exact hI'.cinv.toPInv) e

/-! ### release -/

/-- **inversion, `release`.**  If the step answered `released` then the command resolved to a
    nameplate `n`, the output is exactly `ack, commits, released`, and the database afterwards is the one
    `release_nameplate(a, n, σ, t)` left, called on a state with the database of before. -/
theorem orig_release {g : GSys} (hI : g.GInv) {c : Nat} {x : Conn} {a σ : String} (hx : g.sys.findConn c = some x)
    (ha : x.app = some a) (hσ : x.side = some σ) {t : Time} {id : Val} {nm : Option String} {b : Bool}
    (hA : Event.frame c .released b ∈ (g.sys.step (.recv c t id (.release nm))).out) :
    ∃ n, Np.releaseTarget x nm = some n ∧
      (∃ (s0 s1 : Sys) (b1 : Bool), s0.db = g.sys.db ∧ s0.releaseNameplate a n σ t = (s1, b1) ∧
        (g.sys.step (.recv c t id (.release nm))).db = s1.db) ∧
      ∃ commits, (∀ e ∈ commits, IsCommit e) ∧
        (g.sys.step (.recv c t id (.release nm))).out =
          .frame c (.ack id) true :: (commits ++ [.frame c .released true]) := by
  cases hr : rejectText x (.release nm) with
  | some text =>
    rcases rejected_out t id hx hr _ hA with ⟨_, e⟩ | ⟨_, e⟩ <;> cases e
  | none =>
    obtain ⟨n, hn, hstep⟩ := step_release_eq t id nm hx ha hr
    rw [getD_of_side hσ] at hstep
    generalize hX : ((({ g.sys with out := [], snaps := [] } : Sys).send c (.ack id)).updConn c
      (fun y => { y with didRelease := true })) = X at hstep
    have hXdb : X.db = g.sys.db := by rw [← hX]; rfl
    have hXs : X.Synced := by rw [← hX]; exact hI.synced
    have hXout : X.out = [.frame c (.ack id) true] := by
      rw [← hX]
      show [Event.frame c (.ack id) g.sys.synced] = _
      rw [(synced_iff g.sys).2 hI.synced]
    cases e : X.releaseNameplate a n σ t with
    | mk s1 b1 =>
      obtain ⟨hb1, _, _⟩ := Np.releaseNameplate_exact e
      subst hb1
      obtain ⟨_, _, hsy⟩ := releaseNameplate_spec e
      have hsync1 := hsy hXs
      have hcx := CExt.releaseNameplate (OutExt.refl (s := X)) (app := a) (name := n) (side := σ) (t := t)
      rw [e] at hcx
      obtain ⟨commits, hout, hc⟩ := hcx
      rw [e] at hstep
      dsimp only at hstep hout
      refine ⟨n, hn, ⟨X, s1, true, hXdb, e, by rw [hstep]; rfl⟩, commits, hc, ?_⟩
      rw [hstep]
      show s1.out ++ [Event.frame c .released s1.synced] = _
      rw [(synced_iff s1).2 hsync1, hout, hXout]
      simp

/-! ### open -/

/-- **inversion, `open`.**  If the step was acknowledged and produced no `error` frame and no escaped
    exception, then the command named a mailbox `m`, `open_mailbox` returned `ok`: the database afterwards
    is `openDb` of the one before, the mailbox has at most two side rows (so for an IMMEDIATE re-send the
    guard of K-crowded-rejoin is implied), and the output is exactly `ack, commits` and the replay of the
    stored messages of `(a, m)`. -/
theorem orig_open {g : GSys} (hI : g.GInv) {c : Nat} {x : Conn} {a σ : String} (hx : g.sys.findConn c = some x)
    (ha : x.app = some a) (hσ : x.side = some σ) {t : Time} {id : Val} {mo : Option String}
    (hA : ∀ e ∈ (g.sys.step (.recv c t id (.open_ mo))).out, e.isFailure = false) :
    ∃ m, mo = some m ∧
      (g.sys.step (.recv c t id (.open_ mo))).db = g.sys.db.openDb a m σ t ∧
      ((g.sys.step (.recv c t id (.open_ mo))).db.mbSidesOf m).length ≤ 2 ∧
      ∃ commits, (∀ e ∈ commits, IsCommit e) ∧
        (g.sys.step (.recv c t id (.open_ mo))).out =
          .frame c (.ack id) true :: (commits ++ replayFrames (g.sys.step (.recv c t id (.open_ mo))).db c a m) := by
  cases hr : rejectText x (.open_ mo) with
  | some text =>
    exfalso
    have h1 := (C17_validation_error t id hx (rejected_of_rejectText hr)).1
    have := hA (.frame c (.error text) g.sys.synced) (by rw [h1]; simp)
    simp [Event.isFailure] at this
  | none =>
    obtain ⟨_, _, m, rfl⟩ := open_accepted hr
    obtain ⟨h1, h2, h3⟩ := open_step hI.cinv.toPInv hI.synced hx hr ha t id
    rw [getD_of_side hσ] at h2 h3
    by_cases hcl : g.sys.db.Clash a m
    · exfalso
      have := hA (.internal (some c) "IntegrityError") (by rw [(h1 hcl).1]; simp)
      simp [Event.isFailure] at this
    · by_cases hlen : ((g.sys.db.openDb a m σ t).mbSidesOf m).length > 2
      · exfalso
        obtain ⟨⟨commits, _, hout⟩, _⟩ := h2 hcl hlen
        have := hA (.frame c (.error "crowded") true) (by rw [hout]; simp)
        simp [Event.isFailure] at this
      · obtain ⟨hout, hdb, _⟩ := h3 hcl hlen
        refine ⟨m, rfl, hdb, by rw [hdb]; omega, ?_⟩
        rw [hdb]; exact hout

/-! ### close -/

/-- **inversion, `close`.**  If the step answered `closed` (from a state in which every handle has its
    side row, `HandleRow`: an invariant of reachable states, Props/C05.lean) then the command resolved
    to a mailbox `m` (`closeTarget`), the output is exactly `ack, commits, closed`, and afterwards EITHER no
    mailbox row has id `m` (this close deleted it) OR the mailbox survives with another side open and
    this side's row closed with the given mood (`CloseSurvived`). -/
theorem orig_close {g : GSys} (hI : g.GInv) (hH : g.sys.HandleRow) {c : Nat} {x : Conn} {a σ : String}
    (hx : g.sys.findConn c = some x) (ha : x.app = some a) (hσ : x.side = some σ) {t : Time} {id : Val}
    {mo mood : Option String} {b : Bool}
    (hA : Event.frame c .closed b ∈ (g.sys.step (.recv c t id (.close mo mood))).out) :
    ∃ m, x.closeTarget mo = some m ∧
      (¬ (g.sys.step (.recv c t id (.close mo mood))).db.HasId m ∨
        (g.sys.step (.recv c t id (.close mo mood))).db.CloseSurvived a m σ mood) ∧
      ∃ commits, (∀ e ∈ commits, IsCommit e) ∧
        (g.sys.step (.recv c t id (.close mo mood))).out =
          .frame c (.ack id) true :: (commits ++ [.frame c .closed true]) := by
  cases hr : rejectText x (.close mo mood) with
  | some text =>
    rcases rejected_out t id hx hr _ hA with ⟨_, e⟩ | ⟨_, e⟩ <;> cases e
  | none =>
    have hP := hI.cinv.toPInv
    obtain ⟨_, _, ⟨mb, hn⟩, _⟩ := close_accepted hr
    obtain ⟨tgt, htg⟩ : ∃ tgt, x.closeTarget mo = some tgt := by
      unfold Conn.closeTarget
      cases x.mailbox with
      | some h => exact ⟨h, rfl⟩
      | none => exact ⟨mb, hn⟩
    obtain ⟨h1, h2, h3⟩ := close_step hP hI.cinv.npHasSide hI.synced hx hr ha htg t id
    rw [getD_of_side hσ] at h3
    by_cases hgo : x.mailbox = none ∧
        (g.sys.db.Clash a tgt ∨ ((closePre g.sys x a tgt t).mbSidesOf tgt).length > 2)
    · exfalso
      obtain ⟨hnone, hk⟩ := hgo
      by_cases hcl : g.sys.db.Clash a tgt
      · rw [(h1 hnone hcl).1] at hA
        simp at hA
      · have hlen : ((closePre g.sys x a tgt t).mbSidesOf tgt).length > 2 := by
          rcases hk with hk | hk
          · exact absurd hk hcl
          · exact hk
        obtain ⟨⟨commits, hc, hout⟩, _⟩ := h2 hnone hcl hlen
        rw [hout] at hA
        simp only [List.mem_cons, List.mem_append, List.not_mem_nil, or_false] at hA
        rcases hA with hA | hA | hA
        · cases hA
        · obtain ⟨w, hw⟩ := hc _ hA; cases hw
        · cases hA
    · obtain ⟨hout, hdb, _⟩ := h3 hgo
      refine ⟨tgt, htg, ?_, hout⟩
      -- the database the close works on
      have hD : (closePre g.sys x a tgt t).PInv ∧ (closePre g.sys x a tgt t).HasBox a tgt ∧
          (closePre g.sys x a tgt t).findMbSide tgt σ ≠ none := by
        unfold closePre
        cases hh : x.mailbox with
        | none =>
          simp only [if_true]
          have hnc : ¬ g.sys.db.Clash a tgt := fun hc => hgo ⟨hh, Or.inl hc⟩
          rw [getD_of_side hσ]
          exact ⟨hP.openDb σ t hnc, Chan.openDb_hasBox _ _ _ _ _, Chan.openDb_findMbSide_ne_none _ _ _ _ _⟩
        | some h =>
          have : tgt = h := by simp [Conn.closeTarget, hh] at htg; exact htg.symm
          subst this
          simp only [reduceCtorEq, if_false]
          have hxm := findConn_mem hx
          obtain ⟨_, a', ha', m0, hm0, hi, hma⟩ := hI.conn.handle x hxm tgt hh
          rw [ha] at ha'; cases ha'
          refine ⟨hP, ⟨m0, hm0, hma, hi⟩, ?_⟩
          obtain ⟨r, hr0, k1, k2⟩ := hH x hxm tgt hh
          rw [getD_of_side hσ] at k2
          intro hnone
          exact Chan.findMbSide_eq_none.1 hnone r hr0 ⟨k1, k2⟩
      obtain ⟨hPD, hbox, hside⟩ := hD
      rw [hdb]
      unfold Chan.closeDb
      rw [if_pos ⟨hbox, hside⟩]
      by_cases hoo : (closePre g.sys x a tgt t).OtherOpen tgt σ
      · rw [if_pos hoo]
        exact Or.inr (Chan.CloseSurvived.of_closeSide hbox hside hoo)
      · rw [if_neg hoo]
        left
        rintro ⟨m0, hm0, hid⟩
        obtain ⟨hm1, hne⟩ := (Chan.mem_dropMailbox_mailboxes _ a tgt).1 hm0
        exact hne ⟨hPD.app_of_id hbox hm1 hid, hid⟩

end Sys
end Wormhole
