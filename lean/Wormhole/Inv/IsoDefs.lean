/-
  C06 (application isolation): definitions shared by the frame lemmas (Inv/IsoFrame*.lean) and
  the two-run simulation (Inv/IsoSim*.lean).

  `b` is the app under observation.  "b's rows" of the channel database:
    * `npsB`      nameplates with `app = b`;
    * `npSidesB`  nameplate side rows whose `npid` is the id of one of those;
    * `mbsB`      mailboxes with `app = b`;
    * `mbSidesB`  mailbox side rows whose `mailbox` is the id of one of those;
    * `msgsB`     messages with `app = b`;
  of the usage database: the `nameplates`, `mailboxes`, `client_versions` rows with `app = b`
  (the single `current` row is global: it has no app column).
-/
import Wormhole.Inv.Main

namespace Wormhole

namespace Chan

def npsB (d : Chan) (b : String) : List Nameplate := d.nameplates.filter (fun n => n.app = b)
def npIdsB (d : Chan) (b : String) : List Nat := (d.npsB b).map (·.id)
def npSidesB (d : Chan) (b : String) : List NpSide := d.npSides.filter (fun r => r.npid ∈ d.npIdsB b)
def mbsB (d : Chan) (b : String) : List MailboxRow := d.mailboxes.filter (fun m => m.app = b)
def mbIdsB (d : Chan) (b : String) : List String := (d.mbsB b).map (·.id)
def mbSidesB (d : Chan) (b : String) : List MbSide := d.mbSides.filter (fun r => r.mailbox ∈ d.mbIdsB b)
def msgsB (d : Chan) (b : String) : List Message := d.messages.filter (fun m => m.app = b)

/-- `d'` has exactly the same rows of app `b` as `d` (same rows, same order, surrogate ids
    included) -/
structure SameB (b : String) (d d' : Chan) : Prop where
  nps : d'.npsB b = d.npsB b
  npSides : d'.npSidesB b = d.npSidesB b
  mbs : d'.mbsB b = d.mbsB b
  mbSides : d'.mbSidesB b = d.mbSidesB b
  msgs : d'.msgsB b = d.msgsB b

theorem SameB.refl (b : String) (d : Chan) : SameB b d d := ⟨rfl, rfl, rfl, rfl, rfl⟩
theorem SameB.symm {b : String} {d d' : Chan} (h : SameB b d d') : SameB b d' d :=
  ⟨h.nps.symm, h.npSides.symm, h.mbs.symm, h.mbSides.symm, h.msgs.symm⟩
theorem SameB.trans {b : String} {d d' d'' : Chan} (h : SameB b d d') (h' : SameB b d' d'') : SameB b d d'' :=
  ⟨h'.nps.trans h.nps, h'.npSides.trans h.npSides, h'.mbs.trans h.mbs, h'.mbSides.trans h.mbSides,
    h'.msgs.trans h.msgs⟩

theorem SameB.of_eq {b : String} {d d' : Chan} (e1 : d'.nameplates = d.nameplates) (e2 : d'.npSides = d.npSides)
    (e3 : d'.mailboxes = d.mailboxes) (e4 : d'.mbSides = d.mbSides) (e5 : d'.messages = d.messages) :
    SameB b d d' := by
  refine ⟨?_, ?_, ?_, ?_, ?_⟩ <;>
    simp only [npsB, npSidesB, npIdsB, mbsB, mbSidesB, mbIdsB, msgsB, e1, e2, e3, e4, e5] <;> rfl

end Chan

namespace Usage

def npsB (u : Usage) (b : String) : List UNameplate := u.nameplates.filter (fun r => r.app = b)
def mbsB (u : Usage) (b : String) : List UMailbox := u.mailboxes.filter (fun r => r.app = b)
def clientsB (u : Usage) (b : String) : List UClient := u.clients.filter (fun r => r.app = b)

/-- the same usage rows of app `b` -/
structure SameB (b : String) (u u' : Usage) : Prop where
  nps : u'.npsB b = u.npsB b
  mbs : u'.mbsB b = u.mbsB b
  clients : u'.clientsB b = u.clientsB b

theorem SameB.refl (b : String) (u : Usage) : SameB b u u := ⟨rfl, rfl, rfl⟩
theorem SameB.symm {b : String} {u u' : Usage} (h : SameB b u u') : SameB b u' u :=
  ⟨h.nps.symm, h.mbs.symm, h.clients.symm⟩
theorem SameB.trans {b : String} {u u' u'' : Usage} (h : SameB b u u') (h' : SameB b u' u'') : SameB b u u'' :=
  ⟨h'.nps.trans h.nps, h'.mbs.trans h.mbs, h'.clients.trans h.clients⟩

end Usage

/-! ### lists related element by element -/

inductive All2 {α β : Type} (R : α → β → Prop) : List α → List β → Prop
  | nil : All2 R [] []
  | cons {a : α} {b : β} {l : List α} {l' : List β} : R a b → All2 R l l' → All2 R (a :: l) (b :: l')

namespace All2
variable {α β γ : Type} {R : α → β → Prop}

theorem refl_of {R : α → α → Prop} : ∀ (l : List α), (∀ x ∈ l, R x x) → All2 R l l
  | [], _ => .nil
  | a :: l, h => .cons (h a (by simp)) (refl_of l (fun x hx => h x (by simp [hx])))

theorem mono {R' : α → β → Prop} {l : List α} {l' : List β} (h : All2 R l l')
    (hm : ∀ a ∈ l, ∀ b ∈ l', R a b → R' a b) : All2 R' l l' := by
  induction h with
  | nil => exact .nil
  | cons r _ ih =>
    exact .cons (hm _ (by simp) _ (by simp) r)
      (ih (fun a ha b hb => hm a (by simp [ha]) b (by simp [hb])))

theorem length_eq {l : List α} {l' : List β} (h : All2 R l l') : l.length = l'.length := by
  induction h with
  | nil => rfl
  | cons _ _ ih => simp [ih]

theorem append {l₁ l₂ : List α} {l₁' l₂' : List β} (h₁ : All2 R l₁ l₁') (h₂ : All2 R l₂ l₂') :
    All2 R (l₁ ++ l₂) (l₁' ++ l₂') := by
  induction h₁ with
  | nil => simpa using h₂
  | cons r _ ih => exact .cons r ih

/-- composition with a relation on the right -/
theorem comp {S : β → γ → Prop} {T : α → γ → Prop} {l : List α} {l' : List β} {l'' : List γ}
    (h : All2 R l l') (h' : All2 S l' l'') (hc : ∀ a b c, R a b → S b c → T a c) : All2 T l l'' := by
  induction h generalizing l'' with
  | nil => cases h'; exact .nil
  | cons r _ ih =>
    cases h' with
    | cons s hs => exact .cons (hc _ _ _ r s) (ih hs)

theorem flip {l : List α} {l' : List β} (h : All2 R l l') : All2 (fun b a => R a b) l' l := by
  induction h with
  | nil => exact .nil
  | cons r _ ih => exact .cons r ih

/-- both lists mapped -/
theorem map {α' β' : Type} {R' : α' → β' → Prop} (f : α → α') (g : β → β') {l : List α} {l' : List β}
    (h : All2 R l l') (hm : ∀ a ∈ l, ∀ b ∈ l', R a b → R' (f a) (g b)) : All2 R' (l.map f) (l'.map g) := by
  induction h with
  | nil => exact .nil
  | cons r _ ih =>
    exact .cons (hm _ (by simp) _ (by simp) r) (ih (fun a ha b hb => hm a (by simp [ha]) b (by simp [hb])))

/-- both lists filtered by predicates that agree on related elements -/
theorem filter (p : α → Bool) (q : β → Bool) {l : List α} {l' : List β} (h : All2 R l l')
    (hpq : ∀ a ∈ l, ∀ b ∈ l', R a b → p a = q b) : All2 R (l.filter p) (l'.filter q) := by
  induction h with
  | nil => exact .nil
  | @cons a b l l' r _ ih =>
    have e := hpq a (by simp) b (by simp) r
    have ih' := ih (fun a ha b hb => hpq a (by simp [ha]) b (by simp [hb]))
    simp only [List.filter_cons, e]
    split
    · exact .cons r ih'
    · exact ih'

/-- `find?` with predicates that agree on related elements -/
theorem find? (p : α → Bool) (q : β → Bool) {l : List α} {l' : List β} (h : All2 R l l')
    (hpq : ∀ a ∈ l, ∀ b ∈ l', R a b → p a = q b) :
    (l.find? p = none ∧ l'.find? q = none) ∨
      ∃ a b, l.find? p = some a ∧ l'.find? q = some b ∧ R a b := by
  induction h with
  | nil => exact Or.inl ⟨rfl, rfl⟩
  | @cons a b l l' r _ ih =>
    have e := hpq a (by simp) b (by simp) r
    have ih' := ih (fun a ha b hb => hpq a (by simp [ha]) b (by simp [hb]))
    simp only [List.find?_cons, e]
    cases hq : q b with
    | true => exact Or.inr ⟨a, b, rfl, rfl, r⟩
    | false => exact ih'

/-- equal projections -/
theorem map_eq {δ : Type} (f : α → δ) (g : β → δ) {l : List α} {l' : List β} (h : All2 R l l')
    (hfg : ∀ a ∈ l, ∀ b ∈ l', R a b → f a = g b) : l.map f = l'.map g := by
  induction h with
  | nil => rfl
  | cons r _ ih =>
    simp only [List.map_cons]
    rw [hfg _ (by simp) _ (by simp) r, ih (fun a ha b hb => hfg a (by simp [ha]) b (by simp [hb]))]

theorem mem_left {l : List α} {l' : List β} (h : All2 R l l') {a : α} (ha : a ∈ l) : ∃ b ∈ l', R a b := by
  induction h with
  | nil => cases ha
  | cons r _ ih =>
    rcases List.mem_cons.1 ha with rfl | ha
    · exact ⟨_, by simp, r⟩
    · obtain ⟨b, hb, rb⟩ := ih ha
      exact ⟨b, by simp [hb], rb⟩

theorem mem_right {l : List α} {l' : List β} (h : All2 R l l') {b : β} (hb : b ∈ l') : ∃ a ∈ l, R a b := by
  obtain ⟨a, ha, r⟩ := h.flip.mem_left hb
  exact ⟨a, ha, r⟩

end All2

/-! ### connections -/

/-- the connection is bound to an app other than `b` -/
def Conn.other (b : String) (x : Conn) : Prop := ∃ a, x.app = some a ∧ a ≠ b

instance (b : String) (x : Conn) : Decidable (x.other b) := by
  unfold Conn.other
  cases x.app with
  | none => exact isFalse (by simp)
  | some a =>
    by_cases h : a = b
    · exact isFalse (by simp [h])
    · exact isTrue ⟨a, rfl, h⟩

theorem Conn.other_iff (b : String) (x : Conn) : x.other b ↔ x.app ≠ none ∧ x.app ≠ some b := by
  unfold Conn.other
  cases x.app with
  | none => simp
  | some a => simp

/-- What an operation of another app may do to the connection table: no record is added or
    removed, ids stay, and a record changes only if it is bound to another app afterwards and was
    not bound to `b` before. -/
def ConnsFrame (b : String) (l l' : List Conn) : Prop :=
  All2 (fun x x' => x'.id = x.id ∧ (x' = x ∨ (x'.other b ∧ x.app ≠ some b))) l l'

theorem ConnsFrame.refl (b : String) (l : List Conn) : ConnsFrame b l l :=
  All2.refl_of l (fun _ _ => ⟨rfl, Or.inl rfl⟩)

/-- the ids of the connections bound to another app -/
def otherIds (b : String) (l : List Conn) : List Nat := (l.filter (fun x => x.other b)).map (·.id)

/-- an event that is not a frame, or a frame addressed to one of `ids` -/
def FrameTo (ids : List Nat) : Event → Prop
  | .frame c _ _ => c ∈ ids
  | _ => True

theorem frameTo_of_commit {ids : List Nat} (e : Event) (h : Sys.IsCommit e) : FrameTo ids e := by
  obtain ⟨w, rfl⟩ := h; trivial

theorem Sys.CExt.frameTo {ids : List Nat} {s s' : Sys} (h : Sys.CExt s s') : Sys.OutExt (FrameTo ids) s s' :=
  h.mono frameTo_of_commit

namespace Sys

/-- the app connection `c` is bound to -/
def appOf (s : Sys) (c : Nat) : Option String := (s.findConn c).bind (·.app)

/-- `op` is a command of another app: a message on a connection that is bound to an app other
    than `b`, or the `bind` that binds an unbound connection to an app other than `b` (the
    condition under which `handle_bind` accepts is spelled out: no app id yet, no non-empty
    side yet, both keys present). Decided on the state BEFORE the operation. -/
def otherOp (b : String) (s : Sys) : Op → Bool
  | .recv c _ _ cmd =>
    match s.findConn c with
    | none => false
    | some x =>
      match x.app with
      | some a => decide (a ≠ b)
      | none =>
        match cmd with
        | .bind (some a) (some _) _ _ => decide (a ≠ b) && !(decide (x.side.isSome ∧ x.side ≠ some ""))
        | _ => false
  | _ => false

end Sys

end Wormhole
