/-
  Table-level lemmas: every statement (or block of statements the code runs between two
  look-ups) of server.py preserves the invariants of Inv/Defs.lean, under the guard the code
  establishes before it (select-before-insert, parent exists, children deleted before the
  parent).

  * `PInv.<primitive>`            keys unique, foreign keys resolved, ids bounded;
  * `NpHasSide` / `CInv` lemmas   every nameplate has a side row (re-using Inv/NpOk.lean);
  * `SExtra.<...>`                the crash-free strengthening (claimed side / opened side);
  * `HasMb`, `MbAll`              which mailbox rows exist / what all mailbox rows satisfy;
  * `DelNameplatesOk`, `DelMailboxOk`   the FOREIGN KEY facts that make SQLite accept each DELETE.
-/
import Wormhole.Inv.NpOk

set_option linter.unusedSimpArgs false

namespace Wormhole
namespace Chan

/-- the mailbox row `(app, mb)` exists -/
def HasMb (d : Chan) (app mb : String) : Prop := ∃ m ∈ d.mailboxes, m.id = mb ∧ m.app = app

/-- all mailbox rows satisfy `Q` -/
def MbAll (Q : MailboxRow → Prop) (d : Chan) : Prop := ∀ m ∈ d.mailboxes, Q m

/-- what `SInv` adds to `CInv` -/
structure SExtra (d : Chan) : Prop where
  npClaimed : ∀ n ∈ d.nameplates, ∃ r ∈ d.npSides, r.npid = n.id ∧ r.claimed = true
  mbOpened : ∀ m ∈ d.mailboxes, ∃ r ∈ d.mbSides, r.mailbox = m.id ∧ r.opened = true

theorem SInv.of {d : Chan} (c : d.CInv) (e : d.SExtra) : d.SInv := ⟨c, e.npClaimed, e.mbOpened⟩
theorem SInv.sextra {d : Chan} (h : d.SInv) : d.SExtra := ⟨h.npClaimed, h.mbOpened⟩

/-! ### what the SELECTs tell -/

section selects
variable {d : Chan}

theorem findMailbox_some {app id : String} {row : MailboxRow} (h : d.findMailbox app id = some row) :
    row ∈ d.mailboxes ∧ row.app = app ∧ row.id = id := by
  have h1 := List.mem_of_find?_eq_some h
  have h2 := List.find?_some h
  simp only [decide_eq_true_eq] at h2
  exact ⟨h1, h2.1, h2.2⟩

theorem findMailbox_hasMb {app id : String} {row : MailboxRow} (h : d.findMailbox app id = some row) :
    d.HasMb app id := by
  obtain ⟨a, b, c⟩ := findMailbox_some h
  exact ⟨row, a, c, b⟩

theorem findMailbox_none {app id : String} (h : d.findMailbox app id = none) : ¬ d.HasMb app id := by
  simp only [findMailbox, List.find?_eq_none, decide_eq_true_eq, not_and] at h
  rintro ⟨m, hm, h1, h2⟩
  exact h m hm h2 h1

theorem findMailbox_isSome_of_hasMb {app id : String} (h : d.HasMb app id) :
    ∃ row, d.findMailbox app id = some row := by
  cases e : d.findMailbox app id with
  | none => exact absurd h (findMailbox_none e)
  | some row => exact ⟨row, rfl⟩

theorem findMailboxById_none {id : String} (h : d.findMailboxById id = none) :
    ∀ m ∈ d.mailboxes, ¬ m.id = id := by
  simpa only [findMailboxById, List.find?_eq_none, decide_eq_true_eq] using h

theorem findMailboxById_some {id : String} {row : MailboxRow} (h : d.findMailboxById id = some row) :
    row ∈ d.mailboxes ∧ row.id = id := by
  have h1 := List.mem_of_find?_eq_some h
  have h2 := List.find?_some h
  simp only [decide_eq_true_eq] at h2
  exact ⟨h1, h2⟩

theorem findNameplate_none {app name : String} (h : d.findNameplate app name = none) :
    ∀ n ∈ d.nameplates, ¬ (n.app = app ∧ n.name = name) := by
  simpa only [findNameplate, List.find?_eq_none, decide_eq_true_eq] using h

theorem findNameplate_some {app name : String} {row : Nameplate} (h : d.findNameplate app name = some row) :
    row ∈ d.nameplates ∧ row.app = app ∧ row.name = name := by
  have h1 := List.mem_of_find?_eq_some h
  have h2 := List.find?_some h
  simp only [decide_eq_true_eq] at h2
  exact ⟨h1, h2.1, h2.2⟩

theorem findNpSide_none {npid : Nat} {side : String} (h : d.findNpSide npid side = none) :
    ∀ r ∈ d.npSides, ¬ (r.npid = npid ∧ r.side = side) := by
  simpa only [findNpSide, List.find?_eq_none, decide_eq_true_eq] using h

theorem findNpSide_some {npid : Nat} {side : String} {r : NpSide} (h : d.findNpSide npid side = some r) :
    r ∈ d.npSides ∧ r.npid = npid ∧ r.side = side := by
  have h1 := List.mem_of_find?_eq_some h
  have h2 := List.find?_some h
  simp only [decide_eq_true_eq] at h2
  exact ⟨h1, h2.1, h2.2⟩

theorem findMbSide_none {mb side : String} (h : d.findMbSide mb side = none) :
    ∀ r ∈ d.mbSides, ¬ (r.mailbox = mb ∧ r.side = side) := by
  simpa only [findMbSide, List.find?_eq_none, decide_eq_true_eq] using h

theorem findMbSide_some {mb side : String} {r : MbSide} (h : d.findMbSide mb side = some r) :
    r ∈ d.mbSides ∧ r.mailbox = mb ∧ r.side = side := by
  have h1 := List.mem_of_find?_eq_some h
  have h2 := List.find?_some h
  simp only [decide_eq_true_eq] at h2
  exact ⟨h1, h2.1, h2.2⟩

end selects

/-- with unique mailbox ids, a mailbox id determines its app -/
theorem PInv.mb_app_unique {d : Chan} (h : d.PInv) {a b mb : String} (ha : d.HasMb a mb) (hb : d.HasMb b mb) :
    a = b := by
  obtain ⟨m, hm, e1, e2⟩ := ha
  obtain ⟨m', hm', e1', e2'⟩ := hb
  have := eq_of_pairwise_ne (f := MailboxRow.id) h.mbIds hm hm' (by rw [e1, e1'])
  subst this
  rw [← e2, ← e2']

/-- every nameplate that points at mailbox `mb` belongs to the app that owns `mb` -/
theorem PInv.np_app_of_mailbox {d : Chan} (h : d.PInv) {app mb : String} (hm : d.HasMb app mb)
    {n : Nameplate} (hn : n ∈ d.nameplates) (e : n.mailbox = mb) : n.app = app := by
  obtain ⟨m, hm', e1, e2⟩ := h.npMb n hn
  exact h.mb_app_unique ⟨m, hm', e1.trans e, e2⟩ hm

/-! ### INSERTs -/

/-- `INSERT INTO mailboxes`: accepted (PRIMARY KEY) when no row has that id -/
theorem PInv.insMailbox {d : Chan} (h : d.PInv) {r : MailboxRow} (hfree : d.findMailboxById r.id = none) :
    (d.insMailbox r).PInv := by
  have hf := findMailboxById_none hfree
  obtain ⟨h1, h2, h3, h4, h5, h6, h7, h8, h9, h10⟩ := h
  refine ⟨h1, h2, h3, ?_, ?_, h6, h7, ?_, h9, ?_⟩
  · simp only [Chan.insMailbox, List.pairwise_append, List.pairwise_cons, List.mem_singleton]
    refine ⟨h4, by simp, ?_⟩
    intro a ha b hb; subst hb; exact hf a ha
  · intro n hn
    obtain ⟨m, hm, e⟩ := h5 n hn
    exact ⟨m, by simp [Chan.insMailbox, hm], e⟩
  · intro r' hr'
    obtain ⟨m, hm, e⟩ := h8 r' hr'
    exact ⟨m, by simp [Chan.insMailbox, hm], e⟩
  · intro r' hr'
    obtain ⟨m, hm, e⟩ := h10 r' hr'
    exact ⟨m, by simp [Chan.insMailbox, hm], e⟩

/-- `INSERT INTO nameplates`: after the SELECT found no row `(app, name)`, with the mailbox row
    `(app, mb)` in place (FOREIGN KEY) -/
theorem PInv.insNameplate {d : Chan} (h : d.PInv) {app name mb : String}
    (hfree : d.findNameplate app name = none) (hmb : d.HasMb app mb) :
    (d.insNameplate app name mb).PInv := by
  have hf := findNameplate_none hfree
  obtain ⟨h1, h2, ⟨b1, b2⟩, h4, h5, h6, h7, h8, h9, h10⟩ := h
  refine ⟨?_, ?_, ⟨?_, ?_⟩, h4, ?_, ?_, h7, h8, h9, h10⟩
  · simp only [Chan.insNameplate, List.pairwise_append, List.pairwise_cons, List.mem_singleton]
    refine ⟨h1, by simp, ?_⟩
    intro a ha b hb; subst hb
    have := b1 a ha
    simp; omega
  · simp only [Chan.insNameplate, List.pairwise_append, List.pairwise_cons, List.mem_singleton]
    refine ⟨h2, by simp, ?_⟩
    intro a ha b hb; subst hb
    exact hf a ha
  · intro n hn
    simp only [Chan.insNameplate, List.mem_append, List.mem_singleton] at hn ⊢
    rcases hn with hn | rfl
    · have := b1 n hn; omega
    · simp
  · intro r hr
    have := b2 r hr
    simp only [Chan.insNameplate]; omega
  · intro n hn
    simp only [Chan.insNameplate, List.mem_append, List.mem_singleton] at hn ⊢
    rcases hn with hn | rfl
    · exact h5 n hn
    · exact hmb
  · intro r hr
    obtain ⟨n, hn, e⟩ := h6 r hr
    exact ⟨n, by simp [Chan.insNameplate, hn], e⟩

/-- `INSERT INTO nameplate_sides`: after the SELECT found no row `(npid, side)`, for an existing
    nameplate (FOREIGN KEY) -/
theorem PInv.insNpSide {d : Chan} (h : d.PInv) {r : NpSide}
    (hfree : d.findNpSide r.npid r.side = none) (hnp : ∃ n ∈ d.nameplates, n.id = r.npid) :
    (d.insNpSide r).PInv := by
  have hf := findNpSide_none hfree
  obtain ⟨h1, h2, ⟨b1, b2⟩, h4, h5, h6, h7, h8, h9, h10⟩ := h
  refine ⟨h1, h2, ⟨b1, ?_⟩, h4, h5, ?_, ?_, h8, h9, h10⟩
  · intro r' hr'
    simp only [Chan.insNpSide, List.mem_append, List.mem_singleton] at hr'
    rcases hr' with hr' | rfl
    · exact b2 r' hr'
    · obtain ⟨n, hn, e⟩ := hnp
      have := b1 n hn
      show _ < d.nextNp
      omega
  · intro r' hr'
    simp only [Chan.insNpSide, List.mem_append, List.mem_singleton] at hr'
    rcases hr' with hr' | rfl
    · exact h6 r' hr'
    · exact hnp
  · simp only [Chan.insNpSide, List.pairwise_append, List.pairwise_cons, List.mem_singleton]
    refine ⟨h7, by simp, ?_⟩
    intro a ha b hb; subst hb
    exact hf a ha

/-- `INSERT INTO mailbox_sides`: after the SELECT found no row `(mb, side)`, for an existing
    mailbox (FOREIGN KEY) -/
theorem PInv.insMbSide {d : Chan} (h : d.PInv) {r : MbSide}
    (hfree : d.findMbSide r.mailbox r.side = none) (hmb : ∃ m ∈ d.mailboxes, m.id = r.mailbox) :
    (d.insMbSide r).PInv := by
  have hf := findMbSide_none hfree
  obtain ⟨h1, h2, h3, h4, h5, h6, h7, h8, h9, h10⟩ := h
  refine ⟨h1, h2, h3, h4, h5, h6, h7, ?_, ?_, h10⟩
  · intro r' hr'
    simp only [Chan.insMbSide, List.mem_append, List.mem_singleton] at hr'
    rcases hr' with hr' | rfl
    · exact h8 r' hr'
    · exact hmb
  · simp only [Chan.insMbSide, List.pairwise_append, List.pairwise_cons, List.mem_singleton]
    refine ⟨h9, by simp, ?_⟩
    intro a ha b hb; subst hb
    exact hf a ha

/-- `INSERT INTO messages` for an existing mailbox of the same app -/
theorem PInv.insMessage {d : Chan} (h : d.PInv) {r : Message} (hmb : d.HasMb r.app r.mailbox) :
    (d.insMessage r).PInv := by
  obtain ⟨h1, h2, h3, h4, h5, h6, h7, h8, h9, h10⟩ := h
  refine ⟨h1, h2, h3, h4, h5, h6, h7, h8, h9, ?_⟩
  intro r' hr'
  simp only [Chan.insMessage, List.mem_append, List.mem_singleton] at hr'
  rcases hr' with hr' | rfl
  · exact h10 r' hr'
  · exact hmb

/-! ### UPDATEs (no key column is written) -/

/-- any UPDATE of `mailboxes` that leaves `id` and `app_id` alone -/
theorem PInv.mapMailboxes {d : Chan} (h : d.PInv) (f : MailboxRow → MailboxRow)
    (hf : ∀ r, (f r).id = r.id ∧ (f r).app = r.app) :
    ({ d with mailboxes := d.mailboxes.map f } : Chan).PInv := by
  obtain ⟨h1, h2, h3, h4, h5, h6, h7, h8, h9, h10⟩ := h
  refine ⟨h1, h2, h3, ?_, ?_, h6, h7, ?_, h9, ?_⟩
  · simp only [List.pairwise_map]
    exact h4.imp (fun {a b} hab => by rw [(hf a).1, (hf b).1]; exact hab)
  · intro n hn
    obtain ⟨m, hm, e1, e2⟩ := h5 n hn
    exact ⟨f m, List.mem_map_of_mem hm, by rw [(hf m).1, e1], by rw [(hf m).2, e2]⟩
  · intro r hr
    obtain ⟨m, hm, e1⟩ := h8 r hr
    exact ⟨f m, List.mem_map_of_mem hm, by rw [(hf m).1, e1]⟩
  · intro r hr
    obtain ⟨m, hm, e1, e2⟩ := h10 r hr
    exact ⟨f m, List.mem_map_of_mem hm, by rw [(hf m).1, e1], by rw [(hf m).2, e2]⟩

theorem PInv.touch {d : Chan} (h : d.PInv) (mb : String) (t : Time) : (d.touch mb t).PInv := by
  apply h.mapMailboxes
  intro r; split <;> simp

theorem PInv.unclaim {d : Chan} (h : d.PInv) (npid : Nat) (side : String) : (d.unclaim npid side).PInv := by
  obtain ⟨h1, h2, ⟨b1, b2⟩, h4, h5, h6, h7, h8, h9, h10⟩ := h
  have key : ∀ r : NpSide, (if r.npid = npid ∧ r.side = side then { r with claimed := false } else r).npid = r.npid ∧
      (if r.npid = npid ∧ r.side = side then { r with claimed := false } else r).side = r.side := by
    intro r; split <;> simp
  refine ⟨h1, h2, ⟨b1, ?_⟩, h4, h5, ?_, ?_, h8, h9, h10⟩
  · intro r hr
    simp only [Chan.unclaim, List.mem_map] at hr
    obtain ⟨r0, hr0, rfl⟩ := hr
    rw [(key r0).1]; exact b2 r0 hr0
  · intro r hr
    simp only [Chan.unclaim, List.mem_map] at hr
    obtain ⟨r0, hr0, rfl⟩ := hr
    rw [(key r0).1]; exact h6 r0 hr0
  · simp only [Chan.unclaim, List.pairwise_map]
    exact h7.imp (fun {a b} hab => by rw [(key a).1, (key a).2, (key b).1, (key b).2]; exact hab)

theorem PInv.closeSide {d : Chan} (h : d.PInv) (mb side : String) (mood : Option String) :
    (d.closeSide mb side mood).PInv := by
  obtain ⟨h1, h2, h3, h4, h5, h6, h7, h8, h9, h10⟩ := h
  have key : ∀ r : MbSide,
      (if r.mailbox = mb ∧ r.side = side then { r with opened := false, mood := mood } else r).mailbox = r.mailbox ∧
      (if r.mailbox = mb ∧ r.side = side then { r with opened := false, mood := mood } else r).side = r.side := by
    intro r; split <;> simp
  refine ⟨h1, h2, h3, h4, h5, h6, h7, ?_, ?_, h10⟩
  · intro r hr
    simp only [Chan.closeSide, List.mem_map] at hr
    obtain ⟨r0, hr0, rfl⟩ := hr
    rw [(key r0).1]; exact h8 r0 hr0
  · simp only [Chan.closeSide, List.pairwise_map]
    exact h9.imp (fun {a b} hab => by rw [(key a).1, (key a).2, (key b).1, (key b).2]; exact hab)

/-! ### DELETE blocks -/

/-- `DELETE FROM nameplate_sides WHERE nameplates_id=?; DELETE FROM nameplates WHERE id=?` -/
theorem PInv.delById {d : Chan} (h : d.PInv) (npid : Nat) :
    ((d.delNpSidesOf npid).delNameplate npid).PInv := by
  obtain ⟨h1, h2, ⟨b1, b2⟩, h4, h5, h6, h7, h8, h9, h10⟩ := h
  refine ⟨h1.filter _, h2.filter _, ⟨?_, ?_⟩, h4, ?_, ?_, h7.filter _, h8, h9, h10⟩
  · intro n hn
    simp only [delNameplate, delNpSidesOf, List.mem_filter] at hn
    exact b1 n hn.1
  · intro r hr
    simp only [delNameplate, delNpSidesOf, List.mem_filter] at hr
    exact b2 r hr.1
  · intro n hn
    simp only [delNameplate, delNpSidesOf, List.mem_filter] at hn
    exact h5 n hn.1
  · intro r hr
    simp only [delNameplate, delNpSidesOf, List.mem_filter, decide_not, Bool.not_eq_eq_eq_not,
      Bool.not_true, decide_eq_false_iff_not] at hr ⊢
    obtain ⟨n, hn, e⟩ := h6 r hr.1
    exact ⟨n, ⟨hn, by rw [e]; exact hr.2⟩, e⟩

/-- the five DELETEs of `Mailbox.close`, for the existing mailbox row `(app, mb)` -/
theorem PInv.closeBlock {d : Chan} (h : d.PInv) {app mb : String} (hmb : d.HasMb app mb) :
    (((((d.delNpSidesOfMailbox app mb).delNameplatesOfMailbox app mb).delMessagesOf mb).delMbSidesOf
      mb).delMailbox mb).PInv := by
  have hnp : ∀ n ∈ d.nameplates, n.mailbox = mb → n.app = app := fun n hn e => h.np_app_of_mailbox hmb hn e
  obtain ⟨h1, h2, ⟨b1, b2⟩, h4, h5, h6, h7, h8, h9, h10⟩ := h
  refine ⟨h1.filter _, h2.filter _, ⟨?_, ?_⟩, h4.filter _, ?_, ?_, h7.filter _, ?_, h9.filter _, ?_⟩
  · intro n hn
    simp only [delMailbox, delMbSidesOf, delMessagesOf, delNameplatesOfMailbox, delNpSidesOfMailbox,
      List.mem_filter] at hn
    exact b1 n hn.1
  · intro r hr
    simp only [delMailbox, delMbSidesOf, delMessagesOf, delNameplatesOfMailbox, delNpSidesOfMailbox,
      List.mem_filter] at hr
    exact b2 r hr.1
  · intro n hn
    simp only [delMailbox, delMbSidesOf, delMessagesOf, delNameplatesOfMailbox, delNpSidesOfMailbox,
      List.mem_filter, decide_not, Bool.not_eq_eq_eq_not, Bool.not_true, decide_eq_false_iff_not] at hn ⊢
    obtain ⟨m, hm, e1, e2⟩ := h5 n hn.1
    refine ⟨m, ⟨hm, ?_⟩, e1, e2⟩
    intro e
    exact hn.2 ⟨hnp n hn.1 (e1.symm.trans e), e1.symm.trans e⟩
  · intro r hr
    simp only [delMailbox, delMbSidesOf, delMessagesOf, delNameplatesOfMailbox, delNpSidesOfMailbox,
      List.mem_filter, nameplatesOfMailbox, List.mem_map, decide_eq_true_eq, decide_not,
      Bool.not_eq_eq_eq_not, Bool.not_true, decide_eq_false_iff_not, not_exists, not_and] at hr ⊢
    obtain ⟨n, hn, e⟩ := h6 r hr.1
    have hr2 := of_decide_eq_true hr.2
    simp only [List.mem_map, List.mem_filter, decide_eq_true_eq, not_exists, not_and] at hr2
    refine ⟨n, ⟨hn, ?_⟩, e⟩
    intro hk1 hk2
    exact hr2 n ⟨hn, hk1, hk2⟩ e
  · intro r hr
    simp only [delMailbox, delMbSidesOf, delMessagesOf, delNameplatesOfMailbox, delNpSidesOfMailbox,
      List.mem_filter, decide_not, Bool.not_eq_eq_eq_not, Bool.not_true, decide_eq_false_iff_not] at hr ⊢
    obtain ⟨m, hm, e⟩ := h8 r hr.1
    exact ⟨m, ⟨hm, by rw [e]; exact hr.2⟩, e⟩
  · intro r hr
    simp only [delMailbox, delMbSidesOf, delMessagesOf, delNameplatesOfMailbox, delNpSidesOfMailbox,
      List.mem_filter, decide_not, Bool.not_eq_eq_eq_not, Bool.not_true, decide_eq_false_iff_not] at hr ⊢
    obtain ⟨m, hm, e1, e2⟩ := h10 r hr.1
    exact ⟨m, ⟨hm, by rw [e1]; exact hr.2⟩, e1, e2⟩

/-- the three DELETEs of one iteration of the mailbox loop of `prune`; guard: no nameplate
    references the mailbox any more (the nameplate loop ran first) -/
theorem PInv.pruneBlock {d : Chan} (h : d.PInv) {mb : String} (hno : ∀ n ∈ d.nameplates, ¬ n.mailbox = mb) :
    (((d.delMessagesOf mb).delMbSidesOf mb).delMailbox mb).PInv := by
  obtain ⟨h1, h2, h3, h4, h5, h6, h7, h8, h9, h10⟩ := h
  refine ⟨h1, h2, h3, h4.filter _, ?_, h6, h7, ?_, h9.filter _, ?_⟩
  · intro n hn
    simp only [delMailbox, delMbSidesOf, delMessagesOf, List.mem_filter, decide_not,
      Bool.not_eq_eq_eq_not, Bool.not_true, decide_eq_false_iff_not] at hn ⊢
    obtain ⟨m, hm, e1, e2⟩ := h5 n hn
    exact ⟨m, ⟨hm, by rw [e1]; exact hno n hn⟩, e1, e2⟩
  · intro r hr
    simp only [delMailbox, delMbSidesOf, delMessagesOf, List.mem_filter, decide_not,
      Bool.not_eq_eq_eq_not, Bool.not_true, decide_eq_false_iff_not] at hr ⊢
    obtain ⟨m, hm, e⟩ := h8 r hr.1
    exact ⟨m, ⟨hm, by rw [e]; exact hr.2⟩, e⟩
  · intro r hr
    simp only [delMailbox, delMbSidesOf, delMessagesOf, List.mem_filter, decide_not,
      Bool.not_eq_eq_eq_not, Bool.not_true, decide_eq_false_iff_not] at hr ⊢
    obtain ⟨m, hm, e1, e2⟩ := h10 r hr.1
    exact ⟨m, ⟨hm, by rw [e1]; exact hr.2⟩, e1, e2⟩

/-! ### `CInv` = `PInv` + `NpOk` -/

theorem CInv.of_pinv_npOk {d : Chan} (p : d.PInv) (n : d.NpOk) : d.CInv := ⟨p, n.hasSide⟩

theorem PInv.npOk {d : Chan} (p : d.PInv) (h : d.NpHasSide) : d.NpOk := ⟨p.bounded, p.npIds, h⟩

/-! ### which mailbox rows exist -/

section hasMb
variable (d : Chan) (a m : String)

@[simp] theorem hasMb_insMbSide (r) : (d.insMbSide r).HasMb a m ↔ d.HasMb a m := Iff.rfl
@[simp] theorem hasMb_insNpSide (r) : (d.insNpSide r).HasMb a m ↔ d.HasMb a m := Iff.rfl
@[simp] theorem hasMb_insMessage (r) : (d.insMessage r).HasMb a m ↔ d.HasMb a m := Iff.rfl
@[simp] theorem hasMb_insNameplate (x y z) : (d.insNameplate x y z).HasMb a m ↔ d.HasMb a m := Iff.rfl
@[simp] theorem hasMb_unclaim (x y) : (d.unclaim x y).HasMb a m ↔ d.HasMb a m := Iff.rfl
@[simp] theorem hasMb_closeSide (x y z) : (d.closeSide x y z).HasMb a m ↔ d.HasMb a m := Iff.rfl
@[simp] theorem hasMb_delNpSidesOf (x) : (d.delNpSidesOf x).HasMb a m ↔ d.HasMb a m := Iff.rfl
@[simp] theorem hasMb_delNameplate (x) : (d.delNameplate x).HasMb a m ↔ d.HasMb a m := Iff.rfl
@[simp] theorem hasMb_delNpSidesOfMailbox (x y) : (d.delNpSidesOfMailbox x y).HasMb a m ↔ d.HasMb a m := Iff.rfl
@[simp] theorem hasMb_delNameplatesOfMailbox (x y) : (d.delNameplatesOfMailbox x y).HasMb a m ↔ d.HasMb a m :=
  Iff.rfl
@[simp] theorem hasMb_delMessagesOf (x) : (d.delMessagesOf x).HasMb a m ↔ d.HasMb a m := Iff.rfl
@[simp] theorem hasMb_delMbSidesOf (x) : (d.delMbSidesOf x).HasMb a m ↔ d.HasMb a m := Iff.rfl

theorem hasMb_insMailbox (r : MailboxRow) :
    (d.insMailbox r).HasMb a m ↔ d.HasMb a m ∨ (r.id = m ∧ r.app = a) := by
  simp only [HasMb, Chan.insMailbox, List.mem_append, List.mem_singleton]
  constructor
  · rintro ⟨x, hx | rfl, e⟩
    · exact Or.inl ⟨x, hx, e⟩
    · exact Or.inr e
  · rintro (⟨x, hx, e⟩ | e)
    · exact ⟨x, Or.inl hx, e⟩
    · exact ⟨r, Or.inr rfl, e⟩

theorem hasMb_mapMailboxes (f : MailboxRow → MailboxRow) (hf : ∀ r, (f r).id = r.id ∧ (f r).app = r.app) :
    ({ d with mailboxes := d.mailboxes.map f } : Chan).HasMb a m ↔ d.HasMb a m := by
  simp only [HasMb, List.mem_map]
  constructor
  · rintro ⟨x, ⟨y, hy, rfl⟩, e⟩
    exact ⟨y, hy, by rw [← (hf y).1, ← (hf y).2]; exact e⟩
  · rintro ⟨y, hy, e⟩
    exact ⟨f y, ⟨y, hy, rfl⟩, by rw [(hf y).1, (hf y).2]; exact e⟩

@[simp] theorem hasMb_touch (mb : String) (t : Time) : (d.touch mb t).HasMb a m ↔ d.HasMb a m := by
  apply hasMb_mapMailboxes
  intro r; split <;> simp

theorem hasMb_delMailbox (mb : String) : (d.delMailbox mb).HasMb a m ↔ d.HasMb a m ∧ ¬ m = mb := by
  simp only [HasMb, Chan.delMailbox, List.mem_filter, decide_not, Bool.not_eq_eq_eq_not, Bool.not_true,
    decide_eq_false_iff_not]
  constructor
  · rintro ⟨x, ⟨hx, hne⟩, e⟩
    exact ⟨⟨x, hx, e⟩, by rw [← e.1]; exact hne⟩
  · rintro ⟨⟨x, hx, e⟩, hne⟩
    exact ⟨x, ⟨hx, by rw [e.1]; exact hne⟩, e⟩

end hasMb

/-! ### what every mailbox row satisfies: its id is known (`U`) and it is not stamped later than `t` -/

/-- every mailbox id satisfies `U`, and no row is stamped later than `t` -/
def MbQ (U : String → Prop) (t : Time) (d : Chan) : Prop := ∀ m ∈ d.mailboxes, U m.id ∧ m.updated ≤ t

section mbq
variable {U : String → Prop} {t : Time} {d : Chan}

theorem MbQ.of_mailboxes_eq {d' : Chan} (h : d.MbQ U t) (e : d'.mailboxes = d.mailboxes) : d'.MbQ U t := by
  unfold MbQ; rw [e]; exact h

theorem MbQ.insMailbox (h : d.MbQ U t) {r : MailboxRow} (hu : U r.id) (ht : r.updated ≤ t) :
    (d.insMailbox r).MbQ U t := by
  intro m hm
  simp only [Chan.insMailbox, List.mem_append, List.mem_singleton] at hm
  rcases hm with hm | rfl
  · exact h m hm
  · exact ⟨hu, ht⟩

theorem MbQ.touch (h : d.MbQ U t) (mb : String) : (d.touch mb t).MbQ U t := by
  intro m hm
  simp only [Chan.touch, List.mem_map] at hm
  obtain ⟨m0, hm0, rfl⟩ := hm
  have := h m0 hm0
  split
  · exact ⟨this.1, Int.le_refl _⟩
  · exact this

theorem MbQ.delMailbox (h : d.MbQ U t) (mb : String) : (d.delMailbox mb).MbQ U t := by
  intro m hm
  simp only [Chan.delMailbox, List.mem_filter] at hm
  exact h m hm.1

theorem MbQ.mono {U' : String → Prop} {t' : Time} (h : d.MbQ U t) (hu : ∀ x, U x → U' x) (ht : t ≤ t') :
    d.MbQ U' t' := by
  intro m hm
  have := h m hm
  exact ⟨hu _ this.1, Int.le_trans this.2 ht⟩

end mbq

/-! ### the crash-free strengthening -/

section sextra
variable {d : Chan}

theorem SExtra.of_eq {d' : Chan} (h : d.SExtra) (e1 : d'.nameplates = d.nameplates) (e2 : d'.npSides = d.npSides)
    (e3 : d'.mbSides = d.mbSides) (e4 : ∀ m' ∈ d'.mailboxes, ∃ m ∈ d.mailboxes, m.id = m'.id) : d'.SExtra := by
  constructor
  · rw [e1, e2]; exact h.npClaimed
  · intro m' hm'
    obtain ⟨m, hm, e⟩ := e4 m' hm'
    rw [e3, ← e]; exact h.mbOpened m hm

theorem SExtra.mapMailboxes (h : d.SExtra) (f : MailboxRow → MailboxRow) (hf : ∀ r, (f r).id = r.id) :
    ({ d with mailboxes := d.mailboxes.map f } : Chan).SExtra := by
  refine h.of_eq rfl rfl rfl ?_
  intro m' hm'
  simp only [List.mem_map] at hm'
  obtain ⟨m, hm, rfl⟩ := hm'
  exact ⟨m, hm, (hf m).symm⟩

theorem SExtra.touch (h : d.SExtra) (mb : String) (t : Time) : (d.touch mb t).SExtra := by
  apply h.mapMailboxes
  intro r; split <;> simp

theorem SExtra.insMessage (h : d.SExtra) (r : Message) : (d.insMessage r).SExtra :=
  h.of_eq rfl rfl rfl (fun m hm => ⟨m, hm, rfl⟩)

theorem SExtra.insMbSide (h : d.SExtra) (r : MbSide) : (d.insMbSide r).SExtra := by
  refine ⟨h.npClaimed, ?_⟩
  intro m hm
  obtain ⟨r', hr', e⟩ := h.mbOpened m hm
  exact ⟨r', by simp [Chan.insMbSide, hr'], e⟩

theorem SExtra.insNpSide (h : d.SExtra) (r : NpSide) : (d.insNpSide r).SExtra := by
  refine ⟨?_, h.mbOpened⟩
  intro n hn
  obtain ⟨r', hr', e⟩ := h.npClaimed n hn
  exact ⟨r', by simp [Chan.insNpSide, hr'], e⟩

/-- a new mailbox row together with its first (opened) side row -/
theorem SExtra.insMailbox_insMbSide (h : d.SExtra) (r : MailboxRow) (side : String) (t : Time) (mood) :
    ((d.insMailbox r).insMbSide ⟨r.id, true, side, t, mood⟩).SExtra := by
  refine ⟨h.npClaimed, ?_⟩
  intro m hm
  simp only [Chan.insMbSide, Chan.insMailbox, List.mem_append, List.mem_singleton] at hm ⊢
  rcases hm with hm | rfl
  · obtain ⟨r', hr', e⟩ := h.mbOpened m hm
    exact ⟨r', Or.inl hr', e⟩
  · exact ⟨_, Or.inr rfl, rfl, rfl⟩

/-- a new nameplate row together with its first (claimed) side row -/
theorem SExtra.insNew (h : d.SExtra) (app name mb side : String) (t : Time) :
    ((d.insNameplate app name mb).insNpSide ⟨d.nextNp, true, side, t⟩).SExtra := by
  refine ⟨?_, h.mbOpened⟩
  intro n hn
  simp only [Chan.insNpSide, Chan.insNameplate, List.mem_append, List.mem_singleton] at hn ⊢
  rcases hn with hn | rfl
  · obtain ⟨r', hr', e⟩ := h.npClaimed n hn
    exact ⟨r', Or.inl hr', e⟩
  · exact ⟨_, Or.inr rfl, rfl, rfl⟩

/-- `UPDATE mailbox_sides SET opened=False` after which some side of that mailbox is still open -/
theorem SExtra.closeSide_of_any (h : d.SExtra) {mb side : String} {mood : Option String}
    (hany : ((d.closeSide mb side mood).mbSidesOf mb).any (·.opened) = true) :
    (d.closeSide mb side mood).SExtra := by
  refine ⟨h.npClaimed, ?_⟩
  intro m hm
  by_cases e : m.id = mb
  · simp only [List.any_eq_true, Chan.mbSidesOf, List.mem_filter, decide_eq_true_eq] at hany
    obtain ⟨r, ⟨hr, e1⟩, e2⟩ := hany
    exact ⟨r, hr, by rw [e1, e], e2⟩
  · obtain ⟨r, hr, e1, e2⟩ := h.mbOpened m hm
    refine ⟨r, ?_, e1, e2⟩
    simp only [Chan.closeSide, List.mem_map]
    refine ⟨r, hr, ?_⟩
    rw [if_neg]
    rintro ⟨e3, _⟩
    exact e (e1.symm.trans e3)

/-- `closeSide` followed by the five DELETEs of `Mailbox.close` -/
theorem SExtra.closeSide_closeBlock (h : d.SExtra) (hids : d.NpIdsUnique) (app mb side : String)
    (mood : Option String) :
    ((((((d.closeSide mb side mood).delNpSidesOfMailbox app mb).delNameplatesOfMailbox app mb).delMessagesOf
      mb).delMbSidesOf mb).delMailbox mb).SExtra := by
  constructor
  · intro n hn
    simp only [delMailbox, delMbSidesOf, delMessagesOf, delNameplatesOfMailbox, delNpSidesOfMailbox,
      Chan.closeSide, List.mem_filter] at hn ⊢
    obtain ⟨r, hr, e1, e2⟩ := h.npClaimed n hn.1
    refine ⟨r, ⟨hr, ?_⟩, e1, e2⟩
    apply decide_eq_true
    simp only [nameplatesOfMailbox, List.mem_map, List.mem_filter, decide_eq_true_eq, not_exists, not_and]
    intro n' ⟨hn', hk⟩ e'
    have : n' = n := eq_of_pairwise_ne (f := Nameplate.id) hids hn' hn.1 (by omega)
    subst this
    simp_all
  · intro m hm
    simp only [delMailbox, delMbSidesOf, delMessagesOf, delNameplatesOfMailbox, delNpSidesOfMailbox,
      Chan.closeSide, List.mem_filter, List.mem_map, decide_not, Bool.not_eq_eq_eq_not, Bool.not_true,
      decide_eq_false_iff_not] at hm ⊢
    obtain ⟨r, hr, e1, e2⟩ := h.mbOpened m hm.1
    refine ⟨r, ⟨⟨r, hr, ?_⟩, by rw [e1]; exact hm.2⟩, e1, e2⟩
    rw [if_neg]
    rintro ⟨e3, _⟩
    exact hm.2 (e1.symm.trans e3)

/-- `UPDATE nameplate_sides SET claimed=False` after which some side of that nameplate is still claimed -/
theorem SExtra.unclaim_of_any (h : d.SExtra) {npid : Nat} {side : String}
    (hany : ((d.unclaim npid side).npSidesOf npid).any (·.claimed) = true) :
    (d.unclaim npid side).SExtra := by
  refine ⟨?_, h.mbOpened⟩
  intro n hn
  by_cases e : n.id = npid
  · simp only [List.any_eq_true, Chan.npSidesOf, List.mem_filter, decide_eq_true_eq] at hany
    obtain ⟨r, ⟨hr, e1⟩, e2⟩ := hany
    exact ⟨r, hr, by rw [e1, e], e2⟩
  · obtain ⟨r, hr, e1, e2⟩ := h.npClaimed n hn
    refine ⟨r, ?_, e1, e2⟩
    simp only [Chan.unclaim, List.mem_map]
    refine ⟨r, hr, ?_⟩
    rw [if_neg]
    rintro ⟨e3, _⟩
    exact e (e1.symm.trans e3)

/-- `unclaim` followed by the two DELETEs of `release_nameplate` -/
theorem SExtra.unclaim_delById (h : d.SExtra) (npid : Nat) (side : String) :
    (((d.unclaim npid side).delNpSidesOf npid).delNameplate npid).SExtra := by
  refine ⟨?_, h.mbOpened⟩
  intro n hn
  simp only [delNameplate, delNpSidesOf, Chan.unclaim, List.mem_filter, List.mem_map, decide_not,
    Bool.not_eq_eq_eq_not, Bool.not_true, decide_eq_false_iff_not] at hn ⊢
  obtain ⟨r, hr, e1, e2⟩ := h.npClaimed n hn.1
  refine ⟨r, ⟨⟨r, hr, ?_⟩, by rw [e1]; exact hn.2⟩, e1, e2⟩
  rw [if_neg]
  rintro ⟨e3, _⟩
  exact hn.2 (e1.symm.trans e3)

/-- the two DELETEs of one iteration of the nameplate loop of `prune` -/
theorem SExtra.delById (h : d.SExtra) (npid : Nat) : ((d.delNpSidesOf npid).delNameplate npid).SExtra := by
  refine ⟨?_, h.mbOpened⟩
  intro n hn
  simp only [delNameplate, delNpSidesOf, List.mem_filter, decide_not, Bool.not_eq_eq_eq_not, Bool.not_true,
    decide_eq_false_iff_not] at hn ⊢
  obtain ⟨r, hr, e1, e2⟩ := h.npClaimed n hn.1
  exact ⟨r, ⟨hr, by rw [e1]; exact hn.2⟩, e1, e2⟩

/-- the three DELETEs of one iteration of the mailbox loop of `prune` -/
theorem SExtra.pruneBlock (h : d.SExtra) (mb : String) :
    (((d.delMessagesOf mb).delMbSidesOf mb).delMailbox mb).SExtra := by
  refine ⟨h.npClaimed, ?_⟩
  intro m hm
  simp only [delMailbox, delMbSidesOf, delMessagesOf, List.mem_filter, decide_not, Bool.not_eq_eq_eq_not,
    Bool.not_true, decide_eq_false_iff_not] at hm ⊢
  obtain ⟨r, hr, e1, e2⟩ := h.mbOpened m hm.1
  exact ⟨r, ⟨hr, by rw [e1]; exact hm.2⟩, e1, e2⟩

end sextra

/-! ### FOREIGN KEY facts: SQLite accepts each DELETE

  With `PRAGMA foreign_keys = ON` a `DELETE` of a parent row raises `IntegrityError` while a
  child row still references it.  The model's delete primitives are total; these lemmas state
  that at each parent DELETE of server.py the children are already gone, so the model's
  totality is not an omission. -/

/-- `DELETE FROM nameplates WHERE <P>` is accepted: no side row references a row satisfying `P` -/
def DelNameplatesOk (d : Chan) (P : Nameplate → Prop) : Prop :=
  ∀ n ∈ d.nameplates, P n → ∀ r ∈ d.npSides, ¬ r.npid = n.id

/-- `DELETE FROM mailboxes WHERE id=mb` is accepted: no nameplate and no side row references `mb`
    (`messages.mailbox_id` carries no REFERENCES clause) -/
def DelMailboxOk (d : Chan) (mb : String) : Prop :=
  (∀ n ∈ d.nameplates, ¬ n.mailbox = mb) ∧ (∀ r ∈ d.mbSides, ¬ r.mailbox = mb)

/-- `release_nameplate` / the nameplate loop of `prune`: after `DELETE FROM nameplate_sides WHERE
    nameplates_id=?` the nameplate row can be deleted -/
theorem delNpSidesOf_fk (d : Chan) (npid : Nat) :
    (d.delNpSidesOf npid).DelNameplatesOk (fun n => n.id = npid) := by
  intro n _ e r hr
  simp only [delNpSidesOf, List.mem_filter, decide_not, Bool.not_eq_eq_eq_not, Bool.not_true,
    decide_eq_false_iff_not] at hr
  rw [e]; exact hr.2

/-- `Mailbox.close`, second DELETE: the nameplates of `(app, mb)` have lost their side rows -/
theorem delNpSidesOfMailbox_fk (d : Chan) (app mb : String) :
    (d.delNpSidesOfMailbox app mb).DelNameplatesOk (fun n => n.app = app ∧ n.mailbox = mb) := by
  intro n hn e r hr
  simp only [delNpSidesOfMailbox, List.mem_filter] at hr
  have hr2 := of_decide_eq_true hr.2
  simp only [nameplatesOfMailbox, List.mem_map, List.mem_filter, decide_eq_true_eq, not_exists, not_and] at hr2
  intro e'
  exact hr2 n ⟨hn, e⟩ e'.symm

/-- `Mailbox.close`, fifth DELETE: nothing references the mailbox row any more (every nameplate
    that pointed at `mb` belonged to `app`, by the uniqueness of mailbox ids) -/
theorem closeBlock_fk {d : Chan} (h : d.PInv) {app mb : String} (hmb : d.HasMb app mb) :
    ((((d.delNpSidesOfMailbox app mb).delNameplatesOfMailbox app mb).delMessagesOf mb).delMbSidesOf
      mb).DelMailboxOk mb := by
  constructor
  · intro n hn
    simp only [delMbSidesOf, delMessagesOf, delNameplatesOfMailbox, delNpSidesOfMailbox, List.mem_filter,
      decide_not, Bool.not_eq_eq_eq_not, Bool.not_true, decide_eq_false_iff_not] at hn
    intro e
    exact hn.2 ⟨h.np_app_of_mailbox hmb hn.1 e, e⟩
  · intro r hr
    simp only [delMbSidesOf, delMessagesOf, delNameplatesOfMailbox, delNpSidesOfMailbox, List.mem_filter,
      decide_not, Bool.not_eq_eq_eq_not, Bool.not_true, decide_eq_false_iff_not] at hr
    exact hr.2

/-- mailbox loop of `prune`: with no nameplate pointing at `mb` (the guard), after the side rows
    are deleted the mailbox row can be deleted -/
theorem pruneBlock_fk {d : Chan} {mb : String} (hno : ∀ n ∈ d.nameplates, ¬ n.mailbox = mb) :
    ((d.delMessagesOf mb).delMbSidesOf mb).DelMailboxOk mb := by
  constructor
  · exact hno
  · intro r hr
    simp only [delMbSidesOf, delMessagesOf, List.mem_filter, decide_not, Bool.not_eq_eq_eq_not,
      Bool.not_true, decide_eq_false_iff_not] at hr
    exact hr.2

/-! ### `Mailbox.open` on the tables -/

/-- the two statements of `Mailbox.open`: the side row (unless present), the time stamp -/
def openSide (d : Chan) (mb side : String) (t : Time) : Chan :=
  (match d.findMbSide mb side with
   | none => d.insMbSide ⟨mb, true, side, t, none⟩
   | some _ => d).touch mb t

section openSide
variable {d : Chan} (mb side : String) (t : Time)

theorem PInv.openSide (h : d.PInv) (hmb : ∃ m ∈ d.mailboxes, m.id = mb) : (d.openSide mb side t).PInv := by
  unfold Chan.openSide
  split
  · rename_i e
    exact (h.insMbSide (r := ⟨mb, true, side, t, none⟩) e hmb).touch mb t
  · exact h.touch mb t

@[simp] theorem npPart_openSide : (d.openSide mb side t).npPart = d.npPart := by
  unfold Chan.openSide; split <;> rfl

@[simp] theorem hasMb_openSide (a m : String) : (d.openSide mb side t).HasMb a m ↔ d.HasMb a m := by
  unfold Chan.openSide; split <;> simp

theorem MbQ.openSide {U : String → Prop} (h : d.MbQ U t) : (d.openSide mb side t).MbQ U t := by
  unfold Chan.openSide
  split
  · exact MbQ.touch (d := d.insMbSide _) h mb
  · exact h.touch mb

theorem CInv.openSide (h : d.CInv) (hmb : ∃ m ∈ d.mailboxes, m.id = mb) : (d.openSide mb side t).CInv :=
  CInv.of_pinv_npOk (h.toPInv.openSide mb side t hmb) (h.npOk.of_npPart (by simp))

end openSide

/-- `SExtra`, except that the mailbox `mb` may still be without any side row: the state between
    the two commits of a first claim -/
structure SExtra' (mb : String) (d : Chan) : Prop where
  npClaimed : ∀ n ∈ d.nameplates, ∃ r ∈ d.npSides, r.npid = n.id ∧ r.claimed = true
  mbOpened : ∀ m ∈ d.mailboxes, (∃ r ∈ d.mbSides, r.mailbox = m.id ∧ r.opened = true) ∨
    (m.id = mb ∧ ∀ r ∈ d.mbSides, ¬ r.mailbox = mb)

section sextra'
variable {d : Chan} {mb : String}

theorem SExtra.weaken (h : d.SExtra) (mb : String) : d.SExtra' mb :=
  ⟨h.npClaimed, fun m hm => Or.inl (h.mbOpened m hm)⟩

theorem SExtra'.openSide (h : d.SExtra' mb) (side : String) (t : Time) : (d.openSide mb side t).SExtra := by
  have key : ∀ d0 : Chan, d0.SExtra → (d0.touch mb t).SExtra := fun d0 h0 => h0.touch mb t
  unfold Chan.openSide
  split
  · apply key
    refine ⟨h.npClaimed, ?_⟩
    intro m hm
    simp only [Chan.insMbSide, List.mem_append, List.mem_singleton]
    rcases h.mbOpened m hm with ⟨r, hr, e⟩ | ⟨e, _⟩
    · exact ⟨r, Or.inl hr, e⟩
    · exact ⟨_, Or.inr rfl, e.symm, rfl⟩
  · rename_i r0 e0
    apply key
    refine ⟨h.npClaimed, ?_⟩
    intro m hm
    rcases h.mbOpened m hm with h1 | ⟨_, h2⟩
    · exact h1
    · obtain ⟨a, b, _⟩ := findMbSide_some e0
      exact absurd b (h2 r0 a)

/-- a new mailbox row with id `mb` (no row had that id, hence no side row references it) -/
theorem SExtra'.insMailbox (h : d.SExtra' mb) (p : d.PInv) {r : MailboxRow} (e : r.id = mb)
    (hfree : d.findMailboxById mb = none) : (d.insMailbox r).SExtra' mb := by
  have hf := findMailboxById_none hfree
  refine ⟨h.npClaimed, ?_⟩
  intro m hm
  simp only [Chan.insMailbox, List.mem_append, List.mem_singleton] at hm
  rcases hm with hm | rfl
  · exact h.mbOpened m hm
  · refine Or.inr ⟨e, ?_⟩
    intro r' hr' e'
    obtain ⟨m', hm', e''⟩ := p.msFk r' hr'
    exact hf m' hm' (e''.trans e')

/-- statements on the nameplate tables -/
theorem SExtra'.of_np {d' : Chan} (h : d.SExtra' mb) (e1 : d'.mailboxes = d.mailboxes) (e2 : d'.mbSides = d.mbSides)
    (hnp : ∀ n ∈ d'.nameplates, ∃ r ∈ d'.npSides, r.npid = n.id ∧ r.claimed = true) : d'.SExtra' mb := by
  refine ⟨hnp, ?_⟩
  rw [e1, e2]; exact h.mbOpened

theorem SExtra'.insNpSide (h : d.SExtra' mb) (r : NpSide) : (d.insNpSide r).SExtra' mb := by
  refine h.of_np rfl rfl ?_
  intro n hn
  obtain ⟨r', hr', e⟩ := h.npClaimed n hn
  exact ⟨r', by simp [Chan.insNpSide, hr'], e⟩

theorem SExtra'.insNew (h : d.SExtra' mb) (app name mb' side : String) (t : Time) :
    ((d.insNameplate app name mb').insNpSide ⟨d.nextNp, true, side, t⟩).SExtra' mb := by
  refine h.of_np rfl rfl ?_
  intro n hn
  simp only [Chan.insNpSide, Chan.insNameplate, List.mem_append, List.mem_singleton] at hn ⊢
  rcases hn with hn | rfl
  · obtain ⟨r', hr', e⟩ := h.npClaimed n hn
    exact ⟨r', Or.inl hr', e⟩
  · exact ⟨_, Or.inr rfl, rfl, rfl⟩

end sextra'

/-- any UPDATE of `mailboxes` that keeps the id and stamps with at most `t` -/
theorem MbQ.mapMailboxes {U : String → Prop} {t : Time} {d : Chan} (h : d.MbQ U t) (f : MailboxRow → MailboxRow)
    (hf : ∀ r, (f r).id = r.id ∧ ((f r).updated = r.updated ∨ (f r).updated ≤ t)) :
    ({ d with mailboxes := d.mailboxes.map f } : Chan).MbQ U t := by
  intro m hm
  simp only [List.mem_map] at hm
  obtain ⟨m0, hm0, rfl⟩ := hm
  have := h m0 hm0
  obtain ⟨e1, e2⟩ := hf m0
  refine ⟨by rw [e1]; exact this.1, ?_⟩
  rcases e2 with e2 | e2
  · rw [e2]; exact this.2
  · exact e2

/-- a new nameplate row together with its first side row: one commit unit -/
theorem CInv.insNew {d : Chan} (h : d.CInv) {app name mb : String} (side : String) (t : Time)
    (hfree : d.findNameplate app name = none) (hmb : d.HasMb app mb) :
    ((d.insNameplate app name mb).insNpSide ⟨d.nextNp, true, side, t⟩).CInv := by
  refine CInv.of_pinv_npOk ?_ (h.npOk.insNew app name mb side true t)
  refine (h.toPInv.insNameplate hfree hmb).insNpSide ?_ ?_
  · have := h.bounded.findNpSide_fresh side
    simpa [Chan.findNpSide, Chan.insNameplate] using this
  · exact ⟨⟨d.nextNp, app, name, mb⟩, by simp [Chan.insNameplate], rfl⟩

/-- a further side row for an existing nameplate -/
theorem CInv.insNpSide {d : Chan} (h : d.CInv) {r : NpSide} (hfree : d.findNpSide r.npid r.side = none)
    {n : Nameplate} (hn : n ∈ d.nameplates) (e : n.id = r.npid) : (d.insNpSide r).CInv :=
  CInv.of_pinv_npOk (h.toPInv.insNpSide hfree ⟨n, hn, e⟩)
    (h.npOk.insNpSide r (by rw [← e]; exact h.bounded.1 n hn))

end Chan
end Wormhole
