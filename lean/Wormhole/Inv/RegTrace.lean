/-
  Traces up to the order of the recipients of one broadcast.

  `Mailbox.broadcast_message` walks `self._listeners.values()`: dict order = the order of the
  `add_listener` calls.  `Sys.broadcast` walks the connection table.  Both send the SAME `message`
  frame, with the same `synced` flag, once to every listener; so a broadcast contributes to the
  trace a block `cs.map (fun c => frame c f sy)` in one model and `cs'.map …` in the other with
  `cs ~ cs'` (`List.Perm`).  `TraceEq` is equality of traces modulo such blocks.
-/
import Wormhole.Inv.RegFrame

namespace Wormhole

def Frame.isMessage : Frame → Bool
  | .message _ _ _ _ _ => true
  | _ => false

/-- equal up to the order of the recipients inside each broadcast batch -/
inductive TraceEq : List Event → List Event → Prop
  | nil : TraceEq [] []
  | cons (e : Event) {a b : List Event} : TraceEq a b → TraceEq (e :: a) (e :: b)
  | batch (f : Frame) (sy : Bool) {cs cs' : List Nat} {a b : List Event} : f.isMessage = true → cs.Perm cs' →
      TraceEq a b →
      TraceEq (cs.map (fun c => Event.frame c f sy) ++ a) (cs'.map (fun c => Event.frame c f sy) ++ b)

namespace TraceEq

theorem refl : ∀ (a : List Event), TraceEq a a
  | [] => .nil
  | e :: a => .cons e (refl a)

theorem of_eq {a b : List Event} (h : a = b) : TraceEq a b := h ▸ refl a

theorem symm {a b : List Event} (h : TraceEq a b) : TraceEq b a := by
  induction h with
  | nil => exact .nil
  | cons e _ ih => exact .cons e ih
  | batch f sy hf hp _ ih => exact .batch f sy hf hp.symm ih

theorem append {a b c d : List Event} (h1 : TraceEq a b) (h2 : TraceEq c d) : TraceEq (a ++ c) (b ++ d) := by
  induction h1 with
  | nil => exact h2
  | cons e _ ih => exact .cons e ih
  | batch f sy hf hp _ ih =>
    rw [List.append_assoc, List.append_assoc]
    exact .batch f sy hf hp ih

/-- the two traces have the same events, with the same multiplicities -/
theorem perm {a b : List Event} (h : TraceEq a b) : a.Perm b := by
  induction h with
  | nil => exact .refl _
  | cons e _ ih => exact ih.cons e
  | batch f sy _ hp _ ih => exact (hp.map _).append ih

theorem length_eq {a b : List Event} (h : TraceEq a b) : a.length = b.length := h.perm.length_eq

/-- everything that is not a `message` frame appears at the same position, in the same order -/
theorem filter_not_message {a b : List Event} (h : TraceEq a b) :
    a.filter (fun e => match e with | .frame _ f _ => !f.isMessage | _ => true) =
      b.filter (fun e => match e with | .frame _ f _ => !f.isMessage | _ => true) := by
  induction h with
  | nil => rfl
  | cons e _ ih => simp only [List.filter_cons, ih]
  | batch f sy hf _ _ ih =>
    rw [List.filter_append, List.filter_append, ih]
    congr 1
    rw [List.filter_eq_nil_iff.2, List.filter_eq_nil_iff.2]
    · intro e he
      obtain ⟨c, _, rfl⟩ := List.mem_map.1 he
      simp [hf]
    · intro e he
      obtain ⟨c, _, rfl⟩ := List.mem_map.1 he
      simp [hf]

/-- what each connection receives, in order, is the same in both traces -/
theorem filter_conn {a b : List Event} (h : TraceEq a b) (c : Nat) :
    a.filter (fun e => match e with | .frame c' _ _ => decide (c' = c) | _ => false) =
      b.filter (fun e => match e with | .frame c' _ _ => decide (c' = c) | _ => false) := by
  induction h with
  | nil => rfl
  | cons e _ ih => simp only [List.filter_cons, ih]
  | batch f sy _ hp _ ih =>
    rw [List.filter_append, List.filter_append, ih]
    congr 1
    rename_i cs cs' _ _ _
    have key : ∀ l : List Nat,
        (l.map (fun c => Event.frame c f sy)).filter (fun e => match e with | .frame c' _ _ => decide (c' = c) | _ => false) =
          List.replicate (l.count c) (Event.frame c f sy) := by
      intro l
      induction l with
      | nil => rfl
      | cons d l ih =>
        simp only [List.map_cons, List.filter_cons, List.count_cons]
        by_cases e : d = c
        · subst e; simp [ih, List.replicate_succ]
        · simp [e, ih]
    rw [key, key, hp.count_eq]

theorem cutAtCommit {a b : List Event} (h : TraceEq a b) : ∀ k, TraceEq (Sys.cutAtCommit k a) (Sys.cutAtCommit k b) := by
  induction h with
  | nil => intro k; cases k <;> exact .nil
  | cons e _ ih =>
    intro k
    cases k with
    | zero => exact .nil
    | succ k =>
      cases e with
      | commit w => exact .cons _ (ih k)
      | frame c f sy => exact .cons _ (ih (k + 1))
      | internal c cls => exact .cons _ (ih (k + 1))
      | fired n o => exact .cons _ (ih (k + 1))
  | batch f sy hf hp _ ih =>
    intro k
    cases k with
    | zero => simp only [Sys.cutAtCommit]; exact .nil
    | succ k =>
      have key : ∀ (l : List Nat) (t : List Event),
          Sys.cutAtCommit (k + 1) (l.map (fun c => Event.frame c f sy) ++ t) =
            l.map (fun c => Event.frame c f sy) ++ Sys.cutAtCommit (k + 1) t := by
        intro l t
        induction l with
        | nil => rfl
        | cons d l ih2 => simp only [List.map_cons, List.cons_append, Sys.cutAtCommit, ih2]
      rw [key, key]
      exact .batch f sy hf hp (ih (k + 1))

end TraceEq

/-- equal states, except that the events of the current step agree only up to `TraceEq` -/
structure OutEq (a b : Sys) : Prop where
  rest : ({ a with out := [] } : Sys) = { b with out := [] }
  out : TraceEq a.out b.out

namespace OutEq

theorem refl (a : Sys) : OutEq a a := ⟨rfl, .refl _⟩
theorem of_eq {a b : Sys} (h : a = b) : OutEq a b := h ▸ refl a

theorem symm {a b : Sys} (h : OutEq a b) : OutEq b a := ⟨h.rest.symm, h.out.symm⟩

section
variable {a b : Sys} (h : OutEq a b)
include h
theorem fields : a.cfg = b.cfg ∧ a.db = b.db ∧ a.disk = b.disk ∧ a.udb = b.udb ∧ a.udisk = b.udisk ∧
    a.conns = b.conns ∧ a.rebooted = b.rebooted ∧ a.snaps = b.snaps := by
  have := h.rest
  simp only [Sys.mk.injEq, true_and] at this
  obtain ⟨h1, h2, h3, h4, h5, h6, h7, h8⟩ := this
  exact ⟨h1, h2, h3, h4, h5, h6, h7, h8⟩
theorem cfg : a.cfg = b.cfg := h.fields.1
theorem db : a.db = b.db := h.fields.2.1
theorem disk : a.disk = b.disk := h.fields.2.2.1
theorem udb : a.udb = b.udb := h.fields.2.2.2.1
theorem udisk : a.udisk = b.udisk := h.fields.2.2.2.2.1
theorem conns : a.conns = b.conns := h.fields.2.2.2.2.2.1
theorem rebooted : a.rebooted = b.rebooted := h.fields.2.2.2.2.2.2.1
theorem snaps : a.snaps = b.snaps := h.fields.2.2.2.2.2.2.2

/-- the next operation does not see the difference: a step starts by clearing `out` -/
theorem step_eq (op : Op) : a.step op = b.step op := by
  have : ({ a with out := [], snaps := [] } : Sys) = { b with out := [], snaps := [] } := by
    obtain ⟨h1, h2, h3, h4, h5, h6, h7, _⟩ := h.fields
    simp only [Sys.mk.injEq]
    exact ⟨h1, h2, h3, h4, h5, h6, h7, trivial, trivial⟩
  have e1 : ∀ s : Sys, s.step op = ({ s with out := [], snaps := [] } : Sys).step op := fun _ => rfl
  rw [e1 a, e1 b, this]
end

end OutEq
end Wormhole
