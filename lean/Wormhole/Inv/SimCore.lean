/-
  Two-run (simulation) library, part 2: every function of Core.lean except `dump_stats`
  preserves an arbitrary relation `R` with the closure properties `SimRel R`, and returns the
  same result in both runs.

  Shape of the lemmas: for a function returning a state, `R a b → R (a.f x) (b.f x)`; for a
  function returning `Sys × result`, with `ea : a.f x = (a1, ra)` and `eb : b.f x = (b1, rb)`:
  `R a1 b1 ∧ ra = rb`; for the functions whose `Bool` says "no exception escaped" (which can
  depend on the usage option: the `IndexError` of `_summarize_nameplate_usage`), the lemma is
  about the runs in which both return `true` — that they do is a ONE-run fact supplied by the
  callers from `SyncLemmas` (`prune_spec`, …) and `mailboxClose_true` / `releaseNameplate_true`
  below.
-/
import Wormhole.Inv.SimDefs

namespace Wormhole
namespace Sys

variable {R : Sys → Sys → Prop}

section
variable (hR : SimRel R) {a b : Sys}
include hR

theorem _root_.Wormhole.SimRel.db (h : R a b) : a.db = b.db := (hR.chan h).1
theorem _root_.Wormhole.SimRel.conns (h : R a b) : a.conns = b.conns := (hR.chan h).2.2

theorem updConn_sim (h : R a b) (c : Nat) (f : Conn → Conn) : R (a.updConn c f) (b.updConn c f) := by
  unfold Sys.updConn
  rw [← hR.conns h]
  exact hR.setConns h _

theorem stopListeners_sim (h : R a b) (app mb : String) :
    R (a.stopListeners app mb) (b.stopListeners app mb) := by
  unfold Sys.stopListeners
  rw [← hR.conns h]
  exact hR.setConns h _

theorem addMailbox_sim (h : R a b) (app mb : String) (forNp : Bool) (t : Time) :
    ORel R (a.addMailbox app mb forNp t) (b.addMailbox app mb forNp t) := by
  unfold Sys.addMailbox
  rw [← hR.db h]
  cases a.db.findMailbox app mb with
  | some _ => exact h
  | none =>
    dsimp only
    cases a.db.findMailboxById mb with
    | some _ => trivial
    | none => exact hR.modDb h _

theorem mailboxOpen_sim (h : R a b) (mb side : String) (t : Time) :
    R (a.mailboxOpen mb side t) (b.mailboxOpen mb side t) := by
  unfold Sys.mailboxOpen
  rw [← hR.db h]
  cases a.db.findMbSide mb side with
  | none => exact hR.commit (hR.modDb (hR.modDb h _) _)
  | some _ => exact hR.commit (hR.modDb h _)

theorem openMailbox_sim (h : R a b) {app mb side : String} {t : Time} {a1 b1 : Sys} {ra rb : OpenRes}
    (ea : a.openMailbox app mb side t = (a1, ra)) (eb : b.openMailbox app mb side t = (b1, rb)) :
    R a1 b1 ∧ ra = rb := by
  have ham := addMailbox_sim hR h app mb false t
  unfold Sys.openMailbox at ea eb
  cases ha : a.addMailbox app mb false t with
  | none =>
    cases hb : b.addMailbox app mb false t with
    | none =>
      rw [ha] at ea; rw [hb] at eb
      cases ea; cases eb
      exact ⟨h, rfl⟩
    | some b0 => rw [ha, hb] at ham; exact ham.elim
  | some a0 =>
    cases hb : b.addMailbox app mb false t with
    | none => rw [ha, hb] at ham; exact ham.elim
    | some b0 =>
      rw [ha, hb] at ham
      rw [ha] at ea; rw [hb] at eb
      have h2 : R ((a0.mailboxOpen mb side t).commit) ((b0.mailboxOpen mb side t).commit) :=
        hR.commit (mailboxOpen_sim hR ham mb side t)
      have ed := hR.db h2
      dsimp only at ea eb
      rw [← ed] at eb
      by_cases hc : (((a0.mailboxOpen mb side t).commit).db.mbSidesOf mb).length > 2
      · rw [if_pos hc] at ea eb
        cases ea; cases eb
        exact ⟨h2, rfl⟩
      · rw [if_neg hc] at ea eb
        cases ea; cases eb
        exact ⟨h2, rfl⟩

theorem addMessage_sim (h : R a b) (app mb side : String) (ph bd : Val) (t : Time) (id : Val) :
    R (a.addMessage app mb side ph bd t id) (b.addMessage app mb side ph bd t id) := by
  unfold Sys.addMessage
  exact hR.commit (hR.modDb (hR.modDb h _) _)

theorem uNps_sim (app : String) (t : Time) (l : List Nameplate) :
    ∀ {a b a1 b1 : Sys}, R a b → a.uNps app t l = (a1, true) → b.uNps app t l = (b1, true) → R a1 b1 := by
  induction l with
  | nil =>
    intro a b a1 b1 h ea eb
    simp only [uNps, Prod.mk.injEq, and_true] at ea eb
    subst ea; subst eb
    exact h
  | cons np rest ih =>
    intro a b a1 b1 h ea eb
    unfold uNps at ea eb
    rw [← hR.db h] at eb
    have h1 := hR.uNp h app (a.db.npSidesOf np.id) t false
    split at ea
    · cases ea
    · split at eb
      · cases eb
      · rename_i _ a2 e1 _ b2 e2
        rw [e1, e2] at h1
        exact ih h1 ea eb

/-- `Mailbox.close` -/
theorem mailboxClose_sim (h : R a b) {app mb side : String} {mood : Option String} {t : Time} {a1 b1 : Sys}
    (ea : a.mailboxClose app mb side mood t = (a1, true)) (eb : b.mailboxClose app mb side mood t = (b1, true)) :
    R a1 b1 := by
  rw [mailboxClose_eq] at ea eb
  rw [← hR.db h] at eb
  cases hfm : a.db.findMailbox app mb with
  | none =>
    rw [hfm] at ea eb
    cases ea; cases eb; exact h
  | some row =>
    rw [hfm] at ea eb
    dsimp only at ea eb
    cases hfs : a.db.findMbSide mb side with
    | none =>
      rw [hfs] at ea eb
      cases ea; cases eb; exact h
    | some r =>
      rw [hfs] at ea eb
      dsimp only at ea eb
      have h1 : R ((a.modDb (·.closeSide mb side mood)).commit) ((b.modDb (·.closeSide mb side mood)).commit) :=
        hR.commit (hR.modDb h _)
      have ed := hR.db h1
      rw [← ed] at eb
      by_cases hc : ((((a.modDb (·.closeSide mb side mood)).commit).db.mbSidesOf mb).any (·.opened)) = true
      · rw [if_pos hc] at ea eb
        cases ea; cases eb; exact h1
      · rw [if_neg hc] at ea eb
        split at ea
        · cases ea
        · split at eb
          · cases eb
          · rename_i _ a2 e1 _ b2 e2
            have h2 := uNps_sim hR app t _ h1 e1 e2
            cases ea; cases eb
            exact stopListeners_sim hR (hR.commit (hR.uCommit (hR.uMb (hR.modDb h2 _) _ _ _ _ _))) _ _

/-- the continuation of `claim_nameplate` -/
theorem claimCont_sim (h : R a b) {app : String} {npid : Nat} {mb side : String} {t : Time} {a1 b1 : Sys}
    {ra rb : ClaimRes} (ea : claimCont a app npid mb side t = (a1, ra))
    (eb : claimCont b app npid mb side t = (b1, rb)) : R a1 b1 ∧ ra = rb := by
  unfold claimCont at ea eb
  dsimp only at ea eb
  have h2 := hR.commit h
  cases eoa : a.commit.openMailbox app mb side t with
  | mk a3 oa =>
    cases eob : b.commit.openMailbox app mb side t with
    | mk b3 ob =>
      obtain ⟨h3, rfl⟩ := openMailbox_sim hR h2 eoa eob
      rw [eoa] at ea; rw [eob] at eb
      cases oa with
      | integrity => cases ea; cases eb; exact ⟨h3, rfl⟩
      | crowded => cases ea; cases eb; exact ⟨h3, rfl⟩
      | ok =>
        dsimp only at ea eb
        rw [← hR.db h3] at eb
        by_cases hc : (a3.db.npSidesOf npid).length > 2
        · rw [if_pos hc] at ea eb
          cases ea; cases eb; exact ⟨h3, rfl⟩
        · rw [if_neg hc] at ea eb
          cases ea; cases eb; exact ⟨h3, rfl⟩

theorem claimTail_sim (h : R a b) {app : String} {npid : Nat} {mb side : String} {t : Time} {a1 b1 : Sys}
    {ra rb : ClaimRes} (ea : a.claimTail app npid mb side t = (a1, ra))
    (eb : b.claimTail app npid mb side t = (b1, rb)) : R a1 b1 ∧ ra = rb := by
  rw [claimTail_eq] at ea eb
  rw [← hR.db h] at eb
  cases hf : a.db.findNpSide npid side with
  | none =>
    rw [hf] at ea eb
    exact claimCont_sim hR (hR.modDb h _) ea eb
  | some r =>
    rw [hf] at ea eb
    dsimp only at ea eb
    by_cases hc : r.claimed = true
    · rw [if_pos hc] at ea eb
      exact claimCont_sim hR h ea eb
    · rw [if_neg hc] at ea eb
      cases ea; cases eb; exact ⟨h, rfl⟩

/-- `claim_nameplate` -/
theorem claimNameplate_sim (h : R a b) {app name side : String} {t : Time} {fresh : String} {a1 b1 : Sys}
    {ra rb : ClaimRes} (ea : a.claimNameplate app name side t fresh = (a1, ra))
    (eb : b.claimNameplate app name side t fresh = (b1, rb)) : R a1 b1 ∧ ra = rb := by
  unfold Sys.claimNameplate at ea eb
  rw [← hR.db h] at eb
  cases hf : a.db.findNameplate app name with
  | some row =>
    rw [hf] at ea eb
    exact claimTail_sim hR h ea eb
  | none =>
    rw [hf] at ea eb
    dsimp only at ea eb
    have ham := addMailbox_sim hR h app fresh true t
    cases ha : a.addMailbox app fresh true t with
    | none =>
      cases hb : b.addMailbox app fresh true t with
      | none =>
        rw [ha] at ea; rw [hb] at eb
        cases ea; cases eb; exact ⟨h, rfl⟩
      | some b0 => rw [ha, hb] at ham; exact ham.elim
    | some a0 =>
      cases hb : b.addMailbox app fresh true t with
      | none => rw [ha, hb] at ham; exact ham.elim
      | some b0 =>
        rw [ha, hb] at ham
        rw [ha] at ea; rw [hb] at eb
        dsimp only at ea eb
        rw [← hR.db ham] at eb
        exact claimTail_sim hR (hR.modDb ham _) ea eb

/-- `release_nameplate` -/
theorem releaseNameplate_sim (h : R a b) {app name side : String} {t : Time} {a1 b1 : Sys}
    (ea : a.releaseNameplate app name side t = (a1, true)) (eb : b.releaseNameplate app name side t = (b1, true)) :
    R a1 b1 := by
  rw [releaseNameplate_eq] at ea eb
  rw [← hR.db h] at eb
  cases hfn : a.db.findNameplate app name with
  | none =>
    rw [hfn] at ea eb
    cases ea; cases eb; exact h
  | some np =>
    rw [hfn] at ea eb
    dsimp only at ea eb
    cases hfs : a.db.findNpSide np.id side with
    | none =>
      rw [hfs] at ea eb
      cases ea; cases eb; exact h
    | some r =>
      rw [hfs] at ea eb
      dsimp only at ea eb
      have h1 : R ((a.modDb (·.unclaim np.id side)).commit) ((b.modDb (·.unclaim np.id side)).commit) :=
        hR.commit (hR.modDb h _)
      have ed := hR.db h1
      rw [← ed] at eb
      by_cases hc : ((((a.modDb (·.unclaim np.id side)).commit).db.npSidesOf np.id).any (·.claimed)) = true
      · rw [if_pos hc] at ea eb
        cases ea; cases eb; exact h1
      · rw [if_neg hc] at ea eb
        have h2 := hR.uNp (hR.modDb h1 (fun d => (d.delNpSidesOf np.id).delNameplate np.id)) app
          (((a.modDb (·.unclaim np.id side)).commit).db.npSidesOf np.id) t false
        split at ea
        · cases ea
        · split at eb
          · cases eb
          · rename_i _ a3 e1 _ b3 e2
            rw [e1, e2] at h2
            cases ea; cases eb
            exact hR.commit (hR.uCommit h2)

/-! ### prune -/

theorem touchListened_sim (h : R a b) (app : String) (now : Time) :
    R (a.touchListened app now) (b.touchListened app now) := by
  unfold Sys.touchListened Sys.listeners
  rw [← hR.conns h]
  exact hR.modDb h _

theorem pruneNameplates_sim (app : String) (now : Time) (l : List Nameplate) :
    ∀ {a b a1 b1 : Sys}, R a b → a.pruneNameplates app now l = (a1, true) →
      b.pruneNameplates app now l = (b1, true) → R a1 b1 := by
  induction l with
  | nil =>
    intro a b a1 b1 h ea eb
    simp only [pruneNameplates, Prod.mk.injEq, and_true] at ea eb
    subst ea; subst eb
    exact h
  | cons np rest ih =>
    intro a b a1 b1 h ea eb
    rw [pruneNameplates_cons] at ea eb
    rw [← hR.db h] at eb
    have h1 := hR.uNp (hR.modDb h (fun d => (d.delNpSidesOf np.id).delNameplate np.id)) app
      (a.db.npSidesOf np.id) now true
    split at ea
    · cases ea
    · split at eb
      · cases eb
      · rename_i _ a2 e1 _ b2 e2
        rw [e1, e2] at h1
        exact ih h1 ea eb

theorem pruneMailboxes_sim (app : String) (now : Time) (l : List MailboxRow) :
    ∀ {a b : Sys}, R a b → R (a.pruneMailboxes app now l) (b.pruneMailboxes app now l) := by
  induction l with
  | nil => intro a b h; exact h
  | cons row rest ih =>
    intro a b h
    rw [pruneMailboxes_cons, pruneMailboxes_cons, ← hR.db h]
    exact ih (hR.uMb (hR.modDb h _) _ _ _ _ _)

/-- `AppNamespace.prune` -/
theorem prune_sim (h : R a b) {app : String} {now old : Time} {a1 b1 : Sys}
    (ea : a.prune app now old = (a1, true)) (eb : b.prune app now old = (b1, true)) : R a1 b1 := by
  rw [prune_eq, pruneRest_eq] at ea eb
  dsimp only at ea eb
  have h1 : R ((a.touchListened app now).commit) ((b.touchListened app now).commit) :=
    hR.commit (touchListened_sim hR h app now)
  rw [← hR.db h1] at eb
  split at ea
  · cases ea
  · split at eb
    · cases eb
    · rename_i _ a2 e1 _ b2 e2
      have h2 := pruneNameplates_sim hR app now _ h1 e1 e2
      have h3 := pruneMailboxes_sim hR app now
        ((((a.touchListened app now).commit).db.mailboxesOfApp app).filter (fun r => ¬ r.updated > old)) h2
      split at ea
      · rename_i hc
        rw [if_pos hc] at eb
        cases ea; cases eb
        exact hR.uCommit (hR.commit h3)
      · rename_i hc
        rw [if_neg hc] at eb
        cases ea; cases eb
        exact h3

theorem pruneApps_sim (now old : Time) (l : List String) :
    ∀ {a b a1 b1 : Sys}, R a b → a.pruneApps now old l = (a1, true) → b.pruneApps now old l = (b1, true) →
      R a1 b1 := by
  induction l with
  | nil =>
    intro a b a1 b1 h ea eb
    simp only [pruneApps, Prod.mk.injEq, and_true] at ea eb
    subst ea; subst eb
    exact h
  | cons app rest ih =>
    intro a b a1 b1 h ea eb
    unfold pruneApps at ea eb
    split at ea
    · cases ea
    · split at eb
      · cases eb
      · rename_i _ a2 e1 _ b2 e2
        exact ih (prune_sim hR h e1 e2) ea eb

/-- `expire()` up to `dump_stats`, from states whose nameplate tables are in order (so that no
    `IndexError` is caught in either run, whatever the usage option) -/
theorem expireCore_sim (h : R a b) (hn : a.db.NpOk) (now : Time) (fault : Bool) :
    R (a.expireCore now fault) (b.expireCore now fault) := by
  unfold Sys.expireCore
  dsimp only
  have h0 := hR.emit h (.fired now (now - Generated.expirationTicks))
  cases fault with
  | true => exact hR.emit h0 _
  | false =>
    simp only [Bool.false_eq_true, ↓reduceIte]
    have happs : (b.emit (.fired now (now - Generated.expirationTicks))).allApps =
        (a.emit (.fired now (now - Generated.expirationTicks))).allApps := by
      unfold Sys.allApps; rw [hR.db h0]
    rw [happs]
    cases ea : (a.emit (.fired now (now - Generated.expirationTicks))).pruneApps now
        (now - Generated.expirationTicks) (a.emit (.fired now (now - Generated.expirationTicks))).allApps with
    | mk a1 ba =>
      cases eb : (b.emit (.fired now (now - Generated.expirationTicks))).pruneApps now
          (now - Generated.expirationTicks) (a.emit (.fired now (now - Generated.expirationTicks))).allApps with
      | mk b1 bb =>
        have hnb : b.db.NpOk := by rw [← hR.db h]; exact hn
        obtain rfl : ba = true := ((pruneApps_spec _ ea).2 hn).2.1
        obtain rfl : bb = true := ((pruneApps_spec _ eb).2 hnb).2.1
        exact pruneApps_sim hR _ _ _ h0 ea eb

end

/-! ### one-run: the `Bool`s are `true` -/

theorem uNps_true {app : String} {t : Time} (l : List Nameplate) :
    ∀ {s : Sys}, (∀ n ∈ l, s.db.npSidesOf n.id ≠ []) → (s.uNps app t l).2 = true := by
  induction l with
  | nil => intro s _; rfl
  | cons np rest ih =>
    intro s hall
    unfold uNps
    have ht := s.uNp_true app t false (hall np (by simp))
    have hd := s.uNp_db app (s.db.npSidesOf np.id) t false
    cases e : s.uNp app (s.db.npSidesOf np.id) t false with
    | mk s1 b1 =>
      rw [e] at ht hd
      dsimp only at ht hd
      subst ht
      dsimp only
      apply ih
      intro n hn
      rw [hd]
      exact hall n (by simp [hn])

/-- `Mailbox.close` raises nothing when every nameplate has a side row -/
theorem mailboxClose_true (s : Sys) (app mb side : String) (mood : Option String) (t : Time)
    (hs : s.db.NpHasSide) : (s.mailboxClose app mb side mood t).2 = true := by
  rw [mailboxClose_eq]
  cases s.db.findMailbox app mb with
  | none => rfl
  | some row =>
    dsimp only
    cases s.db.findMbSide mb side with
    | none => rfl
    | some r =>
      dsimp only
      split
      · rfl
      · have := uNps_true (app := app) (t := t)
          (((s.modDb (·.closeSide mb side mood)).commit).db.nameplatesOfMailbox app mb)
          (s := (s.modDb (·.closeSide mb side mood)).commit)
          (fun n hn => by
            have hm : n ∈ (s.db.closeSide mb side mood).nameplates := by
              simpa using (List.mem_filter.1 hn).1
            simpa using npSidesOf_ne_nil (d := s.db.closeSide mb side mood) hs hm)
        split
        · rename_i e; rw [e] at this; exact absurd this (by simp)
        · rfl

/-- `release_nameplate` raises nothing -/
theorem releaseNameplate_true (s : Sys) (app name side : String) (t : Time) :
    (s.releaseNameplate app name side t).2 = true := by
  rw [releaseNameplate_eq]
  cases s.db.findNameplate app name with
  | none => rfl
  | some np =>
    dsimp only
    cases hf : s.db.findNpSide np.id side with
    | none => rfl
    | some r =>
      dsimp only
      split
      · rfl
      · have := (s.modDb (·.unclaim np.id side)).commit.modDb
            (fun d => (d.delNpSidesOf np.id).delNameplate np.id) |>.uNp_true app t false
            (sides := ((s.modDb (·.unclaim np.id side)).commit).db.npSidesOf np.id)
            (by simpa using npSidesOf_unclaim_ne_nil hf)
        split
        · rename_i e; rw [e] at this; exact absurd this (by simp)
        · rfl

end Sys
end Wormhole
