/-
  `claim_nameplate` / `handle_claim` as far as Props/C05.lean needs them: what an answer
  `claimed` guarantees about the side rows, and the exact outcome of a claim of an existing
  nameplate.
-/
import Wormhole.Inv.MbStep

namespace Wormhole
namespace Sys

/-- a successful `open_mailbox` leaves at most two side rows, one of them the caller's, and does
    not touch the nameplate tables (no invariant needed) -/
theorem openMailbox_ok_facts {s s1 : Sys} {app mb side : String} {t : Time}
    (e : s.openMailbox app mb side t = (s1, .ok)) :
    s1.db.npPart = s.db.npPart ∧ (s1.db.mbSidesOf mb).length ≤ 2 ∧ side ∈ s1.db.sidesOf mb := by
  obtain ⟨d, _, _⟩ := openMailbox_spec e
  refine ⟨d.np, ?_⟩
  unfold openMailbox at e
  split at e
  · cases e
  · rename_i s0 e0
    dsimp only at e
    split at e
    · cases e
    · rename_i hlen
      simp only [Prod.mk.injEq, and_true] at e
      subst e
      refine ⟨by omega, ?_⟩
      simp only [commit_db, mailboxOpen_db]
      show side ∈ Chan.sidesOf _ mb
      cases hs : s0.db.findMbSide mb side with
      | none =>
        simp [Chan.sidesOf, Chan.mbSidesOf, Chan.touch, Chan.insMbSide]
      | some r =>
        obtain ⟨hr, h1, h2⟩ := Chan.findMbSide_some_mbx hs
        simp only [Chan.sidesOf, Chan.mbSidesOf, Chan.touch, List.mem_map, List.mem_filter, decide_eq_true_eq]
        exact ⟨r, ⟨hr, h1⟩, h2⟩

theorem claimCont_ok {s s1 : Sys} {app : String} {npid : Nat} {mb side : String} {t : Time} {mb' : String}
    (h : claimCont s app npid mb side t = (s1, .ok mb')) :
    mb' = mb ∧ s1.db.npPart = s.db.npPart ∧ (s1.db.npSidesOf npid).length ≤ 2 ∧
    (s1.db.mbSidesOf mb).length ≤ 2 ∧ side ∈ s1.db.sidesOf mb := by
  unfold claimCont at h
  dsimp only at h
  split at h
  · cases h
  · cases h
  · rename_i s3 e
    split at h
    · cases h
    · rename_i hlen
      simp only [Prod.mk.injEq, ClaimRes.ok.injEq] at h
      obtain ⟨rfl, rfl⟩ := h
      obtain ⟨h1, h2, h3⟩ := openMailbox_ok_facts e
      exact ⟨rfl, by rw [h1]; simp, by omega, h2, h3⟩

/-- what an answer `claimed mb'` to side `side` for nameplate (app, name) guarantees about the
    database: the nameplate row exists and points at `mb'`, the side is among the nameplate's at
    most two side rows and among the at most two side rows of the mailbox -/
def _root_.Wormhole.Chan.ClaimedFacts (d : Chan) (app name side mb' : String) : Prop :=
  ∃ n ∈ d.nameplates, n.app = app ∧ n.name = name ∧ n.mailbox = mb' ∧
    side ∈ d.npSideNames n.id ∧ (d.npSidesOf n.id).length ≤ 2 ∧
    side ∈ d.sidesOf mb' ∧ (d.mbSidesOf mb').length ≤ 2

/-- **what `claimed` guarantees** (no invariant needed) -/
theorem claimNameplate_ok {s s1 : Sys} {app name side : String} {t : Time} {fresh mb' : String}
    (h : s.claimNameplate app name side t fresh = (s1, .ok mb')) :
    s1.db.ClaimedFacts app name side mb' := by
  unfold claimNameplate at h
  split at h
  · split at h
    · cases h
    · rename_i s0 e0
      dsimp only at h
      rw [claimTail_eq] at h
      have key : ∀ {s2 : Sys}, s2.db.nameplates = s0.db.nameplates ++ [⟨s0.db.nextNp, app, name, fresh⟩] →
          (∃ r ∈ s2.db.npSides, r.npid = s0.db.nextNp ∧ r.side = side) →
          claimCont s2 app s0.db.nextNp fresh side t = (s1, .ok mb') →
          s1.db.ClaimedFacts app name side mb' := by
        intro s2 hnp hsd hc
        obtain ⟨rfl, hpart, h2, h3, h4⟩ := claimCont_ok hc
        simp only [Chan.npPart, Prod.mk.injEq] at hpart
        refine ⟨⟨s0.db.nextNp, app, name, mb'⟩, by rw [hpart.1, hnp]; simp, rfl, rfl, rfl, ?_, h2, h4, h3⟩
        obtain ⟨r, hr, e1, e2⟩ := hsd
        simp only [Chan.npSideNames, Chan.npSidesOf, List.mem_map, List.mem_filter, decide_eq_true_eq]
        exact ⟨r, ⟨by rw [hpart.2.1]; exact hr, e1⟩, e2⟩
      split at h
      · refine key ?_ ?_ h
        · rfl
        · exact ⟨⟨s0.db.nextNp, true, side, t⟩, by simp [Chan.insNpSide], rfl, rfl⟩
      · rename_i r hr
        have hr' := List.find?_some hr
        simp only [decide_eq_true_eq] at hr'
        split at h
        · refine key ?_ ?_ h
          · rfl
          · exact ⟨r, List.mem_of_find?_eq_some hr, hr'.1, hr'.2⟩
        · cases h
  · rename_i row hrow
    have hmem : row ∈ s.db.nameplates := List.mem_of_find?_eq_some hrow
    have hk := List.find?_some hrow
    simp only [decide_eq_true_eq] at hk
    rw [claimTail_eq] at h
    have key : ∀ {s2 : Sys}, s2.db.nameplates = s.db.nameplates →
        (∃ r ∈ s2.db.npSides, r.npid = row.id ∧ r.side = side) →
        claimCont s2 app row.id row.mailbox side t = (s1, .ok mb') →
        s1.db.ClaimedFacts app name side mb' := by
      intro s2 hnp hsd hc
      obtain ⟨rfl, hpart, h2, h3, h4⟩ := claimCont_ok hc
      simp only [Chan.npPart, Prod.mk.injEq] at hpart
      refine ⟨row, by rw [hpart.1, hnp]; exact hmem, hk.1, hk.2, rfl, ?_, h2, h4, h3⟩
      obtain ⟨r, hr, e1, e2⟩ := hsd
      simp only [Chan.npSideNames, Chan.npSidesOf, List.mem_map, List.mem_filter, decide_eq_true_eq]
      exact ⟨r, ⟨by rw [hpart.2.1]; exact hr, e1⟩, e2⟩
    split at h
    · refine key ?_ ?_ h
      · rfl
      · exact ⟨⟨row.id, true, side, t⟩, by simp [Chan.insNpSide], rfl, rfl⟩
    · rename_i r hr
      have hr' := List.find?_some hr
      simp only [decide_eq_true_eq] at hr'
      split at h
      · refine key ?_ ?_ h
        · rfl
        · exact ⟨r, List.mem_of_find?_eq_some hr, hr'.1, hr'.2⟩
      · cases h

/-- the continuation of a claim when the mailbox then has more than two side rows: `crowded`,
    and the database is the one `open_mailbox` leaves -/
theorem claimCont_crowded {s s1 : Sys} {app : String} {npid : Nat} {mb side : String} {t : Time}
    {r : ClaimRes} (hids : s.db.mailboxes.Pairwise (fun a b => ¬ a.id = b.id)) (hmb : s.db.HasBox app mb)
    (hlen : ((s.db.openDb app mb side t).mbSidesOf mb).length > 2)
    (h : claimCont s app npid mb side t = (s1, r)) :
    r = .crowded ∧ s1.db = s.db.openDb app mb side t ∧ s1.conns = s.conns := by
  unfold claimCont at h
  dsimp only at h
  have hnc : ¬ s.db.Clash app mb := fun hc => hc.2 hmb
  cases e : s.commit.openMailbox app mb side t with
  | mk s3 r0 =>
    rw [e] at h
    obtain ⟨hint, _, hne, hcrowd⟩ := openMailbox_exact' (s := s.commit) (by rw [commit_db]; exact hids) e
    rw [commit_db] at hint hne hcrowd
    have hr0 : r0 = .crowded := hcrowd.2 ⟨hnc, hlen⟩
    subst hr0
    dsimp only at h
    simp only [Prod.mk.injEq] at h
    obtain ⟨rfl, rfl⟩ := h
    obtain ⟨hdb, _, hrest⟩ := hne (by simp)
    exact ⟨rfl, hdb, by rw [hrest.conns, commit_conns]⟩

/-- **a claim of an existing nameplate whose mailbox would then have more than two side rows** is
    refused: `crowded` -- or `reclaimed` if this side had released the nameplate before (then
    nothing changes at all) -/
theorem claimNameplate_crowded {s s1 : Sys} {app name side : String} {t : Time} {fresh : String}
    {r : ClaimRes} {row : Nameplate}
    (hids : s.db.mailboxes.Pairwise (fun a b => ¬ a.id = b.id))
    (hrow : s.db.findNameplate app name = some row) (hmb : s.db.HasBox app row.mailbox)
    (hlen : ((s.db.openDb app row.mailbox side t).mbSidesOf row.mailbox).length > 2)
    (h : s.claimNameplate app name side t fresh = (s1, r)) :
    ((∃ r0, s.db.findNpSide row.id side = some r0 ∧ r0.claimed = false) → r = .reclaimed ∧ s1 = s) ∧
    ((¬ ∃ r0, s.db.findNpSide row.id side = some r0 ∧ r0.claimed = false) →
      r = .crowded ∧ s1.conns = s.conns ∧
      s1.db.mailboxes = (s.db.openDb app row.mailbox side t).mailboxes ∧
      s1.db.mbSides = (s.db.openDb app row.mailbox side t).mbSides ∧
      s1.db.messages = s.db.messages ∧ s1.db.nameplates = s.db.nameplates ∧
      s1.db.npSides = s.db.npSides ++
        (if s.db.findNpSide row.id side = none then [⟨row.id, true, side, t⟩] else [])) := by
  unfold claimNameplate at h
  rw [hrow] at h
  dsimp only at h
  rw [claimTail_eq] at h
  cases hs : s.db.findNpSide row.id side with
  | none =>
    rw [hs] at h
    dsimp only at h
    refine ⟨(fun ⟨r0, h0, _⟩ => by cases h0), fun _ => ?_⟩
    obtain ⟨h1, h2, h3⟩ := claimCont_crowded (s := s.modDb (·.insNpSide ⟨row.id, true, side, t⟩))
      hids hmb hlen h
    refine ⟨h1, h3, ?_, ?_, ?_, ?_, ?_⟩ <;> rw [h2] <;> simp [Chan.openDb, Chan.insNpSide] <;> rfl
  | some r0 =>
    rw [hs] at h
    dsimp only at h
    by_cases hcl : r0.claimed = true
    · rw [if_pos hcl] at h
      refine ⟨(fun ⟨r1, h1, h2⟩ => by cases h1; rw [hcl] at h2; cases h2), fun _ => ?_⟩
      obtain ⟨h1, h2, h3⟩ := claimCont_crowded hids hmb hlen h
      refine ⟨h1, h3, ?_, ?_, ?_, ?_, ?_⟩ <;> rw [h2] <;> simp [Chan.openDb]
    · rw [if_neg hcl] at h
      simp only [Prod.mk.injEq] at h
      obtain ⟨rfl, rfl⟩ := h
      refine ⟨fun _ => ⟨rfl, rfl⟩, fun hno => absurd ⟨r0, rfl, by simpa using hcl⟩ hno⟩

/-! ### `handle_claim` -/

theorem claim_accepted {x : Conn} {n : Option String} {fresh : String} (hr : rejectText x (.claim n fresh) = none) :
    (∃ app, x.app = some app) ∧ x.didClaim = false ∧ ∃ name, n = some name := by
  obtain ⟨happ, h⟩ := needBind_eq_none hr
  cases n with
  | none => simp at h
  | some name =>
    refine ⟨happ, ?_, name, rfl⟩
    cases hd : x.didClaim <;> simp_all

/-- the answer to a `claim`, by the result of `claim_nameplate` -/
def claimAnswer (c : Nat) : ClaimRes → Event
  | .ok mb => .frame c (.claimed mb) true
  | .crowded => .frame c (.error "crowded") true
  | .reclaimed => .frame c (.error "reclaimed") true
  | .integrity => .internal (some c) "IntegrityError"

/-- **`claim`, the whole step** (validation passed): the output is `ack, commits, answer`, the
    state is what `claim_nameplate` left; no connection gains or loses a handle or a subscription -/
theorem claim_step {s : Sys} (hP : s.db.PInv) (hS : s.Synced)
    {c : Nat} {x : Conn} (hx : s.findConn c = some x) {name fresh : String}
    (hr : rejectText x (.claim (some name) fresh) = none) {app : String} (happ : x.app = some app)
    (t : Time) (id : Val) :
    ∃ s1 r, (((({ s with out := [], snaps := [] } : Sys).send c (.ack id)).updConn c
        (fun y => { y with didClaim := true, nameplateId := some name })).claimNameplate app name
          (x.side.getD "") t fresh) = (s1, r) ∧
      (∃ commits, (∀ e ∈ commits, IsCommit e) ∧ (s.step (.recv c t id (.claim (some name) fresh))).out =
        .frame c (.ack id) true :: (commits ++ [claimAnswer c r])) ∧
      (s.step (.recv c t id (.claim (some name) fresh))).db = s1.db ∧
      (s.step (.recv c t id (.claim (some name) fresh))).Synced ∧
      (s.step (.recv c t id (.claim (some name) fresh))).conns = s1.conns := by
  have hid : x.id = c := findConn_id hx
  obtain ⟨_, hdc, _⟩ := claim_accepted hr
  have hsy : s.synced = true := (synced_iff s).2 hS
  have hstep : s.step (.recv c t id (.claim (some name) fresh)) =
      (({ s with out := [], snaps := [] } : Sys).send c (.ack id)).handleClaim x app (x.side.getD "") t (some name) fresh := by
    rw [step_recv]
    unfold onMessage
    have : ({ s with out := [], snaps := [] } : Sys).findConn c = some x := hx
    simp only [this, happ]
  rw [hstep]
  generalize hA : (({ s with out := [], snaps := [] } : Sys).send c (.ack id)) = sA
  have hAout : sA.out = [.frame c (.ack id) true] := by rw [← hA, ← hsy]; rfl
  have hAdb : sA.db = s.db := by rw [← hA]; rfl
  have hAdisk : sA.disk = s.disk := by rw [← hA]; rfl
  have hAudb : sA.udb = s.udb := by rw [← hA]; rfl
  have hAudisk : sA.udisk = s.udisk := by rw [← hA]; rfl
  unfold handleClaim
  simp only [hdc, Bool.false_eq_true, if_false, hid]
  cases e : (sA.updConn c (fun y => { y with didClaim := true, nameplateId := some name })).claimNameplate app name
      (x.side.getD "") t fresh with
  | mk s1 r =>
    refine ⟨s1, r, rfl, ?_⟩
    obtain ⟨q, _, hd⟩ := claimNameplate_spec e (by show sA.db.IdsBounded; rw [hAdb]; exact hP.bounded)
    have hsync1 : s1.Synced := by
      refine ⟨hd (by show sA.db = sA.disk; rw [hAdb, hAdisk]; exact hS.1), ?_⟩
      rw [q.udb, q.udisk]; show sA.udb = sA.udisk; rw [hAudb, hAudisk]; exact hS.2
    have hcx := CExt.claimNameplate (OutExt.refl (s := sA.updConn c (fun y => { y with didClaim := true, nameplateId := some name })))
      (app := app) (name := name) (side := x.side.getD "") (t := t) (fresh := fresh)
    rw [e] at hcx
    obtain ⟨commits, hout, hc⟩ := hcx
    dsimp only at hout
    simp only [updConn_out, hAout] at hout
    have hsy1 : s1.synced = true := (synced_iff _).2 hsync1
    cases r with
    | ok mb =>
      refine ⟨⟨commits, hc, ?_⟩, rfl, hsync1, rfl⟩
      show s1.out ++ [.frame c (.claimed mb) s1.synced] = _
      rw [hsy1, hout]; simp [claimAnswer]
    | crowded =>
      refine ⟨⟨commits, hc, ?_⟩, rfl, hsync1, rfl⟩
      show s1.out ++ [.frame c (.error "crowded") s1.synced] = _
      rw [hsy1, hout]; simp [claimAnswer]
    | reclaimed =>
      refine ⟨⟨commits, hc, ?_⟩, rfl, hsync1, rfl⟩
      show s1.out ++ [.frame c (.error "reclaimed") s1.synced] = _
      rw [hsy1, hout]; simp [claimAnswer]
    | integrity =>
      refine ⟨⟨commits, hc, ?_⟩, rfl, hsync1, rfl⟩
      show s1.out ++ [.internal (some c) "IntegrityError"] = _
      rw [hout]; simp [claimAnswer]

/-- `claim_nameplate` never touches connection records -/
theorem claimNameplate_conns_mbx (s : Sys) (app name side : String) (t : Time) (fresh : String) :
    (s.claimNameplate app name side t fresh).1.conns = s.conns := by
  have hC : ClosedG (fun s' : Sys => s'.conns = s.conns) :=
    { emit := fun _ _ _ h => h
      modUdb := fun _ _ h => h
      commit := fun s' h => by rw [commit_conns]; exact h
      ucommit := fun s' h => by rw [ucommit_conns]; exact h
      grow := fun _ _ _ h => h }
  exact hC.claimNameplate rfl app name side t fresh

end Sys
end Wormhole
