/-
  C14 (re-sending an acknowledged command), part 1: the relational facts.

  Each statement says that one of the SQL statements of server.py changes nothing when it is
  executed a second time with the same arguments on the database the first execution left:
  `touch` re-stamps the same time, `unclaim` / `closeSide` rewrite the same values, the composite
  `openDb` (Inv/MbSpec.lean: what `open_mailbox` does) is idempotent.
-/
import Wormhole.Inv.MbClaim
import Wormhole.Inv.NpFacts

namespace Wormhole
namespace Chan

/-- `find?` through a `map` that does not change the key -/
theorem dup_find?_map {α : Type} (f : α → α) (p : α → Bool) (h : ∀ x, p (f x) = p x) (l : List α) :
    (l.map f).find? p = (l.find? p).map f := by
  induction l with
  | nil => rfl
  | cons x l ih =>
    simp only [List.map_cons, List.find?_cons, h]
    split
    · rfl
    · exact ih

/-! ### `touch` -/

/-- `UPDATE mailboxes SET updated=t WHERE id=m` on rows that already carry `t` -/
theorem touch_eq_self {d : Chan} {m : String} {t : Time}
    (h : ∀ r ∈ d.mailboxes, r.id = m → r.updated = t) : d.touch m t = d := by
  have e : d.mailboxes.map (fun r => if r.id = m then { r with updated := t } else r) = d.mailboxes := by
    apply map_eq_self
    intro r hr
    by_cases hc : r.id = m
    · have := h r hr hc
      rw [if_pos hc]
      cases r
      simp_all
    · rw [if_neg hc]
  unfold touch
  rw [e]

theorem touch_touch (d : Chan) (m : String) (t : Time) : (d.touch m t).touch m t = d.touch m t := by
  apply touch_eq_self
  intro r hr hid
  simp only [touch, List.mem_map] at hr
  obtain ⟨r0, _, rfl⟩ := hr
  by_cases hc : r0.id = m
  · simp [hc]
  · rw [if_neg hc] at hid
    exact absurd hid hc

/-- the tables other than `mailboxes` are not touched by `touch` -/
theorem touch_other (d : Chan) (m : String) (t : Time) :
    (d.touch m t).nameplates = d.nameplates ∧ (d.touch m t).npSides = d.npSides ∧
    (d.touch m t).mbSides = d.mbSides ∧ (d.touch m t).messages = d.messages ∧
    (d.touch m t).nextNp = d.nextNp := ⟨rfl, rfl, rfl, rfl, rfl⟩

/-! ### `openDb` -/

/-- after `open_mailbox(app, mb, side, t)` the row (app, mb) carries `updated = t` -/
theorem openDb_updated (d : Chan) (app mb side : String) (t : Time) :
    ∀ r ∈ (d.openDb app mb side t).mailboxes, r.app = app → r.id = mb → r.updated = t := by
  intro r hr ha hi
  unfold openDb at hr
  cases hm : d.findMailbox app mb with
  | some row =>
    simp only [hm, List.mem_map] at hr
    obtain ⟨r0, _, rfl⟩ := hr
    by_cases hc : r0.app = app ∧ r0.id = mb
    · simp [hc]
    · rw [if_neg hc] at ha hi
      exact absurd ⟨ha, hi⟩ hc
  | none =>
    simp only [hm, List.mem_append, List.mem_singleton] at hr
    rcases hr with hr | rfl
    · exact absurd ⟨r, hr, ha, hi⟩ (findMailbox_eq_none.1 hm)
    · rfl

/-- `open_mailbox` on a database in which the mailbox row exists and is stamped `t` and the side
    row exists changes nothing -/
theorem openDb_eq_self {d : Chan} {app mb side : String} {t : Time} (h1 : d.HasBox app mb)
    (h2 : d.findMbSide mb side ≠ none)
    (h3 : ∀ r ∈ d.mailboxes, r.app = app → r.id = mb → r.updated = t) :
    d.openDb app mb side t = d := by
  obtain ⟨row, hrow⟩ : ∃ row, d.findMailbox app mb = some row := by
    cases hf : d.findMailbox app mb with
    | some row => exact ⟨row, rfl⟩
    | none => exact absurd h1 (findMailbox_eq_none.1 hf)
  obtain ⟨sr, hsr⟩ : ∃ sr, d.findMbSide mb side = some sr := by
    cases hf : d.findMbSide mb side with
    | some sr => exact ⟨sr, rfl⟩
    | none => exact absurd hf h2
  have e : d.mailboxes.map (fun r => if r.app = app ∧ r.id = mb then { r with updated := t } else r) =
      d.mailboxes := by
    apply map_eq_self
    intro r hr
    by_cases hc : r.app = app ∧ r.id = mb
    · have := h3 r hr hc.1 hc.2
      rw [if_pos hc]
      cases r
      simp_all
    · rw [if_neg hc]
  unfold openDb
  simp only [hrow, hsr, e]

/-- **`open_mailbox` twice = once** (same side, same time; no invariant needed) -/
theorem openDb_idem (d : Chan) (app mb side : String) (t : Time) :
    (d.openDb app mb side t).openDb app mb side t = d.openDb app mb side t :=
  openDb_eq_self (openDb_hasBox d app mb side t) (openDb_findMbSide_ne_none d app mb side t)
    (openDb_updated d app mb side t)

/-- with unique mailbox ids, the stamp `openDb` puts on row (app, mb) is `touch mb` -/
theorem openDb_eq_touch {d : Chan} (hids : d.mailboxes.Pairwise (fun a b => ¬ a.id = b.id))
    {app mb side : String} {t : Time} (h1 : d.HasBox app mb) (h2 : d.findMbSide mb side ≠ none) :
    d.openDb app mb side t = d.touch mb t := by
  obtain ⟨row, hrow⟩ : ∃ row, d.findMailbox app mb = some row := by
    cases hf : d.findMailbox app mb with
    | some row => exact ⟨row, rfl⟩
    | none => exact absurd h1 (findMailbox_eq_none.1 hf)
  obtain ⟨sr, hsr⟩ : ∃ sr, d.findMbSide mb side = some sr := by
    cases hf : d.findMbSide mb side with
    | some sr => exact ⟨sr, rfl⟩
    | none => exact absurd hf h2
  have e : d.mailboxes.map (fun r => if r.app = app ∧ r.id = mb then { r with updated := t } else r) =
      d.mailboxes.map (fun r => if r.id = mb then { r with updated := t } else r) := by
    apply List.map_congr_left
    intro r hr
    by_cases hid : r.id = mb
    · simp [hid, app_of_id hids h1 hr hid]
    · simp [hid]
  unfold openDb touch
  simp only [hrow, hsr, e]

/-! ### `unclaim` -/

theorem unclaim_unclaim (d : Chan) (i : Nat) (σ : String) : (d.unclaim i σ).unclaim i σ = d.unclaim i σ := by
  have e : (d.npSides.map (fun r => if r.npid = i ∧ r.side = σ then { r with claimed := false } else r)).map
      (fun r => if r.npid = i ∧ r.side = σ then { r with claimed := false } else r) =
      d.npSides.map (fun r => if r.npid = i ∧ r.side = σ then { r with claimed := false } else r) := by
    rw [List.map_map]
    apply List.map_congr_left
    intro r _
    by_cases h : r.npid = i ∧ r.side = σ <;> simp [h]
  unfold unclaim
  simp only [e]

theorem findNpSide_unclaim (d : Chan) (i : Nat) (σ : String) (j : Nat) (τ : String) :
    (d.unclaim i σ).findNpSide j τ =
      (d.findNpSide j τ).map (fun r => if r.npid = i ∧ r.side = σ then { r with claimed := false } else r) := by
  unfold findNpSide unclaim
  apply dup_find?_map
  intro x
  split <;> rfl

theorem npSidesOf_unclaim_unclaim (d : Chan) (i : Nat) (σ : String) (j : Nat) :
    ((d.unclaim i σ).unclaim i σ).npSidesOf j = (d.unclaim i σ).npSidesOf j := by
  rw [unclaim_unclaim]

/-! ### `closeSide` -/

/-- `UPDATE mailbox_sides SET opened=0, mood=?` on a row that already says so -/
theorem closeSide_eq_self {d : Chan} {m σ : String} {mood : Option String}
    (h : ∀ r ∈ d.mbSides, r.mailbox = m → r.side = σ → r.opened = false ∧ r.mood = mood) :
    d.closeSide m σ mood = d := by
  have e : d.mbSides.map (fun r => if r.mailbox = m ∧ r.side = σ then { r with opened := false, mood := mood } else r) =
      d.mbSides := by
    apply map_eq_self
    intro r hr
    by_cases hc : r.mailbox = m ∧ r.side = σ
    · have := h r hr hc.1 hc.2
      rw [if_pos hc]
      cases r
      simp_all
    · rw [if_neg hc]
  unfold closeSide
  rw [e]

/-- the rows of (m, σ) after `closeSide` -/
theorem closeSide_closed (d : Chan) (m σ : String) (mood : Option String) :
    ∀ r ∈ (d.closeSide m σ mood).mbSides, r.mailbox = m → r.side = σ → r.opened = false ∧ r.mood = mood := by
  intro r hr h1 h2
  simp only [closeSide, List.mem_map] at hr
  obtain ⟨r0, _, rfl⟩ := hr
  by_cases hc : r0.mailbox = m ∧ r0.side = σ
  · simp [hc]
  · rw [if_neg hc] at h1 h2
    exact absurd ⟨h1, h2⟩ hc

theorem closeSide_touch (d : Chan) (m σ : String) (mood : Option String) (m' : String) (t : Time) :
    (d.touch m' t).closeSide m σ mood = (d.closeSide m σ mood).touch m' t := rfl

theorem closeSide_otherOpen {d : Chan} {m σ : String} {mood : Option String} :
    (d.closeSide m σ mood).OtherOpen m σ ↔ d.OtherOpen m σ := by
  unfold OtherOpen
  constructor
  · rintro ⟨r, hr, h1, h2, h3⟩
    rcases mem_closeSide_mbSides.1 hr with ⟨h0, _⟩ | ⟨r0, _, _, h5, rfl⟩
    · exact ⟨r, h0, h1, h2, h3⟩
    · exact absurd h5 h2
  · rintro ⟨r, hr, h1, h2, h3⟩
    exact ⟨r, mem_closeSide_mbSides.2 (Or.inl ⟨hr, fun hk => h2 hk.2⟩), h1, h2, h3⟩

theorem closeSide_findMbSide_ne_none {d : Chan} {m σ : String} {mood : Option String} {m' σ' : String} :
    (d.closeSide m σ mood).findMbSide m' σ' ≠ none ↔ d.findMbSide m' σ' ≠ none := by
  have : (d.closeSide m σ mood).findMbSide m' σ' =
      (d.findMbSide m' σ').map (fun r => if r.mailbox = m ∧ r.side = σ then { r with opened := false, mood := mood } else r) := by
    unfold findMbSide closeSide
    apply dup_find?_map
    intro x
    split <;> rfl
  rw [this]
  cases d.findMbSide m' σ' <;> simp

theorem closeSide_mbSidesOf_length (d : Chan) (m σ : String) (mood : Option String) (m' : String) :
    ((d.closeSide m σ mood).mbSidesOf m').length = (d.mbSidesOf m').length := by
  have := closeSide_sidesOf d m σ mood m'
  have h1 : ((d.closeSide m σ mood).sidesOf m').length = (d.sidesOf m').length := by rw [this]
  simpa [sidesOf] using h1

end Chan
end Wormhole
