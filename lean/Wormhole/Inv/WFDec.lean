/-
  An executable check of well-formedness (`GSys.WFOp`, `GSys.WF` of Reach.lean), sound by
  `wfOpB_sound` / `wfB_sound`: lets concrete histories be shown well-formed (hence their states
  reachable) by `decide`.  Used by the non-vacuity examples of the property files.
-/
import Wormhole.Reach

namespace Wormhole
namespace GSys

/-- no live connection has the id a `connect` brings -/
def connFreshB (g : GSys) : Op → Bool
  | .connect c => g.sys.conns.all (fun x => x.id != c)
  | _ => true

def wfOpB (g : GSys) (op : Op) : Bool :=
  g.connFreshB op &&
  (match op.time? with | some t => decide (g.clock ≤ t) | none => true) &&
  (match op.fresh? with | some f => !(g.used.contains f) | none => true) &&
  (match op with | .crashIn _ op' => !op'.isCrash && g.connFreshB op' | _ => true)

theorem connFreshB_sound {g : GSys} {op : Op} (h : g.connFreshB op = true) :
    ∀ c, op = .connect c → ∀ x ∈ g.sys.conns, x.id ≠ c := by
  intro c e x hx
  subst e
  simp only [connFreshB, List.all_eq_true, bne_iff_ne, ne_eq] at h
  exact h x hx

theorem wfOpB_sound {g : GSys} {op : Op} (h : g.wfOpB op = true) : g.WFOp op := by
  simp only [wfOpB, Bool.and_eq_true] at h
  obtain ⟨⟨⟨h1, h2⟩, h3⟩, h4⟩ := h
  refine ⟨connFreshB_sound h1, ?_, ?_, ?_⟩
  · intro t e
    rw [e] at h2
    simpa using h2
  · intro f e
    rw [e] at h3
    simpa using h3
  · intro k op' e
    subst e
    simp only [Bool.and_eq_true, Bool.not_eq_eq_eq_not, Bool.not_true] at h4
    exact ⟨h4.1, connFreshB_sound h4.2⟩

def wfB (g : GSys) : List Op → Bool
  | [] => true
  | op :: rest => g.wfOpB op && wfB (g.step op) rest

theorem wfB_sound : ∀ {ops : List Op} {g : GSys}, g.wfB ops = true → g.WF ops := by
  intro ops
  induction ops with
  | nil => intro g _; trivial
  | cons op rest ih =>
    intro g h
    simp only [wfB, Bool.and_eq_true] at h
    exact ⟨wfOpB_sound h.1, ih h.2⟩

/-- a concrete history that passes the check leads to a reachable state -/
theorem reach_of_wfB (cfg : Cfg) (rb : Time) (ops : List Op) (h : (GSys.init cfg rb).wfB ops = true) :
    ((GSys.init cfg rb).run ops).Reach :=
  reach_run (.init cfg rb) ops (wfB_sound h)

end GSys
end Wormhole
