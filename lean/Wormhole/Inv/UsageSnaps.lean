/-
  The base of an accepted `close` (`Sys.usageBase`) comes from a COMMIT POINT of the step:
  it is `D.closeSide tgt σ mood` where `D` is the channel database before the step or the channel
  database of one of the snapshots the step takes (`Sys.snaps`: the states a crash can leave) --
  namely the one committed by the implicit `open_mailbox`.  So "a mailbox retired by the step" =
  "a mailbox row present before the step or at a commit point inside it, and absent after it";
  in particular a `close` on an id that does not exist creates the row, commits, closes it, deletes
  it and writes ONE usage record for an object that is in neither the pre- nor the post-state.
-/
import Wormhole.Inv.UsageStep

namespace Wormhole
namespace Sys

/-- snapshots are never dropped inside a step -/
theorem uclosed_snapsMono (c0 : Cfg) (S0 : List (Chan × Usage)) :
    UClosed c0 (fun s => s.cfg = c0 ∧ ∀ p ∈ S0, p ∈ s.snaps) where
  cfg := fun _ h => h.1
  emit := fun _ _ h => h
  commit := fun s h => by
    refine ⟨by rw [commit_cfg]; exact h.1, fun p hp => ?_⟩
    unfold commit; split
    · exact h.2 p hp
    · exact List.mem_append_left _ (h.2 p hp)
  ucommit := fun s h => by
    refine ⟨by rw [ucommit_cfg]; exact h.1, fun p hp => ?_⟩
    unfold ucommit; split
    · exact h.2 p hp
    · exact List.mem_append_left _ (h.2 p hp)
  modDb := fun _ _ h => h
  conns := fun _ _ h => h
  storeNp := fun _ s app sides t p h => by unfold storeNameplateUsage; split <;> exact h
  storeMb := fun _ _ _ _ _ _ _ h => h
  client := fun _ _ _ _ _ _ _ h => h
  current := fun _ _ _ h => h

/-- the committed channel database is the one the step started with or one of its snapshots -/
theorem uclosed_diskSeen (c0 : Cfg) (D0 : Chan) :
    UClosed c0 (fun s => s.cfg = c0 ∧ (s.disk = D0 ∨ ∃ p ∈ s.snaps, p.1 = s.disk)) where
  cfg := fun _ h => h.1
  emit := fun _ _ h => h
  commit := fun s h => by
    refine ⟨by rw [commit_cfg]; exact h.1, ?_⟩
    unfold commit; split
    · exact h.2
    · exact Or.inr ⟨(s.db, s.udisk), by simp, rfl⟩
  ucommit := fun s h => by
    refine ⟨by rw [ucommit_cfg]; exact h.1, ?_⟩
    unfold ucommit; split
    · exact h.2
    · exact Or.inr ⟨(s.disk, s.udb), by simp, rfl⟩
  modDb := fun _ _ h => h
  conns := fun _ _ h => h
  storeNp := fun _ s app sides t p h => by unfold storeNameplateUsage; split <;> exact h
  storeMb := fun _ _ _ _ _ _ _ h => h
  client := fun _ _ _ _ _ _ _ h => h
  current := fun _ _ _ h => h

/-- **where the base of a `close` comes from** -/
theorem usageBase_commit_point {s : Sys} (hP : s.db.PInv) (hS : s.Synced)
    {c : Nat} {x : Conn} (hx : s.findConn c = some x) {m mood : Option String}
    (hr : rejectText x (.close m mood) = none) {app : String} (happ : x.app = some app)
    {tgt : String} (htg : x.closeTarget m = some tgt) (t : Time) (id : Val) :
    s.usageBase (.recv c t id (.close m mood)) = s.db ∨
    ∃ D : Chan, (D = s.db ∨ ∃ p ∈ (s.step (.recv c t id (.close m mood))).snaps, p.1 = D) ∧
      D.nameplates = s.db.nameplates ∧ D.npSides = s.db.npSides ∧
      s.usageBase (.recv c t id (.close m mood)) = D.closeSide tgt (x.side.getD "") mood := by
  by_cases hcl : x.mailbox = none ∧ s.db.Clash app tgt
  · left
    simp [usageBase, hx, happ, htg, hr, hcl]
  · right
    have hB : s.usageBase (.recv c t id (.close m mood)) =
        (closePre s x app tgt t).closeSide tgt (x.side.getD "") mood := by
      simp [usageBase, hx, happ, htg, hr, hcl]
    refine ⟨closePre s x app tgt t, ?_, closePre_nameplates _ _ _ _ _, closePre_npSides _ _ _ _ _, hB⟩
    cases hh : x.mailbox with
    | some h => left; simp [closePre, hh]
    | none =>
      obtain ⟨_, _, ⟨mb, hn⟩, _⟩ := close_accepted hr
      have htgt : mb = tgt := by
        simp only [Conn.closeTarget, hh] at htg
        rw [hn] at htg; cases htg; rfl
      subst htgt
      have hpre : closePre s x app mb t = s.db.openDb app mb (x.side.getD "") t := by simp [closePre, hh]
      rw [hpre, step_close_eq hx hr happ hn]
      generalize hA : (({ s with out := [], snaps := [] } : Sys).send c (.ack id)) = sA
      have hAdb : sA.db = s.db := by rw [← hA]; rfl
      have hAdisk : sA.disk = s.disk := by rw [← hA]; rfl
      have hAcfg : sA.cfg = s.cfg := by rw [← hA]; rfl
      have hseen := (uclosed_diskSeen s.cfg s.db).openMailbox (s := sA)
        ⟨hAcfg, Or.inl (by rw [hAdisk]; exact hS.1.symm)⟩ app mb (x.side.getD "") t
      cases e : sA.openMailbox app mb (x.side.getD "") t with
      | mk s1 r =>
        rw [e] at hseen
        obtain ⟨hint, _, hne, _⟩ := openMailbox_exact (by rw [hAdb]; exact hP) e
        rw [hAdb] at hint hne
        have hnint : r ≠ .integrity := fun hri => hcl ⟨hh, hint.1 hri⟩
        obtain ⟨hdb, hdisk, _⟩ := hne hnint
        rcases hseen.2 with h0 | ⟨p, hp, hpd⟩
        · left; rw [← hdb, ← hdisk]; exact h0
        · right
          have hmono := uclosed_snapsMono s.cfg s1.snaps
          have h1 : s1.cfg = s.cfg ∧ ∀ p ∈ s1.snaps, p ∈ s1.snaps := ⟨hseen.1, fun _ h => h⟩
          refine ⟨p, ?_, by rw [hpd, hdisk, hdb]⟩
          simp only [closeGo, hh, e]
          cases r with
          | integrity => exact absurd rfl hnint
          | crowded => exact hp
          | ok =>
            simp only [if_true]
            have h2 := hmono.mailboxClose
              (s := (s1.updConn x.id (fun y => { y with mailbox := some mb })).updConn x.id
                (fun y => { y with listening := false, didClose := true }))
              (hmono.updConn (hmono.updConn h1 _ _) _ _) app mb (x.side.getD "") mood t
            cases e2 : ((s1.updConn x.id (fun y => { y with mailbox := some mb })).updConn x.id
                (fun y => { y with listening := false, didClose := true })).mailboxClose
                app mb (x.side.getD "") mood t with
            | mk s3 b =>
              rw [e2] at h2
              cases b <;> exact h2.2 p hp

end Sys
end Wormhole
