/-
  A small imperative language for the methods of `Mailbox` / `AppNamespace` in server.py that are straight-line code
  over SQL statements, and its meaning on the model's state.

  `harness/translate_srv.py` translates (regenerated on every run, GeneratedSrv.lean) the body of each such method:
  every `db.execute(…)` appears as the NAME the SQL translator gave that statement (GeneratedSql.lean) with its
  argument tuple translated expression by expression, so that the value bound to the i-th `?` is the value the program
  computed for the i-th expression (the data flow `row = …fetchone(); npid = row["id"]; …(npid, side)` is the
  program's, not the model's).  The meaning of a named statement is `stmtSem`: the one table that pairs a statement
  name with a primitive of Store.lean; `Tie/SrvStmts.lean` proves, entry by entry, that the primitive IS the meaning
  (Sql.lean) of the regenerated statement of that name on positional arguments.
  Also: `.fetchone()` / `.fetchall()` / `.lastrowid`, `row["col"]`, `if`, `not`, `len(rows) > n`,
  `[1 for r in rows if r["col"]]` used as a test, `db.commit()`, calls of sibling methods, `raise`, `return`.
  The registry of `Mailbox` objects (`self._mailboxes[…]`), `assert isinstance(…)` and logging are not part of the
  object-free model: the translator drops those statements and lists what it dropped in the generated file (that the
  registry is unobservable is `Reg_refines_Sys`, Props/Reg.lean; the types asserted are the model's types).
  No Mathlib; executable.
-/
import Wormhole.Core
import Wormhole.Sql
import Wormhole.PySum

namespace Wormhole
namespace PySrv
open Wormhole.Sql

/-- a fetched row (a dict, by `dict_factory` of database.py) -/
inductive RowV where
  | np (r : Nameplate)
  | nps (r : NpSide)
  | mb (r : MailboxRow)
  | mbs (r : MbSide)
  | msg (r : Message)
  | app (a : String)            -- a row of `SELECT DISTINCT app_id FROM …`
  | name (n : String)           -- a row of `SELECT DISTINCT name FROM nameplates …`
  deriving Repr, DecidableEq

/-- the dict: column name -> value -/
def RowV.toRow : RowV → Row
  | .np r => r.toRow
  | .nps r => r.toRow
  | .mb r => r.toRow
  | .mbs r => r.toRow
  | .msg r => r.toRow
  | .app a => [("app_id", .text a)]
  | .name n => [("name", .text n)]

inductive SV where
  | none
  | bool (b : Bool)
  | str (s : String)
  | int (i : Int)
  | val (v : Val)               -- a JSON scalar of a client message (phase / body / msg_id)
  | msg (side : String) (phase body : Val) (rx : Int) (id : Val)   -- a SidedMessage
  | row (r : RowV)
  | rows (l : List RowV)
  | usage (fields : List (String × PySum.SV))   -- a `Usage(started=…, …)` namedtuple
  | cv (impl version : Option String)           -- the `client_version` pair of a `bind`
  | msgs (l : List (String × Val × Val × Int × Val))   -- a list of SidedMessage (side, phase, body, server_rx, msg_id)
  | strs (l : List String)                      -- a Python set of strings, as the list of what was added (duplicates kept)
  | appRef (a : String)                         -- the AppNamespace of app `a` (`self.get_app(a)`)
  deriving Repr, DecidableEq

def SV.ofCell : Cell → SV
  | .null => .none
  | .int i => .int i
  | .text s => .str s
  | .bool b => .bool b

/-- the value sqlite3 binds for a Python value -/
def SV.toCell : SV → Cell
  | .none => .null
  | .bool b => .bool b
  | .str s => .text s
  | .int i => .int i
  | .val v => ofVal v
  | .msg .. => .null
  | .row _ => .null
  | .rows _ => .null
  | .usage _ => .null
  | .cv .. => .null
  | .msgs _ => .null
  | .strs _ => .null
  | .appRef _ => .null

inductive XE where
  | none_ | true_ | false_
  | int (i : Int)
  | param (p : String)                 -- a parameter of the method
  | msgField (e : XE) (f : String)     -- sm.side / sm.phase / … of a SidedMessage
  | attr (e : XE) (f : String)         -- u.started / u.result / … of a Usage
  | index (e : XE) (i : Nat)           -- client_version[0] / client_version[1]
  | mul (a b : XE)
  /-- `sum(app.count_listeners() for app in self._apps.values())` (Server.dump_stats): the subscribed connections -/
  | listenerCount
  /-- `self.get_app(e)`: the namespace of that app (the registry of namespaces is Reg.lean's) -/
  | appObj (e : XE)
  /-- `[]` returned as an (empty) collection of names -/
  | emptyStrs
  /-- `set([row["col"] for row in rows])` -/
  | colSet (e : XE) (col : String)
  /-- `SidedMessage(side=…, phase=…, body=…, server_rx=…, msg_id=…)` -/
  | mkMsg (side phase body rx id : XE)
  | floordiv (a b : XE)
  | var (v : String)                   -- a local
  | selfAttr (a : String)              -- self._app_id / self._mailbox_id / self._usage_db
  | field (e : XE) (col : String)      -- e["col"]
  | not_ (e : XE)
  | len (e : XE)
  | gt (a b : XE)
  | filterField (e : XE) (col : String)  -- [… for r in e if r["col"]]  (only its truthiness is used)
  | anyField (e : XE) (col : String)     -- any([r["col"] for r in e])
  | freshMailboxId                     -- generate_mailbox_id()
  | mailboxObj (e : XE)                -- self._mailboxes[e]: the object IS its id in the object-free model
  deriving Repr

inductive Fetch where
  | one | all | lastrowid | nothing
  deriving Repr, DecidableEq

inductive XS where
  | assign (v : String) (e : XE)
  | exec (into : Option String) (fetch : Fetch) (stmt : String) (args : List XE)
  | if_ (c : XE) (t e : List XS)
  /-- `[v =] <target>.<meth>(args)`: a sibling method; `target` = the Mailbox object a method of Mailbox is called on -/
  | call (into : Option String) (meth : String) (target : Option XE) (args : List XE)
  /-- `for v in X.execute(stmt, args).fetchall(): body` -/
  | forExec (v : String) (stmt : String) (args : List XE) (body : List XS)
  /-- `v = set()` -/
  | setNew (v : String)
  /-- `v.add(e)` -/
  | setAdd (v : String) (e : XE)
  /-- `for v in sorted(self.<meth>(args)): body` over a set of strings: distinct elements, in `≤` order -/
  | forSortedCall (v : String) (meth : String) (args : List XE) (body : List XS)
  /-- `v = []` -/
  | listNew (v : String)
  /-- `v.append(e)` -/
  | listAppend (v : String) (e : XE)
  /-- `for (send_f, stop_f) in self._listeners.values(): stop_f()` + `self._listeners = {}` (Mailbox.close) -/
  | stopListeners
  | commit
  | ucommit
  | raise_ (cls : String)
  | ret (e : XE)
  deriving Repr

mutual
/-- the statement names a statement mentions -/
def XS.stmts : XS → List String
  | .exec _ _ n _ => [n]
  | .if_ _ t e => XS.stmtsL t ++ XS.stmtsL e
  | .forExec _ n _ b => n :: XS.stmtsL b
  | .forSortedCall _ _ _ b => XS.stmtsL b
  | _ => []
def XS.stmtsL : List XS → List String
  | [] => []
  | x :: r => x.stmts ++ XS.stmtsL r
end

mutual
/-- the methods a statement calls -/
def XS.calls : XS → List String
  | .call _ m _ _ => [m]
  | .if_ _ t e => XS.callsL t ++ XS.callsL e
  | .forExec _ _ _ b => XS.callsL b
  | .forSortedCall _ m _ b => m :: XS.callsL b
  | _ => []
def XS.callsL : List XS → List String
  | [] => []
  | x :: r => x.calls ++ XS.callsL r
end

structure Method where
  params : List String
  body : List XS
  deriving Repr

/-- the object a method runs on and the inputs of the step -/
structure Ctx where
  app : String
  mailbox : String := ""      -- `self._mailbox_id` (methods of Mailbox)
  fresh : String := ""        -- what `generate_mailbox_id()` returns
  pick : Nat := 0             -- resolves `random.choice` in `_find_available_nameplate_id`
  draws : List Nat := []      -- the results of `random.randrange` there
  params : List (String × SV) := []

abbrev Env := List (String × SV)

def truthy : SV → Bool
  | .none => false
  | .bool b => b
  | .str s => s ≠ ""
  | .int i => i ≠ 0
  | .val v => (match v with | .null => false | .str s => s ≠ "" | .int i => i ≠ 0)
  | .msg .. => true
  | .row r => !r.toRow.isEmpty
  | .rows l => !l.isEmpty
  | .usage _ => true
  | .cv .. => true
  | .msgs l => !l.isEmpty
  | .strs l => !l.isEmpty
  | .appRef _ => true

/-- a stored scalar (NULL / text / integer) read back from a row -/
def svVal : SV → Option Val
  | .none => some .null
  | .str x => some (.str x)
  | .int i => some (.int i)
  | .val v => some v
  | _ => Option.none

def optStrSV : Option String → SV
  | some x => .str x
  | Option.none => .none

/-- a string-or-None value -/
def optOfSV : SV → Option (Option String)
  | .none => some Option.none
  | .str x => some (some x)
  | _ => Option.none

@[simp] theorem optOfSV_optStrSV (o : Option String) : optOfSV (optStrSV o) = some o := by cases o <;> rfl

/-- a field of a `Usage` as a Python value -/
def ofSummV : PySum.SV → SV
  | .none => .none
  | .int i => .int i
  | .str s => .str s
  | .bool b => .bool b
  | _ => .none

def rowField (r : RowV) (col : String) : SV := SV.ofCell (r.toRow.get col)

/-- `row[col]` when it is a string -/
def strOfField (col : String) (r : RowV) : Option String :=
  match rowField r col with
  | .str a => some a
  | _ => Option.none

def eval (ctx : Ctx) (s : Sys) (env : Env) : XE → SV
  | .none_ => .none
  | .true_ => .bool true
  | .false_ => .bool false
  | .int i => .int i
  | .param p => (ctx.params.lookup p).getD .none
  | .var v => (env.lookup v).getD .none
  | .selfAttr a =>
    if a = "_app_id" then .str ctx.app else if a = "_mailbox_id" then .str ctx.mailbox
    else if a = "_usage_db" then .bool s.cfg.usage
    else if a = "_allow_list" then .bool s.cfg.allowList
    else if a = "_blur_usage" then (match s.blurTicks with | some B => .int B | Option.none => .none)   -- in ticks, like the times
    -- `Server._blur_usage` as `dump_stats` STORES it (seconds, no arithmetic with times)
    else if a = "_blur_usage_raw" then (match s.cfg.blur with | some b => .int b | Option.none => .none)
    else .none
  | .msgField e f => (match eval ctx s env e with
    | .msg side phase body rx id =>
      if f = "side" then .str side else if f = "phase" then .val phase else if f = "body" then .val body
      else if f = "server_rx" then .int rx else if f = "msg_id" then .val id else .none
    | _ => .none)
  | .index e i => (match eval ctx s env e with
    | .cv impl version => if i = 0 then optStrSV impl else if i = 1 then optStrSV version else .none
    | _ => .none)
  | .listenerCount => .int ((s.conns.filter (·.listening)).length : Nat)
  | .appObj e => (match eval ctx s env e with | .str a => .appRef a | _ => .none)
  | .emptyStrs => .strs []
  | .colSet e col => (match eval ctx s env e with
    | .rows l => .strs (l.filterMap (strOfField col))
    | _ => .none)
  | .mkMsg side phase body rx id =>
    (match eval ctx s env side, svVal (eval ctx s env phase), svVal (eval ctx s env body), eval ctx s env rx,
        svVal (eval ctx s env id) with
     | .str sd, some p, some b, .int t, some i => .msg sd p b t i
     | _, _, _, _, _ => .none)
  | .mul a b => (match eval ctx s env a, eval ctx s env b with
    | .int x, .int y => .int (x * y)
    | _, _ => .none)
  | .floordiv a b => (match eval ctx s env a, eval ctx s env b with
    | .int x, .int y => .int (x / y)
    | _, _ => .none)
  | .attr e f => (match eval ctx s env e with
    | .usage u => (match u.lookup f with | some v => ofSummV v | Option.none => .none)
    | _ => .none)
  | .field e col => match eval ctx s env e with
    | .row r => rowField r col
    | _ => .none
  | .not_ e => .bool (!truthy (eval ctx s env e))
  | .len e => match eval ctx s env e with
    | .rows l => .int l.length
    | _ => .none
  | .gt a b => match eval ctx s env a, eval ctx s env b with
    | .int x, .int y => .bool (decide (x > y))
    | _, _ => .none
  | .filterField e col => match eval ctx s env e with
    | .rows l => .rows (l.filter (fun r => truthy (rowField r col)))
    | _ => .none
  | .anyField e col => match eval ctx s env e with
    | .rows l => .bool (l.any (fun r => truthy (rowField r col)))
    | _ => .none
  | .freshMailboxId => .str ctx.fresh
  | .mailboxObj e => eval ctx s env e

/-- what a statement / a call gives back -/
inductive ExecRes where
  | ok (s : Sys) (v : SV)
  | raised (s : Sys) (cls : String)

def optRow (f : α → RowV) (o : Option α) : SV := match o with | some r => .row (f r) | Option.none => .none

def asNat (i : Int) : Nat := i.toNat

@[simp] theorem asNat_natCast (n : Nat) : asNat (n : Int) = n := by simp [asNat]

/-- the INSERT of `log_client_version` -/
def logClientStmt (s : Sys) (args : List SV) : ExecRes :=
  match args with
  | [.str app, .str side, .int t, i, v] =>
    (match optOfSV i, optOfSV v with
     | some impl, some version =>
       .ok (s.modUdb (fun d => { d with clients := d.clients ++ [⟨app, side, t, impl, version⟩] })) .none
     | _, _ => .raised s "TypeError")
  | _ => .raised s "TypeError"

/-- the SELECT of `get_messages`: the stored messages of the mailbox in `server_rx` order -/
def getMessagesStmt (s : Sys) (args : List SV) : ExecRes :=
  match args with
  | [.str app, .str mb] =>
    .ok s (.rows (((s.db.messagesOf app mb).mergeSort (fun a b => decide (a.rx ≤ b.rx))).map .msg))
  | _ => .raised s "TypeError"

/-- `SELECT DISTINCT app_id FROM <table>` (`col` = that table's app_id column) -/
def allAppsStmt (s : Sys) (col : List String) (args : List SV) : ExecRes :=
  match args with
  | [] => .ok s (.rows (col.eraseDups.map .app))
  | _ => .raised s "TypeError"

/-- `SELECT DISTINCT name FROM nameplates WHERE app_id=?` -/
def namesStmt (s : Sys) (args : List SV) : ExecRes :=
  match args with
  | [.str app] => .ok s (.rows ((s.db.namesOfApp app).map .name))
  | _ => .raised s "TypeError"

/-- `DELETE FROM current` -/
def dumpDeleteStmt (s : Sys) (args : List SV) : ExecRes :=
  match args with
  | [] => .ok (s.modUdb (fun d => { d with current := [] })) .none
  | _ => .raised s "TypeError"

def optNatOfSV : SV → Option (Option Nat)
  | .none => some Option.none
  | .int i => some (some (asNat i))
  | _ => Option.none

/-- the INSERT of the one status row -/
def dumpInsertStmt (s : Sys) (args : List SV) : ExecRes :=
  match args with
  | [.int rebooted, .int now, b, .int k] =>
    (match optNatOfSV b with
     | some blur => .ok (s.modUdb (fun d => { d with current := d.current ++ [⟨rebooted, now, blur, asNat k⟩] })) .none
     | Option.none => .raised s "TypeError")
  | _ => .raised s "TypeError"

/-- **the statement table**: the model primitive (Store.lean) each named statement of server.py is; a SELECT gives its
    row(s) (`fetchone()` of an empty result is `None`), an INSERT its `lastrowid` where the program uses it.
    `Tie/SrvStmts.lean`: entry by entry, primitive = meaning of the regenerated SQL of that name. -/
def stmtSem (s : Sys) (stmt : String) (args : List SV) : ExecRes :=
  -- Mailbox.open
  if stmt = "Mailbox_open__select_mailbox_sides_0" then
    (match args with | [.str mb, .str side] => .ok s (optRow .mbs (s.db.findMbSide mb side)) | _ => .raised s "TypeError")
  else if stmt = "Mailbox_open__insert_mailbox_sides_0" then
    (match args with
     | [.str mb, .bool op, .str side, .int t] => .ok (s.modDb (·.insMbSide ⟨mb, op, side, t, Option.none⟩)) .none
     | _ => .raised s "TypeError")
  else if stmt = "Mailbox__touch__update_mailboxes_0" then
    (match args with | [.int t, .str mb] => .ok (s.modDb (·.touch mb t)) .none | _ => .raised s "TypeError")
  else if stmt = "Mailbox__add_message__insert_messages_0" then
    (match args with
     | [.str app, .str mb, .str side, .val phase, .val body, .int t, .val id] =>
       .ok (s.modDb (·.insMessage ⟨app, mb, side, phase.toText, body.toText, t, id.toText⟩)) .none
     | _ => .raised s "TypeError")
  -- AppNamespace._add_mailbox
  else if stmt = "AppNamespace__add_mailbox__select_mailboxes_0" then
    (match args with | [.str app, .str mb] => .ok s (optRow .mb (s.db.findMailbox app mb)) | _ => .raised s "TypeError")
  else if stmt = "AppNamespace__add_mailbox__insert_mailboxes_0" then
    (match args with
     | [.str app, .str mb, .bool forNp, .int t] =>
       -- `mailboxes.id` is the PRIMARY KEY: SQLite refuses an id that exists (under another app); constraints are
       -- not part of Sql.lean, this branch is the model's (finding K-global-mailbox-id, dynamic tie)
       (match s.db.findMailboxById mb with
        | some _ => .raised s "IntegrityError"
        | Option.none => .ok (s.modDb (·.insMailbox ⟨app, mb, t, forNp⟩)) .none)
     | _ => .raised s "TypeError")
  -- AppNamespace.open_mailbox
  else if stmt = "AppNamespace_open_mailbox__select_mailbox_sides_0" then
    (match args with | [.str mb] => .ok s (.rows ((s.db.mbSidesOf mb).map .mbs)) | _ => .raised s "TypeError")
  -- AppNamespace.claim_nameplate
  else if stmt = "AppNamespace_claim_nameplate__select_nameplates_0" then
    (match args with | [.str app, .str name] => .ok s (optRow .np (s.db.findNameplate app name)) | _ => .raised s "TypeError")
  else if stmt = "AppNamespace_claim_nameplate__insert_nameplates_0" then
    (match args with
     | [.str app, .str name, .str mb] => .ok (s.modDb (·.insNameplate app name mb)) (.int s.db.nextNp)
     | _ => .raised s "TypeError")
  else if stmt = "AppNamespace_claim_nameplate__select_nameplate_sides_0" then
    (match args with
     | [.int npid, .str side] => .ok s (optRow .nps (s.db.findNpSide (asNat npid) side))
     | _ => .raised s "TypeError")
  else if stmt = "AppNamespace_claim_nameplate__insert_nameplate_sides_0" then
    (match args with
     | [.int npid, .bool cl, .str side, .int t] => .ok (s.modDb (·.insNpSide ⟨asNat npid, cl, side, t⟩)) .none
     | _ => .raised s "TypeError")
  else if stmt = "AppNamespace_claim_nameplate__select_nameplate_sides_1" then
    (match args with | [.int npid] => .ok s (.rows ((s.db.npSidesOf (asNat npid)).map .nps)) | _ => .raised s "TypeError")
  -- AppNamespace.release_nameplate
  else if stmt = "AppNamespace_release_nameplate__select_nameplates_0" then
    (match args with | [.str app, .str name] => .ok s (optRow .np (s.db.findNameplate app name)) | _ => .raised s "TypeError")
  else if stmt = "AppNamespace_release_nameplate__select_nameplate_sides_0" then
    (match args with
     | [.int npid, .str side] => .ok s (optRow .nps (s.db.findNpSide (asNat npid) side))
     | _ => .raised s "TypeError")
  else if stmt = "AppNamespace_release_nameplate__update_nameplate_sides_0" then
    (match args with
     | [.bool false, .int npid, .str side] => .ok (s.modDb (·.unclaim (asNat npid) side)) .none
     | _ => .raised s "TypeError")
  else if stmt = "AppNamespace_release_nameplate__select_nameplate_sides_1" then
    (match args with | [.int npid] => .ok s (.rows ((s.db.npSidesOf (asNat npid)).map .nps)) | _ => .raised s "TypeError")
  else if stmt = "AppNamespace_release_nameplate__delete_nameplate_sides_0" then
    (match args with | [.int npid] => .ok (s.modDb (·.delNpSidesOf (asNat npid))) .none | _ => .raised s "TypeError")
  else if stmt = "AppNamespace_release_nameplate__delete_nameplates_0" then
    (match args with | [.int npid] => .ok (s.modDb (·.delNameplate (asNat npid))) .none | _ => .raised s "TypeError")
  -- Mailbox.close
  else if stmt = "Mailbox_close__select_mailboxes_0" then
    (match args with | [.str app, .str mb] => .ok s (optRow .mb (s.db.findMailbox app mb)) | _ => .raised s "TypeError")
  else if stmt = "Mailbox_close__select_mailbox_sides_0" then
    (match args with | [.str mb, .str side] => .ok s (optRow .mbs (s.db.findMbSide mb side)) | _ => .raised s "TypeError")
  else if stmt = "Mailbox_close__update_mailbox_sides_0" then
    (match args with
     | [.bool false, .none, .str mb, .str side] => .ok (s.modDb (·.closeSide mb side Option.none)) .none
     | [.bool false, .str mood, .str mb, .str side] => .ok (s.modDb (·.closeSide mb side (some mood))) .none
     | _ => .raised s "TypeError")
  else if stmt = "Mailbox_close__select_mailbox_sides_1" then
    (match args with | [.str mb] => .ok s (.rows ((s.db.mbSidesOf mb).map .mbs)) | _ => .raised s "TypeError")
  else if stmt = "Mailbox_close__select_nameplates_0" then
    (match args with
     | [.str app, .str mb] => .ok s (.rows ((s.db.nameplatesOfMailbox app mb).map .np))
     | _ => .raised s "TypeError")
  else if stmt = "Mailbox_close__select_nameplate_sides_0" then
    (match args with | [.int npid] => .ok s (.rows ((s.db.npSidesOf (asNat npid)).map .nps)) | _ => .raised s "TypeError")
  else if stmt = "Mailbox_close__delete_nameplate_sides_0" then
    (match args with | [.str app, .str mb] => .ok (s.modDb (·.delNpSidesOfMailbox app mb)) .none | _ => .raised s "TypeError")
  else if stmt = "Mailbox_close__delete_nameplates_0" then
    (match args with | [.str app, .str mb] => .ok (s.modDb (·.delNameplatesOfMailbox app mb)) .none | _ => .raised s "TypeError")
  else if stmt = "Mailbox_close__delete_messages_0" then
    (match args with | [.str mb] => .ok (s.modDb (·.delMessagesOf mb)) .none | _ => .raised s "TypeError")
  else if stmt = "Mailbox_close__delete_mailbox_sides_0" then
    (match args with | [.str mb] => .ok (s.modDb (·.delMbSidesOf mb)) .none | _ => .raised s "TypeError")
  else if stmt = "Mailbox_close__delete_mailboxes_0" then
    (match args with | [.str mb] => .ok (s.modDb (·.delMailbox mb)) .none | _ => .raised s "TypeError")
  -- the usage database (`_summarize_*_and_store`)
  else if stmt = "AppNamespace__summarize_nameplate_and_store__insert_nameplates_0" then
    (match args with
     | [.str app, .int started, .int total, .none, .str result] =>
       .ok (s.modUdb (fun d => { d with nameplates := d.nameplates ++ [⟨app, started, Option.none, total, result⟩] })) .none
     | [.str app, .int started, .int total, .int w, .str result] =>
       .ok (s.modUdb (fun d => { d with nameplates := d.nameplates ++ [⟨app, started, some w, total, result⟩] })) .none
     | _ => .raised s "TypeError")
  else if stmt = "AppNamespace__summarize_mailbox_and_store__insert_mailboxes_0" then
    (match args with
     | [.str app, .bool forNp, .int started, .int total, .none, .str result] =>
       .ok (s.modUdb (fun d => { d with mailboxes := d.mailboxes ++ [⟨app, forNp, started, total, Option.none, result⟩] })) .none
     | [.str app, .bool forNp, .int started, .int total, .int w, .str result] =>
       .ok (s.modUdb (fun d => { d with mailboxes := d.mailboxes ++ [⟨app, forNp, started, total, some w, result⟩] })) .none
     | _ => .raised s "TypeError")
  else if stmt = "AppNamespace_log_client_version__insert_client_versions_0" then logClientStmt s args
  else if stmt = "Mailbox_get_messages__select_messages_0" then getMessagesStmt s args
  else if stmt = "Server_get_all_apps__select_nameplates_0" then allAppsStmt s (s.db.nameplates.map (·.app)) args
  else if stmt = "Server_get_all_apps__select_mailboxes_0" then allAppsStmt s (s.db.mailboxes.map (·.app)) args
  else if stmt = "Server_get_all_apps__select_messages_0" then allAppsStmt s (s.db.messages.map (·.app)) args
  else if stmt = "AppNamespace__get_nameplate_ids__select_nameplates_0" then namesStmt s args
  else if stmt = "Server_dump_stats__delete_current_0" then dumpDeleteStmt s args
  else if stmt = "Server_dump_stats__insert_current_0" then dumpInsertStmt s args
  else .raised s "NotInTable"

/-- what `cursor.<fetch>` of a statement's result is -/
def fetched (f : Fetch) (v : SV) : SV :=
  match f with
  | .nothing => .none
  | _ => v

structure St where
  s : Sys
  env : Env

inductive Res where
  | normal (st : St)
  | ret (s : Sys) (v : SV)
  | exc (s : Sys) (cls : String)

def setVar (env : Env) (v : String) (x : SV) : Env := (v, x) :: env.filter (fun p => p.1 ≠ v)

def bindInto (st : St) (into : Option String) (s : Sys) (v : SV) : St :=
  match into with
  | some x => ⟨s, setVar st.env x v⟩
  | Option.none => ⟨s, st.env⟩

/-- how calls of sibling methods are resolved: method name, the context of the callee (`self` of the callee: the
    caller's, or the Mailbox object the method is called on), argument values -/
abbrev Callee := String → Ctx → List SV → Sys → ExecRes

/-- `self` of the callee -/
def calleeCtx (ctx : Ctx) (target : Option SV) : Ctx :=
  match target with
  | some (.str m) => { ctx with mailbox := m }
  | some (.appRef a) => { ctx with app := a }
  | _ => ctx

/-- one iteration of a `for` loop (`run` = the loop body): an exception or a `return` ends the loop -/
def loopStepWith (run : St → Res) (v : String) (acc : Res) (r : RowV) : Res :=
  match acc with
  | .normal st' => run ⟨st'.s, setVar st'.env v (.row r)⟩
  | other => other

def loopStepStr (run : St → Res) (v : String) (acc : Res) (a : String) : Res :=
  match acc with
  | .normal st' => run ⟨st'.s, setVar st'.env v (.str a)⟩
  | other => other

/-- the elements of a set of strings in the order `sorted()` gives -/
def sortedSet (l : List String) : List String := l.eraseDups.mergeSort (fun a b => decide (a ≤ b))

mutual
def execS (callee : Callee) (ctx : Ctx) : XS → St → Res
  | .assign v e, st => .normal ⟨st.s, setVar st.env v (eval ctx st.s st.env e)⟩
  | .exec into f stmt args, st =>
    (match stmtSem st.s stmt (args.map (eval ctx st.s st.env)) with
     | .ok s v => .normal (bindInto st into s (fetched f v))
     | .raised s cls => .exc s cls)
  | .if_ c t e, st => if truthy (eval ctx st.s st.env c) then execL callee ctx t st else execL callee ctx e st
  | .call into meth target args, st =>
    (match callee meth (calleeCtx ctx (target.map (eval ctx st.s st.env))) (args.map (eval ctx st.s st.env)) st.s with
     | .ok s v => .normal (bindInto st into s v)
     | .raised s cls => .exc s cls)
  | .forExec v stmt args body, st =>
    (match stmtSem st.s stmt (args.map (eval ctx st.s st.env)) with
     | .ok s (.rows l) =>
       l.foldl (loopStepWith (execL callee ctx body) v) (.normal ⟨s, st.env⟩)
     | .ok s _ => .exc s "TypeError"
     | .raised s cls => .exc s cls)
  | .setNew v, st => .normal ⟨st.s, setVar st.env v (.strs [])⟩
  | .setAdd v e, st =>
    (match (st.env.lookup v).getD .none, eval ctx st.s st.env e with
     | .strs l, .str a => .normal ⟨st.s, setVar st.env v (.strs (l ++ [a]))⟩
     | _, _ => .exc st.s "TypeError")
  | .forSortedCall v meth args body, st =>
    (match callee meth ctx (args.map (eval ctx st.s st.env)) st.s with
     | .ok s (.strs l) => (sortedSet l).foldl (loopStepStr (execL callee ctx body) v) (.normal ⟨s, st.env⟩)
     | .ok s _ => .exc s "TypeError"
     | .raised s cls => .exc s cls)
  | .listNew v, st => .normal ⟨st.s, setVar st.env v (.msgs [])⟩
  | .listAppend v e, st =>
    (match (st.env.lookup v).getD .none, eval ctx st.s st.env e with
     | .msgs l, .msg sd p b t i => .normal ⟨st.s, setVar st.env v (.msgs (l ++ [(sd, p, b, t, i)]))⟩
     | _, _ => .exc st.s "TypeError")
  | .stopListeners, st => .normal ⟨st.s.stopListeners ctx.app ctx.mailbox, st.env⟩
  | .commit, st => .normal ⟨st.s.commit, st.env⟩
  | .ucommit, st => .normal ⟨st.s.ucommit, st.env⟩
  | .raise_ cls, st => .exc st.s cls
  | .ret e, st => .ret st.s (eval ctx st.s st.env e)
def execL (callee : Callee) (ctx : Ctx) : List XS → St → Res
  | [], st => .normal st
  | x :: rest, st =>
    (match execS callee ctx x st with
     | .normal st' => execL callee ctx rest st'
     | r => r)
end

/-- how a body ends: falling off the end returns `None` -/
def finish : Res → ExecRes
  | .normal st => .ok st.s .none
  | .ret s v => .ok s v
  | .exc s cls => .raised s cls

/-- run a method -/
def runMethod (callee : Callee) (m : Method) (ctx : Ctx) (args : List SV) (s : Sys) : ExecRes :=
  finish (execL callee { ctx with params := m.params.zip args } m.body ⟨s, []⟩)

/-- the NpSide rows of a `fetchall()` result -/
def npSideRows (l : List RowV) : List NpSide := l.filterMap (fun r => match r with | .nps x => some x | _ => Option.none)

/-- the MbSide rows of a `fetchall()` result -/
def mbSideRows (l : List RowV) : List MbSide := l.filterMap (fun r => match r with | .mbs x => some x | _ => Option.none)

/-- methods that are primitives here: `_summarize_mailbox_and_store(for_nameplate, side_rows, delete_time, pruned)` is
    `storeMailboxUsage`; `_summarize_nameplate_and_store(side_rows, delete_time, pruned)` is
    `storeNameplateUsage` (its summary function is tied in Tie/Summ.lean, its INSERT in Tie/UsageSql.lean);
    `false` = the IndexError of an empty `side_rows` -/
def callee0 : Callee := fun meth ctx args s =>
  if meth = "AppNamespace._summarize_nameplate_and_store" then
    (match args with
     | [.rows l, .int t, .bool pruned] =>
       (match s.storeNameplateUsage ctx.app (npSideRows l) t pruned with
        | (s1, true) => .ok s1 .none
        | (s1, false) => .raised s1 "IndexError")
     | _ => .raised s "TypeError")
  else if meth = "AppNamespace._summarize_mailbox_and_store" then
    (match args with
     | [.bool forNp, .rows l, .int t, .bool pruned] => .ok (s.storeMailboxUsage ctx.app forNp (mbSideRows l) t pruned) .none
     | _ => .raised s "TypeError")
  else .raised s "NoSuchMethod"

end PySrv
end Wormhole
