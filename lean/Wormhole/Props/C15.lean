/-
  C15 — classification rule of the usage summaries (pure part): `summarizeMailbox`
  (`_summarize_mailbox`) and `summarizeNameplate` (`_summarize_nameplate_usage`), for EVERY list of
  side rows (any length, any moods including unknown strings, "" and `none`), every deletion time,
  every blur function and both values of `pruned`.

  Main theorems
  * `C15_mailbox_result`      : the result string as the documented precedence chain
  * `C15_mailbox_result_python`: the same as the "last assignment wins" sequence of the Python text
  * `mailbox_*_iff`           : one iff per result string
  * `C15_mailbox_times`       : started / waiting / total in terms of `List.min?`
  * `C15_summarizeMailbox`    : the whole record = `mailboxSpec`
  * `C15_nameplate_none_iff`, `C15_nameplate_result`, `nameplate_*_iff`, `C15_nameplate_times`,
    `C15_summarizeNameplate`  : the same for nameplates

  "smallest" / "second smallest" are `l.min?` and `(l.erase m).min?` (remove one occurrence of the
  minimum, take the minimum of the rest: with two equal smallest times the waiting time is 0);
  `min?_spec` restates what `List.min?` means on times.
-/
import Wormhole.Props.C16

namespace Wormhole
namespace C15
open C16

/-! ### What `min?` means -/

theorem min?_spec (l : List Time) (m : Time) : l.min? = some m ↔ m ∈ l ∧ ∀ x ∈ l, m ≤ x :=
  (isMin_iff_min? l m).symm

theorem min?_none (l : List Time) : l.min? = none ↔ l = [] := List.min?_eq_none_iff

/-- some row of `sides` reported mood `m` -/
abbrev HasMood (sides : List MbSide) (m : String) : Prop := ∃ r ∈ sides, r.mood = some m

/-- closing tactic for the iff corollaries: split the precedence chain, discharge each branch -/
local macro "chain_cases" : tactic => `(tactic| (
  repeat' split
  all_goals simp_all
  all_goals first
    | omega
    | (intros; omega)
    | (have := List.length_pos_iff.2 ‹¬ _ = []›; omega)
    | (intro e; subst e; simp_all [HasMood])))

/-- waiting time: second smallest − smallest, when there are at least two times -/
def waitingSpec (l : List Time) : Option Time :=
  match l.min? with
  | none => none
  | some m => (l.erase m).min?.map (· - m)

theorem waitingSpec_eq_none_iff (l : List Time) : waitingSpec l = none ↔ l.length < 2 := by
  unfold waitingSpec
  cases h : l.min? with
  | none => have := (min?_none l).1 h; subst this; simp
  | some m =>
    have hm : m ∈ l := ((min?_spec l m).1 h).1
    have hlen := List.length_erase_of_mem hm
    simp only [Option.map_eq_none_iff, List.min?_eq_none_iff]
    rw [← List.length_eq_zero_iff]
    have : 0 < l.length := List.length_pos_of_mem hm
    omega

theorem waitingSpec_of_two_le {l : List Time} (h : 2 ≤ l.length) :
    ∃ m m2, IsMin l m ∧ IsMin (l.erase m) m2 ∧ waitingSpec l = some (m2 - m) ∧ 0 ≤ m2 - m := by
  unfold waitingSpec
  cases hm : l.min? with
  | none => have := (min?_none l).1 hm; subst this; simp at h
  | some m =>
    have hmin := (isMin_iff_min? l m).2 hm
    have hlen := List.length_erase_of_mem hmin.1
    cases hm2 : (l.erase m).min? with
    | none =>
      have := (min?_none _).1 hm2
      rw [this] at hlen; simp at hlen; omega
    | some m2 =>
      have hmin2 := (isMin_iff_min? _ m2).2 hm2
      refine ⟨m, m2, hmin, hmin2, by simp only [hm2, Option.map_some], ?_⟩
      have := hmin.2 m2 (List.mem_of_mem_erase hmin2.1)
      unfold Time at *; omega

/-! ### Mailboxes -/

/-- The result string of a mailbox record: the documented precedence. -/
theorem C15_mailbox_result (blur : Time → Time) (sides : List MbSide) (dt : Time) (pruned : Bool) :
    (summarizeMailbox blur sides dt pruned).result =
      if sides.length > 2 then "crowded"
      else if pruned then "pruney"
      else if HasMood sides "scary" then "scary"
      else if HasMood sides "errory" then "errory"
      else if HasMood sides "lonely" then "lonely"
      else if sides.length = 0 then "quiet"
      else if sides.length = 1 then "lonely"
      else "happy" := by
  unfold summarizeMailbox
  simp only [length_sortTimes, List.length_map, List.any_eq_true, decide_eq_true_eq, HasMood]

/-- The Python text assigns the result in the opposite order, later assignments overriding earlier
    ones (count, then "lonely", "errory", "scary" moods, then pruned, then > 2 sides). -/
def pythonMailboxResult (sides : List MbSide) (pruned : Bool) : String :=
  let n := sides.length
  let r0 := if n = 0 then "quiet" else if n = 1 then "lonely" else "happy"
  let r1 := if HasMood sides "lonely" then "lonely" else r0
  let r2 := if HasMood sides "errory" then "errory" else r1
  let r3 := if HasMood sides "scary" then "scary" else r2
  let r4 := if pruned then "pruney" else r3
  if n > 2 then "crowded" else r4

theorem C15_mailbox_result_python (blur : Time → Time) (sides : List MbSide) (dt : Time) (pruned : Bool) :
    (summarizeMailbox blur sides dt pruned).result = pythonMailboxResult sides pruned := by
  rw [C15_mailbox_result]
  unfold pythonMailboxResult
  simp only
  repeat' split
  all_goals first | rfl | (exfalso; simp_all; done)

section iffs
variable (blur : Time → Time) (sides : List MbSide) (dt : Time) (pruned : Bool)

theorem mailbox_result_mem :
    (summarizeMailbox blur sides dt pruned).result ∈
      ["crowded", "pruney", "scary", "errory", "lonely", "quiet", "happy"] := by
  rw [C15_mailbox_result]
  repeat' split
  all_goals simp

theorem mailbox_crowded_iff :
    (summarizeMailbox blur sides dt pruned).result = "crowded" ↔ 2 < sides.length := by
  rw [C15_mailbox_result]
  chain_cases

theorem mailbox_pruney_iff :
    (summarizeMailbox blur sides dt pruned).result = "pruney" ↔ sides.length ≤ 2 ∧ pruned = true := by
  rw [C15_mailbox_result]
  chain_cases

theorem mailbox_scary_iff :
    (summarizeMailbox blur sides dt pruned).result = "scary" ↔
      sides.length ≤ 2 ∧ pruned = false ∧ HasMood sides "scary" := by
  rw [C15_mailbox_result]
  chain_cases

theorem mailbox_errory_iff :
    (summarizeMailbox blur sides dt pruned).result = "errory" ↔
      sides.length ≤ 2 ∧ pruned = false ∧ ¬ HasMood sides "scary" ∧ HasMood sides "errory" := by
  rw [C15_mailbox_result]
  chain_cases

/-- "lonely" has two sources: a reported mood, or a single side with no overriding mood. -/
theorem mailbox_lonely_iff :
    (summarizeMailbox blur sides dt pruned).result = "lonely" ↔
      sides.length ≤ 2 ∧ pruned = false ∧ ¬ HasMood sides "scary" ∧ ¬ HasMood sides "errory" ∧
        (HasMood sides "lonely" ∨ sides.length = 1) := by
  rw [C15_mailbox_result]
  chain_cases

theorem mailbox_quiet_iff :
    (summarizeMailbox blur sides dt pruned).result = "quiet" ↔ sides = [] ∧ pruned = false := by
  rw [C15_mailbox_result]
  chain_cases

theorem mailbox_happy_iff :
    (summarizeMailbox blur sides dt pruned).result = "happy" ↔
      sides.length = 2 ∧ pruned = false ∧ ¬ HasMood sides "scary" ∧ ¬ HasMood sides "errory" ∧
        ¬ HasMood sides "lonely" := by
  rw [C15_mailbox_result]
  chain_cases

end iffs

/-- The time fields of a mailbox record. -/
theorem C15_mailbox_times (blur : Time → Time) (sides : List MbSide) (dt : Time) (pruned : Bool) :
    let l := sides.map (·.added)
    let u := summarizeMailbox blur sides dt pruned
    u.started = blur (l.min?.getD dt) ∧ u.waiting = waitingSpec l ∧ u.total = dt - l.min?.getD dt := by
  intro l u
  refine ⟨summarizeMailbox_started blur sides dt pruned, ?_, ?_⟩
  · show (summarizeMailbox blur sides dt pruned).waiting = waitingSpec l
    unfold summarizeMailbox waitingSpec
    simp only
    rcases sortTimes_cases l with ⟨h0, hs⟩ | ⟨t0, hm, hlen, hs⟩ | ⟨t0, t1, rest, hm, hm2, _, hs⟩
    · rw [hs, h0]; rfl
    · rw [hs, hm]
      have : l.erase t0 = [] := by
        rw [← List.length_eq_zero_iff, List.length_erase_of_mem ((min?_spec l t0).1 hm).1]; omega
      simp [this]
    · rw [hs, hm]; simp only [hm2, Option.map_some]
  · show (summarizeMailbox blur sides dt pruned).total = dt - l.min?.getD dt
    unfold summarizeMailbox
    simp only
    rw [← sortTimes_head?]
    cases sortTimes (sides.map (·.added)) <;> rfl

/-- The record a mailbox with side rows `sides`, retired at `dt`, must get. -/
def mailboxSpec (blur : Time → Time) (sides : List MbSide) (dt : Time) (pruned : Bool) : Summary :=
  let l := sides.map (·.added)
  let first := l.min?.getD dt
  { started := blur first
    waiting := waitingSpec l
    total := dt - first
    result :=
      if sides.length > 2 then "crowded"
      else if pruned then "pruney"
      else if HasMood sides "scary" then "scary"
      else if HasMood sides "errory" then "errory"
      else if HasMood sides "lonely" then "lonely"
      else if sides.length = 0 then "quiet"
      else if sides.length = 1 then "lonely"
      else "happy" }

theorem C15_summarizeMailbox (blur : Time → Time) (sides : List MbSide) (dt : Time) (pruned : Bool) :
    summarizeMailbox blur sides dt pruned = mailboxSpec blur sides dt pruned := by
  have ht := C15_mailbox_times blur sides dt pruned
  have hr := C15_mailbox_result blur sides dt pruned
  generalize summarizeMailbox blur sides dt pruned = u at ht hr
  obtain ⟨a, b, c, d⟩ := u
  simp only at ht hr
  unfold mailboxSpec
  simp only [Summary.mk.injEq]
  exact ⟨ht.1, ht.2.1, ht.2.2, hr⟩

/-- The three shapes, spelled out with least elements instead of `min?`. -/
theorem C15_mailbox_times_cases (blur : Time → Time) (sides : List MbSide) (dt : Time) (pruned : Bool) :
    let l := sides.map (·.added)
    let u := summarizeMailbox blur sides dt pruned
    (sides = [] → u.started = blur dt ∧ u.waiting = none ∧ u.total = 0) ∧
    (sides.length = 1 → ∃ m, IsMin l m ∧ u.started = blur m ∧ u.waiting = none ∧ u.total = dt - m) ∧
    (2 ≤ sides.length → ∃ m m2, IsMin l m ∧ IsMin (l.erase m) m2 ∧
        u.started = blur m ∧ u.waiting = some (m2 - m) ∧ 0 ≤ m2 - m ∧ u.total = dt - m) := by
  intro l u
  obtain ⟨h1, h2, h3⟩ := C15_mailbox_times blur sides dt pruned
  refine ⟨?_, ?_, ?_⟩
  · intro h
    subst h
    refine ⟨h1, ?_, ?_⟩
    · rw [h2]; rfl
    · rw [h3]; simp
  · intro h
    have hl : l.length = 1 := by simp [l, h]
    cases hm : l.min? with
    | none => have := (min?_none l).1 hm; rw [this] at hl; simp at hl
    | some m =>
      refine ⟨m, (isMin_iff_min? l m).2 hm, ?_, ?_, ?_⟩
      · rw [h1]; show blur (l.min?.getD dt) = blur m; rw [hm]; rfl
      · rw [h2]; exact (waitingSpec_eq_none_iff l).2 (by omega)
      · rw [h3]; show dt - l.min?.getD dt = dt - m; rw [hm]; rfl
  · intro h
    have hl : 2 ≤ l.length := by simp [l, h]
    obtain ⟨m, m2, hm, hm2, hw, hnn⟩ := waitingSpec_of_two_le hl
    have hm' := (isMin_iff_min? l m).1 hm
    refine ⟨m, m2, hm, hm2, ?_, ?_, hnn, ?_⟩
    · rw [h1]; show blur (l.min?.getD dt) = blur m; rw [hm']; rfl
    · rw [h2]; exact hw
    · rw [h3]; show dt - l.min?.getD dt = dt - m; rw [hm']; rfl

/-! ### Nameplates -/

/-- `IndexError` exactly when there is no side row. -/
theorem C15_nameplate_none_iff (blur : Time → Time) (added : List Time) (dt : Time) (pruned : Bool) :
    summarizeNameplate blur added dt pruned = none ↔ added = [] :=
  summarizeNameplate_eq_none_iff blur added dt pruned

/-- The record a nameplate with side times `added` (non-empty), retired at `dt`, must get. -/
def nameplateSpec (blur : Time → Time) (added : List Time) (dt : Time) (pruned : Bool) : Summary :=
  let first := added.min?.getD dt
  { started := blur first
    waiting := waitingSpec added
    total := dt - first
    result :=
      if added.length > 2 then "crowded"
      else if pruned then "pruney"
      else if added.length = 2 then "happy"
      else "lonely" }

/-- The whole nameplate record. (`getD dt` in `nameplateSpec` is never used: `added ≠ []`.) -/
theorem C15_summarizeNameplate (blur : Time → Time) (added : List Time) (dt : Time) (pruned : Bool) :
    summarizeNameplate blur added dt pruned =
      if added = [] then none else some (nameplateSpec blur added dt pruned) := by
  unfold summarizeNameplate nameplateSpec waitingSpec
  rcases sortTimes_cases added with ⟨h0, hs⟩ | ⟨t0, hm, hlen, hs⟩ | ⟨t0, t1, rest, hm, hm2, hlen, hs⟩
  · rw [hs]; simp [h0]
  · have hne : added ≠ [] := by intro e; rw [e] at hlen; simp at hlen
    have : added.erase t0 = [] := by
      rw [← List.length_eq_zero_iff, List.length_erase_of_mem ((min?_spec added t0).1 hm).1]; omega
    rw [hs]
    simp [hne, hm, this, hlen]
  · have hne : added ≠ [] := by intro e; rw [e] at hlen; simp at hlen
    have hl : (t0 :: t1 :: rest).length = added.length := by rw [← hs]; exact length_sortTimes added
    rw [hs]
    simp only [hne, if_false, hm, hm2, Option.map_some, Option.getD_some, hl]

/-- The result string of a nameplate record: the documented precedence. -/
theorem C15_nameplate_result {blur : Time → Time} {added : List Time} {dt : Time} {pruned : Bool}
    {u : Summary} (h : summarizeNameplate blur added dt pruned = some u) :
    u.result =
      if added.length > 2 then "crowded"
      else if pruned then "pruney"
      else if added.length = 2 then "happy"
      else "lonely" := by
  rw [C15_summarizeNameplate] at h
  split at h
  · cases h
  · cases h; rfl

/-- The Python order of assignments for nameplates. -/
def pythonNameplateResult (n : Nat) (pruned : Bool) : String :=
  let r0 := "lonely"
  let r1 := if n = 2 then "happy" else r0
  let r2 := if pruned then "pruney" else r1
  if n > 2 then "crowded" else r2

theorem C15_nameplate_result_python {blur : Time → Time} {added : List Time} {dt : Time} {pruned : Bool}
    {u : Summary} (h : summarizeNameplate blur added dt pruned = some u) :
    u.result = pythonNameplateResult added.length pruned := by
  rw [C15_nameplate_result h]
  unfold pythonNameplateResult
  simp only
  repeat' split
  all_goals first | rfl | (exfalso; simp_all; done)

section iffs
variable {blur : Time → Time} {added : List Time} {dt : Time} {pruned : Bool} {u : Summary}
  (h : summarizeNameplate blur added dt pruned = some u)
include h

theorem nameplate_nonempty : 1 ≤ added.length := by
  have : added ≠ [] := fun e => by
    rw [(C15_nameplate_none_iff blur added dt pruned).2 e] at h; cases h
  exact List.length_pos_iff.2 this

theorem nameplate_crowded_iff : u.result = "crowded" ↔ 2 < added.length := by
  rw [C15_nameplate_result h]
  chain_cases

theorem nameplate_pruney_iff : u.result = "pruney" ↔ added.length ≤ 2 ∧ pruned = true := by
  rw [C15_nameplate_result h]
  chain_cases

theorem nameplate_happy_iff : u.result = "happy" ↔ added.length = 2 ∧ pruned = false := by
  rw [C15_nameplate_result h]
  chain_cases

theorem nameplate_lonely_iff : u.result = "lonely" ↔ added.length = 1 ∧ pruned = false := by
  have := nameplate_nonempty h
  rw [C15_nameplate_result h]
  chain_cases

/-- The time fields of a nameplate record. -/
theorem C15_nameplate_times :
    ∃ m, IsMin added m ∧ u.started = blur m ∧ u.total = dt - m ∧ u.waiting = waitingSpec added ∧
      (added.length = 1 → u.waiting = none) ∧
      (2 ≤ added.length → ∃ m2, IsMin (added.erase m) m2 ∧ u.waiting = some (m2 - m) ∧ 0 ≤ m2 - m) := by
  have hne := nameplate_nonempty h
  rw [C15_summarizeNameplate] at h
  split at h
  · cases h
  · cases h
    cases hm : added.min? with
    | none => have := (min?_none added).1 hm; rw [this] at hne; simp at hne
    | some m =>
      have hmin := (isMin_iff_min? added m).2 hm
      refine ⟨m, hmin, ?_, ?_, rfl, ?_, ?_⟩
      · simp [nameplateSpec, hm]
      · simp [nameplateSpec, hm]
      · intro h1; exact (waitingSpec_eq_none_iff added).2 (by omega)
      · intro h2
        obtain ⟨m', m2, hm', hm2, hw, hnn⟩ := waitingSpec_of_two_le h2
        have : m' = m := hm'.unique hmin
        subst this
        exact ⟨m2, hm2, hw, hnn⟩

end iffs

/-! ### The rows written by the two storing primitives -/

/-- `_summarize_mailbox_and_store` appends exactly the row prescribed by `mailboxSpec`. -/
theorem C15_storeMailboxUsage (s : Sys) (app : String) (forNp : Bool) (sides : List MbSide) (t : Time)
    (pruned : Bool) :
    let u := mailboxSpec s.blurTime sides t pruned
    s.storeMailboxUsage app forNp sides t pruned =
      { s with udb := { s.udb with mailboxes := s.udb.mailboxes ++
          [⟨app, forNp, u.started, u.total, u.waiting, u.result⟩] } } := by
  intro u
  unfold Sys.storeMailboxUsage
  simp only [Sys.modUdb]
  rw [C15_summarizeMailbox]

/-- `_summarize_nameplate_and_store`: `IndexError` (nothing written) iff there is no side row;
    otherwise it appends exactly the row prescribed by `nameplateSpec`. -/
theorem C15_storeNameplateUsage (s : Sys) (app : String) (sides : List NpSide) (t : Time) (pruned : Bool) :
    let u := nameplateSpec s.blurTime (sides.map (·.added)) t pruned
    s.storeNameplateUsage app sides t pruned =
      if sides = [] then (s, false)
      else ({ s with udb := { s.udb with nameplates := s.udb.nameplates ++
              [⟨app, u.started, u.waiting, u.total, u.result⟩] } }, true) := by
  intro u
  unfold Sys.storeNameplateUsage
  rw [C15_summarizeNameplate]
  by_cases h : sides = []
  · subst h; rfl
  · simp only [List.map_eq_nil_iff, h, if_false, Sys.modUdb]
    rfl

/-! ### Non-vacuity: concrete rows (moods unknown / missing / empty included) -/

private def r (t : Time) (mood : Option String) : MbSide := ⟨"m", false, "s", t, mood⟩

-- precedence: crowded > pruney > scary > errory > lonely(mood) > count
example : summarizeMailbox id [r 5 (some "scary"), r 3 (some "happy"), r 9 none] 20 true
    = ⟨3, some 2, 17, "crowded"⟩ := by rw [C15_summarizeMailbox]; decide
example : summarizeMailbox id [r 5 (some "scary"), r 3 (some "errory")] 20 true
    = ⟨3, some 2, 17, "pruney"⟩ := by rw [C15_summarizeMailbox]; decide
example : summarizeMailbox id [r 5 (some "errory"), r 3 (some "scary")] 20 false
    = ⟨3, some 2, 17, "scary"⟩ := by rw [C15_summarizeMailbox]; decide
example : summarizeMailbox id [r 5 (some "lonely"), r 3 (some "errory")] 20 false
    = ⟨3, some 2, 17, "errory"⟩ := by rw [C15_summarizeMailbox]; decide
example : summarizeMailbox id [r 5 (some "happy"), r 5 (some "lonely")] 20 false
    = ⟨5, some 0, 15, "lonely"⟩ := by rw [C15_summarizeMailbox]; decide
example : summarizeMailbox id [r 5 (some "bogus"), r 3 none] 20 false
    = ⟨3, some 2, 17, "happy"⟩ := by rw [C15_summarizeMailbox]; decide
example : summarizeMailbox id [r 5 (some "")] 20 false = ⟨5, none, 15, "lonely"⟩ := by
  rw [C15_summarizeMailbox]; decide
example : summarizeMailbox id [] 20 false = ⟨20, none, 0, "quiet"⟩ := by
  rw [C15_summarizeMailbox]; decide
example : summarizeMailbox id [] 20 true = ⟨20, none, 0, "pruney"⟩ := by
  rw [C15_summarizeMailbox]; decide
-- with a blur function
example : summarizeMailbox (fun t => 8 * (t / 8)) [r 13 none, r 21 none] 50 false
    = ⟨8, some 8, 37, "happy"⟩ := by rw [C15_summarizeMailbox]; decide

example : summarizeNameplate id [] 20 true = none := by rw [C15_summarizeNameplate]; decide
example : summarizeNameplate id [7] 20 false = some ⟨7, none, 13, "lonely"⟩ := by
  rw [C15_summarizeNameplate]; decide
example : summarizeNameplate id [9, 7] 20 false = some ⟨7, some 2, 13, "happy"⟩ := by
  rw [C15_summarizeNameplate]; decide
example : summarizeNameplate id [9, 7] 20 true = some ⟨7, some 2, 13, "pruney"⟩ := by
  rw [C15_summarizeNameplate]; decide
example : summarizeNameplate id [9, 7, 8, 7] 20 true = some ⟨7, some 0, 13, "crowded"⟩ := by
  rw [C15_summarizeNameplate]; decide
-- the hypotheses of the nameplate iffs are satisfiable
example : ∃ u, summarizeNameplate id [9, 7] 20 false = some u ∧ u.result = "happy" :=
  ⟨_, by rw [C15_summarizeNameplate]; rfl, by decide⟩

#print axioms C15_mailbox_result
#print axioms C15_mailbox_result_python
#print axioms C15_mailbox_times
#print axioms C15_mailbox_times_cases
#print axioms C15_summarizeMailbox
#print axioms mailbox_lonely_iff
#print axioms mailbox_happy_iff
#print axioms C15_nameplate_none_iff
#print axioms C15_summarizeNameplate
#print axioms C15_nameplate_result
#print axioms C15_nameplate_result_python
#print axioms C15_nameplate_times
#print axioms nameplate_lonely_iff
#print axioms C15_storeMailboxUsage
#print axioms C15_storeNameplateUsage

end C15
end Wormhole
