/-
  C10 (re-send clause), `close`: the statements of Props/C10b.lean WITHOUT their hypothesis
  `htg : x.closeTarget (some m) = some m` ("if the connection holds a handle it is the handle of the
  mailbox it names"), which C10b had to assume because it is not part of `GInv`.

  It is now derived:
    * `GSys.Reach.handleId` (Inv/HandleId.lean): in every reachable state a held handle `h` is the handle
      of the remembered id, `x.mailbox = some h → x.mailboxId = some h`;
    * the `close (some m)` was answered `closed`, so it was not rejected, and
      `rejectText x (.close (some m) mood) = none` forces `m = mailboxId` when an id is remembered
      ("open and close must use same mailbox");
    hence a held handle is `m` (`closeTarget_of_accepted`).

  * `C10_resend_close`            (was `C10_resend_close_partial` + `htg`) -- still partial for exactly the two
                                  known findings K-crowded-rejoin (`hguard`) and K-close-touch (`touch m t`),
                                  whose counterexamples are in C10b (`C10bExample.C10_close_touch_counterexample`,
                                  `C10bExample.C10_close_crowded_counterexample`); it keeps the suffix:
    `C10_resend_close_partial'`
  * `C10_resend_converges_partial'` the four commands together, with the guard `ResendGuard'` = only the
                                  K-crowded-rejoin condition.
-/
import Wormhole.Props.C10b
import Wormhole.Inv.HandleId

namespace Wormhole
open Sys Sys.Np

/-- a `close (some m)` that validation lets through, on a record whose handle (if any) is the handle of
    the remembered id, acts on `m` -/
theorem closeTarget_of_accepted {x : Conn} {m : String} {mood : Option String}
    (hinv : ∀ h, x.mailbox = some h → x.mailboxId = some h)
    (hr : rejectText x (.close (some m) mood) = none) : closeTarget x (some m) = some m := by
  unfold closeTarget
  cases hmb : x.mailbox with
  | none => rfl
  | some h =>
    have hid := hinv h hmb
    simp only [rejectText, needBind, hid] at hr
    split at hr
    · cases hr
    · split at hr
      · cases hr
      · split at hr
        · cases hr
        · rename_i hne
          have : m = h := by simpa using hne
          rw [this]

/-- an answered command was not rejected -/
theorem not_rejected_of_closed {s : Sys} {c : Nat} {x : Conn} (hx : s.findConn c = some x) {m : String}
    {mood : Option String} (t : Time) (id : Val) {b : Bool}
    (hans : Event.frame c .closed b ∈ (s.step (.recv c t id (.close (some m) mood))).out) :
    rejectText x (.close (some m) mood) = none := by
  cases hr : rejectText x (.close (some m) mood) with
  | none => rfl
  | some text => rcases rejected_out t id hx hr _ hans with ⟨_, e⟩ | ⟨_, e⟩ <;> cases e

/-- **C10 (re-sent `close`)** — `C10_resend_close_partial` of C10b with `htg` derived from the handle
    invariant.  Partial for exactly the two known findings (see C10b):
    K-crowded-rejoin (`hguard`: if the original connection held a handle, at most two side rows) and
    K-close-touch (database equal up to `touch m t`; EQUAL when the mailbox was deleted). -/
theorem C10_resend_close_partial' {g : GSys} (hg : g.ReachCF) {c : Nat} {x : Conn} {a σ : String}
    (hx : g.sys.findConn c = some x) (happ : x.app = some a) (hside : x.side = some σ)
    {m : String} {mood : Option String} (t : Time) (id : Val) (hw : g.WFOp (.recv c t id (.close (some m) mood)))
    {b : Bool} (hans : Event.frame c .closed b ∈ (g.sys.step (.recv c t id (.close (some m) mood))).out)
    (hguard : x.mailbox ≠ none → (g.sys.db.mbSidesOf m).length ≤ 2)
    {k : Nat} (hk : 1 ≤ k) (c' : Nat) (id₁ : Val) (impl ver : Option String) :
    (g.sys.step (.recv c t id (.close (some m) mood))).frames = [.frame c (.ack id) true, .frame c .closed true] ∧
    (resend (g.sys.step (.crashIn k (.recv c t id (.close (some m) mood)))) c' t id₁ id a σ impl ver
      (.close (some m) mood)).frames = [.frame c' (.ack id) true, .frame c' .closed true] ∧
    ((resend (g.sys.step (.crashIn k (.recv c t id (.close (some m) mood)))) c' t id₁ id a σ impl ver
        (.close (some m) mood)).db = (g.sys.step (.recv c t id (.close (some m) mood))).db ∨
      (resend (g.sys.step (.crashIn k (.recv c t id (.close (some m) mood)))) c' t id₁ id a σ impl ver
        (.close (some m) mood)).db = (g.sys.step (.recv c t id (.close (some m) mood))).db.touch m t) ∧
    (¬ (g.sys.step (.recv c t id (.close (some m) mood))).db.HasId m →
      (resend (g.sys.step (.crashIn k (.recv c t id (.close (some m) mood)))) c' t id₁ id a σ impl ver
        (.close (some m) mood)).db = (g.sys.step (.recv c t id (.close (some m) mood))).db) :=
  C10_resend_close_partial hg hx happ hside t id hw
    (closeTarget_of_accepted (hg.reach.handleId x (findConn_mem hx)) (not_rejected_of_closed hx t id hans))
    hans hguard hk c' id₁ impl ver

/-- the guard of K-crowded-rejoin, needed for `close` only: a connection that holds a handle closes a
    mailbox with at most two side rows (compare `ResendGuard` of C10b, which also carried `htg`) -/
def ResendGuard' (d : Chan) (x : Conn) : Cmd → Prop
  | .close (some m) _ => x.mailbox ≠ none → (d.mbSidesOf m).length ≤ 2
  | _ => True

/-- **C10_resend_converges_partial'** — `C10_resend_converges_partial` of C10b under the weaker guard
    `ResendGuard'` (K-crowded-rejoin only); the equality of the databases for `close` is up to `touch m t`
    (K-close-touch). -/
theorem C10_resend_converges_partial' {g : GSys} (hg : g.ReachCF) {c : Nat} {x : Conn} {a σ : String}
    (hx : g.sys.findConn c = some x) (happ : x.app = some a) (hside : x.side = some σ)
    {cmd cmd' : Cmd} (hcmd : ResendCmd cmd cmd') (t : Time) (id : Val) (hw : g.WFOp (.recv c t id cmd))
    (hans : Answered (g.sys.step (.recv c t id cmd)).out c id cmd) (hguard : ResendGuard' g.sys.db x cmd)
    {k : Nat} (hk : 1 ≤ k) (c' : Nat) (id₁ : Val) (impl ver : Option String) :
    (resend (g.sys.step (.crashIn k (.recv c t id cmd))) c' t id₁ id a σ impl ver cmd').frames =
      (g.sys.step (.recv c t id cmd)).frames.map (Event.toConn c') ∧
    ((resend (g.sys.step (.crashIn k (.recv c t id cmd))) c' t id₁ id a σ impl ver cmd').db =
        (g.sys.step (.recv c t id cmd)).db ∨
      ∃ m mood, cmd = .close (some m) mood ∧
        (resend (g.sys.step (.crashIn k (.recv c t id cmd))) c' t id₁ id a σ impl ver cmd').db =
          (g.sys.step (.recv c t id cmd)).db.touch m t) := by
  refine C10_resend_converges_partial hg hx happ hside hcmd t id hw hans ?_ hk c' id₁ impl ver
  cases hcmd with
  | claim n f f' => trivial
  | release n => trivial
  | open_ m => trivial
  | close m mood =>
    obtain ⟨b, hA⟩ := hans
    exact ⟨closeTarget_of_accepted (hg.reach.handleId x (findConn_mem hx)) (not_rejected_of_closed hx t id hA),
      hguard⟩

/-! ### Non-vacuity -/

namespace C10cExample
open C10bExample

/-- the state `gd` of C10b (connection 1 holds mailbox "m"): every hypothesis of
    `C10_resend_close_partial'` holds, no `htg` supplied … -/
def xd : Conn := { id := 1, app := some "app", side := some "s1", listening := true, mailbox := some "m",
                   mailboxId := some "m" }

theorem gd_reachCF : gd.ReachCF :=
  GSys.reachCF_run (.init cfg 0) Hd (GSys.wfB_sound (by decide +kernel)) (by decide)

example : gd.sys.findConn 1 = some xd ∧ gd.WFOp closeOp ∧
    Event.frame 1 .closed true ∈ (gd.sys.step closeOp).out ∧ (gd.sys.db.mbSidesOf "m").length ≤ 2 :=
  ⟨by decide +kernel, GSys.wfOpB_sound (by decide +kernel), by decide +kernel, by decide +kernel⟩

/-- … and the instance: crash after the first commit of the last close, re-send, databases equal -/
example : (resend (gd.sys.step (.crashIn 1 closeOp)) 9 200 (.int 7) (.int 3) "app" "s1" none none
    (.close (some "m") (some "happy"))).db = (gd.sys.step closeOp).db :=
  (C10_resend_close_partial' gd_reachCF (c := 1) (x := xd) (a := "app") (σ := "s1") (m := "m")
    (mood := some "happy") (by decide +kernel) rfl rfl 200 (.int 3) (GSys.wfOpB_sound (by decide +kernel))
    (b := true) (by decide +kernel) (fun _ => by decide +kernel) (k := 1) (by decide) 9 (.int 7) none none).2.2.2
    (by decide +kernel)

/-- the invariant itself on that state, and that it is not trivially true: connection 1 does hold a handle -/
example : ∀ y ∈ gd.sys.conns, ∀ h, y.mailbox = some h → y.mailboxId = some h := gd_reachCF.reach.handleId
example : ∃ y ∈ gd.sys.conns, y.mailbox = some "m" := ⟨xd, by decide +kernel, rfl⟩

/-- `close m` on a connection that never opened: during the step the record transiently holds the handle
    of `m` without remembering an id; afterwards it holds none -/
def Hn : List Op := [ .connect 1, bind 1 10 "s1", .recv 1 100 (.int 2) (.close (some "m") none) ]
example : ((GSys.init cfg 0).run Hn).sys.conns.map (fun y => (y.mailbox, y.mailboxId)) = [(none, none)] ∧
    (((GSys.init cfg 0).run Hn).sys.conns.map (·.didClose)) = [true] := by decide +kernel

end C10cExample

end Wormhole

#print axioms Wormhole.GSys.Reach.handleId
#print axioms Wormhole.closeTarget_of_accepted
#print axioms Wormhole.C10_resend_close_partial'
#print axioms Wormhole.C10_resend_converges_partial'
