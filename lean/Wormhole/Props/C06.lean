/-
  C06 — applications are isolated from each other.

  FULL STATEMENT (properties.jsonl, DESIGN.md §6):  for every history H mixing commands of two or
  more apps with sweeps and restarts, the observations of app b's clients and b's stored rows in
  H equal those in H with all other apps' commands removed; no command on a connection bound to
  one app reads, changes or deletes another app's nameplates, claims, mailboxes or messages.

  The full statement is FALSE for the model (= the code) because of finding K-global-mailbox-id:
  `mailboxes.id` is a global PRIMARY KEY, so when app a holds mailbox id "m", app b's
  `open`/`close`/`claim` naming "m" fails with an escaped `IntegrityError`
  (`C06_shared_id_counterexample`).  What is proved:

  * `C06_frame_recv` / `C06_frame_connect` / `C06_frame_drop`  (NO hypothesis beyond the global
    invariant `GInv` and well-formedness of the one operation; in particular NO disjointness of
    mailbox ids): a command of a connection bound to an app other than `b` (or the `bind` to
    another app) leaves every row of `b` unchanged — nameplates with app b, their side rows,
    mailboxes with app b, their side rows, messages with app b, usage rows with app b (`FrameB`:
    same rows, same order, surrogate ids included) —, leaves every connection record bound to `b`
    unchanged, and sends frames only to connections bound to other apps.
  * `C06_frame_sweep`: a sweep treats b's rows by b's own criteria: the rows of `b` after
    `expire()` are those that `expire()` leaves when run on b's rows and b's connections ALONE
    (`Sys.restrictB`), whatever the other apps' rows, listeners and usage are.
  * `C06_noninterference_partial`: for every well-formed crash-free history `H` (sweeps, restarts,
    connection-id reuse included) in which no command of a b-connection names a mailbox id that
    exists under another app only (`DisjointMailboxIds`, exactly the negation of the finding's
    trigger, checked at the moment the id is named), the run of `projB b H` (= `H` minus the
    commands of connections bound to other apps, `bind`s to other apps included) produces, step
    by step, the same frames as the kept steps of the run of `H` (addressee, content, `synced`
    flag, order), and ends with the same `viewB b` (b's rows with nameplate side rows joined to
    the nameplate NAME instead of the surrogate `nameplates.id`, the only thing other apps'
    activity shifts: AUTOINCREMENT), the same usage rows of app b and the same records of the
    connections bound to b.

  `projB` keeps `connect`/`drop` of every connection (a connection that later binds to another
  app stays in the projected run as a never-bound connection — it receives its `welcome` and
  nothing else — and is dropped at the same point; so connection ids can be reused freely).
  What "frames of b's clients" means precisely: all frames of all kept steps are equal; the
  removed steps send frames only to connections bound to other apps (`C06_frame_recv`).

  NOT covered: crashes (`crashIn`): the k-th effective commit of an operation is a different
  point in the two runs (other apps' rows make different commits effective), as for C18.

  Proof: Inv/IsoFrame*.lean (frame lemmas per primitive / Core function / handler),
  Inv/IsoSim*.lean (two-run simulation: relation `IsoRel b ρ` "the second run holds exactly b's
  rows of the first, nameplate ids renamed by ρ"; steps of other apps are stutter steps by the
  frame lemmas, all other steps are matched steps).
-/
import Wormhole.Inv.IsoSimSweep

set_option linter.unusedSimpArgs false

namespace Wormhole
open Sys

/-! ## Part 1: the frame property -/

/-- **C06 (frame), commands.**  From any state satisfying the global invariant: a message on a
    connection bound to an app other than `b`, or the `bind` of a connection to an app other than
    `b` (`otherOp`), leaves `b`'s rows of the five tables, `b`'s usage rows and the records of
    the connections bound to `b` unchanged (`FrameB`), sends frames only to connections that are
    bound to other apps afterwards, and leaves the acting connection bound to another app. -/
theorem C06_frame_recv {g : GSys} (hI : g.GInv) (b : String) {c : Nat} {t : Time} {id : Val} {cmd : Cmd}
    (hw : g.WFOp (.recv c t id cmd)) (ho : g.sys.otherOp b (.recv c t id cmd) = true) :
    FrameB b g.sys (g.sys.step (.recv c t id cmd)) ∧
      (∀ e ∈ (g.sys.step (.recv c t id cmd)).out, FrameTo (otherIds b (g.sys.step (.recv c t id cmd)).conns) e) ∧
      ∃ a, (g.sys.step (.recv c t id cmd)).appOf c = some a ∧ a ≠ b :=
  ⟨(recv_frameB hI b hw ho).1, recv_frameB_out hI b hw ho, recv_otherOp_post hI b hw ho⟩

/-- what `FrameB` says, spelled out -/
theorem frameB_iff (b : String) (s s' : Sys) :
    FrameB b s s' ↔
      (s'.db.npsB b = s.db.npsB b ∧ s'.db.npSidesB b = s.db.npSidesB b ∧ s'.db.mbsB b = s.db.mbsB b ∧
        s'.db.mbSidesB b = s.db.mbSidesB b ∧ s'.db.msgsB b = s.db.msgsB b) ∧
      (s'.udb.npsB b = s.udb.npsB b ∧ s'.udb.mbsB b = s.udb.mbsB b ∧ s'.udb.clientsB b = s.udb.clientsB b) ∧
      ConnsFrame b s.conns s'.conns ∧ s'.cfg = s.cfg := by
  constructor
  · rintro ⟨⟨a1, a2, a3, a4, a5⟩, ⟨b1, b2, b3⟩, c, d⟩
    exact ⟨⟨a1, a2, a3, a4, a5⟩, ⟨b1, b2, b3⟩, c, d⟩
  · rintro ⟨⟨a1, a2, a3, a4, a5⟩, ⟨b1, b2, b3⟩, c, d⟩
    exact ⟨⟨a1, a2, a3, a4, a5⟩, ⟨b1, b2, b3⟩, c, d⟩

/-- `ConnsFrame` keeps the records of the connections bound to `b` -/
theorem connsFrame_boundB {b : String} {l l' : List Conn} (h : ConnsFrame b l l') :
    l'.filter (fun x => x.app = some b) = l.filter (fun x => x.app = some b) := by
  have h1 : All2 (fun x x' => x' = x) (l.filter (fun x => x.app = some b)) (l'.filter (fun x => x.app = some b)) := by
    have := All2.filter (fun x : Conn => decide (x.app = some b)) (fun x : Conn => decide (x.app = some b)) h
      (by
        intro x _ x' _ r
        rcases r.2 with rfl | ⟨⟨a, ha, hab⟩, hnb⟩
        · rfl
        · have : ¬ x'.app = some b := by rw [ha]; intro e; exact hab (Option.some.inj e)
          simp [this, hnb])
    refine this.mono ?_
    intro x hx x' hx' r
    rcases r.2 with e | ⟨⟨a, ha, hab⟩, _⟩
    · exact e
    · have hb' := (List.mem_filter.1 hx').2
      simp only [decide_eq_true_eq] at hb'
      rw [ha] at hb'
      exact absurd (Option.some.inj hb') hab
  have := All2.map_eq (fun x : Conn => x) (fun x : Conn => x) h1 (fun x _ x' _ r => r.symm)
  simpa using this.symm

/-- **C06 (frame), connect / drop.**  A `connect` changes no row and no record of an existing
    connection and sends its one frame to the new connection; the `drop` of a connection that is
    not bound to `b` changes no row and no record of a connection bound to `b`, and sends
    nothing. -/
theorem C06_frame_connect (b : String) (s : Sys) (c : Nat) :
    FrameConnB b s (s.connect c) ∧ (s.connect c).out = s.out ++ [.frame c (.welcome s.cfg.welcome) s.synced] :=
  ⟨connect_frameB b s c, connect_out s c⟩

theorem C06_frame_drop (b : String) (s : Sys) (c : Nat) (h : ∀ x ∈ s.conns, x.id = c → x.app ≠ some b) :
    FrameConnB b s (s.dropConn c) ∧ (s.dropConn c).out = s.out :=
  ⟨dropConn_frameB h, dropConn_out s c⟩

/-! ## Part 2: noninterference -/

/-- `H` without the commands of connections bound to apps other than `b` (decided on the state
    of the full run before each operation; `connect`, `drop`, `sweep`, `restart` stay) -/
def projB (b : String) : Sys → List Op → List Op
  | _, [] => []
  | s, op :: rest => if s.otherOp b op then projB b (s.step op) rest else op :: projB b (s.step op) rest

/-- the frames of the kept steps of the full run, in order -/
def obsB (b : String) : Sys → List Op → List Event
  | _, [] => []
  | s, op :: rest => (if s.otherOp b op then [] else (s.step op).frames) ++ obsB b (s.step op) rest

/-- **Hyp** (the guard of K-global-mailbox-id): along the run of `H`, whenever a command arrives
    on a connection bound to `b`, none of the mailbox ids it names (the generated id of
    `claim`/`allocate`, the id of `open`/`close`, the id remembered from `open` for a `close`
    without one) exists under another app while not under `b`. -/
def DisjointMailboxIds (b : String) : Sys → List Op → Prop
  | _, [] => True
  | s, op :: rest =>
    (∀ c t id cmd x, op = .recv c t id cmd → s.findConn c = some x → x.app = some b → NoForeign s.db b x cmd) ∧
      DisjointMailboxIds b (s.step op) rest

/-- b's rows with the nameplate side rows joined to the nameplate's name -/
structure ViewB where
  nameplates : List (String × String)
  npSides : List (String × Bool × String × Time)
  mailboxes : List MailboxRow
  mbSides : List MbSide
  messages : List Message
  deriving DecidableEq, Repr

/-- the name of b's nameplate with id `i` -/
def Chan.nameOfB (d : Chan) (b : String) (i : Nat) : Option String :=
  ((d.npsB b).find? (fun n => n.id = i)).map (·.name)

def Chan.viewB (d : Chan) (b : String) : ViewB where
  nameplates := (d.npsB b).map (fun n => (n.name, n.mailbox))
  npSides := (d.npSidesB b).filterMap (fun r => (d.nameOfB b r.npid).map (fun nm => (nm, r.claimed, r.side, r.added)))
  mailboxes := d.mbsB b
  mbSides := d.mbSidesB b
  messages := d.msgsB b

theorem filterMap_congr_mem {α β : Type} {f g : α → Option β} :
    ∀ {l : List α}, (∀ x ∈ l, f x = g x) → l.filterMap f = l.filterMap g
  | [], _ => rfl
  | a :: l, h => by
    simp only [List.filterMap_cons, h a (by simp)]
    rw [filterMap_congr_mem (fun x hx => h x (by simp [hx]))]

/-- related databases have the same view -/
theorem Chan.ViewRel.viewB {b : String} {ρ : Nat → Nat} {d₁ d₂ : Chan} (h : Chan.ViewRel b ρ d₁ d₂) :
    d₂.viewB b = d₁.viewB b := by
  have hnps : d₂.npsB b = (d₁.npsB b).map (Chan.rnNp ρ) := by
    show d₂.nameplates.filter (fun n => n.app = b) = _
    rw [h.nps, List.filter_eq_self]
    intro n hn
    obtain ⟨n', hn', rfl⟩ := List.mem_map.1 hn
    have := (List.mem_filter.1 hn').2
    simp only [decide_eq_true_eq] at this
    exact decide_eq_true this
  have hids : ∀ i, i ∈ d₁.npIdsB b → ρ i ∈ d₂.npIdsB b := by
    intro i hi
    unfold Chan.npIdsB at hi ⊢
    rw [hnps, List.map_map]
    obtain ⟨n, hn, rfl⟩ := List.mem_map.1 hi
    exact List.mem_map.2 ⟨n, hn, rfl⟩
  have hsides : d₂.npSidesB b = (d₁.npSidesB b).map (Chan.rnSide ρ) := by
    show d₂.npSides.filter (fun r => r.npid ∈ d₂.npIdsB b) = _
    rw [h.sides, List.filter_eq_self]
    intro r hr
    obtain ⟨r', hr', rfl⟩ := List.mem_map.1 hr
    have := hids _ (Chan.mem_npSidesB.1 hr').2
    exact decide_eq_true this
  have hmbs : d₂.mbsB b = d₁.mbsB b := by
    show d₂.mailboxes.filter (fun m => m.app = b) = _
    rw [h.mbs, List.filter_eq_self]
    intro m hm
    simpa [Chan.mbsB] using (List.mem_filter.1 hm).2
  have hmbSides : d₂.mbSidesB b = d₁.mbSidesB b := by
    have hid : d₂.mbIdsB b = d₁.mbIdsB b := by unfold Chan.mbIdsB; rw [hmbs]
    show d₂.mbSides.filter (fun r => r.mailbox ∈ d₂.mbIdsB b) = _
    rw [hid, h.mbSides, List.filter_eq_self]
    intro r hr
    simpa [Chan.mbSidesB] using (List.mem_filter.1 hr).2
  have hmsgs : d₂.msgsB b = d₁.msgsB b := by
    show d₂.messages.filter (fun m => m.app = b) = _
    rw [h.msgs, List.filter_eq_self]
    intro m hm
    simpa [Chan.msgsB] using (List.mem_filter.1 hm).2
  have hname : ∀ i ∈ d₁.npIdsB b, d₂.nameOfB b (ρ i) = d₁.nameOfB b i := by
    intro i hi
    unfold Chan.nameOfB
    rw [hnps, List.find?_map, Option.map_map]
    have : List.find? ((fun n : Nameplate => decide (n.id = ρ i)) ∘ Chan.rnNp ρ) (d₁.npsB b) =
        List.find? (fun n => decide (n.id = i)) (d₁.npsB b) := by
      apply find?_congr_mem
      intro n hn
      have hn' : n.id ∈ d₁.npIdsB b := List.mem_map.2 ⟨n, hn, rfl⟩
      by_cases e : n.id = i
      · simp [e]
      · have : ¬ ρ n.id = ρ i := fun e' => e (h.inj _ hn' _ hi e')
        simp [e, this]
    rw [this]
    rfl
  unfold Chan.viewB
  rw [hmbs, hmbSides, hmsgs, hnps, hsides]
  congr 1
  · rw [List.map_map]; rfl
  · rw [List.filterMap_map]
    apply filterMap_congr_mem
    intro r hr
    simp only [Function.comp, Chan.rnSide_npid, Chan.rnSide_claimed, Chan.rnSide_side, Chan.rnSide_added]
    rw [hname _ (Chan.mem_npSidesB.1 hr).2]

/-- the relation between the two runs BETWEEN operations -/
abbrev Sys.clr (s : Sys) : Sys := { s with out := [], snaps := [] }

def IsoSim (b : String) (s₁ s₂ : Sys) : Prop := IW b s₁.clr s₂.clr

theorem Sys.IW.clr {b : String} {s₁ s₂ : Sys} (w : IW b s₁ s₂) : IsoSim b s₁ s₂ := by
  obtain ⟨ρ, h⟩ := w.rel
  exact ⟨⟨ρ, ⟨h.db, h.udb, h.conns, h.cfg, rfl⟩⟩, Ok.clear w.oka.synced w.oka.np, Ok.clear w.okb.synced w.okb.np⟩

/-- what `IsoSim` gives at the end of a run -/
theorem IsoSim.view {b : String} {s₁ s₂ : Sys} (w : IsoSim b s₁ s₂) :
    s₂.db.viewB b = s₁.db.viewB b ∧ Usage.SameB b s₁.udb s₂.udb ∧
      s₂.conns.filter (fun x => x.app = some b) = s₁.conns.filter (fun x => x.app = some b) ∧ s₁.cfg = s₂.cfg := by
  obtain ⟨ρ, h⟩ := w.rel
  refine ⟨h.db.viewB, h.udb, ?_, h.cfg⟩
  have hc : All2 (ConnRel b) s₁.conns s₂.conns := h.conns
  have h1 := All2.filter (fun x : Conn => decide (x.app = some b)) (fun x : Conn => decide (x.app = some b)) hc
    (by
      intro x₁ _ x₂ _ r
      by_cases ho : x₁.other b
      · obtain ⟨a, ha, hab⟩ := ho
        have := r.2.2 ⟨a, ha, hab⟩
        have hne : ¬ a = b := hab
        simp [ha, this, hne]
      · rw [r.2.1 ho])
  have := All2.map_eq (fun x : Conn => x) (fun x : Conn => x) h1 (by
    intro x₁ hx₁ x₂ _ r
    have hb' := (List.mem_filter.1 hx₁).2
    simp only [decide_eq_true_eq] at hb'
    have hno : ¬ x₁.other b := by
      intro ⟨a, ha, hab⟩; rw [ha] at hb'; exact hab (Option.some.inj hb')
    exact (r.2.1 hno).symm)
  simpa using this.symm

/-- **matched step**: an operation that is not a command of another app -/
theorem isoSim_step_matched {b : String} {g : GSys} {s₂ : Sys} (hI : g.GInv) (w : IsoSim b g.sys s₂) (op : Op)
    (hw : g.WFOp op) (hcr : op.isCrash = false) (hno : g.sys.otherOp b op = false)
    (hg : ∀ c t id cmd x, op = .recv c t id cmd → g.sys.findConn c = some x → x.app = some b →
      NoForeign g.sys.db b x cmd) :
    IW b (g.sys.step op) (s₂.step op) := by
  rw [step_eq_of_not_crash g.sys hcr, step_eq_of_not_crash s₂ hcr]
  have hF : g.cleared.Full (g.opU op) (g.opTime op) False := hI.full (S := False) False.elim op hw.mono
  refine IW.stepPlain (s₁ := g.sys.clr) (s₂ := s₂.clr) w hF op hcr ?_ ?_ ?_
  · intro t' e
    unfold GSys.opTime; rw [e]
  · rw [← hno]; exact otherOp_cleared b g op
  · intro c t id cmd x e hx hxa
    exact hg c t id cmd x e hx hxa

/-- **stutter step**: a command of another app -/
theorem isoSim_step_stutter {b : String} {g : GSys} {s₂ : Sys} (hI : g.GInv) (w : IsoSim b g.sys s₂) (op : Op)
    (hw : g.WFOp op) (ho : g.sys.otherOp b op = true) : IsoSim b (g.sys.step op) s₂ := by
  cases op with
  | recv c t id cmd =>
    obtain ⟨hf, _, _⟩ := recv_frameB hI b hw ho
    obtain ⟨ρ, h⟩ := w.rel
    have hI' := hI.step _ hw
    have hf' : FrameB b g.sys.clr (g.sys.step (.recv c t id cmd)).clr := ⟨hf.db, hf.udb, hf.conns, hf.cfg⟩
    exact ⟨⟨ρ, h.of_frameB_left hf' rfl⟩, Ok.clear hI'.synced hI'.cinv.npOk, w.okb⟩
  | connect _ => simp [Sys.otherOp] at ho
  | drop _ => simp [Sys.otherOp] at ho
  | sweep _ _ => simp [Sys.otherOp] at ho
  | restart _ => simp [Sys.otherOp] at ho
  | crashIn _ _ => simp [Sys.otherOp] at ho

/-- **C06, histories from related states** -/
theorem C06_run (b : String) : ∀ (H : List Op) {g : GSys} {s₂ : Sys}, g.GInv → IsoSim b g.sys s₂ →
    g.WF H → (∀ op ∈ H, op.isCrash = false) → DisjointMailboxIds b g.sys H →
    IsoSim b (Sys.run g.sys H).1 (Sys.run s₂ (projB b g.sys H)).1 ∧
      (Sys.run s₂ (projB b g.sys H)).2.filter Event.isFrame = obsB b g.sys H
  | [], _, _, _, w, _, _, _ => ⟨w, rfl⟩
  | op :: rest, g, s₂, hI, w, hwf, hcf, hd => by
    have hI' : (g.step op).GInv := hI.step op hwf.1
    have hcf' : ∀ o ∈ rest, o.isCrash = false := fun o ho => hcf o (by simp [ho])
    by_cases ho : g.sys.otherOp b op = true
    · have w' := isoSim_step_stutter hI w op hwf.1 ho
      obtain ⟨k1, k2⟩ := C06_run b rest (g := g.step op) hI' w' hwf.2 hcf' hd.2
      simp only [projB, obsB, ho, if_true, Sys.run, List.nil_append]
      exact ⟨k1, k2⟩
    · have ho' : g.sys.otherOp b op = false := by simpa using ho
      have w1 := isoSim_step_matched hI w op hwf.1 (hcf op (by simp)) ho' hd.1
      obtain ⟨ρ, h⟩ := w1.rel
      obtain ⟨k1, k2⟩ := C06_run b rest (g := g.step op) hI' w1.clr hwf.2 hcf' hd.2
      simp only [projB, obsB, ho', Bool.false_eq_true, if_false, Sys.run, List.filter_append]
      refine ⟨k1, ?_⟩
      have hfr : (s₂.step op).out.filter Event.isFrame = (g.sys.step op).frames := h.frames.symm
      rw [hfr]
      exact congrArg _ k2

theorem isoSim_init (b : String) (cfg : Cfg) (rb : Time) :
    IsoSim b ({ cfg := cfg, rebooted := rb } : Sys) ({ cfg := cfg, rebooted := rb } : Sys) := by
  refine ⟨⟨id, ⟨?_, Usage.SameB.refl _ _, .nil, rfl, rfl⟩⟩, Ok.clear ⟨rfl, rfl⟩ ?_, Ok.clear ⟨rfl, rfl⟩ ?_⟩
  · refine ⟨rfl, rfl, ?_, rfl, rfl, rfl⟩
    intro i hi; simp [Chan.npIdsB, Chan.npsB] at hi
  · exact ⟨⟨by intro n hn; simp at hn, by intro r hr; simp at hr⟩, List.Pairwise.nil, by intro n hn; simp at hn⟩
  · exact ⟨⟨by intro n hn; simp at hn, by intro r hr; simp at hr⟩, List.Pairwise.nil, by intro n hn; simp at hn⟩

/-- **C06 (noninterference), partial: under the guard of K-global-mailbox-id.**
    For every configuration, every app `b`, every well-formed crash-free history `H` in which no
    command of a b-connection names a mailbox id held by another app only: the run of `H` without
    the other apps' commands sends, step by step, exactly the frames of the kept steps of the run
    of `H`, and ends with the same `viewB b`, the same usage rows of `b`, the same records of the
    connections bound to `b`. -/
theorem C06_noninterference_partial (cfg : Cfg) (rb : Time) (b : String) (H : List Op)
    (hwf : (GSys.init cfg rb).WF H) (hcf : ∀ op ∈ H, op.isCrash = false)
    (hd : DisjointMailboxIds b ({ cfg := cfg, rebooted := rb } : Sys) H) :
    let s₀ : Sys := { cfg := cfg, rebooted := rb }
    let A := Sys.run s₀ H
    let B := Sys.run s₀ (projB b s₀ H)
    B.2.filter Event.isFrame = obsB b s₀ H ∧
      B.1.db.viewB b = A.1.db.viewB b ∧
      Usage.SameB b A.1.udb B.1.udb ∧
      B.1.conns.filter (fun x => x.app = some b) = A.1.conns.filter (fun x => x.app = some b) := by
  intro s₀ A B
  obtain ⟨k1, k2⟩ := C06_run b H (g := GSys.init cfg rb) (GSys.GInv.init cfg rb) (isoSim_init b cfg rb) hwf hcf hd
  obtain ⟨v1, v2, v3, _⟩ := k1.view
  exact ⟨k2, v1, v2, v3⟩

/-! ## Part 3: the sweep clause of the frame property, and "determined by b's rows" in general -/

/-- b's rows of a channel database, nothing else (same ids, same counter) -/
def Chan.restrictB (d : Chan) (b : String) : Chan :=
  { nameplates := d.npsB b, npSides := d.npSidesB b, mailboxes := d.mbsB b, mbSides := d.mbSidesB b,
    messages := d.msgsB b, nextNp := d.nextNp }

/-- the state cut down to app `b`: b's rows (live and committed), and the connection table with
    the records of connections bound to other apps blanked (kept as never-bound connections);
    configuration and usage database unchanged -/
def Sys.restrictB (s : Sys) (b : String) : Sys :=
  { s with db := s.db.restrictB b, disk := s.disk.restrictB b,
           conns := s.conns.map (fun x => if x.other b then ({ id := x.id } : Conn) else x) }

theorem Chan.viewRel_restrictB (d : Chan) (b : String) : Chan.ViewRel b id d (d.restrictB b) := by
  refine ⟨?_, ?_, fun _ _ _ _ e => e, rfl, rfl, rfl⟩
  · show d.npsB b = (d.npsB b).map (Chan.rnNp id)
    rw [List.map_congr_left (g := fun n => n) (fun n _ => by cases n; rfl), List.map_id']
  · show d.npSidesB b = (d.npSidesB b).map (Chan.rnSide id)
    rw [List.map_congr_left (g := fun n => n) (fun n _ => by cases n; rfl), List.map_id']

theorem Chan.NpOk.restrictB {d : Chan} (h : d.NpOk) (b : String) : (d.restrictB b).NpOk := by
  refine ⟨⟨?_, ?_⟩, ?_, ?_⟩
  · intro n hn; exact h.bounded.1 n (List.mem_filter.1 hn).1
  · intro r hr; exact h.bounded.2 r (List.mem_filter.1 hr).1
  · exact List.Pairwise.filter _ h.ids
  · intro n hn
    obtain ⟨r, hr, e⟩ := h.hasSide n (List.mem_filter.1 hn).1
    refine ⟨r, Chan.mem_npSidesB.2 ⟨hr, ?_⟩, e⟩
    rw [e]
    exact List.mem_map.2 ⟨n, hn, rfl⟩

/-- a state and its cut to app `b` are related -/
theorem isoSim_restrictB (b : String) {s : Sys} (hs : s.Synced) (hn : s.db.NpOk) : IsoSim b s (s.restrictB b) := by
  refine ⟨⟨id, ⟨Chan.viewRel_restrictB s.db b, Usage.SameB.refl _ _, ?_, rfl, rfl⟩⟩, Ok.clear hs hn, Ok.clear ⟨?_, hs.2⟩ (hn.restrictB b)⟩
  · show All2 (ConnRel b) s.conns (s.conns.map _)
    have h0 : All2 (fun x y : Conn => y = x) s.conns s.conns := All2.refl_of _ (fun _ _ => rfl)
    have := All2.map (R' := ConnRel b) (fun x : Conn => x) (fun x : Conn => if x.other b then ({ id := x.id } : Conn) else x) h0
      (by
        intro x _ y _ e
        subst e
        by_cases ho : y.other b
        · rw [if_pos ho]; exact ⟨rfl, fun h' => (h' ho).elim, fun _ => rfl⟩
        · rw [if_neg ho]; exact ⟨rfl, fun _ => rfl, fun h' => (ho h').elim⟩)
    simpa using this
  · show s.db.restrictB b = s.disk.restrictB b
    rw [hs.1]

/-- **C06 (frame), sweep** — and every other operation that is not a command of another app.
    From any state satisfying the global invariant, the rows of `b` (as `viewB`), the usage rows
    of `b`, the records of b's connections and the frames after such an operation are those the
    operation produces from the state CUT DOWN to app `b` (`Sys.restrictB`): they are determined
    by b's rows, b's connections, the configuration and the operation (for a sweep: `now`) —
    other apps' rows, listeners and old mailboxes have no influence.  In particular a sweep
    deletes rows of `b` by b's own criteria only. -/
theorem C06_frame_determined {g : GSys} (hI : g.GInv) (b : String) (op : Op) (hw : g.WFOp op)
    (hcr : op.isCrash = false) (hno : g.sys.otherOp b op = false)
    (hg : ∀ c t id cmd x, op = .recv c t id cmd → g.sys.findConn c = some x → x.app = some b →
      NoForeign g.sys.db b x cmd) :
    ((g.sys.restrictB b).step op).db.viewB b = (g.sys.step op).db.viewB b ∧
      Usage.SameB b (g.sys.step op).udb ((g.sys.restrictB b).step op).udb ∧
      ((g.sys.restrictB b).step op).conns.filter (fun x => x.app = some b) =
        (g.sys.step op).conns.filter (fun x => x.app = some b) ∧
      ((g.sys.restrictB b).step op).frames = (g.sys.step op).frames := by
  have w1 := isoSim_step_matched hI (isoSim_restrictB b hI.synced hI.cinv.npOk) op hw hcr hno hg
  obtain ⟨ρ, h⟩ := w1.rel
  obtain ⟨v1, v2, v3, _⟩ := w1.clr.view
  exact ⟨v1, v2, v3, h.frames.symm⟩

/-- a sweep sends no frame -/
theorem expire_frames (s : Sys) (now : Time) (fault : Bool) : (s.expire now fault).frames = s.frames := by
  obtain ⟨l, e, hl⟩ := Sys.expire_notFrame (s := s) (now := now) (fault := fault)
  unfold Sys.frames
  rw [e, List.filter_append]
  have : l.filter Event.isFrame = [] := by
    rw [List.filter_eq_nil_iff]
    intro ev hev
    have := hl ev hev
    cases ev <;> simp_all [Sys.NotFrame, Event.isFrame]
  rw [this, List.append_nil]

theorem C06_frame_sweep {g : GSys} (hI : g.GInv) (b : String) (now : Time) (fault : Bool)
    (hw : g.WFOp (.sweep now fault)) :
    ((g.sys.restrictB b).step (.sweep now fault)).db.viewB b = (g.sys.step (.sweep now fault)).db.viewB b ∧
      Usage.SameB b (g.sys.step (.sweep now fault)).udb ((g.sys.restrictB b).step (.sweep now fault)).udb ∧
      (g.sys.step (.sweep now fault)).frames = [] := by
  obtain ⟨a1, a2, _, a4⟩ := C06_frame_determined hI b (.sweep now fault) hw rfl rfl
    (by intro c t id cmd x e; cases e)
  refine ⟨a1, a2, ?_⟩
  have : (g.sys.step (.sweep now fault)).frames = ({ g.sys with out := [], snaps := [] } : Sys).frames :=
    expire_frames _ now fault
  rw [this]; rfl

/-! ## Part 4: the finding, the guard made executable, non-vacuity -/

instance (d : Chan) (a m : String) : Decidable (d.HasMb a m) := by unfold Chan.HasMb; infer_instance
instance (d : Chan) (a m : String) : Decidable (d.ForeignMb a m) := by unfold Chan.ForeignMb; infer_instance
instance (d : Chan) (b : String) (x : Conn) (cmd : Cmd) : Decidable (NoForeign d b x cmd) := by
  unfold NoForeign; infer_instance

/-- executable form of `DisjointMailboxIds` -/
def disjointOpB (b : String) (s : Sys) : Op → Bool
  | .recv c _ _ cmd =>
    match s.findConn c with
    | some x => if x.app = some b then decide (NoForeign s.db b x cmd) else true
    | none => true
  | _ => true

def disjointB (b : String) : Sys → List Op → Bool
  | _, [] => true
  | s, op :: rest => disjointOpB b s op && disjointB b (s.step op) rest

theorem disjointB_sound (b : String) : ∀ (H : List Op) (s : Sys), disjointB b s H = true → DisjointMailboxIds b s H
  | [], _, _ => trivial
  | op :: rest, s, h => by
    simp only [disjointB, Bool.and_eq_true] at h
    refine ⟨?_, disjointB_sound b rest _ h.2⟩
    intro c t id cmd x e hx hxa
    subst e
    have := h.1
    simp only [disjointOpB, hx, hxa, if_true, decide_eq_true_eq] at this
    exact this

namespace C06Example

/-- two apps with identical nameplate names, side strings, phases and bodies, distinct mailbox
    ids; app "a" is active before and between b's commands (so b's nameplate gets id 2 in the
    full run and id 1 in the projected run); a's close, a sweep, a reconnect with a reused
    connection id that binds to "b" this time, a second claimant, list, release.
    (The sweep comes when only "b" has rows: with two apps `get_all_apps` sorts a two-element
    list, and the kernel cannot evaluate `List.mergeSort` — defined by well-founded recursion —
    on two or more elements, so `decide` fails; the theorem has no such restriction.) -/
def hist : List Op :=
  [ .connect 1, .connect 2,
    .recv 1 1 (.int 1) (.bind (some "a") (some "s1") none none),
    .recv 2 1 (.int 1) (.bind (some "b") (some "s1") none none),
    .recv 1 2 (.int 2) (.claim (some "4") "m1"),
    .recv 2 2 (.int 2) (.claim (some "4") "m2"),
    .recv 1 3 (.int 3) (.open_ (some "m1")),
    .recv 2 3 (.int 3) (.open_ (some "m2")),
    .recv 1 4 (.int 4) (.add (some (.str "pake")) (some (.str "x"))),
    .recv 2 4 (.int 4) (.add (some (.str "pake")) (some (.str "x"))),
    .recv 1 6 (.int 5) (.close (some "m1") (some "happy")),
    .sweep 7 false,
    .drop 1,
    .connect 1,
    .recv 1 8 (.int 1) (.bind (some "b") (some "s2") none none),
    .recv 1 9 (.int 2) (.claim (some "4") "m3"),
    .recv 1 10 (.int 3) (.open_ (some "m2")),
    .recv 2 11 (.int 5) .list,
    .recv 2 12 (.int 6) (.release none) ]

def s₀ : Sys := { cfg := { usage := true }, rebooted := 0 }
def A : Sys × List Event := Sys.run s₀ hist
def B : Sys × List Event := Sys.run s₀ (projB "b" s₀ hist)

/-- the hypotheses of `C06_noninterference_partial` hold for the example -/
example : (GSys.init { usage := true } 0).WF hist ∧ (∀ op ∈ hist, op.isCrash = false) ∧
    DisjointMailboxIds "b" s₀ hist :=
  ⟨GSys.wfB_sound (by decide +kernel), by decide, disjointB_sound "b" hist s₀ (by decide +kernel)⟩

/-- five operations of app "a" are removed -/
example : hist.length = 19 ∧ (projB "b" s₀ hist).length = 14 := by decide +kernel

/-- evaluated, not derived from the theorem: frames of the kept steps, the view, the usage rows
    and b's connection records agree … -/
example : B.2.filter Event.isFrame = obsB "b" s₀ hist ∧ (obsB "b" s₀ hist).length = 18 ∧
    B.1.db.viewB "b" = A.1.db.viewB "b" ∧
    B.1.udb.clientsB "b" = A.1.udb.clientsB "b" ∧ (A.1.udb.clientsB "b").length = 2 ∧
    B.1.conns.filter (fun x => x.app = some "b") = A.1.conns.filter (fun x => x.app = some "b") := by
  decide +kernel

/-- … the view is not trivial … -/
example : A.1.db.viewB "b" =
    { nameplates := [("4", "m2")], npSides := [("4", false, "s1", 2), ("4", true, "s2", 9)],
      mailboxes := [⟨"b", "m2", 10, true⟩],
      mbSides := [⟨"m2", true, "s1", 2, none⟩, ⟨"m2", true, "s2", 9, none⟩],
      messages := [⟨"b", "m2", "s1", .str "pake", .str "x", 4, .str "4"⟩] } := by
  decide +kernel

/-- … while the raw tables differ: the surrogate `nameplates.id` of b's nameplate is 2 in the
    full run and 1 without app "a" (AUTOINCREMENT), and so is `nameplate_sides.nameplates_id` -/
example : A.1.db.nameplates.map (·.id) = [2] ∧ B.1.db.nameplates.map (·.id) = [1] ∧
    A.1.db.npSides.map (·.npid) = [2, 2] ∧ B.1.db.npSides.map (·.npid) = [1, 1] := by
  decide +kernel

/-- **K-global-mailbox-id**: app "a" holds mailbox id "m"; app "b" opens "m".  In the full run
    b's `open` raises `IntegrityError` (an `internal` event; the client gets the `ack` and nothing
    else, no row is created); without app "a" it succeeds. -/
def sharedHist : List Op :=
  [ .connect 1, .connect 2,
    .recv 1 1 (.int 1) (.bind (some "a") (some "s1") none none),
    .recv 2 1 (.int 1) (.bind (some "b") (some "s1") none none),
    .recv 1 2 (.int 2) (.open_ (some "m")),
    .recv 1 3 (.int 3) (.add (some (.str "pake")) (some (.str "x"))),
    .recv 2 4 (.int 2) (.open_ (some "m")),
    .recv 2 5 (.int 3) (.add (some (.str "pake")) (some (.str "y"))) ]

end C06Example

open C06Example in
/-- **C06 fails without the guard (K-global-mailbox-id).**  A well-formed crash-free history in
    which app "b" names a mailbox id that app "a" holds: the guard is violated, b's client
    observes something else than without app "a" (an `internal` `IntegrityError` and the error
    "must open mailbox before adding" instead of the `message` echo), and b's stored rows differ
    (none, instead of a mailbox with a side row and a message). -/
theorem C06_shared_id_counterexample :
    (GSys.init {} 0).WF sharedHist ∧ (∀ op ∈ sharedHist, op.isCrash = false) ∧
    ¬ DisjointMailboxIds "b" ({ cfg := {}, rebooted := 0 } : Sys) sharedHist ∧
    (Sys.run ({ cfg := {}, rebooted := 0 } : Sys) (projB "b" {} sharedHist)).2.filter Event.isFrame ≠
      obsB "b" ({ cfg := {}, rebooted := 0 } : Sys) sharedHist ∧
    (Sys.run ({ cfg := {}, rebooted := 0 } : Sys) (projB "b" {} sharedHist)).1.db.viewB "b" ≠
      (Sys.run ({ cfg := {}, rebooted := 0 } : Sys) sharedHist).1.db.viewB "b" ∧
    Event.internal (some 2) "IntegrityError" ∈ (Sys.run ({ cfg := {}, rebooted := 0 } : Sys) sharedHist).2 := by
  refine ⟨GSys.wfB_sound (by decide +kernel), by decide, ?_, by decide +kernel, by decide +kernel, by decide +kernel⟩
  intro h
  -- the seventh operation (b's `open "m"`) violates the guard
  have h7 := h.2.2.2.2.2.2.1 2 4 (.int 2) (.open_ (some "m"))
  have hx : ∃ x, (Sys.run ({ cfg := {}, rebooted := 0 } : Sys) (sharedHist.take 6)).1.findConn 2 = some x ∧
      x.app = some "b" ∧ ¬ NoForeign (Sys.run ({ cfg := {}, rebooted := 0 } : Sys) (sharedHist.take 6)).1.db "b" x
        (.open_ (some "m")) := by decide +kernel
  obtain ⟨x, hx1, hx2, hx3⟩ := hx
  exact hx3 (h7 x rfl hx1 hx2)

/-- the state of the frame example (Inv/IsoFrameWs.lean: reachable two-app state, identical
    nameplate names / side strings / messages) satisfies the hypotheses of `C06_frame_recv` -/
example := C06_frame_recv IsoFrameExample.g0_ginv "b" IsoFrameExample.closeA_wf IsoFrameExample.closeA_other

/-- … and those of `C06_frame_sweep` / `C06_frame_determined` for a sweep -/
example := C06_frame_sweep IsoFrameExample.g0_ginv "b" 20 false (GSys.wfOpB_sound (by decide +kernel))

end Wormhole

#print axioms Wormhole.C06_frame_recv
#print axioms Wormhole.C06_frame_connect
#print axioms Wormhole.C06_frame_drop
#print axioms Wormhole.C06_run
#print axioms Wormhole.C06_frame_determined
#print axioms Wormhole.C06_frame_sweep
#print axioms Wormhole.C06_shared_id_counterexample
#print axioms Wormhole.C06_noninterference_partial
