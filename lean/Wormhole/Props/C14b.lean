/-
  C14, the ordinary surviving `close` (audit B, P4) — `C14_close_survives_run`.

  `C14_duplicate_harmless_partial` covers a re-sent `close` of a surviving mailbox only under `CloseGuard` (b):
  "the row's `updated` already equals `t`".  For the ordinary case — the closer holds the handle, the peer's
  side is still open, at most two side rows — only `C14_close_survives_step` (`H₂ = []`) was proved: after the
  duplicate the two databases differ in ONE cell, the column `updated` of the mailbox row `m`
  (`u` without the duplicate, `t` with it; finding K-close-touch).

  Here: THE WHOLE TAIL.  `updated` is written by open / add / claim / the touch loop of the sweep, and read only
  by the sweep's query for old mailboxes.  So for EVERY crash-free continuation `H₂` in which no sweep
  distinguishes the two stamps, the two runs

      A = run (H₁ ++ [close] ++ dup ++ H₂)        B = run (H₁ ++ [close] ++ H₂)

  * emit the same frames (addressee, content, flag, order) and the same `internal` / `fired` events in `H₂`
    (`vis`: everything except commits; an `open` by an existing side at the very time `t` re-stamps the row
    in B only, so one run may have an effective channel commit the other has not — commits are NOT claimed equal);
  * end with equal connection records and configuration, and with channel databases (as seen and as
    committed) that agree on all five tables and the counter MODULO the `updated` column of the rows with
    id `m` (`A.db.touch m v = B.db.touch m v` for every `v`; row by row: `Chan.TchRel`), and are EQUAL
    outright as soon as the row has been re-stamped or deleted (no row `(m, u)` left in B).

  THE CONDITION (`SweepsOK`, a predicate on the run WITHOUT the duplicate): for every non-faulted sweep
  `sweep now` of `H₂` taken in a state `s` of run B in which the row of `m` still carries the stamp `u` AND nobody
  is subscribed to the mailbox: `NoSplit u t (now - expirationTicks)`, i.e. the cutoff is below both stamps or
  not below either (`u ≤ old ↔ t ≤ old`).  Nothing is required of
  * sweeps while somebody is subscribed (the touch loop re-stamps the row to `now` in both runs: with the
    peer still connected the FIRST sweep ends the difference);
  * sweeps after any op that re-stamped the mailbox (open / add / claim on it) or deleted it;
  * faulted sweeps, and every other operation.
  `SweepsOK_of_static`: it suffices that every non-faulted sweep of `H₂` satisfies `NoSplit`.
  The condition is tight: in `C14_close_touch_counterexample` (peer gone, sweep at `u + expirationTicks`)
  it fails, and so does the conclusion (`C14bExample.counterexample_violates`).

  Proof: a fourth two-run walk (Inv/TchDefs.lean, TchCore.lean, TchWs.lean) — the first one between DIFFERENT
  databases (`Sys.TchRel`: `mailboxes` related row by row).
-/
import Wormhole.Props.C14
import Wormhole.Props.C09
import Wormhole.Inv.TchWs

namespace Wormhole
open Sys Generated

/-! ## the relation at operation boundaries, and histories -/

/-- `Sys.TchRel` without the events of the current step (which the next step discards) -/
structure TchStart (u t : Time) (m ap : String) (b a : Sys) : Prop where
  db : Chan.TchRel u t m ap b.db a.db
  disk : Chan.TchRel u t m ap b.disk a.disk
  conns : a.conns = b.conns
  cfg : a.cfg = b.cfg

theorem Sys.TchRel.toStart {u t : Time} {m ap : String} {b a : Sys} (h : Sys.TchRel u t m ap b a) :
    TchStart u t m ap b a := ⟨h.db, h.disk, h.conns, h.cfg⟩

theorem Chan.TchRel.weaken {u t : Time} {m ap : String} {db da : Chan} (h : Chan.TchRel u u m ap db da) :
    Chan.TchRel u t m ap db da := by
  refine ⟨h.nps, h.sides, h.mbs.mono ?_, h.mbSides, h.msgs, h.next⟩
  intro rb _ ra _ hr
  rcases hr with rfl | ⟨_, _, e3, rfl⟩
  · exact Or.inl rfl
  · left
    cases rb
    simp only at e3
    simp [e3]

/-- the databases agree once the column is overwritten -/
theorem Chan.TchRel.touch_eq {u t : Time} {m ap : String} {db da : Chan} (h : Chan.TchRel u t m ap db da) (v : Time) :
    da.touch m v = db.touch m v := by
  have hm : (da.touch m v).mailboxes = (db.touch m v).mailboxes := by
    simp only [Chan.touch]
    symm
    apply h.mbs.map_eq
    intro rb _ ra _ hr
    rcases hr with rfl | ⟨e1, _, _, rfl⟩
    · rfl
    · simp [e1]
  cases da; cases db
  obtain ⟨h1, h2, _, h4, h5, h6⟩ := h
  simp only [Chan.touch] at h1 h2 hm h4 h5 h6 ⊢
  simp [h1, h2, hm, h4, h5, h6]

/-- **the condition on the tail**, read along the run WITHOUT the duplicate: a non-faulted sweep taken while
    the row of `(ap, m)` still carries `u` and nobody is subscribed to it must not separate `u` and `t` -/
def SweepsOK (u t : Time) (m ap : String) : Sys → List Op → Prop
  | _, [] => True
  | b, op :: rest =>
    (∀ now, op = .sweep now false → (∃ r ∈ b.db.mailboxes, r.id = m ∧ r.app = ap ∧ r.updated = u) →
      b.listeners ap m ≠ [] ∨ NoSplit u t (now - expirationTicks)) ∧
    SweepsOK u t m ap (b.step op) rest

/-- sufficient: every non-faulted sweep of the tail satisfies `NoSplit` -/
theorem SweepsOK_of_static {u t : Time} {m ap : String} (ops : List Op)
    (h : ∀ now, Op.sweep now false ∈ ops → NoSplit u t (now - expirationTicks)) :
    ∀ b : Sys, SweepsOK u t m ap b ops := by
  induction ops with
  | nil => intro _; trivial
  | cons op rest ih =>
    intro b
    refine ⟨?_, ih (fun now hn => h now (by simp [hn])) _⟩
    intro now e _
    exact Or.inr (h now (by simp [e]))

/-- sufficient: the tail has no non-faulted sweep at all -/
theorem SweepsOK_of_no_sweep {u t : Time} {m ap : String} (ops : List Op)
    (h : ∀ now, Op.sweep now false ∉ ops) (b : Sys) : SweepsOK u t m ap b ops :=
  SweepsOK_of_static ops (fun now hn => absurd hn (h now)) b

theorem TchStart.step {u t : Time} {m ap : String} {b a : Sys} (h : TchStart u t m ap b a) (hS : b.Synced)
    (op : Op) (hop : op.isCrash = false)
    (hs : ∀ now, op = .sweep now false → (∃ r ∈ b.db.mailboxes, r.id = m ∧ r.app = ap ∧ r.updated = u) →
      b.listeners ap m ≠ [] ∨ NoSplit u t (now - expirationTicks)) :
    Sys.TchRel u t m ap (b.step op) (a.step op) := by
  by_cases hrow : ∃ r ∈ b.db.mailboxes, r.id = m ∧ r.app = ap ∧ r.updated = u
  · have h0 : Sys.TchRel u t m ap { b with out := [] } { a with out := [] } := ⟨h.db, h.disk, h.conns, h.cfg, rfl⟩
    exact h0.step op hop (fun now e => hs now e hrow)
  · -- the databases are equal: run with the degenerate parameters `(u, u)`
    have e1 : a.db = b.db := h.db.eq_of_no_row hrow
    have e2 : a.disk = b.disk := h.disk.eq_of_no_row (by rw [← hS.1]; exact hrow)
    have h0 : Sys.TchRel u u m ap { b with out := [] } { a with out := [] } :=
      ⟨by show Chan.TchRel u u m ap b.db a.db; rw [e1]; exact Chan.TchRel.refl _,
       by show Chan.TchRel u u m ap b.disk a.disk; rw [e2]; exact Chan.TchRel.refl _, h.conns, h.cfg, rfl⟩
    have h1 := h0.step op hop (fun now _ => Or.inr Iff.rfl)
    exact ⟨h1.db.weaken, h1.disk.weaken, h1.conns, h1.cfg, h1.out⟩

/-- **histories**: for a crash-free tail satisfying `SweepsOK`, from states related at an operation boundary
    (run B with nothing uncommitted and the nameplate tables in order): related final states and equal
    visible traces -/
theorem TchStart.run {u t : Time} {m ap : String} (ops : List Op) (hcf : ∀ op ∈ ops, op.isCrash = false) :
    ∀ {b a : Sys}, TchStart u t m ap b a → b.Synced → b.db.NpOk → SweepsOK u t m ap b ops →
      TchStart u t m ap (Sys.run b ops).1 (Sys.run a ops).1 ∧ vis (Sys.run a ops).2 = vis (Sys.run b ops).2 := by
  induction ops with
  | nil => intro b a h _ _ _; exact ⟨h, rfl⟩
  | cons op rest ih =>
    intro b a h hS hN hsw
    have hop := hcf op (by simp)
    have h1 := h.step hS op hop hsw.1
    have hok := Ok.step hS hN hop
    obtain ⟨h2, e2⟩ := ih (fun o ho => hcf o (by simp [ho])) h1.toStart hok.synced hok.np hsw.2
    simp only [Sys.run]
    exact ⟨h2, by rw [vis_append, vis_append, h1.out, e2]⟩

/-- frames, flags included, from the visible traces when every frame of both was sent synced (C09) -/
theorem frames_eq_of_vis_eq {l₁ l₂ : List Event} (h : vis l₁ = vis l₂) (h1 : AllFramesSynced l₁)
    (h2 : AllFramesSynced l₂) : l₁.filter Event.isFrame = l₂.filter Event.isFrame := by
  have key : ∀ l : List Event, AllFramesSynced l → l.filter Event.isFrame = (vis l).filter Event.isFrame := by
    intro l
    induction l with
    | nil => intro _; rfl
    | cons e l ih =>
      intro hl
      have ih' := ih (fun x hx => hl x (by simp [hx]))
      cases e with
      | frame c f b =>
        have : b = true := hl _ (by simp) c f b rfl
        subst this
        simp only [vis, List.filterMap_cons, visE, List.filter_cons, Event.isFrame, if_true]
        rw [ih']; rfl
      | commit w => simp only [vis, List.filterMap_cons, visE, List.filter_cons, Event.isFrame]; exact ih'
      | internal c cls =>
        simp only [vis, List.filterMap_cons, visE, List.filter_cons, Event.isFrame]; exact ih'
      | fired n o =>
        simp only [vis, List.filterMap_cons, visE, List.filter_cons, Event.isFrame]; exact ih'
  rw [key l₁ h1, key l₂ h2, h]

/-! ## the theorem -/

/-- **C14_close_survives_run.**  Setting of `C14_close_survives_step`: `H₁ ++ [close]` well-formed from the
    initial state, the `close` (of connection `c`, bound to `(a, σ)`, resolving to mailbox `m`) answered
    `closed`, the mailbox survives it with at most two side rows; `r₀` is its row afterwards (stamp
    `u = r₀.updated`); the duplicate is sent on a fresh connection `c'`.  For every crash-free tail `H₂`
    satisfying `SweepsOK u t m r₀.app` along the run without the duplicate:
    * the visible events of `H₂` (frames with addressee and content, `internal`, `fired`; commits dropped)
      are equal in the run with and the run without the duplicate, and so are the frames with their flags;
    * the final channel databases, seen and committed, are related row by row (`Chan.TchRel`): four tables and
      the counter equal, `mailboxes` equal except that the row of `m` may carry `u` in one and `t` in the
      other — equivalently they are EQUAL after `UPDATE mailboxes SET updated = v WHERE id = m`, for any `v`;
    * they are equal outright if no row of `m` stamped `u` is left in the run without the duplicate
      (the mailbox was re-stamped by an open / add / claim / subscribed sweep, or deleted);
    * connection records and configuration are equal. -/
theorem C14_close_survives_run (cfg : Cfg) (rb : Time) (H₁ H₂ : List Op) (c : Nat) (t : Time) (id : Val)
    (mo mood : Option String)
    (hwf : (GSys.init cfg rb).WF (H₁ ++ [Op.recv c t id (.close mo mood)]))
    (hcf : ∀ op ∈ H₂, op.isCrash = false)
    {x : Conn} {a σ m : String}
    (hx : (Sys.run (start cfg rb) H₁).1.findConn c = some x) (ha : x.app = some a) (hσ : x.side = some σ)
    (htg : x.closeTarget mo = some m)
    (hans : Answered ((Sys.run (start cfg rb) H₁).1.step (.recv c t id (.close mo mood))).out c id (.close mo mood))
    {r₀ : MailboxRow}
    (hr₀ : r₀ ∈ (Sys.run (start cfg rb) (H₁ ++ [Op.recv c t id (.close mo mood)])).1.db.mailboxes) (hm : r₀.id = m)
    (hlen : ((Sys.run (start cfg rb) (H₁ ++ [Op.recv c t id (.close mo mood)])).1.db.mbSidesOf m).length ≤ 2)
    (c' : Nat) (hfresh : ∀ y ∈ (Sys.run (start cfg rb) (H₁ ++ [Op.recv c t id (.close mo mood)])).1.conns, y.id ≠ c')
    (id₁ : Val) (impl ver : Option String)
    (hsw : SweepsOK r₀.updated t m r₀.app (Sys.run (start cfg rb) (H₁ ++ [Op.recv c t id (.close mo mood)])).1 H₂) :
    let SB := (Sys.run (start cfg rb) (H₁ ++ [Op.recv c t id (.close mo mood)])).1
    let SA := (Sys.run (start cfg rb) (H₁ ++ [Op.recv c t id (.close mo mood)] ++
      dup c' t id₁ id a σ impl ver (.close (some m) mood))).1
    let A := Sys.run (start cfg rb) (H₁ ++ [Op.recv c t id (.close mo mood)] ++
      dup c' t id₁ id a σ impl ver (.close (some m) mood) ++ H₂)
    let B := Sys.run (start cfg rb) (H₁ ++ [Op.recv c t id (.close mo mood)] ++ H₂)
    -- the two runs, split at the point where the tail begins
    A.1 = (Sys.run SA H₂).1 ∧ B.1 = (Sys.run SB H₂).1 ∧
    A.2 = (Sys.run (start cfg rb) (H₁ ++ [Op.recv c t id (.close mo mood)] ++
      dup c' t id₁ id a σ impl ver (.close (some m) mood))).2 ++ (Sys.run SA H₂).2 ∧
    B.2 = (Sys.run (start cfg rb) (H₁ ++ [Op.recv c t id (.close mo mood)])).2 ++ (Sys.run SB H₂).2 ∧
    -- the events of the tail
    vis (Sys.run SA H₂).2 = vis (Sys.run SB H₂).2 ∧
    (Sys.run SA H₂).2.filter Event.isFrame = (Sys.run SB H₂).2.filter Event.isFrame ∧
    -- the final states
    Chan.TchRel r₀.updated t m r₀.app B.1.db A.1.db ∧ Chan.TchRel r₀.updated t m r₀.app B.1.disk A.1.disk ∧
    (∀ v, A.1.db.touch m v = B.1.db.touch m v) ∧
    ((¬ ∃ r ∈ B.1.db.mailboxes, r.id = m ∧ r.updated = r₀.updated) → A.1.db = B.1.db) ∧
    A.1.conns = B.1.conns ∧ A.1.cfg = B.1.cfg := by
  intro SB SA A B
  have hid : SB.db.HasId m := ⟨r₀, hr₀, hm⟩
  obtain ⟨_, _, _, _, _, _, _, _, k1, _, _, k3, k4, k5⟩ :=
    C14_close_survives_step cfg rb H₁ c t id mo mood hwf hx ha hσ htg hans hid hlen c' hfresh id₁ impl ver
  -- the state without the duplicate is reachable
  have hReach : ((GSys.init cfg rb).run (H₁ ++ [Op.recv c t id (.close mo mood)])).Reach :=
    GSys.reach_run (.init cfg rb) _ hwf
  have hI := hReach.ginv
  have hsys : ((GSys.init cfg rb).run (H₁ ++ [Op.recv c t id (.close mo mood)])).sys = SB := GSys.run_sys _ _
  have hSB : SB.Synced := by rw [← hsys]; exact hI.synced
  have hNB : SB.db.NpOk := by rw [← hsys]; exact hI.cinv.npOk
  have hids : SB.db.mailboxes.Pairwise (fun p q => ¬ p.id = q.id) := by rw [← hsys]; exact hI.cinv.toPInv.mbIds
  -- the relation right after the duplicate
  have hdb : Chan.TchRel r₀.updated t m r₀.app SB.db SA.db := by
    rw [show SA.db = SB.db.touch m t from k1]
    refine ⟨rfl, rfl, ?_, rfl, rfl, rfl⟩
    have := (All2.refl_of SB.db.mailboxes (fun r _ => (rfl : r = r))).map (R' := RowRel r₀.updated t m r₀.app) (fun r => r)
      (fun r => if r.id = m then { r with updated := t } else r)
      (by
        intro p hp q _ e
        subst e
        by_cases hpm : p.id = m
        · have : p = r₀ := Chan.eq_of_pairwise_ne (f := MailboxRow.id) hids hp hr₀ (hpm.trans hm.symm)
          subst this
          rw [if_pos hpm]
          exact Or.inr ⟨hpm, rfl, rfl, rfl⟩
        · rw [if_neg hpm]
          exact Or.inl rfl)
    simpa [Chan.touch] using this
  have hstart : TchStart r₀.updated t m r₀.app SB SA :=
    ⟨hdb, by rw [← hSB.1, ← k5.1]; exact hdb, k3, k4⟩
  obtain ⟨hfin, hvis⟩ := TchStart.run H₂ hcf hstart hSB hNB hsw
  -- frames with flags
  have hNA : SA.db.NpOk := by
    rw [show SA.db = SB.db.touch m t from k1]
    exact Chan.NpOk.of_npPart (d := SB.db) (d' := SB.db.touch m t) rfl hNB
  have fA := (C09_frames_synced SA H₂ hcf k5 hNA).1
  have fB := (C09_frames_synced SB H₂ hcf hSB hNB).1
  have eA : A = ((Sys.run SA H₂).1, _ ++ (Sys.run SA H₂).2) := dup_run_append (start cfg rb) _ H₂
  have eB : B = ((Sys.run SB H₂).1, _ ++ (Sys.run SB H₂).2) := dup_run_append (start cfg rb) _ H₂
  refine ⟨by rw [eA], by rw [eB], by rw [eA], by rw [eB], hvis, frames_eq_of_vis_eq hvis fA fB, ?_, ?_, ?_, ?_, ?_, ?_⟩
  · rw [eA, eB]; exact hfin.db
  · rw [eA, eB]; exact hfin.disk
  · intro v; rw [eA, eB]; exact hfin.db.touch_eq v
  · rw [eA, eB]
    intro hno
    exact hfin.db.eq_of_no_row (fun ⟨r, hr, e1, _, e3⟩ => hno ⟨r, hr, e1, e3⟩)
  · rw [eA, eB]; exact hfin.conns
  · rw [eA, eB]; exact hfin.cfg


/-! ## a decision procedure for `SweepsOK` (for the examples) -/

def sweepOKB (u t : Time) (m ap : String) (b : Sys) : Op → Bool
  | .sweep now false =>
    !(b.db.mailboxes.any (fun r => decide (r.id = m ∧ r.app = ap ∧ r.updated = u))) ||
      !(b.listeners ap m).isEmpty || decide (NoSplit u t (now - expirationTicks))
  | _ => true

def sweepsOKB (u t : Time) (m ap : String) : Sys → List Op → Bool
  | _, [] => true
  | b, op :: rest => sweepOKB u t m ap b op && sweepsOKB u t m ap (b.step op) rest

theorem sweepsOKB_sound {u t : Time} {m ap : String} : ∀ (ops : List Op) (b : Sys),
    sweepsOKB u t m ap b ops = true → SweepsOK u t m ap b ops := by
  intro ops
  induction ops with
  | nil => intro _ _; trivial
  | cons op rest ih =>
    intro b h
    simp only [sweepsOKB, Bool.and_eq_true] at h
    refine ⟨?_, ih _ h.2⟩
    intro now e hrow
    subst e
    have h1 := h.1
    simp only [sweepOKB, Bool.or_eq_true, Bool.not_eq_true', decide_eq_true_eq] at h1
    rcases h1 with (h1 | h1) | h1
    · exfalso
      obtain ⟨r, hr, e1, e2, e3⟩ := hrow
      have : (b.db.mailboxes.any (fun r => decide (r.id = m ∧ r.app = ap ∧ r.updated = u))) = true :=
        List.any_eq_true.2 ⟨r, hr, by simp [e1, e2, e3]⟩
      rw [h1] at this
      cases this
    · left
      intro hl
      rw [hl] at h1
      simp at h1
    · exact Or.inr h1

/-- the static condition, decided -/
def staticOKB (u t : Time) : List Op → Bool
  | [] => true
  | .sweep now false :: rest => decide (NoSplit u t (now - expirationTicks)) && staticOKB u t rest
  | _ :: rest => staticOKB u t rest

theorem staticOKB_sound {u t : Time} : ∀ (ops : List Op), staticOKB u t ops = true →
    ∀ now, Op.sweep now false ∈ ops → NoSplit u t (now - expirationTicks) := by
  intro ops
  induction ops with
  | nil => intro _ now h; cases h
  | cons op rest ih =>
    intro h now hm
    rcases List.mem_cons.1 hm with e | hm
    · subst e
      simp only [staticOKB, Bool.and_eq_true, decide_eq_true_eq] at h
      exact h.1
    · apply ih _ now hm
      cases op with
      | sweep n f =>
        cases f with
        | false => simp only [staticOKB, Bool.and_eq_true] at h; exact h.2
        | true => exact h
      | _ => exact h

/-! ## Non-vacuity: the K-close-touch scenario of Props/C14.lean with tails that satisfy the condition -/

namespace C14bExample
open C14Ex

/-- the state without the duplicate: s1 closed on its handle at 200, the row of "m" still carries 100 -/
def SB : Sys := (Sys.run (start cfgN 0) (Ht1 ++ [Op.recv 1 200 (.int 3) cmdT])).1
def r₀ : MailboxRow := ⟨"app", "m", 100, false⟩

theorem hr₀ : r₀ ∈ (Sys.run (start cfgN 0) (Ht1 ++ [Op.recv 1 200 (.int 3) cmdT])).1.db.mailboxes := by decide +kernel

/-- TAIL 1 — the ordinary case: the peer (connection 2) stays subscribed.  The sweep at `100 + E` (which
    separates 100 and 200!) is harmless: the touch loop re-stamps the row in both runs.  Then the peer adds,
    leaves, and a late sweep deletes the mailbox in both runs. -/
def T1 : List Op :=
  [ .sweep (100 + E) false, .recv 2 (150 + E) (.int 9) (.ping (some (.str "still here"))),
    .drop 2, .sweep (200 + E) false, .connect 3, bind 3 (300 + E) "s2", .recv 3 (301 + E) (.int 2) (.open_ (some "m")),
    .sweep (400 + 3 * E) false ]

theorem T1_ok : SweepsOK 100 200 "m" "app" SB T1 := sweepsOKB_sound _ _ (by decide +kernel)
example : ¬ NoSplit 100 200 (100 + E - expirationTicks) := by decide

/-- TAIL 2 — the peer is gone, no re-stamping: sweeps whose cutoff is below both stamps (`now < 100 + E`) or
    not below either (`now ≥ 200 + E`) -/
def T2 : List Op :=
  [ .drop 2, .sweep 300 false, .sweep (99 + E) true, .sweep (99 + E) false, .connect 3, bind 3 (100 + E) "s3",
    .recv 3 (101 + E) (.int 2) .list, .sweep (200 + E) false ]

theorem T2_ok : SweepsOK 100 200 "m" "app" SB T2 := SweepsOK_of_static _ (staticOKB_sound _ (by decide)) _

/-- TAIL 3 — no sweep at all, nothing re-stamps: the difference persists (so "modulo `updated`" is needed) -/
def T3 : List Op := [ .connect 3, bind 3 210 "s3", .recv 3 211 (.int 2) .list, .drop 2 ]
theorem T3_ok : SweepsOK 100 200 "m" "app" SB T3 :=
  SweepsOK_of_no_sweep _ (by intro now h; simp [T3, C14Ex.bind] at h) _

set_option linter.defProp false in
/-- the hypotheses of `C14_close_survives_run` in the K-close-touch scenario (those of
    `C14_close_survives_step`, checked in Props/C14.lean) and the theorem applied to the three tails -/
def apply (H₂ : List Op) (hcf : ∀ op ∈ H₂, op.isCrash = false) (hsw : SweepsOK 100 200 "m" "app" SB H₂) :=
  C14_close_survives_run cfgN 0 Ht1 H₂ 1 200 (.int 3) none (some "happy") (GSys.wfB_sound (by decide +kernel)) hcf
    (x := xT) (a := "app") (σ := "s1") (m := "m") (by decide +kernel) rfl rfl (by decide) ⟨true, by decide +kernel⟩
    (r₀ := r₀) hr₀ rfl (by decide +kernel) 9 (by decide +kernel) (.int 7) none none hsw

example := apply T1 (by decide) T1_ok
example := apply T2 (by decide) T2_ok
example := apply T3 (by decide) T3_ok

/-- evaluated, not derived: tail 1 — frames equal, final databases EQUAL (the row was re-stamped) and not empty
    before the last sweep; -/
example :
    (Sys.run stN (Ht1 ++ [Op.recv 1 200 (.int 3) cmdT] ++ dupT ++ T1)).1.db =
      (Sys.run stN (Ht1 ++ [Op.recv 1 200 (.int 3) cmdT] ++ T1)).1.db ∧
    (Sys.run stN (Ht1 ++ [Op.recv 1 200 (.int 3) cmdT] ++ T1.take 7)).1.db.mailboxes = [⟨"app", "m", 301 + E, false⟩] ∧
    ((Sys.run stN (Ht1 ++ [Op.recv 1 200 (.int 3) cmdT] ++ dupT ++ T1)).2.filter Event.isFrame).drop 15 =
      ((Sys.run stN (Ht1 ++ [Op.recv 1 200 (.int 3) cmdT] ++ T1)).2.filter Event.isFrame).drop 11 ∧
    ((Sys.run stN (Ht1 ++ [Op.recv 1 200 (.int 3) cmdT] ++ T1)).2.filter Event.isFrame).length = 17 := by
  decide +kernel

/-- tail 3: the databases still differ in exactly that cell, and agree once it is overwritten -/
example :
    (Sys.run stN (Ht1 ++ [Op.recv 1 200 (.int 3) cmdT] ++ dupT ++ T3)).1.db.mailboxes = [⟨"app", "m", 200, false⟩] ∧
    (Sys.run stN (Ht1 ++ [Op.recv 1 200 (.int 3) cmdT] ++ T3)).1.db.mailboxes = [⟨"app", "m", 100, false⟩] ∧
    (Sys.run stN (Ht1 ++ [Op.recv 1 200 (.int 3) cmdT] ++ dupT ++ T3)).1.db.touch "m" 0 =
      (Sys.run stN (Ht1 ++ [Op.recv 1 200 (.int 3) cmdT] ++ T3)).1.db.touch "m" 0 := by
  decide +kernel

/-- **the condition is tight**: the tail `Ht2` of `C14_close_touch_counterexample` (the peer's connection is
    lost, then a sweep at `100 + E`, whose cutoff 100 separates the stamps 100 and 200) violates `SweepsOK`,
    and there the conclusion fails (the later `open` replays a message in one run only). -/
theorem counterexample_violates : ¬ SweepsOK 100 200 "m" "app" SB Ht2 := by
  intro h
  have := h.2.1 (100 + E) rfl ⟨r₀, by decide +kernel, rfl, rfl, rfl⟩
  rcases this with h1 | h1
  · exact h1 (by decide +kernel)
  · exact absurd h1 (by decide)

end C14bExample

end Wormhole

#print axioms Wormhole.Sys.TchRel.step
#print axioms Wormhole.TchStart.run
#print axioms Wormhole.SweepsOK_of_static
#print axioms Wormhole.sweepsOKB_sound
#print axioms Wormhole.C14_close_survives_run
#print axioms Wormhole.C14bExample.counterexample_violates
