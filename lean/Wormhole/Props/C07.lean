/-
  C07 -- "A nameplate lives exactly as long as someone holds it".

  `Chan.claims d a n σ`: in database `d`, side `σ` holds a claim on nameplate `n` of app `a`
  (a nameplate row `(a, n)` and a side row of its id with that side and `claimed = 1`).

  Step-level theorems are for ALL states satisfying `GSys.GInv` (resp. `Synced ∧ CInv`, `SInv`
  where said) and ALL operations, crashes included: the post-state of `crashIn k op` is one of
  the commit points of `op` (Inv/NpStep.lean).  `op.plain` is the operation a (possibly crashed)
  step consists of.
-/
import Wormhole.Props.C03

namespace Wormhole
open Sys Sys.Np

/-- side `σ` holds a claim on nameplate `(a, n)` -/
def Chan.claims (d : Chan) (a n σ : String) : Prop :=
  ∃ np ∈ d.nameplates, np.app = a ∧ np.name = n ∧
    ∃ r ∈ d.npSides, r.npid = np.id ∧ r.claimed = true ∧ r.side = σ

/-- connection record `x` is bound to app `a` as side `σ` -/
def Conn.BoundTo (x : Conn) (a σ : String) : Prop := x.app = some a ∧ x.side = some σ

theorem boundTo_of_getD {s : Sys} (hc : s.ConnInv) {c : Nat} {x : Conn} {a σ : String}
    (hx : s.findConn c = some x) (ha : x.app = some a) (hσ : x.side.getD "" = σ) : x.BoundTo a σ := by
  refine ⟨ha, ?_⟩
  have := (hc.bound x (findConn_mem hx)).1 (by simp [ha])
  obtain ⟨σ', e⟩ := Option.isSome_iff_exists.1 this
  rw [e] at hσ ⊢
  simpa using hσ

/-! ## C07_claims_change_only_by_owner -/

/-- **a claim is ADDED only by its owner's claim/allocate.**  If `(a, n, σ)` is a claim after a step
    but not before, the step is (a crash inside) a `claim` of `n`, or an `allocate` that picks
    `n`, received on a connection bound to `(a, σ)`. -/
theorem C07_claim_added {g : GSys} (hI : g.GInv) (op : Op) {a n σ : String}
    (hpost : (g.step op).sys.db.claims a n σ) (hpre : ¬ g.sys.db.claims a n σ) :
    ∃ c t id cmd x, op.plain = .recv c t id cmd ∧ g.sys.findConn c = some x ∧ x.BoundTo a σ ∧
      ((∃ fresh, cmd = .claim (some n) fresh) ∨
       ∃ pick draws fresh, cmd = .allocate pick draws fresh ∧
         findAvailable (g.sys.db.namesOfApp a) pick draws = some n) := by
  have hrel := hI.npRel op
  have hp := hI.cinv.toPInv
  obtain ⟨np, hnp, e1, e2, r, hr, e3, e4, e5⟩ := hpost
  rcases hrel.ns_mem hp.bounded hr with ⟨r0, hr0, i0, _, hsame⟩ | ⟨a', nm, σ', fresh, t, hl, hreq, _, np', hnp', j1, j2, j3⟩
  · exfalso
    have : r0 = r := hsame e4
    subst this
    rcases hrel.np_mem hnp with h0 | ⟨_, _, _, _, _, _, rfl, _⟩
    · exact hpre ⟨np, h0, e1, e2, r0, hr0, e3, e4, e5⟩
    · have := hp.bounded.2 r0 hr0
      simp at e3; omega
  · have : np' = np := hrel.np_id_inj hp hnp' hnp (j1.trans e3)
    subst this
    have hσ : σ' = σ := by rw [hreq] at e5; exact e5
    subst hσ
    rw [← j2, ← j3, e1, e2] at hl
    obtain ⟨c, id, cmd, x, hop, hx, ha, hs, _, hcmd⟩ := npLbl_claim hl
    refine ⟨c, t, id, cmd, x, hop, hx, boundTo_of_getD hI.conn hx ha hs, ?_⟩
    rcases hcmd with rfl | ⟨p, dr, rfl, hf⟩
    · exact Or.inl ⟨fresh, rfl⟩
    · exact Or.inr ⟨p, dr, fresh, rfl, hf⟩

/-- **a claim on a surviving nameplate is REMOVED only by its owner's release.**  If `(a, n, σ)` is a
    claim before a step, the nameplate row `(a, n)` is still there afterwards, and `(a, n, σ)` is
    no claim any more, then the step is (a crash inside) a `release` received on a connection
    bound to `(a, σ)` that resolves to `n`. -/
theorem C07_claim_removed {g : GSys} (hI : g.GInv) (op : Op) {a n σ : String}
    (hpre : g.sys.db.claims a n σ)
    (hsurv : ∀ np ∈ g.sys.db.nameplates, np.app = a → np.name = n → np ∈ (g.step op).sys.db.nameplates)
    (hpost : ¬ (g.step op).sys.db.claims a n σ) :
    ∃ c t id nm x, op.plain = .recv c t id (.release nm) ∧ g.sys.findConn c = some x ∧ x.BoundTo a σ ∧
      releaseTarget x nm = some n := by
  have hrel := hI.npRel op
  have hp := hI.cinv.toPInv
  obtain ⟨np, hnp, e1, e2, r, hr, e3, e4, e5⟩ := hpre
  have hnp' := hsurv np hnp e1 e2
  rcases hrel.ns_kept hp hnp hnp' hr e3 with hk | ⟨hl, _⟩
  · exact absurd ⟨np, hnp', e1, e2, r, hk, e3, e4, e5⟩ hpost
  · rw [e1, e2, e5] at hl
    obtain ⟨c, t, id, nm, x, hop, hx, ha, hs, ht⟩ := npLbl_release hl
    exact ⟨c, t, id, nm, x, hop, hx, boundTo_of_getD hI.conn hx ha hs, ht⟩

/-- **a nameplate row is DELETED only** (i) in a `release` of that nameplate by a connection of
    its app after which no claimed side row would remain (every row of another side is
    already unclaimed), (ii) in a `close` by a connection of its app that acts on -- and deletes
    -- its mailbox, (iii) in a non-faulted sweep that deletes its mailbox. -/
theorem C07_nameplate_deleted {g : GSys} (hI : g.GInv) (op : Op) {np : Nameplate}
    (hnp : np ∈ g.sys.db.nameplates) (hgone : ∀ r ∈ (g.step op).sys.db.nameplates, r.id ≠ np.id) :
    (∃ c t id nm x σ, op.plain = .recv c t id (.release nm) ∧ g.sys.findConn c = some x ∧
      x.BoundTo np.app σ ∧ releaseTarget x nm = some np.name ∧
      ∀ r ∈ g.sys.db.npSides, r.npid = np.id → r.side ≠ σ → r.claimed = false) ∨
    (∃ c t id m mood x, op.plain = .recv c t id (.close m mood) ∧ g.sys.findConn c = some x ∧
      x.app = some np.app ∧ closeTarget x m = some np.mailbox ∧
      ∀ mb ∈ (g.step op).sys.db.mailboxes, mb.id ≠ np.mailbox) ∨
    (∃ now, op.plain = .sweep now false ∧ ∀ mb ∈ (g.step op).sys.db.mailboxes, mb.id ≠ np.mailbox) := by
  have hrel := hI.npRel op
  have hp := hI.cinv.toPInv
  have hnot : np ∉ (g.step op).sys.db.nameplates := fun h => hgone np h rfl
  rcases hrel.np_gone hp hnp hnot with ⟨σ, hl, hall⟩ | ⟨hl, hmb⟩ | ⟨hl, hmb⟩
  · obtain ⟨c, t, id, nm, x, hop, hx, ha, hs, ht⟩ := npLbl_release hl
    exact Or.inl ⟨c, t, id, nm, x, σ, hop, hx, boundTo_of_getD hI.conn hx ha hs, ht, hall⟩
  · obtain ⟨c, t, id, m, mood, x, hop, hx, ha, ht⟩ := npLbl_close hl
    exact Or.inr (Or.inl ⟨c, t, id, m, mood, x, hop, hx, ha, ht, hmb⟩)
  · obtain ⟨now, hop⟩ := npLbl_sweep hl
    exact Or.inr (Or.inr ⟨now, hop, hmb⟩)


/-- **a claim is ENDED only** by its owner's release, by the `close` (of a connection of its app)
    that deletes the nameplate's mailbox, or by a non-faulted sweep that deletes that mailbox --
    by nothing else, and by nobody else's release. -/
theorem C07_claim_ended_only_by {g : GSys} (hI : g.GInv) (op : Op) {a n σ : String}
    (hpre : g.sys.db.claims a n σ) (hpost : ¬ (g.step op).sys.db.claims a n σ) :
    (∃ c t id nm x, op.plain = .recv c t id (.release nm) ∧ g.sys.findConn c = some x ∧ x.BoundTo a σ ∧
      releaseTarget x nm = some n) ∨
    (∃ c t id m mood x np, op.plain = .recv c t id (.close m mood) ∧ g.sys.findConn c = some x ∧
      x.app = some a ∧ np ∈ g.sys.db.nameplates ∧ np.app = a ∧ np.name = n ∧
      closeTarget x m = some np.mailbox ∧ ∀ mb ∈ (g.step op).sys.db.mailboxes, mb.id ≠ np.mailbox) ∨
    (∃ now np, op.plain = .sweep now false ∧ np ∈ g.sys.db.nameplates ∧ np.app = a ∧ np.name = n ∧
      ∀ mb ∈ (g.step op).sys.db.mailboxes, mb.id ≠ np.mailbox) := by
  have hp := hI.cinv.toPInv
  obtain ⟨np, hnp, e1, e2, r, hr, e3, e4, e5⟩ := hpre
  by_cases hex : ∃ r' ∈ (g.step op).sys.db.nameplates, r'.id = np.id
  · obtain ⟨r', hr', e'⟩ := hex
    have : r' = np := (hI.npRel op).np_same hp hr' hnp e'
    subst this
    refine Or.inl (C07_claim_removed hI op ⟨r', hnp, e1, e2, r, hr, e3, e4, e5⟩ ?_ hpost)
    intro np' hnp' a1 a2
    have : np' = r' := hp.np_eq_of_key hnp' hnp (a1.trans e1.symm) (a2.trans e2.symm)
    rw [this]; exact hr'
  · have hgone : ∀ r' ∈ (g.step op).sys.db.nameplates, r'.id ≠ np.id := fun r' h1 h2 => hex ⟨r', h1, h2⟩
    rcases C07_nameplate_deleted hI op hnp hgone with
      ⟨c, t, id, nm, x, σ', hop, hx, hb, ht, hall⟩ | ⟨c, t, id, m, mood, x, hop, hx, ha, ht, hmb⟩ | ⟨now, hop, hmb⟩
    · have hσ : σ' = σ := by
        apply Classical.byContradiction
        intro hne
        have := hall r hr e3 (by rw [e5]; exact fun h => hne h.symm)
        rw [e4] at this; cases this
      subst hσ
      exact Or.inl ⟨c, t, id, nm, x, hop, hx, e1 ▸ hb, e2 ▸ ht⟩
    · exact Or.inr (Or.inl ⟨c, t, id, m, mood, x, np, hop, hx, e1 ▸ ha, hnp, e1, e2, ht, hmb⟩)
    · exact Or.inr (Or.inr ⟨now, np, hop, hnp, e1, e2, hmb⟩)

/-- **C07_claims_change_only_by_owner**: the two directions together -/
theorem C07_claims_change_only_by_owner {g : GSys} (hI : g.GInv) (op : Op) (a n σ : String) :
    ((g.step op).sys.db.claims a n σ → ¬ g.sys.db.claims a n σ →
      ∃ c t id cmd x, op.plain = .recv c t id cmd ∧ g.sys.findConn c = some x ∧ x.BoundTo a σ ∧
        ((∃ fresh, cmd = .claim (some n) fresh) ∨
         ∃ pick draws fresh, cmd = .allocate pick draws fresh ∧
           findAvailable (g.sys.db.namesOfApp a) pick draws = some n)) ∧
    (g.sys.db.claims a n σ → ¬ (g.step op).sys.db.claims a n σ →
      (∃ c t id nm x, op.plain = .recv c t id (.release nm) ∧ g.sys.findConn c = some x ∧ x.BoundTo a σ ∧
        releaseTarget x nm = some n) ∨
      (∃ c t id m mood x np, op.plain = .recv c t id (.close m mood) ∧ g.sys.findConn c = some x ∧
        x.app = some a ∧ np ∈ g.sys.db.nameplates ∧ np.app = a ∧ np.name = n ∧
        closeTarget x m = some np.mailbox ∧ ∀ mb ∈ (g.step op).sys.db.mailboxes, mb.id ≠ np.mailbox) ∨
      (∃ now np, op.plain = .sweep now false ∧ np ∈ g.sys.db.nameplates ∧ np.app = a ∧ np.name = n ∧
        ∀ mb ∈ (g.step op).sys.db.mailboxes, mb.id ≠ np.mailbox)) :=
  ⟨C07_claim_added hI op, C07_claim_ended_only_by hI op⟩

/-- **what does NOT end a claim** (the "in particular"): a received command `cmd` on connection
    record `x` leaves the claim `(a, n, σ)` in place unless it is the release of `n` by `(a, σ)`
    itself or a close, by a connection of app `a`, that acts on the mailbox of `(a, n)`.  So: not
    another side's release (`x` is not bound to `(a, σ)`), not a release of another nameplate
    (it resolves to another name), not the close of another mailbox, nothing in another app
    (`x.app ≠ some a`), and no claim/allocate/open/add/list/ping/bind at all. -/
theorem C07_claim_survives_recv {g : GSys} (hI : g.GInv) {op : Op} {c : Nat} {t : Time} {id : Val} {cmd : Cmd}
    {x : Conn} {a n σ : String} (hop : op.plain = .recv c t id cmd) (hx : g.sys.findConn c = some x)
    (hpre : g.sys.db.claims a n σ)
    (hrel : ∀ nm, cmd = .release nm → x.BoundTo a σ → releaseTarget x nm ≠ some n)
    (hclose : ∀ m mood, cmd = .close m mood → x.app = some a →
      ∀ np ∈ g.sys.db.nameplates, np.app = a → np.name = n → closeTarget x m ≠ some np.mailbox) :
    (g.step op).sys.db.claims a n σ := by
  apply Classical.byContradiction
  intro hpost
  rcases C07_claim_ended_only_by hI op hpre hpost with
    ⟨c', t', id', nm, x', hop', hx', hb, ht⟩ | ⟨c', t', id', m, mood, x', np, hop', hx', ha, hnp, e1, e2, ht, _⟩ |
    ⟨now, np, hop', _⟩
  · rw [hop] at hop'
    cases hop'
    rw [hx] at hx'; cases hx'
    exact hrel nm rfl hb ht
  · rw [hop] at hop'
    cases hop'
    rw [hx] at hx'; cases hx'
    exact hclose m mood rfl ha np hnp e1 e2 ht
  · rw [hop] at hop'; cases hop'

/-- connects, drops, restarts and faulted sweeps end no claim -/
theorem C07_claim_survives_other {g : GSys} (hI : g.GInv) {op : Op} {a n σ : String}
    (hop : (∃ c, op.plain = .connect c) ∨ (∃ c, op.plain = .drop c) ∨ (∃ t, op.plain = .restart t) ∨
      (∃ now, op.plain = .sweep now true))
    (hpre : g.sys.db.claims a n σ) : (g.step op).sys.db.claims a n σ := by
  apply Classical.byContradiction
  intro hpost
  rcases C07_claim_ended_only_by hI op hpre hpost with
    ⟨c', t', id', nm, x', hop', _⟩ | ⟨c', t', id', m, mood, x', np, hop', _⟩ | ⟨now, np, hop', _⟩ <;>
  · rcases hop with ⟨_, h⟩ | ⟨_, h⟩ | ⟨_, h⟩ | ⟨_, h⟩ <;> rw [h] at hop' <;> cases hop'


/-! ## C07_listed_iff_held -/

/-- **C07_listed_iff_held** (crash-free states, `SInv`): with listing allowed, `list` is answered
    exactly `[ack, nameplates ids]` and `n ∈ ids` iff some side holds a claim on `(app, n)`. -/
theorem C07_listed_iff_held {s : Sys} (hS : s.db.SInv) {c : Nat} {x : Conn} {a : String} (t : Time) (id : Val)
    (hx : s.findConn c = some x) (ha : x.app = some a) (hl : s.cfg.allowList = true) :
    (s.step (.recv c t id .list)).out =
      [.frame c (.ack id) s.synced, .frame c (.nameplates (s.listAnswer a)) s.synced] ∧
    ∀ n, n ∈ s.listAnswer a ↔ ∃ σ, s.db.claims a n σ := by
  obtain ⟨h1, h2, _, _⟩ := C18_list_answer t id hx ha
  refine ⟨h1, fun n => ?_⟩
  rw [(h2 hl).2 n]
  constructor
  · rintro ⟨r, hr, e1, e2⟩
    obtain ⟨sd, hsd, e3, e4⟩ := hS.npClaimed r hr
    exact ⟨sd.side, r, hr, e1, e2, sd, hsd, e3, e4, rfl⟩
  · rintro ⟨σ, r, hr, e1, e2, _⟩
    exact ⟨r, hr, e1, e2⟩

/-! ## C07_release_total -/

/-- a `release` that passes validation, as a state equation -/
theorem step_release {s : Sys} {c : Nat} {x : Conn} {a : String} (t : Time) (id : Val) (nm : Option String)
    (hx : s.findConn c = some x) (ha : x.app = some a) (hnr : rejectText x (.release nm) = none) :
    ∃ n, releaseTarget x nm = some n ∧
      s.step (.recv c t id (.release nm)) =
        match (((({ s with out := [], snaps := [] } : Sys).send c (.ack id)).updConn c
            (fun y => { y with didRelease := true })).releaseNameplate a n (x.side.getD "") t) with
        | (s1, true) => s1.send c .released
        | (s1, false) => s1.internalErr c "IndexError" := by
  have hid := findConn_id hx
  simp only [rejectText, needBind, ha] at hnr
  have hd : x.didRelease = false := by
    cases h : x.didRelease
    · rfl
    · simp [h] at hnr
  simp only [hd] at hnr
  rw [step_recv]
  unfold Sys.onMessage
  have : ({ s with out := [], snaps := [] } : Sys).findConn c = some x := hx
  rw [this]
  simp only [ha]
  unfold Sys.handleRelease
  simp only [hd, hid]
  cases nm with
  | some n =>
    refine ⟨n, rfl, ?_⟩
    cases hh : x.nameplateId with
    | none => simp
    | some held =>
      simp only [hh] at hnr
      have : n = held := by
        apply Classical.byContradiction
        intro hne
        simp [hne] at hnr
      subst this
      simp
  | none =>
    cases hh : x.nameplateId with
    | none => simp [hh] at hnr
    | some held => exact ⟨held, by simp [releaseTarget, hh], by simp⟩

/-- **C07_release_total.**  Every `release` that passes validation, from a synced state, is
    answered by exactly `[ack id, released]` (both sent with nothing uncommitted); it resolves to
    a name `n`, and the channel database afterwards is: unchanged if `(a, n)` does not exist or
    the caller's side has no row on it; else the side's row is unclaimed and, if no claimed row
    remains, the nameplate and its side rows are deleted.  It never fails. -/
theorem C07_release_total {s : Sys} (hs : s.Synced) {c : Nat} {x : Conn} {a : String} (t : Time) (id : Val)
    (nm : Option String) (hx : s.findConn c = some x) (ha : x.app = some a)
    (hnr : rejectText x (.release nm) = none) :
    (s.step (.recv c t id (.release nm))).frames = [.frame c (.ack id) true, .frame c .released true] ∧
    ∃ n, releaseTarget x nm = some n ∧
      (s.db.findNameplate a n = none → (s.step (.recv c t id (.release nm))).db = s.db) ∧
      (∀ np, s.db.findNameplate a n = some np →
        (s.db.findNpSide np.id (x.side.getD "") = none → (s.step (.recv c t id (.release nm))).db = s.db) ∧
        (∀ r0, s.db.findNpSide np.id (x.side.getD "") = some r0 →
          (((s.db.unclaim np.id (x.side.getD "")).npSidesOf np.id).any (·.claimed) = true ∧
            (s.step (.recv c t id (.release nm))).db = s.db.unclaim np.id (x.side.getD "")) ∨
          (((s.db.unclaim np.id (x.side.getD "")).npSidesOf np.id).any (·.claimed) = false ∧
            (s.step (.recv c t id (.release nm))).db =
              ((s.db.unclaim np.id (x.side.getD "")).delNpSidesOf np.id).delNameplate np.id))) := by
  obtain ⟨n, htarget, hstep⟩ := step_release t id nm hx ha hnr
  generalize hE : (((({ s with out := [], snaps := [] } : Sys).send c (.ack id)).updConn c
      (fun y => { y with didRelease := true })).releaseNameplate a n (x.side.getD "") t) = p at hstep
  obtain ⟨s1, b⟩ := p
  obtain ⟨hb, _, hcases⟩ := releaseNameplate_exact hE
  subst hb
  dsimp only at hstep
  obtain ⟨q, _, hsy⟩ := releaseNameplate_spec hE
  have hsyn : s1.synced = true := (synced_iff s1).2 (hsy hs)
  have hs0 : ({ s with out := [], snaps := [] } : Sys).synced = true := (synced_iff s).2 hs
  have hdb : (s.step (.recv c t id (.release nm))).db = s1.db := by rw [hstep]; rfl
  refine ⟨?_, n, htarget, ?_, ?_⟩
  · rw [hstep]
    simp only [Sys.send, emit_frames, Event.isFrame, if_true, q.frames, hsyn]
    simp [Sys.frames, Sys.emit, Sys.updConn, hs0, List.filter, Event.isFrame]
  · intro hnone
    rw [hdb]
    rcases hcases with ⟨_, e⟩ | ⟨np, h1, _⟩ | ⟨np, r0, h1, _⟩
    · rw [e]; rfl
    · have h1' : s.db.findNameplate a n = some np := h1
      rw [hnone] at h1'; cases h1'
    · have h1' : s.db.findNameplate a n = some np := h1
      rw [hnone] at h1'; cases h1'
  · intro np hnp
    rw [hdb]
    rcases hcases with ⟨h0, _⟩ | ⟨np', h1, h2, e⟩ | ⟨np', r0', h1, h2, h3⟩
    · have h0' : s.db.findNameplate a n = none := h0
      rw [hnp] at h0'; cases h0'
    · have h1' : s.db.findNameplate a n = some np' := h1
      rw [hnp] at h1'; cases h1'
      have h2' : s.db.findNpSide np.id (x.side.getD "") = none := h2
      refine ⟨fun _ => by rw [e]; rfl, fun r0 hr0 => ?_⟩
      rw [h2'] at hr0; cases hr0
    · have h1' : s.db.findNameplate a n = some np' := h1
      rw [hnp] at h1'; cases h1'
      have h2' : s.db.findNpSide np.id (x.side.getD "") = some r0' := h2
      refine ⟨fun hn => by rw [h2'] at hn; cases hn, fun r0 _ => ?_⟩
      rcases h3 with ⟨a1, a2, _⟩ | ⟨a1, a2, _⟩
      · exact Or.inl ⟨a1, a2⟩
      · exact Or.inr ⟨a1, a2⟩

end Wormhole
