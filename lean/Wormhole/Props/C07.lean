/-
  C07 -- "A nameplate lives exactly as long as someone holds it".

  `Chan.claims d a n σ`: in database `d`, side `σ` holds a claim on nameplate `n` of app `a`
  (a nameplate row `(a, n)` and a side row of its id with that side and `claimed = 1`).

  Step-level theorems are for ALL states satisfying `GSys.GInv` (resp. `Synced ∧ CInv`, `SInv`
  where said) and ALL operations, crashes included: the post-state of `crashIn k op` is one of
  the commit points of `op` (Inv/NpStep.lean).  `op.inner` is the operation a (possibly crashed)
  step consists of.
-/
import Wormhole.Props.C03
import Wormhole.Props.C04

namespace Wormhole
open Sys Sys.Np

/-- side `σ` holds a claim on nameplate `(a, n)` -/
def Chan.claims (d : Chan) (a n σ : String) : Prop :=
  ∃ np ∈ d.nameplates, np.app = a ∧ np.name = n ∧
    ∃ r ∈ d.npSides, r.npid = np.id ∧ r.claimed = true ∧ r.side = σ

/-- connection record `x` is bound to app `a` as side `σ` -/
def Conn.BoundTo (x : Conn) (a σ : String) : Prop := x.app = some a ∧ x.side = some σ

theorem boundTo_of_getD {s : Sys} (hc : s.ConnInv) {c : Nat} {x : Conn} {a σ : String}
    (hx : s.findConn c = some x) (ha : x.app = some a) (hσ : x.side.getD "" = σ) : x.BoundTo a σ := by
  refine ⟨ha, ?_⟩
  have := (hc.bound x (findConn_mem hx)).1 (by simp [ha])
  obtain ⟨σ', e⟩ := Option.isSome_iff_exists.1 this
  rw [e] at hσ ⊢
  simpa using hσ

/-! ## C07_claims_change_only_by_owner -/

/-- **a claim is ADDED only by its owner's claim/allocate.**  If `(a, n, σ)` is a claim after a step
    but not before, the step is (a crash inside) a `claim` of `n`, or an `allocate` that picks
    `n`, received on a connection bound to `(a, σ)`. -/
theorem C07_claim_added {g : GSys} (hI : g.GInv) (op : Op) {a n σ : String}
    (hpost : (g.step op).sys.db.claims a n σ) (hpre : ¬ g.sys.db.claims a n σ) :
    ∃ c t id cmd x, op.inner = .recv c t id cmd ∧ g.sys.findConn c = some x ∧ x.BoundTo a σ ∧
      ((∃ fresh, cmd = .claim (some n) fresh) ∨
       ∃ pick draws fresh, cmd = .allocate pick draws fresh ∧
         findAvailable (g.sys.db.namesOfApp a) pick draws = some n) := by
  have hrel := hI.npRel op
  have hp := hI.cinv.toPInv
  obtain ⟨np, hnp, e1, e2, r, hr, e3, e4, e5⟩ := hpost
  rcases hrel.ns_mem hp.bounded hr with ⟨r0, hr0, i0, _, hsame⟩ | ⟨a', nm, σ', fresh, t, hl, hreq, _, np', hnp', j1, j2, j3⟩
  · exfalso
    have : r0 = r := hsame e4
    subst this
    rcases hrel.np_mem hnp with h0 | ⟨_, _, _, _, _, _, rfl, _⟩
    · exact hpre ⟨np, h0, e1, e2, r0, hr0, e3, e4, e5⟩
    · have := hp.bounded.2 r0 hr0
      simp at e3; omega
  · have : np' = np := hrel.np_id_inj hp hnp' hnp (j1.trans e3)
    subst this
    have hσ : σ' = σ := by rw [hreq] at e5; exact e5
    subst hσ
    rw [← j2, ← j3, e1, e2] at hl
    obtain ⟨c, id, cmd, x, hop, hx, ha, hs, _, hcmd⟩ := npLbl_claim hl
    refine ⟨c, t, id, cmd, x, hop, hx, boundTo_of_getD hI.conn hx ha hs, ?_⟩
    rcases hcmd with rfl | ⟨p, dr, rfl, hf⟩
    · exact Or.inl ⟨fresh, rfl⟩
    · exact Or.inr ⟨p, dr, fresh, rfl, hf⟩

/-- **a claim on a surviving nameplate is REMOVED only by its owner's release.**  If `(a, n, σ)` is a
    claim before a step, the nameplate row `(a, n)` is still there afterwards, and `(a, n, σ)` is
    no claim any more, then the step is (a crash inside) a `release` received on a connection
    bound to `(a, σ)` that resolves to `n`. -/
theorem C07_claim_removed {g : GSys} (hI : g.GInv) (op : Op) {a n σ : String}
    (hpre : g.sys.db.claims a n σ)
    (hsurv : ∀ np ∈ g.sys.db.nameplates, np.app = a → np.name = n → np ∈ (g.step op).sys.db.nameplates)
    (hpost : ¬ (g.step op).sys.db.claims a n σ) :
    ∃ c t id nm x, op.inner = .recv c t id (.release nm) ∧ g.sys.findConn c = some x ∧ x.BoundTo a σ ∧
      releaseTarget x nm = some n := by
  have hrel := hI.npRel op
  have hp := hI.cinv.toPInv
  obtain ⟨np, hnp, e1, e2, r, hr, e3, e4, e5⟩ := hpre
  have hnp' := hsurv np hnp e1 e2
  rcases hrel.ns_kept hp hnp hnp' hr e3 with hk | ⟨hl, _⟩
  · exact absurd ⟨np, hnp', e1, e2, r, hk, e3, e4, e5⟩ hpost
  · rw [e1, e2, e5] at hl
    obtain ⟨c, t, id, nm, x, hop, hx, ha, hs, ht⟩ := npLbl_release hl
    exact ⟨c, t, id, nm, x, hop, hx, boundTo_of_getD hI.conn hx ha hs, ht⟩

/-- **a nameplate row is DELETED only** (i) in a `release` of that nameplate by a connection of
    its app after which no claimed side row would remain (every row of another side is
    already unclaimed), (ii) in a `close` by a connection of its app that acts on -- and deletes
    -- its mailbox, (iii) in a non-faulted sweep that deletes its mailbox. -/
theorem C07_nameplate_deleted {g : GSys} (hI : g.GInv) (op : Op) {np : Nameplate}
    (hnp : np ∈ g.sys.db.nameplates) (hgone : ∀ r ∈ (g.step op).sys.db.nameplates, r.id ≠ np.id) :
    (∃ c t id nm x σ, op.inner = .recv c t id (.release nm) ∧ g.sys.findConn c = some x ∧
      x.BoundTo np.app σ ∧ releaseTarget x nm = some np.name ∧
      ∀ r ∈ g.sys.db.npSides, r.npid = np.id → r.side ≠ σ → r.claimed = false) ∨
    (∃ c t id m mood x, op.inner = .recv c t id (.close m mood) ∧ g.sys.findConn c = some x ∧
      x.app = some np.app ∧ closeTarget x m = some np.mailbox ∧
      ∀ mb ∈ (g.step op).sys.db.mailboxes, mb.id ≠ np.mailbox) ∨
    (∃ now, op.inner = .sweep now false ∧ ∀ mb ∈ (g.step op).sys.db.mailboxes, mb.id ≠ np.mailbox) := by
  have hrel := hI.npRel op
  have hp := hI.cinv.toPInv
  have hnot : np ∉ (g.step op).sys.db.nameplates := fun h => hgone np h rfl
  rcases hrel.np_gone hp hnp hnot with ⟨σ, hl, hall⟩ | ⟨hl, hmb⟩ | ⟨hl, hmb⟩
  · obtain ⟨c, t, id, nm, x, hop, hx, ha, hs, ht⟩ := npLbl_release hl
    exact Or.inl ⟨c, t, id, nm, x, σ, hop, hx, boundTo_of_getD hI.conn hx ha hs, ht, hall⟩
  · obtain ⟨c, t, id, m, mood, x, hop, hx, ha, ht⟩ := npLbl_close hl
    exact Or.inr (Or.inl ⟨c, t, id, m, mood, x, hop, hx, ha, ht, hmb⟩)
  · obtain ⟨now, hop⟩ := npLbl_sweep hl
    exact Or.inr (Or.inr ⟨now, hop, hmb⟩)


/-- **a claim is ENDED only** by its owner's release, by the `close` (of a connection of its app)
    that deletes the nameplate's mailbox, or by a non-faulted sweep that deletes that mailbox --
    by nothing else, and by nobody else's release. -/
theorem C07_claim_ended_only_by {g : GSys} (hI : g.GInv) (op : Op) {a n σ : String}
    (hpre : g.sys.db.claims a n σ) (hpost : ¬ (g.step op).sys.db.claims a n σ) :
    (∃ c t id nm x, op.inner = .recv c t id (.release nm) ∧ g.sys.findConn c = some x ∧ x.BoundTo a σ ∧
      releaseTarget x nm = some n) ∨
    (∃ c t id m mood x np, op.inner = .recv c t id (.close m mood) ∧ g.sys.findConn c = some x ∧
      x.app = some a ∧ np ∈ g.sys.db.nameplates ∧ np.app = a ∧ np.name = n ∧
      closeTarget x m = some np.mailbox ∧ ∀ mb ∈ (g.step op).sys.db.mailboxes, mb.id ≠ np.mailbox) ∨
    (∃ now np, op.inner = .sweep now false ∧ np ∈ g.sys.db.nameplates ∧ np.app = a ∧ np.name = n ∧
      ∀ mb ∈ (g.step op).sys.db.mailboxes, mb.id ≠ np.mailbox) := by
  have hp := hI.cinv.toPInv
  obtain ⟨np, hnp, e1, e2, r, hr, e3, e4, e5⟩ := hpre
  by_cases hex : ∃ r' ∈ (g.step op).sys.db.nameplates, r'.id = np.id
  · obtain ⟨r', hr', e'⟩ := hex
    have : r' = np := (hI.npRel op).np_same hp hr' hnp e'
    subst this
    refine Or.inl (C07_claim_removed hI op ⟨r', hnp, e1, e2, r, hr, e3, e4, e5⟩ ?_ hpost)
    intro np' hnp' a1 a2
    have : np' = r' := hp.np_eq_of_key hnp' hnp (a1.trans e1.symm) (a2.trans e2.symm)
    rw [this]; exact hr'
  · have hgone : ∀ r' ∈ (g.step op).sys.db.nameplates, r'.id ≠ np.id := fun r' h1 h2 => hex ⟨r', h1, h2⟩
    rcases C07_nameplate_deleted hI op hnp hgone with
      ⟨c, t, id, nm, x, σ', hop, hx, hb, ht, hall⟩ | ⟨c, t, id, m, mood, x, hop, hx, ha, ht, hmb⟩ | ⟨now, hop, hmb⟩
    · have hσ : σ' = σ := by
        apply Classical.byContradiction
        intro hne
        have := hall r hr e3 (by rw [e5]; exact fun h => hne h.symm)
        rw [e4] at this; cases this
      subst hσ
      exact Or.inl ⟨c, t, id, nm, x, hop, hx, e1 ▸ hb, e2 ▸ ht⟩
    · exact Or.inr (Or.inl ⟨c, t, id, m, mood, x, np, hop, hx, e1 ▸ ha, hnp, e1, e2, ht, hmb⟩)
    · exact Or.inr (Or.inr ⟨now, np, hop, hnp, e1, e2, hmb⟩)

/-- **C07_claims_change_only_by_owner**: the two directions together -/
theorem C07_claims_change_only_by_owner {g : GSys} (hI : g.GInv) (op : Op) (a n σ : String) :
    ((g.step op).sys.db.claims a n σ → ¬ g.sys.db.claims a n σ →
      ∃ c t id cmd x, op.inner = .recv c t id cmd ∧ g.sys.findConn c = some x ∧ x.BoundTo a σ ∧
        ((∃ fresh, cmd = .claim (some n) fresh) ∨
         ∃ pick draws fresh, cmd = .allocate pick draws fresh ∧
           findAvailable (g.sys.db.namesOfApp a) pick draws = some n)) ∧
    (g.sys.db.claims a n σ → ¬ (g.step op).sys.db.claims a n σ →
      (∃ c t id nm x, op.inner = .recv c t id (.release nm) ∧ g.sys.findConn c = some x ∧ x.BoundTo a σ ∧
        releaseTarget x nm = some n) ∨
      (∃ c t id m mood x np, op.inner = .recv c t id (.close m mood) ∧ g.sys.findConn c = some x ∧
        x.app = some a ∧ np ∈ g.sys.db.nameplates ∧ np.app = a ∧ np.name = n ∧
        closeTarget x m = some np.mailbox ∧ ∀ mb ∈ (g.step op).sys.db.mailboxes, mb.id ≠ np.mailbox) ∨
      (∃ now np, op.inner = .sweep now false ∧ np ∈ g.sys.db.nameplates ∧ np.app = a ∧ np.name = n ∧
        ∀ mb ∈ (g.step op).sys.db.mailboxes, mb.id ≠ np.mailbox)) :=
  ⟨C07_claim_added hI op, C07_claim_ended_only_by hI op⟩

/-- **what does NOT end a claim** (the "in particular"): a received command `cmd` on connection
    record `x` leaves the claim `(a, n, σ)` in place unless it is the release of `n` by `(a, σ)`
    itself or a close, by a connection of app `a`, that acts on the mailbox of `(a, n)`.  So: not
    another side's release (`x` is not bound to `(a, σ)`), not a release of another nameplate
    (it resolves to another name), not the close of another mailbox, nothing in another app
    (`x.app ≠ some a`), and no claim/allocate/open/add/list/ping/bind at all. -/
theorem C07_claim_survives_recv {g : GSys} (hI : g.GInv) {op : Op} {c : Nat} {t : Time} {id : Val} {cmd : Cmd}
    {x : Conn} {a n σ : String} (hop : op.inner = .recv c t id cmd) (hx : g.sys.findConn c = some x)
    (hpre : g.sys.db.claims a n σ)
    (hrel : ∀ nm, cmd = .release nm → x.BoundTo a σ → releaseTarget x nm ≠ some n)
    (hclose : ∀ m mood, cmd = .close m mood → x.app = some a →
      ∀ np ∈ g.sys.db.nameplates, np.app = a → np.name = n → closeTarget x m ≠ some np.mailbox) :
    (g.step op).sys.db.claims a n σ := by
  apply Classical.byContradiction
  intro hpost
  rcases C07_claim_ended_only_by hI op hpre hpost with
    ⟨c', t', id', nm, x', hop', hx', hb, ht⟩ | ⟨c', t', id', m, mood, x', np, hop', hx', ha, hnp, e1, e2, ht, _⟩ |
    ⟨now, np, hop', _⟩
  · rw [hop] at hop'
    cases hop'
    rw [hx] at hx'; cases hx'
    exact hrel nm rfl hb ht
  · rw [hop] at hop'
    cases hop'
    rw [hx] at hx'; cases hx'
    exact hclose m mood rfl ha np hnp e1 e2 ht
  · rw [hop] at hop'; cases hop'

/-- connects, drops, restarts and faulted sweeps end no claim -/
theorem C07_claim_survives_other {g : GSys} (hI : g.GInv) {op : Op} {a n σ : String}
    (hop : (∃ c, op.inner = .connect c) ∨ (∃ c, op.inner = .drop c) ∨ (∃ t, op.inner = .restart t) ∨
      (∃ now, op.inner = .sweep now true))
    (hpre : g.sys.db.claims a n σ) : (g.step op).sys.db.claims a n σ := by
  apply Classical.byContradiction
  intro hpost
  rcases C07_claim_ended_only_by hI op hpre hpost with
    ⟨c', t', id', nm, x', hop', _⟩ | ⟨c', t', id', m, mood, x', np, hop', _⟩ | ⟨now, np, hop', _⟩ <;>
  · rcases hop with ⟨_, h⟩ | ⟨_, h⟩ | ⟨_, h⟩ | ⟨_, h⟩ <;> rw [h] at hop' <;> cases hop'


/-! ## C07_listed_iff_held -/

/-- **C07_listed_iff_held** (crash-free states, `SInv`): with listing allowed, `list` is answered
    exactly `[ack, nameplates ids]` and `n ∈ ids` iff some side holds a claim on `(app, n)`. -/
theorem C07_listed_iff_held {s : Sys} (hS : s.db.SInv) {c : Nat} {x : Conn} {a : String} (t : Time) (id : Val)
    (hx : s.findConn c = some x) (ha : x.app = some a) (hl : s.cfg.allowList = true) :
    (s.step (.recv c t id .list)).out =
      [.frame c (.ack id) s.synced, .frame c (.nameplates (s.listAnswer a)) s.synced] ∧
    ∀ n, n ∈ s.listAnswer a ↔ ∃ σ, s.db.claims a n σ := by
  obtain ⟨h1, h2, _, _⟩ := C18_list_answer t id hx ha
  refine ⟨h1, fun n => ?_⟩
  rw [(h2 hl).2 n]
  constructor
  · rintro ⟨r, hr, e1, e2⟩
    obtain ⟨sd, hsd, e3, e4⟩ := hS.npClaimed r hr
    exact ⟨sd.side, r, hr, e1, e2, sd, hsd, e3, e4, rfl⟩
  · rintro ⟨σ, r, hr, e1, e2, _⟩
    exact ⟨r, hr, e1, e2⟩

/-! ## C07_release_total -/

/-- a `release` that passes validation, as a state equation -/
theorem step_release {s : Sys} {c : Nat} {x : Conn} {a : String} (t : Time) (id : Val) (nm : Option String)
    (hx : s.findConn c = some x) (ha : x.app = some a) (hnr : rejectText x (.release nm) = none) :
    ∃ n, releaseTarget x nm = some n ∧
      s.step (.recv c t id (.release nm)) =
        match (((({ s with out := [], snaps := [] } : Sys).send c (.ack id)).updConn c
            (fun y => { y with didRelease := true })).releaseNameplate a n (x.side.getD "") t) with
        | (s1, true) => s1.send c .released
        | (s1, false) => s1.internalErr c "IndexError" := by
  have hid := findConn_id hx
  simp only [rejectText, needBind, ha] at hnr
  have hd : x.didRelease = false := by
    cases h : x.didRelease
    · rfl
    · simp [h] at hnr
  simp only [hd] at hnr
  rw [step_recv]
  unfold Sys.onMessage
  have : ({ s with out := [], snaps := [] } : Sys).findConn c = some x := hx
  rw [this]
  simp only [ha]
  unfold Sys.handleRelease
  simp only [hd, hid]
  cases nm with
  | some n =>
    refine ⟨n, rfl, ?_⟩
    cases hh : x.nameplateId with
    | none => simp; rfl
    | some held =>
      simp only [hh] at hnr
      have : n = held := by
        apply Classical.byContradiction
        intro hne
        simp [hne] at hnr
      subst this
      simp; rfl
  | none =>
    cases hh : x.nameplateId with
    | none => simp [hh] at hnr
    | some held => exact ⟨held, by simp [releaseTarget, hh], by simp; rfl⟩

/-- **C07_release_total.**  Every `release` that passes validation, from a synced state, is
    answered by exactly `[ack id, released]` (both sent with nothing uncommitted); it resolves to
    a name `n`, and the channel database afterwards is: unchanged if `(a, n)` does not exist or
    the caller's side has no row on it; else the side's row is unclaimed and, if no claimed row
    remains, the nameplate and its side rows are deleted.  It never fails. -/
theorem C07_release_total {s : Sys} (hs : s.Synced) {c : Nat} {x : Conn} {a : String} (t : Time) (id : Val)
    (nm : Option String) (hx : s.findConn c = some x) (ha : x.app = some a)
    (hnr : rejectText x (.release nm) = none) :
    (s.step (.recv c t id (.release nm))).frames = [.frame c (.ack id) true, .frame c .released true] ∧
    ∃ n, releaseTarget x nm = some n ∧
      (s.db.findNameplate a n = none → (s.step (.recv c t id (.release nm))).db = s.db) ∧
      (∀ np, s.db.findNameplate a n = some np →
        (s.db.findNpSide np.id (x.side.getD "") = none → (s.step (.recv c t id (.release nm))).db = s.db) ∧
        (∀ r0, s.db.findNpSide np.id (x.side.getD "") = some r0 →
          (((s.db.unclaim np.id (x.side.getD "")).npSidesOf np.id).any (·.claimed) = true ∧
            (s.step (.recv c t id (.release nm))).db = s.db.unclaim np.id (x.side.getD "")) ∨
          (((s.db.unclaim np.id (x.side.getD "")).npSidesOf np.id).any (·.claimed) = false ∧
            (s.step (.recv c t id (.release nm))).db =
              ((s.db.unclaim np.id (x.side.getD "")).delNpSidesOf np.id).delNameplate np.id))) := by
  obtain ⟨n, htarget, hstep⟩ := step_release t id nm hx ha hnr
  generalize hE : (((({ s with out := [], snaps := [] } : Sys).send c (.ack id)).updConn c
      (fun y => { y with didRelease := true })).releaseNameplate a n (x.side.getD "") t) = p at hstep
  obtain ⟨s1, b⟩ := p
  obtain ⟨hb, _, hcases⟩ := releaseNameplate_exact hE
  subst hb
  dsimp only at hstep
  obtain ⟨q, _, hsy⟩ := releaseNameplate_spec hE
  have hsyn : s1.synced = true := (synced_iff s1).2 (hsy hs)
  have hs0 : ({ s with out := [], snaps := [] } : Sys).synced = true := (synced_iff s).2 hs
  have hdb : (s.step (.recv c t id (.release nm))).db = s1.db := by rw [hstep]; rfl
  refine ⟨?_, n, htarget, ?_, ?_⟩
  · rw [hstep]
    simp only [Sys.send, emit_frames, Event.isFrame, if_true, q.frames, hsyn]
    simp [Sys.frames, Sys.emit, Sys.updConn, hs0, List.filter, Event.isFrame]
  · intro hnone
    rw [hdb]
    rcases hcases with ⟨_, e⟩ | ⟨np, h1, _⟩ | ⟨np, r0, h1, _⟩
    · rw [e]; rfl
    · have h1' : s.db.findNameplate a n = some np := h1
      rw [hnone] at h1'; cases h1'
    · have h1' : s.db.findNameplate a n = some np := h1
      rw [hnone] at h1'; cases h1'
  · intro np hnp
    rw [hdb]
    rcases hcases with ⟨h0, _⟩ | ⟨np', h1, h2, e⟩ | ⟨np', r0', h1, h2, h3⟩
    · have h0' : s.db.findNameplate a n = none := h0
      rw [hnp] at h0'; cases h0'
    · have h1' : s.db.findNameplate a n = some np' := h1
      rw [hnp] at h1'; cases h1'
      have h2' : s.db.findNpSide np.id (x.side.getD "") = none := h2
      refine ⟨fun _ => (by rw [e]; rfl), fun r0 hr0 => ?_⟩
      rw [h2'] at hr0; cases hr0
    · have h1' : s.db.findNameplate a n = some np' := h1
      rw [hnp] at h1'; cases h1'
      have h2' : s.db.findNpSide np.id (x.side.getD "") = some r0' := h2
      refine ⟨fun hn => (by rw [h2'] at hn; cases hn), fun r0 _ => ?_⟩
      rcases h3 with ⟨a1, a2, _⟩ | ⟨a1, a2, _⟩
      · exact Or.inl ⟨a1, a2⟩
      · exact Or.inr ⟨a1, a2⟩


/-! ### releases that change nothing; the second release -/

theorem Chan.unclaim_eq_self {d : Chan} {i : Nat} {σ : String}
    (h : ∀ r ∈ d.npSides, r.npid = i → r.side = σ → r.claimed = false) : d.unclaim i σ = d := by
  unfold Chan.unclaim
  have : d.npSides.map (fun r => if r.npid = i ∧ r.side = σ then { r with claimed := false } else r) = d.npSides := by
    conv => rhs; rw [← List.map_id d.npSides]
    apply List.map_congr_left
    intro r hr
    by_cases hc : r.npid = i ∧ r.side = σ
    · have := h r hr hc.1 hc.2
      simp only [hc, and_self, if_true, id]
      cases r; simp_all
    · simp [hc]
  rw [this]

/-- after `UPDATE … SET claimed=0` the side holds no claim -/
theorem Chan.not_claims_unclaim {d : Chan} (hp : d.PInv) {a n σ : String} {np : Nameplate}
    (hnp : d.findNameplate a n = some np) : ¬ (d.unclaim np.id σ).claims a n σ := by
  rintro ⟨np', hnp', e1, e2, r, hr, e3, e4, e5⟩
  obtain ⟨m1, m2, m3⟩ := Chan.findNameplate_spec hnp
  have : np' = np := hp.np_eq_of_key hnp' m1 (e1.trans m2.symm) (e2.trans m3.symm)
  subst this
  simp only [Chan.unclaim, List.mem_map] at hr
  obtain ⟨r1, _, rfl⟩ := hr
  by_cases hc : r1.npid = np'.id ∧ r1.side = σ
  · simp [hc] at e4
  · simp only [hc, if_false] at e3 e5
    exact hc ⟨e3, e5⟩

theorem Chan.not_claims_deleted {d : Chan} (hp : d.PInv) {a n σ : String} {np : Nameplate}
    (hnp : d.findNameplate a n = some np) :
    ¬ (((d.unclaim np.id σ).delNpSidesOf np.id).delNameplate np.id).claims a n σ := by
  rintro ⟨np', hnp', e1, e2, _⟩
  obtain ⟨m1, m2, m3⟩ := Chan.findNameplate_spec hnp
  simp only [Chan.delNameplate, Chan.delNpSidesOf, Chan.unclaim, List.mem_filter, decide_eq_true_eq] at hnp'
  have : np' = np := hp.np_eq_of_key hnp'.1 m1 (e1.trans m2.symm) (e2.trans m3.symm)
  exact hnp'.2 (by rw [this])

/-- **a release by a side that holds no claim changes nothing** (crash-free states, `SInv`):
    no nameplate `(a, n)`, no row of the side on it, or a row with `claimed = 0`.
    (Under `CInv` alone the last case is false: after a crash between the two commits of the last
    release the nameplate has only unclaimed rows, and the re-sent release completes the deletion.) -/
theorem C07_release_noop {s : Sys} (hs : s.Synced) (hS : s.db.SInv) {c : Nat} {x : Conn} {a n : String} (t : Time)
    (id : Val) (nm : Option String) (hx : s.findConn c = some x) (ha : x.app = some a)
    (hnr : rejectText x (.release nm) = none) (htarget : releaseTarget x nm = some n)
    (hno : ¬ s.db.claims a n (x.side.getD "")) :
    (s.step (.recv c t id (.release nm))).db = s.db := by
  obtain ⟨_, n', ht', h1, h2⟩ := C07_release_total hs t id nm hx ha hnr
  rw [htarget] at ht'; cases ht'
  cases hnp : s.db.findNameplate a n with
  | none => exact h1 hnp
  | some np =>
    obtain ⟨k1, k2⟩ := h2 np hnp
    cases hside : s.db.findNpSide np.id (x.side.getD "") with
    | none => exact k1 hside
    | some r0 =>
      obtain ⟨m1, m2, m3⟩ := Chan.findNameplate_spec hnp
      obtain ⟨s1, s2, s3⟩ := Chan.findNpSide_spec hside
      have hself : s.db.unclaim np.id (x.side.getD "") = s.db := by
        apply Chan.unclaim_eq_self
        intro r hr e1 e2
        cases hcl : r.claimed with
        | false => rfl
        | true => exact absurd ⟨np, m1, m2, m3, r, hr, e1, hcl, e2⟩ hno
      rcases k2 r0 hside with ⟨_, e⟩ | ⟨hany, _⟩
      · rw [e, hself]
      · exfalso
        rw [hself] at hany
        obtain ⟨rc, hrc, e1, e2⟩ := hS.npClaimed np m1
        simp only [Chan.npSidesOf, List.any_eq_false, List.mem_filter, decide_eq_true_eq, Bool.not_eq_true,
          and_imp] at hany
        have := hany rc hrc e1
        rw [e2] at this; cases this

/-- **after a release the side holds no claim** on that nameplate -/
theorem C07_release_unclaims {s : Sys} (hs : s.Synced) (hc : s.db.CInv) {c : Nat} {x : Conn} {a n : String} (t : Time)
    (id : Val) (nm : Option String) (hx : s.findConn c = some x) (ha : x.app = some a)
    (hnr : rejectText x (.release nm) = none) (htarget : releaseTarget x nm = some n) :
    ¬ (s.step (.recv c t id (.release nm))).db.claims a n (x.side.getD "") := by
  obtain ⟨_, n', ht', h1, h2⟩ := C07_release_total hs t id nm hx ha hnr
  rw [htarget] at ht'; cases ht'
  cases hnp : s.db.findNameplate a n with
  | none =>
    rw [h1 hnp]
    rintro ⟨np, hn, e1, e2, _⟩
    exact Chan.findNameplate_none_spec hnp np hn ⟨e1, e2⟩
  | some np =>
    obtain ⟨k1, k2⟩ := h2 np hnp
    obtain ⟨m1, m2, m3⟩ := Chan.findNameplate_spec hnp
    cases hside : s.db.findNpSide np.id (x.side.getD "") with
    | none =>
      rw [k1 hside]
      rintro ⟨np', hn', e1, e2, r, hr, e3, _, e5⟩
      have : np' = np := hc.toPInv.np_eq_of_key hn' m1 (e1.trans m2.symm) (e2.trans m3.symm)
      subst this
      simp only [Chan.findNpSide, List.find?_eq_none, decide_eq_true_eq] at hside
      exact hside r hr ⟨e3, e5⟩
    | some r0 =>
      rcases k2 r0 hside with ⟨_, e⟩ | ⟨_, e⟩
      · rw [e]; exact Chan.not_claims_unclaim hc.toPInv hnp
      · rw [e]; exact Chan.not_claims_deleted hc.toPInv hnp

/-- **release is idempotent**: a second release of the same nameplate by the same side (any
    connection bound to it -- typically a new one, `release` being once-per-connection) changes
    nothing in the channel database.  `s'` is the state after the first release; `SInv` of `s'` is
    what `GSys.ReachCF.sinv` provides in crash-free histories. -/
theorem C07_release_twice {s : Sys} (hs : s.Synced) (hc : s.db.CInv) {c c' : Nat} {x x' : Conn} {a n : String}
    (t t' : Time) (id id' : Val) (nm nm' : Option String)
    (hx : s.findConn c = some x) (ha : x.app = some a) (hnr : rejectText x (.release nm) = none)
    (htarget : releaseTarget x nm = some n)
    (hs' : (s.step (.recv c t id (.release nm))).Synced) (hS' : (s.step (.recv c t id (.release nm))).db.SInv)
    (hx' : (s.step (.recv c t id (.release nm))).findConn c' = some x') (ha' : x'.app = some a)
    (hside : x'.side.getD "" = x.side.getD "")
    (hnr' : rejectText x' (.release nm') = none) (htarget' : releaseTarget x' nm' = some n) :
    ((s.step (.recv c t id (.release nm))).step (.recv c' t' id' (.release nm'))).db =
      (s.step (.recv c t id (.release nm))).db :=
  C07_release_noop hs' hS' t' id' nm' hx' ha' hnr' htarget'
    (hside ▸ C07_release_unclaims hs hc t id nm hx ha hnr htarget)

/-! ## C07_reclaimed -/

/-- **C07_reclaimed.**  A claim by a side whose row on the live nameplate says `claimed = 0`
    (it released earlier) is answered by exactly `[ack, error "reclaimed"]`; both databases and
    their committed states are unchanged and nothing is committed.  The connection record DOES
    change: `didClaim := true`, `nameplateId := some n` (the code sets these flags before it calls
    `claim_nameplate`), so a later `release` without a name on this connection resolves to `n`. -/
theorem C07_reclaimed {s : Sys} (hs : s.Synced) (hc : s.db.CInv) {c : Nat} {x : Conn} {a n fresh : String}
    {t : Time} {id : Val} {row : Nameplate} {r : NpSide}
    (hx : s.findConn c = some x) (ha : x.app = some a) (hd : x.didClaim = false)
    (hrow : s.db.findNameplate a n = some row)
    (hside : s.db.findNpSide row.id (x.side.getD "") = some r) (hr : r.claimed = false) :
    (s.step (.recv c t id (.claim (some n) fresh))).out =
      [.frame c (.ack id) true, .frame c (.error "reclaimed") true] ∧
    (s.step (.recv c t id (.claim (some n) fresh))).db = s.db ∧
    (s.step (.recv c t id (.claim (some n) fresh))).disk = s.disk ∧
    (s.step (.recv c t id (.claim (some n) fresh))).udb = s.udb ∧
    (s.step (.recv c t id (.claim (some n) fresh))).udisk = s.udisk ∧
    (s.step (.recv c t id (.claim (some n) fresh))).snaps = [] ∧
    (s.step (.recv c t id (.claim (some n) fresh))).conns =
      s.conns.map (fun y => if y.id = c then { y with didClaim := true, nameplateId := some n } else y) := by
  have hstep := step_claim t id n fresh hx ha hd
  generalize hE : (((({ s with out := [], snaps := [] } : Sys).send c (.ack id)).updConn c
      (fun y => { y with didClaim := true, nameplateId := some n })).claimNameplate a n (x.side.getD "") t fresh) = p
    at hstep
  obtain ⟨s1, res⟩ := p
  have hs0 : ({ s with out := [], snaps := [] } : Sys).synced = true := (synced_iff s).2 hs
  rcases claimNameplate_present (s := ((({ s with out := [], snaps := [] } : Sys).send c (.ack id)).updConn c
      (fun y => { y with didClaim := true, nameplateId := some n }))) hc.toPInv hrow hE with
    ⟨r0, _, _, e1, e2⟩ | ⟨hall, _⟩
  · subst e1 e2
    rw [hstep]
    refine ⟨?_, rfl, rfl, rfl, rfl, rfl, rfl⟩
    simp [Sys.sendError, Sys.send, Sys.emit, Sys.updConn, hs0]
    exact hs0
  · have := hall r hside
    rw [hr] at this; cases this

/-! ## C07_reusable -/

/-- **C07_reusable.**  After the step that deleted the nameplate row of `(a, n)`, `n` is not among
    the names of app `a` any more: it disappears from `list` (`C18_list_answer`) and from the
    `claimed` argument of `findAvailable`. -/
theorem C07_reusable {g : GSys} (hI : g.GInv) (op : Op) {np : Nameplate} (hnp : np ∈ g.sys.db.nameplates)
    (hgone : ∀ r ∈ (g.step op).sys.db.nameplates, r.id ≠ np.id) :
    np.name ∉ (g.step op).sys.db.namesOfApp np.app := by
  rw [mem_namesOfApp]
  rintro ⟨r, hr, e1, e2⟩
  have hnot : np ∉ (g.step op).sys.db.nameplates := fun h => hgone np h rfl
  have hr0 := (hI.npRel op).sub_of_gone hI.cinv.toPInv hnp hnot r hr
  have : r = np := hI.cinv.toPInv.np_eq_of_key hr0 hnp e1 e2
  exact hgone r hr (by rw [this])

/-- ... so `allocate` may hand it out again (link to C04): if the freed name is the decimal
    rendering of a `k` with `d ≤ 3` digits and no shorter name is free, some outcome of
    `random.choice` makes `findAvailable` return it in the post-state. -/
theorem C07_reusable_alloc {g : GSys} (hI : g.GInv) (op : Op) {np : Nameplate} (hnp : np ∈ g.sys.db.nameplates)
    (hgone : ∀ r ∈ (g.step op).sys.db.nameplates, r.id ≠ np.id) {d k : Nat} (draws : List Nat)
    (hname : np.name = toString k) (hd : d = 1 ∨ d = 2 ∨ d = 3)
    (hshorter : ∀ e, 1 ≤ e → e < d → ¬ C04.Free ((g.step op).sys.db.namesOfApp np.app) e)
    (hlo : 10 ^ (d - 1) ≤ k) (hhi : k < 10 ^ d) :
    ∃ pick, findAvailable ((g.step op).sys.db.namesOfApp np.app) pick draws = some np.name := by
  rw [hname]
  exact C04.C04_every_choice_reachable hd hshorter hlo hhi (hname ▸ C07_reusable hI op hnp hgone)


/-! ## non-vacuity -/

/-- a decidable rendering of the per-connection clauses of `GInv` -/
def connOkB (g : GSys) (x : Conn) : Bool :=
  (match x.mailbox with
   | some mb => x.listening &&
      (match x.app with
       | some a => g.sys.db.mailboxes.any (fun m => decide (m.id = mb ∧ m.app = a))
       | none => false)
   | none => true) &&
  (!x.listening || x.mailbox.isSome) && (x.app.isSome == x.side.isSome) &&
  (match x.mailboxId with | some m => decide (m ∈ g.used) | none => true)

/-- a decidable rendering of `GInv` -/
theorem ginv_of_decide (g : GSys) (hc : g.sys.db.CInv)
    (hids : g.sys.conns.Pairwise (fun a b => ¬ a.id = b.id))
    (hconn : g.sys.conns.all (connOkB g) = true)
    (hsync : g.sys.db = g.sys.disk ∧ g.sys.udb = g.sys.udisk)
    (hused : ∀ m ∈ g.sys.db.mailboxes, m.id ∈ g.used ∧ m.updated ≤ g.clock) : g.GInv := by
  rw [List.all_eq_true] at hconn
  refine ⟨hc, ⟨hids, ?_, ?_, ?_⟩, hsync, fun m hm => (hused m hm).1, ?_, fun m hm => (hused m hm).2⟩
  · intro x hx mb e
    have := hconn x hx
    simp only [connOkB, e, Bool.and_eq_true] at this
    obtain ⟨⟨⟨⟨h1, h2⟩, _⟩, _⟩, _⟩ := this
    refine ⟨h1, ?_⟩
    cases ha : x.app with
    | none => simp [ha] at h2
    | some a =>
      simp only [ha, List.any_eq_true, decide_eq_true_eq] at h2
      exact ⟨a, rfl, h2⟩
  · intro x hx h
    have := hconn x hx
    simp only [connOkB, Bool.and_eq_true, Bool.or_eq_true] at this
    obtain ⟨⟨⟨_, h2⟩, _⟩, _⟩ := this
    rcases h2 with h2 | h2
    · simp [h] at h2
    · exact h2
  · intro x hx
    have := hconn x hx
    simp only [connOkB, Bool.and_eq_true, beq_iff_eq] at this
    rw [this.1.2]
  · intro x hx m e
    have := hconn x hx
    simp only [connOkB, e, Bool.and_eq_true, decide_eq_true_eq] at this
    exact this.2

theorem exG_ginv : exG.GInv :=
  ginv_of_decide _ exG_cinv (by decide +kernel) (by decide +kernel) (by decide +kernel) (by decide +kernel)

theorem exG_sinv : exG.sys.db.SInv := ⟨exG_cinv, by decide +kernel, by decide +kernel⟩

/-- in `exG` sides "s1" and "s2" hold ("app","7"); connection 4 (side "s1") claims a NEW name "9" -/
example := C07_claim_added exG_ginv (.recv 4 17 .null (.claim (some "9") "mb9")) (a := "app") (n := "9") (σ := "s1")
  (by unfold Chan.claims; decide +kernel) (by unfold Chan.claims; decide +kernel)

/-- "s1" releases "7" on connection 1: its claim goes, the nameplate stays (held by "s2") -/
example := C07_claim_removed exG_ginv (.recv 1 20 .null (.release none)) (a := "app") (n := "7") (σ := "s1")
  (by unfold Chan.claims; decide +kernel) (by decide +kernel) (by unfold Chan.claims; decide +kernel)

/-- the state after that release -/
def exG1 : GSys := exG.step (.recv 1 20 .null (.release none))
theorem exG1_cinv : exG1.sys.db.CInv := cinv_of_decide _ (by decide +kernel)
theorem exG1_ginv : exG1.GInv :=
  ginv_of_decide _ exG1_cinv (by decide +kernel) (by decide +kernel) (by decide +kernel) (by decide +kernel)
theorem exG1_sinv : exG1.sys.db.SInv := ⟨exG1_cinv, by decide +kernel, by decide +kernel⟩

/-- then "s2" releases too: the row of ("app","7") (id 1) is deleted -- case (i) -/
example := C07_nameplate_deleted exG1_ginv (.recv 2 21 .null (.release none)) (np := ⟨1, "app", "7", "mb1"⟩)
  (by decide +kernel) (by decide +kernel)
example := C07_reusable exG1_ginv (.recv 2 21 .null (.release none)) (np := ⟨1, "app", "7", "mb1"⟩)
  (by decide +kernel) (by decide +kernel)
/-- "7" is a one-digit name: `allocate` can return it again -/
example := C07_reusable_alloc exG1_ginv (.recv 2 21 .null (.release none)) (np := ⟨1, "app", "7", "mb1"⟩)
  (by decide +kernel) (by decide +kernel) (d := 1) (k := 7) [] (by decide) (Or.inl rfl)
  (fun e h1 h2 => by omega) (by decide) (by decide)

/-- a release by "s2" does not end the claim of "s1" -/
example := C07_claim_survives_recv exG_ginv (op := .recv 2 21 .null (.release none)) (a := "app") (n := "7") (σ := "s1")
  (x := { id := 2, app := some "app", side := some "s2", didClaim := true, nameplateId := some "7" })
  rfl (by decide +kernel) (by unfold Chan.claims; decide +kernel)
  (fun nm _ hb => by simp [Conn.BoundTo] at hb) (fun m mood h => by cases h)

example := C07_claim_ended_only_by exG_ginv (.recv 1 20 .null (.release none)) (a := "app") (n := "7") (σ := "s1")
  (by unfold Chan.claims; decide +kernel) (by unfold Chan.claims; decide +kernel)

/-- listing in `exG`: exactly "7" -/
example := C07_listed_iff_held (s := exG.sys) exG_sinv (c := 4)
  (x := { id := 4, app := some "app", side := some "s1" }) (a := "app") 30 .null (by decide +kernel) rfl rfl

/-- the release of "s1" in `exG` (connection 1, no name given: resolves to the claimed "7") -/
example := C07_release_total (s := exG.sys) exG_synced (c := 1)
  (x := { id := 1, app := some "app", side := some "s1", didClaim := true, nameplateId := some "7" }) (a := "app")
  20 .null none (by decide +kernel) rfl (by decide)

/-- a second release by "s1", from its new connection 4, naming "7": nothing changes -/
example := C07_release_noop (s := exG1.sys) ⟨by decide +kernel, by decide +kernel⟩ exG1_sinv (c := 4)
  (x := { id := 4, app := some "app", side := some "s1" }) (a := "app") (n := "7") 22 .null (some "7")
  (by decide +kernel) rfl (by decide) rfl (by unfold Chan.claims; decide +kernel)

example := C07_release_twice (s := exG.sys) exG_synced exG_cinv (c := 1) (c' := 4)
  (x := { id := 1, app := some "app", side := some "s1", didClaim := true, nameplateId := some "7" })
  (x' := { id := 4, app := some "app", side := some "s1" }) (a := "app") (n := "7") 20 22 .null .null none (some "7")
  (by decide +kernel) rfl (by decide) rfl ⟨by decide +kernel, by decide +kernel⟩ exG1_sinv (by decide +kernel) rfl rfl
  (by decide) rfl

/-- "s1" released "7" (still held by "s2"), then claims it again from connection 4: `reclaimed` -/
example : (exG1.sys.step (.recv 4 23 (.int 2) (.claim (some "7") "mb4"))).out =
    [.frame 4 (.ack (.int 2)) true, .frame 4 (.error "reclaimed") true] :=
  (C07_reclaimed (s := exG1.sys) ⟨by decide +kernel, by decide +kernel⟩ exG1_cinv
    (x := { id := 4, app := some "app", side := some "s1" }) (row := ⟨1, "app", "7", "mb1"⟩)
    (r := ⟨1, false, "s1", 11⟩) (by decide +kernel) rfl rfl (by decide +kernel) (by decide +kernel) rfl).1

#print axioms C07_claim_added
#print axioms C07_claim_removed
#print axioms C07_nameplate_deleted
#print axioms C07_claim_ended_only_by
#print axioms C07_claims_change_only_by_owner
#print axioms C07_claim_survives_recv
#print axioms C07_claim_survives_other
#print axioms C07_listed_iff_held
#print axioms C07_release_total
#print axioms C07_release_noop
#print axioms C07_release_unclaims
#print axioms C07_release_twice
#print axioms C07_reclaimed
#print axioms C07_reusable
#print axioms C07_reusable_alloc

end Wormhole
