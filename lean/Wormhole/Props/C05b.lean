/-
  C05b — "at most two sides are ever told the mailbox of one nameplate incarnation", with the
  answers that got out of a step that then CRASHED counted too.

  The referee (AUDIT_A.md, table C05 and problem 5): `C05.ClaimedNow` of Props/C05.lean demands
  `op = .recv c t id (.claim …)` literally, so a `claimed` frame emitted by
  `crashIn k (recv c t id (claim …))` with `k` larger than the number of commits of the step (the
  `none` branch of `Sys.step`: the process dies after the whole answer was written) is not
  counted by `C05_nameplate_two_reach`.

  Here
  * `ClaimedNowAll` / `ClaimedInAll` : the same notions with `op.inner = .recv …` (as
      `claimedAnswers` of Props/C03.lean), the frame being looked for in the output of the step
      as it was actually executed (cut by the crash, if any);
  * `ClaimedNow.all`, `ClaimedIn.all` : the old notions imply the new ones;
  * `claimedNowAll_complete` : EVERY `claimed` frame in the output of ANY step from a `GInv` state
      is accounted for by `ClaimedNowAll` (nothing else is left uncounted);
  * `C05_cut_output_no_claimed` : a crashed step whose output contains a `claimed` frame is a
      `crashIn k (recv … claim …)` with `k` larger than the number of commit points of the step: an
      output CUT at a commit (`some p` branch of `Sys.step`) never contains `claimed` (the frame
      comes after the last commit); and the database the crash leaves is the database of the
      uncrashed step (the step ends synced), the frame is the uncrashed step's frame;
  * `C05_nameplate_two_all` : along every well-formed history (crashes included) from a reachable
      state, the sides answered `claimed` for one nameplate row id — crashed steps included — lie
      in ONE list of at most two sides;  `C05_nameplate_two_all_init` the same from `GSys.init`;
      `C05_nameplate_two_reach_of_all` : the old theorem as a corollary.
-/
import Wormhole.Props.C03
import Wormhole.Props.C05

namespace Wormhole
namespace C05
open Sys

/-! ## commit events and crash points -/

/-- the number of `commit` events of an output -/
def commitCount : List Event → Nat
  | [] => 0
  | .commit _ :: rest => commitCount rest + 1
  | _ :: rest => commitCount rest

theorem commitCount_append (a b : List Event) : commitCount (a ++ b) = commitCount a + commitCount b := by
  induction a with
  | nil => simp [commitCount]
  | cons e rest ih =>
    cases e <;> simp only [List.cons_append, commitCount, ih] <;> omega

/-- a cut at the `k`-th commit does not look beyond a prefix that has `k` commits -/
theorem cutAtCommit_append : ∀ (l r : List Event) (k : Nat), k ≤ commitCount l →
    cutAtCommit k (l ++ r) = cutAtCommit k l := by
  intro l r
  induction l with
  | nil =>
    intro k hk
    have : k = 0 := by simpa [commitCount] using hk
    subst this
    simp [cutAtCommit]
  | cons e rest ih =>
    intro k hk
    cases k with
    | zero => simp [cutAtCommit]
    | succ k =>
      cases e with
      | commit w =>
        simp only [commitCount] at hk
        simp only [List.cons_append, cutAtCommit]
        rw [ih k (by omega)]
      | frame c f b =>
        simp only [commitCount] at hk
        simp only [List.cons_append, cutAtCommit]
        rw [ih (k + 1) hk]
      | internal c cls =>
        simp only [commitCount] at hk
        simp only [List.cons_append, cutAtCommit]
        rw [ih (k + 1) hk]
      | fired now old =>
        simp only [commitCount] at hk
        simp only [List.cons_append, cutAtCommit]
        rw [ih (k + 1) hk]

/-- every crash point recorded in the current step has its `commit` event in the output -/
def SnapsLe (s : Sys) : Prop := s.snaps.length ≤ commitCount s.out

theorem SnapsLe.closedG : ClosedG SnapsLe where
  emit := by
    intro s e _ h
    show s.snaps.length ≤ commitCount (s.out ++ [e])
    rw [commitCount_append]
    exact Nat.le_trans h (Nat.le_add_right _ _)
  modUdb := fun _ _ h => h
  commit := by
    intro s h
    unfold Sys.commit
    split
    · exact h
    · show (s.snaps ++ [_]).length ≤ commitCount (s.out ++ [.commit .chan])
      rw [commitCount_append, List.length_append]
      simp only [List.length_singleton, commitCount]
      exact Nat.add_le_add_right h 1
  ucommit := by
    intro s h
    unfold Sys.ucommit
    split
    · exact h
    · show (s.snaps ++ [_]).length ≤ commitCount (s.out ++ [.commit .usage])
      rw [commitCount_append, List.length_append]
      simp only [List.length_singleton, commitCount]
      exact Nat.add_le_add_right h 1
  grow := fun _ _ _ h => h

/-- the three ways a `crashIn k op` step ends (`Sys.step`) -/
theorem step_crash_cases (s : Sys) (k : Nat) (op : Op) :
    (k = 0 ∧ (s.step (.crashIn k op)).out = []) ∨
    (∃ p, 0 < k ∧ (({ s with out := [], snaps := [] } : Sys).stepPlain op).snaps[k - 1]? = some p ∧
      (s.step (.crashIn k op)).out =
        cutAtCommit k (({ s with out := [], snaps := [] } : Sys).stepPlain op).out) ∨
    (0 < k ∧ (({ s with out := [], snaps := [] } : Sys).stepPlain op).snaps[k - 1]? = none ∧
      (s.step (.crashIn k op)).out = (({ s with out := [], snaps := [] } : Sys).stepPlain op).out ∧
      (s.step (.crashIn k op)).db = (({ s with out := [], snaps := [] } : Sys).stepPlain op).disk) := by
  cases k with
  | zero => exact Or.inl ⟨rfl, rfl⟩
  | succ j =>
    cases hp : (({ s with out := [], snaps := [] } : Sys).stepPlain op).snaps[j]? with
    | some p =>
      refine Or.inr (Or.inl ⟨p, Nat.succ_pos j, hp, ?_⟩)
      unfold Sys.step
      dsimp only
      simp only [Nat.add_sub_cancel, hp]
    | none =>
      refine Or.inr (Or.inr ⟨Nat.succ_pos j, hp, ?_, ?_⟩)
      · unfold Sys.step
        dsimp only
        simp only [Nat.add_sub_cancel, hp]
        rfl
      · unfold Sys.step
        dsimp only
        simp only [Nat.add_sub_cancel, hp]
        rfl

/-- **A cut output never contains `claimed`.**  If a `claim` step cut short by a crash still got its
    `claimed m` out, then (1) `k` is larger than the number of commit points of the step — the
    crash came after the whole step (`none` branch of `Sys.step`); an output cut at a commit
    (`some p` branch) never contains the frame, which is sent after the last commit —, (2) the frame
    is in the output of the uncrashed step, (3) the database the crash leaves is the database of
    the uncrashed step (which ends synced). -/
theorem C05_cut_output_no_claimed {s : Sys} (hs : s.Synced) (hb : s.db.IdsBounded) {k c : Nat} {x : Conn}
    {a n fresh m : String} {t : Time} {id : Val} {b : Bool} (hx : s.findConn c = some x) (ha : x.app = some a)
    (hout : Event.frame c (.claimed m) b ∈ (s.step (.crashIn k (.recv c t id (.claim (some n) fresh)))).out) :
    (s.step (.recv c t id (.claim (some n) fresh))).snaps.length < k ∧
    Event.frame c (.claimed m) b ∈ (s.step (.recv c t id (.claim (some n) fresh))).out ∧
    (s.step (.crashIn k (.recv c t id (.claim (some n) fresh)))).db =
      (s.step (.recv c t id (.claim (some n) fresh))).db := by
  have hout' : Event.frame c (.claimed m) b ∈ (s.step (.recv c t id (.claim (some n) fresh))).out :=
    step_out_sub s _ hout
  obtain ⟨_, s1, hE, hstep⟩ := claim_step_ok hx ha hout'
  obtain ⟨_, _, hsy⟩ := claimNameplate_spec hE hb
  have hplain : ({ s with out := [], snaps := [] } : Sys).stepPlain (.recv c t id (.claim (some n) fresh)) =
      s1.send c (.claimed m) := hstep
  have hT : SnapsLe s1 := by
    have := SnapsLe.closedG.claimNameplate
      (s := ((({ s with out := [], snaps := [] } : Sys).send c (.ack id)).updConn c
        (fun y => { y with didClaim := true, nameplateId := some n })))
      (by show (0 : Nat) ≤ _; exact Nat.zero_le _) a n (x.side.getD "") t fresh
    rw [hE] at this
    exact this
  have hcore : Event.frame c (.claimed m) b ∉ s1.out := by
    intro hm
    have := claimed_not_in_core hE hm
    simp [Sys.send, Sys.emit, Sys.updConn] at this
  have hsn : (s1.send c (.claimed m)).snaps = s1.snaps := rfl
  have hso : (s1.send c (.claimed m)).out = s1.out ++ [.frame c (.claimed m) s1.synced] := rfl
  rw [hstep]
  rcases step_crash_cases s k (.recv c t id (.claim (some n) fresh)) with ⟨_, h0⟩ | ⟨p, hk, hp, hcut⟩ |
      ⟨hk, hp, _, hdb⟩
  · rw [h0] at hout; cases hout
  · exfalso
    rw [hplain, hsn] at hp
    rw [hcut, hplain, hso] at hout
    have hlt : k - 1 < s1.snaps.length := by
      have := List.getElem?_eq_some_iff.1 hp
      exact this.1
    rw [cutAtCommit_append _ _ _ (Nat.le_trans (by omega) hT)] at hout
    exact hcore (Sys.mem_cutAtCommit _ _ _ hout)
  · rw [hplain, hsn] at hp
    rw [hplain] at hdb
    have hle : s1.snaps.length ≤ k - 1 := List.getElem?_eq_none_iff.1 hp
    refine ⟨by rw [hsn]; omega, by rw [← hstep]; exact hout', ?_⟩
    rw [hdb]
    show s1.disk = s1.db
    exact (hsy hs.1).symm

/-! ## the widened notion of "answered `claimed`" -/

/-- operation `op` — a `claim`, possibly cut short by a crash — answers `claimed` to side `σ` for
    the nameplate row with id `n`: the frame is in the output of the step AS EXECUTED -/
def ClaimedNowAll (g : GSys) (op : Op) (n : Nat) (σ : String) : Prop :=
  ∃ c t id name fresh x app mb b, op.inner = .recv c t id (.claim (some name) fresh) ∧
    g.sys.findConn c = some x ∧ x.app = some app ∧ x.side.getD "" = σ ∧
    Event.frame c (.claimed mb) b ∈ (g.sys.step op).out ∧
    ∃ row ∈ (g.sys.step op).db.nameplates, row.id = n ∧ row.app = app ∧ row.name = name

/-- some operation of the history (crashed ones included) answers `claimed` to side `σ` for
    nameplate row id `n` -/
def ClaimedInAll : GSys → List Op → Nat → String → Prop
  | _, [], _, _ => False
  | g, op :: rest, n, σ => ClaimedNowAll g op n σ ∨ ClaimedInAll (g.step op) rest n σ

/-- the old step predicate implies the new one -/
theorem ClaimedNow.all {g : GSys} {op : Op} {n : Nat} {σ : String} (h : ClaimedNow g op n σ) :
    ClaimedNowAll g op n σ := by
  obtain ⟨c, t, id, name, fresh, x, app, mb, b, rfl, hrest⟩ := h
  exact ⟨c, t, id, name, fresh, x, app, mb, b, rfl, hrest⟩

/-- the old history predicate implies the new one -/
theorem ClaimedIn.all : ∀ {ops : List Op} {g : GSys} {n : Nat} {σ : String}, ClaimedIn g ops n σ →
    ClaimedInAll g ops n σ := by
  intro ops
  induction ops with
  | nil => intro g n σ h; exact h
  | cons op rest ih =>
    intro g n σ h
    rcases h with h | h
    · exact Or.inl h.all
    · exact Or.inr (ih h)

/-- the shape of an operation whose step emits a `claimed` frame for a `claim` it wraps -/
theorem claimedNowAll_shape {s : Sys} {op : Op} {c : Nat} {t : Time} {id : Val} {name fresh mb : String}
    {b : Bool} (hop : op.inner = .recv c t id (.claim (some name) fresh))
    (hfr : Event.frame c (.claimed mb) b ∈ (s.step op).out) :
    op = .recv c t id (.claim (some name) fresh) ∨
    ∃ k, op = .crashIn k (.recv c t id (.claim (some name) fresh)) := by
  cases op with
  | crashIn k op' =>
    right
    cases op' with
    | crashIn k' op'' =>
      exfalso
      have := out_crash_subset s k _ hfr
      simp [Sys.stepPlain] at this
    | recv c' t' id' cmd =>
      have e : Op.recv c' t' id' cmd = .recv c t id (.claim (some name) fresh) := hop
      exact ⟨k, by rw [e]⟩
    | connect c' => exact absurd (show Op.connect c' = _ from hop) (by simp)
    | drop c' => exact absurd (show Op.drop c' = _ from hop) (by simp)
    | sweep now f => exact absurd (show Op.sweep now f = _ from hop) (by simp)
    | restart t' => exact absurd (show Op.restart t' = _ from hop) (by simp)
  | recv c' t' id' cmd => exact Or.inl hop
  | connect c' => exact absurd (show Op.connect c' = _ from hop) (by simp)
  | drop c' => exact absurd (show Op.drop c' = _ from hop) (by simp)
  | sweep now f => exact absurd (show Op.sweep now f = _ from hop) (by simp)
  | restart t' => exact absurd (show Op.restart t' = _ from hop) (by simp)

/-- **nothing is left uncounted**: a `claimed mb` frame in the output of ANY step (any command, a
    sweep, a connect, …, crashed at any point or not) from a state with `GInv` is an answer counted
    by `ClaimedNowAll`, for the side the receiving connection is bound to and the id of the row
    `(app, name)` of the state the step leaves. -/
theorem claimedNowAll_complete {g : GSys} (hI : g.GInv) (op : Op) {c : Nat} {mb : String} {b : Bool}
    (hfr : Event.frame c (.claimed mb) b ∈ (g.sys.step op).out) :
    ∃ x n, g.sys.findConn c = some x ∧ ClaimedNowAll g op n (x.side.getD "") := by
  obtain ⟨t, id, name, fresh, x, app, hop, hx, happ, _⟩ := claimedAnswers_sees_all g.sys op hfr
  have hrow : ∃ row ∈ (g.sys.step op).db.nameplates, row.app = app ∧ row.name = name ∧ row.mailbox = mb := by
    rcases claimedNowAll_shape hop hfr with rfl | ⟨k, rfl⟩
    · exact (C03_claimed_step hI.synced hI.cinv hx happ hfr).1
    · exact C03_claimed_step_crash hI.synced hI.cinv hx happ hfr
  obtain ⟨row, hrow, hra, hrn, _⟩ := hrow
  exact ⟨x, row.id, hx, c, t, id, name, fresh, x, app, mb, b, hop, hx, happ, rfl, hfr, row, hrow, rfl, hra, hrn⟩

/-! ## what an answer guarantees about the side rows -/

/-- from `ClaimedFacts` to the three facts the induction needs -/
theorem facts_of_claimedFacts {d : Chan} (hP : d.PInv) {app name σ mb : String}
    (hcf : d.ClaimedFacts app name σ mb) {row : Nameplate} (hrow : row ∈ d.nameplates) {n : Nat}
    (hid : row.id = n) (hra : row.app = app) (hrn : row.name = name) :
    (∃ row ∈ d.nameplates, row.id = n) ∧ σ ∈ d.npSideNames n ∧ (d.npSideNames n).length ≤ 2 := by
  obtain ⟨n0, hn0, ha, hnm, _, hside, hlen, _⟩ := hcf
  have hkey : (d.nameplates).Pairwise
      (fun a b => ¬ (fun r : Nameplate => (r.app, r.name)) a = (fun r : Nameplate => (r.app, r.name)) b) :=
    hP.npKey.imp (by intro a b hab he; simp only [Prod.mk.injEq] at he; exact hab he)
  have : n0 = row := Chan.eq_of_pairwise_ne hkey hn0 hrow (by simp [ha, hnm, hra, hrn])
  subst this
  subst hid
  refine ⟨⟨n0, hrow, rfl⟩, hside, ?_⟩
  simp only [Chan.npSideNames, List.length_map]
  exact hlen

theorem claimedNowAll_facts {g : GSys} (hI : g.GInv) {op : Op} (hI' : (g.step op).GInv) {n : Nat} {σ : String}
    (h : ClaimedNowAll g op n σ) :
    (∃ row ∈ (g.sys.step op).db.nameplates, row.id = n) ∧ σ ∈ (g.sys.step op).db.npSideNames n ∧
    ((g.sys.step op).db.npSideNames n).length ≤ 2 := by
  obtain ⟨c, t, id, name, fresh, x, app, mb, b, hop, hx, happ, hσ, hfr, row, hrow, hid, hra, hrn⟩ := h
  have hP' : (g.sys.step op).db.PInv := hI'.cinv.toPInv
  -- the frame is in the output of the uncrashed step, whose database is that of `step op`
  have hun : Event.frame c (.claimed mb) b ∈ (g.sys.step (.recv c t id (.claim (some name) fresh))).out ∧
      (g.sys.step op).db = (g.sys.step (.recv c t id (.claim (some name) fresh))).db := by
    rcases claimedNowAll_shape hop hfr with rfl | ⟨k, rfl⟩
    · exact ⟨hfr, rfl⟩
    · obtain ⟨_, h1, h2⟩ := C05_cut_output_no_claimed hI.synced hI.cinv.bounded hx happ hfr
      exact ⟨h1, h2⟩
  obtain ⟨hfr', hdb⟩ := hun
  have hr : rejectText x (.claim (some name) fresh) = none := by
    cases hrj : rejectText x (.claim (some name) fresh) with
    | none => rfl
    | some text =>
      have := (C17_validation_error t id hx (rejected_of_rejectText hrj)).1
      rw [this] at hfr'
      simp at hfr'
  have hcf := C05_claimed_sides hI hx hr happ t id hfr'
  rw [← hdb] at hcf
  rw [← hσ]
  exact facts_of_claimedFacts hP' hcf hrow hid hra hrn

/-! ## the history-level theorem -/

theorem nameplate_two_all_aux (n : Nat) :
    ∀ (ops : List Op) {g : GSys}, g.Reach → g.WF ops → ∀ (S : String → Prop),
      (∀ σ, S σ → n < g.sys.db.nextNp) →
      (∀ row ∈ g.sys.db.nameplates, row.id = n → ∀ σ, S σ → σ ∈ g.sys.db.npSideNames n) →
      (∃ l : List String, l.length ≤ 2 ∧ ∀ σ, S σ → σ ∈ l) →
      ∃ l : List String, l.length ≤ 2 ∧ ∀ σ, (S σ ∨ ClaimedInAll g ops n σ) → σ ∈ l := by
  intro ops
  induction ops with
  | nil =>
    intro g _ _ S _ _ ⟨l, hl, hS⟩
    exact ⟨l, hl, fun σ h => by rcases h with h | h; exact hS σ h; cases h⟩
  | cons op rest ih =>
    intro g hg hwf S hlt hin hl
    have hI := hg.ginv
    have hg' : (g.step op).Reach := .step op hg hwf.1
    have hI' := hg'.ginv
    have hgrow : Chan.NpGrow g.sys.db (g.sys.step op).db := C05_np_sides_only_grow hI op
    have hb : ∀ row ∈ (g.sys.step op).db.nameplates, row.id = n → ∀ σ, (S σ ∨ ClaimedNowAll g op n σ) →
        σ ∈ (g.sys.step op).db.npSideNames n := by
      intro row hrow hid σ hσ
      rcases hσ with hσ | hσ
      · have hn := hlt σ hσ
        have hrow0 := hgrow.rows row hrow (by rw [hid]; exact hn)
        have := hgrow.sides row hrow (by rw [hid]; exact hn)
        rw [hid] at this
        exact this.mem (hin row hrow0 hid σ hσ)
      · exact (claimedNowAll_facts hI hI' hσ).2.1
    obtain ⟨l', hl', hS'⟩ := ih (g := g.step op) hg' hwf.2 (fun σ => S σ ∨ ClaimedNowAll g op n σ)
      (by
        intro σ hσ
        rcases hσ with hσ | hσ
        · exact Nat.lt_of_lt_of_le (hlt σ hσ) hgrow.next
        · obtain ⟨⟨row, hrow, hid⟩, _, _⟩ := claimedNowAll_facts hI hI' hσ
          rw [← hid]
          exact hI'.cinv.bounded.1 row hrow)
      hb
      (by
        by_cases hex : ∃ σ, ClaimedNowAll g op n σ
        · obtain ⟨σ0, hσ0⟩ := hex
          obtain ⟨⟨row, hrow, hid⟩, _, hlen⟩ := claimedNowAll_facts hI hI' hσ0
          exact ⟨_, hlen, fun σ hσ => hb row hrow hid σ hσ⟩
        · obtain ⟨l, hl1, hl2⟩ := hl
          refine ⟨l, hl1, fun σ hσ => ?_⟩
          rcases hσ with hσ | hσ
          · exact hl2 σ hσ
          · exact absurd ⟨σ, hσ⟩ hex)
    refine ⟨l', hl', fun σ hσ => hS' σ ?_⟩
    rcases hσ with hσ | hσ | hσ
    · exact Or.inl (Or.inl hσ)
    · exact Or.inl (Or.inr hσ)
    · exact Or.inr hσ

/-- **C05 (at most two sides are told the mailbox of one nameplate incarnation — crashed steps
    included).**  Along every well-formed history (crashes at any commit point or after the last
    one, restarts, sweeps) from a reachable state, for every nameplate row id `n` (ids are never
    re-used — `C03_id_never_reused` — so an id IS an incarnation) the sides that are answered
    `claimed` for `n`, by a step that completed OR by a step that was cut short by a crash but got
    the frame out, all lie in one list of at most two sides. -/
theorem C05_nameplate_two_all {g : GSys} (hg : g.Reach) (ops : List Op) (hwf : g.WF ops) (n : Nat) :
    ∃ l : List String, l.length ≤ 2 ∧ ∀ σ, ClaimedInAll g ops n σ → σ ∈ l := by
  obtain ⟨l, hl, h⟩ := nameplate_two_all_aux n ops hg hwf (fun _ => False)
    (fun _ h => h.elim) (fun _ _ _ _ h => h.elim) ⟨[], by simp, fun _ h => h.elim⟩
  exact ⟨l, hl, fun σ hσ => h σ (Or.inr hσ)⟩

/-- the same from the initial state of any configuration -/
theorem C05_nameplate_two_all_init (cfg : Cfg) (rb : Time) (ops : List Op) (hwf : (GSys.init cfg rb).WF ops)
    (n : Nat) :
    ∃ l : List String, l.length ≤ 2 ∧ ∀ σ, ClaimedInAll (GSys.init cfg rb) ops n σ → σ ∈ l :=
  C05_nameplate_two_all (.init cfg rb) ops hwf n

/-- the new theorem subsumes `C05_nameplate_two_reach` of Props/C05.lean -/
theorem C05_nameplate_two_reach_of_all {g : GSys} (hg : g.Reach) (ops : List Op) (hwf : g.WF ops) (n : Nat) :
    ∃ l : List String, l.length ≤ 2 ∧ ∀ σ, ClaimedIn g ops n σ → σ ∈ l := by
  obtain ⟨l, hl, h⟩ := C05_nameplate_two_all hg ops hwf n
  exact ⟨l, hl, fun σ hσ => h σ hσ.all⟩

/-! ## Non-vacuity -/

namespace ExB

/-- side s1 claims nameplate "7"; the process is killed AFTER the whole step (`crashIn 5`: the step has
    two commit points), so s1 did receive `claimed "mb"`.  After the restart s2 claims (answered
    `claimed "mb"`), then s3 (answered `crowded`). -/
def histC : List Op :=
  [ .connect 1, .recv 1 10 .null (.bind (some "app") (some "s1") none none),
    .crashIn 5 (.recv 1 11 .null (.claim (some "7") "mb")),
    .restart 20,
    .connect 2, .recv 2 22 .null (.bind (some "app") (some "s2") none none), .recv 2 23 .null (.claim (some "7") "f2"),
    .connect 3, .recv 3 24 .null (.bind (some "app") (some "s3") none none), .recv 3 25 .null (.claim (some "7") "f3") ]

theorem histC_wf : (GSys.init {} 0).WF histC := GSys.wfB_sound (by decide +kernel)

/-- the state before the crashed claim -/
def g2 : GSys := (GSys.init {} 0).run (histC.take 2)

theorem g2_reach : g2.Reach := GSys.reach_of_wfB {} 0 (histC.take 2) (by decide +kernel)

/-- the crashed step has two commit points, `k = 5` is beyond them, and its output — as executed —
    contains the `claimed` frame -/
example : (g2.sys.step (.recv 1 11 .null (.claim (some "7") "mb"))).snaps.length = 2 ∧
    (g2.sys.step (.crashIn 5 (.recv 1 11 .null (.claim (some "7") "mb")))).out =
      [.frame 1 (.ack .null) true, .commit .chan, .commit .chan, .frame 1 (.claimed "mb") true] ∧
    (g2.sys.step (.crashIn 5 (.recv 1 11 .null (.claim (some "7") "mb")))).conns = [] := by
  decide +kernel

/-- a crash AT a commit point of the same step cuts the frame off (`C05_cut_output_no_claimed`) -/
example : (g2.sys.step (.crashIn 2 (.recv 1 11 .null (.claim (some "7") "mb")))).out =
      [.frame 1 (.ack .null) true, .commit .chan, .commit .chan] ∧
    (g2.sys.step (.crashIn 1 (.recv 1 11 .null (.claim (some "7") "mb")))).out =
      [.frame 1 (.ack .null) true, .commit .chan] := by
  decide +kernel

/-- the new collection counts the answer of the crashed step (third operation) … -/
theorem claimedInAll_s1 : ClaimedInAll (GSys.init {} 0) histC 1 "s1" := by
  refine Or.inr (Or.inr (Or.inl ⟨1, 11, .null, "7", "mb", { id := 1, app := some "app", side := some "s1" },
    "app", "mb", true, rfl, by decide +kernel, rfl, rfl, by decide +kernel, ⟨1, "app", "7", "mb"⟩,
    by decide +kernel, rfl, rfl, rfl⟩))

/-- … and that of s2 after the restart (seventh operation), for the SAME row id 1 … -/
theorem claimedInAll_s2 : ClaimedInAll (GSys.init {} 0) histC 1 "s2" := by
  refine Or.inr (Or.inr (Or.inr (Or.inr (Or.inr (Or.inr (Or.inl ⟨2, 23, .null, "7", "f2",
    { id := 2, app := some "app", side := some "s2" },
    "app", "mb", true, rfl, by decide +kernel, rfl, rfl, by decide +kernel, ⟨1, "app", "7", "mb"⟩,
    by decide +kernel, rfl, rfl, rfl⟩))))))

/-- … while the old `ClaimedIn` does NOT see s1: its only `claimed` came out of a crashed step -/
theorem not_claimedIn_s1 : ¬ ClaimedIn (GSys.init {} 0) histC 1 "s1" := by
  have hside : ∀ (g : GSys) (c : Nat) (t : Time) (id : Val) (cmd : Cmd) (σ' : String),
      (∀ x, g.sys.findConn c = some x → x.side.getD "" = σ') → σ' ≠ "s1" →
      ¬ ClaimedNow g (.recv c t id cmd) 1 "s1" := by
    intro g c t id cmd σ' hs hne ⟨c', _, _, _, _, x, _, _, _, hop, hx, _, hσ, _⟩
    cases hop
    exact hne ((hs x hx).symm.trans hσ)
  have hbind : ∀ (g : GSys) (c : Nat) (t : Time) (id : Val) a sd i v,
      ¬ ClaimedNow g (.recv c t id (.bind a sd i v)) 1 "s1" := by
    intro g c t id a sd i v ⟨_, _, _, _, _, _, _, _, _, hop, _⟩
    cases hop
  intro h
  simp only [histC, ClaimedIn] at h
  rcases h with h | h | h | h | h | h | h | h | h | h | h
  · obtain ⟨_, _, _, _, _, _, _, _, _, hop, _⟩ := h; cases hop
  · exact hbind _ _ _ _ _ _ _ _ h
  · obtain ⟨_, _, _, _, _, _, _, _, _, hop, _⟩ := h; cases hop
  · obtain ⟨_, _, _, _, _, _, _, _, _, hop, _⟩ := h; cases hop
  · obtain ⟨_, _, _, _, _, _, _, _, _, hop, _⟩ := h; cases hop
  · exact hbind _ _ _ _ _ _ _ _ h
  · refine hside _ _ _ _ _ "s2" ?_ (by decide) h
    intro x hx
    have : ((GSys.init {} 0).run (histC.take 6)).sys.findConn 2 =
        some { id := 2, app := some "app", side := some "s2" } := by decide +kernel
    have e : x = { id := 2, app := some "app", side := some "s2" } := Option.some.inj (hx.symm.trans this)
    rw [e]; rfl
  · obtain ⟨_, _, _, _, _, _, _, _, _, hop, _⟩ := h; cases hop
  · exact hbind _ _ _ _ _ _ _ _ h
  · refine hside _ _ _ _ _ "s3" ?_ (by decide) h
    intro x hx
    have : ((GSys.init {} 0).run (histC.take 9)).sys.findConn 3 =
        some { id := 3, app := some "app", side := some "s3" } := by decide +kernel
    have e : x = { id := 3, app := some "app", side := some "s3" } := Option.some.inj (hx.symm.trans this)
    rw [e]; rfl
  · exact h

/-- `C05_nameplate_two_all` applied to `histC`: its list contains both s1 (answered inside the crashed
    step) and s2 -/
example : ∃ l : List String, l.length ≤ 2 ∧ "s1" ∈ l ∧ "s2" ∈ l := by
  obtain ⟨l, hl, h⟩ := C05_nameplate_two_all_init {} 0 histC histC_wf 1
  exact ⟨l, hl, h _ claimedInAll_s1, h _ claimedInAll_s2⟩

/-- the frames of the whole history: `claimed` to 1 (crashed step), `claimed` to 2, `crowded` to 3 -/
example : ((Sys.run { rebooted := 0 } histC).2.filterMap
    (fun e => match e with | .frame c (.claimed m) _ => some (c, m) | .frame c (.error t) _ => some (c, t) | _ => none)) =
    [(1, "mb"), (2, "mb"), (3, "crowded")] := by
  decide +kernel

/-- the hypotheses of `C05_cut_output_no_claimed` / `claimedNowAll_complete` hold at the crashed step -/
example := C05_cut_output_no_claimed (s := g2.sys) (k := 5) (c := 1)
  (x := { id := 1, app := some "app", side := some "s1" }) (a := "app") (n := "7") (fresh := "mb") (m := "mb")
  (t := 11) (id := .null) (b := true) g2_reach.ginv.synced g2_reach.ginv.cinv.bounded (by decide +kernel) rfl
  (by decide +kernel)

example := claimedNowAll_complete g2_reach.ginv (.crashIn 5 (.recv 1 11 .null (.claim (some "7") "mb")))
  (c := 1) (mb := "mb") (b := true) (by decide +kernel)

end ExB

end C05
end Wormhole

#print axioms Wormhole.C05.C05_cut_output_no_claimed
#print axioms Wormhole.C05.claimedNowAll_complete
#print axioms Wormhole.C05.claimedNowAll_facts
#print axioms Wormhole.C05.C05_nameplate_two_all
#print axioms Wormhole.C05.C05_nameplate_two_all_init
#print axioms Wormhole.C05.C05_nameplate_two_reach_of_all
#print axioms Wormhole.C05.ExB.claimedInAll_s1
#print axioms Wormhole.C05.ExB.not_claimedIn_s1
