/-
  C05 — "No third party: at most two sides ever share a nameplate or a mailbox".

  Step theorems are for EVERY state satisfying `GSys.GInv`; the history-level theorems take
  `(hreach : ∀ g, g.Reach → g.GInv)` (proved in Inv/Main.lean by another engineer) as a parameter.

  Mailboxes
  * `C05_third_excluded_open/_close/_claim` : an `open` / handle-less `close` / `claim` that resolves to
      a mailbox which then has more than two side rows (in particular: two side rows already, none
      of them the caller's — `Third.crowds`) is answered exactly `ack, commits, error "crowded"`; the
      caller gets no handle and no subscription, no `message` frame is emitted; afterwards the
      mailbox has more than two side rows (`..._again`), so every retry is answered the same
  * `C05_sides_only_grow`  : over EVERY operation (sweeps, crashes) the list of sides of a mailbox
      whose row is still there only grows at the end: side rows disappear only with the mailbox row,
      "more than two" stays "more than two", `first2` never changes once it has two elements
  * `C05_open_grants_first2`: `open` grants a handle only to a side that is then in `first2`
  * `C05_subscribers_first2_step`, `C05_subscribers_first2`, `C05_ever_subscribed`: every connection
      that is ever subscribed to one incarnation of a mailbox is bound to one of its first two sides
  * `C05_no_message_unless_add_open`, `C05_message_recipients`, `C05_message_to_first2`: `message`
      frames are emitted only by `add` (to connections subscribed before) and by a granted `open` (to
      the opener): with the previous item, no third side is ever sent a message
  * `C05_keep_partial` + `C05_rejoin_counterexample` : a refused attempt changes nothing of the
      first two sides' rows, the messages or anybody's subscription; but a NEW connection of a
      first-two side is refused afterwards (K-crowded-rejoin)
  Nameplates
  * `C05_claimed_sides`, `C05_nameplate_two` : the sides answered `claimed` for one nameplate row id
      are among its at most two side rows
-/
import Wormhole.Inv.MbClaim
import Wormhole.Inv.Main
import Wormhole.Inv.WFDec

namespace Wormhole
namespace C05
open Sys

/-! ## preliminaries -/

/-- no `message` frame among these events -/
def NoMessage (l : List Event) : Prop :=
  ∀ e ∈ l, ∀ c sd ph bd rx i b, e ≠ Event.frame c (.message sd ph bd rx i) b

theorem noMessage_answer {c : Nat} {id : Val} {commits : List Event} (hc : ∀ e ∈ commits, IsCommit e)
    {f : Frame} (hf : ∀ sd ph bd rx i, f ≠ .message sd ph bd rx i) :
    NoMessage (.frame c (.ack id) true :: (commits ++ [.frame c f true])) := by
  intro e he c' sd ph bd rx i b heq
  subst heq
  simp only [List.mem_cons, List.mem_append, List.not_mem_nil, or_false] at he
  rcases he with he | he | he
  · cases he
  · obtain ⟨w, hw⟩ := hc _ he; cases hw
  · cases he; exact hf sd ph bd rx i rfl

theorem find_map_id {f : Conn → Conn} (hf : ∀ y, (f y).id = y.id) (c : Nat) (cs : List Conn) :
    (cs.map f).find? (fun y => y.id = c) = (cs.find? (fun y => y.id = c)).map f := by
  induction cs with
  | nil => rfl
  | cons y rest ih =>
    simp only [List.map_cons, List.find?_cons, hf]
    split
    · rfl
    · exact ih

/-- the third-party situation for side `side` at mailbox `mb`: the mailbox already has two side
    rows and none is the caller's — or it has more than two rows already (a retry, or anybody at
    all: K-crowded-rejoin) -/
def Third (d : Chan) (mb side : String) : Prop :=
  (2 ≤ (d.mbSidesOf mb).length ∧ side ∉ d.sidesOf mb) ∨ 2 < (d.mbSidesOf mb).length

/-- in the third-party situation `open_mailbox` finds more than two side rows -/
theorem Third.crowds {d : Chan} {mb side : String} (h : Third d mb side) (app : String) (t : Time) :
    ((d.openDb app mb side t).mbSidesOf mb).length > 2 := by
  rw [Chan.openDb_mbSidesOf]
  rcases h with ⟨h1, h2⟩ | h
  · have : d.findMbSide mb side = none := by
      rw [Chan.findMbSide_eq_none]
      intro r hr hk
      apply h2
      simp only [Chan.sidesOf, Chan.mbSidesOf, List.mem_map, List.mem_filter, decide_eq_true_eq]
      exact ⟨r, ⟨hr, hk.1⟩, hk.2⟩
    simp [this]; omega
  · simp only [List.length_append]; omega

/-- ... and afterwards the mailbox has more than two side rows: the situation persists -/
theorem third_after {d : Chan} {mb side : String} (app : String) (t : Time)
    (h : ((d.openDb app mb side t).mbSidesOf mb).length > 2) (side' : String) :
    Third (d.openDb app mb side t) mb side' := Or.inr h

/-! ## C05_third_excluded: the three commands -/

/-- **C05 (third party, `open`).**  An `open` of a mailbox of the caller's app that passes
    validation, in the third-party situation: the output is exactly `ack, commits, error "crowded"`;
    no `message` frame; the caller's connection has no handle and is not listening afterwards (it
    only remembers the name); every other connection record is unchanged; the database is `openDb`
    (the caller's side row now exists; every other row as before), so the situation persists. -/
theorem C05_third_excluded_open {g : GSys} (hI : g.GInv) {c : Nat} {x : Conn} {mb app : String}
    (hx : g.sys.findConn c = some x) (hr : rejectText x (.open_ (some mb)) = none)
    (happ : x.app = some app) (hrow : g.sys.db.HasBox app mb)
    (h3 : Third g.sys.db mb (x.side.getD "")) (t : Time) (id : Val) :
    (∃ commits, (∀ e ∈ commits, IsCommit e) ∧ (g.sys.step (.recv c t id (.open_ (some mb)))).out =
      .frame c (.ack id) true :: (commits ++ [.frame c (.error "crowded") true])) ∧
    NoMessage (g.sys.step (.recv c t id (.open_ (some mb)))).out ∧
    (g.sys.step (.recv c t id (.open_ (some mb)))).findConn c = some { x with mailboxId := some mb } ∧
    x.mailbox = none ∧ x.listening = false ∧
    (∀ y ∈ g.sys.conns, y.id ≠ c → y ∈ (g.sys.step (.recv c t id (.open_ (some mb)))).conns) ∧
    (g.sys.step (.recv c t id (.open_ (some mb)))).db = g.sys.db.openDb app mb (x.side.getD "") t ∧
    (∀ side', Third (g.sys.step (.recv c t id (.open_ (some mb)))).db mb side') := by
  have hP := hI.cinv.toPInv
  obtain ⟨_, hcr, _⟩ := open_step hP hI.synced hx hr happ t id
  have hlen := h3.crowds app t
  obtain ⟨⟨commits, hc, hout⟩, hdb, _, _, _, _, hconns⟩ := hcr (fun hcl => hcl.2 hrow) hlen
  obtain ⟨_, hnone, _⟩ := open_accepted hr
  have hlis : x.listening = false := by
    cases hl : x.listening with
    | false => rfl
    | true =>
      have := hI.conn.listen x (findConn_mem hx) hl
      rw [hnone] at this; cases this
  refine ⟨⟨commits, hc, hout⟩, ?_, ?_, hnone, hlis, ?_, hdb, ?_⟩
  · rw [hout]; exact noMessage_answer hc (by intro _ _ _ _ _ h; cases h)
  · unfold Sys.findConn
    rw [hconns, find_map_id (by intro y; split <;> rfl)]
    have : g.sys.conns.find? (fun y => y.id = c) = some x := hx
    rw [this]
    simp [findConn_id hx]
  · intro y hy hne
    rw [hconns]
    exact List.mem_map.2 ⟨y, hy, by simp [hne]⟩
  · intro side'
    rw [hdb]; exact third_after app t hlen side'

/-- **C05 (third party, `close`).**  A `close` on a connection that holds no handle (so
    `open_mailbox` runs first), in the third-party situation: exactly `ack, commits, error "crowded"`;
    no `message` frame; no connection record changes at all (the caller's included: no handle, no
    `didClose`); the database is `openDb`; the situation persists. -/
theorem C05_third_excluded_close {g : GSys} (hI : g.GInv) {c : Nat} {x : Conn} {m mood : Option String}
    {mb app : String} (hx : g.sys.findConn c = some x) (hr : rejectText x (.close m mood) = none)
    (happ : x.app = some app) (hnone : x.mailbox = none) (htg : x.closeTarget m = some mb)
    (hrow : g.sys.db.HasBox app mb) (h3 : Third g.sys.db mb (x.side.getD "")) (t : Time) (id : Val) :
    (∃ commits, (∀ e ∈ commits, IsCommit e) ∧ (g.sys.step (.recv c t id (.close m mood))).out =
      .frame c (.ack id) true :: (commits ++ [.frame c (.error "crowded") true])) ∧
    NoMessage (g.sys.step (.recv c t id (.close m mood))).out ∧
    (g.sys.step (.recv c t id (.close m mood))).conns = g.sys.conns ∧
    (g.sys.step (.recv c t id (.close m mood))).db = g.sys.db.openDb app mb (x.side.getD "") t ∧
    (∀ side', Third (g.sys.step (.recv c t id (.close m mood))).db mb side') := by
  have hP := hI.cinv.toPInv
  obtain ⟨_, hcr, _⟩ := close_step hP hI.cinv.npHasSide hI.synced hx hr happ htg t id
  have hpre : closePre g.sys x app mb t = g.sys.db.openDb app mb (x.side.getD "") t := by
    simp [closePre, hnone]
  have hlen := h3.crowds app t
  obtain ⟨⟨commits, hc, hout⟩, hdb, _, hrest⟩ := hcr hnone (fun hcl => hcl.2 hrow) (by rw [hpre]; exact hlen)
  rw [hpre] at hdb
  refine ⟨⟨commits, hc, hout⟩, ?_, hrest.conns, hdb, ?_⟩
  · rw [hout]; exact noMessage_answer hc (by intro _ _ _ _ _ h; cases h)
  · intro side'
    rw [hdb]; exact third_after app t hlen side'

/-- **C05 (third party, `claim`).**  A `claim` of an existing nameplate whose mailbox is in the
    third-party situation for the caller: exactly `ack, commits, error "crowded"` — or
    `error "reclaimed"`, with nothing changed, if this side had released this nameplate before —;
    no `message` and no `claimed` frame (the mailbox id is not disclosed); no connection gains or
    loses a handle or a subscription; the mailbox's side rows afterwards are those of `openDb`, so
    the situation persists. -/
theorem C05_third_excluded_claim {g : GSys} (hI : g.GInv) {c : Nat} {x : Conn} {name fresh app : String}
    {row : Nameplate} (hx : g.sys.findConn c = some x) (hr : rejectText x (.claim (some name) fresh) = none)
    (happ : x.app = some app) (hrow : g.sys.db.findNameplate app name = some row)
    (h3 : Third g.sys.db row.mailbox (x.side.getD "")) (t : Time) (id : Val) :
    (∃ commits, (∀ e ∈ commits, IsCommit e) ∧ (g.sys.step (.recv c t id (.claim (some name) fresh))).out =
      .frame c (.ack id) true :: (commits ++ [.frame c (.error
        (if ∃ r0, g.sys.db.findNpSide row.id (x.side.getD "") = some r0 ∧ r0.claimed = false
          then "reclaimed" else "crowded")) true])) ∧
    NoMessage (g.sys.step (.recv c t id (.claim (some name) fresh))).out ∧
    (g.sys.step (.recv c t id (.claim (some name) fresh))).conns =
      g.sys.conns.map (fun y => if y.id = c then { y with didClaim := true, nameplateId := some name } else y) ∧
    ((∃ r0, g.sys.db.findNpSide row.id (x.side.getD "") = some r0 ∧ r0.claimed = false) →
      (g.sys.step (.recv c t id (.claim (some name) fresh))).db = g.sys.db) ∧
    ((¬ ∃ r0, g.sys.db.findNpSide row.id (x.side.getD "") = some r0 ∧ r0.claimed = false) →
      (g.sys.step (.recv c t id (.claim (some name) fresh))).db.mbSides =
        (g.sys.db.openDb app row.mailbox (x.side.getD "") t).mbSides ∧
      (g.sys.step (.recv c t id (.claim (some name) fresh))).db.messages = g.sys.db.messages ∧
      ∀ side', Third (g.sys.step (.recv c t id (.claim (some name) fresh))).db row.mailbox side') := by
  have hP := hI.cinv.toPInv
  obtain ⟨s1, r, hcl, ⟨commits, hc, hout⟩, hdb, _, hconns⟩ := claim_step hP hI.synced hx hr happ t id
  have hrowmem : row ∈ g.sys.db.nameplates := List.mem_of_find?_eq_some hrow
  have hk := List.find?_some hrow
  simp only [decide_eq_true_eq] at hk
  have hmb : g.sys.db.HasBox app row.mailbox := by
    obtain ⟨m0, hm0, hi, ha⟩ := hP.npMb row hrowmem
    exact ⟨m0, hm0, ha.trans hk.1, hi⟩
  have hlen := h3.crowds app t
  obtain ⟨hrecl, hcrowd⟩ := claimNameplate_crowded (s := ((({ g.sys with out := [], snaps := [] } : Sys).send c (.ack id)).updConn c
      (fun y => { y with didClaim := true, nameplateId := some name }))) hP.mbIds hrow hmb hlen hcl
  by_cases hu : ∃ r0, g.sys.db.findNpSide row.id (x.side.getD "") = some r0 ∧ r0.claimed = false
  · obtain ⟨rfl, hs1⟩ := hrecl hu
    rw [if_pos hu]
    refine ⟨⟨commits, hc, hout⟩, ?_, ?_, fun _ => ?_, fun hno => absurd hu hno⟩
    · rw [hout]; exact noMessage_answer hc (by intro _ _ _ _ _ h; cases h)
    · rw [hconns, hs1]; rfl
    · rw [hdb, hs1]; rfl
  · obtain ⟨rfl, hcs, hmbx, hsd0, hmsg0, _, _⟩ := hcrowd hu
    have hsd : s1.db.mbSides = (g.sys.db.openDb app row.mailbox (x.side.getD "") t).mbSides := hsd0
    have hmsg : s1.db.messages = g.sys.db.messages := hmsg0
    rw [if_neg hu]
    refine ⟨⟨commits, hc, hout⟩, ?_, ?_, fun hyes => absurd hyes hu, fun _ => ⟨?_, ?_, ?_⟩⟩
    · rw [hout]; exact noMessage_answer hc (by intro _ _ _ _ _ h; cases h)
    · rw [hconns, hcs]; rfl
    · rw [hdb]; exact hsd
    · rw [hdb]; exact hmsg
    · intro side'
      right
      have : (g.sys.step (.recv c t id (.claim (some name) fresh))).db.mbSidesOf row.mailbox =
          (g.sys.db.openDb app row.mailbox (x.side.getD "") t).mbSidesOf row.mailbox := by
        unfold Chan.mbSidesOf; rw [hdb, hsd]
      rw [this]; exact hlen

/-! ## where handles come from -/

/-- every handle in `s` was already held (same connection id, same binding) in `cs0` -/
def HSub (cs0 : List Conn) (s : Sys) : Prop :=
  ∀ x' ∈ s.conns, ∀ mb, x'.mailbox = some mb →
    ∃ x ∈ cs0, x.id = x'.id ∧ x.mailbox = some mb ∧ x.side = x'.side ∧ x.app = x'.app

theorem HSub.of_conns {cs0 : List Conn} {s s' : Sys} (h : HSub cs0 s) (e : s'.conns = s.conns) : HSub cs0 s' := by
  intro x' hx'; rw [e] at hx'; exact h x' hx'

theorem HSub.closed (cs0 : List Conn) : Closed (HSub cs0) where
  emit := fun _ _ _ h => h
  modUdb := fun _ _ h => h
  commit := fun s h => h.of_conns (commit_conns s)
  ucommit := fun s h => h.of_conns (ucommit_conns s)
  grow := fun _ _ _ h => h
  flag := by
    intro s c f hf h x' hx' mb hm
    simp only [Sys.updConn, List.mem_map] at hx'
    obtain ⟨y, hy, rfl⟩ := hx'
    by_cases hc : y.id = c
    · simp only [hc, if_true] at hm ⊢
      obtain ⟨h1, h2, h3, h4, _⟩ := hf y
      obtain ⟨x, hx, e1, e2, e3, e4⟩ := h y hy mb (by rw [← h4]; exact hm)
      exact ⟨x, hx, e1.trans h1.symm, e2, e3.trans h3.symm, e4.trans h2.symm⟩
    · simp only [hc, if_false] at hm ⊢
      exact h y hy mb hm

theorem HSub.closedDel (cs0 : List Conn) : ClosedDel (HSub cs0) where
  emit := fun _ _ _ h => h
  modUdb := fun _ _ h => h
  commit := fun s h => h.of_conns (commit_conns s)
  ucommit := fun s h => h.of_conns (ucommit_conns s)
  del := fun _ _ _ h => h

theorem HSub.refl (s : Sys) : HSub s.conns s := fun x' hx' _ hm => ⟨x', hx', rfl, hm, rfl, rfl⟩

/-- a handle after the step is the handle of an `open` that was just granted -/
def Granted (s : Sys) (op : Op) (x' : Conn) (mb : String) : Prop :=
  ∃ c t id x app, op = .recv c t id (.open_ (some mb)) ∧ s.findConn c = some x ∧
    rejectText x (.open_ (some mb)) = none ∧ x.app = some app ∧ ¬ s.db.Clash app mb ∧
    ¬ ((s.db.openDb app mb (x.side.getD "") t).mbSidesOf mb).length > 2 ∧
    (s.step op).db = s.db.openDb app mb (x.side.getD "") t ∧
    x'.side = x.side ∧ x'.app = x.app ∧ x'.id = c

theorem crash_conns (s : Sys) (k : Nat) (op : Op) : (s.step (.crashIn k op)).conns = [] := by
  show (match k, (({ s with out := [], snaps := [] } : Sys).stepPlain op).snaps[k - 1]? with
    | 0, _ => _
    | _, some p => _
    | _, none => _ : Sys).conns = []
  split <;> rfl

/-- **where handles come from**: a connection that holds a handle after an operation held the
    same handle (same id, side, app) before it, or the operation is the `open` that granted it -/
theorem handle_origin {g : GSys} (hI : g.GInv) (op : Op) {x' : Conn}
    (hx' : x' ∈ (g.sys.step op).conns) {mb : String} (hm : x'.mailbox = some mb) :
    (∃ x ∈ g.sys.conns, x.id = x'.id ∧ x.mailbox = some mb ∧ x.side = x'.side ∧ x.app = x'.app) ∨
    Granted g.sys op x' mb := by
  have hP := hI.cinv.toPInv
  have h0 : HSub g.sys.conns ({ g.sys with out := [], snaps := [] } : Sys) := HSub.refl g.sys
  cases op with
  | connect c =>
    left
    have : (g.sys.step (.connect c)).conns = g.sys.conns ++ [({ id := c } : Conn)] := rfl
    rw [this] at hx'
    simp only [List.mem_append, List.mem_singleton] at hx'
    rcases hx' with hx' | rfl
    · exact ⟨x', hx', rfl, hm, rfl, rfl⟩
    · cases hm
  | drop c =>
    left
    have : (g.sys.step (.drop c)).conns = g.sys.conns.filter (fun y => ¬ y.id = c) := rfl
    rw [this] at hx'
    exact ⟨x', (List.mem_filter.1 hx').1, rfl, hm, rfl, rfl⟩
  | restart t =>
    have : (g.sys.step (.restart t)).conns = [] := rfl
    rw [this] at hx'; cases hx'
  | crashIn k op' =>
    rw [crash_conns] at hx'; cases hx'
  | sweep now fault =>
    left
    exact (HSub.closedDel g.sys.conns).expire h0 now fault x' hx' mb hm
  | recv c t id cmd =>
    cases hx : g.sys.findConn c with
    | none =>
      left
      have : g.sys.step (.recv c t id cmd) = ({ g.sys with out := [], snaps := [] } : Sys) := by
        rw [step_recv]; unfold Sys.onMessage
        have : ({ g.sys with out := [], snaps := [] } : Sys).findConn c = none := hx
        rw [this]
      rw [this] at hx'
      exact ⟨x', hx', rfl, hm, rfl, rfl⟩
    | some x =>
      cases hr : rejectText x cmd with
      | some text =>
        left
        have := (C17_validation_error t id hx (rejected_of_rejectText hr)).2.conns
        rw [this] at hx'
        exact ⟨x', hx', rfl, hm, rfl, rfl⟩
      | none =>
        by_cases hb : ∃ a sd i v, cmd = .bind a sd i v
        · -- bind: the connection was unbound, hence held no handle
          left
          obtain ⟨a, sd, i, v, rfl⟩ := hb
          have hxa : x.app = none := by
            simp only [rejectText] at hr
            split at hr
            · cases hr
            · rename_i hnb
              cases ha : x.app with
              | none => rfl
              | some a' => exact absurd (Or.inl (by simp [ha])) hnb
          have hxm : x.mailbox = none := by
            cases hh : x.mailbox with
            | none => rfl
            | some h =>
              obtain ⟨_, a', ha', _⟩ := hI.conn.handle x (findConn_mem hx) h hh
              rw [hxa] at ha'; cases ha'
          have hconns : ∀ y ∈ (g.sys.step (.recv c t id (.bind a sd i v))).conns, y.mailbox = some mb →
              y ∈ g.sys.conns := by
            intro y hy hym
            rw [step_recv] at hy
            unfold Sys.onMessage at hy
            have hx0 : ({ g.sys with out := [], snaps := [] } : Sys).findConn c = some x := hx
            simp only [hx0] at hy
            unfold Sys.handleBind at hy
            split at hy
            · exact hy
            · split at hy
              · exact hy
              · split at hy
                · exact hy
                · have hl : ∀ (s0 : Sys) a0 sd0 t0 i0 v0, (s0.logClientVersion a0 sd0 t0 i0 v0).conns = s0.conns := by
                    intro s0 a0 sd0 t0 i0 v0
                    unfold Sys.logClientVersion
                    split
                    · rw [ucommit_conns]; rfl
                    · rfl
                  rw [hl] at hy
                  simp only [Sys.updConn, Sys.send, Sys.emit, List.mem_map] at hy
                  obtain ⟨y0, hy0, rfl⟩ := hy
                  by_cases hc : y0.id = x.id
                  · have : y0 = x := Chan.eq_of_pairwise_ne (f := Conn.id) hI.conn.ids hy0 (findConn_mem hx) hc
                    subst this
                    simp only [if_true] at hym
                    rw [hxm] at hym; cases hym
                  · simp only [hc, if_false] at hym ⊢
                    exact hy0
          exact ⟨x', hconns x' hx' hm, rfl, hm, rfl, rfl⟩
        · by_cases ho : ∃ m, cmd = .open_ m
          · obtain ⟨m, rfl⟩ := ho
            obtain ⟨⟨app, happ⟩, hnone, mb0, rfl⟩ := open_accepted hr
            obtain ⟨h1, h2, h3⟩ := open_step hP hI.synced hx hr happ t id
            have hold : ∀ (f : Conn → Conn), (∀ y, (f y).mailbox = y.mailbox ∧ (f y).side = y.side ∧
                (f y).app = y.app ∧ (f y).id = y.id) →
                x' ∈ g.sys.conns.map (fun y => if y.id = c then f y else y) →
                ∃ x ∈ g.sys.conns, x.id = x'.id ∧ x.mailbox = some mb ∧ x.side = x'.side ∧ x.app = x'.app := by
              intro f hf hmem
              obtain ⟨y, hy, rfl⟩ := List.mem_map.1 hmem
              by_cases hc : y.id = c
              · simp only [hc, if_true] at hm ⊢
                obtain ⟨e1, e2, e3, e4⟩ := hf y
                exact ⟨y, hy, e4.symm, by rw [← e1]; exact hm, e2.symm, e3.symm⟩
              · simp only [hc, if_false] at hm ⊢
                exact ⟨y, hy, rfl, hm, rfl, rfl⟩
            by_cases hcl : g.sys.db.Clash app mb0
            · left
              obtain ⟨_, _, hcs⟩ := h1 hcl
              rw [hcs] at hx'
              exact hold (fun y => { y with mailboxId := some mb0 }) (fun y => ⟨rfl, rfl, rfl, rfl⟩) hx'
            · by_cases hlen : ((g.sys.db.openDb app mb0 (x.side.getD "") t).mbSidesOf mb0).length > 2
              · left
                obtain ⟨_, _, _, _, _, _, hcs⟩ := h2 hcl hlen
                rw [hcs] at hx'
                exact hold (fun y => { y with mailboxId := some mb0 }) (fun y => ⟨rfl, rfl, rfl, rfl⟩) hx'
              · obtain ⟨_, hdb, _, _, _, _, hcs⟩ := h3 hcl hlen
                rw [hcs] at hx'
                obtain ⟨y, hy, rfl⟩ := List.mem_map.1 hx'
                by_cases hc : y.id = c
                · right
                  have : y = x := Chan.eq_of_pairwise_ne (f := Conn.id) hI.conn.ids hy (findConn_mem hx)
                    (hc.trans (findConn_id hx).symm)
                  subst this
                  simp only [hc, if_true] at hm ⊢
                  cases hm
                  exact ⟨c, t, id, y, app, rfl, hx, hr, happ, hcl, hlen, hdb, rfl, rfl, rfl⟩
                · left
                  simp only [hc, if_false] at hm ⊢
                  exact ⟨y, hy, rfl, hm, rfl, rfl⟩
          · by_cases hcs : ∃ m mood, cmd = .close m mood
            · -- close: handles are only dropped
              left
              obtain ⟨m, mood, rfl⟩ := hcs
              obtain ⟨⟨app, happ⟩, _, ⟨mbn, hn⟩, _⟩ := close_accepted hr
              obtain ⟨tgt, htg⟩ : ∃ tgt, x.closeTarget m = some tgt := by
                unfold Conn.closeTarget
                cases x.mailbox with
                | some h => exact ⟨h, rfl⟩
                | none => exact ⟨mbn, hn⟩
              obtain ⟨h1, h2, h3⟩ := close_step hP hI.cinv.npHasSide hI.synced hx hr happ htg t id
              have hkeep : ∀ cs : List Conn, (∀ y' ∈ cs, y'.mailbox = some mb →
                  ∃ y ∈ g.sys.conns, y.id = y'.id ∧ y.mailbox = some mb ∧ y.side = y'.side ∧ y.app = y'.app) →
                  (g.sys.step (.recv c t id (.close m mood))).conns = cs →
                  ∃ x ∈ g.sys.conns, x.id = x'.id ∧ x.mailbox = some mb ∧ x.side = x'.side ∧ x.app = x'.app := by
                intro cs hcs e
                rw [e] at hx'
                exact hcs x' hx' hm
              by_cases hgo : x.mailbox = none ∧
                  (g.sys.db.Clash app tgt ∨ ((closePre g.sys x app tgt t).mbSidesOf tgt).length > 2)
              · obtain ⟨hn0, hk⟩ := hgo
                by_cases hcl : g.sys.db.Clash app tgt
                · exact hkeep _ (fun y' hy' hm' => ⟨y', hy', rfl, hm', rfl, rfl⟩) (h1 hn0 hcl).2.conns
                · have hl : ((closePre g.sys x app tgt t).mbSidesOf tgt).length > 2 := by
                    rcases hk with hk | hk
                    · exact absurd hk hcl
                    · exact hk
                  exact hkeep _ (fun y' hy' hm' => ⟨y', hy', rfl, hm', rfl, rfl⟩) (h2 hn0 hcl hl).2.2.2.conns
              · obtain ⟨_, _, _, _, _, hsurv, hdel⟩ := h3 hgo
                by_cases hd : (closePre g.sys x app tgt t).HasBox app tgt ∧
                    (closePre g.sys x app tgt t).findMbSide tgt (x.side.getD "") ≠ none ∧
                    ¬ (closePre g.sys x app tgt t).OtherOpen tgt (x.side.getD "")
                · refine hkeep _ ?_ (hdel hd.1 hd.2.1 hd.2.2).1
                  intro y' hy' hm'
                  unfold closeConnsDel at hy'
                  obtain ⟨y, hy, rfl⟩ := List.mem_map.1 hy'
                  by_cases hc : y.id = c
                  · simp [hc, closerUpd] at hm'
                  · simp only [hc, if_false] at hm' ⊢
                    split at hm'
                    · cases hm'
                    · rename_i hns
                      rw [if_neg hns]
                      exact ⟨y, hy, rfl, hm', rfl, rfl⟩
                · refine hkeep _ ?_ (hsurv hd).1
                  intro y' hy' hm'
                  unfold closeConns at hy'
                  obtain ⟨y, hy, rfl⟩ := List.mem_map.1 hy'
                  by_cases hc : y.id = c
                  · simp [hc, closerUpd] at hm'
                  · simp only [hc, if_false] at hm' ⊢
                    exact ⟨y, hy, rfl, hm', rfl, rfl⟩
            · left
              rw [step_recv] at hx'
              exact (HSub.closed g.sys.conns).onMessage h0 c t id (fun _ _ _ _ h => h)
                (fun a sd i v e => hb ⟨a, sd, i, v, e⟩) (fun m e => ho ⟨m, e⟩)
                (fun m mood e => hcs ⟨m, mood, e⟩) x' hx' mb hm

/-! ## side rows live as long as their mailbox row -/

theorem length_sidesOf (d : Chan) (mb : String) : (d.sidesOf mb).length = (d.mbSidesOf mb).length := by
  simp [Chan.sidesOf]

/-- **C05 (side rows of a mailbox are only deleted together with the mailbox row).**  Over EVERY
    operation — sweeps and crashes at any commit point included — if a mailbox row with id `mb`
    is there afterwards, the list of sides of `mb` (in table order) is the old one, possibly
    extended at the end. -/
theorem C05_sides_only_grow {g : GSys} (hI : g.GInv) (op : Op) {mb : String}
    (hid : (g.sys.step op).db.HasId mb) :
    g.sys.db.sidesOf mb <+: (g.sys.step op).db.sidesOf mb :=
  (step_MD g.sys hI.synced.1 op).sides hid

/-- every side row survives (possibly with `opened` / `mood` changed) while the mailbox row does -/
theorem C05_side_rows_kept {g : GSys} (hI : g.GInv) (op : Op) {mb : String}
    (hid : (g.sys.step op).db.HasId mb) {r : MbSide} (hr : r ∈ g.sys.db.mbSides) (hm : r.mailbox = mb) :
    ∃ r' ∈ (g.sys.step op).db.mbSides, r'.mailbox = mb ∧ r'.side = r.side := by
  have h1 : r.side ∈ g.sys.db.sidesOf mb := by
    simp only [Chan.sidesOf, Chan.mbSidesOf, List.mem_map, List.mem_filter, decide_eq_true_eq]
    exact ⟨r, ⟨hr, hm⟩, rfl⟩
  have h2 := (C05_sides_only_grow hI op hid).mem h1
  simp only [Chan.sidesOf, Chan.mbSidesOf, List.mem_map, List.mem_filter, decide_eq_true_eq] at h2
  obtain ⟨r', ⟨hr', hm'⟩, hs⟩ := h2
  exact ⟨r', hr', hm', hs⟩

/-- **once more than two side rows, always more than two** until the mailbox row is deleted -/
theorem C05_crowded_stays {g : GSys} (hI : g.GInv) (op : Op) {mb : String}
    (hid : (g.sys.step op).db.HasId mb) (h : 2 < (g.sys.db.mbSidesOf mb).length) :
    2 < ((g.sys.step op).db.mbSidesOf mb).length := by
  have := (C05_sides_only_grow hI op hid).length_le
  rw [length_sidesOf, length_sidesOf] at this
  omega

/-- ... so the third-party situation persists over every operation that keeps the mailbox row -/
theorem C05_third_stays {g : GSys} (hI : g.GInv) (op : Op) {mb : String}
    (hid : (g.sys.step op).db.HasId mb) (h : 2 < (g.sys.db.mbSidesOf mb).length) (side : String) :
    Third (g.sys.step op).db mb side := Or.inr (C05_crowded_stays hI op hid h)

/-- **`first2` never changes once it has two elements** while the mailbox row exists (and before
    that it only grows at the end) -/
theorem C05_first2_stable {g : GSys} (hI : g.GInv) (op : Op) {mb : String}
    (hid : (g.sys.step op).db.HasId mb) :
    g.sys.db.first2 mb <+: (g.sys.step op).db.first2 mb ∧
    ((g.sys.db.first2 mb).length = 2 → (g.sys.step op).db.first2 mb = g.sys.db.first2 mb) := by
  have hp : g.sys.db.first2 mb <+: (g.sys.step op).db.first2 mb := by
    rw [Chan.first2_eq, Chan.first2_eq]
    exact Chan.prefix_take (C05_sides_only_grow hI op hid) 2
  refine ⟨hp, fun h2 => (hp.eq_of_length ?_).symm⟩
  have : ((g.sys.step op).db.first2 mb).length ≤ 2 := by
    rw [Chan.first2_eq]; simp [List.length_take]; omega
  have := hp.length_le
  omega

/-! ## subscribers are among the first two sides -/

/-- every connection that holds a handle (= is subscribed, `ConnInv.handle`) is bound to one of
    the first two sides of that mailbox -/
def SubFirst2 (s : Sys) : Prop :=
  ∀ x ∈ s.conns, ∀ mb, x.mailbox = some mb → x.side.getD "" ∈ s.db.first2 mb

theorem SubFirst2.handleRow {s : Sys} (h : SubFirst2 s) : s.HandleRow := by
  intro x hx mb hm
  have := h x hx mb hm
  rw [Chan.first2_eq] at this
  have := (List.take_prefix 2 _).mem this
  simp only [Chan.sidesOf, Chan.mbSidesOf, List.mem_map, List.mem_filter, decide_eq_true_eq] at this
  obtain ⟨r, ⟨hr, h1⟩, h2⟩ := this
  exact ⟨r, hr, h1, h2⟩

/-- a handle is granted only to a side that is then among the first two -/
theorem granted_first2 {s : Sys} {op : Op} {x' : Conn} {mb : String} (hG : Granted s op x' mb) :
    x'.side.getD "" ∈ (s.step op).db.first2 mb ∧ ((s.step op).db.mbSidesOf mb).length ≤ 2 := by
  obtain ⟨c, t, id, x, app, _, _, _, _, _, hlen, hdb, hs, _, _⟩ := hG
  rw [hdb, hs]
  refine ⟨?_, by omega⟩
  rw [Chan.first2_eq, List.take_of_length_le (by rw [length_sidesOf]; omega)]
  have hne := Chan.openDb_findMbSide_ne_none s.db app mb (x.side.getD "") t
  cases hf : (s.db.openDb app mb (x.side.getD "") t).findMbSide mb (x.side.getD "") with
  | none => exact absurd hf hne
  | some r =>
    obtain ⟨hr, h1, h2⟩ := Chan.findMbSide_some_mbx hf
    simp only [Chan.sidesOf, Chan.mbSidesOf, List.mem_map, List.mem_filter, decide_eq_true_eq]
    exact ⟨r, ⟨hr, h1⟩, h2⟩

/-- **C05 (`open` grants a handle only to a first-two side).**  After an `open` that passes
    validation, if the caller's connection holds a handle then its side is in `first2` of the
    mailbox and the mailbox has at most two side rows. -/
theorem C05_open_grants_first2 {g : GSys} (hI : g.GInv) {c : Nat} {x : Conn} {mb : String}
    (hx : g.sys.findConn c = some x) (hr : rejectText x (.open_ (some mb)) = none) (t : Time) (id : Val)
    {x' : Conn} (hx' : x' ∈ (g.sys.step (.recv c t id (.open_ (some mb)))).conns) (hid : x'.id = c)
    {mb' : String} (hm : x'.mailbox = some mb') :
    mb' = mb ∧ x'.side.getD "" ∈ (g.sys.step (.recv c t id (.open_ (some mb)))).db.first2 mb ∧
    ((g.sys.step (.recv c t id (.open_ (some mb)))).db.mbSidesOf mb).length ≤ 2 := by
  rcases handle_origin hI _ hx' hm with ⟨y, hy, h1, h2, _, _⟩ | hG
  · exfalso
    have : y = x := Chan.eq_of_pairwise_ne (f := Conn.id) hI.conn.ids hy (findConn_mem hx)
      (h1.trans (hid.trans (findConn_id hx).symm))
    subst this
    obtain ⟨_, hnone, _⟩ := open_accepted hr
    rw [hnone] at h2; cases h2
  · have hmb : mb' = mb := by
      obtain ⟨_, _, _, _, _, hop, _⟩ := hG
      cases hop; rfl
    subst hmb
    exact ⟨rfl, granted_first2 hG⟩

/-- **C05 (subscription form, one step).**  "Every subscriber is bound to one of the first two
    sides of its mailbox" is preserved by every operation (from a state with `GInv` to a state
    with `GInv`). -/
theorem C05_subscribers_first2_step {g : GSys} (hI : g.GInv) (hF : SubFirst2 g.sys) (op : Op)
    (hI' : (g.step op).GInv) : SubFirst2 (g.step op).sys := by
  intro x' hx' mb hm
  show x'.side.getD "" ∈ (g.sys.step op).db.first2 mb
  rcases handle_origin hI op hx' hm with ⟨x, hx, _, h2, h3, _⟩ | hG
  · have hin := hF x hx mb h2
    rw [h3] at hin
    obtain ⟨_, _, _, m0, hm0, hi, _⟩ := hI'.conn.handle x' hx' mb hm
    exact (C05_first2_stable hI op (mb := mb) ⟨m0, hm0, hi⟩).1.mem hin
  · exact (granted_first2 hG).1

/-- **C05 (subscription form).**  In every reachable state every subscriber is bound to one of
    the first two sides (by insertion order) of the mailbox it is subscribed to. -/
theorem C05_subscribers_first2 (hreach : ∀ g : GSys, g.Reach → g.GInv) {g : GSys} (hg : g.Reach) :
    SubFirst2 g.sys := by
  induction hg with
  | init cfg rb => intro x hx; cases hx
  | step op hg0 hw ih => exact C05_subscribers_first2_step (hreach _ hg0) ih op (hreach _ (.step op hg0 hw))

/-- `HandleRow` (used by Props/C08.lean) in every reachable state -/
theorem handleRow_reach (hreach : ∀ g : GSys, g.Reach → g.GInv) {g : GSys} (hg : g.Reach) :
    g.sys.HandleRow := (C05_subscribers_first2 hreach hg).handleRow

/-- `HandleRow` is preserved by every step between states with `GInv` -/
theorem handleRow_step {g : GSys} (hI : g.GInv) (hF : SubFirst2 g.sys) (op : Op)
    (hI' : (g.step op).GInv) : (g.step op).sys.HandleRow :=
  (C05_subscribers_first2_step hI hF op hI').handleRow

/-! ### "ever subscribed to one incarnation" -/

theorem run_append (g : GSys) (a b : List Op) : g.run (a ++ b) = (g.run a).run b := by
  induction a generalizing g with
  | nil => rfl
  | cons op rest ih => simp [GSys.run, ih]

theorem wf_append {g : GSys} {a b : List Op} (h : g.WF (a ++ b)) : g.WF a ∧ (g.run a).WF b := by
  induction a generalizing g with
  | nil => exact ⟨trivial, h⟩
  | cons op rest ih =>
    obtain ⟨h1, h2⟩ := h
    obtain ⟨h3, h4⟩ := ih h2
    exact ⟨⟨h1, h3⟩, h4⟩

/-- `first2` only grows along a history throughout which the mailbox row exists -/
theorem first2_mono_run (hreach : ∀ g : GSys, g.Reach → g.GInv) (mb : String) :
    ∀ (ops : List Op) {g : GSys}, g.Reach → g.WF ops →
      (∀ p1 p2, ops = p1 ++ p2 → p1 ≠ [] → (g.run p1).sys.db.HasId mb) →
      g.sys.db.first2 mb <+: (g.run ops).sys.db.first2 mb := by
  intro ops
  induction ops with
  | nil => intro g _ _ _; exact List.prefix_refl _
  | cons op rest ih =>
    intro g hg hwf halive
    have h1 : (g.step op).sys.db.HasId mb := halive [op] rest rfl (by simp)
    have hstep := (C05_first2_stable (hreach g hg) op (mb := mb) h1).1
    refine hstep.trans (ih (.step op hg hwf.1) hwf.2 ?_)
    intro p1 p2 e hne
    have := halive (op :: p1) p2 (by rw [e]; rfl) (by simp)
    exact this

/-- **C05 (at most two sides are ever subscribed to one incarnation of a mailbox).**  Along a
    well-formed history from a reachable state, split as `pre ++ post`: if a mailbox row with id
    `mb` exists after every operation of `post` (one incarnation), then every connection that is
    subscribed to `mb` at the split point is bound to a side in `first2` of `mb` AT THE END — a list
    of at most two sides that serves all split points at once. -/
theorem C05_ever_subscribed (hreach : ∀ g : GSys, g.Reach → g.GInv) {g : GSys} (hg : g.Reach)
    (pre post : List Op) (hwf : g.WF (pre ++ post)) (mb : String)
    (halive : ∀ p1 p2, post = p1 ++ p2 → p1 ≠ [] → ((g.run pre).run p1).sys.db.HasId mb)
    {x : Conn} (hx : x ∈ (g.run pre).sys.conns) (hm : x.mailbox = some mb) :
    x.side.getD "" ∈ (g.run (pre ++ post)).sys.db.first2 mb ∧
    ((g.run (pre ++ post)).sys.db.first2 mb).length ≤ 2 := by
  obtain ⟨hw1, hw2⟩ := wf_append hwf
  have hg1 : (g.run pre).Reach := GSys.reach_run hg pre hw1
  have h1 := C05_subscribers_first2 hreach hg1 x hx mb hm
  rw [run_append]
  refine ⟨(first2_mono_run hreach mb post hg1 hw2 halive).mem h1, ?_⟩
  rw [Chan.first2_eq]; simp [List.length_take]; omega

/-! ## who is sent a `message` frame -/

/-- no `message` frame has been emitted in the current step -/
def NoMsgOut (s : Sys) : Prop := ∀ e ∈ s.out, e.isMsg = false

theorem noMessage_of_noMsg {l : List Event} (h : ∀ e ∈ l, e.isMsg = false) : NoMessage l := by
  intro e he c sd ph bd rx i b heq
  have := h e he
  rw [heq] at this
  cases this

theorem NoMsgOut.of_out {s s' : Sys} (h : NoMsgOut s) (e : s'.out = s.out) : NoMsgOut s' := by
  intro ev hev; rw [e] at hev; exact h ev hev

theorem NoMsgOut.closedC : ClosedC NoMsgOut where
  emit := by
    intro s e he h ev hev
    simp only [emit_out, List.mem_append, List.mem_singleton] at hev
    rcases hev with hev | rfl
    · exact h ev hev
    · exact he
  modUdb := fun _ _ h => h
  commit := by
    intro s h
    unfold Sys.commit
    split
    · exact h
    · intro ev hev
      simp only [List.mem_append, List.mem_singleton] at hev
      rcases hev with hev | rfl
      · exact h ev hev
      · rfl
  ucommit := by
    intro s h
    unfold Sys.ucommit
    split
    · exact h
    · intro ev hev
      simp only [List.mem_append, List.mem_singleton] at hev
      rcases hev with hev | rfl
      · exact h ev hev
      · rfl
  grow := fun _ _ _ h => h
  flag := fun _ _ _ _ h => h
  anyConns := fun _ _ h => h

theorem NoMsgOut.closedDel : ClosedDel NoMsgOut where
  toClosedBase := NoMsgOut.closedC.toClosedBase
  del := fun _ _ _ h => h

/-- the operation is an `add` or an `open` (the only commands that send `message` frames) -/
def Op.isAddOrOpen : Op → Bool
  | .recv _ _ _ (.add _ _) => true
  | .recv _ _ _ (.open_ _) => true
  | _ => false

theorem stepPlain_noMsg {s : Sys} (h : NoMsgOut s) (op : Op) (hop : Op.isAddOrOpen op = false) :
    NoMsgOut (s.stepPlain op) := by
  cases op with
  | connect c =>
    exact NoMsgOut.closedC.toClosedBase.send (s := { s with conns := s.conns ++ [({ id := c } : Conn)] }) h _ _
  | recv c t id cmd =>
    refine onMessage_track NoMsgOut.closedC NoMsgOut.closedC.toClosedBase (fun _ _ h => h) (fun _ h => h)
      c t id cmd ?_ (fun _ _ _ _ _ _ _ _ _ _ h _ => h) (fun _ _ _ _ _ _ _ _ _ _ h _ => h) h
    rintro (⟨ph, bd, rfl⟩ | ⟨m, rfl⟩) <;> simp [Op.isAddOrOpen] at hop
  | drop c => exact h
  | sweep now fault => exact NoMsgOut.closedDel.expire h now fault
  | restart t => exact h
  | crashIn k op => exact h

theorem out_crash_subset (s : Sys) (k : Nat) (op : Op) {e : Event} (he : e ∈ (s.step (.crashIn k op)).out) :
    e ∈ (({ s with out := [], snaps := [] } : Sys).stepPlain op).out := by
  unfold Sys.step at he
  dsimp only at he
  split at he
  · cases he
  · exact Sys.mem_cutAtCommit _ _ _ he
  · exact he

theorem foldl_send_to_out (f : Frame) (l : List Nat) :
    ∀ (s : Sys), (l.foldl (fun s c => s.send c f) s).out =
        s.out ++ l.map (fun c => Event.frame c f s.synced) := by
  induction l with
  | nil => intro s; simp
  | cons a l ih =>
    intro s
    simp only [List.foldl_cons]
    rw [ih]
    have : (s.send a f).synced = s.synced := rfl
    rw [this]
    simp [Sys.send]

/-- **`message` frames are sent only by `add` and `open`** (any state, any operation, crashes and
    sweeps included) -/
theorem C05_no_message_unless_add_open (s : Sys) (op : Op) (hop : Op.isAddOrOpen op.core = false) :
    NoMessage (s.step op).out := by
  apply noMessage_of_noMsg
  have h0 : NoMsgOut ({ s with out := [], snaps := [] } : Sys) := by intro e he; cases he
  by_cases hcr : ∃ k op', op = .crashIn k op'
  · obtain ⟨k, op', rfl⟩ := hcr
    intro e he
    exact stepPlain_noMsg h0 op' hop e (out_crash_subset s k op' he)
  · have hnc : op.isCrash = false := by
      cases op <;> first | rfl | exact absurd ⟨_, _, rfl⟩ hcr
    have hcore : op.core = op := by
      cases op <;> first | rfl | exact absurd ⟨_, _, rfl⟩ hcr
    rw [step_eq_of_not_crash s hnc]
    rw [hcore] at hop
    exact stepPlain_noMsg h0 op hop

/-- the exact output of an accepted `add`: ack, commits, one `message` frame per listener of the
    sender's mailbox -/
theorem add_step_out {s : Sys} (hS : s.Synced) {c : Nat} {x : Conn} {app mb : String} {ph bd : Val}
    (hx : s.findConn c = some x) (happ : x.app = some app) (hm : x.mailbox = some mb) (t : Time) (id : Val) :
    ∃ commits, (∀ e ∈ commits, IsCommit e) ∧
      (s.step (.recv c t id (.add (some ph) (some bd)))).out =
        .frame c (.ack id) true :: (commits ++ (s.listeners app mb).map
          (fun c' => Event.frame c' (.message (x.side.getD "") ph bd t id) true)) := by
  have hsy : s.synced = true := (synced_iff s).2 hS
  have hstep : s.step (.recv c t id (.add (some ph) (some bd))) =
      ((({ s with out := [], snaps := [] } : Sys).send c (.ack id)).addMessage app mb (x.side.getD "") ph bd t id).broadcast
        app mb (.message (x.side.getD "") ph bd t id) := by
    rw [step_recv]
    unfold Sys.onMessage
    have : ({ s with out := [], snaps := [] } : Sys).findConn c = some x := hx
    simp only [this, happ]
    unfold Sys.handleAdd
    simp only [hm]
  rw [hstep]
  generalize hA : (({ s with out := [], snaps := [] } : Sys).send c (.ack id)) = sA
  have hAout : sA.out = [.frame c (.ack id) true] := by rw [← hA, ← hsy]; rfl
  have hAconns : sA.conns = s.conns := by rw [← hA]; rfl
  have hAsync : sA.Synced := by rw [← hA]; exact hS
  obtain ⟨commits, hout, hc⟩ := CExt.addMessage (OutExt.refl (s := sA)) (app := app) (mb := mb)
    (side := x.side.getD "") (phase := ph) (body := bd) (t := t) (id := id)
  have hd := addMessage_donly sA app mb (x.side.getD "") ph bd t id
  have hsync2 : (sA.addMessage app mb (x.side.getD "") ph bd t id).Synced :=
    ⟨(addMessage_disk sA app mb (x.side.getD "") ph bd t id).symm, by rw [hd.udb, hd.udisk]; exact hAsync.2⟩
  refine ⟨commits, hc, ?_⟩
  unfold Sys.broadcast
  rw [foldl_send_to_out, (synced_iff _).2 hsync2, hout, hAout]
  have : (sA.addMessage app mb (x.side.getD "") ph bd t id).listeners app mb = s.listeners app mb := by
    unfold Sys.listeners; rw [addMessage_conns, hAconns]
  rw [this]
  simp

theorem add_accepted {x : Conn} {ph bd : Option Val} (hr : rejectText x (.add ph bd) = none) :
    (∃ app, x.app = some app) ∧ (∃ mb, x.mailbox = some mb) ∧ (∃ p, ph = some p) ∧ ∃ b, bd = some b := by
  obtain ⟨happ, h⟩ := needBind_eq_none hr
  refine ⟨happ, ?_⟩
  cases hm : x.mailbox with
  | none => simp [hm] at h
  | some mb =>
    cases ph with
    | none => simp [hm] at h
    | some p =>
      cases bd with
      | none => simp [hm] at h
      | some b => exact ⟨⟨mb, rfl⟩, ⟨p, rfl⟩, ⟨b, rfl⟩⟩

/-- **C05 (who is sent a message).**  Every `message` frame emitted by any operation (sweeps and
    crashes included) goes to a connection that was subscribed before the operation (live delivery
    by `add`) or to the connection whose `open` is being granted in it (replay). -/
theorem C05_message_recipients {g : GSys} (hI : g.GInv) (op : Op) {c' : Nat} {sd : String} {ph bd : Val}
    {rx : Time} {i : Val} {b : Bool}
    (h : Event.frame c' (.message sd ph bd rx i) b ∈ (g.sys.step op).out) :
    (∃ y ∈ g.sys.conns, y.id = c' ∧ y.listening = true ∧ ∃ mb, y.mailbox = some mb) ∨
    (∃ x' ∈ (g.sys.step op.core).conns, ∃ mb, x'.id = c' ∧ x'.mailbox = some mb ∧
      Granted g.sys op.core x' mb) := by
  -- reduce to the wrapped operation
  have h' : Event.frame c' (.message sd ph bd rx i) b ∈ (g.sys.step op.core).out ∧ op.core.isCrash = false := by
    by_cases hcr : ∃ k op', op = .crashIn k op'
    · obtain ⟨k, op', rfl⟩ := hcr
      have h1 := out_crash_subset g.sys k op' h
      show _ ∈ (g.sys.step op').out ∧ op'.isCrash = false
      cases hc : op'.isCrash with
      | true =>
        exfalso
        cases op' <;> first | (simp [Op.isCrash] at hc; done) | cases h1
      | false => rw [step_eq_of_not_crash g.sys hc]; exact ⟨h1, rfl⟩
    · have hcore : op.core = op := by
        cases op <;> first | rfl | exact absurd ⟨_, _, rfl⟩ hcr
      rw [hcore]
      refine ⟨h, ?_⟩
      cases op <;> first | rfl | exact absurd ⟨_, _, rfl⟩ hcr
  obtain ⟨h1, hnc⟩ := h'
  generalize op.core = op0 at h1 hnc ⊢
  have hcore0 : op0.core = op0 := by cases op0 <;> first | rfl | simp [Op.isCrash] at hnc
  by_cases hao : Op.isAddOrOpen op0 = true
  · cases op0 with
    | recv c t id cmd =>
      cases hx : g.sys.findConn c with
      | none => rw [recv_no_conn t id cmd hx] at h1; cases h1
      | some x =>
        cases hr : rejectText x cmd with
        | some text =>
          rw [(C17_validation_error t id hx (rejected_of_rejectText hr)).1] at h1
          exfalso
          split at h1 <;> simp at h1
        | none =>
          cases cmd with
          | add ph' bd' =>
            left
            obtain ⟨⟨app, happ⟩, ⟨mb, hm⟩, ⟨p, rfl⟩, ⟨b', rfl⟩⟩ := add_accepted hr
            obtain ⟨commits, hc, hout⟩ := add_step_out (ph := p) (bd := b') hI.synced hx happ hm t id
            rw [hout] at h1
            simp only [List.mem_cons, List.mem_append, List.mem_map] at h1
            rcases h1 with h1 | h1 | ⟨c2, hc2, h1⟩
            · cases h1
            · obtain ⟨w, hw⟩ := hc _ h1; cases hw
            · cases h1
              simp only [Sys.listeners, List.mem_map, List.mem_filter, decide_eq_true_eq] at hc2
              obtain ⟨y, ⟨hy, hl, _, hym⟩, hid⟩ := hc2
              exact ⟨y, hy, hid, hl, mb, hym⟩
          | open_ m =>
            right
            obtain ⟨⟨app, happ⟩, hnone, mb, rfl⟩ := open_accepted hr
            obtain ⟨k1, k2, k3⟩ := open_step hI.cinv.toPInv hI.synced hx hr happ t id
            by_cases hcl : g.sys.db.Clash app mb
            · rw [(k1 hcl).1] at h1; simp at h1
            · by_cases hlen : ((g.sys.db.openDb app mb (x.side.getD "") t).mbSidesOf mb).length > 2
              · obtain ⟨⟨commits, hc, hout⟩, _⟩ := k2 hcl hlen
                exfalso
                rw [hout] at h1
                simp only [List.mem_cons, List.mem_append, List.not_mem_nil, or_false] at h1
                rcases h1 with h1 | h1 | h1
                · cases h1
                · obtain ⟨w, hw⟩ := hc _ h1; cases hw
                · cases h1
              · obtain ⟨⟨commits, hc, hout⟩, hdb, _, _, _, _, hconns⟩ := k3 hcl hlen
                rw [hout] at h1
                simp only [List.mem_cons, List.mem_append, replayFrames, List.mem_map] at h1
                have hc' : c' = c := by
                  rcases h1 with h1 | h1 | ⟨m0, _, h1⟩
                  · cases h1
                  · obtain ⟨w, hw⟩ := hc _ h1; cases hw
                  · cases h1; rfl
                subst hc'
                have hidx : x.id = c' := findConn_id hx
                refine ⟨{ x with mailboxId := some mb, mailbox := some mb, listening := true }, ?_, mb,
                  hidx, rfl, ?_⟩
                · rw [hconns]
                  exact List.mem_map.2 ⟨x, findConn_mem hx, by simp [findConn_id hx]⟩
                · exact ⟨c', t, id, x, app, rfl, hx, hr, happ, hcl, hlen, hdb, rfl, rfl, hidx⟩
          | _ => simp [Op.isAddOrOpen] at hao
    | _ => simp [Op.isAddOrOpen] at hao
  · exfalso
    have := C05_no_message_unless_add_open g.sys op0 (by rw [hcore0]; simpa using hao)
    exact this _ h1 c' sd ph bd rx i b rfl

/-- **C05 (no third party is sent a message).**  With "subscribers are first-two" before the
    operation (`C05_subscribers_first2`), every `message` frame goes to a connection bound to one
    of the first two sides of the mailbox it is subscribed to (before the operation, or — for the
    replay of a granted `open` — after it). -/
theorem C05_message_to_first2 {g : GSys} (hI : g.GInv) (hF : SubFirst2 g.sys) (op : Op) {c' : Nat} {sd : String}
    {ph bd : Val} {rx : Time} {i : Val} {b : Bool}
    (h : Event.frame c' (.message sd ph bd rx i) b ∈ (g.sys.step op).out) :
    ∃ y mb, y.id = c' ∧ y.mailbox = some mb ∧
      ((y ∈ g.sys.conns ∧ y.side.getD "" ∈ g.sys.db.first2 mb) ∨
       (y ∈ (g.sys.step op.core).conns ∧ y.side.getD "" ∈ (g.sys.step op.core).db.first2 mb)) := by
  rcases C05_message_recipients hI op h with ⟨y, hy, hid, _, mb, hm⟩ | ⟨x', hx', mb, hid, hm, hG⟩
  · exact ⟨y, mb, hid, hm, Or.inl ⟨hy, hF y hy mb hm⟩⟩
  · exact ⟨x', mb, hid, hm, Or.inr ⟨hx', (granted_first2 hG).1⟩⟩

/-! ## C05_keep_partial: a refused attempt disturbs nobody -/

/-- what a refused attempt leaves alone -/
structure Keeps (s s' : Sys) (mb : String) : Prop where
  /-- every side row of every mailbox is literally still there -/
  rows : ∀ r ∈ s.db.mbSides, r ∈ s'.db.mbSides
  /-- the first two sides of the mailbox are the same -/
  first2 : s'.db.first2 mb = s.db.first2 mb
  /-- other mailboxes have exactly their side rows -/
  others : ∀ mb', mb' ≠ mb → s'.db.mbSidesOf mb' = s.db.mbSidesOf mb'
  /-- no message is added, removed or changed -/
  messages : s'.db.messages = s.db.messages
  /-- every connection keeps its binding, its handle and its subscription -/
  subs : ∀ y ∈ s.conns, ∃ y' ∈ s'.conns, y'.id = y.id ∧ y'.mailbox = y.mailbox ∧
    y'.listening = y.listening ∧ y'.app = y.app ∧ y'.side = y.side

theorem Third.two_le {d : Chan} {mb side : String} (h : Third d mb side) : 2 ≤ (d.mbSidesOf mb).length := by
  rcases h with ⟨h, _⟩ | h <;> omega

theorem keeps_of_openDb {d d' : Chan} {app mb side : String} {t : Time}
    (h1 : d'.mbSides = (d.openDb app mb side t).mbSides) (hlen : 2 ≤ (d.mbSidesOf mb).length) :
    (∀ r ∈ d.mbSides, r ∈ d'.mbSides) ∧ d'.first2 mb = d.first2 mb ∧
    (∀ mb', mb' ≠ mb → d'.mbSidesOf mb' = d.mbSidesOf mb') := by
  have hof : ∀ mb', d'.mbSidesOf mb' = (d.openDb app mb side t).mbSidesOf mb' := by
    intro mb'; unfold Chan.mbSidesOf; rw [h1]
  refine ⟨?_, ?_, ?_⟩
  · intro r hr
    rw [h1]
    cases hs : d.findMbSide mb side with
    | some r0 => rw [Chan.openDb_mbSides_some d app mb side t hs]; exact hr
    | none => rw [Chan.openDb_mbSides_none d app mb side t hs]; simp [hr]
  · unfold Chan.first2
    rw [hof, Chan.openDb_mbSidesOf, List.take_append_of_le_length hlen]
  · intro mb' hne
    rw [hof, Chan.openDb_mbSidesOf]
    simp [hne]

theorem subs_of_map {cs : List Conn} {c : Nat} {f : Conn → Conn}
    (hf : ∀ y, (f y).id = y.id ∧ (f y).mailbox = y.mailbox ∧ (f y).listening = y.listening ∧
      (f y).app = y.app ∧ (f y).side = y.side) :
    ∀ y ∈ cs, ∃ y' ∈ cs.map (fun y => if y.id = c then f y else y), y'.id = y.id ∧ y'.mailbox = y.mailbox ∧
      y'.listening = y.listening ∧ y'.app = y.app ∧ y'.side = y.side := by
  intro y hy
  refine ⟨if y.id = c then f y else y, List.mem_map.2 ⟨y, hy, rfl⟩, ?_⟩
  split
  · exact hf y
  · exact ⟨rfl, rfl, rfl, rfl, rfl⟩

/-- **C05 (the first two keep what they have) — PARTIAL, finding K-crowded-rejoin.**  Full
    statement (FALSE for the model and the code, `C05_rejoin_counterexample`): "the first two sides
    keep their access".  What holds: a refused `open` removes or alters no side row, no message and
    nobody's subscription, and `first2` of the mailbox is unchanged — the access the first two sides
    HAVE (their live subscriptions, their stored rows and messages) stays; what is lost is their
    ability to subscribe from a NEW connection. -/
theorem C05_keep_partial {g : GSys} (hI : g.GInv) {c : Nat} {x : Conn} {mb app : String}
    (hx : g.sys.findConn c = some x) (hr : rejectText x (.open_ (some mb)) = none)
    (happ : x.app = some app) (hrow : g.sys.db.HasBox app mb)
    (h3 : Third g.sys.db mb (x.side.getD "")) (t : Time) (id : Val) :
    Keeps g.sys (g.sys.step (.recv c t id (.open_ (some mb)))) mb := by
  have hP := hI.cinv.toPInv
  obtain ⟨_, hcr, _⟩ := open_step hP hI.synced hx hr happ t id
  obtain ⟨_, hdb, _, _, _, _, hconns⟩ := hcr (fun hcl => hcl.2 hrow) (h3.crowds app t)
  obtain ⟨k1, k2, k3⟩ := keeps_of_openDb (d := g.sys.db) (d' := (g.sys.step (.recv c t id (.open_ (some mb)))).db)
    (app := app) (mb := mb) (side := x.side.getD "") (t := t) (by rw [hdb]) h3.two_le
  refine ⟨k1, k2, k3, by rw [hdb]; rfl, ?_⟩
  rw [hconns]
  exact subs_of_map (fun y => ⟨rfl, rfl, rfl, rfl, rfl⟩)

/-- the same for a refused handle-less `close` -/
theorem C05_keep_partial_close {g : GSys} (hI : g.GInv) {c : Nat} {x : Conn} {m mood : Option String}
    {mb app : String} (hx : g.sys.findConn c = some x) (hr : rejectText x (.close m mood) = none)
    (happ : x.app = some app) (hnone : x.mailbox = none) (htg : x.closeTarget m = some mb)
    (hrow : g.sys.db.HasBox app mb) (h3 : Third g.sys.db mb (x.side.getD "")) (t : Time) (id : Val) :
    Keeps g.sys (g.sys.step (.recv c t id (.close m mood))) mb := by
  obtain ⟨_, _, hconns, hdb, _⟩ := C05_third_excluded_close hI hx hr happ hnone htg hrow h3 t id
  obtain ⟨k1, k2, k3⟩ := keeps_of_openDb (d := g.sys.db) (d' := (g.sys.step (.recv c t id (.close m mood))).db)
    (app := app) (mb := mb) (side := x.side.getD "") (t := t) (by rw [hdb]) h3.two_le
  refine ⟨k1, k2, k3, by rw [hdb]; rfl, ?_⟩
  rw [hconns]
  intro y hy
  exact ⟨y, hy, rfl, rfl, rfl, rfl, rfl⟩

/-- the same for a refused `claim` -/
theorem C05_keep_partial_claim {g : GSys} (hI : g.GInv) {c : Nat} {x : Conn} {name fresh app : String}
    {row : Nameplate} (hx : g.sys.findConn c = some x) (hr : rejectText x (.claim (some name) fresh) = none)
    (happ : x.app = some app) (hrow : g.sys.db.findNameplate app name = some row)
    (h3 : Third g.sys.db row.mailbox (x.side.getD "")) (t : Time) (id : Val) :
    Keeps g.sys (g.sys.step (.recv c t id (.claim (some name) fresh))) row.mailbox := by
  obtain ⟨_, _, hconns, hre, hcr⟩ := C05_third_excluded_claim hI hx hr happ hrow h3 t id
  have hsubs : ∀ y ∈ g.sys.conns, ∃ y' ∈ (g.sys.step (.recv c t id (.claim (some name) fresh))).conns,
      y'.id = y.id ∧ y'.mailbox = y.mailbox ∧ y'.listening = y.listening ∧ y'.app = y.app ∧ y'.side = y.side := by
    rw [hconns]
    exact subs_of_map (fun y => ⟨rfl, rfl, rfl, rfl, rfl⟩)
  by_cases hu : ∃ r0, g.sys.db.findNpSide row.id (x.side.getD "") = some r0 ∧ r0.claimed = false
  · have hdb := hre hu
    exact ⟨by rw [hdb]; exact fun r hr => hr, by rw [hdb], by rw [hdb]; exact fun _ _ => rfl, by rw [hdb], hsubs⟩
  · obtain ⟨hsd, hmsg, _⟩ := hcr hu
    obtain ⟨k1, k2, k3⟩ := keeps_of_openDb hsd h3.two_le
    exact ⟨k1, k2, k3, hmsg, hsubs⟩

/-! ## nameplates -/

/-- **C05 (what `claimed` tells).**  If a `claim` is answered `claimed mb'`, then afterwards the
    nameplate row (app, name) exists and points at `mb'`, the caller's side is among its at most
    two side rows, and among the at most two side rows of `mb'` (`Chan.ClaimedFacts`). -/
theorem C05_claimed_sides {g : GSys} (hI : g.GInv) {c : Nat} {x : Conn} {name fresh app : String}
    (hx : g.sys.findConn c = some x) (hr : rejectText x (.claim (some name) fresh) = none)
    (happ : x.app = some app) (t : Time) (id : Val) {c' : Nat} {mb' : String} {b : Bool}
    (hfr : Event.frame c' (.claimed mb') b ∈ (g.sys.step (.recv c t id (.claim (some name) fresh))).out) :
    (g.sys.step (.recv c t id (.claim (some name) fresh))).db.ClaimedFacts app name (x.side.getD "") mb' := by
  obtain ⟨s1, r, hcl, ⟨commits, hc, hout⟩, hdb, _, _⟩ := claim_step hI.cinv.toPInv hI.synced hx hr happ t id
  rw [hout] at hfr
  simp only [List.mem_cons, List.mem_append, List.not_mem_nil, or_false] at hfr
  rcases hfr with hfr | hfr | hfr
  · cases hfr
  · obtain ⟨w, hw⟩ := hc _ hfr; cases hw
  · cases r with
    | ok mb =>
      simp only [claimAnswer, Event.frame.injEq, Frame.claimed.injEq] at hfr
      obtain ⟨_, rfl, _⟩ := hfr
      rw [hdb]
      exact claimNameplate_ok hcl
    | crowded => simp [claimAnswer] at hfr
    | reclaimed => simp [claimAnswer] at hfr
    | integrity => simp [claimAnswer] at hfr

/-- **C05 (side rows of a nameplate are never deleted while the nameplate row lives).**  Over
    EVERY operation: a nameplate row that is there afterwards and whose id is below the old counter
    was there before, and its list of sides has only grown at the end. -/
theorem C05_np_sides_only_grow {g : GSys} (hI : g.GInv) (op : Op) :
    Chan.NpGrow g.sys.db (g.sys.step op).db :=
  step_NpGrow g.sys hI.synced.1 hI.cinv.npIds op

/-- operation `op` answers `claimed` to side `σ` for the nameplate row with id `n` -/
def ClaimedNow (g : GSys) (op : Op) (n : Nat) (σ : String) : Prop :=
  ∃ c t id name fresh x app mb b, op = .recv c t id (.claim (some name) fresh) ∧
    g.sys.findConn c = some x ∧ x.app = some app ∧ x.side.getD "" = σ ∧
    Event.frame c (.claimed mb) b ∈ (g.sys.step op).out ∧
    ∃ row ∈ (g.sys.step op).db.nameplates, row.id = n ∧ row.app = app ∧ row.name = name

/-- some operation of the history answers `claimed` to side `σ` for nameplate row id `n` -/
def ClaimedIn : GSys → List Op → Nat → String → Prop
  | _, [], _, _ => False
  | g, op :: rest, n, σ => ClaimedNow g op n σ ∨ ClaimedIn (g.step op) rest n σ

theorem claimedNow_facts {g : GSys} (hI : g.GInv) {op : Op} (hI' : (g.step op).GInv) {n : Nat} {σ : String}
    (h : ClaimedNow g op n σ) :
    (∃ row ∈ (g.sys.step op).db.nameplates, row.id = n) ∧ σ ∈ (g.sys.step op).db.npSideNames n ∧
    ((g.sys.step op).db.npSideNames n).length ≤ 2 := by
  obtain ⟨c, t, id, name, fresh, x, app, mb, b, rfl, hx, happ, hσ, hfr, row, hrow, hid, hra, hrn⟩ := h
  have hr : rejectText x (.claim (some name) fresh) = none := by
    cases hrj : rejectText x (.claim (some name) fresh) with
    | none => rfl
    | some text =>
      have := (C17_validation_error t id hx (rejected_of_rejectText hrj)).1
      rw [this] at hfr
      simp at hfr
  obtain ⟨n0, hn0, ha, hnm, _, hside, hlen, _⟩ := C05_claimed_sides hI hx hr happ t id hfr
  have hP' : (g.sys.step (.recv c t id (.claim (some name) fresh))).db.PInv := hI'.cinv.toPInv
  have hkey : ((g.sys.step (.recv c t id (.claim (some name) fresh))).db.nameplates).Pairwise
      (fun a b => ¬ (fun r : Nameplate => (r.app, r.name)) a = (fun r : Nameplate => (r.app, r.name)) b) :=
    hP'.npKey.imp (by intro a b hab he; simp only [Prod.mk.injEq] at he; exact hab he)
  have : n0 = row := Chan.eq_of_pairwise_ne hkey hn0 hrow (by simp [ha, hnm, hra, hrn])
  subst this
  subst hid
  refine ⟨⟨n0, hrow, rfl⟩, by rw [← hσ]; exact hside, ?_⟩
  simp only [Chan.npSideNames, List.length_map]
  exact hlen

theorem nameplate_two_aux (hreach : ∀ g : GSys, g.Reach → g.GInv) (n : Nat) :
    ∀ (ops : List Op) {g : GSys}, g.Reach → g.WF ops → ∀ (S : String → Prop),
      (∀ σ, S σ → n < g.sys.db.nextNp) →
      (∀ row ∈ g.sys.db.nameplates, row.id = n → ∀ σ, S σ → σ ∈ g.sys.db.npSideNames n) →
      (∃ l : List String, l.length ≤ 2 ∧ ∀ σ, S σ → σ ∈ l) →
      ∃ l : List String, l.length ≤ 2 ∧ ∀ σ, (S σ ∨ ClaimedIn g ops n σ) → σ ∈ l := by
  intro ops
  induction ops with
  | nil =>
    intro g _ _ S _ _ ⟨l, hl, hS⟩
    exact ⟨l, hl, fun σ h => by rcases h with h | h; exact hS σ h; cases h⟩
  | cons op rest ih =>
    intro g hg hwf S hlt hin hl
    have hI := hreach g hg
    have hg' : (g.step op).Reach := .step op hg hwf.1
    have hI' := hreach _ hg'
    have hgrow : Chan.NpGrow g.sys.db (g.sys.step op).db := C05_np_sides_only_grow hI op
    have hb : ∀ row ∈ (g.sys.step op).db.nameplates, row.id = n → ∀ σ, (S σ ∨ ClaimedNow g op n σ) →
        σ ∈ (g.sys.step op).db.npSideNames n := by
      intro row hrow hid σ hσ
      rcases hσ with hσ | hσ
      · have hn := hlt σ hσ
        have hrow0 := hgrow.rows row hrow (by rw [hid]; exact hn)
        have := hgrow.sides row hrow (by rw [hid]; exact hn)
        rw [hid] at this
        exact this.mem (hin row hrow0 hid σ hσ)
      · exact (claimedNow_facts hI hI' hσ).2.1
    obtain ⟨l', hl', hS'⟩ := ih (g := g.step op) hg' hwf.2 (fun σ => S σ ∨ ClaimedNow g op n σ)
      (by
        intro σ hσ
        rcases hσ with hσ | hσ
        · exact Nat.lt_of_lt_of_le (hlt σ hσ) hgrow.next
        · obtain ⟨⟨row, hrow, hid⟩, _, _⟩ := claimedNow_facts hI hI' hσ
          rw [← hid]
          exact hI'.cinv.bounded.1 row hrow)
      hb
      (by
        by_cases hex : ∃ σ, ClaimedNow g op n σ
        · obtain ⟨σ0, hσ0⟩ := hex
          obtain ⟨⟨row, hrow, hid⟩, _, hlen⟩ := claimedNow_facts hI hI' hσ0
          exact ⟨_, hlen, fun σ hσ => hb row hrow hid σ hσ⟩
        · obtain ⟨l, hl1, hl2⟩ := hl
          refine ⟨l, hl1, fun σ hσ => ?_⟩
          rcases hσ with hσ | hσ
          · exact hl2 σ hσ
          · exact absurd ⟨σ, hσ⟩ hex)
    refine ⟨l', hl', fun σ hσ => hS' σ ?_⟩
    rcases hσ with hσ | hσ | hσ
    · exact Or.inl (Or.inl hσ)
    · exact Or.inl (Or.inr hσ)
    · exact Or.inr hσ

/-- **C05 (at most two sides are told the mailbox of one nameplate incarnation).**  Along every
    well-formed history from a reachable state, for every nameplate row id `n` (ids are never
    re-used, so an id IS an incarnation) the sides that are answered `claimed` for `n` all lie in one
    list of at most two sides. -/
theorem C05_nameplate_two (hreach : ∀ g : GSys, g.Reach → g.GInv) {g : GSys} (hg : g.Reach)
    (ops : List Op) (hwf : g.WF ops) (n : Nat) :
    ∃ l : List String, l.length ≤ 2 ∧ ∀ σ, ClaimedIn g ops n σ → σ ∈ l := by
  obtain ⟨l, hl, h⟩ := nameplate_two_aux hreach n ops hg hwf (fun _ => False)
    (fun _ h => h.elim) (fun _ _ _ _ h => h.elim) ⟨[], by simp, fun _ h => h.elim⟩
  exact ⟨l, hl, fun σ hσ => h σ (Or.inr hσ)⟩

/-! ### the history-level theorems with the reachability invariant plugged in -/

theorem C05_subscribers_first2_reach {g : GSys} (hg : g.Reach) : SubFirst2 g.sys :=
  C05_subscribers_first2 (fun _ h => h.ginv) hg

theorem C05_nameplate_two_reach {g : GSys} (hg : g.Reach) (ops : List Op) (hwf : g.WF ops) (n : Nat) :
    ∃ l : List String, l.length ≤ 2 ∧ ∀ σ, ClaimedIn g ops n σ → σ ∈ l :=
  C05_nameplate_two (fun _ h => h.ginv) hg ops hwf n

theorem C05_ever_subscribed_reach {g : GSys} (hg : g.Reach)
    (pre post : List Op) (hwf : g.WF (pre ++ post)) (mb : String)
    (halive : ∀ p1 p2, post = p1 ++ p2 → p1 ≠ [] → ((g.run pre).run p1).sys.db.HasId mb)
    {x : Conn} (hx : x ∈ (g.run pre).sys.conns) (hm : x.mailbox = some mb) :
    x.side.getD "" ∈ (g.run (pre ++ post)).sys.db.first2 mb ∧
    ((g.run (pre ++ post)).sys.db.first2 mb).length ≤ 2 :=
  C05_ever_subscribed (fun _ h => h.ginv) hg pre post hwf mb halive hx hm

/-! ## Non-vacuity and the counterexample -/

namespace Ex

instance (d : Chan) : Decidable d.IdsBounded := by unfold Chan.IdsBounded; infer_instance
instance (d : Chan) (mb side : String) : Decidable (Third d mb side) := by unfold Third; infer_instance

/-- sides s1 and s2 share mailbox "m" (nameplate "7" still points at it, held by s1) and are both
    subscribed; connection 3 is bound to a third side s3 and has done nothing yet -/
def db0 : Chan :=
  { nameplates := [⟨1, "app", "7", "m"⟩],
    npSides := [⟨1, true, "s1", 90⟩],
    mailboxes := [⟨"app", "m", 100, true⟩],
    mbSides := [⟨"m", true, "s1", 100, none⟩, ⟨"m", true, "s2", 100, none⟩],
    messages := [⟨"app", "m", "s1", .str "pake", .str "b", 100, .str "i"⟩],
    nextNp := 2 }

def conn1 : Conn :=
  { id := 1, app := some "app", side := some "s1", mailbox := some "m", mailboxId := some "m", listening := true }
def conn2 : Conn :=
  { id := 2, app := some "app", side := some "s2", mailbox := some "m", mailboxId := some "m", listening := true }
def conn3 : Conn := { id := 3, app := some "app", side := some "s3" }

def sys0 : Sys := { db := db0, disk := db0, conns := [conn1, conn2, conn3] }
def g0 : GSys := ⟨sys0, 100, ["m"]⟩

theorem g0_ginv : g0.GInv :=
  ⟨⟨by constructor <;> decide, by decide⟩, by constructor <;> decide, ⟨rfl, rfl⟩, by decide, by decide, by decide⟩

/-- the hypotheses of `C05_third_excluded_open` / `C05_keep_partial` hold for connection 3 -/
example : g0.sys.findConn 3 = some conn3 ∧ rejectText conn3 (.open_ (some "m")) = none ∧
    conn3.app = some "app" ∧ g0.sys.db.HasBox "app" "m" ∧ Third g0.sys.db "m" (conn3.side.getD "") := by
  decide

/-- ... those of `C05_third_excluded_close` ... -/
example : rejectText conn3 (.close (some "m") none) = none ∧ conn3.mailbox = none ∧
    conn3.closeTarget (some "m") = some "m" := by decide

/-- ... and those of `C05_third_excluded_claim` -/
example : rejectText conn3 (.claim (some "7") "f") = none ∧
    g0.sys.db.findNameplate "app" "7" = some ⟨1, "app", "7", "m"⟩ ∧
    Third g0.sys.db "m" (conn3.side.getD "") := by decide

/-- evaluated: the three refusals -/
example :
    (g0.sys.step (.recv 3 200 (.int 1) (.open_ (some "m")))).out =
      [.frame 3 (.ack (.int 1)) true, .commit .chan, .frame 3 (.error "crowded") true] ∧
    (g0.sys.step (.recv 3 200 (.int 1) (.close (some "m") none))).out =
      [.frame 3 (.ack (.int 1)) true, .commit .chan, .frame 3 (.error "crowded") true] ∧
    (g0.sys.step (.recv 3 200 (.int 1) (.claim (some "7") "f"))).out =
      [.frame 3 (.ack (.int 1)) true, .commit .chan, .commit .chan, .frame 3 (.error "crowded") true] := by
  decide +kernel

/-- `C05_message_recipients` / `C05_message_to_first2`: "subscribers are first-two" holds in `g0`,
    and an `add` by connection 1 does send `message` frames — to the subscribers 1 and 2 only -/
theorem g0_subFirst2 : SubFirst2 g0.sys := by
  intro y hy mb hm
  simp only [g0, sys0, List.mem_cons, List.not_mem_nil, or_false] at hy
  rcases hy with rfl | rfl | rfl
  · cases hm; decide
  · cases hm; decide
  · cases hm

example : (g0.sys.step (.recv 1 200 (.int 1) (.add (some (.str "p")) (some (.str "b"))))).out =
    [.frame 1 (.ack (.int 1)) true, .commit .chan,
     .frame 1 (.message "s1" (.str "p") (.str "b") 200 (.int 1)) true,
     .frame 2 (.message "s1" (.str "p") (.str "b") 200 (.int 1)) true] := by
  decide +kernel

/-- a history: s1 and s2 open "m"; a third side s3 tries (refused); then s1 comes back on a NEW
    connection (4) -/
def hist : List Op :=
  [ .connect 1, .recv 1 10 .null (.bind (some "app") (some "s1") none none), .recv 1 11 .null (.open_ (some "m")),
    .connect 2, .recv 2 12 .null (.bind (some "app") (some "s2") none none), .recv 2 13 .null (.open_ (some "m")),
    .connect 3, .recv 3 14 .null (.bind (some "app") (some "s3") none none), .recv 3 15 .null (.open_ (some "m")),
    .connect 4, .recv 4 16 .null (.bind (some "app") (some "s1") none none) ]

def gR : GSys := (GSys.init {} 0).run hist

theorem gR_reach : gR.Reach := GSys.reach_of_wfB {} 0 hist (by decide +kernel)

/-- **K-crowded-rejoin.**  In the REACHABLE state `gR` side s1 is one of the first two sides of
    mailbox "m" and connection 1 of s1 is still subscribed; nevertheless an `open` of "m" on s1's new
    connection 4 is answered `crowded`: the first two do NOT keep the ability to (re)subscribe. -/
theorem C05_rejoin_counterexample :
    gR.sys.db.first2 "m" = ["s1", "s2"] ∧
    (gR.sys.findConn 4).map (fun y => (y.app, y.side, y.mailbox)) = some (some "app", some "s1", none) ∧
    (gR.sys.findConn 1).map (fun y => (y.side, y.mailbox, y.listening)) = some (some "s1", some "m", true) ∧
    (gR.sys.step (.recv 4 17 (.int 9) (.open_ (some "m")))).out =
      [.frame 4 (.ack (.int 9)) true, .commit .chan, .frame 4 (.error "crowded") true] := by
  decide +kernel

/-- `C05_subscribers_first2` is not vacuous: in `gR` two connections are subscribed, both first-two -/
example : SubFirst2 gR.sys := C05_subscribers_first2_reach gR_reach
example : (gR.sys.conns.filter (fun y => y.mailbox.isSome)).map (fun y => y.side) = [some "s1", some "s2"] := by
  decide +kernel

/-- `C05_ever_subscribed`: in `hist` the row of "m" exists from the third operation on -/
example : ∀ p1 p2, hist.drop 3 = p1 ++ p2 → p1 ≠ [] →
    (((GSys.init {} 0).run (hist.take 3)).run p1).sys.db.HasId "m" := by
  intro p1 p2 h hne
  have hk : ∀ k, k < 9 → 1 ≤ k →
      (((GSys.init {} 0).run (hist.take 3)).run ((hist.drop 3).take k)).sys.db.HasId "m" := by
    decide +kernel
  have h1 : p1 = (hist.drop 3).take p1.length := by rw [h]; simp
  have h2 : p1.length + p2.length = 8 := by
    have := congrArg List.length h
    simp only [List.length_append] at this
    rw [← this]; rfl
  have h3 : 1 ≤ p1.length := by
    cases p1 with
    | nil => exact absurd rfl hne
    | cons a l => simp
  rw [h1]
  exact hk p1.length (by omega) h3

/-- a history in which nameplate row 1 is claimed by two sides (both answered `claimed`) and then
    by a third (refused) -/
def histN : List Op :=
  [ .connect 1, .recv 1 10 .null (.bind (some "app") (some "s1") none none), .recv 1 11 .null (.claim (some "7") "mb"),
    .connect 2, .recv 2 12 .null (.bind (some "app") (some "s2") none none), .recv 2 13 .null (.claim (some "7") "f2"),
    .connect 3, .recv 3 14 .null (.bind (some "app") (some "s3") none none), .recv 3 15 .null (.claim (some "7") "f3") ]

example : (GSys.init {} 0).WF histN := GSys.wfB_sound (by decide +kernel)

/-- `ClaimedIn` is inhabited: the third operation answers `claimed` to s1 for row 1 ... -/
example : ClaimedIn (GSys.init {} 0) histN 1 "s1" := by
  refine Or.inr (Or.inr (Or.inl ⟨1, 11, .null, "7", "mb", { id := 1, app := some "app", side := some "s1" },
    "app", "mb", true, rfl, by decide +kernel, rfl, rfl, by decide +kernel, ⟨1, "app", "7", "mb"⟩,
    by decide +kernel, rfl, rfl, rfl⟩))

/-- ... and the frames of the whole history: two `claimed`, then `crowded` -/
example : ((Sys.run { rebooted := 0 } histN).2.filterMap
    (fun e => match e with | .frame c (.claimed m) _ => some (c, m) | .frame c (.error t) _ => some (c, t) | _ => none)) =
    [(1, "mb"), (2, "mb"), (3, "crowded")] := by
  decide +kernel

end Ex

end C05
end Wormhole

#print axioms Wormhole.C05.C05_third_excluded_open
#print axioms Wormhole.C05.C05_third_excluded_close
#print axioms Wormhole.C05.C05_third_excluded_claim
#print axioms Wormhole.C05.handle_origin
#print axioms Wormhole.C05.C05_sides_only_grow
#print axioms Wormhole.C05.C05_side_rows_kept
#print axioms Wormhole.C05.C05_crowded_stays
#print axioms Wormhole.C05.C05_first2_stable
#print axioms Wormhole.C05.C05_open_grants_first2
#print axioms Wormhole.C05.C05_subscribers_first2_step
#print axioms Wormhole.C05.C05_subscribers_first2
#print axioms Wormhole.C05.C05_ever_subscribed
#print axioms Wormhole.C05.C05_keep_partial
#print axioms Wormhole.C05.C05_keep_partial_close
#print axioms Wormhole.C05.C05_keep_partial_claim
#print axioms Wormhole.C05.C05_claimed_sides
#print axioms Wormhole.C05.C05_np_sides_only_grow
#print axioms Wormhole.C05.C05_nameplate_two
#print axioms Wormhole.C05.C05_subscribers_first2_reach
#print axioms Wormhole.C05.C05_nameplate_two_reach
#print axioms Wormhole.C05.Ex.C05_rejoin_counterexample
#print axioms Wormhole.C05.C05_no_message_unless_add_open
#print axioms Wormhole.C05.C05_message_recipients
#print axioms Wormhole.C05.C05_message_to_first2
#print axioms Wormhole.C05.C05_ever_subscribed_reach
