/-
  C05 — "No third party: at most two sides ever share a nameplate or a mailbox".

  Step theorems are for EVERY state satisfying `GSys.GInv`; the history-level theorems take
  `(hreach : ∀ g, g.Reach → g.GInv)` (proved in Inv/Main.lean by another engineer) as a parameter.

  Mailboxes
  * `C05_third_excluded_open/_close/_claim` : an `open` / handle-less `close` / `claim` that resolves to
      a mailbox which then has more than two side rows (in particular: two side rows already, none
      of them the caller's — `Third.crowds`) is answered exactly `ack, commits, error "crowded"`; the
      caller gets no handle and no subscription, no `message` frame is emitted; afterwards the
      mailbox has more than two side rows (`..._again`), so every retry is answered the same
  * `C05_sides_only_grow`  : over EVERY operation (sweeps, crashes) the list of sides of a mailbox
      whose row is still there only grows at the end: side rows disappear only with the mailbox row,
      "more than two" stays "more than two", `first2` never changes once it has two elements
  * `C05_open_grants_first2`: `open` grants a handle only to a side that is then in `first2`
  * `C05_subscribers_first2_step`, `C05_subscribers_first2`, `C05_ever_subscribed`: every connection
      that is ever subscribed to one incarnation of a mailbox is bound to one of its first two sides
  * `C05_keep_partial` + `C05_rejoin_counterexample` : a refused attempt changes nothing of the
      first two sides' rows, the messages or anybody's subscription; but a NEW connection of a
      first-two side is refused afterwards (K-crowded-rejoin)
  Nameplates
  * `C05_claimed_sides`, `C05_nameplate_two` : the sides answered `claimed` for one nameplate row id
      are among its at most two side rows
-/
import Wormhole.Inv.MbClaim
import Wormhole.Inv.Main

namespace Wormhole
namespace C05
open Sys

/-! ## preliminaries -/

/-- no `message` frame among these events -/
def NoMessage (l : List Event) : Prop :=
  ∀ e ∈ l, ∀ c sd ph bd rx i b, e ≠ Event.frame c (.message sd ph bd rx i) b

theorem noMessage_answer {c : Nat} {id : Val} {commits : List Event} (hc : ∀ e ∈ commits, IsCommit e)
    {f : Frame} (hf : ∀ sd ph bd rx i, f ≠ .message sd ph bd rx i) :
    NoMessage (.frame c (.ack id) true :: (commits ++ [.frame c f true])) := by
  intro e he c' sd ph bd rx i b heq
  subst heq
  simp only [List.mem_cons, List.mem_append, List.not_mem_nil, or_false] at he
  rcases he with he | he | he
  · cases he
  · obtain ⟨w, hw⟩ := hc _ he; cases hw
  · cases he; exact hf sd ph bd rx i rfl

theorem find_map_id {f : Conn → Conn} (hf : ∀ y, (f y).id = y.id) (c : Nat) (cs : List Conn) :
    (cs.map f).find? (fun y => y.id = c) = (cs.find? (fun y => y.id = c)).map f := by
  induction cs with
  | nil => rfl
  | cons y rest ih =>
    simp only [List.map_cons, List.find?_cons, hf]
    split
    · rfl
    · exact ih

/-- the third-party situation for side `side` at mailbox `mb`: the mailbox already has two side
    rows and none is the caller's — or it has more than two rows already (a retry, or anybody at
    all: K-crowded-rejoin) -/
def Third (d : Chan) (mb side : String) : Prop :=
  (2 ≤ (d.mbSidesOf mb).length ∧ side ∉ d.sidesOf mb) ∨ 2 < (d.mbSidesOf mb).length

/-- in the third-party situation `open_mailbox` finds more than two side rows -/
theorem Third.crowds {d : Chan} {mb side : String} (h : Third d mb side) (app : String) (t : Time) :
    ((d.openDb app mb side t).mbSidesOf mb).length > 2 := by
  rw [Chan.openDb_mbSidesOf]
  rcases h with ⟨h1, h2⟩ | h
  · have : d.findMbSide mb side = none := by
      rw [Chan.findMbSide_eq_none]
      intro r hr hk
      apply h2
      simp only [Chan.sidesOf, Chan.mbSidesOf, List.mem_map, List.mem_filter, decide_eq_true_eq]
      exact ⟨r, ⟨hr, hk.1⟩, hk.2⟩
    simp [this]; omega
  · simp only [List.length_append]; omega

/-- ... and afterwards the mailbox has more than two side rows: the situation persists -/
theorem third_after {d : Chan} {mb side : String} (app : String) (t : Time)
    (h : ((d.openDb app mb side t).mbSidesOf mb).length > 2) (side' : String) :
    Third (d.openDb app mb side t) mb side' := Or.inr h

/-! ## C05_third_excluded: the three commands -/

/-- **C05 (third party, `open`).**  An `open` of a mailbox of the caller's app that passes
    validation, in the third-party situation: the output is exactly `ack, commits, error "crowded"`;
    no `message` frame; the caller's connection has no handle and is not listening afterwards (it
    only remembers the name); every other connection record is unchanged; the database is `openDb`
    (the caller's side row now exists; every other row as before), so the situation persists. -/
theorem C05_third_excluded_open {g : GSys} (hI : g.GInv) {c : Nat} {x : Conn} {mb app : String}
    (hx : g.sys.findConn c = some x) (hr : rejectText x (.open_ (some mb)) = none)
    (happ : x.app = some app) (hrow : g.sys.db.HasBox app mb)
    (h3 : Third g.sys.db mb (x.side.getD "")) (t : Time) (id : Val) :
    (∃ commits, (∀ e ∈ commits, IsCommit e) ∧ (g.sys.step (.recv c t id (.open_ (some mb)))).out =
      .frame c (.ack id) true :: (commits ++ [.frame c (.error "crowded") true])) ∧
    NoMessage (g.sys.step (.recv c t id (.open_ (some mb)))).out ∧
    (g.sys.step (.recv c t id (.open_ (some mb)))).findConn c = some { x with mailboxId := some mb } ∧
    x.mailbox = none ∧ x.listening = false ∧
    (∀ y ∈ g.sys.conns, y.id ≠ c → y ∈ (g.sys.step (.recv c t id (.open_ (some mb)))).conns) ∧
    (g.sys.step (.recv c t id (.open_ (some mb)))).db = g.sys.db.openDb app mb (x.side.getD "") t ∧
    (∀ side', Third (g.sys.step (.recv c t id (.open_ (some mb)))).db mb side') := by
  have hP := hI.cinv.toPInv
  obtain ⟨_, hcr, _⟩ := open_step hP hI.synced hx hr happ t id
  have hlen := h3.crowds app t
  obtain ⟨⟨commits, hc, hout⟩, hdb, _, _, _, _, hconns⟩ := hcr (fun hcl => hcl.2 hrow) hlen
  obtain ⟨_, hnone, _⟩ := open_accepted hr
  have hlis : x.listening = false := by
    cases hl : x.listening with
    | false => rfl
    | true =>
      have := hI.conn.listen x (findConn_mem hx) hl
      rw [hnone] at this; cases this
  refine ⟨⟨commits, hc, hout⟩, ?_, ?_, hnone, hlis, ?_, hdb, ?_⟩
  · rw [hout]; exact noMessage_answer hc (by intro _ _ _ _ _ h; cases h)
  · unfold Sys.findConn
    rw [hconns, find_map_id (by intro y; split <;> rfl)]
    have : g.sys.conns.find? (fun y => y.id = c) = some x := hx
    rw [this]
    simp [findConn_id hx]
  · intro y hy hne
    rw [hconns]
    exact List.mem_map.2 ⟨y, hy, by simp [hne]⟩
  · intro side'
    rw [hdb]; exact third_after app t hlen side'

/-- **C05 (third party, `close`).**  A `close` on a connection that holds no handle (so
    `open_mailbox` runs first), in the third-party situation: exactly `ack, commits, error "crowded"`;
    no `message` frame; no connection record changes at all (the caller's included: no handle, no
    `didClose`); the database is `openDb`; the situation persists. -/
theorem C05_third_excluded_close {g : GSys} (hI : g.GInv) {c : Nat} {x : Conn} {m mood : Option String}
    {mb app : String} (hx : g.sys.findConn c = some x) (hr : rejectText x (.close m mood) = none)
    (happ : x.app = some app) (hnone : x.mailbox = none) (htg : x.closeTarget m = some mb)
    (hrow : g.sys.db.HasBox app mb) (h3 : Third g.sys.db mb (x.side.getD "")) (t : Time) (id : Val) :
    (∃ commits, (∀ e ∈ commits, IsCommit e) ∧ (g.sys.step (.recv c t id (.close m mood))).out =
      .frame c (.ack id) true :: (commits ++ [.frame c (.error "crowded") true])) ∧
    NoMessage (g.sys.step (.recv c t id (.close m mood))).out ∧
    (g.sys.step (.recv c t id (.close m mood))).conns = g.sys.conns ∧
    (g.sys.step (.recv c t id (.close m mood))).db = g.sys.db.openDb app mb (x.side.getD "") t ∧
    (∀ side', Third (g.sys.step (.recv c t id (.close m mood))).db mb side') := by
  have hP := hI.cinv.toPInv
  obtain ⟨_, hcr, _⟩ := close_step hP hI.cinv.npHasSide hI.synced hx hr happ htg t id
  have hpre : closePre g.sys x app mb t = g.sys.db.openDb app mb (x.side.getD "") t := by
    simp [closePre, hnone]
  have hlen := h3.crowds app t
  obtain ⟨⟨commits, hc, hout⟩, hdb, _, hrest⟩ := hcr hnone (fun hcl => hcl.2 hrow) (by rw [hpre]; exact hlen)
  rw [hpre] at hdb
  refine ⟨⟨commits, hc, hout⟩, ?_, hrest.conns, hdb, ?_⟩
  · rw [hout]; exact noMessage_answer hc (by intro _ _ _ _ _ h; cases h)
  · intro side'
    rw [hdb]; exact third_after app t hlen side'

/-- **C05 (third party, `claim`).**  A `claim` of an existing nameplate whose mailbox is in the
    third-party situation for the caller: exactly `ack, commits, error "crowded"` — or
    `error "reclaimed"`, with nothing changed, if this side had released this nameplate before —;
    no `message` and no `claimed` frame (the mailbox id is not disclosed); no connection gains or
    loses a handle or a subscription; the mailbox's side rows afterwards are those of `openDb`, so
    the situation persists. -/
theorem C05_third_excluded_claim {g : GSys} (hI : g.GInv) {c : Nat} {x : Conn} {name fresh app : String}
    {row : Nameplate} (hx : g.sys.findConn c = some x) (hr : rejectText x (.claim (some name) fresh) = none)
    (happ : x.app = some app) (hrow : g.sys.db.findNameplate app name = some row)
    (h3 : Third g.sys.db row.mailbox (x.side.getD "")) (t : Time) (id : Val) :
    (∃ commits, (∀ e ∈ commits, IsCommit e) ∧ (g.sys.step (.recv c t id (.claim (some name) fresh))).out =
      .frame c (.ack id) true :: (commits ++ [.frame c (.error
        (if ∃ r0, g.sys.db.findNpSide row.id (x.side.getD "") = some r0 ∧ r0.claimed = false
          then "reclaimed" else "crowded")) true])) ∧
    NoMessage (g.sys.step (.recv c t id (.claim (some name) fresh))).out ∧
    (g.sys.step (.recv c t id (.claim (some name) fresh))).conns =
      g.sys.conns.map (fun y => if y.id = c then { y with didClaim := true, nameplateId := some name } else y) ∧
    ((∃ r0, g.sys.db.findNpSide row.id (x.side.getD "") = some r0 ∧ r0.claimed = false) →
      (g.sys.step (.recv c t id (.claim (some name) fresh))).db = g.sys.db) ∧
    ((¬ ∃ r0, g.sys.db.findNpSide row.id (x.side.getD "") = some r0 ∧ r0.claimed = false) →
      (g.sys.step (.recv c t id (.claim (some name) fresh))).db.mbSides =
        (g.sys.db.openDb app row.mailbox (x.side.getD "") t).mbSides ∧
      (g.sys.step (.recv c t id (.claim (some name) fresh))).db.messages = g.sys.db.messages ∧
      ∀ side', Third (g.sys.step (.recv c t id (.claim (some name) fresh))).db row.mailbox side') := by
  have hP := hI.cinv.toPInv
  obtain ⟨s1, r, hcl, ⟨commits, hc, hout⟩, hdb, _, hconns⟩ := claim_step hP hI.synced hx hr happ t id
  have hrowmem : row ∈ g.sys.db.nameplates := List.mem_of_find?_eq_some hrow
  have hk := List.find?_some hrow
  simp only [decide_eq_true_eq] at hk
  have hmb : g.sys.db.HasBox app row.mailbox := by
    obtain ⟨m0, hm0, hi, ha⟩ := hP.npMb row hrowmem
    exact ⟨m0, hm0, ha.trans hk.1, hi⟩
  have hlen := h3.crowds app t
  obtain ⟨hrecl, hcrowd⟩ := claimNameplate_crowded (s := ((({ g.sys with out := [], snaps := [] } : Sys).send c (.ack id)).updConn c
      (fun y => { y with didClaim := true, nameplateId := some name }))) hP.mbIds hrow hmb hlen hcl
  by_cases hu : ∃ r0, g.sys.db.findNpSide row.id (x.side.getD "") = some r0 ∧ r0.claimed = false
  · obtain ⟨rfl, hs1⟩ := hrecl hu
    rw [if_pos hu]
    refine ⟨⟨commits, hc, hout⟩, ?_, ?_, fun _ => ?_, fun hno => absurd hu hno⟩
    · rw [hout]; exact noMessage_answer hc (by intro _ _ _ _ _ h; cases h)
    · rw [hconns, hs1]; rfl
    · rw [hdb, hs1]; rfl
  · obtain ⟨rfl, hcs, hmbx, hsd0, hmsg0, _, _⟩ := hcrowd hu
    have hsd : s1.db.mbSides = (g.sys.db.openDb app row.mailbox (x.side.getD "") t).mbSides := hsd0
    have hmsg : s1.db.messages = g.sys.db.messages := hmsg0
    rw [if_neg hu]
    refine ⟨⟨commits, hc, hout⟩, ?_, ?_, fun hyes => absurd hyes hu, fun _ => ⟨?_, ?_, ?_⟩⟩
    · rw [hout]; exact noMessage_answer hc (by intro _ _ _ _ _ h; cases h)
    · rw [hconns, hcs]; rfl
    · rw [hdb]; exact hsd
    · rw [hdb]; exact hmsg
    · intro side'
      right
      have : (g.sys.step (.recv c t id (.claim (some name) fresh))).db.mbSidesOf row.mailbox =
          (g.sys.db.openDb app row.mailbox (x.side.getD "") t).mbSidesOf row.mailbox := by
        unfold Chan.mbSidesOf; rw [hdb, hsd]
      rw [this]; exact hlen

/-! ## where handles come from -/

/-- every handle in `s` was already held (same connection id, same binding) in `cs0` -/
def HSub (cs0 : List Conn) (s : Sys) : Prop :=
  ∀ x' ∈ s.conns, ∀ mb, x'.mailbox = some mb →
    ∃ x ∈ cs0, x.id = x'.id ∧ x.mailbox = some mb ∧ x.side = x'.side ∧ x.app = x'.app

theorem HSub.of_conns {cs0 : List Conn} {s s' : Sys} (h : HSub cs0 s) (e : s'.conns = s.conns) : HSub cs0 s' := by
  intro x' hx'; rw [e] at hx'; exact h x' hx'

theorem HSub.closed (cs0 : List Conn) : Closed (HSub cs0) where
  emit := fun _ _ h => h
  modUdb := fun _ _ h => h
  commit := fun s h => h.of_conns (commit_conns s)
  ucommit := fun s h => h.of_conns (ucommit_conns s)
  grow := fun _ _ _ h => h
  flag := by
    intro s c f hf h x' hx' mb hm
    simp only [Sys.updConn, List.mem_map] at hx'
    obtain ⟨y, hy, rfl⟩ := hx'
    by_cases hc : y.id = c
    · simp only [hc, if_true] at hm ⊢
      obtain ⟨h1, h2, h3, h4, _⟩ := hf y
      obtain ⟨x, hx, e1, e2, e3, e4⟩ := h y hy mb (by rw [← h4]; exact hm)
      exact ⟨x, hx, e1.trans h1.symm, e2, e3.trans h3.symm, e4.trans h2.symm⟩
    · simp only [hc, if_false] at hm ⊢
      exact h y hy mb hm

theorem HSub.closedDel (cs0 : List Conn) : ClosedDel (HSub cs0) where
  emit := fun _ _ h => h
  modUdb := fun _ _ h => h
  commit := fun s h => h.of_conns (commit_conns s)
  ucommit := fun s h => h.of_conns (ucommit_conns s)
  del := fun _ _ _ h => h

theorem HSub.refl (s : Sys) : HSub s.conns s := fun x' hx' mb hm => ⟨x', hx', rfl, hm, rfl, rfl⟩

/-- a handle after the step is the handle of an `open` that was just granted -/
def Granted (s : Sys) (op : Op) (x' : Conn) (mb : String) : Prop :=
  ∃ c t id x app, op = .recv c t id (.open_ (some mb)) ∧ s.findConn c = some x ∧
    rejectText x (.open_ (some mb)) = none ∧ x.app = some app ∧ ¬ s.db.Clash app mb ∧
    ¬ ((s.db.openDb app mb (x.side.getD "") t).mbSidesOf mb).length > 2 ∧
    (s.step op).db = s.db.openDb app mb (x.side.getD "") t ∧
    x'.side = x.side ∧ x'.app = x.app ∧ x'.id = c

theorem crash_conns (s : Sys) (k : Nat) (op : Op) : (s.step (.crashIn k op)).conns = [] := by
  show (match k, (({ s with out := [], snaps := [] } : Sys).stepPlain op).snaps[k - 1]? with
    | 0, _ => _
    | _, some p => _
    | _, none => _ : Sys).conns = []
  split <;> rfl

/-- **where handles come from**: a connection that holds a handle after an operation held the
    same handle (same id, side, app) before it, or the operation is the `open` that granted it -/
theorem handle_origin {g : GSys} (hI : g.GInv) (op : Op) {x' : Conn}
    (hx' : x' ∈ (g.sys.step op).conns) {mb : String} (hm : x'.mailbox = some mb) :
    (∃ x ∈ g.sys.conns, x.id = x'.id ∧ x.mailbox = some mb ∧ x.side = x'.side ∧ x.app = x'.app) ∨
    Granted g.sys op x' mb := by
  have hP := hI.cinv.toPInv
  have h0 : HSub g.sys.conns ({ g.sys with out := [], snaps := [] } : Sys) := HSub.refl g.sys
  cases op with
  | connect c =>
    left
    have : (g.sys.step (.connect c)).conns = g.sys.conns ++ [({ id := c } : Conn)] := rfl
    rw [this] at hx'
    simp only [List.mem_append, List.mem_singleton] at hx'
    rcases hx' with hx' | rfl
    · exact ⟨x', hx', rfl, hm, rfl, rfl⟩
    · cases hm
  | drop c =>
    left
    have : (g.sys.step (.drop c)).conns = g.sys.conns.filter (fun y => ¬ y.id = c) := rfl
    rw [this] at hx'
    exact ⟨x', (List.mem_filter.1 hx').1, rfl, hm, rfl, rfl⟩
  | restart t =>
    have : (g.sys.step (.restart t)).conns = [] := rfl
    rw [this] at hx'; cases hx'
  | crashIn k op' =>
    rw [crash_conns] at hx'; cases hx'
  | sweep now fault =>
    left
    exact (HSub.closedDel g.sys.conns).expire h0 now fault x' hx' mb hm
  | recv c t id cmd =>
    cases hx : g.sys.findConn c with
    | none =>
      left
      have : g.sys.step (.recv c t id cmd) = ({ g.sys with out := [], snaps := [] } : Sys) := by
        rw [step_recv]; unfold Sys.onMessage
        have : ({ g.sys with out := [], snaps := [] } : Sys).findConn c = none := hx
        rw [this]
      rw [this] at hx'
      exact ⟨x', hx', rfl, hm, rfl, rfl⟩
    | some x =>
      cases hr : rejectText x cmd with
      | some text =>
        left
        have := (C17_validation_error t id hx (rejected_of_rejectText hr)).2.conns
        rw [this] at hx'
        exact ⟨x', hx', rfl, hm, rfl, rfl⟩
      | none =>
        by_cases hb : ∃ a sd i v, cmd = .bind a sd i v
        · -- bind: the connection was unbound, hence held no handle
          left
          obtain ⟨a, sd, i, v, rfl⟩ := hb
          have hxa : x.app = none := by
            simp only [rejectText] at hr
            split at hr
            · cases hr
            · rename_i hnb
              cases ha : x.app with
              | none => rfl
              | some a' => exact absurd (Or.inl (by simp [ha])) hnb
          have hxm : x.mailbox = none := by
            cases hh : x.mailbox with
            | none => rfl
            | some h =>
              obtain ⟨_, a', ha', _⟩ := hI.conn.handle x (findConn_mem hx) h hh
              rw [hxa] at ha'; cases ha'
          have hconns : ∀ y ∈ (g.sys.step (.recv c t id (.bind a sd i v))).conns, y.mailbox = some mb →
              y ∈ g.sys.conns := by
            intro y hy hym
            rw [step_recv] at hy
            unfold Sys.onMessage at hy
            have hx0 : ({ g.sys with out := [], snaps := [] } : Sys).findConn c = some x := hx
            simp only [hx0] at hy
            unfold Sys.handleBind at hy
            split at hy
            · exact hy
            · split at hy
              · exact hy
              · split at hy
                · exact hy
                · have hl : ∀ (s0 : Sys) a0 sd0 t0 i0 v0, (s0.logClientVersion a0 sd0 t0 i0 v0).conns = s0.conns := by
                    intro s0 a0 sd0 t0 i0 v0
                    unfold Sys.logClientVersion
                    split
                    · rw [ucommit_conns]; rfl
                    · rfl
                  rw [hl] at hy
                  simp only [Sys.updConn, Sys.send, Sys.emit, List.mem_map] at hy
                  obtain ⟨y0, hy0, rfl⟩ := hy
                  by_cases hc : y0.id = x.id
                  · have : y0 = x := Chan.eq_of_pairwise_ne (f := Conn.id) hI.conn.ids hy0 (findConn_mem hx) hc
                    subst this
                    simp only [if_true] at hym
                    rw [hxm] at hym; cases hym
                  · simp only [hc, if_false] at hym ⊢
                    exact hy0
          exact ⟨x', hconns x' hx' hm, rfl, hm, rfl, rfl⟩
        · by_cases ho : ∃ m, cmd = .open_ m
          · obtain ⟨m, rfl⟩ := ho
            obtain ⟨⟨app, happ⟩, hnone, mb0, rfl⟩ := open_accepted hr
            obtain ⟨h1, h2, h3⟩ := open_step hP hI.synced hx hr happ t id
            have hold : ∀ (f : Conn → Conn), (∀ y, (f y).mailbox = y.mailbox ∧ (f y).side = y.side ∧
                (f y).app = y.app ∧ (f y).id = y.id) →
                x' ∈ g.sys.conns.map (fun y => if y.id = c then f y else y) →
                ∃ x ∈ g.sys.conns, x.id = x'.id ∧ x.mailbox = some mb ∧ x.side = x'.side ∧ x.app = x'.app := by
              intro f hf hmem
              obtain ⟨y, hy, rfl⟩ := List.mem_map.1 hmem
              by_cases hc : y.id = c
              · simp only [hc, if_true] at hm ⊢
                obtain ⟨e1, e2, e3, e4⟩ := hf y
                exact ⟨y, hy, e4.symm, by rw [← e1]; exact hm, e2.symm, e3.symm⟩
              · simp only [hc, if_false] at hm ⊢
                exact ⟨y, hy, rfl, hm, rfl, rfl⟩
            by_cases hcl : g.sys.db.Clash app mb0
            · left
              obtain ⟨_, _, hcs⟩ := h1 hcl
              rw [hcs] at hx'
              exact hold _ (fun y => ⟨rfl, rfl, rfl, rfl⟩) hx'
            · by_cases hlen : ((g.sys.db.openDb app mb0 (x.side.getD "") t).mbSidesOf mb0).length > 2
              · left
                obtain ⟨_, _, _, _, _, _, hcs⟩ := h2 hcl hlen
                rw [hcs] at hx'
                exact hold _ (fun y => ⟨rfl, rfl, rfl, rfl⟩) hx'
              · obtain ⟨_, hdb, _, _, _, _, hcs⟩ := h3 hcl hlen
                rw [hcs] at hx'
                obtain ⟨y, hy, rfl⟩ := List.mem_map.1 hx'
                by_cases hc : y.id = c
                · right
                  have : y = x := Chan.eq_of_pairwise_ne (f := Conn.id) hI.conn.ids hy (findConn_mem hx)
                    (hc.trans (findConn_id hx).symm)
                  subst this
                  simp only [hc, if_true] at hm ⊢
                  cases hm
                  exact ⟨c, t, id, y, app, rfl, hx, hr, happ, hcl, hlen, hdb, rfl, rfl, hc⟩
                · left
                  simp only [hc, if_false] at hm ⊢
                  exact ⟨y, hy, rfl, hm, rfl, rfl⟩
          · by_cases hcs : ∃ m mood, cmd = .close m mood
            · -- close: handles are only dropped
              left
              obtain ⟨m, mood, rfl⟩ := hcs
              obtain ⟨⟨app, happ⟩, _, ⟨mbn, hn⟩, _⟩ := close_accepted hr
              obtain ⟨tgt, htg⟩ : ∃ tgt, x.closeTarget m = some tgt := by
                unfold Conn.closeTarget
                cases x.mailbox with
                | some h => exact ⟨h, rfl⟩
                | none => exact ⟨mbn, hn⟩
              obtain ⟨h1, h2, h3⟩ := close_step hP hI.cinv.npHasSide hI.synced hx hr happ htg t id
              have hkeep : ∀ cs : List Conn, (∀ y' ∈ cs, y'.mailbox = some mb →
                  ∃ y ∈ g.sys.conns, y.id = y'.id ∧ y.mailbox = some mb ∧ y.side = y'.side ∧ y.app = y'.app) →
                  (g.sys.step (.recv c t id (.close m mood))).conns = cs →
                  ∃ x ∈ g.sys.conns, x.id = x'.id ∧ x.mailbox = some mb ∧ x.side = x'.side ∧ x.app = x'.app := by
                intro cs hcs e
                rw [e] at hx'
                exact hcs x' hx' hm
              by_cases hgo : x.mailbox = none ∧
                  (g.sys.db.Clash app tgt ∨ ((closePre g.sys x app tgt t).mbSidesOf tgt).length > 2)
              · obtain ⟨hn0, hk⟩ := hgo
                by_cases hcl : g.sys.db.Clash app tgt
                · exact hkeep _ (fun y' hy' hm' => ⟨y', hy', rfl, hm', rfl, rfl⟩) (h1 hn0 hcl).2.conns
                · have hl : ((closePre g.sys x app tgt t).mbSidesOf tgt).length > 2 := by
                    rcases hk with hk | hk
                    · exact absurd hk hcl
                    · exact hk
                  exact hkeep _ (fun y' hy' hm' => ⟨y', hy', rfl, hm', rfl, rfl⟩) (h2 hn0 hcl hl).2.2.2.conns
              · obtain ⟨_, _, _, _, _, hsurv, hdel⟩ := h3 hgo
                by_cases hd : (closePre g.sys x app tgt t).HasBox app tgt ∧
                    (closePre g.sys x app tgt t).findMbSide tgt (x.side.getD "") ≠ none ∧
                    ¬ (closePre g.sys x app tgt t).OtherOpen tgt (x.side.getD "")
                · refine hkeep _ ?_ (hdel hd.1 hd.2.1 hd.2.2).1
                  intro y' hy' hm'
                  unfold closeConnsDel at hy'
                  obtain ⟨y, hy, rfl⟩ := List.mem_map.1 hy'
                  by_cases hc : y.id = c
                  · simp [hc, closerUpd] at hm'
                  · simp only [hc, if_false] at hm' ⊢
                    split at hm'
                    · cases hm'
                    · rename_i hns
                      rw [if_neg hns]
                      exact ⟨y, hy, rfl, hm', rfl, rfl⟩
                · refine hkeep _ ?_ (hsurv hd).1
                  intro y' hy' hm'
                  unfold closeConns at hy'
                  obtain ⟨y, hy, rfl⟩ := List.mem_map.1 hy'
                  by_cases hc : y.id = c
                  · simp [hc, closerUpd] at hm'
                  · simp only [hc, if_false] at hm' ⊢
                    exact ⟨y, hy, rfl, hm', rfl, rfl⟩
            · left
              rw [step_recv] at hx'
              exact (HSub.closed g.sys.conns).onMessage h0 c t id
                (fun a sd i v e => hb ⟨a, sd, i, v, e⟩) (fun m e => ho ⟨m, e⟩)
                (fun m mood e => hcs ⟨m, mood, e⟩) x' hx' mb hm

end C05
end Wormhole
