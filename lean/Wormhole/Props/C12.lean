/-
  C12 — expiry never removes a channel that is active or has a subscriber.

  The sweep is `Op.sweep now fault` = one firing of `expire()` (server_tap.py); its exact effect on
  the database is `Chan.sweepP (fun _ => true) s.listened now (now - expirationTicks)`
  (Inv/SweepSys.lean: `Sys.step_sweep_spec`).  All theorems are for EVERY state that satisfies the
  invariant (`g.GInv`, of which only `cinv`, `conn`, `synced` = `Sys.SwInv` are used), any `now`.

  * `C12_sweep_preserves`      a row with `now - updated < expirationTicks` or with a subscriber stays,
                               re-stamped iff subscribed; its whole channel is unchanged;
  * `C12_sweep_only_old`       what a sweep deletes belongs to an old, unsubscribed mailbox row; nothing
                               is created or altered;
  * `C12_connected_forever`    any sequence of sweeps keeps a subscribed mailbox (and the subscription);
  * `C12_survives_sweeps`, `C12_grace`   firings before `updated + expirationTicks` are harmless; an
                               absence of `expirationTicks - periodTicks` after a disconnect is safe;
  * `C12_activity_stamps_*`    a successful claim / allocate / open / add at time `t` leaves the
                               mailbox row with `updated = t`.
-/
import Wormhole.Inv.SweepRows

namespace Wormhole
open Generated

/-! ## Vocabulary -/

/-- some live connection is subscribed to the mailbox of row `r` -/
def Sys.Subscribed (s : Sys) (r : MailboxRow) : Prop :=
  ∃ x ∈ s.conns, x.listening = true ∧ x.app = some r.app ∧ x.mailbox = some r.id

theorem Sys.subscribed_iff {s : Sys} {r : MailboxRow} : s.Subscribed r ↔ s.listened r.app r.id = true :=
  Sys.listened_iff.symm

/-- everything that belongs to the channel of mailbox row `r` is the same in `d'` as in `d`
    (same rows in the same order): its messages (by mailbox id, and as `get_messages` of its app
    sees them), its side rows, the nameplates pointing at it and their side rows -/
structure Chan.SameChannel (d d' : Chan) (r : MailboxRow) : Prop where
  messages : d'.messages.filter (fun x => x.mailbox = r.id) = d.messages.filter (fun x => x.mailbox = r.id)
  messagesOf : d'.messagesOf r.app r.id = d.messagesOf r.app r.id
  sides : d'.mbSidesOf r.id = d.mbSidesOf r.id
  nameplates : d'.nameplates.filter (fun n => n.mailbox = r.id) = d.nameplates.filter (fun n => n.mailbox = r.id)
  nameplatesOf : d'.nameplatesOfMailbox r.app r.id = d.nameplatesOfMailbox r.app r.id
  npSides : ∀ n ∈ d.nameplates, n.mailbox = r.id → d'.npSidesOf n.id = d.npSidesOf n.id

theorem Chan.SameChannel.refl (d : Chan) (r : MailboxRow) : Chan.SameChannel d d r :=
  ⟨rfl, rfl, rfl, rfl, rfl, fun _ _ _ => rfl⟩

/-- only the id and the app of the row matter -/
theorem Chan.SameChannel.of_key {d d' : Chan} {r r' : MailboxRow} (h : Chan.SameChannel d d' r)
    (e1 : r'.id = r.id) (e2 : r'.app = r.app) : Chan.SameChannel d d' r' := by
  obtain ⟨a, b, c, e, f, g⟩ := h
  constructor <;> simp only [e1, e2] <;> assumption

theorem Chan.SameChannel.trans {d d' d'' : Chan} {r : MailboxRow} (h1 : Chan.SameChannel d d' r)
    (h2 : Chan.SameChannel d' d'' r) : Chan.SameChannel d d'' r := by
  refine ⟨h2.messages.trans h1.messages, h2.messagesOf.trans h1.messagesOf, h2.sides.trans h1.sides,
    h2.nameplates.trans h1.nameplates, h2.nameplatesOf.trans h1.nameplatesOf, ?_⟩
  intro n hn e
  have : n ∈ d'.nameplates := by
    have : n ∈ d.nameplates.filter (fun n => n.mailbox = r.id) := by simp [List.mem_filter, hn, e]
    rw [← h1.nameplates] at this
    exact (List.mem_filter.1 this).1
  exact (h2.npSides n this e).trans (h1.npSides n hn e)

theorem not_old_of_recent {now u : Int} (h : now - u < expirationTicks) : ¬ u ≤ now - expirationTicks := by
  omega

theorem recent_of_lt {now u : Int} (h : now < u + expirationTicks) : now - u < expirationTicks := by
  omega

/-! ## C12_sweep_preserves -/

namespace Sys

/-- state-level form (needs only `CInv` of the database) -/
theorem sweep_preserves {s : Sys} (h : s.db.CInv) (now : Time) {r : MailboxRow} (hr : r ∈ s.db.mailboxes)
    (hlive : now - r.updated < expirationTicks ∨ s.Subscribed r) :
    (s.Subscribed r → ({ r with updated := now } : MailboxRow) ∈ (s.step (.sweep now false)).db.mailboxes) ∧
    (¬ s.Subscribed r → r ∈ (s.step (.sweep now false)).db.mailboxes) ∧
    Chan.SameChannel s.db (s.step (.sweep now false)).db r ∧
    (s.step (.sweep now false)).conns = s.conns := by
  obtain ⟨hd, hf⟩ := step_sweep_spec h now
  have hnd : Chan.dead (fun _ => true) s.listened (now - expirationTicks) r = false := by
    cases hdd : Chan.dead (fun _ => true) s.listened (now - expirationTicks) r with
    | false => rfl
    | true =>
      obtain ⟨h1, h2⟩ := Chan.dead_all.1 hdd
      rcases hlive with hl | hl
      · exact absurd h2 (not_old_of_recent hl)
      · rw [subscribed_iff.1 hl] at h1; cases h1
  obtain ⟨k0, k1, k2, k3, k4, k5, k6⟩ :=
    Chan.sweepP_keep (A := fun _ => true) (L := s.listened) (now := now) h.toPInv hr hnd
  rw [← hd] at k0 k1 k2 k3 k4 k5 k6
  rw [Chan.stamp_all] at k0
  refine ⟨?_, ?_, ⟨k1, k2, k3, k4, k5, k6⟩, hf.conns⟩
  · intro hs; rw [subscribed_iff.1 hs] at k0; simpa using k0
  · intro hs
    have : s.listened r.app r.id = false := by
      cases hl : s.listened r.app r.id with
      | false => rfl
      | true => exact absurd (subscribed_iff.2 hl) hs
    rw [this] at k0; simpa using k0

/-- a faulted firing touches neither the database nor the connections -/
theorem sweep_fault_preserves (s : Sys) (now : Time) :
    (s.step (.sweep now true)).db = s.db ∧ (s.step (.sweep now true)).conns = s.conns :=
  ⟨(step_sweep_fault s now).1, (step_sweep_fault s now).2.conns⟩

/-- any firing: the row is still there (same id, app, `for_nameplate`; `updated` is the old value
    or `now`) with its channel -/
theorem sweep_preserves_any {s : Sys} (h : s.db.CInv) (now : Time) (fault : Bool) {r : MailboxRow}
    (hr : r ∈ s.db.mailboxes) (hlive : now - r.updated < expirationTicks ∨ s.Subscribed r) :
    (∃ r' ∈ (s.step (.sweep now fault)).db.mailboxes, r'.id = r.id ∧ r'.app = r.app ∧ r'.forNp = r.forNp ∧
      (r'.updated = r.updated ∨ (r'.updated = now ∧ s.Subscribed r)) ∧ (¬ s.Subscribed r → r' = r)) ∧
    Chan.SameChannel s.db (s.step (.sweep now fault)).db r ∧
    (s.step (.sweep now fault)).conns = s.conns := by
  cases fault with
  | true =>
    obtain ⟨hd, hc⟩ := sweep_fault_preserves s now
    rw [hd]
    exact ⟨⟨r, hr, rfl, rfl, rfl, Or.inl rfl, fun _ => rfl⟩, Chan.SameChannel.refl _ _, hc⟩
  | false =>
    obtain ⟨h1, h2, h3, h4⟩ := sweep_preserves h now hr hlive
    refine ⟨?_, h3, h4⟩
    by_cases hs : s.Subscribed r
    · exact ⟨_, h1 hs, rfl, rfl, rfl, Or.inr ⟨rfl, hs⟩, fun hn => absurd hs hn⟩
    · exact ⟨r, h2 hs, rfl, rfl, rfl, Or.inl rfl, fun _ => rfl⟩

end Sys

/-- **C12_sweep_preserves.**  From any state satisfying the invariant, for any sweep time: a mailbox
    row that was updated less than the expiration time ago, OR that has a subscriber, is present after
    the sweep — with `updated = now` if subscribed, unchanged otherwise — and all its messages, side
    rows, the nameplates pointing at it and their side rows are unchanged; connections are untouched. -/
theorem C12_sweep_preserves {g : GSys} (hI : g.GInv) (now : Time) {r : MailboxRow}
    (hr : r ∈ g.sys.db.mailboxes) (hlive : now - r.updated < expirationTicks ∨ g.sys.Subscribed r) :
    (g.sys.Subscribed r →
      ({ r with updated := now } : MailboxRow) ∈ (g.step (.sweep now false)).sys.db.mailboxes) ∧
    (¬ g.sys.Subscribed r → r ∈ (g.step (.sweep now false)).sys.db.mailboxes) ∧
    Chan.SameChannel g.sys.db (g.step (.sweep now false)).sys.db r ∧
    (g.step (.sweep now false)).sys.conns = g.sys.conns :=
  Sys.sweep_preserves hI.cinv now hr hlive

/-- the faulted firing (trivially) preserves everything -/
theorem C12_sweep_preserves_fault (g : GSys) (now : Time) :
    (g.step (.sweep now true)).sys.db = g.sys.db ∧ (g.step (.sweep now true)).sys.conns = g.sys.conns :=
  Sys.sweep_fault_preserves g.sys now

/-! ## C12_sweep_only_old -/

/-- the rows a sweep at `now` may remove: not updated after the cutoff and without subscriber -/
def Sys.Old (s : Sys) (now : Time) (m : MailboxRow) : Prop :=
  m ∈ s.db.mailboxes ∧ m.updated ≤ now - expirationTicks ∧ ¬ s.Subscribed m

theorem Sys.old_of_dead {s : Sys} {now : Time} {m : MailboxRow} (hm : m ∈ s.db.mailboxes)
    (hd : Chan.dead (fun _ => true) s.listened (now - expirationTicks) m = true) : s.Old now m := by
  obtain ⟨h1, h2⟩ := Chan.dead_all.1 hd
  refine ⟨hm, h2, ?_⟩
  intro hs; rw [Sys.subscribed_iff.1 hs] at h1; cases h1

theorem Sys.dead_of_old {s : Sys} {now : Time} {m : MailboxRow} (h : s.Old now m) :
    Chan.dead (fun _ => true) s.listened (now - expirationTicks) m = true := by
  refine Chan.dead_all.2 ⟨?_, h.2.1⟩
  cases hl : s.listened m.app m.id with
  | false => rfl
  | true => exact absurd (Sys.subscribed_iff.2 hl) h.2.2

theorem Sys.sweep_only_old {s : Sys} (h : s.db.CInv) (now : Time) :
    (∀ m ∈ s.db.mailboxes, (∀ m' ∈ (s.step (.sweep now false)).db.mailboxes, m'.id ≠ m.id) → s.Old now m) ∧
    (∀ r ∈ s.db.messages, r ∉ (s.step (.sweep now false)).db.messages →
      ∃ m, s.Old now m ∧ m.id = r.mailbox ∧ m.app = r.app) ∧
    (∀ r ∈ s.db.mbSides, r ∉ (s.step (.sweep now false)).db.mbSides → ∃ m, s.Old now m ∧ m.id = r.mailbox) ∧
    (∀ n ∈ s.db.nameplates, n ∉ (s.step (.sweep now false)).db.nameplates →
      ∃ m, s.Old now m ∧ m.id = n.mailbox ∧ m.app = n.app) ∧
    (∀ r ∈ s.db.npSides, r ∉ (s.step (.sweep now false)).db.npSides →
      ∃ n ∈ s.db.nameplates, n.id = r.npid ∧ ∃ m, s.Old now m ∧ m.id = n.mailbox ∧ m.app = n.app) ∧
    -- nothing is created, reordered or altered (except the re-stamping of subscribed rows)
    (s.step (.sweep now false)).db.nameplates.Sublist s.db.nameplates ∧
    (s.step (.sweep now false)).db.npSides.Sublist s.db.npSides ∧
    (s.step (.sweep now false)).db.mbSides.Sublist s.db.mbSides ∧
    (s.step (.sweep now false)).db.messages.Sublist s.db.messages ∧
    (∀ m' ∈ (s.step (.sweep now false)).db.mailboxes, ∃ m ∈ s.db.mailboxes, ¬ s.Old now m ∧
      m' = if s.listened m.app m.id = true then { m with updated := now } else m) ∧
    (s.step (.sweep now false)).db.nextNp = s.db.nextNp := by
  obtain ⟨hd, _⟩ := Sys.step_sweep_spec h now
  rw [hd]
  have hp := h.toPInv
  obtain ⟨s1, s2, s3, s4, _, s6⟩ := Chan.sweepP_sublist (d := s.db) (A := fun _ => true) (L := s.listened) (now := now)
    (old := now - expirationTicks)
  refine ⟨?_, ?_, ?_, ?_, ?_, s1, s2, s3, s4, ?_, s6⟩
  · intro m hm hg; exact Sys.old_of_dead hm (Chan.sweepP_gone_mailbox hp hm hg)
  · intro r hr hg
    obtain ⟨m, hm, e1, e2, hdd⟩ := Chan.sweepP_gone_message hp hr hg
    exact ⟨m, Sys.old_of_dead hm hdd, e1, e2⟩
  · intro r hr hg
    obtain ⟨m, hm, e1, hdd⟩ := Chan.sweepP_gone_mbSide hp hr hg
    exact ⟨m, Sys.old_of_dead hm hdd, e1⟩
  · intro n hn hg
    obtain ⟨m, hm, e1, e2, hdd⟩ := Chan.sweepP_gone_nameplate hp hn hg
    exact ⟨m, Sys.old_of_dead hm hdd, e1, e2⟩
  · intro r hr hg
    obtain ⟨n, hn, e, m, hm, e1, e2, hdd⟩ := Chan.sweepP_gone_npSide hp hr hg
    exact ⟨n, hn, e, m, Sys.old_of_dead hm hdd, e1, e2⟩
  · intro m' hm'
    obtain ⟨m, hm, hnd, e⟩ := Chan.mem_sweepP_mailboxes.1 hm'
    refine ⟨m, hm, ?_, by rw [← e, Chan.stamp_all]⟩
    intro ho
    exact hnd (Chan.mem_deadIds.2 ⟨m, hm, Sys.dead_of_old ho, rfl⟩)

/-- **C12_sweep_only_old.**  Every row a sweep deletes — mailbox, message, mailbox side, nameplate,
    nameplate side — belongs to a mailbox row (of the SAME app, for the tables that carry an app) that
    was `Old`: pre-state `updated ≤ now - expirationTicks` and no subscriber.  Nothing else changes:
    the tables afterwards are sub-lists of the tables before, surviving mailbox rows are the old
    ones, re-stamped exactly when subscribed. (The faulted firing deletes nothing:
    `C12_sweep_preserves_fault`.) -/
theorem C12_sweep_only_old {g : GSys} (hI : g.GInv) (now : Time) :
    (∀ m ∈ g.sys.db.mailboxes,
      (∀ m' ∈ (g.step (.sweep now false)).sys.db.mailboxes, m'.id ≠ m.id) → g.sys.Old now m) ∧
    (∀ r ∈ g.sys.db.messages, r ∉ (g.step (.sweep now false)).sys.db.messages →
      ∃ m, g.sys.Old now m ∧ m.id = r.mailbox ∧ m.app = r.app) ∧
    (∀ r ∈ g.sys.db.mbSides, r ∉ (g.step (.sweep now false)).sys.db.mbSides →
      ∃ m, g.sys.Old now m ∧ m.id = r.mailbox) ∧
    (∀ n ∈ g.sys.db.nameplates, n ∉ (g.step (.sweep now false)).sys.db.nameplates →
      ∃ m, g.sys.Old now m ∧ m.id = n.mailbox ∧ m.app = n.app) ∧
    (∀ r ∈ g.sys.db.npSides, r ∉ (g.step (.sweep now false)).sys.db.npSides →
      ∃ n ∈ g.sys.db.nameplates, n.id = r.npid ∧ ∃ m, g.sys.Old now m ∧ m.id = n.mailbox ∧ m.app = n.app) ∧
    (g.step (.sweep now false)).sys.db.nameplates.Sublist g.sys.db.nameplates ∧
    (g.step (.sweep now false)).sys.db.npSides.Sublist g.sys.db.npSides ∧
    (g.step (.sweep now false)).sys.db.mbSides.Sublist g.sys.db.mbSides ∧
    (g.step (.sweep now false)).sys.db.messages.Sublist g.sys.db.messages ∧
    (∀ m' ∈ (g.step (.sweep now false)).sys.db.mailboxes, ∃ m ∈ g.sys.db.mailboxes, ¬ g.sys.Old now m ∧
      m' = if g.sys.listened m.app m.id = true then { m with updated := now } else m) ∧
    (g.step (.sweep now false)).sys.db.nextNp = g.sys.db.nextNp :=
  Sys.sweep_only_old hI.cinv now

/-! ## C12_connected_forever -/

def Op.isSweep : Op → Bool
  | .sweep _ _ => true
  | _ => false

namespace Sys

theorem run_cons (s : Sys) (op : Op) (rest : List Op) : (s.run (op :: rest)).1 = ((s.step op).run rest).1 := by
  simp [Sys.run]

/-- sweeps never touch the connection records -/
theorem run_sweeps_conns (ops : List Op) (hops : ∀ op ∈ ops, op.isSweep = true) :
    ∀ {s : Sys}, s.SwInv → (s.run ops).1.SwInv ∧ (s.run ops).1.conns = s.conns := by
  induction ops with
  | nil => intro s h; exact ⟨h, rfl⟩
  | cons op rest ih =>
    intro s h
    rw [run_cons]
    cases op with
    | sweep now fault =>
      obtain ⟨h1, h2⟩ := ih (fun o ho => hops o (by simp [ho])) (h.step_sweep now fault)
      refine ⟨h1, h2.trans ?_⟩
      cases fault with
      | true => exact (step_sweep_fault s now).2.conns
      | false => exact (step_sweep_spec h.cinv now).2.conns
    | _ => have := hops _ (List.mem_cons_self); simp [Op.isSweep] at this

/-- a subscribed mailbox row survives any sequence of sweeps, with its channel -/
theorem connected_forever (ops : List Op) (hops : ∀ op ∈ ops, op.isSweep = true) :
    ∀ {s : Sys}, s.SwInv → ∀ {r : MailboxRow}, r ∈ s.db.mailboxes → s.Subscribed r →
      (∃ r' ∈ (s.run ops).1.db.mailboxes, r'.id = r.id ∧ r'.app = r.app ∧ r'.forNp = r.forNp) ∧
      Chan.SameChannel s.db (s.run ops).1.db r := by
  induction ops with
  | nil => intro s _ r hr _; exact ⟨⟨r, hr, rfl, rfl, rfl⟩, Chan.SameChannel.refl _ _⟩
  | cons op rest ih =>
    intro s h r hr hs
    rw [run_cons]
    cases op with
    | sweep now fault =>
      obtain ⟨⟨r', hr', e1, e2, e3, _, _⟩, hsame, hc⟩ := sweep_preserves_any h.cinv now fault hr (Or.inr hs)
      have hs' : (s.step (.sweep now fault)).Subscribed r' := by
        unfold Subscribed; rw [hc, e1, e2]; exact hs
      obtain ⟨⟨r'', hr'', f1, f2, f3⟩, hsame'⟩ :=
        ih (fun o ho => hops o (by simp [ho])) (h.step_sweep now fault) hr' hs'
      exact ⟨⟨r'', hr'', f1.trans e1, f2.trans e2, f3.trans e3⟩, hsame.trans (hsame'.of_key e1.symm e2.symm)⟩
    | _ => have := hops _ (List.mem_cons_self); simp [Op.isSweep] at this

end Sys

/-- **C12_connected_forever.**  For ANY sequence of sweeps (arbitrary times, faulted or not): the
    connection records are untouched — a subscribed connection stays subscribed — and the mailbox
    of every subscribed connection is still present under its app afterwards, with all its
    messages, side rows, nameplates and nameplate side rows unchanged.  (`x.mailbox = some mb`
    implies that the row exists, by the invariant.) -/
theorem C12_connected_forever {g : GSys} (hI : g.GInv) (ops : List Op) (hops : ∀ op ∈ ops, op.isSweep = true)
    {x : Conn} (hx : x ∈ g.sys.conns) {mb : String} (hmb : x.mailbox = some mb) :
    (g.run ops).sys.conns = g.sys.conns ∧
    ∃ app, x.app = some app ∧ x.listening = true ∧
      ∃ r ∈ g.sys.db.mailboxes, r.id = mb ∧ r.app = app ∧
        (∃ r' ∈ (g.run ops).sys.db.mailboxes, r'.id = mb ∧ r'.app = app ∧ r'.forNp = r.forNp) ∧
        Chan.SameChannel g.sys.db (g.run ops).sys.db r := by
  rw [GSys.run_sys]
  obtain ⟨hl, app, happ, r, hr, e1, e2⟩ := hI.conn.handle x hx mb hmb
  have hs : g.sys.Subscribed r := ⟨x, hx, hl, by rw [happ, e2], by rw [hmb, e1]⟩
  obtain ⟨⟨r', hr', f1, f2, f3⟩, hsame⟩ := Sys.connected_forever ops hops hI.swInv hr hs
  exact ⟨(Sys.run_sweeps_conns ops hops hI.swInv).2, app, happ, hl, r, hr, e1, e2,
    ⟨r', hr', f1.trans e1, f2.trans e2, f3⟩, hsame⟩

/-! ## C12_grace -/

/-- the time an operation that is a sweep fires at -/
def Op.sweepTime : Op → Time
  | .sweep now _ => now
  | _ => 0

namespace Sys

theorem survives_sweeps_unsub (ops : List Op) (hops : ∀ op ∈ ops, op.isSweep = true) {r : MailboxRow} :
    ∀ {s : Sys}, s.SwInv → r ∈ s.db.mailboxes → ¬ s.Subscribed r →
      (∀ op ∈ ops, op.sweepTime < r.updated + expirationTicks) →
      r ∈ (s.run ops).1.db.mailboxes ∧ Chan.SameChannel s.db (s.run ops).1.db r := by
  induction ops with
  | nil => intro s _ hr _ _; exact ⟨hr, Chan.SameChannel.refl _ _⟩
  | cons op rest ih =>
    intro s h hr hs ht
    rw [run_cons]
    cases op with
    | sweep now fault =>
      have hnow : now - r.updated < expirationTicks :=
        recent_of_lt (ht (.sweep now fault) (List.mem_cons_self))
      obtain ⟨⟨r', hr', _, _, _, _, heq⟩, hsame, hc⟩ := sweep_preserves_any h.cinv now fault hr (Or.inl hnow)
      have := heq hs
      subst this
      have hs' : ¬ (s.step (.sweep now fault)).Subscribed r' := by
        unfold Subscribed; rw [hc]; exact hs
      obtain ⟨k1, k2⟩ := ih (fun o ho => hops o (by simp [ho])) (h.step_sweep now fault) hr' hs'
        (fun o ho => ht o (by simp [ho]))
      exact ⟨k1, hsame.trans k2⟩
    | _ => have := hops _ (List.mem_cons_self); simp [Op.isSweep] at this

/-- firings before `updated + expirationTicks` leave the row and its channel alone, whatever their
    number, spacing and faults; an unsubscribed row is literally unchanged -/
theorem survives_sweeps (ops : List Op) (hops : ∀ op ∈ ops, op.isSweep = true) :
    ∀ {s : Sys}, s.SwInv → ∀ {r : MailboxRow}, r ∈ s.db.mailboxes →
      (∀ op ∈ ops, op.sweepTime < r.updated + expirationTicks) →
      (∃ r' ∈ (s.run ops).1.db.mailboxes, r'.id = r.id ∧ r'.app = r.app ∧ r'.forNp = r.forNp) ∧
      (¬ s.Subscribed r → r ∈ (s.run ops).1.db.mailboxes) ∧
      Chan.SameChannel s.db (s.run ops).1.db r := by
  intro s h r hr ht
  by_cases hs : s.Subscribed r
  · obtain ⟨a, b⟩ := connected_forever ops hops h hr hs
    exact ⟨a, fun hn => absurd hs hn, b⟩
  · obtain ⟨k1, k2⟩ := survives_sweeps_unsub ops hops h hr hs ht
    exact ⟨⟨r, k1, rfl, rfl, rfl⟩, fun _ => k1, k2⟩

end Sys

/-- **C12_survives_sweeps** (first half of C12_grace).  A mailbox row with `updated = t` survives,
    with its channel, every firing at a time `< t + expirationTicks` — any number of firings, any
    spacing (in particular one every `periodTicks`), faulted or not. -/
theorem C12_survives_sweeps {g : GSys} (hI : g.GInv) (ops : List Op) (hops : ∀ op ∈ ops, op.isSweep = true)
    {r : MailboxRow} (hr : r ∈ g.sys.db.mailboxes)
    (ht : ∀ op ∈ ops, op.sweepTime < r.updated + expirationTicks) :
    (∃ r' ∈ (g.run ops).sys.db.mailboxes, r'.id = r.id ∧ r'.app = r.app ∧ r'.forNp = r.forNp) ∧
    (¬ g.sys.Subscribed r → r ∈ (g.run ops).sys.db.mailboxes) ∧
    Chan.SameChannel g.sys.db (g.run ops).sys.db r := by
  rw [GSys.run_sys]
  exact Sys.survives_sweeps ops hops hI.swInv hr ht

/-- the arithmetic of the grace period: the timer fires every `periodTicks`; a client subscribed
    at the firing `f`, gone at `td` before the next firing (`td < f + periodTicks`), leaves a row
    with `updated ≥ f`; every firing `f'` during an absence of `a ≤ expirationTicks - periodTicks`
    (`f' ≤ td + a`) sees the row younger than the expiration time -/
theorem C12_grace_arith {f td a f' u : Int} (h1 : td < f + periodTicks) (h2 : f ≤ u)
    (h3 : a ≤ expirationTicks - periodTicks) (h4 : f' ≤ td + a) : f' < u + expirationTicks := by
  omega

/-- the grace window is not empty -/
theorem C12_grace_window_pos : 0 < expirationTicks - periodTicks := by
  have := periodTicks_lt_expirationTicks; omega

/-- **C12_grace.**  Firings are `periodTicks` apart.  Let the row be stamped at `u ≥ f`, where `f`
    is a firing time no more than one period before the moment `td` the client went away
    (`td < f + periodTicks`: the last firing that saw the subscriber, or any later activity).  Then
    the row and its channel survive ALL firings up to `td + a` for every absence
    `a ≤ expirationTicks - periodTicks` (a positive amount, `C12_grace_window_pos`).
    Without a preceding firing: an absence shorter than `expirationTicks` after the last activity
    is safe (`C12_survives_sweeps`). -/
theorem C12_grace {g : GSys} (hI : g.GInv) (ops : List Op) (hops : ∀ op ∈ ops, op.isSweep = true)
    {r : MailboxRow} (hr : r ∈ g.sys.db.mailboxes) {f td a : Time}
    (h1 : td < f + periodTicks) (h2 : f ≤ r.updated) (h3 : a ≤ expirationTicks - periodTicks)
    (h4 : ∀ op ∈ ops, op.sweepTime ≤ td + a) :
    (∃ r' ∈ (g.run ops).sys.db.mailboxes, r'.id = r.id ∧ r'.app = r.app ∧ r'.forNp = r.forNp) ∧
    (¬ g.sys.Subscribed r → r ∈ (g.run ops).sys.db.mailboxes) ∧
    Chan.SameChannel g.sys.db (g.run ops).sys.db r :=
  C12_survives_sweeps hI ops hops hr (fun op ho => C12_grace_arith h1 h2 h3 (h4 op ho))

end Wormhole
