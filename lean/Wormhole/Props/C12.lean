/-
  C12 — expiry never removes a channel that is active or has a subscriber.

  The sweep is `Op.sweep now fault` = one firing of `expire()` (server_tap.py); its exact effect on
  the database is `Chan.sweepP (fun _ => true) s.listened now (now - expirationTicks)`
  (Inv/SweepSys.lean: `Sys.step_sweep_spec`; one `prune`: `Sys.prune_sweepP`).  All theorems are for
  EVERY state that satisfies the invariant (`g.GInv`, of which the sweep theorems use only `cinv`,
  `conn`, `synced` = `Sys.SwInv`), any `now`, no bounds.

  * `C12_sweep_preserves`      a row with `now - updated < expirationTicks` or with a subscriber stays,
                               re-stamped iff subscribed; its whole channel is unchanged;
  * `C12_sweep_only_old`       what a sweep deletes belongs to an old, unsubscribed mailbox row of the same
                               app; nothing is created or altered; `C12_prune_other_apps`: one `prune`
                               touches no row of another app;
  * `C12_connected_forever`    any sequence of sweeps keeps a subscribed mailbox (and the subscription);
    `C12_connected_step`, `C12_connected_mixed`, `C12_connected_close_other`: the same with arbitrary
                               other traffic in between (everything except the subscriber's drop, a
                               `close`, a restart, a crash); a `close` on another connection either
                               leaves it intact or deleted the mailbox;
  * `C12_survives_sweeps`, `C12_grace`   firings before `updated + expirationTicks` are harmless; an
                               absence of `expirationTicks - periodTicks` after a disconnect is safe;
  * `C12_activity_stamps_*`    a successful claim / allocate / open / add at time `t` leaves the
                               mailbox row with `updated = t`;
  * `C12_updated_mono`, `C12_updated_lower_bound`, `C12_activity_survives`   no operation (crashes
                               included) ever lowers `updated` of a mailbox id; hence no sweep within
                               the expiration time after the last activity removes the channel,
                               whatever happens in between.
-/
import Wormhole.Inv.SweepGInv
import Wormhole.Inv.SweepStamp
import Wormhole.Inv.SweepKeep
import Wormhole.Inv.SweepMono
import Wormhole.Inv.WFDec

namespace Wormhole
open Generated

/-! ## Vocabulary -/

/-- some live connection is subscribed to the mailbox of row `r` -/
def Sys.Subscribed (s : Sys) (r : MailboxRow) : Prop :=
  ∃ x ∈ s.conns, x.listening = true ∧ x.app = some r.app ∧ x.mailbox = some r.id

instance (s : Sys) (r : MailboxRow) : Decidable (s.Subscribed r) := by
  unfold Sys.Subscribed; infer_instance

theorem Sys.subscribed_iff {s : Sys} {r : MailboxRow} : s.Subscribed r ↔ s.listened r.app r.id = true :=
  Sys.listened_iff.symm

/-- everything that belongs to the channel of mailbox row `r` is the same in `d'` as in `d`
    (same rows in the same order): its messages (by mailbox id, and as `get_messages` of its app
    sees them), its side rows, the nameplates pointing at it and their side rows -/
structure Chan.SameChannel (d d' : Chan) (r : MailboxRow) : Prop where
  messages : d'.messages.filter (fun x => x.mailbox = r.id) = d.messages.filter (fun x => x.mailbox = r.id)
  messagesOf : d'.messagesOf r.app r.id = d.messagesOf r.app r.id
  sides : d'.mbSidesOf r.id = d.mbSidesOf r.id
  nameplates : d'.nameplates.filter (fun n => n.mailbox = r.id) = d.nameplates.filter (fun n => n.mailbox = r.id)
  nameplatesOf : d'.nameplatesOfMailbox r.app r.id = d.nameplatesOfMailbox r.app r.id
  npSides : ∀ n ∈ d.nameplates, n.mailbox = r.id → d'.npSidesOf n.id = d.npSidesOf n.id

theorem Chan.SameChannel.refl (d : Chan) (r : MailboxRow) : Chan.SameChannel d d r :=
  ⟨rfl, rfl, rfl, rfl, rfl, fun _ _ _ => rfl⟩

/-- only the id and the app of the row matter -/
theorem Chan.SameChannel.of_key {d d' : Chan} {r r' : MailboxRow} (h : Chan.SameChannel d d' r)
    (e1 : r'.id = r.id) (e2 : r'.app = r.app) : Chan.SameChannel d d' r' := by
  obtain ⟨a, b, c, e, f, g⟩ := h
  constructor <;> simp only [e1, e2] <;> assumption

theorem Chan.SameChannel.trans {d d' d'' : Chan} {r : MailboxRow} (h1 : Chan.SameChannel d d' r)
    (h2 : Chan.SameChannel d' d'' r) : Chan.SameChannel d d'' r := by
  refine ⟨h2.messages.trans h1.messages, h2.messagesOf.trans h1.messagesOf, h2.sides.trans h1.sides,
    h2.nameplates.trans h1.nameplates, h2.nameplatesOf.trans h1.nameplatesOf, ?_⟩
  intro n hn e
  have : n ∈ d'.nameplates := by
    have : n ∈ d.nameplates.filter (fun n => n.mailbox = r.id) := by simp [List.mem_filter, hn, e]
    rw [← h1.nameplates] at this
    exact (List.mem_filter.1 this).1
  exact (h2.npSides n this e).trans (h1.npSides n hn e)

theorem not_old_of_recent {now u : Int} (h : now - u < expirationTicks) : ¬ u ≤ now - expirationTicks := by
  omega

theorem recent_of_lt {now u : Int} (h : now < u + expirationTicks) : now - u < expirationTicks := by
  omega

/-! ## C12_sweep_preserves -/

namespace Sys

/-- state-level form (needs only `CInv` of the database) -/
theorem sweep_preserves {s : Sys} (h : s.db.CInv) (now : Time) {r : MailboxRow} (hr : r ∈ s.db.mailboxes)
    (hlive : now - r.updated < expirationTicks ∨ s.Subscribed r) :
    (s.Subscribed r → ({ r with updated := now } : MailboxRow) ∈ (s.step (.sweep now false)).db.mailboxes) ∧
    (¬ s.Subscribed r → r ∈ (s.step (.sweep now false)).db.mailboxes) ∧
    Chan.SameChannel s.db (s.step (.sweep now false)).db r ∧
    (s.step (.sweep now false)).conns = s.conns := by
  obtain ⟨hd, hf⟩ := step_sweep_spec h now
  have hnd : Chan.dead (fun _ => true) s.listened (now - expirationTicks) r = false := by
    cases hdd : Chan.dead (fun _ => true) s.listened (now - expirationTicks) r with
    | false => rfl
    | true =>
      obtain ⟨h1, h2⟩ := Chan.dead_all.1 hdd
      rcases hlive with hl | hl
      · exact absurd h2 (not_old_of_recent hl)
      · rw [subscribed_iff.1 hl] at h1; cases h1
  obtain ⟨k0, k1, k2, k3, k4, k5, k6⟩ :=
    Chan.sweepP_keep (A := fun _ => true) (L := s.listened) (now := now) h.toPInv hr hnd
  rw [← hd] at k0 k1 k2 k3 k4 k5 k6
  rw [Chan.stamp_all] at k0
  refine ⟨?_, ?_, ⟨k1, k2, k3, k4, k5, k6⟩, hf.conns⟩
  · intro hs; rw [subscribed_iff.1 hs] at k0; simpa using k0
  · intro hs
    have : s.listened r.app r.id = false := by
      cases hl : s.listened r.app r.id with
      | false => rfl
      | true => exact absurd (subscribed_iff.2 hl) hs
    rw [this] at k0; simpa using k0

/-- a faulted firing touches neither the database nor the connections -/
theorem sweep_fault_preserves (s : Sys) (now : Time) :
    (s.step (.sweep now true)).db = s.db ∧ (s.step (.sweep now true)).conns = s.conns :=
  ⟨(step_sweep_fault s now).1, (step_sweep_fault s now).2.conns⟩

/-- any firing: the row is still there (same id, app, `for_nameplate`; `updated` is the old value
    or `now`) with its channel -/
theorem sweep_preserves_any {s : Sys} (h : s.db.CInv) (now : Time) (fault : Bool) {r : MailboxRow}
    (hr : r ∈ s.db.mailboxes) (hlive : now - r.updated < expirationTicks ∨ s.Subscribed r) :
    (∃ r' ∈ (s.step (.sweep now fault)).db.mailboxes, r'.id = r.id ∧ r'.app = r.app ∧ r'.forNp = r.forNp ∧
      (r'.updated = r.updated ∨ (r'.updated = now ∧ s.Subscribed r)) ∧ (¬ s.Subscribed r → r' = r)) ∧
    Chan.SameChannel s.db (s.step (.sweep now fault)).db r ∧
    (s.step (.sweep now fault)).conns = s.conns := by
  cases fault with
  | true =>
    obtain ⟨hd, hc⟩ := sweep_fault_preserves s now
    rw [hd]
    exact ⟨⟨r, hr, rfl, rfl, rfl, Or.inl rfl, fun _ => rfl⟩, Chan.SameChannel.refl _ _, hc⟩
  | false =>
    obtain ⟨h1, h2, h3, h4⟩ := sweep_preserves h now hr hlive
    refine ⟨?_, h3, h4⟩
    by_cases hs : s.Subscribed r
    · exact ⟨_, h1 hs, rfl, rfl, rfl, Or.inr ⟨rfl, hs⟩, fun hn => absurd hs hn⟩
    · exact ⟨r, h2 hs, rfl, rfl, rfl, Or.inl rfl, fun _ => rfl⟩

end Sys

/-- **C12_sweep_preserves.**  From any state satisfying the invariant, for any sweep time: a mailbox
    row that was updated less than the expiration time ago, OR that has a subscriber, is present after
    the sweep — with `updated = now` if subscribed, unchanged otherwise — and all its messages, side
    rows, the nameplates pointing at it and their side rows are unchanged; connections are untouched. -/
theorem C12_sweep_preserves {g : GSys} (hI : g.GInv) (now : Time) {r : MailboxRow}
    (hr : r ∈ g.sys.db.mailboxes) (hlive : now - r.updated < expirationTicks ∨ g.sys.Subscribed r) :
    (g.sys.Subscribed r →
      ({ r with updated := now } : MailboxRow) ∈ (g.step (.sweep now false)).sys.db.mailboxes) ∧
    (¬ g.sys.Subscribed r → r ∈ (g.step (.sweep now false)).sys.db.mailboxes) ∧
    Chan.SameChannel g.sys.db (g.step (.sweep now false)).sys.db r ∧
    (g.step (.sweep now false)).sys.conns = g.sys.conns :=
  Sys.sweep_preserves hI.cinv now hr hlive

/-- the faulted firing (trivially) preserves everything -/
theorem C12_sweep_preserves_fault (g : GSys) (now : Time) :
    (g.step (.sweep now true)).sys.db = g.sys.db ∧ (g.step (.sweep now true)).sys.conns = g.sys.conns :=
  Sys.sweep_fault_preserves g.sys now

/-! ## C12_sweep_only_old -/

/-- the rows a sweep at `now` may remove: not updated after the cutoff and without subscriber -/
def Sys.Old (s : Sys) (now : Time) (m : MailboxRow) : Prop :=
  m ∈ s.db.mailboxes ∧ m.updated ≤ now - expirationTicks ∧ ¬ s.Subscribed m

instance (s : Sys) (now : Time) (m : MailboxRow) : Decidable (s.Old now m) := by
  unfold Sys.Old; infer_instance

theorem Sys.old_of_dead {s : Sys} {now : Time} {m : MailboxRow} (hm : m ∈ s.db.mailboxes)
    (hd : Chan.dead (fun _ => true) s.listened (now - expirationTicks) m = true) : s.Old now m := by
  obtain ⟨h1, h2⟩ := Chan.dead_all.1 hd
  refine ⟨hm, h2, ?_⟩
  intro hs; rw [Sys.subscribed_iff.1 hs] at h1; cases h1

theorem Sys.dead_of_old {s : Sys} {now : Time} {m : MailboxRow} (h : s.Old now m) :
    Chan.dead (fun _ => true) s.listened (now - expirationTicks) m = true := by
  refine Chan.dead_all.2 ⟨?_, h.2.1⟩
  cases hl : s.listened m.app m.id with
  | false => rfl
  | true => exact absurd (Sys.subscribed_iff.2 hl) h.2.2

theorem Sys.sweep_only_old {s : Sys} (h : s.db.CInv) (now : Time) :
    (∀ m ∈ s.db.mailboxes, (∀ m' ∈ (s.step (.sweep now false)).db.mailboxes, m'.id ≠ m.id) → s.Old now m) ∧
    (∀ r ∈ s.db.messages, r ∉ (s.step (.sweep now false)).db.messages →
      ∃ m, s.Old now m ∧ m.id = r.mailbox ∧ m.app = r.app) ∧
    (∀ r ∈ s.db.mbSides, r ∉ (s.step (.sweep now false)).db.mbSides → ∃ m, s.Old now m ∧ m.id = r.mailbox) ∧
    (∀ n ∈ s.db.nameplates, n ∉ (s.step (.sweep now false)).db.nameplates →
      ∃ m, s.Old now m ∧ m.id = n.mailbox ∧ m.app = n.app) ∧
    (∀ r ∈ s.db.npSides, r ∉ (s.step (.sweep now false)).db.npSides →
      ∃ n ∈ s.db.nameplates, n.id = r.npid ∧ ∃ m, s.Old now m ∧ m.id = n.mailbox ∧ m.app = n.app) ∧
    -- nothing is created, reordered or altered (except the re-stamping of subscribed rows)
    (s.step (.sweep now false)).db.nameplates.Sublist s.db.nameplates ∧
    (s.step (.sweep now false)).db.npSides.Sublist s.db.npSides ∧
    (s.step (.sweep now false)).db.mbSides.Sublist s.db.mbSides ∧
    (s.step (.sweep now false)).db.messages.Sublist s.db.messages ∧
    (∀ m' ∈ (s.step (.sweep now false)).db.mailboxes, ∃ m ∈ s.db.mailboxes, ¬ s.Old now m ∧
      m' = if s.listened m.app m.id = true then { m with updated := now } else m) ∧
    (s.step (.sweep now false)).db.nextNp = s.db.nextNp := by
  obtain ⟨hd, _⟩ := Sys.step_sweep_spec h now
  rw [hd]
  have hp := h.toPInv
  obtain ⟨s1, s2, s3, s4, _, s6⟩ := Chan.sweepP_sublist (d := s.db) (A := fun _ => true) (L := s.listened) (now := now)
    (old := now - expirationTicks)
  refine ⟨?_, ?_, ?_, ?_, ?_, s1, s2, s3, s4, ?_, s6⟩
  · intro m hm hg; exact Sys.old_of_dead hm (Chan.sweepP_gone_mailbox hp hm hg)
  · intro r hr hg
    obtain ⟨m, hm, e1, e2, hdd⟩ := Chan.sweepP_gone_message hp hr hg
    exact ⟨m, Sys.old_of_dead hm hdd, e1, e2⟩
  · intro r hr hg
    obtain ⟨m, hm, e1, hdd⟩ := Chan.sweepP_gone_mbSide hp hr hg
    exact ⟨m, Sys.old_of_dead hm hdd, e1⟩
  · intro n hn hg
    obtain ⟨m, hm, e1, e2, hdd⟩ := Chan.sweepP_gone_nameplate hp hn hg
    exact ⟨m, Sys.old_of_dead hm hdd, e1, e2⟩
  · intro r hr hg
    obtain ⟨n, hn, e, m, hm, e1, e2, hdd⟩ := Chan.sweepP_gone_npSide hp hr hg
    exact ⟨n, hn, e, m, Sys.old_of_dead hm hdd, e1, e2⟩
  · intro m' hm'
    obtain ⟨m, hm, hnd, e⟩ := Chan.mem_sweepP_mailboxes.1 hm'
    refine ⟨m, hm, ?_, by rw [← e, Chan.stamp_all]⟩
    intro ho
    exact hnd (Chan.mem_deadIds.2 ⟨m, hm, Sys.dead_of_old ho, rfl⟩)

/-- **C12_sweep_only_old.**  Every row a sweep deletes — mailbox, message, mailbox side, nameplate,
    nameplate side — belongs to a mailbox row (of the SAME app, for the tables that carry an app) that
    was `Old`: pre-state `updated ≤ now - expirationTicks` and no subscriber.  Nothing else changes:
    the tables afterwards are sub-lists of the tables before, surviving mailbox rows are the old
    ones, re-stamped exactly when subscribed. (The faulted firing deletes nothing:
    `C12_sweep_preserves_fault`.) -/
theorem C12_sweep_only_old {g : GSys} (hI : g.GInv) (now : Time) :
    (∀ m ∈ g.sys.db.mailboxes,
      (∀ m' ∈ (g.step (.sweep now false)).sys.db.mailboxes, m'.id ≠ m.id) → g.sys.Old now m) ∧
    (∀ r ∈ g.sys.db.messages, r ∉ (g.step (.sweep now false)).sys.db.messages →
      ∃ m, g.sys.Old now m ∧ m.id = r.mailbox ∧ m.app = r.app) ∧
    (∀ r ∈ g.sys.db.mbSides, r ∉ (g.step (.sweep now false)).sys.db.mbSides →
      ∃ m, g.sys.Old now m ∧ m.id = r.mailbox) ∧
    (∀ n ∈ g.sys.db.nameplates, n ∉ (g.step (.sweep now false)).sys.db.nameplates →
      ∃ m, g.sys.Old now m ∧ m.id = n.mailbox ∧ m.app = n.app) ∧
    (∀ r ∈ g.sys.db.npSides, r ∉ (g.step (.sweep now false)).sys.db.npSides →
      ∃ n ∈ g.sys.db.nameplates, n.id = r.npid ∧ ∃ m, g.sys.Old now m ∧ m.id = n.mailbox ∧ m.app = n.app) ∧
    (g.step (.sweep now false)).sys.db.nameplates.Sublist g.sys.db.nameplates ∧
    (g.step (.sweep now false)).sys.db.npSides.Sublist g.sys.db.npSides ∧
    (g.step (.sweep now false)).sys.db.mbSides.Sublist g.sys.db.mbSides ∧
    (g.step (.sweep now false)).sys.db.messages.Sublist g.sys.db.messages ∧
    (∀ m' ∈ (g.step (.sweep now false)).sys.db.mailboxes, ∃ m ∈ g.sys.db.mailboxes, ¬ g.sys.Old now m ∧
      m' = if g.sys.listened m.app m.id = true then { m with updated := now } else m) ∧
    (g.step (.sweep now false)).sys.db.nextNp = g.sys.db.nextNp :=
  Sys.sweep_only_old hI.cinv now


/-- **C12_prune_other_apps.**  One `AppNamespace.prune(now, old)` of app `app` (with `old < now`, as in
    `expire()`), from a state whose database satisfies the commit-point invariant: no exception, and
    the rows of every OTHER app are untouched in all five tables — mailboxes, nameplates, messages
    (whose DELETE is keyed by mailbox id only: this needs the global uniqueness of mailbox ids), mailbox
    sides and nameplate sides. -/
theorem C12_prune_other_apps {s s1 : Sys} {app : String} {now old : Time} {b : Bool} (h : s.db.CInv)
    (hlt : old < now) (hp : s.prune app now old = (s1, b)) {a : String} (ha : a ≠ app) :
    b = true ∧
    s1.db.mailboxesOfApp a = s.db.mailboxesOfApp a ∧
    s1.db.nameplatesOfApp a = s.db.nameplatesOfApp a ∧
    s1.db.messages.filter (fun r => r.app = a) = s.db.messages.filter (fun r => r.app = a) ∧
    (∀ m ∈ s.db.mailboxes, m.app = a → s1.db.mbSidesOf m.id = s.db.mbSidesOf m.id) ∧
    (∀ n ∈ s.db.nameplates, n.app = a → s1.db.npSidesOf n.id = s.db.npSidesOf n.id) ∧
    s1.conns = s.conns := by
  obtain ⟨hb, hd, hf, _, _⟩ := Sys.prune_sweepP h hlt hp
  rw [hd]
  obtain ⟨k1, k2, k3, k4, k5⟩ := Chan.sweepP_other_app (d := s.db) (A := fun x => x == app) (L := s.listened)
    (now := now) (old := old) h.toPInv (a := a) (by simpa using ha)
  exact ⟨hb, k1, k2, k3, k4, k5, hf.conns⟩

/-! ## C12_connected_forever -/

def Op.isFiring : Op → Bool
  | .sweep _ _ => true
  | _ => false

namespace Sys

theorem sweep_run_cons (s : Sys) (op : Op) (rest : List Op) : (s.run (op :: rest)).1 = ((s.step op).run rest).1 := by
  simp [Sys.run]

/-- sweeps never touch the connection records -/
theorem run_sweeps_conns (ops : List Op) (hops : ∀ op ∈ ops, op.isFiring = true) :
    ∀ {s : Sys}, s.SwInv → (s.run ops).1.SwInv ∧ (s.run ops).1.conns = s.conns := by
  induction ops with
  | nil => intro s h; exact ⟨h, rfl⟩
  | cons op rest ih =>
    intro s h
    rw [sweep_run_cons]
    cases op with
    | sweep now fault =>
      obtain ⟨h1, h2⟩ := ih (fun o ho => hops o (by simp [ho])) (h.step_sweep now fault)
      refine ⟨h1, h2.trans ?_⟩
      cases fault with
      | true => exact (step_sweep_fault s now).2.conns
      | false => exact (step_sweep_spec h.cinv now).2.conns
    | _ => have := hops _ (List.mem_cons_self); simp [Op.isFiring] at this

/-- a subscribed mailbox row survives any sequence of sweeps, with its channel -/
theorem connected_forever (ops : List Op) (hops : ∀ op ∈ ops, op.isFiring = true) :
    ∀ {s : Sys}, s.SwInv → ∀ {r : MailboxRow}, r ∈ s.db.mailboxes → s.Subscribed r →
      (∃ r' ∈ (s.run ops).1.db.mailboxes, r'.id = r.id ∧ r'.app = r.app ∧ r'.forNp = r.forNp) ∧
      Chan.SameChannel s.db (s.run ops).1.db r := by
  induction ops with
  | nil => intro s _ r hr _; exact ⟨⟨r, hr, rfl, rfl, rfl⟩, Chan.SameChannel.refl _ _⟩
  | cons op rest ih =>
    intro s h r hr hs
    rw [sweep_run_cons]
    cases op with
    | sweep now fault =>
      obtain ⟨⟨r', hr', e1, e2, e3, _, _⟩, hsame, hc⟩ := sweep_preserves_any h.cinv now fault hr (Or.inr hs)
      have hs' : (s.step (.sweep now fault)).Subscribed r' := by
        unfold Subscribed; rw [hc, e1, e2]; exact hs
      obtain ⟨⟨r'', hr'', f1, f2, f3⟩, hsame'⟩ :=
        ih (fun o ho => hops o (by simp [ho])) (h.step_sweep now fault) hr' hs'
      exact ⟨⟨r'', hr'', f1.trans e1, f2.trans e2, f3.trans e3⟩, hsame.trans (hsame'.of_key e1.symm e2.symm)⟩
    | _ => have := hops _ (List.mem_cons_self); simp [Op.isFiring] at this

end Sys

/-- **C12_connected_forever.**  For ANY sequence of sweeps (arbitrary times, faulted or not): the
    connection records are untouched — a subscribed connection stays subscribed — and the mailbox
    of every subscribed connection is still present under its app afterwards, with all its
    messages, side rows, nameplates and nameplate side rows unchanged.  (`x.mailbox = some mb`
    implies that the row exists, by the invariant.) -/
theorem C12_connected_forever {g : GSys} (hI : g.GInv) (ops : List Op) (hops : ∀ op ∈ ops, op.isFiring = true)
    {x : Conn} (hx : x ∈ g.sys.conns) {mb : String} (hmb : x.mailbox = some mb) :
    (g.run ops).sys.conns = g.sys.conns ∧
    ∃ app, x.app = some app ∧ x.listening = true ∧
      ∃ r ∈ g.sys.db.mailboxes, r.id = mb ∧ r.app = app ∧
        (∃ r' ∈ (g.run ops).sys.db.mailboxes, r'.id = mb ∧ r'.app = app ∧ r'.forNp = r.forNp) ∧
        Chan.SameChannel g.sys.db (g.run ops).sys.db r := by
  rw [GSys.run_sys]
  obtain ⟨hl, app, happ, r, hr, e1, e2⟩ := hI.conn.handle x hx mb hmb
  have hs : g.sys.Subscribed r := ⟨x, hx, hl, by rw [happ, e2], by rw [hmb, e1]⟩
  obtain ⟨⟨r', hr', f1, f2, f3⟩, hsame⟩ := Sys.connected_forever ops hops hI.swInv hr hs
  exact ⟨(Sys.run_sweeps_conns ops hops hI.swInv).2, app, happ, hl, r, hr, e1, e2,
    ⟨r', hr', f1.trans e1, f2.trans e2, f3⟩, hsame⟩


/-! ## C12_connected_forever, mixed form: arbitrary other traffic between the sweeps -/

/-- a connection that holds a mailbox handle is subscribed to a mailbox whose row exists
    (`ConnInv.handle`) -/
theorem GSys.GInv.holds {g : GSys} (hI : g.GInv) {x : Conn} (hx : x ∈ g.sys.conns) {mb : String}
    (hmb : x.mailbox = some mb) : ∃ app, x.app = some app ∧ g.sys.Holds x.id app mb := by
  obtain ⟨hl, app, happ, r, hr, e1, e2⟩ := hI.conn.handle x hx mb hmb
  exact ⟨app, happ, ⟨x, hx, rfl, hl, happ, hmb⟩, Sys.mem_mbKeys_iff.2 ⟨r, hr, e1, e2⟩⟩

/-- **C12_connected_step.**  One step of ANY operation other than the subscriber's own `drop`, a
    `close` command, a restart or a crash (`Op.harmlessFor c`): connection `c` is still subscribed to
    `(app, mb)` and the mailbox row is still there.  Sweeps (faulted or not, at any time), commands of
    other connections, and `c`'s own commands other than `close` are all covered. -/
theorem C12_connected_step {g : GSys} (hI : g.GInv) {c : Nat} {app mb : String} (h : g.sys.Holds c app mb)
    {op : Op} (hop : op.harmlessFor c = true) : (g.step op).sys.Holds c app mb :=
  Sys.Holds.step hI.swInv h hop

/-- **C12_connected_close_other.**  A `close` received on ANOTHER connection either leaves `c`'s
    subscription and the mailbox row intact, or it deleted the mailbox (no row with that id is left;
    the stop callback then drops `c`'s handle). -/
theorem C12_connected_close_other {g : GSys} {c : Nat} {app mb : String} (h : g.sys.Holds c app mb)
    {i : Nat} (hi : i ≠ c) (t : Time) (id : Val) (m mood : Option String) :
    (g.step (.recv i t id (.close m mood))).sys.Holds c app mb ∨
      ∀ k ∈ (g.step (.recv i t id (.close m mood))).sys.db.mbKeys, ¬ k.2 = mb :=
  Sys.Holds.step_close h hi t id m mood

/-- **C12_connected_forever (mixed form).**  Along ANY well-formed history made of operations that
    are harmless for `c` — sweeps at any (non-decreasing) times, faulted or not, connects, drops and
    commands of other connections except `close`, `c`'s own commands except `close` — the
    subscription of `c` and the row of its mailbox persist. -/
theorem C12_connected_mixed (ops : List Op) :
    ∀ {g : GSys}, g.GInv → g.WF ops → ∀ {c : Nat} {app mb : String}, g.sys.Holds c app mb →
      (∀ op ∈ ops, op.harmlessFor c = true) → (g.run ops).sys.Holds c app mb ∧ (g.run ops).GInv := by
  induction ops with
  | nil => intro g hI _ c app mb h _; exact ⟨h, hI⟩
  | cons op rest ih =>
    intro g hI hwf c app mb h hops
    exact ih (hI.step op hwf.1) hwf.2 (C12_connected_step hI h (hops op (List.mem_cons_self)))
      (fun o ho => hops o (List.mem_cons_of_mem _ ho))

/-- the same from a reachable state -/
theorem C12_connected_mixed_reach {g : GSys} (hg : g.Reach) (ops : List Op) (hwf : g.WF ops)
    {x : Conn} (hx : x ∈ g.sys.conns) {mb : String} (hmb : x.mailbox = some mb)
    (hops : ∀ op ∈ ops, op.harmlessFor x.id = true) :
    ∃ app, x.app = some app ∧ (g.run ops).sys.Holds x.id app mb := by
  obtain ⟨app, happ, h⟩ := hg.ginv.holds hx hmb
  exact ⟨app, happ, (C12_connected_mixed ops hg.ginv hwf h hops).1⟩

/-! ## C12_grace -/

/-- the time an operation that is a sweep fires at -/
def Op.firingTime : Op → Time
  | .sweep now _ => now
  | _ => 0

namespace Sys

theorem survives_sweeps_unsub (ops : List Op) (hops : ∀ op ∈ ops, op.isFiring = true) {r : MailboxRow} :
    ∀ {s : Sys}, s.SwInv → r ∈ s.db.mailboxes → ¬ s.Subscribed r →
      (∀ op ∈ ops, op.firingTime < r.updated + expirationTicks) →
      r ∈ (s.run ops).1.db.mailboxes ∧ Chan.SameChannel s.db (s.run ops).1.db r := by
  induction ops with
  | nil => intro s _ hr _ _; exact ⟨hr, Chan.SameChannel.refl _ _⟩
  | cons op rest ih =>
    intro s h hr hs ht
    rw [sweep_run_cons]
    cases op with
    | sweep now fault =>
      have hnow : now - r.updated < expirationTicks :=
        recent_of_lt (ht (.sweep now fault) (List.mem_cons_self))
      obtain ⟨⟨r', hr', _, _, _, _, heq⟩, hsame, hc⟩ := sweep_preserves_any h.cinv now fault hr (Or.inl hnow)
      have := heq hs
      subst this
      have hs' : ¬ (s.step (.sweep now fault)).Subscribed r' := by
        unfold Subscribed; rw [hc]; exact hs
      obtain ⟨k1, k2⟩ := ih (fun o ho => hops o (by simp [ho])) (h.step_sweep now fault) hr' hs'
        (fun o ho => ht o (by simp [ho]))
      exact ⟨k1, hsame.trans k2⟩
    | _ => have := hops _ (List.mem_cons_self); simp [Op.isFiring] at this

/-- firings before `updated + expirationTicks` leave the row and its channel alone, whatever their
    number, spacing and faults; an unsubscribed row is literally unchanged -/
theorem survives_sweeps (ops : List Op) (hops : ∀ op ∈ ops, op.isFiring = true) :
    ∀ {s : Sys}, s.SwInv → ∀ {r : MailboxRow}, r ∈ s.db.mailboxes →
      (∀ op ∈ ops, op.firingTime < r.updated + expirationTicks) →
      (∃ r' ∈ (s.run ops).1.db.mailboxes, r'.id = r.id ∧ r'.app = r.app ∧ r'.forNp = r.forNp) ∧
      (¬ s.Subscribed r → r ∈ (s.run ops).1.db.mailboxes) ∧
      Chan.SameChannel s.db (s.run ops).1.db r := by
  intro s h r hr ht
  by_cases hs : s.Subscribed r
  · obtain ⟨a, b⟩ := connected_forever ops hops h hr hs
    exact ⟨a, fun hn => absurd hs hn, b⟩
  · obtain ⟨k1, k2⟩ := survives_sweeps_unsub ops hops h hr hs ht
    exact ⟨⟨r, k1, rfl, rfl, rfl⟩, fun _ => k1, k2⟩

end Sys

/-- **C12_survives_sweeps** (first half of C12_grace).  A mailbox row with `updated = t` survives,
    with its channel, every firing at a time `< t + expirationTicks` — any number of firings, any
    spacing (in particular one every `periodTicks`), faulted or not. -/
theorem C12_survives_sweeps {g : GSys} (hI : g.GInv) (ops : List Op) (hops : ∀ op ∈ ops, op.isFiring = true)
    {r : MailboxRow} (hr : r ∈ g.sys.db.mailboxes)
    (ht : ∀ op ∈ ops, op.firingTime < r.updated + expirationTicks) :
    (∃ r' ∈ (g.run ops).sys.db.mailboxes, r'.id = r.id ∧ r'.app = r.app ∧ r'.forNp = r.forNp) ∧
    (¬ g.sys.Subscribed r → r ∈ (g.run ops).sys.db.mailboxes) ∧
    Chan.SameChannel g.sys.db (g.run ops).sys.db r := by
  rw [GSys.run_sys]
  exact Sys.survives_sweeps ops hops hI.swInv hr ht

/-- the arithmetic of the grace period: the timer fires every `periodTicks`; a client subscribed
    at the firing `f`, gone at `td` before the next firing (`td < f + periodTicks`), leaves a row
    with `updated ≥ f`; every firing `f'` during an absence of `a ≤ expirationTicks - periodTicks`
    (`f' ≤ td + a`) sees the row younger than the expiration time -/
theorem C12_grace_arith {f td a f' u : Int} (h1 : td < f + periodTicks) (h2 : f ≤ u)
    (h3 : a ≤ expirationTicks - periodTicks) (h4 : f' ≤ td + a) : f' < u + expirationTicks := by
  omega

/-- the grace window is not empty -/
theorem C12_grace_window_pos : 0 < expirationTicks - periodTicks := by
  have := sweep_period_lt_expiration; omega

/-- **C12_grace.**  Firings are `periodTicks` apart.  Let the row be stamped at `u ≥ f`, where `f`
    is a firing time no more than one period before the moment `td` the client went away
    (`td < f + periodTicks`: the last firing that saw the subscriber, or any later activity).  Then
    the row and its channel survive ALL firings up to `td + a` for every absence
    `a ≤ expirationTicks - periodTicks` (a positive amount, `C12_grace_window_pos`).
    Without a preceding firing: an absence shorter than `expirationTicks` after the last activity
    is safe (`C12_survives_sweeps`). -/
theorem C12_grace {g : GSys} (hI : g.GInv) (ops : List Op) (hops : ∀ op ∈ ops, op.isFiring = true)
    {r : MailboxRow} (hr : r ∈ g.sys.db.mailboxes) {f td a : Time}
    (h1 : td < f + periodTicks) (h2 : f ≤ r.updated) (h3 : a ≤ expirationTicks - periodTicks)
    (h4 : ∀ op ∈ ops, op.firingTime ≤ td + a) :
    (∃ r' ∈ (g.run ops).sys.db.mailboxes, r'.id = r.id ∧ r'.app = r.app ∧ r'.forNp = r.forNp) ∧
    (¬ g.sys.Subscribed r → r ∈ (g.run ops).sys.db.mailboxes) ∧
    Chan.SameChannel g.sys.db (g.run ops).sys.db r :=
  C12_survives_sweeps hI ops hops hr (fun op ho => C12_grace_arith h1 h2 h3 (h4 op ho))

/-! ## C12_activity_stamps: a successful claim / allocate / open / add stamps the mailbox row -/

/-- the command was refused or ended in an exception: an `error` frame or an `internal` event -/
def Event.bad : Event → Bool
  | .frame _ (.error _) _ => true
  | .internal _ _ => true
  | _ => false

namespace Sys

theorem bad_sendError (s : Sys) (c : Nat) (text : String) : ∃ e ∈ (s.sendError c text).out, e.bad = true :=
  ⟨.frame c (.error text) s.synced, by simp [sendError, send, emit], rfl⟩

theorem bad_internalErr (s : Sys) (c : Nat) (cls : String) : ∃ e ∈ (s.internalErr c cls).out, e.bad = true :=
  ⟨.internal (some c) cls, by simp [internalErr, emit], rfl⟩

theorem c12_step_recv (s : Sys) (c : Nat) (t : Time) (id : Val) (cmd : Cmd) :
    s.step (.recv c t id cmd) = ({ s with out := [], snaps := [] } : Sys).onMessage c t id cmd := rfl

theorem c12_findConn_id {s : Sys} {c : Nat} {x : Conn} (hx : s.findConn c = some x) : x.id = c := by
  simpa using List.find?_some hx

end Sys

open Sys in
/-- **C12_activity_stamps (claim).**  A `claim` at time `t` that is answered neither by an `error`
    frame nor by an internal failure: it named a nameplate, that nameplate now exists under the
    connection's app, the answer `claimed` carries its mailbox id, and the row of that mailbox
    (under the same app) has `updated = t`. -/
theorem C12_activity_stamps_claim {s : Sys} {c : Nat} {x : Conn} {app : String}
    (hx : s.findConn c = some x) (happ : x.app = some app) (t : Time) (id : Val) (n : Option String)
    (fresh : String)
    (hgood : ∀ e ∈ (s.step (.recv c t id (.claim n fresh))).out, e.bad = false) :
    ∃ name, n = some name ∧ ∃ np ∈ (s.step (.recv c t id (.claim n fresh))).db.nameplates,
      np.app = app ∧ np.name = name ∧
      (∃ b, Event.frame c (.claimed np.mailbox) b ∈ (s.step (.recv c t id (.claim n fresh))).out) ∧
      ∃ r ∈ (s.step (.recv c t id (.claim n fresh))).db.mailboxes,
        r.id = np.mailbox ∧ r.app = app ∧ r.updated = t := by
  have hid := c12_findConn_id hx
  have hx0 : ({ s with out := [], snaps := [] } : Sys).findConn c = some x := hx
  rw [c12_step_recv] at hgood ⊢
  simp only [onMessage, hx0, happ, handleClaim] at hgood ⊢
  have contra : ∀ {s' : Sys}, (∃ e ∈ s'.out, e.bad = true) → (∀ e ∈ s'.out, e.bad = false) → False := by
    rintro s' ⟨e, he, hb⟩ hg; rw [hg e he] at hb; cases hb
  cases n with
  | none => exact (contra (bad_sendError _ _ _) hgood).elim
  | some name =>
    refine ⟨name, rfl, ?_⟩
    dsimp only at hgood ⊢
    split at hgood
    · exact (contra (bad_sendError _ _ _) hgood).elim
    · rename_i hdc
      rw [if_neg hdc]
      generalize hE : Sys.claimNameplate _ app name _ t fresh = p at hgood ⊢
      obtain ⟨s1, res⟩ := p
      cases res <;> dsimp only at hgood ⊢
      · rename_i mb
        obtain ⟨⟨⟨r, hr, e1, e2, e3⟩, _⟩, np, hnp, f1, f2, f3⟩ := claimNameplate_stamped hE
        refine ⟨np, hnp, f1, f2, ⟨s1.synced, ?_⟩, r, hr, by rw [e1, f3], e2, e3⟩
        rw [f3, hid]
        simp [send, emit]
      · exact (contra (bad_sendError _ _ _) hgood).elim
      · exact (contra (bad_sendError _ _ _) hgood).elim
      · exact (contra (bad_internalErr _ _ _) hgood).elim

open Sys in
/-- **C12_activity_stamps (allocate).**  An `allocate` at time `t` answered neither by an `error`
    frame nor by an internal failure: the answer `allocated name` names a nameplate that now
    exists under the connection's app, and the row of its mailbox has `updated = t`. -/
theorem C12_activity_stamps_allocate {s : Sys} {c : Nat} {x : Conn} {app : String}
    (hx : s.findConn c = some x) (happ : x.app = some app) (t : Time) (id : Val) (pick : Nat)
    (draws : List Nat) (fresh : String)
    (hgood : ∀ e ∈ (s.step (.recv c t id (.allocate pick draws fresh))).out, e.bad = false) :
    ∃ name, (∃ b, Event.frame c (.allocated name) b ∈ (s.step (.recv c t id (.allocate pick draws fresh))).out) ∧
      ∃ np ∈ (s.step (.recv c t id (.allocate pick draws fresh))).db.nameplates,
        np.app = app ∧ np.name = name ∧
        ∃ r ∈ (s.step (.recv c t id (.allocate pick draws fresh))).db.mailboxes,
          r.id = np.mailbox ∧ r.app = app ∧ r.updated = t := by
  have hid := c12_findConn_id hx
  have hx0 : ({ s with out := [], snaps := [] } : Sys).findConn c = some x := hx
  rw [c12_step_recv] at hgood ⊢
  simp only [onMessage, hx0, happ, handleAllocate] at hgood ⊢
  have contra : ∀ {s' : Sys}, (∃ e ∈ s'.out, e.bad = true) → (∀ e ∈ s'.out, e.bad = false) → False := by
    rintro s' ⟨e, he, hb⟩ hg; rw [hg e he] at hb; cases hb
  split at hgood
  · exact (contra (bad_sendError _ _ _) hgood).elim
  · rename_i hda
    rw [if_neg hda]
    generalize hF : findAvailable _ pick draws = q at hgood ⊢
    cases q <;> dsimp only at hgood ⊢
    · exact (contra (bad_internalErr _ _ _) hgood).elim
    · rename_i name
      generalize hE : Sys.claimNameplate _ app name _ t fresh = p at hgood ⊢
      obtain ⟨s1, res⟩ := p
      cases res <;> dsimp only at hgood ⊢
      · rename_i mb
        obtain ⟨⟨⟨r, hr, e1, e2, e3⟩, _⟩, np, hnp, f1, f2, f3⟩ := claimNameplate_stamped hE
        refine ⟨name, ⟨s1.synced, ?_⟩, np, hnp, f1, f2, r, hr, by rw [e1, f3], e2, e3⟩
        rw [← hid]
        exact List.mem_append_right _ (List.mem_singleton.2 rfl)
      · exact (contra (bad_internalErr _ _ _) hgood).elim
      · exact (contra (bad_internalErr _ _ _) hgood).elim
      · exact (contra (bad_internalErr _ _ _) hgood).elim

open Sys in
/-- **C12_activity_stamps (open).**  An `open` at time `t` answered neither by an `error` frame nor
    by an internal failure: it named a mailbox, and the row of that mailbox under the connection's
    app exists with `updated = t` (and every row with that id has `updated = t`). -/
theorem C12_activity_stamps_open {s : Sys} {c : Nat} {x : Conn} {app : String}
    (hx : s.findConn c = some x) (happ : x.app = some app) (t : Time) (id : Val) (m : Option String)
    (hgood : ∀ e ∈ (s.step (.recv c t id (.open_ m))).out, e.bad = false) :
    ∃ mb, m = some mb ∧ (s.step (.recv c t id (.open_ m))).Stamped app mb t := by
  have hx0 : ({ s with out := [], snaps := [] } : Sys).findConn c = some x := hx
  rw [c12_step_recv] at hgood ⊢
  simp only [onMessage, hx0, happ, handleOpen] at hgood ⊢
  have contra : ∀ {s' : Sys}, (∃ e ∈ s'.out, e.bad = true) → (∀ e ∈ s'.out, e.bad = false) → False := by
    rintro s' ⟨e, he, hb⟩ hg; rw [hg e he] at hb; cases hb
  split at hgood
  · exact (contra (bad_sendError _ _ _) hgood).elim
  · rename_i hmo
    rw [if_neg hmo]
    cases m with
    | none => exact (contra (bad_sendError _ _ _) hgood).elim
    | some mb =>
      refine ⟨mb, rfl, ?_⟩
      dsimp only at hgood ⊢
      generalize hE : Sys.openMailbox _ app mb _ t = p at hgood ⊢
      obtain ⟨s1, res⟩ := p
      cases res <;> dsimp only at hgood ⊢
      · have := openMailbox_stamped hE (by simp)
        simpa [Sys.Stamped] using this
      · exact (contra (bad_sendError _ _ _) hgood).elim
      · exact (contra (bad_internalErr _ _ _) hgood).elim

open Sys in
/-- **C12_activity_stamps (add).**  An `add` at time `t` answered neither by an `error` frame nor by
    an internal failure: the connection holds a mailbox handle, and the row of that mailbox under the
    connection's app (it exists, by `ConnInv`) has `updated = t` afterwards. -/
theorem C12_activity_stamps_add {s : Sys} (hc : s.ConnInv) {c : Nat} {x : Conn} {app : String}
    (hx : s.findConn c = some x) (happ : x.app = some app) (t : Time) (id : Val) (ph bd : Option Val)
    (hgood : ∀ e ∈ (s.step (.recv c t id (.add ph bd))).out, e.bad = false) :
    ∃ mb, x.mailbox = some mb ∧ (s.step (.recv c t id (.add ph bd))).Stamped app mb t := by
  have hx0 : ({ s with out := [], snaps := [] } : Sys).findConn c = some x := hx
  rw [c12_step_recv] at hgood ⊢
  simp only [onMessage, hx0, happ, handleAdd] at hgood ⊢
  have contra : ∀ {s' : Sys}, (∃ e ∈ s'.out, e.bad = true) → (∀ e ∈ s'.out, e.bad = false) → False := by
    rintro s' ⟨e, he, hb⟩ hg; rw [hg e he] at hb; cases hb
  cases hm : x.mailbox with
  | none => rw [hm] at hgood; exact (contra (bad_sendError _ _ _) hgood).elim
  | some mb =>
    rw [hm] at hgood
    refine ⟨mb, rfl, ?_⟩
    dsimp only at hgood ⊢
    cases ph with
    | none => exact (contra (bad_sendError _ _ _) hgood).elim
    | some ph =>
      cases bd with
      | none => exact (contra (bad_sendError _ _ _) hgood).elim
      | some bd =>
        dsimp only
        obtain ⟨_, a, ha, r, hr, e1, e2⟩ := hc.handle x (List.mem_of_find?_eq_some hx) mb hm
        have : a = app := by rw [happ] at ha; exact (Option.some.inj ha).symm
        subst this
        simp only [Sys.Stamped, sw_broadcast_db]
        constructor
        · exact ⟨_, addMessage_mem _ _ _ _ _ _ _ _ (r := r) hr e1, e1, e2, rfl⟩
        · intro r' hr' e'
          exact addMessage_updated _ _ _ _ _ _ _ _ hr' e'

/-- **C12 (activity ⇒ survival).**  A mailbox row stamped `t` by an activity (`C12_activity_stamps_*`)
    is kept, with its channel, by every sweep at a time `now` with `now - t < expirationTicks`,
    from every state satisfying the invariant in which the row still carries that stamp
    (instance of `C12_sweep_preserves`; times never go back by `WFOp.mono`, and no row is stamped
    later than the clock by `GInv.clockMb`, so `t ≤ now` there). -/
theorem C12_recent_activity_survives {g : GSys} (hI : g.GInv) {app mb : String} {t : Time}
    (hst : g.sys.Stamped app mb t) (now : Time) (hnow : now - t < expirationTicks) :
    ∃ r ∈ g.sys.db.mailboxes, r.id = mb ∧ r.app = app ∧
      (∃ r' ∈ (g.step (.sweep now false)).sys.db.mailboxes, r'.id = mb ∧ r'.app = app) ∧
      Chan.SameChannel g.sys.db (g.step (.sweep now false)).sys.db r := by
  obtain ⟨⟨r, hr, e1, e2, e3⟩, _⟩ := hst
  obtain ⟨h1, h2, h3, _⟩ := C12_sweep_preserves hI now hr (Or.inl (by rw [e3]; exact hnow))
  refine ⟨r, hr, e1, e2, ?_, h3⟩
  by_cases hs : g.sys.Subscribed r
  · exact ⟨_, h1 hs, e1, e2⟩
  · exact ⟨r, h2 hs, e1, e2⟩


/-! ## `updated` never goes back: last activity ⇒ survival, across arbitrary histories -/

theorem lower_bound_arith {now t u : Int} (h1 : now - t < expirationTicks) (h2 : t ≤ u) :
    now - u < expirationTicks := by omega

/-- **C12_updated_mono.**  One step of ANY well-formed operation (crashes included) from a state
    satisfying the invariant: every mailbox row afterwards is a row from before, unchanged, or is
    stamped with the operation's time, which is not before the clock; hence for every mailbox id the
    value of `updated` never decreases. -/
theorem C12_updated_mono {g : GSys} (hI : g.GInv) {op : Op} (hw : g.WFOp op) :
    (∀ r' ∈ (g.step op).sys.db.mailboxes, r' ∈ g.sys.db.mailboxes ∨ r'.updated = (g.step op).clock) ∧
    g.clock ≤ (g.step op).clock ∧
    (∀ r ∈ g.sys.db.mailboxes, ∀ r' ∈ (g.step op).sys.db.mailboxes, r'.id = r.id → r.updated ≤ r'.updated) := by
  have hst : Chan.StampStep (g.opTime op) g.sys.db (g.sys.step op).db :=
    Sys.step_stampStep hI.synced.1 op (by intro t e; simp [GSys.opTime, e])
  have hclk : g.clock ≤ g.opTime op := GSys.clock_le_opTime hw.mono
  refine ⟨hst, hclk, ?_⟩
  intro r hr r' hr' e
  rcases hst r' hr' with h | h
  · have : r' = r := Chan.eq_of_pairwise_ne (f := MailboxRow.id) hI.cinv.mbIds h hr e
    subst this; exact Int.le_refl _
  · rw [h]; exact Int.le_trans (hI.clockMb r hr) hclk

/-- a lower bound `t ≤ clock` on the stamps of the rows with id `mb` is kept by every step -/
theorem C12_updated_lower_bound_step {g : GSys} (hI : g.GInv) {op : Op} (hw : g.WFOp op) {mb : String} {t : Time}
    (ht : t ≤ g.clock) (hlb : ∀ r ∈ g.sys.db.mailboxes, r.id = mb → t ≤ r.updated) :
    t ≤ (g.step op).clock ∧ ∀ r ∈ (g.step op).sys.db.mailboxes, r.id = mb → t ≤ r.updated := by
  obtain ⟨h1, h2, _⟩ := C12_updated_mono hI hw
  refine ⟨Int.le_trans ht h2, ?_⟩
  intro r' hr' e
  rcases h1 r' hr' with h | h
  · exact hlb r' h e
  · rw [h]; exact Int.le_trans ht h2

/-- **C12_updated_lower_bound.**  Along any well-formed history (crashes, restarts, closes, sweeps,
    re-creation of the mailbox — anything): if every row with id `mb` is stamped `≥ t` (and `t` is
    not in the future), this is still so at the end. -/
theorem C12_updated_lower_bound (ops : List Op) :
    ∀ {g : GSys}, g.GInv → g.WF ops → ∀ {mb : String} {t : Time}, t ≤ g.clock →
      (∀ r ∈ g.sys.db.mailboxes, r.id = mb → t ≤ r.updated) →
      (g.run ops).GInv ∧ ∀ r ∈ (g.run ops).sys.db.mailboxes, r.id = mb → t ≤ r.updated := by
  induction ops with
  | nil => intro g hI _ mb t _ h; exact ⟨hI, h⟩
  | cons op rest ih =>
    intro g hI hwf mb t ht hlb
    obtain ⟨h1, h2⟩ := C12_updated_lower_bound_step hI hwf.1 ht hlb
    exact ih (hI.step op hwf.1) hwf.2 h1 h2

/-- **C12_activity_survives.**  `g` = a state (satisfying the invariant) in which mailbox `(app, mb)`
    has just been stamped `t` by a claim / allocate / open / add (`C12_activity_stamps_*` give
    `Stamped`).  After ANY well-formed continuation `ops`, a sweep at a time `now` with
    `now - t < expirationTicks` keeps every row with that id that is there when it fires, together with
    its messages, side rows, nameplates and their side rows.  So no sweep within the expiration time
    after the last activity removes the channel. -/
theorem C12_activity_survives {g : GSys} (hI : g.GInv) {app mb : String} {t : Time}
    (hst : g.sys.Stamped app mb t) (ops : List Op) (hwf : g.WF ops) (now : Time)
    (hnow : now - t < expirationTicks) {r : MailboxRow} (hr : r ∈ (g.run ops).sys.db.mailboxes)
    (hid : r.id = mb) :
    (∃ r' ∈ ((g.run ops).step (.sweep now false)).sys.db.mailboxes,
      r'.id = r.id ∧ r'.app = r.app ∧ r'.forNp = r.forNp) ∧
    Chan.SameChannel (g.run ops).sys.db ((g.run ops).step (.sweep now false)).sys.db r := by
  obtain ⟨⟨r0, hr0, e1, _, e3⟩, hall⟩ := hst
  have ht : t ≤ g.clock := by rw [← e3]; exact hI.clockMb r0 hr0
  obtain ⟨hI', hlb⟩ := C12_updated_lower_bound ops hI hwf (mb := mb) ht
    (fun r hr e => by rw [hall r hr e]; exact Int.le_refl _)
  obtain ⟨h1, h2, h3, _⟩ := C12_sweep_preserves hI' now hr (Or.inl (lower_bound_arith hnow (hlb r hr hid)))
  refine ⟨?_, h3⟩
  by_cases hs : (g.run ops).sys.Subscribed r
  · exact ⟨_, h1 hs, rfl, rfl, rfl⟩
  · exact ⟨r, h2 hs, rfl, rfl, rfl⟩

/-! ## Non-vacuity: a concrete state with two apps, an old and a new mailbox with messages side by
    side, an idle one of another app and a subscribed one.  All times are expressed through
    `Generated.expirationTicks` / `periodTicks`, so the examples follow the constants. -/

namespace SweepExample

def E : Time := expirationTicks
def P : Time := periodTicks
/-- the firing time: cutoff = `E` -/
def now : Time := 2 * E

def rOld : MailboxRow := ⟨"A", "old", 100, true⟩
def rNew : MailboxRow := ⟨"A", "new", E + 100, true⟩
def rSub : MailboxRow := ⟨"B", "sub", 0, true⟩
def rIdle : MailboxRow := ⟨"B", "idle", 50, false⟩

def db : Chan :=
  { nameplates := [⟨1, "A", "4", "old"⟩, ⟨2, "A", "7", "new"⟩, ⟨3, "B", "4", "sub"⟩],
    npSides := [⟨1, true, "s1", 100⟩, ⟨2, true, "s1", E + 100⟩, ⟨3, true, "s2", 0⟩],
    mailboxes := [rOld, rNew, rSub, rIdle],
    mbSides := [⟨"old", true, "s1", 100, none⟩, ⟨"new", true, "s1", E + 100, none⟩,
                ⟨"sub", true, "s2", 0, none⟩, ⟨"idle", false, "s3", 50, some "happy"⟩],
    messages := [⟨"A", "old", "s1", .str "pake", .str "aa", 100, .null⟩,
                 ⟨"A", "new", "s1", .str "pake", .str "bb", E + 100, .null⟩,
                 ⟨"B", "sub", "s2", .str "pake", .str "cc", 0, .null⟩,
                 ⟨"B", "idle", "s3", .str "x", .str "dd", 50, .null⟩],
    nextNp := 4 }

/-- connection 7 is subscribed to "sub" of app "B"; connection 8 is bound to app "A", nothing else -/
def conn7 : Conn :=
  { id := 7, app := some "B", side := some "s2", listening := true, mailbox := some "sub",
    mailboxId := some "sub" }
def conn8 : Conn := { id := 8, app := some "A", side := some "s9" }

def sys : Sys := { cfg := { usage := true }, db := db, disk := db, conns := [conn7, conn8] }

def g : GSys := ⟨sys, E + 100, ["old", "new", "sub", "idle"]⟩

theorem g_ginv : g.GInv where
  cinv := { npIds := by decide, npKey := by decide, bounded := ⟨by decide, by decide⟩, mbIds := by decide,
            npMb := by decide, nsFk := by decide, nsKey := by decide, msFk := by decide,
            msKey := by decide, msgFk := by decide, npHasSide := by decide }
  conn := { ids := by decide, handle := by decide, listen := by decide, bound := by decide }
  synced := ⟨rfl, rfl⟩
  used := by decide
  usedConn := by decide
  clockMb := by decide

/-- what the sweep at `now` must leave: "old" (app A) and "idle" (app B) are gone with everything
    hanging off them; "new" is untouched; "sub" is re-stamped -/
def after : Chan :=
  { nameplates := [⟨2, "A", "7", "new"⟩, ⟨3, "B", "4", "sub"⟩],
    npSides := [⟨2, true, "s1", E + 100⟩, ⟨3, true, "s2", 0⟩],
    mailboxes := [rNew, { rSub with updated := now }],
    mbSides := [⟨"new", true, "s1", E + 100, none⟩, ⟨"sub", true, "s2", 0, none⟩],
    messages := [⟨"A", "new", "s1", .str "pake", .str "bb", E + 100, .null⟩,
                 ⟨"B", "sub", "s2", .str "pake", .str "cc", 0, .null⟩],
    nextNp := 4 }

/-- the specification evaluated on the example (through `Sys.step_sweep_spec`) ... -/
theorem sweep_eval : (g.step (.sweep now false)).sys.db = after := by
  rw [show (g.step (.sweep now false)).sys = g.sys.step (.sweep now false) from rfl,
    (Sys.step_sweep_spec g_ginv.cinv now).1]
  decide +kernel

-- ... and the model itself, executed (no theorem involved)
#guard decide ((g.step (.sweep now false)).sys.db = after)

/-- `C12_sweep_preserves`, recent row: "new" was updated `E - 100 < E` ticks before the sweep -/
example : rNew ∈ g.sys.db.mailboxes ∧ now - rNew.updated < expirationTicks ∧ ¬ g.sys.Subscribed rNew := by
  decide
example := C12_sweep_preserves g_ginv now (r := rNew) (by decide) (Or.inl (by decide))

/-- `C12_sweep_preserves`, subscribed row: "sub" is `2E` old but connection 7 is subscribed -/
example : rSub ∈ g.sys.db.mailboxes ∧ ¬ now - rSub.updated < expirationTicks ∧ g.sys.Subscribed rSub := by
  decide
example : ({ rSub with updated := now } : MailboxRow) ∈ (g.step (.sweep now false)).sys.db.mailboxes :=
  (C12_sweep_preserves g_ginv now (r := rSub) (by decide) (Or.inr (by decide))).1 (by decide)

/-- `C12_sweep_only_old`: the hypothesis holds, and rows really are deleted (`sweep_eval`): "old" and,
    side by side in the other app, "idle" -/
example := C12_sweep_only_old g_ginv now
example : g.sys.Old now rOld ∧ g.sys.Old now rIdle ∧ ¬ g.sys.Old now rNew ∧ ¬ g.sys.Old now rSub := by
  decide


/-- `C12_prune_other_apps`: pruning app "A" of the example at `now` (cutoff `E < now`) -/
example := C12_prune_other_apps (s := sys) (app := "A") (now := now) (old := now - E) (s1 := (sys.prune "A" now (now - E)).1)
  (b := (sys.prune "A" now (now - E)).2) g_ginv.cinv (by decide) rfl (a := "B") (by decide)
#guard decide (((sys.prune "A" now (now - E)).1.db.mailboxesOfApp "B" = sys.db.mailboxesOfApp "B") ∧
  (sys.prune "A" now (now - E)).1.db.mailboxesOfApp "A" = [rNew])

/-- `C12_connected_forever`: a faulted firing, an ordinary one and one a hundred expiration times later -/
def sweeps : List Op := [.sweep now true, .sweep (now + P) false, .sweep (now + 100 * E) false]
example : (∀ op ∈ sweeps, op.isFiring = true) ∧ conn7 ∈ g.sys.conns ∧ conn7.mailbox = some "sub" := by decide
example := C12_connected_forever g_ginv sweeps (by decide) (x := conn7) (by decide) (mb := "sub") rfl
#guard decide (∃ r ∈ (g.run sweeps).sys.db.mailboxes, r.id = "sub" ∧ r.app = "B")


/-- `C12_connected_mixed`: other traffic between sweeps — connection 8 claims, opens and adds, a new
    connection appears and goes, a faulted and an ordinary sweep fire — connection 7 keeps "sub" -/
def traffic : List Op :=
  [.connect 9, .recv 8 (E + 300) (.int 1) (.claim (some "7") "f1"), .sweep now true,
   .recv 8 (now + 1) (.int 2) (.open_ (some "new")), .sweep (now + P) false,
   .recv 8 (now + P + 1) (.int 3) (.add (some (.str "p")) (some (.str "b"))), .drop 9,
   .recv 7 (now + P + 2) (.int 4) (.add (some (.str "p")) (some (.str "c"))), .sweep (now + 50 * E) false]
example : (∀ op ∈ traffic, op.harmlessFor 7 = true) ∧ g.sys.Holds 7 "B" "sub" := by decide
theorem traffic_wf : g.WF traffic := GSys.wfB_sound (by decide +kernel)
example := C12_connected_mixed traffic g_ginv traffic_wf (c := 7) (app := "B") (mb := "sub") (by decide) (by decide)
#guard decide ((g.run traffic).sys.Holds 7 "B" "sub")
-- ... and the subscriber's own `close` does end it (the excluded case)
#guard decide (¬ ((g.step (.recv 8 (E + 300) (.int 1) (.open_ (some "new")))).step
  (.recv 8 (E + 301) (.int 2) (.close (some "new") none))).sys.Holds 8 "A" "new")


/-- `C12_updated_mono` / `C12_activity_survives`: "new" was stamped `E + 100`; after the traffic above
    (sweeps, claims, opens, adds, a connection coming and going) its row is still stamped `≥ E + 100` -/
example : g.WFOp (.recv 8 (E + 300) (.int 1) (.claim (some "7") "f1")) := GSys.wfOpB_sound (by decide +kernel)
example := C12_updated_mono g_ginv (op := .recv 8 (E + 300) (.int 1) (.claim (some "7") "f1"))
  (GSys.wfOpB_sound (by decide +kernel))
example := fun r hr => C12_activity_survives g_ginv (app := "A") (mb := "new") (t := E + 100) (by decide)
  [.connect 9, .sweep now true] (GSys.wfB_sound (by decide +kernel)) now (by decide) (r := r) hr
#guard decide (∀ r ∈ (g.run traffic).sys.db.mailboxes, r.id = "new" → E + 100 ≤ r.updated)

/-- `C12_survives_sweeps`: three firings before `rNew.updated + E` -/
def early : List Op := [.sweep (E + 200) false, .sweep (E + 200 + P) true, .sweep (2 * E + 50) false]
example : (∀ op ∈ early, op.isFiring = true) ∧
    (∀ op ∈ early, op.firingTime < rNew.updated + expirationTicks) := by decide
example := C12_survives_sweeps g_ginv early (by decide) (r := rNew) (by decide) (by decide)

/-- `C12_grace`: last firing that saw the client at `f = E`, client gone at `td = E + P - 1`, absence
    `a = E - P`; the firings at `E + P` and `E + 2P` (if within the absence) are harmless -/
example : let f := E; let td := E + P - 1; let a := E - P
    td < f + periodTicks ∧ f ≤ rNew.updated ∧ a ≤ expirationTicks - periodTicks ∧
    ∀ op ∈ [Op.sweep (E + P) false, Op.sweep (td + a) false], op.firingTime ≤ td + a := by decide
example := C12_grace g_ginv [.sweep (E + P) false, .sweep (E + P - 1 + (E - P)) false] (by decide)
  (r := rNew) (by decide) (f := E) (td := E + P - 1) (a := E - P) (by decide) (by decide) (by decide) (by decide)

/-! activity: the four commands, successful, on the example state at time `t = E + 300` -/
def t : Time := E + 300

example : ∀ e ∈ (sys.step (.recv 8 t (.int 1) (.claim (some "7") "fresh"))).out, e.bad = false := by
  decide +kernel
example := C12_activity_stamps_claim (s := sys) (c := 8) (x := conn8) (app := "A") (by decide) rfl t (.int 1)
  (some "7") "fresh" (by decide +kernel)

example : ∀ e ∈ (sys.step (.recv 8 t (.int 1) (.allocate 0 [] "fresh"))).out, e.bad = false := by
  decide +kernel
example := C12_activity_stamps_allocate (s := sys) (c := 8) (x := conn8) (app := "A") (by decide) rfl t (.int 1)
  0 [] "fresh" (by decide +kernel)

example : ∀ e ∈ (sys.step (.recv 8 t (.int 1) (.open_ (some "new")))).out, e.bad = false := by
  decide +kernel
example := C12_activity_stamps_open (s := sys) (c := 8) (x := conn8) (app := "A") (by decide) rfl t (.int 1)
  (some "new") (by decide +kernel)

example : ∀ e ∈ (sys.step (.recv 7 t (.int 1) (.add (some (.str "p")) (some (.str "b"))))).out,
    e.bad = false := by
  decide +kernel
example := C12_activity_stamps_add (s := sys) g_ginv.conn (c := 7) (x := conn7) (app := "B") (by decide) rfl t
  (.int 1) (some (.str "p")) (some (.str "b")) (by decide +kernel)

/-- the hypothesis is not always true: a second claim on the same connection is refused -/
example : ¬ ∀ e ∈ (sys.step (.recv 8 t (.int 1) (.claim none "fresh"))).out, e.bad = false := by
  decide +kernel

example : g.sys.Stamped "A" "new" (E + 100) ∧ now - (E + 100) < expirationTicks := by
  decide
example := C12_recent_activity_survives g_ginv (app := "A") (mb := "new") (t := E + 100)
  (by decide) now (by decide)

end SweepExample

end Wormhole

#print axioms Wormhole.C12_sweep_preserves
#print axioms Wormhole.C12_sweep_preserves_fault
#print axioms Wormhole.C12_sweep_only_old
#print axioms Wormhole.C12_prune_other_apps
#print axioms Wormhole.C12_connected_forever
#print axioms Wormhole.C12_connected_step
#print axioms Wormhole.C12_connected_close_other
#print axioms Wormhole.C12_connected_mixed
#print axioms Wormhole.C12_connected_mixed_reach
#print axioms Wormhole.C12_updated_mono
#print axioms Wormhole.C12_updated_lower_bound
#print axioms Wormhole.C12_activity_survives
#print axioms Wormhole.C12_survives_sweeps
#print axioms Wormhole.C12_grace_arith
#print axioms Wormhole.C12_grace_window_pos
#print axioms Wormhole.C12_grace
#print axioms Wormhole.C12_activity_stamps_claim
#print axioms Wormhole.C12_activity_stamps_allocate
#print axioms Wormhole.C12_activity_stamps_open
#print axioms Wormhole.C12_activity_stamps_add
#print axioms Wormhole.C12_recent_activity_survives
#print axioms Wormhole.Sys.prune_sweepP
#print axioms Wormhole.Sys.expire_db
#print axioms Wormhole.GSys.GInv.step_sweep
#print axioms Wormhole.SweepExample.sweep_eval
