/-
  C13, second part (audit B, P2) — "consequently empty by T + E + P" for a PERIODIC schedule.

  `C13_quiesce_reach` / `C13_empty_by_deadline_reach` (Props/C13.lean) measure the bound from the ghost
  clock, which every firing advances, so they do not fire for a schedule in which a good firing happens
  between the departure of the last client (time `T`) and `T + E`.  Here the bound is transported across
  EVERY firing, good or faulted:

  * `C13_sweep_keeps_bound`   a sweep (faulted or not, at any time) from a state with no connection and every
                              mailbox row stamped `≤ T` leaves a state with no connection and every row
                              stamped `≤ T` (a sweep re-stamps subscribed rows only; nobody is subscribed);
  * `C13_empty_after_quiet_firings` / `C13_empty_on_schedule`
                              any list of firings (good or faulted, at ANY times — in particular at
                              non-decreasing ones) followed by one good firing at `now ≥ T + E`: the five
                              tables are empty.  `T` is any bound on the stamps in the state in which the
                              last client left, e.g. the clock there (`C13_empty_on_schedule_clock`);
  * `firingAt f₀ i = f₀ + i·P`, `firing_exists`, `firing_first`
                              the arithmetic of a periodic timer: if `f₀ < D + P` (the timer has started
                              by then) there is a FIRST index `i` with `D ≤ firingAt f₀ i`, and
                              `firingAt f₀ i < D + P`;
  * `C13_empty_by_T_E_P`      the timer fires at `firingAt f₀ 0, firingAt f₀ 1, …` with an arbitrary fault
                              pattern `flt`.  Let `i` be the first firing at or after `T + E`.  If firing
                              `i + k` is not faulted (e.g. `k` = the number of consecutive faulted firings
                              from `i` on; `k = 0` when firing `i` itself is good) the store is empty after
                              it, and it takes place before `T + E + P·(1 + k)`;
  * `firings_wf`              such a schedule is a well-formed history when `f₀` is not before the clock.

  E = `Generated.expirationTicks`, P = `Generated.periodTicks`; nothing depends on their values
  beyond `0 < P`.
-/
import Wormhole.Props.C13

namespace Wormhole
open Generated

/-! ## one sweep keeps the bound -/

theorem Sys.sweep_keeps_bound {s : Sys} (h : s.db.CInv) (hc : s.conns = []) {T : Time}
    (hT : ∀ m ∈ s.db.mailboxes, m.updated ≤ T) (now : Time) (fault : Bool) :
    (s.step (.sweep now fault)).conns = [] ∧ ∀ m ∈ (s.step (.sweep now fault)).db.mailboxes, m.updated ≤ T := by
  cases fault with
  | true =>
    obtain ⟨hd, hf⟩ := Sys.step_sweep_fault s now
    exact ⟨hf.conns.trans hc, by rw [hd]; exact hT⟩
  | false =>
    obtain ⟨_, hf⟩ := Sys.step_sweep_spec h now
    obtain ⟨_, _, _, _, _, _, _, _, _, h10, _⟩ := Sys.sweep_only_old h now
    refine ⟨hf.conns.trans hc, ?_⟩
    intro m' hm'
    obtain ⟨m, hm, _, e⟩ := h10 m' hm'
    have hl : s.listened m.app m.id = false := by
      cases hl : s.listened m.app m.id with
      | false => rfl
      | true =>
        obtain ⟨x, hx, _⟩ := Sys.listened_iff.1 hl
        rw [hc] at hx; cases hx
    rw [hl] at e
    rw [e]
    exact hT m hm

/-- **C13_sweep_keeps_bound.**  From a state satisfying the invariant with no live connection and every
    mailbox row stamped `≤ T`: after a sweep at ANY time, faulted or not, there is still no connection and
    every remaining mailbox row is still stamped `≤ T` (and the invariant still holds, `C13_loop_survives`,
    `C13_sweep_no_failure`). -/
theorem C13_sweep_keeps_bound {g : GSys} (hI : g.GInv) (hc : g.sys.conns = []) {T : Time}
    (hT : ∀ m ∈ g.sys.db.mailboxes, m.updated ≤ T) (now : Time) (fault : Bool) :
    (g.step (.sweep now fault)).sys.conns = [] ∧
    (∀ m ∈ (g.step (.sweep now fault)).sys.db.mailboxes, m.updated ≤ T) ∧
    (g.step (.sweep now fault)).sys.SwInv :=
  ⟨(Sys.sweep_keeps_bound hI.cinv hc hT now fault).1, (Sys.sweep_keeps_bound hI.cinv hc hT now fault).2,
    hI.swInv.step_sweep now fault⟩

/-! ## any number of firings keeps it -/

namespace Sys

theorem run_firings_keep_bound (ops : List Op) (hops : ∀ op ∈ ops, op.isFiring = true) {T : Time} :
    ∀ {s : Sys}, s.SwInv → s.conns = [] → (∀ m ∈ s.db.mailboxes, m.updated ≤ T) →
      (s.run ops).1.SwInv ∧ (s.run ops).1.conns = [] ∧ ∀ m ∈ (s.run ops).1.db.mailboxes, m.updated ≤ T := by
  induction ops with
  | nil => intro s h hc hT; exact ⟨h, hc, hT⟩
  | cons op rest ih =>
    intro s h hc hT
    rw [sweep_run_cons]
    cases op with
    | sweep now fault =>
      obtain ⟨k1, k2⟩ := sweep_keeps_bound h.cinv hc hT now fault
      exact ih (fun o ho => hops o (by simp [ho])) (h.step_sweep now fault) k1 k2
    | _ => have := hops _ (List.mem_cons_self); simp [Op.isFiring] at this

theorem empty_after_quiet_firings {s : Sys} (h : s.SwInv) (hc : s.conns = []) {T : Time}
    (hT : ∀ m ∈ s.db.mailboxes, m.updated ≤ T) (ops : List Op) (hops : ∀ op ∈ ops, op.isFiring = true)
    {now : Time} (hnow : T + expirationTicks ≤ now) :
    (s.run (ops ++ [.sweep now false])).1.db.Empty ∧ (s.run (ops ++ [.sweep now false])).1.conns = [] := by
  rw [sweep_run_append]
  obtain ⟨h1, h2, h3⟩ := run_firings_keep_bound ops hops h hc hT
  have : ((s.run ops).1.run [.sweep now false]).1 = (s.run ops).1.step (.sweep now false) := by
    simp [Sys.run]
  rw [this]
  exact ⟨(quiesce h1.cinv h2 h3 hnow).1, (quiesce h1.cinv h2 h3 hnow).2.2⟩

end Sys

/-- **C13_empty_after_quiet_firings.**  From every state satisfying the invariant in which no client is
    connected and every mailbox row is stamped `≤ T`: ANY list of firings of the sweep — each of them faulted
    or not, at arbitrary times — followed by one non-faulted firing at a time `now ≥ T + expirationTicks`
    leaves all five channel tables empty.  The bound is measured from `T`, not from the previous firing. -/
theorem C13_empty_after_quiet_firings {g : GSys} (hI : g.GInv) (hc : g.sys.conns = []) {T : Time}
    (hT : ∀ m ∈ g.sys.db.mailboxes, m.updated ≤ T) (ops : List Op) (hops : ∀ op ∈ ops, op.isFiring = true)
    {now : Time} (hnow : T + expirationTicks ≤ now) :
    (g.run (ops ++ [.sweep now false])).sys.db.Empty := by
  rw [GSys.run_sys]
  exact (Sys.empty_after_quiet_firings hI.swInv hc hT ops hops hnow).1

/-- **C13_empty_on_schedule.**  The same for every REACHABLE state (any well-formed history: crashes,
    restarts, crowding, errors): once no client is connected and every mailbox row carries a stamp `≤ T`,
    any firings whatsoever followed by a good one at or after `T + expirationTicks` empty the store. -/
theorem C13_empty_on_schedule {g : GSys} (hg : g.Reach) (hc : g.sys.conns = []) {T : Time}
    (hT : ∀ m ∈ g.sys.db.mailboxes, m.updated ≤ T) (ops : List Op) (hops : ∀ op ∈ ops, op.isFiring = true)
    {now : Time} (hnow : T + expirationTicks ≤ now) :
    (g.run (ops ++ [.sweep now false])).sys.db.Empty :=
  C13_empty_after_quiet_firings hg.ginv hc hT ops hops hnow

/-- ... with `T` := the clock of the state in which the last client left (the time of the last operation
    before the quiet period: no row is stamped later than the clock, `GInv.clockMb`).  The firings in `ops`
    advance the clock of the LATER states; the bound stays `g.clock + expirationTicks`. -/
theorem C13_empty_on_schedule_clock {g : GSys} (hg : g.Reach) (hc : g.sys.conns = []) (ops : List Op)
    (hops : ∀ op ∈ ops, op.isFiring = true) {now : Time} (hnow : g.clock + expirationTicks ≤ now) :
    (g.run (ops ++ [.sweep now false])).sys.db.Empty :=
  C13_empty_on_schedule hg hc hg.ginv.clockMb ops hops hnow

/-! ## the periodic timer -/

/-- the `i`-th firing of a timer started at `f₀` with period `periodTicks` -/
def firingAt (f₀ : Int) (i : Nat) : Int := f₀ + (i : Int) * periodTicks

theorem firingAt_zero (f₀ : Int) : firingAt f₀ 0 = f₀ := by simp [firingAt]

theorem firingAt_succ (f₀ : Int) (i : Nat) : firingAt f₀ (i + 1) = firingAt f₀ i + periodTicks := by
  unfold firingAt
  rw [Int.natCast_succ, Int.add_mul, Int.one_mul]; omega

theorem firingAt_succ' (f₀ : Int) (i : Nat) : firingAt f₀ (i + 1) = firingAt (f₀ + periodTicks) i := by
  unfold firingAt
  rw [Int.natCast_succ, Int.add_mul, Int.one_mul]; omega

theorem firingAt_add (f₀ : Int) (i k : Nat) : firingAt f₀ (i + k) = firingAt f₀ i + (k : Int) * periodTicks := by
  unfold firingAt
  rw [Int.natCast_add, Int.add_mul]; omega

theorem firingAt_mono (f₀ : Int) {i j : Nat} (h : i ≤ j) : firingAt f₀ i ≤ firingAt f₀ j := by
  obtain ⟨k, rfl⟩ := Nat.exists_eq_add_of_le h
  rw [firingAt_add]
  have : (0 : Int) ≤ k * periodTicks := Int.mul_nonneg (Int.natCast_nonneg k) (Int.le_of_lt sweep_periodTicks_pos)
  omega

theorem firingAt_strictMono (f₀ : Int) {i j : Nat} (h : i < j) : firingAt f₀ i < firingAt f₀ j := by
  have := firingAt_mono f₀ (Nat.succ_le_of_lt h)
  rw [firingAt_succ] at this
  have := sweep_periodTicks_pos
  omega

/-- a timer with a positive period `P` that has started before `D + P` has a first firing at or after
    `D`, and that firing is before `D + P` (generic in the period) -/
theorem period_exists {P : Int} (hP : 0 < P) (D : Int) :
    ∀ (n : Nat) (f₀ : Int), (D - f₀).toNat ≤ n → f₀ < D + P →
      ∃ i : Nat, D ≤ f₀ + (i : Int) * P ∧ f₀ + (i : Int) * P < D + P ∧ ∀ j : Nat, j < i → f₀ + (j : Int) * P < D := by
  intro n
  induction n with
  | zero =>
    intro f₀ hn hlt
    refine ⟨0, by omega, by omega, by intro j hj; omega⟩
  | succ n ih =>
    intro f₀ hn hlt
    by_cases hD : D ≤ f₀
    · exact ⟨0, by omega, by omega, by intro j hj; omega⟩
    · obtain ⟨i, h1, h2, h3⟩ := ih (f₀ + P) (by omega) (by omega)
      refine ⟨i + 1, ?_, ?_, ?_⟩
      · rw [Int.natCast_succ, Int.add_mul, Int.one_mul]; omega
      · rw [Int.natCast_succ, Int.add_mul, Int.one_mul]; omega
      · intro j hj
        cases j with
        | zero => simp; omega
        | succ j =>
          have := h3 j (by omega)
          rw [Int.natCast_succ, Int.add_mul, Int.one_mul]; omega

/-- **the firing exists.**  If the timer has started by `D + periodTicks` (`f₀ < D + P`; in particular if
    `f₀ ≤ D`), there is an index `i` such that `firingAt f₀ i` is the FIRST firing at or after `D`:
    `D ≤ firingAt f₀ i`, every earlier firing is before `D`, and `firingAt f₀ i < D + periodTicks`. -/
theorem firing_exists (f₀ D : Int) (h : f₀ < D + periodTicks) :
    ∃ i : Nat, D ≤ firingAt f₀ i ∧ firingAt f₀ i < D + periodTicks ∧ ∀ j : Nat, j < i → firingAt f₀ j < D :=
  period_exists sweep_periodTicks_pos D _ f₀ (Nat.le_refl _) h

/-- the first firing at or after `D` is unique -/
theorem firing_first {f₀ D : Int} {i i' : Nat}
    (h1 : D ≤ firingAt f₀ i) (h2 : ∀ j : Nat, j < i → firingAt f₀ j < D)
    (h1' : D ≤ firingAt f₀ i') (h2' : ∀ j : Nat, j < i' → firingAt f₀ j < D) : i = i' := by
  rcases Nat.lt_trichotomy i i' with h | h | h
  · have := h2' i h; omega
  · exact h
  · have := h2 i' h; omega

/-- the deadline for the firing `k` periods after the first one at or after `D` -/
theorem firing_deadline {f₀ D : Int} {i : Nat} (h : firingAt f₀ i < D + periodTicks) (k : Nat) :
    firingAt f₀ (i + k) < D + periodTicks * (1 + (k : Int)) := by
  rw [firingAt_add, Int.mul_add, Int.mul_one, Int.mul_comm periodTicks k]
  omega

/-- the first `n` firings of the timer started at `f₀`; firing `j` is faulted iff `flt j` -/
def firings (f₀ : Time) (flt : Nat → Bool) (n : Nat) : List Op :=
  (List.range n).map (fun j => .sweep (firingAt f₀ j) (flt j))

theorem firings_succ (f₀ : Time) (flt : Nat → Bool) (n : Nat) :
    firings f₀ flt (n + 1) = firings f₀ flt n ++ [.sweep (firingAt f₀ n) (flt n)] := by
  simp [firings, List.range_succ]

theorem firings_isFiring (f₀ : Time) (flt : Nat → Bool) (n : Nat) : ∀ op ∈ firings f₀ flt n, op.isFiring = true := by
  intro op h
  obtain ⟨j, _, rfl⟩ := List.mem_map.1 h
  rfl

/-- **C13_empty_at_firing.**  Reachable state, no client connected, rows stamped `≤ T`; the timer fires at
    `firingAt f₀ 0, …, firingAt f₀ n` with fault pattern `flt`.  If firing `n` is at or after
    `T + expirationTicks` and is not faulted, the store is empty after it — whatever happened at the
    firings before (good ones between `T` and `T + E` included). -/
theorem C13_empty_at_firing {g : GSys} (hg : g.Reach) (hc : g.sys.conns = []) {T : Time}
    (hT : ∀ m ∈ g.sys.db.mailboxes, m.updated ≤ T) (f₀ : Time) (flt : Nat → Bool) {n : Nat}
    (hn : T + expirationTicks ≤ firingAt f₀ n) (hgood : flt n = false) :
    (g.run (firings f₀ flt (n + 1))).sys.db.Empty := by
  rw [firings_succ, hgood]
  exact C13_empty_on_schedule hg hc hT _ (firings_isFiring f₀ flt n) hn

/-- **C13_empty_by_T_E_P.**  Reachable state `g`, no client connected, every mailbox row stamped `≤ T`
    (e.g. `T = g.clock`).  The timer fires every `periodTicks`, at `firingAt f₀ j = f₀ + j·P`
    (`j = 0, 1, …`; `f₀ < T + E + P`, i.e. the timer is running by then), firing `j` fails iff `flt j`.
    Then there is an index `i` — the FIRST firing at or after `T + E` — with
    * `T + E ≤ firingAt f₀ i < T + E + P`, every earlier firing before `T + E`;
    * if firing `i` is not faulted, the store is empty after it (so: empty before `T + E + P`);
    * for every `k`: if firing `i + k` is not faulted (in particular when `k` is the number of consecutive
      faulted firings from `i` on), the store is empty after firing `i + k`, which takes place before
      `T + E + P·(1 + k)`. -/
theorem C13_empty_by_T_E_P {g : GSys} (hg : g.Reach) (hc : g.sys.conns = []) {T : Time}
    (hT : ∀ m ∈ g.sys.db.mailboxes, m.updated ≤ T) (f₀ : Time) (hf₀ : f₀ < T + expirationTicks + periodTicks)
    (flt : Nat → Bool) :
    ∃ i : Nat,
      T + expirationTicks ≤ firingAt f₀ i ∧ firingAt f₀ i < T + expirationTicks + periodTicks ∧
      (∀ j : Nat, j < i → firingAt f₀ j < T + expirationTicks) ∧
      (flt i = false → (g.run (firings f₀ flt (i + 1))).sys.db.Empty) ∧
      ∀ k : Nat, flt (i + k) = false →
        (g.run (firings f₀ flt (i + k + 1))).sys.db.Empty ∧
        firingAt f₀ (i + k) < T + expirationTicks + periodTicks * (1 + (k : Int)) := by
  obtain ⟨i, h1, h2, h3⟩ := firing_exists f₀ (T + expirationTicks) hf₀
  refine ⟨i, h1, h2, h3, fun hgood => C13_empty_at_firing hg hc hT f₀ flt h1 hgood, ?_⟩
  intro k hgood
  exact ⟨C13_empty_at_firing hg hc hT f₀ flt (Int.le_trans h1 (firingAt_mono f₀ (Nat.le_add_right i k))) hgood,
    firing_deadline h2 k⟩

/-- the same with the ghost clock of the quiet state as `T` -/
theorem C13_empty_by_T_E_P_clock {g : GSys} (hg : g.Reach) (hc : g.sys.conns = []) (f₀ : Time)
    (hf₀ : f₀ < g.clock + expirationTicks + periodTicks) (flt : Nat → Bool) :
    ∃ i : Nat,
      g.clock + expirationTicks ≤ firingAt f₀ i ∧ firingAt f₀ i < g.clock + expirationTicks + periodTicks ∧
      (∀ j : Nat, j < i → firingAt f₀ j < g.clock + expirationTicks) ∧
      (flt i = false → (g.run (firings f₀ flt (i + 1))).sys.db.Empty) ∧
      ∀ k : Nat, flt (i + k) = false →
        (g.run (firings f₀ flt (i + k + 1))).sys.db.Empty ∧
        firingAt f₀ (i + k) < g.clock + expirationTicks + periodTicks * (1 + (k : Int)) :=
  C13_empty_by_T_E_P hg hc hg.ginv.clockMb f₀ hf₀ flt

/-! ### such a schedule is a well-formed history -/

theorem GSys.c13b_run_append (g : GSys) (l1 l2 : List Op) : g.run (l1 ++ l2) = (g.run l1).run l2 := by
  induction l1 generalizing g with
  | nil => rfl
  | cons op rest ih => exact ih _

theorem GSys.c13b_wf_append {g : GSys} {l1 l2 : List Op} (h1 : g.WF l1) (h2 : (g.run l1).WF l2) :
    g.WF (l1 ++ l2) := by
  induction l1 generalizing g with
  | nil => exact h2
  | cons op rest ih => exact ⟨h1.1, ih h1.2 h2⟩

theorem GSys.wfOp_sweep {g : GSys} {now : Time} (h : g.clock ≤ now) (fault : Bool) : g.WFOp (.sweep now fault) where
  connFresh := by intro c h; cases h
  mono := by intro t e; cases e; exact h
  idFresh := by intro f e; cases e
  crashPlain := by intro k o e; cases e

/-- the firings of a timer started not before the clock form a well-formed history; the clock afterwards
    is the time of the last firing -/
theorem firings_wf {g : GSys} {f₀ : Time} (h : g.clock ≤ f₀) (flt : Nat → Bool) (n : Nat) :
    g.WF (firings f₀ flt n) ∧ (g.run (firings f₀ flt n)).clock ≤ firingAt f₀ n := by
  induction n with
  | zero => exact ⟨trivial, by rw [firingAt_zero]; exact h⟩
  | succ n ih =>
    rw [firings_succ, GSys.c13b_run_append]
    refine ⟨GSys.c13b_wf_append ih.1 ⟨GSys.wfOp_sweep ih.2 _, trivial⟩, ?_⟩
    show firingAt f₀ n ≤ firingAt f₀ (n + 1)
    exact firingAt_mono f₀ (Nat.le_succ n)

/-! ## Non-vacuity -/

namespace SweepExample

/-- `C13_sweep_keeps_bound` on the quiescent example state `g0` (four mailbox rows, stamps `≤ E + 100`):
    a GOOD sweep at `E + 150` (cutoff 150: deletes the rows stamped `0`) keeps the bound `E + 100` although
    it advances the ghost clock to `E + 150` -/
example : g0.sys.conns = [] ∧ (∀ m ∈ g0.sys.db.mailboxes, m.updated ≤ E + 100) := by decide
example := C13_sweep_keeps_bound g0_ginv rfl (T := E + 100) (by decide) (E + 150) false
#guard decide ((g0.step (.sweep (E + 150) false)).clock = E + 150 ∧ ¬ (g0.step (.sweep (E + 150) false)).sys.db.Empty)

/-- `C13_empty_after_quiet_firings`: a good firing, a faulted one, a good one — all before `T + E` — and
    then the good firing at `T + E = 2E + 100`: empty.  (`C13_quiesce_clock` does not apply to the state
    before the last firing: its clock is `2E`, and `2E + E > 2E + 100`.) -/
example := C13_empty_after_quiet_firings g0_ginv rfl (T := E + 100) (by decide)
  [.sweep (E + 150) false, .sweep (2 * E - 50) true, .sweep (2 * E) false] (by decide)
  (now := 2 * E + 100) (by decide)
#guard decide ((g0.run [.sweep (E + 150) false, .sweep (2 * E - 50) true, .sweep (2 * E) false,
  .sweep (2 * E + 100) false]).sys.db.Empty)
#guard decide (¬ (g0.run [.sweep (E + 150) false, .sweep (2 * E - 50) true, .sweep (2 * E) false,
  .sweep (2 * E + 99) false]).sys.db.Empty)

/-- `C13_empty_on_schedule` / `C13_empty_by_T_E_P` on the REACHABLE state `gH` (history `hist` of
    Props/C13.lean: traffic, a crash, a restart, a last client leaving at 22): `T = gH.clock = 22`; the
    timer of the audit's example — firings at 100, 100 + P, 100 + 2P, … — good firings before `22 + E`
    included. -/
theorem gH_conns : gH.sys.conns = [] := by decide +kernel
theorem gH_clock : gH.clock = 22 := by decide +kernel

/-- index of the first firing of the timer started at 100 that is at or after `22 + E` (3 for the shipped constants
    E = 5280, P = 2400: firings at 100, 2500, 4900, 7300 and `22 + E = 5302`); computed, so that the examples below hold
    for whatever constants the source has (they are regenerated from server_tap.py on every run) -/
def kH : Nat := ((22 + expirationTicks - 100 + periodTicks - 1) / periodTicks).toNat

example : (gH.run (firings 100 (fun j => decide (j + 1 = kH)) kH ++ [.sweep (firingAt 100 kH) false])).sys.db.Empty :=
  C13_empty_on_schedule_clock gH_reach gH_conns _ (firings_isFiring _ _ _) (by rw [gH_clock]; decide)

example := C13_empty_by_T_E_P gH_reach gH_conns (T := 22) (by
  have := gH_reach.ginv.clockMb; rw [gH_clock] at this; exact this) 100 (by decide) (fun _ => false)
example := C13_empty_by_T_E_P_clock gH_reach gH_conns 100 (by rw [gH_clock]; decide) (fun j => decide (j = kH))

/-- the first firing at or after `22 + E` is the one with index `kH`, and it is before `22 + E + P`
    (shipped constants: index 3, at 7300, `5302 ≤ 7300 < 7702`) -/
example : 22 + expirationTicks ≤ firingAt 100 kH ∧ firingAt 100 kH < 22 + expirationTicks + periodTicks ∧
    ∀ j : Nat, j < kH → firingAt 100 j < 22 + expirationTicks := by decide
#guard decide ((gH.run (firings 100 (fun _ => false) (kH + 1))).sys.db.Empty)
#guard decide (¬ (gH.run (firings 100 (fun _ => false) kH)).sys.db.Empty)
-- the state before that firing has the clock of firing `kH - 1` (4900): `C13_quiesce_reach` would ask for a firing
-- at `≥ that + E` (10180), later than the one that empties the store
#guard decide ((gH.run (firings 100 (fun _ => false) kH)).clock = firingAt 100 (kH - 1))

/-- the schedule is a well-formed history from `gH` (so every intermediate state is reachable) -/
example : gH.WF (firings 100 (fun _ => false) (kH + 1)) := (firings_wf (by rw [gH_clock]; decide) _ (kH + 1)).1

end SweepExample

end Wormhole

#print axioms Wormhole.C13_sweep_keeps_bound
#print axioms Wormhole.C13_empty_after_quiet_firings
#print axioms Wormhole.C13_empty_on_schedule
#print axioms Wormhole.C13_empty_on_schedule_clock
#print axioms Wormhole.firing_exists
#print axioms Wormhole.firing_first
#print axioms Wormhole.firing_deadline
#print axioms Wormhole.C13_empty_at_firing
#print axioms Wormhole.C13_empty_by_T_E_P
#print axioms Wormhole.C13_empty_by_T_E_P_clock
#print axioms Wormhole.firings_wf
