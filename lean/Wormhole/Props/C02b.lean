/-
  C02, second part (audit A, problem 6: "C02 bookkeeping holes").

  (a) `C02_delivery'`   `C02_delivery` with its hypothesis `hreach` discharged by `GSys.Reach.ginv`.
  (b) `C02_no_message_outside_add_open`   "exactly once" over a SUBSCRIPTION, not just per `add` step:
      from every state satisfying the invariant, for every operation (crashes at any commit included),
      every `message` frame of the step is
        (i)  the live delivery of an accepted `add` -- the frame carries the adder's bound side and the
             phase, body, id of THAT command and the time of the step, and goes to a connection that was
             subscribed to the adder's mailbox before the step (`C02_fanout_exact`: the `message` frames
             of such a step are exactly one per listener), or
        (ii) the replay of an accepted `open` answered ok -- addressed to the OPENER and to nobody
             else, carrying a stored row of the opened mailbox (`C01_open_private`, `C01_no_foreign`).
      So no other step -- bind, list, allocate, claim, release, close, ping, refused commands, connect,
      drop, sweep, restart, nor a crash inside any of them -- sends a `message` frame to anybody
      (`C02_silent_step`), and a subscriber is sent a `message` frame only by the `add`s on its mailbox
      (once each: `C02_exactly_once`) and by its own `open`.
      `C02_message_in_trace` lifts the classification to the trace of a well-formed history.
-/
import Wormhole.Props.C01
import Wormhole.Props.C02
import Wormhole.Props.C03
import Wormhole.Props.C05
import Wormhole.Inv.Main

namespace Wormhole
open Sys

/-! ## (a) -/

/-- **C02, history form** (`C02_delivery` for the reachable states, nothing left to instantiate):
    after any well-formed history from the initial state, an accepted `add` on `(a, m)` is delivered
    -- as the one frame `message σ phase body t id`, with nothing uncommitted -- to exactly the ghost
    subscribers of `(a, m)`, each exactly once, the sender included, and no other `message` frame is
    sent to anybody -/
theorem C02_delivery' (cfg : Cfg) (rb : Time) (ops : List Op)
    (hwf : (GSys.init cfg rb).WF ops) {c : Nat} {x : Conn} {a σ m : String} (t : Time) (id ph bd : Val)
    (hx : ((GSys.init cfg rb).run ops).sys.findConn c = some x) (ha : x.app = some a)
    (hσ : x.side = some σ) (hm : x.mailbox = some m) :
    let out := (((GSys.init cfg rb).run ops).step (.recv c t id (.add (some ph) (some bd)))).sys.out
    (∀ c', c' ∈ subsLog a m cfg rb ops → out.count (Event.frame c' (.message σ ph bd t id) true) = 1) ∧
    (∀ e ∈ out, e.isMessage = true → ∃ c' ∈ subsLog a m cfg rb ops, e = .frame c' (.message σ ph bd t id) true) ∧
    c ∈ subsLog a m cfg rb ops :=
  C02_delivery (fun _ h => h.ginv) cfg rb ops hwf t id ph bd hx ha hσ hm

/-! ## (b) -/

namespace C02b

theorem inner_of_not_crash_core {op : Op} (h : op.core.isCrash = false) : op.inner = op.core := by
  cases op with
  | crashIn k op' => simp only [Op.core] at h ⊢; simp [Op.inner, Op.inner_of_not_crash h]
  | _ => rfl

/-- an accepted `open` that `open_mailbox` does not answer ok sends no `message` frame -/
theorem open_not_ok_noMessage {s : Sys} {c : Nat} {x : Conn} {a m : String} (hx : s.findConn c = some x)
    (ha : x.app = some a) (hm : x.mailbox = none) (hres : s.db.openRes a m (x.side.getD "") ≠ .ok)
    (hout : s.out = []) (t : Time) (id : Val) :
    C05.NoMessage (s.onMessage c t id (.open_ (some m))).out := by
  have hid : x.id = c := findConn_id hx
  have e : s.onMessage c t id (.open_ (some m)) =
      (match ((s.send c (.ack id)).updConn c (fun y => { y with mailboxId := some m })).openMailbox
        a m (x.side.getD "") t with
      | (s1, .crowded) => s1.sendError c "crowded"
      | (s1, .integrity) => s1.internalErr c "IntegrityError"
      | (s1, .ok) =>
        (s1.updConn c (fun y => { y with mailbox := some m, listening := true })).replay c a m) := by
    simp [Sys.onMessage, hx, ha, Sys.handleOpen, hm, hid]
    rfl
  generalize hs0 : (s.send c (.ack id)).updConn c (fun y => { y with mailboxId := some m }) = s0 at e
  have hs0db : s0.db = s.db := by subst hs0; rfl
  have hs0out : s0.out = [.frame c (.ack id) s.synced] := by subst hs0; simp [Sys.send, Sys.emit, hout]
  have hr := openMailbox_res s0 a m (x.side.getD "") t
  rw [hs0db] at hr
  obtain ⟨l, hl, hlc⟩ := CExt.openMailbox (OutExt.refl (s := s0)) (app := a) (mb := m) (side := x.side.getD "") (t := t)
  have hbase : C05.NoMessage (s0.openMailbox a m (x.side.getD "") t).1.out := by
    intro ev hev c' sd ph bd rx i b heq
    subst heq
    rw [hl, hs0out] at hev
    simp only [List.mem_append, List.mem_singleton] at hev
    rcases hev with hev | hev
    · cases hev
    · obtain ⟨w, hw⟩ := hlc _ hev; cases hw
  rw [e]
  cases hom : s0.openMailbox a m (x.side.getD "") t with
  | mk s1 r =>
    rw [hom] at hr hbase
    simp only at hr hbase
    cases r with
    | ok => exact absurd hr.symm hres
    | crowded =>
      intro ev hev c' sd ph bd rx i b heq
      subst heq
      simp only [Sys.sendError, Sys.send, Sys.emit, List.mem_append, List.mem_singleton] at hev
      rcases hev with hev | hev
      · exact hbase _ hev _ _ _ _ _ _ _ rfl
      · cases hev
    | integrity =>
      intro ev hev c' sd ph bd rx i b heq
      subst heq
      simp only [Sys.internalErr, Sys.emit, List.mem_append, List.mem_singleton] at hev
      rcases hev with hev | hev
      · exact hbase _ hev _ _ _ _ _ _ _ rfl
      · cases hev

end C02b

/-- the frame is the live delivery of an accepted `add`: the operation (the wrapped one, for a crash)
    is `add phase body` with id `mid` received at time `rx` on a connection bound to `(a, sd)` that
    holds the handle of `m`, and the addressee `c'` was subscribed to `(a, m)` before the step -/
def Sys.LiveDelivery (s : Sys) (op : Op) (c' : Nat) (sd : String) (ph bd : Val) (rx : Time) (mid : Val) : Prop :=
  ∃ c x a m, op.inner = .recv c rx mid (.add (some ph) (some bd)) ∧ s.findConn c = some x ∧
    x.app = some a ∧ x.side = some sd ∧ x.mailbox = some m ∧ c' ∈ s.listeners a m

/-- the frame is part of the replay of an accepted `open` answered ok: the operation (the wrapped one,
    for a crash) is `open m` received on connection `c'` ITSELF, bound to `(a, σ)` and holding no
    handle; `open_mailbox` answers ok; the frame carries a stored row of `(a, m)` -/
def Sys.OpenReplay (s : Sys) (op : Op) (c' : Nat) (sd : String) (ph bd : Val) (rx : Time) (mid : Val) : Prop :=
  ∃ t oid x a σ m, op.inner = .recv c' t oid (.open_ (some m)) ∧ s.findConn c' = some x ∧
    x.app = some a ∧ x.side = some σ ∧ x.mailbox = none ∧ s.db.openRes a m σ = .ok ∧
    ∃ r ∈ s.db.messages, r.app = a ∧ r.mailbox = m ∧ r.side = sd ∧ r.phase = ph ∧ r.body = bd ∧
      r.rx = rx ∧ r.msgId = mid

/-- **C02 (no `message` frame outside `add` and `open`).**  From every state satisfying the invariant,
    for EVERY operation (sweeps, restarts and `crashIn k` of anything included): a `message` frame in
    the output of the step is sent with nothing uncommitted and is either the live delivery of an
    accepted `add` to a connection subscribed to the adder's mailbox (`Sys.LiveDelivery`; by
    `C02_fanout_exact` the `message` frames of that step are exactly one per listener), or a frame of
    the replay that an accepted `open` answered ok sends to the opener alone (`Sys.OpenReplay`). -/
theorem C02_no_message_outside_add_open {g : GSys} (hI : g.GInv) (op : Op)
    {c' : Nat} {sd : String} {ph bd : Val} {rx : Time} {mid : Val} {b : Bool}
    (h : Event.frame c' (.message sd ph bd rx mid) b ∈ (g.sys.step op).out) :
    b = true ∧ (g.sys.LiveDelivery op c' sd ph bd rx mid ∨ g.sys.OpenReplay op c' sd ph bd rx mid) := by
  -- reduce to the wrapped operation
  have h' : Event.frame c' (.message sd ph bd rx mid) b ∈ (g.sys.step op.core).out ∧ op.core.isCrash = false := by
    by_cases hcr : ∃ k op', op = .crashIn k op'
    · obtain ⟨k, op', rfl⟩ := hcr
      have h1 := C05.out_crash_subset g.sys k op' h
      show _ ∈ (g.sys.step op').out ∧ op'.isCrash = false
      cases hc : op'.isCrash with
      | true =>
        exfalso
        cases op' <;> first | (simp [Op.isCrash] at hc; done) | cases h1
      | false => rw [step_eq_of_not_crash g.sys hc]; exact ⟨h1, rfl⟩
    · have hcore : op.core = op := by
        cases op <;> first | rfl | exact absurd ⟨_, _, rfl⟩ hcr
      rw [hcore]
      refine ⟨h, ?_⟩
      cases op <;> first | rfl | exact absurd ⟨_, _, rfl⟩ hcr
  obtain ⟨h1, hnc⟩ := h'
  have hin : op.inner = op.core := C02b.inner_of_not_crash_core hnc
  unfold Sys.LiveDelivery Sys.OpenReplay
  rw [hin]
  generalize op.core = op0 at h1 hnc ⊢
  have hcore0 : op0.core = op0 := by cases op0 <;> first | rfl | simp [Op.isCrash] at hnc
  by_cases hao : C05.Op.isAddOrOpen op0 = true
  · cases op0 with
    | recv c t id cmd =>
      cases hx : g.sys.findConn c with
      | none => rw [recv_no_conn t id cmd hx] at h1; cases h1
      | some x =>
        cases hr : rejectText x cmd with
        | some text =>
          rw [(C17_validation_error t id hx (rejected_of_rejectText hr)).1] at h1
          exfalso
          split at h1 <;> simp at h1
        | none =>
          cases cmd with
          | add ph' bd' =>
            obtain ⟨⟨a, ha⟩, ⟨m, hm⟩, ⟨p, rfl⟩, ⟨b', rfl⟩⟩ := C05.add_accepted hr
            obtain ⟨σ, hσ⟩ : ∃ σ, x.side = some σ :=
              Option.isSome_iff_exists.1 ((hI.conn.bound x (findConn_mem hx)).1 (by simp [ha]))
            obtain ⟨e1, e2, e3, e4, e5, e6, e7⟩ := C02_unmodified hI t id p b' hx ha hσ hm h1
            subst e1 e2 e3 e4 e5 e6
            exact ⟨rfl, .inl ⟨c, x, a, m, rfl, hx, ha, hσ, hm, e7⟩⟩
          | open_ mo =>
            obtain ⟨⟨a, ha⟩, hnone, m, rfl⟩ := open_accepted hr
            obtain ⟨σ, hσ⟩ : ∃ σ, x.side = some σ :=
              Option.isSome_iff_exists.1 ((hI.conn.bound x (findConn_mem hx)).1 (by simp [ha]))
            by_cases hok : g.sys.db.openRes a m σ = .ok
            · obtain ⟨e1, e2, r, hr', k⟩ := C01_no_foreign hI t id hx ha hσ hnone hok h1
              subst e1 e2
              exact ⟨rfl, .inr ⟨t, id, x, a, σ, m, rfl, hx, ha, hσ, hnone, hok, r, hr', k⟩⟩
            · exfalso
              have := C02b.open_not_ok_noMessage (s := g.cleared) (c := c) (x := x) (a := a) (m := m) hx ha hnone
                (by rw [hσ]; exact hok) rfl t id
              exact this _ h1 _ _ _ _ _ _ _ rfl
          | _ => simp [C05.Op.isAddOrOpen] at hao
    | _ => simp [C05.Op.isAddOrOpen] at hao
  · exfalso
    have := C05.C05_no_message_unless_add_open g.sys op0 (by rw [hcore0]; simpa using hao)
    exact this _ h1 c' sd ph bd rx mid b rfl

/-- **no other step sends a `message` frame to `c'`**: a step that is neither an accepted `add` on a
    mailbox `c'` is subscribed to nor an `open` received on `c'` itself sends `c'` no `message` frame.
    In particular: no `close`, `bind`, `claim`, `release`, `allocate`, `list`, `ping`, no refused
    command, no `connect`, `drop`, sweep or restart, no command of whatever kind on a connection of
    another mailbox, and no crash inside any of these. -/
theorem C02_silent_step {g : GSys} (hI : g.GInv) (op : Op) (c' : Nat)
    (hadd : ∀ c t id ph bd x a m, op.inner = .recv c t id (.add (some ph) (some bd)) →
      g.sys.findConn c = some x → x.app = some a → x.mailbox = some m → c' ∉ g.sys.listeners a m)
    (hopen : ∀ t id m, op.inner ≠ .recv c' t id (.open_ (some m))) :
    ∀ sd ph bd rx mid b, Event.frame c' (.message sd ph bd rx mid) b ∉ (g.sys.step op).out := by
  intro sd ph bd rx mid b h
  rcases (C02_no_message_outside_add_open hI op h).2 with ⟨c, x, a, m, e, hx, ha, _, hm, hl⟩ |
      ⟨t, oid, _, _, _, m, e, _⟩
  · exact hadd c rx mid ph bd x a m e hx ha hm hl
  · exact hopen t oid m e

/-- **along a history**: every `message` frame in the trace of a well-formed history stems from one
    step of it, and in the state that step starts from it is a live delivery to a subscriber or the
    replay to an opener -/
theorem C02_message_in_trace (ops : List Op) :
    ∀ {g : GSys}, g.GInv → g.WF ops → ∀ {c' : Nat} {sd : String} {ph bd : Val} {rx : Time} {mid : Val} {b : Bool},
      Event.frame c' (.message sd ph bd rx mid) b ∈ (g.sys.run ops).2 →
      ∃ p1 op p2, ops = p1 ++ op :: p2 ∧
        Event.frame c' (.message sd ph bd rx mid) b ∈ ((g.run p1).sys.step op).out ∧ b = true ∧
        ((g.run p1).sys.LiveDelivery op c' sd ph bd rx mid ∨ (g.run p1).sys.OpenReplay op c' sd ph bd rx mid) := by
  induction ops with
  | nil => intro g _ _ c' sd ph bd rx mid b h; cases h
  | cons op rest ih =>
    intro g hI hwf c' sd ph bd rx mid b h
    simp only [Sys.run, List.mem_append] at h
    rcases h with h | h
    · obtain ⟨k1, k2⟩ := C02_no_message_outside_add_open hI op h
      exact ⟨[], op, rest, rfl, h, k1, k2⟩
    · obtain ⟨p1, op', p2, e, k0, k1, k2⟩ := ih (g := g.step op) (hI.step op hwf.1) hwf.2 h
      exact ⟨op :: p1, op', p2, by rw [e]; rfl, k0, k1, k2⟩

/-- the same for the histories from the initial state -/
theorem C02_message_in_trace' (cfg : Cfg) (rb : Time) (ops : List Op) (hwf : (GSys.init cfg rb).WF ops)
    {c' : Nat} {sd : String} {ph bd : Val} {rx : Time} {mid : Val} {b : Bool}
    (h : Event.frame c' (.message sd ph bd rx mid) b ∈ ((GSys.init cfg rb).sys.run ops).2) :
    ∃ p1 op p2, ops = p1 ++ op :: p2 ∧
      Event.frame c' (.message sd ph bd rx mid) b ∈ (((GSys.init cfg rb).run p1).sys.step op).out ∧ b = true ∧
      (((GSys.init cfg rb).run p1).sys.LiveDelivery op c' sd ph bd rx mid ∨
        ((GSys.init cfg rb).run p1).sys.OpenReplay op c' sd ph bd rx mid) :=
  C02_message_in_trace ops (GSys.GInv.init cfg rb) hwf h

/-! ## non-vacuity: a reachable state with two subscribers of ("A","m") and a third, bound connection -/

namespace C02bEx

/-- connections 1 (side "s1") and 2 (side "s2") of app "A" are subscribed to "m", which stores one
    message; connection 3 (side "s1" again) is bound and holds no handle -/
def hist : List Op :=
  [.connect 1, .recv 1 1 .null (.bind (some "A") (some "s1") none none),
   .recv 1 2 .null (.open_ (some "m")),
   .recv 1 3 (.str "i1") (.add (some (.str "ph")) (some (.str "bd"))),
   .connect 2, .recv 2 4 .null (.bind (some "A") (some "s2") none none),
   .recv 2 5 .null (.open_ (some "m")),
   .connect 3, .recv 3 6 .null (.bind (some "A") (some "s1") none none)]

theorem hist_wf : (GSys.init {} 0).WF hist := GSys.wfB_sound (by decide +kernel)

def g : GSys := (GSys.init {} 0).run hist

theorem g_reach : g.Reach := GSys.reach_run (.init {} 0) hist hist_wf

def x1 : Conn :=
  { id := 1, app := some "A", side := some "s1", listening := true, mailbox := some "m", mailboxId := some "m" }
def x3 : Conn := { id := 3, app := some "A", side := some "s1" }

/-- (a): the hypotheses of `C02_delivery'` hold for connection 1 adding after `hist`; the ghost
    subscriber set is {1, 2} -/
example := C02_delivery' {} 0 hist hist_wf (c := 1) (x := x1) (a := "A") (σ := "s1") (m := "m") 7 (.int 7)
  (.str "p2") (.str "b2") (by decide +kernel) rfl rfl rfl
example : subsLog "A" "m" {} 0 hist = [1, 2] := by decide +kernel

/-- (b), live delivery: connection 1 adds; the frame sent to connection 2 is classified ... -/
example := C02_no_message_outside_add_open g_reach.ginv
  (.recv 1 7 (.int 7) (.add (some (.str "p2")) (some (.str "b2"))))
  (c' := 2) (sd := "s1") (ph := .str "p2") (bd := .str "b2") (rx := 7) (mid := .int 7) (b := true)
  (by decide +kernel)

/-- ... as `LiveDelivery`, with these witnesses -/
example : g.sys.LiveDelivery (.recv 1 7 (.int 7) (.add (some (.str "p2")) (some (.str "b2")))) 2 "s1"
    (.str "p2") (.str "b2") 7 (.int 7) :=
  ⟨1, x1, "A", "m", rfl, by decide +kernel, rfl, rfl, rfl, by decide +kernel⟩

/-- the same `add` killed after its commit (`crashIn 2`: the step commits once, so the whole output was
    sent): the theorem classifies the wrapped operation; killed AT the commit (`crashIn 1`) no `message`
    frame was sent -/
example := C02_no_message_outside_add_open g_reach.ginv
  (.crashIn 2 (.recv 1 7 (.int 7) (.add (some (.str "p2")) (some (.str "b2")))))
  (c' := 2) (sd := "s1") (ph := .str "p2") (bd := .str "b2") (rx := 7) (mid := .int 7) (b := true)
  (by decide +kernel)
example : (g.sys.step (.crashIn 1 (.recv 1 7 (.int 7) (.add (some (.str "p2")) (some (.str "b2")))))).out =
    [.frame 1 (.ack (.int 7)) true, .commit .chan] := by decide +kernel

/-- (b), replay: connection 3 opens "m" and is replayed the stored message -- nobody else is sent
    anything -/
example := C02_no_message_outside_add_open g_reach.ginv (.recv 3 7 .null (.open_ (some "m")))
  (c' := 3) (sd := "s1") (ph := .str "ph") (bd := .str "bd") (rx := 3) (mid := .str "i1") (b := true)
  (by decide +kernel)

example : g.sys.OpenReplay (.recv 3 7 .null (.open_ (some "m"))) 3 "s1" (.str "ph") (.str "bd") 3 (.str "i1") :=
  ⟨7, .null, x3, "A", "s1", "m", rfl, by decide +kernel, rfl, rfl, rfl, by decide +kernel,
    ⟨"A", "m", "s1", .str "ph", .str "bd", 3, .str "i1"⟩, by decide +kernel, rfl, rfl, rfl, rfl, rfl, rfl, rfl⟩

example : (g.sys.step (.recv 3 7 .null (.open_ (some "m")))).out =
    [.frame 3 (.ack .null) true, .commit .chan,
     .frame 3 (.message "s1" (.str "ph") (.str "bd") 3 (.str "i1")) true] := by decide +kernel

/-- `C02_silent_step`: connection 1's `close` (the other side stays open) sends subscriber 2 no
    `message` frame; neither does a sweep, nor connection 3's `open` -/
example := C02_silent_step g_reach.ginv (.recv 1 7 .null (.close none none)) 2
  (by intro c t id ph bd x a m h; cases h) (by intro t id m h; cases h)
example := C02_silent_step g_reach.ginv (.sweep 100 false) 2
  (by intro c t id ph bd x a m h; cases h) (by intro t id m h; cases h)
example := C02_silent_step g_reach.ginv (.recv 3 7 .null (.open_ (some "m"))) 2
  (by intro c t id ph bd x a m h; cases h) (by intro t id m h; cases h)

/-- `C02_message_in_trace'`: the replay frame sent to connection 2 at its `open` (seventh operation) -/
example := C02_message_in_trace' {} 0 hist hist_wf
  (c' := 2) (sd := "s1") (ph := .str "ph") (bd := .str "bd") (rx := 3) (mid := .str "i1") (b := true)
  (by decide +kernel)

end C02bEx

#print axioms C02_delivery'
#print axioms C02_no_message_outside_add_open
#print axioms C02_silent_step
#print axioms C02_message_in_trace
#print axioms C02_message_in_trace'

end Wormhole
