/-
  C11 — restarting the server is invisible to reconnecting clients.

  WHAT THIS FILE ESTABLISHES, AND WHAT IT DOES NOT.

  In the model, `Sys.restart s t = { s with db := s.disk, udb := s.udisk, conns := [], rebooted := t }`.
  The model has NO registry of `AppNamespace` / `Mailbox` objects: on the repaired tree a
  connection resolves its namespace on every use and drops its handle when the mailbox is
  deleted, so the listeners of a mailbox are a function of the connection records (Sys.lean).
  Consequently, in the model:
  (1) `restart_of_quiet`: a restart of a state with nothing uncommitted and no live
      connection is the identity up to the field `rebooted`;
  (2) `rebooted` is read by exactly one function, `dump_stats`, which copies it into the
      usage `current` row.  `C11_step` is the simulation: two states that agree on everything
      except `rebooted` and the `current` row (`RebootEq`) stay so under every operation other
      than a crash, with EQUAL events — except that the effective usage commit with which
      `dump_stats` ends a sweep may happen in one run and not in the other (the `current` rows
      differ); for operations other than `sweep` the events are equal without exception;
  (3) `C11_restart_invisible`: for every history `H₁`, the state reached by dropping every
      connection alive after `H₁`, every continuation `H₂` (commands, reconnects, sweeps
      before/between/after the reconnects, further restarts) and every restart time `t`:
      `run (H₁ ++ dropAll ++ [restart t] ++ H₂)` and `run (H₁ ++ dropAll ++ H₂)` produce the same
      frames (addressee, content, `synced` flag, order), the same events altogether once
      usage commits are erased, and end with the same channel database (five tables and the
      id counter, as seen by the process and as committed), the same connection records, the
      same configuration and the same usage tables `nameplates`, `mailboxes`, `client_versions`.
  NOT equal, and not claimed: the field `rebooted`, and the `rebooted` column of the usage
  `current` row after the first sweep of `H₂` (`C11Example.current_differs`), hence whether the
  usage commit of that `dump_stats` is effective (`C11Example.raw_traces_differ`).

  That the CODE — which does have the registry of namespace and mailbox objects, emptied by a
  restart and garbage-collected by sweeps under its own rules (F-split-namespace before repair
  C) — behaves like this object-free model across restarts and sweeps is NOT proved here: it is
  what the correspondence check (model = implementation on every generated history, restarts
  at every index) and the two-run oracle on the implementation (kept `Server` object vs. a new
  `make_server` on the reopened files) establish.  This theorem says that the model, hence
  the specification the code is checked against, has the property.

  Hypotheses: none on the histories beyond "no `crashIn`" (no well-formedness needed); the
  start state is any state with nothing uncommitted and the nameplate tables in order
  (`NpOk`, Inv/NpOk.lean; needed for C09's "every frame is sent synced" in both runs), in
  particular the initial state of any configuration (`C11_restart_invisible_init`).
  Crashes are not covered (`crashIn` inside `H₂` is comparable here in principle — the same
  commits are effective in both runs except `dump_stats`' — but it is not proved).

  Proof: the generic two-run walk (Inv/SimCore.lean, Inv/SimWs.lean) instantiated with
  `Sys.RebRel` (Inv/SimReboot.lean), then `dump_stats` by hand.
-/
import Wormhole.Inv.SimReboot
import Wormhole.Props.C09

namespace Wormhole
open Sys

/-- The relation between the two runs, between operations: same channel side, same
    configuration, same usage tables except `current` (pending and committed), nothing
    uncommitted.  `rebooted`, `udb.current`, `udisk.current` are unconstrained. -/
structure RebootEq (s₁ s₂ : Sys) : Prop where
  chan : ChanEq s₁ s₂
  cfg : s₁.cfg = s₂.cfg
  unp : s₁.udb.nameplates = s₂.udb.nameplates
  umb : s₁.udb.mailboxes = s₂.udb.mailboxes
  ucl : s₁.udb.clients = s₂.udb.clients
  dnp : s₁.udisk.nameplates = s₂.udisk.nameplates
  dmb : s₁.udisk.mailboxes = s₂.udisk.mailboxes
  dcl : s₁.udisk.clients = s₂.udisk.clients
  synced₁ : s₁.Synced
  synced₂ : s₂.Synced

/-! ### (1) a restart without live connections -/

/-- a restart of a state with nothing uncommitted and no connection changes `rebooted` only -/
theorem restart_of_quiet (s : Sys) (t : Time) (hS : s.Synced) (hC : s.conns = []) :
    s.restart t = { s with rebooted := t } := by
  obtain ⟨h1, h2⟩ := hS
  unfold Sys.restart
  rw [← h1, ← h2, hC]

/-- ... as an operation (a step additionally starts with `out`, `snaps` cleared, and a restart
    emits nothing) -/
theorem step_restart_of_quiet (s : Sys) (t : Time) (hS : s.Synced) (hC : s.conns = []) :
    s.step (.restart t) = { s with rebooted := t, out := [], snaps := [] } := by
  obtain ⟨h1, h2⟩ := hS
  show ({ s with out := [], snaps := [] } : Sys).restart t = _
  unfold Sys.restart
  simp only []
  rw [← h1, ← h2, hC]

theorem rebootEq_restart_of_quiet (s : Sys) (t : Time) (hS : s.Synced) (hC : s.conns = []) :
    RebootEq (s.step (.restart t)) s := by
  rw [step_restart_of_quiet s t hS hC]
  exact ⟨⟨rfl, rfl, rfl⟩, rfl, rfl, rfl, rfl, rfl, rfl, rfl, hS, hS⟩

/-! ### (2) the simulation -/

private theorem core_of {u v : Usage} (h1 : u.nameplates = v.nameplates) (h2 : u.mailboxes = v.mailboxes)
    (h3 : u.clients = v.clients) : u.core = v.core := by
  simp [Usage.core, h1, h2, h3]

private theorem of_core {u v : Usage} (h : u.core = v.core) :
    u.nameplates = v.nameplates ∧ u.mailboxes = v.mailboxes ∧ u.clients = v.clients := by
  simpa [Usage.core] using h

/-- **C11, one operation.**  For all states related by `RebootEq` (arbitrary `rebooted` and
    `current` rows on both sides) with the nameplate tables in order, and every operation other
    than a crash: the states after the operation are related again (and the nameplate tables in
    order again); the events of the step are equal up to the trailing usage commit of
    `dump_stats`, and equal outright when the operation is not a sweep. -/
theorem C11_step {s₁ s₂ : Sys} (h : RebootEq s₁ s₂) (hn : s₁.db.NpOk) (op : Op) (hop : op.isCrash = false) :
    RebootEq (s₁.step op) (s₂.step op) ∧ (s₁.step op).db.NpOk ∧
      EqUpToDump (s₁.step op).out (s₂.step op).out ∧
      ((∀ now fault, op ≠ .sweep now fault) → (s₁.step op).out = (s₂.step op).out) := by
  rw [step_eq_of_not_crash s₁ hop, step_eq_of_not_crash s₂ hop]
  have hn2 : s₂.db.NpOk := by rw [← h.chan.1]; exact hn
  have w : W RebRel ({ s₁ with out := [], snaps := [] } : Sys) ({ s₂ with out := [], snaps := [] } : Sys) :=
    ⟨⟨h.chan, h.cfg, rfl, core_of h.unp h.umb h.ucl, core_of h.dnp h.dmb h.dcl,
      congrArg Usage.current h.synced₁.2, congrArg Usage.current h.synced₂.2⟩,
     Ok.clear h.synced₁ hn, Ok.clear h.synced₂ hn2⟩
  have fin : ∀ {a b : Sys}, W RebRel a b →
      RebootEq a b ∧ a.db.NpOk ∧ EqUpToDump a.out b.out ∧ ((∀ now fault, op ≠ .sweep now fault) → a.out = b.out) := by
    intro a b w'
    obtain ⟨u1, u2, u3⟩ := of_core w'.rel.udb
    obtain ⟨d1, d2, d3⟩ := of_core w'.rel.udisk
    exact ⟨⟨w'.rel.chan, w'.rel.cfg, u1, u2, u3, d1, d2, d3, w'.oka.synced, w'.okb.synced⟩, w'.oka.np,
      EqUpToDump.of_eq w'.rel.out, fun _ => w'.rel.out⟩
  cases op with
  | connect c => exact fin (w.connect rebRel_simRel c)
  | recv c t id cmd => exact fin (w.onMessage rebRel_simRel c t id cmd)
  | drop c => exact fin (w.dropConn rebRel_simRel c)
  | restart t => exact fin (w.restart rebRel_simRel t)
  | crashIn k op => simp [Op.isCrash] at hop
  | sweep now fault =>
    have w1 := w.expireCore rebRel_simRel now fault
    obtain ⟨hc, hcfg, hu, hd, ho⟩ := w1.rel.dumpStats now
    obtain ⟨u1, u2, u3⟩ := of_core hu
    obtain ⟨d1, d2, d3⟩ := of_core hd
    have oa := w1.oka.dumpStats now
    have ob := w1.okb.dumpStats now
    exact ⟨⟨hc, hcfg, u1, u2, u3, d1, d2, d3, oa.synced, ob.synced⟩, oa.np, ho,
      fun hs => absurd rfl (hs now fault)⟩

/-- frames are not touched by `eraseUsage` -/
theorem filter_isFrame_eraseUsage (l : List Event) :
    (l.filterMap eraseUsage).filter Event.isFrame = l.filter Event.isFrame := by
  induction l with
  | nil => rfl
  | cons e l ih =>
    cases e with
    | commit w =>
      cases w
      · simp only [List.filterMap_cons, eraseUsage, List.filter_cons, Event.isFrame, ih]; simp
      · simp only [List.filterMap_cons, eraseUsage, List.filter_cons, Event.isFrame, ih]; simp
    | frame c f b => simp only [List.filterMap_cons, eraseUsage, List.filter_cons, Event.isFrame, ih]
    | internal c cls => simp only [List.filterMap_cons, eraseUsage, List.filter_cons, Event.isFrame, ih]; simp
    | fired a b => simp only [List.filterMap_cons, eraseUsage, List.filter_cons, Event.isFrame, ih]; simp

theorem frames_eq_of_eraseUsage_eq {l₁ l₂ : List Event}
    (h : l₁.filterMap eraseUsage = l₂.filterMap eraseUsage) :
    l₁.filter Event.isFrame = l₂.filter Event.isFrame := by
  rw [← filter_isFrame_eraseUsage l₁, ← filter_isFrame_eraseUsage l₂, h]

/-- **C11, histories from related states.**  The traces are equal once usage commits are erased
    (by `C11_step` the only ones that can differ are those ending a sweep). -/
theorem C11_run (ops : List Op) (hops : ∀ op ∈ ops, op.isCrash = false) :
    ∀ {s₁ s₂ : Sys}, RebootEq s₁ s₂ → s₁.db.NpOk →
      RebootEq (Sys.run s₁ ops).1 (Sys.run s₂ ops).1 ∧ (Sys.run s₁ ops).1.db.NpOk ∧
        (Sys.run s₁ ops).2.filterMap eraseUsage = (Sys.run s₂ ops).2.filterMap eraseUsage := by
  induction ops with
  | nil => intro s₁ s₂ h hn; exact ⟨h, hn, rfl⟩
  | cons op rest ih =>
    intro s₁ s₂ h hn
    obtain ⟨h1, n1, o1, _⟩ := C11_step h hn op (hops op (by simp))
    obtain ⟨h2, n2, o2⟩ := ih (fun o ho => hops o (by simp [ho])) h1 n1
    simp only [Sys.run]
    exact ⟨h2, n2, by rw [List.filterMap_append, List.filterMap_append, o1.eraseUsage, o2]⟩

/-! ### (3) the property -/

/-- the operations that drop every live connection of `s` -/
def dropAll (s : Sys) : List Op := s.conns.map (fun x => Op.drop x.id)

theorem c11_run_append (s : Sys) (l₁ l₂ : List Op) :
    Sys.run s (l₁ ++ l₂) =
      ((Sys.run (Sys.run s l₁).1 l₂).1, (Sys.run s l₁).2 ++ (Sys.run (Sys.run s l₁).1 l₂).2) := by
  induction l₁ generalizing s with
  | nil => simp [Sys.run]
  | cons op rest ih => simp [Sys.run, ih]

theorem c11_run_drops_conns (l : List Nat) :
    ∀ s : Sys, (Sys.run s (l.map Op.drop)).1.conns = s.conns.filter (fun x => x.id ∉ l) := by
  induction l with
  | nil =>
    intro s
    simp only [List.map_nil, Sys.run, List.not_mem_nil, not_false_eq_true, decide_true]
    exact (List.filter_eq_self.2 (fun _ _ => rfl)).symm
  | cons c l ih =>
    intro s
    simp only [List.map_cons, Sys.run]
    rw [ih]
    show (s.conns.filter (fun x => ¬ x.id = c)).filter _ = _
    rw [List.filter_filter]
    congr 1
    funext x
    simp only [List.mem_cons, not_or]
    by_cases h1 : x.id = c <;> by_cases h2 : x.id ∈ l <;> simp [h1, h2]

/-- after `dropAll` no connection is left -/
theorem run_dropAll_conns (s : Sys) : (Sys.run s (dropAll s)).1.conns = [] := by
  have : dropAll s = (s.conns.map (·.id)).map Op.drop := by simp [dropAll, List.map_map, Function.comp_def]
  rw [this, c11_run_drops_conns, List.filter_eq_nil_iff]
  intro x hx
  have : x.id ∈ s.conns.map (·.id) := List.mem_map.2 ⟨x, hx, rfl⟩
  simpa using this

theorem dropAll_noCrash (s : Sys) : ∀ op ∈ dropAll s, op.isCrash = false := by
  intro op hop
  simp only [dropAll, List.mem_map] at hop
  obtain ⟨x, _, rfl⟩ := hop
  rfl

/-- **C11.**  From any state `s₀` with nothing uncommitted and the nameplate tables in order:
    for every `H₁`, `H₂` without crashes, `s` the state after `H₁`, and every restart time `t`,
    the run with a restart right after all connections of `s` were dropped and the run without
    it have the same events up to usage commits, the same frames, and end in states that agree
    on the channel database (seen and committed: five tables and the id counter each), the
    connection records, the configuration and the usage tables `nameplates`, `mailboxes`,
    `client_versions` (`RebootEq`; both with nothing uncommitted). -/
theorem C11_restart_invisible (s₀ : Sys) (hS : s₀.Synced) (hN : s₀.db.NpOk) (H₁ H₂ : List Op)
    (h1 : ∀ op ∈ H₁, op.isCrash = false) (h2 : ∀ op ∈ H₂, op.isCrash = false) (t : Time) :
    let s := (Sys.run s₀ H₁).1
    let A := Sys.run s₀ (H₁ ++ dropAll s ++ [.restart t] ++ H₂)
    let B := Sys.run s₀ (H₁ ++ dropAll s ++ H₂)
    A.2.filterMap eraseUsage = B.2.filterMap eraseUsage ∧
      A.2.filter Event.isFrame = B.2.filter Event.isFrame ∧
      RebootEq A.1 B.1 := by
  intro s A B
  -- the common prefix
  have hpre : ∀ op ∈ H₁ ++ dropAll s, op.isCrash = false := by
    intro op hop
    rcases List.mem_append.1 hop with h | h
    · exact h1 op h
    · exact dropAll_noCrash s op h
  obtain ⟨_, hS', hN'⟩ := C09_frames_synced s₀ (H₁ ++ dropAll s) hpre hS hN
  have hC' : (Sys.run s₀ (H₁ ++ dropAll s)).1.conns = [] := by
    rw [c11_run_append]; exact run_dropAll_conns s
  -- the state after the restart is related to the state without it
  have hR := rebootEq_restart_of_quiet (Sys.run s₀ (H₁ ++ dropAll s)).1 t hS' hC'
  have hNr : ((Sys.run s₀ (H₁ ++ dropAll s)).1.step (.restart t)).db.NpOk := by
    rw [hR.chan.1]; exact hN'
  obtain ⟨hfin, _, htr⟩ := C11_run H₂ h2 hR hNr
  have hout : ((Sys.run s₀ (H₁ ++ dropAll s)).1.step (.restart t)).out = [] := by
    rw [step_restart_of_quiet _ t hS' hC']
  have eA : A = ((Sys.run ((Sys.run s₀ (H₁ ++ dropAll s)).1.step (.restart t)) H₂).1,
      (Sys.run s₀ (H₁ ++ dropAll s)).2 ++
        (Sys.run ((Sys.run s₀ (H₁ ++ dropAll s)).1.step (.restart t)) H₂).2) := by
    show Sys.run s₀ (H₁ ++ dropAll s ++ [.restart t] ++ H₂) = _
    rw [List.append_assoc (H₁ ++ dropAll s), c11_run_append s₀ (H₁ ++ dropAll s)]
    simp only [List.singleton_append, Sys.run, hout, List.nil_append]
  have eB : B = ((Sys.run (Sys.run s₀ (H₁ ++ dropAll s)).1 H₂).1,
      (Sys.run s₀ (H₁ ++ dropAll s)).2 ++ (Sys.run (Sys.run s₀ (H₁ ++ dropAll s)).1 H₂).2) :=
    c11_run_append s₀ (H₁ ++ dropAll s) H₂
  have hev : A.2.filterMap eraseUsage = B.2.filterMap eraseUsage := by
    rw [eA, eB]
    simp only [List.filterMap_append, htr]
  refine ⟨hev, frames_eq_of_eraseUsage_eq hev, ?_⟩
  rw [eA, eB]
  exact hfin

/-- the same from the initial state of any configuration -/
theorem C11_restart_invisible_init (cfg : Cfg) (rb : Time) (H₁ H₂ : List Op)
    (h1 : ∀ op ∈ H₁, op.isCrash = false) (h2 : ∀ op ∈ H₂, op.isCrash = false) (t : Time) :
    let s := (Sys.run ({ cfg := cfg, rebooted := rb } : Sys) H₁).1
    let A := Sys.run ({ cfg := cfg, rebooted := rb } : Sys) (H₁ ++ dropAll s ++ [.restart t] ++ H₂)
    let B := Sys.run ({ cfg := cfg, rebooted := rb } : Sys) (H₁ ++ dropAll s ++ H₂)
    A.2.filterMap eraseUsage = B.2.filterMap eraseUsage ∧
      A.2.filter Event.isFrame = B.2.filter Event.isFrame ∧
      A.1.db = B.1.db ∧ A.1.disk = B.1.disk ∧ A.1.conns = B.1.conns ∧
      A.1.udb.nameplates = B.1.udb.nameplates ∧ A.1.udb.mailboxes = B.1.udb.mailboxes ∧
      A.1.udb.clients = B.1.udb.clients := by
  intro s A B
  obtain ⟨a, b, c⟩ := C11_restart_invisible _ (init_synced cfg rb) (init_npOk cfg rb) H₁ H₂ h1 h2 t
  exact ⟨a, b, c.chan.1, c.chan.2.1, c.chan.2.2, c.unp, c.umb, c.ucl⟩

/-! ### Non-vacuity -/

namespace C11Example

def start : Sys := { cfg := { usage := true }, rebooted := 0 }

/-- the first client claims nameplate "4", opens the mailbox, stores a message and goes away; two more
    connections are made (and stay unbound); a sweep -/
def H₁ : List Op :=
  [ .connect 1,
    .recv 1 10 (.int 1) (.bind (some "app") (some "s1") none none),
    .recv 1 11 (.int 2) (.claim (some "4") "mb1"),
    .recv 1 12 (.int 3) (.open_ (some "mb1")),
    .recv 1 13 (.int 4) (.add (some (.str "pake")) (some (.str "body"))),
    .connect 2,
    .drop 1,
    .connect 4,
    .sweep 100 false ]

/-- after the reconnection point: a sweep first (same time as the last one, so that the
    `current` row of the run without restart does not change), then the second client
    reconnects, claims the same nameplate, opens (gets the stored message replayed), closes -/
def H₂ : List Op :=
  [ .sweep 100 false,
    .connect 3,
    .recv 3 101 (.int 1) (.bind (some "app") (some "s2") none none),
    .recv 3 102 (.int 2) (.claim (some "4") "mb2"),
    .recv 3 103 (.int 3) (.open_ (some "mb1")),
    .sweep 200 false,
    .recv 3 201 (.int 4) (.close (some "mb1") (some "happy")) ]

def s : Sys := (Sys.run start H₁).1
def A : Sys × List Event := Sys.run start (H₁ ++ dropAll s ++ [.restart 50] ++ H₂)
def B : Sys × List Event := Sys.run start (H₁ ++ dropAll s ++ H₂)

/-- the hypotheses of `C11_restart_invisible` hold, and two connections are alive after `H₁` (next example) -/
example : start.Synced ∧ start.db.NpOk ∧ (∀ op ∈ H₁, op.isCrash = false) ∧ (∀ op ∈ H₂, op.isCrash = false) :=
  ⟨init_synced _ _, init_npOk _ _, by decide, by decide⟩

example : (dropAll s).length = 2 := by decide +kernel

/-- evaluated, not derived: the frames are equal, there are 17 of them, the stored message is
    replayed to the reconnected client in both runs, and the final channel databases are equal
    and not empty -/
example : A.2.filter Event.isFrame = B.2.filter Event.isFrame ∧ (A.2.filter Event.isFrame).length = 17 ∧
    Event.frame 3 (.message "s1" (.str "pake") (.str "body") 13 (.str "4")) true ∈ A.2 ∧
    A.1.db = B.1.db ∧ A.1.db.mailboxes.length = 1 ∧ A.1.db.messages.length = 1 := by
  decide +kernel

/-- what is NOT equal: the `rebooted` column of the `current` row ... -/
theorem current_differs : A.1.udb.current ≠ B.1.udb.current ∧ A.1.rebooted ≠ B.1.rebooted := by
  decide +kernel

example : A.1.udb.current.map (·.rebooted) = [50] ∧ B.1.udb.current.map (·.rebooted) = [0] := by
  decide +kernel

/-- ... and hence the raw traces: the first sweep of `H₂` ends with an effective usage commit
    in the restarted run only -/
theorem raw_traces_differ : A.2 ≠ B.2 ∧ A.2.length = B.2.length + 1 ∧
    A.2.filterMap eraseUsage = B.2.filterMap eraseUsage := by
  decide +kernel

/-- `restart_of_quiet` on the state after `H₁ ++ dropAll`: nothing uncommitted, no connection -/
example : (Sys.run start (H₁ ++ dropAll s)).1.conns = [] ∧
    (Sys.run start (H₁ ++ dropAll s)).1.db = (Sys.run start (H₁ ++ dropAll s)).1.disk ∧
    (Sys.run start (H₁ ++ dropAll s)).1.db.mailboxes.length = 1 := by
  decide +kernel

/-- a non-trivial instance of `RebootEq` (different `rebooted`, different `current` rows) -/
example : RebootEq
    { start with udb := { current := [⟨7, 8, none, 0⟩] }, udisk := { current := [⟨7, 8, none, 0⟩] }, rebooted := 7 }
    { start with udb := { current := [] }, udisk := { current := [] }, rebooted := 0 } :=
  ⟨⟨rfl, rfl, rfl⟩, rfl, rfl, rfl, rfl, rfl, rfl, rfl, ⟨rfl, rfl⟩, ⟨rfl, rfl⟩⟩

end C11Example

end Wormhole

#print axioms Wormhole.restart_of_quiet
#print axioms Wormhole.C11_step
#print axioms Wormhole.C11_run
#print axioms Wormhole.C11_restart_invisible
#print axioms Wormhole.C11_restart_invisible_init
