/-
  C19 — database files are created atomically and never clobbered.

  Theorems about the step model of `database.py` in `Wormhole/DbFile.lean`.  A crash after
  `k` steps leaves `(runN cx k m).dir`; every statement below quantifies over ALL `k`, all
  directories and all contents (no bounds).  The generic theorems (`…_generic`) hold for any
  configuration whose schema script passes `scriptOk`; `C19_…` instantiate them with the two
  configurations built from `Wormhole.Generated` (`channelCfg`, `usageCfg`), whose
  side conditions are re-proved by kernel evaluation whenever the SQL files change.
-/
import Wormhole.DbFile

namespace Wormhole.DbFile

/-! ## Directory lemmas -/

theorem lookupP_eraseP_self (p : Path) (l : List (Path × Content)) :
    lookupP p (eraseP p l) = none := by
  induction l with
  | nil => rfl
  | cons e r ih =>
    obtain ⟨q, c⟩ := e
    by_cases h : q = p <;> simp [eraseP, lookupP, h, ih]

theorem lookupP_eraseP_ne {p q : Path} (h : ¬ q = p) (l : List (Path × Content)) :
    lookupP p (eraseP q l) = lookupP p l := by
  induction l with
  | nil => rfl
  | cons e r ih =>
    obtain ⟨x, c⟩ := e
    by_cases h1 : x = q
    · subst h1
      simp [eraseP, lookupP, h, ih]
    · by_cases h2 : x = p
      · subst h2
        simp [eraseP, lookupP, h1]
      · simp [eraseP, lookupP, h1, h2, ih]

theorem eraseP_eraseP (p : Path) (l : List (Path × Content)) :
    eraseP p (eraseP p l) = eraseP p l := by
  induction l with
  | nil => rfl
  | cons e r ih =>
    obtain ⟨q, c⟩ := e
    by_cases h : q = p <;> simp [eraseP, h, ih]

@[simp] theorem Dir.get_set_self (d : Dir) (p : Path) (c : Content) :
    (d.set p c).get p = some c := by
  simp [Dir.set, Dir.get, lookupP]

theorem Dir.get_set_ne (d : Dir) {p q : Path} (c : Content) (h : ¬ p = q) :
    (d.set p c).get q = d.get q := by
  simp [Dir.set, Dir.get, lookupP, h, lookupP_eraseP_ne h]

@[simp] theorem Dir.get_erase_self (d : Dir) (p : Path) : (d.erase p).get p = none := by
  simp [Dir.erase, Dir.get, lookupP_eraseP_self]

theorem Dir.get_erase_ne (d : Dir) {p q : Path} (h : ¬ p = q) :
    (d.erase p).get q = d.get q := by
  simp [Dir.erase, Dir.get, lookupP_eraseP_ne h]

@[simp] theorem Dir.set_set (d : Dir) (p : Path) (x y : Content) :
    (d.set p x).set p y = d.set p y := by
  simp [Dir.set, eraseP, eraseP_eraseP]

/-- the backup file is never the database file itself -/
theorem backupPath_ne (f : Path) (i : Int) : ¬ backupPath f i = f := by
  intro h
  have h1 := congrArg String.length h
  simp [backupPath, String.length_append] at h1
  have : ("-backup-v" : String).length = 9 := by decide
  omega

@[simp] theorem asDb_db (v : Db) : (Content.db v).asDb = some v := rfl
@[simp] theorem asDb_empty : (Content.junk []).asDb = some emptyDb := rfl
@[simp] theorem asDb_trunc (v : Db) : (Content.trunc v).asDb = none := rfl

/-! ## Runs -/

theorem runN_succ (cx : Ctx) (k : Nat) (m : M) : runN cx (k + 1) m = runN cx k (step1 cx m) := rfl
@[simp] theorem runN_zero (cx : Ctx) (m : M) : runN cx 0 m = m := rfl

theorem runN_add (cx : Ctx) (a b : Nat) (m : M) :
    runN cx (a + b) m = runN cx b (runN cx a m) := by
  induction a generalizing m with
  | zero => simp
  | succ a ih => rw [Nat.add_right_comm, runN_succ, ih, runN_succ]

theorem step1_halted {cx : Ctx} {m : M} (h : m.status ≠ .running) : step1 cx m = m := by
  unfold step1; split <;> simp_all

theorem runN_halted {cx : Ctx} {m : M} (h : m.status ≠ .running) (k : Nat) :
    runN cx k m = m := by
  induction k with
  | zero => rfl
  | succ k ih => rw [runN_succ, step1_halted h, ih]

theorem runN_ge {cx : Ctx} {m : M} {n : Nat} (hh : (runN cx n m).status ≠ .running)
    {k : Nat} (h : n ≤ k) : runN cx k m = runN cx n m := by
  have : k = n + (k - n) := by omega
  rw [this, runN_add, runN_halted hh]

/-- a property of all states up to a halted one holds for every prefix length -/
theorem all_prefixes {cx : Ctx} {m : M} {P : M → Prop} (n : Nat)
    (hseg : ∀ j, j ≤ n → P (runN cx j m)) (hh : (runN cx n m).status ≠ .running) :
    ∀ k, P (runN cx k m) := by
  intro k
  by_cases h : k ≤ n
  · exact hseg k h
  · rw [runN_ge hh (by omega)]
    exact hseg n (Nat.le_refl n)

theorem dir_const {cx : Ctx} {m : M} {d : Dir} (n : Nat)
    (hseg : ∀ j, j ≤ n → (runN cx j m).dir = d) (hh : (runN cx n m).status ≠ .running) :
    ∀ k, (runN cx k m).dir = d :=
  all_prefixes (P := fun m => m.dir = d) n hseg hh

theorem seg_trans {cx : Ctx} {m m' : M} {P : M → Prop} {a b : Nat}
    (h1 : ∀ j, j ≤ a → P (runN cx j m)) (e : runN cx a m = m')
    (h2 : ∀ j, j ≤ b → P (runN cx j m')) : ∀ j, j ≤ a + b → P (runN cx j m) := by
  intro j hj
  by_cases h : j ≤ a
  · exact h1 j h
  · have : j = a + (j - a) := by omega
    rw [this, runN_add, e]
    exact h2 _ (by omega)

theorem forall_le_succ {P : Nat → Prop} {n : Nat} :
    (∀ j, j ≤ n + 1 → P j) ↔ P 0 ∧ ∀ j, j ≤ n → P (j + 1) := by
  constructor
  · intro h; exact ⟨h 0 (by omega), fun j hj => h (j + 1) (by omega)⟩
  · rintro ⟨h0, h⟩ j hj
    cases j with
    | zero => exact h0
    | succ j => exact h j (by omega)

/-- the run from `m` halts with status `st` and directory `d'` -/
def HaltsWith (cx : Ctx) (m : M) (st : Status) (d' : Dir) : Prop :=
  st ≠ .running ∧ ∃ n, ∀ k, n ≤ k → (runN cx k m).status = st ∧ (runN cx k m).dir = d'

theorem haltsWith_of {cx : Ctx} {m : M} {st : Status} {d' : Dir} (n : Nat)
    (h1 : (runN cx n m).status = st) (hne : st ≠ .running) (h2 : (runN cx n m).dir = d') :
    HaltsWith cx m st d' := by
  refine ⟨hne, n, fun k hk => ?_⟩
  rw [runN_ge (by rw [h1]; exact hne) hk]
  exact ⟨h1, h2⟩

/-! ## Opening an existing file: keep / reject (generic configuration) -/

section open_existing
variable (cx : Ctx) (d : Dir)

/-- **keep**, `_get_db`: an existing database whose first `version` row is the target version
    (any objects, any payload, any further rows) is opened and nothing is written -/
theorem keep_getDb (v : Db) (rest : List VerVal)
    (hd : d.get cx.dbfile = some (.db v)) (ht : hasTable v "version" = true)
    (hv : v.version = .int cx.cfg.target :: rest) (hfk : v.fkBad = false) :
    (∀ k, (runN cx k (start .getDb d)).dir = d) ∧ HaltsWith cx (start .getDb d) .ok d := by
  have hseg : ∀ j, j ≤ 8 → (runN cx j (start .getDb d)).dir = d := by
    simp [forall_le_succ, runN_succ, start, Entry.steps, step1, exec, Dir.has, hd,
      openConn, getDbTail, M.curDb, Content.asDb, hfk, ht, hv]
  have hfin : (runN cx 8 (start .getDb d)).status = .ok := by
    simp [runN_succ, start, Entry.steps, step1, exec, Dir.has, hd,
      openConn, getDbTail, M.curDb, Content.asDb, hfk, ht, hv]
  exact ⟨dir_const 8 hseg (by rw [hfin]; simp),
    haltsWith_of 8 hfin (by simp) (hseg 8 (Nat.le_refl 8))⟩

/-- **keep**, `open_existing_db`: any readable database without foreign-key problems -/
theorem keep_openOnly (c : Content) (v : Db)
    (hd : d.get cx.dbfile = some c) (hc : c.asDb = some v) (hfk : v.fkBad = false) :
    (∀ k, (runN cx k (start .openOnly d)).dir = d) ∧ HaltsWith cx (start .openOnly d) .ok d := by
  have hseg : ∀ j, j ≤ 5 → (runN cx j (start .openOnly d)).dir = d := by
    simp [forall_le_succ, runN_succ, start, Entry.steps, step1, exec, Dir.has, hd,
      openConn, M.curDb, hc, hfk]
  have hfin : (runN cx 5 (start .openOnly d)).status = .ok := by
    simp [runN_succ, start, Entry.steps, step1, exec, Dir.has, hd, openConn, M.curDb, hc, hfk]
  exact ⟨dir_const 5 hseg (by rw [hfin]; simp),
    haltsWith_of 5 hfin (by simp) (hseg 5 (Nat.le_refl 5))⟩

/-- **reject**: bytes SQLite does not accept (non-empty junk, truncated database): `DBError`
    from the first statement that reads the file; nothing written.  Both opening entry points. -/
theorem reject_unreadable (e : Entry) (he : e = .getDb ∨ e = .openOnly) (c : Content)
    (hd : d.get cx.dbfile = some c) (hc : c.asDb = none) :
    (∀ k, (runN cx k (start e d)).dir = d) ∧
      HaltsWith cx (start e d) (.failed .dbError) d := by
  have hseg : ∀ j, j ≤ 4 → (runN cx j (start e d)).dir = d := by
    rcases he with rfl | rfl <;>
    simp [forall_le_succ, runN_succ, start, Entry.steps, step1, exec, Dir.has, hd,
      openConn, getDbTail, M.curDb, hc, M.fail]
  have hfin : (runN cx 4 (start e d)).status = .failed .dbError := by
    rcases he with rfl | rfl <;>
    simp [runN_succ, start, Entry.steps, step1, exec, Dir.has, hd,
      openConn, getDbTail, M.curDb, hc, M.fail]
  exact ⟨dir_const 4 hseg (by rw [hfin]; simp),
    haltsWith_of 4 hfin (by simp) (hseg 4 (Nat.le_refl 4))⟩

/-- **reject**: a database that fails `PRAGMA foreign_key_check`: `DBError`, nothing written -/
theorem reject_fk (e : Entry) (he : e = .getDb ∨ e = .openOnly) (c : Content) (v : Db)
    (hd : d.get cx.dbfile = some c) (hc : c.asDb = some v) (hfk : v.fkBad = true) :
    (∀ k, (runN cx k (start e d)).dir = d) ∧
      HaltsWith cx (start e d) (.failed .dbError) d := by
  have hseg : ∀ j, j ≤ 4 → (runN cx j (start e d)).dir = d := by
    rcases he with rfl | rfl <;>
    simp [forall_le_succ, runN_succ, start, Entry.steps, step1, exec, Dir.has, hd,
      openConn, getDbTail, M.curDb, hc, hfk, M.fail]
  have hfin : (runN cx 4 (start e d)).status = .failed .dbError := by
    rcases he with rfl | rfl <;>
    simp [runN_succ, start, Entry.steps, step1, exec, Dir.has, hd,
      openConn, getDbTail, M.curDb, hc, hfk, M.fail]
  exact ⟨dir_const 4 hseg (by rw [hfin]; simp),
    haltsWith_of 4 hfin (by simp) (hseg 4 (Nat.le_refl 4))⟩

/-- **reject**: no `version` table (this includes the zero-length file, which SQLite opens as
    an empty database): `sqlite3.OperationalError` escapes `_get_db`; nothing written -/
theorem reject_no_version_table (c : Content) (v : Db)
    (hd : d.get cx.dbfile = some c) (hc : c.asDb = some v) (hfk : v.fkBad = false)
    (ht : hasTable v "version" = false) :
    (∀ k, (runN cx k (start .getDb d)).dir = d) ∧
      HaltsWith cx (start .getDb d) (.failed .operationalError) d := by
  have hseg : ∀ j, j ≤ 5 → (runN cx j (start .getDb d)).dir = d := by
    simp [forall_le_succ, runN_succ, start, Entry.steps, step1, exec, Dir.has, hd,
      openConn, getDbTail, M.curDb, hc, hfk, ht, M.fail]
  have hfin : (runN cx 5 (start .getDb d)).status = .failed .operationalError := by
    simp [runN_succ, start, Entry.steps, step1, exec, Dir.has, hd,
      openConn, getDbTail, M.curDb, hc, hfk, ht, M.fail]
  exact ⟨dir_const 5 hseg (by rw [hfin]; simp),
    haltsWith_of 5 hfin (by simp) (hseg 5 (Nat.le_refl 5))⟩

/-- **reject**: empty `version` table: `TypeError` (`None["version"]`); nothing written -/
theorem reject_empty_version (c : Content) (v : Db)
    (hd : d.get cx.dbfile = some c) (hc : c.asDb = some v) (hfk : v.fkBad = false)
    (ht : hasTable v "version" = true) (hv : v.version = []) :
    (∀ k, (runN cx k (start .getDb d)).dir = d) ∧
      HaltsWith cx (start .getDb d) (.failed .typeError) d := by
  have hseg : ∀ j, j ≤ 5 → (runN cx j (start .getDb d)).dir = d := by
    simp [forall_le_succ, runN_succ, start, Entry.steps, step1, exec, Dir.has, hd,
      openConn, getDbTail, M.curDb, hc, hfk, ht, hv, M.fail]
  have hfin : (runN cx 5 (start .getDb d)).status = .failed .typeError := by
    simp [runN_succ, start, Entry.steps, step1, exec, Dir.has, hd,
      openConn, getDbTail, M.curDb, hc, hfk, ht, hv, M.fail]
  exact ⟨dir_const 5 hseg (by rw [hfin]; simp),
    haltsWith_of 5 hfin (by simp) (hseg 5 (Nat.le_refl 5))⟩

/-- **reject**: first `version` row is NULL or text: `TypeError` at `version < target` -/
theorem reject_nonint_version (c : Content) (v : Db) (x : VerVal) (rest : List VerVal)
    (hd : d.get cx.dbfile = some c) (hc : c.asDb = some v) (hfk : v.fkBad = false)
    (ht : hasTable v "version" = true) (hv : v.version = x :: rest) (hx : ∀ i, x ≠ .int i) :
    (∀ k, (runN cx k (start .getDb d)).dir = d) ∧
      HaltsWith cx (start .getDb d) (.failed .typeError) d := by
  have hseg : ∀ j, j ≤ 6 → (runN cx j (start .getDb d)).dir = d := by
    cases x with
    | int i => exact absurd rfl (hx i)
    | null | text s =>
      simp [forall_le_succ, runN_succ, start, Entry.steps, step1, exec, Dir.has, hd,
        openConn, getDbTail, M.curDb, hc, hfk, ht, hv, M.fail]
  have hfin : (runN cx 6 (start .getDb d)).status = .failed .typeError := by
    cases x with
    | int i => exact absurd rfl (hx i)
    | null | text s =>
      simp [runN_succ, start, Entry.steps, step1, exec, Dir.has, hd,
        openConn, getDbTail, M.curDb, hc, hfk, ht, hv, M.fail]
  exact ⟨dir_const 6 hseg (by rw [hfin]; simp),
    haltsWith_of 6 hfin (by simp) (hseg 6 (Nat.le_refl 6))⟩

/-- **reject**: version newer than the target: `DBError`; nothing written -/
theorem reject_newer (c : Content) (v : Db) (i : Int) (rest : List VerVal)
    (hd : d.get cx.dbfile = some c) (hc : c.asDb = some v) (hfk : v.fkBad = false)
    (ht : hasTable v "version" = true) (hv : v.version = .int i :: rest)
    (hi : (cx.cfg.target : Int) < i) :
    (∀ k, (runN cx k (start .getDb d)).dir = d) ∧
      HaltsWith cx (start .getDb d) (.failed .dbError) d := by
  have h1 : ¬ i < (cx.cfg.target : Int) := by omega
  have h2 : ¬ i = (cx.cfg.target : Int) := by omega
  have hseg : ∀ j, j ≤ 8 → (runN cx j (start .getDb d)).dir = d := by
    simp [forall_le_succ, runN_succ, start, Entry.steps, step1, exec, Dir.has, hd,
      openConn, getDbTail, M.curDb, hc, hfk, ht, hv, M.fail, h1, h2]
  have hfin : (runN cx 8 (start .getDb d)).status = .failed .dbError := by
    simp [runN_succ, start, Entry.steps, step1, exec, Dir.has, hd,
      openConn, getDbTail, M.curDb, hc, hfk, ht, hv, M.fail, h1, h2]
  exact ⟨dir_const 8 hseg (by rw [hfin]; simp),
    haltsWith_of 8 hfin (by simp) (hseg 8 (Nat.le_refl 8))⟩

/-- **reject**: version older than the target and no upgrader: `DBError`.  The database file
    and every other file are unchanged at every crash point, EXCEPT that the backup copy
    `<dbfile>-backup-v<i>` appears (created, half written, complete) and stays. -/
theorem reject_older_no_upgrader (c : Content) (v : Db) (i : Int) (rest : List VerVal)
    (hd : d.get cx.dbfile = some c) (hc : c.asDb = some v) (hfk : v.fkBad = false)
    (ht : hasTable v "version" = true) (hv : v.version = .int i :: rest)
    (hi : i < (cx.cfg.target : Int)) (hu : cx.cfg.upgrader (i + 1) = none) :
    (∀ k p, p ≠ backupPath cx.dbfile i → (runN cx k (start .getDb d)).dir.get p = d.get p) ∧
      HaltsWith cx (start .getDb d) (.failed .dbError) (d.set (backupPath cx.dbfile i) c) := by
  have hb := backupPath_ne cx.dbfile i
  have hseg : ∀ j, j ≤ 11 → ∀ p, p ≠ backupPath cx.dbfile i →
      (runN cx j (start .getDb d)).dir.get p = d.get p := by
    have key : ∀ (x : Content) (p : Path), p ≠ backupPath cx.dbfile i →
        (d.set (backupPath cx.dbfile i) x).get p = d.get p :=
      fun x p hp => Dir.get_set_ne d x (fun h => hp h.symm)
    simp +contextual [forall_le_succ, runN_succ, start, Entry.steps, step1, exec, Dir.has, hd,
      openConn, getDbTail, copySteps, M.curDb, hc, hfk, ht, hv, M.fail, hi, hu,
      Dir.get_set_ne _ _ hb, key]
  have hfin : (runN cx 11 (start .getDb d)).status = .failed .dbError ∧
      (runN cx 11 (start .getDb d)).dir = d.set (backupPath cx.dbfile i) c := by
    simp [runN_succ, start, Entry.steps, step1, exec, Dir.has, hd,
      openConn, getDbTail, copySteps, M.curDb, hc, hfk, ht, hv, M.fail, hi, hu,
      Dir.get_set_ne _ _ hb]
  exact ⟨fun k p hp => all_prefixes (P := fun m => ∀ p, p ≠ backupPath cx.dbfile i →
      m.dir.get p = d.get p) 11 hseg (by rw [hfin.1]; simp) k p hp,
    haltsWith_of 11 hfin.1 (by simp) hfin.2⟩

/-- **create only**: `create_*_db` on an existing path (whatever it holds) raises
    `DBAlreadyExists` and writes nothing -/
theorem create_only_generic (c : Content) (hd : d.get cx.dbfile = some c) :
    (∀ k, (runN cx k (start .createOnly d)).dir = d) ∧
      HaltsWith cx (start .createOnly d) (.failed .alreadyExists) d := by
  have hseg : ∀ j, j ≤ 1 → (runN cx j (start .createOnly d)).dir = d := by
    simp [forall_le_succ, runN_succ, start, Entry.steps, step1, exec, Dir.has, hd, M.fail]
  have hfin : (runN cx 1 (start .createOnly d)).status = .failed .alreadyExists := by
    simp [runN_succ, start, Entry.steps, step1, exec, Dir.has, hd, M.fail]
  exact ⟨dir_const 1 hseg (by rw [hfin]; simp),
    haltsWith_of 1 hfin (by simp) (hseg 1 (Nat.le_refl 1))⟩

/-- **open only**: `open_existing_db` never writes: whatever the directory holds and
    wherever it is interrupted, the directory is exactly what it was (in particular no file
    is ever created); on a missing path it raises `DBDoesntExist`. -/
theorem open_only_generic :
    (∀ k, (runN cx k (start .openOnly d)).dir = d) ∧
      (d.get cx.dbfile = none → HaltsWith cx (start .openOnly d) (.failed .doesntExist) d) := by
  constructor
  · cases hd : d.get cx.dbfile with
    | none =>
      have hseg : ∀ j, j ≤ 1 → (runN cx j (start .openOnly d)).dir = d := by
        simp [forall_le_succ, runN_succ, start, Entry.steps, step1, exec, Dir.has, hd, M.fail]
      exact dir_const 1 hseg (by
        simp [runN_succ, start, Entry.steps, step1, exec, Dir.has, hd, M.fail])
    | some c =>
      cases hc : c.asDb with
      | none => exact (reject_unreadable cx d .openOnly (Or.inr rfl) c hd hc).1
      | some v =>
        cases hfk : v.fkBad with
        | true => exact (reject_fk cx d .openOnly (Or.inr rfl) c v hd hc hfk).1
        | false => exact (keep_openOnly cx d c v hd hc hfk).1
  · intro hd
    have hfin : (runN cx 1 (start .openOnly d)).status = .failed .doesntExist ∧
        (runN cx 1 (start .openOnly d)).dir = d := by
      simp [runN_succ, start, Entry.steps, step1, exec, Dir.has, hd, M.fail]
    exact haltsWith_of 1 hfin.1 (by simp) hfin.2

end open_existing

/-! ## Scripts -/

theorem runScript_cons_ok {s : Stmt} {r : List Stmt} {v vfin : Db}
    (h : runScript (s :: r) v = .ok vfin) :
    ∃ v1, applyStmt s v = .ok v1 ∧ runScript r v1 = .ok vfin := by
  simp only [runScript] at h
  cases h1 : applyStmt s v with
  | error e => rw [h1] at h; cases h
  | ok v1 => rw [h1] at h; exact ⟨v1, rfl, h⟩

theorem hasObj_append (v : Db) (s : Stmt) (n : String) :
    hasObj { v with objects := v.objects ++ [s] } n = (hasObj v n || decide (obj s = n)) := by
  simp [hasObj]

/-- a script of CREATE statements with fresh, pairwise distinct names appends its objects -/
theorem runScript_creates : ∀ (rest : List Stmt) (v : Db),
    (∀ s, s ∈ rest → isCreate s = true) →
    (rest.map obj).Pairwise (fun a b => ¬ a = b) →
    (∀ s, s ∈ rest → hasObj v (obj s) = false) →
    runScript rest v = .ok { v with objects := v.objects ++ rest }
  | [], v, _, _, _ => by simp [runScript]
  | s :: r, v, hc, hp, hf => by
    have h1 : applyStmt s v = .ok { v with objects := v.objects ++ [s] } := by
      simp [applyStmt, hc s (List.mem_cons_self ..), hf s (List.mem_cons_self ..)]
    simp only [runScript, h1]
    rw [runScript_creates r]
    · simp
    · exact fun x hx => hc x (List.mem_cons_of_mem _ hx)
    · exact (List.pairwise_cons.mp hp).2
    · intro x hx
      rw [hasObj_append, hf x (List.mem_cons_of_mem _ hx)]
      have := (List.pairwise_cons.mp hp).1 (obj x) (List.mem_map_of_mem hx)
      simp [this]

/-! ## Script loops of the machine -/

/-- state inside an autocommit script on file `p` holding `c` -/
def mAuto (d : Dir) (p : Path) (c : Content) (rest : List Stmt) (tl : List Step) : M :=
  { dir := d.set p c, conn := some { path := p, tx := none }, ver := none,
    todo := rest.map .stmt ++ tl, status := .running }

/-- state inside a transaction with working copy `w` -/
def mTx (d : Dir) (p : Path) (w : Db) (ver : Option VerVal) (rest : List Stmt) (tl : List Step) : M :=
  { dir := d, conn := some { path := p, tx := some w }, ver := ver,
    todo := rest.map .stmt ++ tl, status := .running }

/-- autocommit: after `j` statements the file holds the result of the first `j` statements -/
theorem loop_auto (cx : Ctx) (d : Dir) (p : Path) (tl : List Step) :
    ∀ (rest : List Stmt) (c : Content) (v vfin : Db), c.asDb = some v →
      runScript rest v = .ok vfin → ∀ j, j ≤ rest.length →
      ∃ c' vj, c'.asDb = some vj ∧ runScript (rest.take j) v = .ok vj ∧
        runN cx j (mAuto d p c rest tl) = mAuto d p c' (rest.drop j) tl
  | rest, c, v, vfin, hc, hr, 0, _ => ⟨c, v, hc, by simp [runScript], by simp⟩
  | s :: r, c, v, vfin, hc, hr, j + 1, hj => by
    obtain ⟨v1, ha, hr1⟩ := runScript_cons_ok hr
    have hstep : step1 cx (mAuto d p c (s :: r) tl) = mAuto d p (.db v1) r tl := by
      simp [mAuto, step1, exec, M.curDb, hc, ha, M.writeDb]
    obtain ⟨c', vj, h1, h2, h3⟩ :=
      loop_auto cx d p tl r (.db v1) v1 vfin rfl hr1 j (by simpa using hj)
    refine ⟨c', vj, h1, ?_, ?_⟩
    · simp [runScript, ha, h2]
    · rw [runN_succ, hstep, h3]; simp

/-- inside a transaction: the directory does not change, the working copy follows the script -/
theorem loop_tx (cx : Ctx) (d : Dir) (p : Path) (ver : Option VerVal) (tl : List Step) :
    ∀ (rest : List Stmt) (v vfin : Db),
      runScript rest v = .ok vfin → ∀ j, j ≤ rest.length →
      ∃ vj, runScript (rest.take j) v = .ok vj ∧
        runN cx j (mTx d p v ver rest tl) = mTx d p vj ver (rest.drop j) tl
  | rest, v, vfin, hr, 0, _ => ⟨v, by simp [runScript], by simp⟩
  | s :: r, v, vfin, hr, j + 1, hj => by
    obtain ⟨v1, ha, hr1⟩ := runScript_cons_ok hr
    have hstep : step1 cx (mTx d p v ver (s :: r) tl) = mTx d p v1 ver r tl := by
      simp [mTx, step1, exec, M.curDb, ha, M.writeDb]
    obtain ⟨vj, h2, h3⟩ := loop_tx cx d p ver tl r v1 vfin hr1 j (by simpa using hj)
    refine ⟨vj, ?_, ?_⟩
    · simp [runScript, ha, h2]
    · rw [runN_succ, hstep, h3]; simp

/-! ## First-time creation -/

theorem scriptOk_iff {sch : List Stmt} (h : scriptOk sch = true) :
    (∀ s, s ∈ sch → isCreate s = true) ∧ (sch.map obj).Pairwise (fun a b => ¬ a = b) ∧
      hasTable { objects := sch, version := [], payload := [], fkBad := false } "version" = true := by
  simp only [scriptOk, Bool.and_eq_true, Bool.decide_and, decide_eq_true_eq, List.all_eq_true,
    List.any_eq_true] at h
  refine ⟨h.1, h.2.1, ?_⟩
  simp only [hasTable, Bool.decide_and, List.any_eq_true, Bool.and_eq_true, decide_eq_true_eq]
  exact h.2.2

section create
variable (cx : Ctx) (d : Dir) (sch : List Stmt)

/-- the steps of `_atomic_create_and_initialize_db` after the schema script -/
def createRest : List Step :=
  [.begin_, .insertVersion, .pyCommit, .closeDb, .rename] ++ openConn true

/-- what the creation procedure guarantees at every point: the database path is absent or
    complete, and nothing but the database path and the temporary file is touched -/
def CreateOk (m : M) : Prop :=
  (m.dir.get cx.dbfile = none ∨ m.dir.get cx.dbfile = some (.db (complete cx.cfg sch))) ∧
  ∀ p, ¬ p = cx.dbfile → ¬ p = cx.tmp → m.dir.get p = d.get p

/-- state when `_atomic_create_and_initialize_db` is entered -/
def mCreate0 (d : Dir) (tl : List Step) : M :=
  { dir := d, conn := none, ver := none, todo := atomicCreate ++ tl, status := .running }

/-- state when `_atomic_create_and_initialize_db` has returned -/
def mCreated (tl : List Step) : M :=
  { dir := ((d.set cx.tmp (.db (complete cx.cfg sch))).erase cx.tmp).set cx.dbfile
      (.db (complete cx.cfg sch)),
    conn := some { path := cx.dbfile, tx := none }, ver := none, todo := tl, status := .running }

theorem createOk_tmp {c : Content} {m : M} (hd : d.get cx.dbfile = none)
    (hne : ¬ cx.tmp = cx.dbfile) (hm : m.dir = d.set cx.tmp c) : CreateOk cx d sch m := by
  refine ⟨Or.inl ?_, fun p _ h2 => ?_⟩
  · rw [hm, Dir.get_set_ne _ _ hne, hd]
  · rw [hm, Dir.get_set_ne _ _ (fun h => h2 h.symm)]

theorem createOk_final {m : M}
    (hm : m.dir = (mCreated cx d sch []).dir) : CreateOk cx d sch m := by
  refine ⟨Or.inr ?_, fun p h1 h2 => ?_⟩
  · rw [hm]; simp [mCreated]
  · rw [hm]
    simp only [mCreated]
    rw [Dir.get_set_ne _ _ (fun h => h1 h.symm), Dir.get_erase_ne _ (fun h => h2 h.symm),
      Dir.get_set_ne _ _ (fun h => h2 h.symm)]

/-- `_atomic_create_and_initialize_db` from the point where the path was found absent:
    `n` steps lead to `mCreated`, and `CreateOk` holds all the way -/
theorem create_core (tl : List Step) (hs : cx.cfg.schema = some sch) (hok : scriptOk sch = true)
    (hd : d.get cx.dbfile = none) (ht : d.get cx.tmp = none) (hne : ¬ cx.tmp = cx.dbfile) :
    (∀ j, j ≤ 6 + sch.length + 8 → CreateOk cx d sch
        (runN cx j (mCreate0 d tl))) ∧
    runN cx (6 + sch.length + 8) (mCreate0 d tl) = mCreated cx d sch tl := by
  obtain ⟨hcr, hpw, hvt⟩ := scriptOk_iff hok
  have hscript : runScript sch emptyDb =
      .ok { objects := sch, version := [], payload := [], fkBad := false } := by
    rw [runScript_creates sch emptyDb hcr hpw (by simp [hasObj, emptyDb])]
    simp [emptyDb]
  -- segment 1: mkstemp, close, connect, two pragmas, get_schema
  have e1 : runN cx 6 (mCreate0 d tl) = mAuto d cx.tmp (.junk []) sch (createRest ++ tl) := by
    simp [mCreate0, runN_succ, step1, exec, atomicCreate, openConn, initSchema, Dir.has, ht, M.curDb,
      Content.asDb, emptyDb, hs, mAuto, createRest]
  have p1 : ∀ j, j ≤ 6 → CreateOk cx d sch (runN cx j (mCreate0 d tl)) := by
    have a0 : ∀ m : M, m.dir = d → CreateOk cx d sch m := fun m hm =>
      ⟨Or.inl (by rw [hm, hd]), fun p _ _ => by rw [hm]⟩
    have a1 : ∀ m : M, m.dir = d.set cx.tmp (.junk []) → CreateOk cx d sch m :=
      fun m hm => createOk_tmp cx d sch hd hne hm
    simp only [forall_le_succ, Nat.le_zero, forall_eq, runN_succ, runN_zero]
    refine ⟨a0 _ rfl, a1 _ ?_, a1 _ ?_, a1 _ ?_, a1 _ ?_, a1 _ ?_, a1 _ ?_⟩ <;>
    simp [mCreate0, step1, exec, atomicCreate, openConn, initSchema, Dir.has, ht, M.curDb,
      Content.asDb, emptyDb, hs]
  -- segment 2: the schema script in autocommit mode
  have p2 : ∀ j, j ≤ sch.length → CreateOk cx d sch
      (runN cx j (mAuto d cx.tmp (.junk []) sch (createRest ++ tl))) := by
    intro j hj
    obtain ⟨c', vj, _, _, h3⟩ :=
      loop_auto cx d cx.tmp (createRest ++ tl) sch (.junk []) emptyDb _ rfl hscript j hj
    rw [h3]; exact createOk_tmp cx d sch hd hne rfl
  obtain ⟨c2, v2, hc2, hv2, e2⟩ :=
    loop_auto cx d cx.tmp (createRest ++ tl) sch (.junk []) emptyDb _ rfl hscript
      sch.length (Nat.le_refl _)
  rw [List.take_length, hscript] at hv2
  cases hv2
  rw [List.drop_length] at e2
  -- segment 3: BEGIN, INSERT version, COMMIT, close, rename, reopen
  have hvt' : hasTable { objects := sch, version := [], payload := [], fkBad := false }
      "version" = true := hvt
  have e3 : runN cx 8 (mAuto d cx.tmp c2 [] (createRest ++ tl)) = mCreated cx d sch tl := by
    simp [runN_succ, step1, exec, mAuto, createRest, openConn, M.curDb, hc2, hvt', M.writeDb, asDb_db,
      M.doCommit, Dir.has, mCreated, complete]
  have p3 : ∀ j, j ≤ 8 → CreateOk cx d sch (runN cx j (mAuto d cx.tmp c2 [] (createRest ++ tl))) := by
    have a1 : ∀ (c : Content) (m : M), m.dir = d.set cx.tmp c → CreateOk cx d sch m :=
      fun c m hm => createOk_tmp cx d sch hd hne hm
    have a2 : ∀ m : M, m.dir = (mCreated cx d sch []).dir → CreateOk cx d sch m :=
      fun m hm => createOk_final cx d sch hm
    simp only [forall_le_succ, Nat.le_zero, forall_eq, runN_succ, runN_zero]
    refine ⟨a1 c2 _ rfl, a1 c2 _ ?_, a1 c2 _ ?_, a1 (.db (complete cx.cfg sch)) _ ?_,
      a1 (.db (complete cx.cfg sch)) _ ?_, a2 _ ?_, a2 _ ?_, a2 _ ?_, a2 _ ?_⟩ <;>
    simp [step1, exec, mAuto, createRest, openConn, M.curDb, hc2, hvt', M.writeDb, asDb_db,
      M.doCommit, Dir.has, mCreated, complete]
  refine ⟨seg_trans (seg_trans p1 e1 p2) ?_ p3, ?_⟩
  · rw [runN_add, e1, e2]
  · rw [runN_add, runN_add, e1, e2, e3]

/-- complete first-time run of an entry point that may create (`_get_db`, `create_*_db`):
    `n` steps, `CreateOk` all the way, success, final directory = `mCreated`'s -/
theorem create_run (e : Entry) (he : e = .getDb ∨ e = .createOnly)
    (hs : cx.cfg.schema = some sch) (hok : scriptOk sch = true)
    (hd : d.get cx.dbfile = none) (ht : d.get cx.tmp = none) (hne : ¬ cx.tmp = cx.dbfile) :
    ∃ n, (∀ j, j ≤ n → CreateOk cx d sch (runN cx j (start e d))) ∧
      (runN cx n (start e d)).status = .ok ∧
      (runN cx n (start e d)).dir = (mCreated cx d sch []).dir := by
  have a2 : ∀ m : M, m.dir = (mCreated cx d sch []).dir → CreateOk cx d sch m :=
    fun m hm => createOk_final cx d sch hm
  have hvt := (scriptOk_iff hok).2.2
  rcases he with rfl | rfl
  · obtain ⟨pc, ec⟩ := create_core cx d sch (getDbTail ++ []) hs hok hd ht hne
    have e0 : runN cx 1 (start .getDb d) = mCreate0 d (getDbTail ++ []) := by
      simp [runN_succ, start, Entry.steps, step1, exec, Dir.has, hd, mCreate0]
    have p0 : ∀ j, j ≤ 1 → CreateOk cx d sch (runN cx j (start .getDb d)) := by
      have a0 : ∀ m : M, m.dir = d → CreateOk cx d sch m := fun m hm =>
        ⟨Or.inl (by rw [hm, hd]), fun p _ _ => by rw [hm]⟩
      simp only [forall_le_succ, Nat.le_zero, forall_eq, runN_succ, runN_zero]
      refine ⟨a0 _ rfl, a0 _ ?_⟩
      simp [start, Entry.steps, step1, exec, Dir.has, hd]
    have hvt2 : hasTable (complete cx.cfg sch) "version" = true := hvt
    have e4 : (runN cx 4 (mCreated cx d sch (getDbTail ++ []))).status = .ok ∧
        (runN cx 4 (mCreated cx d sch (getDbTail ++ []))).dir = (mCreated cx d sch []).dir := by
      simp [runN_succ, step1, exec, mCreated, getDbTail, M.curDb, hvt2]
      simp [complete]
    have p4 : ∀ j, j ≤ 4 → CreateOk cx d sch (runN cx j (mCreated cx d sch (getDbTail ++ []))) := by
      simp only [forall_le_succ, Nat.le_zero, forall_eq, runN_succ, runN_zero]
      refine ⟨a2 _ rfl, a2 _ ?_, a2 _ ?_, a2 _ ?_, a2 _ ?_⟩ <;>
      · simp [step1, exec, mCreated, getDbTail, M.curDb, hvt2]
        try simp [complete]
    refine ⟨1 + (6 + sch.length + 8) + 4, seg_trans (seg_trans p0 e0 pc) ?_ p4, ?_, ?_⟩
    · rw [runN_add, e0, ec]
    · rw [runN_add, runN_add, e0, ec]; exact e4.1
    · rw [runN_add, runN_add, e0, ec]; exact e4.2
  · obtain ⟨pc, ec⟩ := create_core cx d sch ([.ret] ++ []) hs hok hd ht hne
    have e0 : runN cx 1 (start .createOnly d) = mCreate0 d ([.ret] ++ []) := by
      simp [runN_succ, start, Entry.steps, step1, exec, Dir.has, hd, mCreate0]
    have p0 : ∀ j, j ≤ 1 → CreateOk cx d sch (runN cx j (start .createOnly d)) := by
      have a0 : ∀ m : M, m.dir = d → CreateOk cx d sch m := fun m hm =>
        ⟨Or.inl (by rw [hm, hd]), fun p _ _ => by rw [hm]⟩
      simp only [forall_le_succ, Nat.le_zero, forall_eq, runN_succ, runN_zero]
      refine ⟨a0 _ rfl, a0 _ ?_⟩
      simp [start, Entry.steps, step1, exec, Dir.has, hd]
    have e4 : (runN cx 1 (mCreated cx d sch ([.ret] ++ []))).status = .ok ∧
        (runN cx 1 (mCreated cx d sch ([.ret] ++ []))).dir = (mCreated cx d sch []).dir := by
      simp [runN_succ, step1, exec, mCreated]
    have p4 : ∀ j, j ≤ 1 → CreateOk cx d sch (runN cx j (mCreated cx d sch ([.ret] ++ []))) := by
      simp only [forall_le_succ, Nat.le_zero, forall_eq, runN_succ, runN_zero]
      refine ⟨a2 _ rfl, a2 _ ?_⟩
      simp [step1, exec, mCreated]
    refine ⟨1 + (6 + sch.length + 8) + 1, seg_trans (seg_trans p0 e0 pc) ?_ p4, ?_, ?_⟩
    · rw [runN_add, e0, ec]
    · rw [runN_add, runN_add, e0, ec]; exact e4.1
    · rw [runN_add, runN_add, e0, ec]; exact e4.2

end create

/-- **create atomic** (generic configuration).  From a directory without `dbfile`, for the
    entry points that create (`_get_db`, `create_*_db`) and EVERY crash point `k`:
    1. `dbfile` is absent or is the complete database (all schema objects, one `version` row
       = target, no payload);
    2. no other file is touched except the temporary file, which MAY REMAIN (a leftover
       `dbfile.XXXXXXXX` holding a partial database is not cleaned up by anyone);
    3. a subsequent normal start (`_get_db`, with whatever fresh temporary name) succeeds and
       leaves the complete database at `dbfile`, all other files as they were. -/
theorem create_atomic_generic (cx : Ctx) (d : Dir) (sch : List Stmt) (e : Entry)
    (he : e = .getDb ∨ e = .createOnly)
    (hs : cx.cfg.schema = some sch) (hok : scriptOk sch = true)
    (hd : d.get cx.dbfile = none) (ht : d.get cx.tmp = none) (hne : ¬ cx.tmp = cx.dbfile)
    (k : Nat) :
    let dk := (runN cx k (start e d)).dir
    (dk.get cx.dbfile = none ∨ dk.get cx.dbfile = some (.db (complete cx.cfg sch))) ∧
    (∀ p, ¬ p = cx.dbfile → ¬ p = cx.tmp → dk.get p = d.get p) ∧
    ∀ tmp2, dk.get tmp2 = none → ¬ tmp2 = cx.dbfile →
      ∃ dfin, HaltsWith { cx with tmp := tmp2 } (start .getDb dk) .ok dfin ∧
        dfin.get cx.dbfile = some (.db (complete cx.cfg sch)) ∧
        ∀ p, ¬ p = cx.dbfile → dfin.get p = dk.get p := by
  intro dk
  obtain ⟨n, hseg, hst, _⟩ := create_run cx d sch e he hs hok hd ht hne
  have hk : CreateOk cx d sch (runN cx k (start e d)) :=
    all_prefixes (P := CreateOk cx d sch) n hseg (by rw [hst]; simp) k
  refine ⟨hk.1, hk.2, fun tmp2 h2 hne2 => ?_⟩
  rcases hk.1 with habs | hcomp
  · -- nothing at dbfile: the restart creates it
    obtain ⟨n', _, hst', hdir'⟩ := create_run { cx with tmp := tmp2 } dk sch .getDb (Or.inl rfl)
      hs hok habs h2 hne2
    refine ⟨_, haltsWith_of n' hst' (by simp) hdir', ?_, fun p hp => ?_⟩
    · simp [mCreated]
    · by_cases hpt : p = tmp2
      · subst hpt
        simp only [mCreated]
        rw [Dir.get_set_ne _ _ (fun h => hp h.symm), Dir.get_erase_self]
        exact h2.symm
      · simp only [mCreated]
        rw [Dir.get_set_ne _ _ (fun h => hp h.symm), Dir.get_erase_ne _ (fun h => hpt h.symm),
          Dir.get_set_ne _ _ (fun h => hpt h.symm)]
  · -- complete database at dbfile: the restart opens it and writes nothing
    have hvt : hasTable (complete cx.cfg sch) "version" = true := (scriptOk_iff hok).2.2
    obtain ⟨_, hh⟩ := keep_getDb { cx with tmp := tmp2 } dk (complete cx.cfg sch) [] hcomp hvt rfl rfl
    exact ⟨dk, hh, hcomp, fun _ _ => rfl⟩

/-- an uninterrupted first-time run succeeds with the complete database at `dbfile`, no
    temporary file left, everything else untouched -/
theorem create_completes_generic (cx : Ctx) (d : Dir) (sch : List Stmt) (e : Entry)
    (he : e = .getDb ∨ e = .createOnly)
    (hs : cx.cfg.schema = some sch) (hok : scriptOk sch = true)
    (hd : d.get cx.dbfile = none) (ht : d.get cx.tmp = none) (hne : ¬ cx.tmp = cx.dbfile) :
    ∃ dfin, HaltsWith cx (start e d) .ok dfin ∧
      dfin.get cx.dbfile = some (.db (complete cx.cfg sch)) ∧
      ∀ p, ¬ p = cx.dbfile → dfin.get p = d.get p := by
  obtain ⟨n, _, hst, hdir⟩ := create_run cx d sch e he hs hok hd ht hne
  refine ⟨_, haltsWith_of n hst (by simp) hdir, by simp [mCreated], fun p hp => ?_⟩
  by_cases hpt : p = cx.tmp
  · subst hpt
    simp only [mCreated]
    rw [Dir.get_set_ne _ _ (fun h => hp h.symm), Dir.get_erase_self]
    exact ht.symm
  · simp only [mCreated]
    rw [Dir.get_set_ne _ _ (fun h => hp h.symm), Dir.get_erase_ne _ (fun h => hpt h.symm),
      Dir.get_set_ne _ _ (fun h => hpt h.symm)]

/-! ## The server's configurations (from `Wormhole.Generated`) and the C19 theorems -/

def cfgOk (cfg : Cfg) : Bool :=
  match cfg.schema with
  | some sch => scriptOk sch
  | none => false

/-- re-proved by kernel evaluation against the regenerated SQL scripts on every run:
    `channel-v<target>.sql` exists, consists of CREATE statements with distinct names and
    creates the `version` table -/
theorem channelCfg_ok : cfgOk channelCfg = true := by decide +kernel
theorem usageCfg_ok : cfgOk usageCfg = true := by decide +kernel

/-- `create_or_upgrade_channel_db`/`create_channel_db` use `channelCfg`,
    `create_or_upgrade_usage_db`/`create_usage_db` use `usageCfg` -/
def IsServerCfg (cfg : Cfg) : Prop := cfg = channelCfg ∨ cfg = usageCfg

theorem serverCfg_ok {cfg : Cfg} (h : IsServerCfg cfg) :
    ∃ sch, cfg.schema = some sch ∧ scriptOk sch = true := by
  have key : ∀ c : Cfg, cfgOk c = true → ∃ sch, c.schema = some sch ∧ scriptOk sch = true := by
    intro c hc
    unfold cfgOk at hc
    cases hsc : c.schema with
    | none => rw [hsc] at hc; cases hc
    | some sch => rw [hsc] at hc; exact ⟨sch, rfl, hc⟩
  rcases h with rfl | rfl
  · exact key _ channelCfg_ok
  · exact key _ usageCfg_ok

/-- the entry point stops with error `err` and the directory is the same at every point -/
def Rejected (cx : Ctx) (d : Dir) (e : Entry) (err : Err) : Prop :=
  (∀ k, (runN cx k (start e d)).dir = d) ∧ HaltsWith cx (start e d) (.failed err) d

/-- **C19_create_atomic.**  For both server schemas, both creating entry points
    (`create_or_upgrade_*_db` = `Entry.getDb`, `create_*_db` = `Entry.createOnly`), every
    directory without `dbfile`, every fresh temporary name, and EVERY crash point `k`:
    `dbfile` is absent or is the complete database (`complete`: all objects of the generated
    schema script, `version` rows = [target]); only `dbfile` and the temporary file are
    touched — the temporary file MAY REMAIN after a crash, nothing removes it —; and a
    subsequent normal start, with any fresh temporary name, succeeds with the complete
    database at `dbfile` and every other file as the crash left it. -/
theorem C19_create_atomic (cx : Ctx) (hcfg : IsServerCfg cx.cfg) (e : Entry)
    (he : e = .getDb ∨ e = .createOnly) (d : Dir)
    (hd : d.get cx.dbfile = none) (ht : d.get cx.tmp = none) (hne : ¬ cx.tmp = cx.dbfile) :
    ∃ sch, cx.cfg.schema = some sch ∧ ∀ k,
      let dk := (runN cx k (start e d)).dir
      (dk.get cx.dbfile = none ∨ dk.get cx.dbfile = some (.db (complete cx.cfg sch))) ∧
      (∀ p, ¬ p = cx.dbfile → ¬ p = cx.tmp → dk.get p = d.get p) ∧
      ∀ tmp2, dk.get tmp2 = none → ¬ tmp2 = cx.dbfile →
        ∃ dfin, HaltsWith { cx with tmp := tmp2 } (start .getDb dk) .ok dfin ∧
          dfin.get cx.dbfile = some (.db (complete cx.cfg sch)) ∧
          ∀ p, ¬ p = cx.dbfile → dfin.get p = dk.get p := by
  obtain ⟨sch, hs, hok⟩ := serverCfg_ok hcfg
  exact ⟨sch, hs, fun k => create_atomic_generic cx d sch e he hs hok hd ht hne k⟩

/-- the uninterrupted first start succeeds, leaves the complete database and no temp file -/
theorem C19_create_completes (cx : Ctx) (hcfg : IsServerCfg cx.cfg) (e : Entry)
    (he : e = .getDb ∨ e = .createOnly) (d : Dir)
    (hd : d.get cx.dbfile = none) (ht : d.get cx.tmp = none) (hne : ¬ cx.tmp = cx.dbfile) :
    ∃ sch dfin, cx.cfg.schema = some sch ∧ HaltsWith cx (start e d) .ok dfin ∧
      dfin.get cx.dbfile = some (.db (complete cx.cfg sch)) ∧
      ∀ p, ¬ p = cx.dbfile → dfin.get p = d.get p := by
  obtain ⟨sch, hs, hok⟩ := serverCfg_ok hcfg
  obtain ⟨dfin, h⟩ := create_completes_generic cx d sch e he hs hok hd ht hne
  exact ⟨sch, dfin, hs, h⟩

/-- **C19_keep.**  On an existing database whose `version` table starts with the target
    version (ANY objects, payload rows and further content), every entry point that opens it
    (`create_or_upgrade_*_db`, `open_existing_db`) succeeds and the directory is identical at
    every point of the run — for any configuration. -/
theorem C19_keep (cx : Ctx) (d : Dir) (v : Db) (rest : List VerVal) (e : Entry)
    (he : e = .getDb ∨ e = .openOnly)
    (hd : d.get cx.dbfile = some (.db v)) (ht : hasTable v "version" = true)
    (hv : v.version = .int cx.cfg.target :: rest) (hfk : v.fkBad = false) :
    (∀ k, (runN cx k (start e d)).dir = d) ∧ HaltsWith cx (start e d) .ok d := by
  rcases he with rfl | rfl
  · exact keep_getDb cx d v rest hd ht hv hfk
  · exact keep_openOnly cx d (.db v) v hd rfl hfk

/-- **C19_reject.**  Whatever is at `dbfile` (content `c`), for any configuration:
    1. not a database (non-empty junk, truncated database): `DBError`, both opening entry points;
    2. failing foreign-key check: `DBError`;
    3. no `version` table (includes the zero-length file): `OperationalError`;
    4. empty `version` table: `TypeError`;
    5. first `version` row NULL or text: `TypeError`;
    6. version newer than the target: `DBError`;
    in all of these the directory is unchanged at every point (`Rejected`);
    7. version older than the target and no upgrader for the next version: `DBError`, every
       file except `<dbfile>-backup-v<i>` is unchanged at every point (`dbfile` included, the
       backup name differs from it), and the BACKUP COPY APPEARS and stays. -/
theorem C19_reject (cx : Ctx) (d : Dir) (c : Content) (hd : d.get cx.dbfile = some c) :
    (c.asDb = none → Rejected cx d .getDb .dbError ∧ Rejected cx d .openOnly .dbError) ∧
    (∀ v, c.asDb = some v → v.fkBad = true →
      Rejected cx d .getDb .dbError ∧ Rejected cx d .openOnly .dbError) ∧
    (∀ v, c.asDb = some v → v.fkBad = false → hasTable v "version" = false →
      Rejected cx d .getDb .operationalError) ∧
    (∀ v, c.asDb = some v → v.fkBad = false → hasTable v "version" = true → v.version = [] →
      Rejected cx d .getDb .typeError) ∧
    (∀ v x rest, c.asDb = some v → v.fkBad = false → hasTable v "version" = true →
      v.version = x :: rest → (∀ i, x ≠ .int i) → Rejected cx d .getDb .typeError) ∧
    (∀ v i rest, c.asDb = some v → v.fkBad = false → hasTable v "version" = true →
      v.version = .int i :: rest → (cx.cfg.target : Int) < i → Rejected cx d .getDb .dbError) ∧
    (∀ v i rest, c.asDb = some v → v.fkBad = false → hasTable v "version" = true →
      v.version = .int i :: rest → i < (cx.cfg.target : Int) → cx.cfg.upgrader (i + 1) = none →
      (∀ k p, p ≠ backupPath cx.dbfile i → (runN cx k (start .getDb d)).dir.get p = d.get p) ∧
      backupPath cx.dbfile i ≠ cx.dbfile ∧
      HaltsWith cx (start .getDb d) (.failed .dbError) (d.set (backupPath cx.dbfile i) c)) := by
  refine ⟨fun hc => ⟨?_, ?_⟩, fun v hc hfk => ⟨?_, ?_⟩, ?_, ?_, ?_, ?_, ?_⟩
  · exact reject_unreadable cx d .getDb (Or.inl rfl) c hd hc
  · exact reject_unreadable cx d .openOnly (Or.inr rfl) c hd hc
  · exact reject_fk cx d .getDb (Or.inl rfl) c v hd hc hfk
  · exact reject_fk cx d .openOnly (Or.inr rfl) c v hd hc hfk
  · exact fun v hc hfk ht => reject_no_version_table cx d c v hd hc hfk ht
  · exact fun v hc hfk ht hv => reject_empty_version cx d c v hd hc hfk ht hv
  · exact fun v x rest hc hfk ht hv hx => reject_nonint_version cx d c v x rest hd hc hfk ht hv hx
  · exact fun v i rest hc hfk ht hv hi => reject_newer cx d c v i rest hd hc hfk ht hv hi
  · intro v i rest hc hfk ht hv hi hu
    obtain ⟨h1, h2⟩ := reject_older_no_upgrader cx d c v i rest hd hc hfk ht hv hi hu
    exact ⟨h1, backupPath_ne cx.dbfile i, h2⟩

/-- **C19_create_only.**  `create_channel_db` / `create_usage_db` on an existing path,
    whatever it holds: `DBAlreadyExists`, directory unchanged at every point. -/
theorem C19_create_only (cx : Ctx) (d : Dir) (c : Content) (hd : d.get cx.dbfile = some c) :
    Rejected cx d .createOnly .alreadyExists :=
  create_only_generic cx d c hd

/-- **C19_open_only.**  `open_existing_db` never creates or changes a file: for every
    directory and every point of the run the directory is what it was; on a missing path it
    raises `DBDoesntExist`. -/
theorem C19_open_only (cx : Ctx) (d : Dir) :
    (∀ k, (runN cx k (start .openOnly d)).dir = d) ∧
    (∀ k p, d.get p = none → (runN cx k (start .openOnly d)).dir.get p = none) ∧
    (d.get cx.dbfile = none → HaltsWith cx (start .openOnly d) (.failed .doesntExist) d) := by
  obtain ⟨h1, h2⟩ := open_only_generic cx d
  exact ⟨h1, fun k p hp => by rw [h1 k]; exact hp, h2⟩

/-! ## Non-vacuity: concrete instances satisfy the hypotheses and show the claimed behaviour -/

def exCx : Ctx := { cfg := channelCfg, dbfile := "relay.sqlite", tmp := "relay.sqlite.k3x9w_aa" }
def exCxU : Ctx := { cfg := usageCfg, dbfile := "usage.sqlite", tmp := "usage.sqlite.k3x9w_aa" }
def exDir : Dir := ⟨[("notes.txt", .junk [104, 105])]⟩

/-- hypotheses of `C19_create_atomic` hold for a concrete directory -/
example : IsServerCfg exCx.cfg ∧ exDir.get exCx.dbfile = none ∧ exDir.get exCx.tmp = none ∧
    ¬ exCx.tmp = exCx.dbfile := by
  refine ⟨Or.inl rfl, ?_, ?_, ?_⟩ <;> decide +kernel

/-- … and the run really passes through states where only the temporary file exists, a crash
    there leaves no `dbfile`, and the full run ends with the complete channel database -/
example :
    (runN exCx 12 (start .getDb exDir)).dir.get "relay.sqlite" = none ∧
    (runN exCx 12 (start .getDb exDir)).dir.has "relay.sqlite.k3x9w_aa" = true ∧
    (runN exCx 12 (start .getDb exDir)).status = .running ∧
    (runN exCx 100 (start .getDb exDir)).status = .ok ∧
    (runN exCx 100 (start .getDb exDir)).dir.get "relay.sqlite" =
      some (.db (complete channelCfg Generated.sql_channel_v1)) ∧
    (runN exCxU 100 (start .createOnly ⟨[]⟩)).dir.get "usage.sqlite" =
      some (.db (complete usageCfg Generated.sql_usage_v2)) := by
  decide +kernel

def exDbRows : Db :=
  { complete channelCfg Generated.sql_channel_v1 with
    payload := [("messages", ["r1", "r2"]), ("mailboxes", ["m"])] }

/-- `C19_keep`: a channel database with rows -/
example : (⟨[("relay.sqlite", .db exDbRows)]⟩ : Dir).get exCx.dbfile = some (.db exDbRows) ∧
    hasTable exDbRows "version" = true ∧
    exDbRows.version = .int exCx.cfg.target :: [] ∧ exDbRows.fkBad = false := by
  decide +kernel

/-- `C19_reject`: each case has an instance (junk; empty file; version 3; version 0 without
    upgrader, where the backup appears) -/
example :
    (Content.junk [1, 2, 3]).asDb = none ∧
    (∃ v, (Content.junk []).asDb = some v ∧ hasTable v "version" = false) ∧
    (runN exCx 50 (start .getDb ⟨[("relay.sqlite", .junk [])]⟩)).status =
      .failed .operationalError ∧
    (runN exCx 50 (start .getDb ⟨[("relay.sqlite", .db { exDbRows with version := [.int 3] })]⟩)).status
      = .failed .dbError ∧
    channelCfg.upgrader (0 + 1) = none ∧
    (runN exCx 50 (start .getDb ⟨[("relay.sqlite", .db { exDbRows with version := [.int 0] })]⟩)).dir.get
      "relay.sqlite-backup-v0" = some (.db { exDbRows with version := [.int 0] }) ∧
    (runN exCx 50 (start .createOnly ⟨[("relay.sqlite", .junk [])]⟩)).status =
      .failed .alreadyExists ∧
    (runN exCx 50 (start .openOnly ⟨[]⟩)).status = .failed .doesntExist ∧
    (runN exCx 50 (start .openOnly ⟨[]⟩)).dir = ⟨[]⟩ := by
  refine ⟨rfl, ⟨emptyDb, rfl, rfl⟩, ?_, ?_, ?_, ?_, ?_, ?_, ?_⟩ <;> decide +kernel

end Wormhole.DbFile

#print axioms Wormhole.DbFile.C19_create_atomic
#print axioms Wormhole.DbFile.C19_create_completes
#print axioms Wormhole.DbFile.C19_keep
#print axioms Wormhole.DbFile.C19_reject
#print axioms Wormhole.DbFile.C19_create_only
#print axioms Wormhole.DbFile.C19_open_only
