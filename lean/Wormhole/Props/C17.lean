/-
  C17 (protocol discipline: welcome, acks, harmless errors, once-only commands) and the
  `list` clause of C18, on the websocket layer of the model (`Ws.lean`).

  All theorems are for ALL states `s : Sys` (no reachability hypothesis) and all inputs.
  The `synced` flag of every emitted frame is given explicitly (`s.synced`) where the
  output is stated exactly.
-/
import Wormhole.Inv.WsLemmas

namespace Wormhole
open Sys

/-! ## The rejected situations -/

/-- the commands that are refused before `bind` -/
def Cmd.needsBind : Cmd → Bool
  | .noType | .ping _ | .bind _ _ _ _ => false
  | _ => true

/-- `Rejected x cmd text`: connection record `x` refuses `cmd` in validation, with error
    `text`.  The hypotheses of each constructor are exactly the checks the code has passed /
    failed when it raises that `Error` (`onMessage` and the `handle_*` prefix that runs
    before any database access or flag assignment). -/
inductive Rejected (x : Conn) : Cmd → String → Prop
  | noType : Rejected x .noType "missing 'type'"
  | pingNoValue : Rejected x (.ping none) "ping requires 'ping'"
  /-- `if self._app or self._side` (an empty-string side is falsy in Python) -/
  | alreadyBound (a sd i v) : (x.app ≠ none ∨ (x.side ≠ none ∧ x.side ≠ some "")) →
      Rejected x (.bind a sd i v) "already bound"
  | bindNoAppid (sd i v) : x.app = none → (x.side = none ∨ x.side = some "") →
      Rejected x (.bind none sd i v) "bind requires 'appid'"
  | bindNoSide (a i v) : x.app = none → (x.side = none ∨ x.side = some "") →
      Rejected x (.bind (some a) none i v) "bind requires 'side'"
  | mustBind (cmd) : x.app = none → cmd.needsBind = true → Rejected x cmd "must bind first"
  | unknownType : x.app ≠ none → Rejected x .unknown "unknown type"
  | secondAllocate (p d f) : x.app ≠ none → x.didAllocate = true →
      Rejected x (.allocate p d f) "you already allocated one, don't be greedy"
  | claimNoNameplate (f) : x.app ≠ none → Rejected x (.claim none f) "claim requires 'nameplate'"
  | secondClaim (n f) : x.app ≠ none → x.didClaim = true →
      Rejected x (.claim (some n) f) "only one claim per connection"
  | secondRelease (n) : x.app ≠ none → x.didRelease = true →
      Rejected x (.release n) "only one release per connection"
  | releaseOther (n held) : x.app ≠ none → x.didRelease = false → x.nameplateId = some held →
      n ≠ held → Rejected x (.release (some n)) "release and claim must use same nameplate"
  | releaseNothing : x.app ≠ none → x.didRelease = false → x.nameplateId = none →
      Rejected x (.release none) "release without nameplate must follow claim"
  | openHeld (m) : x.app ≠ none → x.mailbox ≠ none →
      Rejected x (.open_ m) "only one open per connection"
  | openNoMailbox : x.app ≠ none → x.mailbox = none →
      Rejected x (.open_ none) "open requires 'mailbox'"
  | addNoMailbox (ph bd) : x.app ≠ none → x.mailbox = none →
      Rejected x (.add ph bd) "must open mailbox before adding"
  | addNoPhase (bd) : x.app ≠ none → x.mailbox ≠ none → Rejected x (.add none bd) "missing 'phase'"
  | addNoBody (ph) : x.app ≠ none → x.mailbox ≠ none →
      Rejected x (.add (some ph) none) "missing 'body'"
  | secondClose (m mood) : x.app ≠ none → x.didClose = true →
      Rejected x (.close m mood) "only one close per connection"
  | closeOther (m held mood) : x.app ≠ none → x.didClose = false → x.mailboxId = some held →
      m ≠ held → Rejected x (.close (some m) mood) "open and close must use same mailbox"
  | closeNothing (mood) : x.app ≠ none → x.didClose = false → x.mailboxId = none →
      Rejected x (.close none mood) "close without mailbox must follow open"

/-- `must bind first`, or else `k` -/
def needBind (x : Conn) (k : Option String) : Option String :=
  if x.app = none then some "must bind first" else k

/-- the error text of the validation of `cmd` on `x`, if validation refuses it
    (a decision procedure for `Rejected`, see `rejected_iff`) -/
def rejectText (x : Conn) : Cmd → Option String
  | .noType => some "missing 'type'"
  | .ping v => if v = none then some "ping requires 'ping'" else none
  | .bind a sd _ _ =>
    if x.app ≠ none ∨ (x.side ≠ none ∧ x.side ≠ some "") then some "already bound"
    else if a = none then some "bind requires 'appid'"
    else if sd = none then some "bind requires 'side'" else none
  | .unknown => needBind x (some "unknown type")
  | .list => needBind x none
  | .allocate _ _ _ => needBind x
      (if x.didAllocate then some "you already allocated one, don't be greedy" else none)
  | .claim n _ => needBind x
      (if n = none then some "claim requires 'nameplate'"
       else if x.didClaim then some "only one claim per connection" else none)
  | .release n => needBind x
      (if x.didRelease then some "only one release per connection"
       else match n, x.nameplateId with
        | some n, some held =>
          if n ≠ held then some "release and claim must use same nameplate" else none
        | none, none => some "release without nameplate must follow claim"
        | _, _ => none)
  | .open_ m => needBind x
      (if x.mailbox ≠ none then some "only one open per connection"
       else if m = none then some "open requires 'mailbox'" else none)
  | .add ph bd => needBind x
      (if x.mailbox = none then some "must open mailbox before adding"
       else if ph = none then some "missing 'phase'"
       else if bd = none then some "missing 'body'" else none)
  | .close m _ => needBind x
      (if x.didClose then some "only one close per connection"
       else match m, x.mailboxId with
        | some m, some held =>
          if m ≠ held then some "open and close must use same mailbox" else none
        | none, none => some "close without mailbox must follow open"
        | _, _ => none)

theorem rejectText_of_rejected {x : Conn} {cmd : Cmd} {text : String} (h : Rejected x cmd text) :
    rejectText x cmd = some text := by
  cases h
  case mustBind h1 h2 => cases cmd <;> simp_all [rejectText, needBind, Cmd.needsBind]
  all_goals simp_all [rejectText, needBind]
  all_goals grind

/-- try every constructor of `Rejected` -/
local macro "rej_ctor" : tactic => `(tactic| first
  | exact Rejected.noType
  | exact Rejected.pingNoValue
  | (apply Rejected.alreadyBound <;> first | assumption | grind)
  | (apply Rejected.bindNoAppid <;> first | assumption | grind)
  | (apply Rejected.bindNoSide <;> first | assumption | grind)
  | (apply Rejected.mustBind <;> first | assumption | rfl | grind)
  | (apply Rejected.unknownType <;> first | assumption | grind)
  | (apply Rejected.secondAllocate <;> first | assumption | grind)
  | (apply Rejected.claimNoNameplate <;> first | assumption | grind)
  | (apply Rejected.secondClaim <;> first | assumption | grind)
  | (apply Rejected.secondRelease <;> first | assumption | grind)
  | (apply Rejected.releaseOther <;> first | assumption | grind)
  | (apply Rejected.releaseNothing <;> first | assumption | grind)
  | (apply Rejected.openHeld <;> first | assumption | grind)
  | (apply Rejected.openNoMailbox <;> first | assumption | grind)
  | (apply Rejected.addNoMailbox <;> first | assumption | grind)
  | (apply Rejected.addNoPhase <;> first | assumption | grind)
  | (apply Rejected.addNoBody <;> first | assumption | grind)
  | (apply Rejected.secondClose <;> first | assumption | grind)
  | (apply Rejected.closeOther <;> first | assumption | grind)
  | (apply Rejected.closeNothing <;> first | assumption | grind))

theorem rejected_of_rejectText {x : Conn} {cmd : Cmd} {text : String}
    (h : rejectText x cmd = some text) : Rejected x cmd text := by
  rcases cmd with _ | _ | ⟨_ | v⟩ | ⟨_ | a, _ | sd, i, v⟩ | _ | ⟨p, d, f⟩ | ⟨_ | n, f⟩ | ⟨_ | n⟩ | ⟨_ | m⟩ |
      ⟨_ | ph, _ | bd⟩ | ⟨_ | m, mood⟩ <;>
    simp only [rejectText, needBind] at h <;> (repeat' split at h) <;>
    first
    | (cases h; done)
    | (exfalso; simp_all; done)
    | (cases h; rej_ctor)

theorem rejected_iff {x : Conn} {cmd : Cmd} {text : String} :
    Rejected x cmd text ↔ rejectText x cmd = some text :=
  ⟨rejectText_of_rejected, rejected_of_rejectText⟩

instance (x : Conn) (cmd : Cmd) (text : String) : Decidable (Rejected x cmd text) :=
  decidable_of_iff _ rejected_iff.symm

/-- a command is refused with at most one text -/
theorem Rejected.unique {x : Conn} {cmd : Cmd} {t1 t2 : String} (h1 : Rejected x cmd t1)
    (h2 : Rejected x cmd t2) : t1 = t2 := by
  have := (rejectText_of_rejected h1).symm.trans (rejectText_of_rejected h2)
  simpa using this

/-! ## What an accepted command may emit -/

/-- events of an accepted command: frames go to connections in `ids`, and the only `error`
    frames are "crowded" / "reclaimed" (raised by the database layer, not by validation) -/
def Good (ids : List Nat) : Event → Prop
  | .frame c (.error t) _ => c ∈ ids ∧ (t = "crowded" ∨ t = "reclaimed")
  | .frame c _ _ => c ∈ ids
  | _ => True

theorem good_of_commit {ids : List Nat} (e : Event) (h : IsCommit e) : Good ids e := by
  obtain ⟨w, rfl⟩ := h; trivial

namespace Sys

theorem CExt.good {ids : List Nat} {s s' : Sys} (h : CExt s s') : OutExt (Good ids) s s' :=
  h.mono good_of_commit

section handlers
variable {ids : List Nat} {s : Sys} {x : Conn}

theorem handleBind_ok (h1 : x.app = none) (h2 : x.side = none ∨ x.side = some "")
    {t a sd impl version} :
    OutExt (Good ids) s (s.handleBind x t (some a) (some sd) impl version) := by
  unfold handleBind
  rw [if_neg (by rcases h2 with h2 | h2 <;> simp [h1, h2])]
  exact (CExt.logClientVersion (OutExt.updConn .refl)).good

theorem handleList_ok (hmem : x.id ∈ ids) {app} : OutExt (Good ids) s (s.handleList x app) := by
  unfold handleList
  exact OutExt.refl.send (fun b => by simpa [Good] using hmem)

theorem handleAllocate_ok (hmem : x.id ∈ ids) (h1 : x.didAllocate = false) {app side t pick draws fresh} :
    OutExt (Good ids) s (s.handleAllocate x app side t pick draws fresh) := by
  unfold handleAllocate
  simp only [h1, Bool.false_eq_true, if_false]
  split
  · exact OutExt.refl.emit trivial
  · rename_i name _
    have h := (CExt.claimNameplate (OutExt.refl (s := s)) (app := app) (name := name) (side := side)
      (t := t) (fresh := fresh)).good (ids := ids)
    split <;> rename_i heq <;> rw [heq] at h
    · exact h.updConn.send (fun b => by simpa [Good] using hmem)
    · exact h.emit trivial
    · exact h.emit trivial
    · exact h.emit trivial

theorem handleClaim_ok (hmem : x.id ∈ ids) (h1 : x.didClaim = false) {app side t name fresh} :
    OutExt (Good ids) s (s.handleClaim x app side t (some name) fresh) := by
  unfold handleClaim
  simp only [h1, Bool.false_eq_true, if_false]
  have h := (CExt.claimNameplate (OutExt.updConn (OutExt.refl (s := s)) (c := x.id)
    (f := fun y => { y with didClaim := true, nameplateId := some name })) (app := app) (name := name)
    (side := side) (t := t) (fresh := fresh)).good (ids := ids)
  split <;> rename_i heq <;> rw [heq] at h
  · exact h.send (fun b => by simpa [Good] using hmem)
  · exact h.send (fun b => by simpa [Good] using hmem)
  · exact h.send (fun b => by simpa [Good] using hmem)
  · exact h.emit trivial

theorem handleRelease_ok (hmem : x.id ∈ ids) (h1 : x.didRelease = false) {app side t n}
    (h2 : ∀ a held, n = some a → x.nameplateId = some held → a = held)
    (h3 : ¬ (n = none ∧ x.nameplateId = none)) :
    OutExt (Good ids) s (s.handleRelease x app side t n) := by
  have hgo : ∀ name, OutExt (Good ids) s
      (match (s.updConn x.id (fun y => { y with didRelease := true })).releaseNameplate app name side t with
        | (s1, true) => s1.send x.id .released
        | (s1, false) => s1.internalErr x.id "IndexError") := by
    intro name
    have h := (CExt.releaseNameplate (OutExt.updConn (OutExt.refl (s := s)) (c := x.id)
      (f := fun y => { y with didRelease := true })) (app := app) (name := name)
      (side := side) (t := t)).good (ids := ids)
    split <;> rename_i heq <;> rw [heq] at h
    · exact h.send (fun b => by simpa [Good] using hmem)
    · exact h.emit trivial
  unfold handleRelease
  simp only [h1, Bool.false_eq_true, if_false]
  split
  · rename_i a held hh
    rw [if_neg (by simpa using h2 a held rfl hh)]
    exact hgo _
  · exact hgo _
  · exact hgo _
  · rename_i hh
    exact absurd ⟨rfl, hh⟩ h3

theorem replay_ok (hmem : c ∈ ids) {s1 : Sys} (h : OutExt (Good ids) s s1) {app mb} :
    OutExt (Good ids) s (s1.replay c app mb) := by
  unfold replay
  exact OutExt.foldl_send (fun _ => c) (fun (m : Message) => .message m.side m.phase m.body m.rx m.msgId) _ h
    (fun m _ b => by simpa [Good] using hmem)

theorem handleOpen_ok (hmem : x.id ∈ ids) (h1 : x.mailbox = none) {app side t mb} :
    OutExt (Good ids) s (s.handleOpen x app side t (some mb)) := by
  unfold handleOpen
  simp only [h1, Option.isSome_none, Bool.false_eq_true, if_false]
  have h := (CExt.openMailbox (OutExt.updConn (OutExt.refl (s := s)) (c := x.id)
    (f := fun y => { y with mailboxId := some mb })) (app := app) (mb := mb)
    (side := side) (t := t)).good (ids := ids)
  split <;> rename_i heq <;> rw [heq] at h
  · exact h.send (fun b => by simpa [Good] using hmem)
  · exact h.emit trivial
  · exact replay_ok hmem h.updConn

theorem addMessage_conns {app mb side phase body t id} :
    (s.addMessage app mb side phase body t id).conns = s.conns := by
  unfold addMessage Sys.commit
  split <;> rfl

theorem mem_listeners {app mb c} (h : c ∈ s.listeners app mb) : c ∈ s.conns.map (·.id) := by
  unfold listeners at h
  obtain ⟨y, hy, rfl⟩ := List.mem_map.1 h
  exact List.mem_map.2 ⟨y, (List.mem_filter.1 hy).1, rfl⟩

theorem handleAdd_ok (hall : ∀ y ∈ s.conns, y.id ∈ ids) {app side t id ph bd mb} (h1 : x.mailbox = some mb) :
    OutExt (Good ids) s (s.handleAdd x app side t id (some ph) (some bd)) := by
  unfold handleAdd
  simp only [h1]
  unfold broadcast
  refine OutExt.foldl_send (fun c => c) (fun _ => .message side ph bd t id) _
    (CExt.addMessage OutExt.refl).good ?_
  intro c hc b
  obtain ⟨y, hy, rfl⟩ := List.mem_map.1 (mem_listeners hc)
  rw [addMessage_conns] at hy
  simpa [Good] using hall y hy

theorem handleClose_ok (hmem : x.id ∈ ids) (h1 : x.didClose = false) {app side t m mood}
    (h2 : ∀ a held, m = some a → x.mailboxId = some held → a = held)
    (h3 : ¬ (m = none ∧ x.mailboxId = none)) :
    OutExt (Good ids) s (s.handleClose x app side t m mood) := by
  have hgo : ∀ mb, OutExt (Good ids) s
      (match (match x.mailbox with
          | some h => (s, OpenRes.ok, h)
          | none =>
            match s.openMailbox app mb side t with
            | (s1, r) =>
              (s1.updConn x.id (fun y => if r = .ok then { y with mailbox := some mb } else y), r, mb)
          : Sys × OpenRes × String) with
      | (s1, .crowded, _) => s1.sendError x.id "crowded"
      | (s1, .integrity, _) => s1.internalErr x.id "IntegrityError"
      | (s1, .ok, h) =>
        match (s1.updConn x.id (fun y => { y with listening := false, didClose := true })).mailboxClose
            app h side mood t with
        | (s3, false) => s3.internalErr x.id "IndexError"
        | (s3, true) => (s3.updConn x.id (fun y => { y with mailbox := none })).send x.id .closed) := by
    intro mb
    have hop : ∀ s1 r h, (match x.mailbox with
          | some h => (s, OpenRes.ok, h)
          | none =>
            match s.openMailbox app mb side t with
            | (s1, r) =>
              (s1.updConn x.id (fun y => if r = .ok then { y with mailbox := some mb } else y), r, mb)
          : Sys × OpenRes × String) = (s1, r, h) → OutExt (Good ids) s s1 := by
      intro s1 r h heq
      split at heq
      · cases heq; exact .refl
      · split at heq
        rename_i s1' r' hom
        cases heq
        have := CExt.openMailbox (OutExt.refl (s := s)) (app := app) (mb := mb) (side := side) (t := t)
        rw [hom] at this
        exact this.good.updConn
    split <;> rename_i heq <;> have h := hop _ _ _ heq
    · exact h.send (fun b => by simpa [Good] using hmem)
    · exact h.emit trivial
    · rename_i _ s1 hh
      have hc := h.updConn.trans (CExt.mailboxClose (OutExt.refl (s :=
        s1.updConn x.id (fun y => { y with listening := false, didClose := true })))
        (app := app) (mb := hh) (side := side) (mood := mood) (t := t)).good
      split <;> rename_i heq2 <;> rw [heq2] at hc
      · exact hc.emit trivial
      · exact hc.updConn.send (fun b => by simpa [Good] using hmem)
  unfold handleClose
  simp only [h1, Bool.false_eq_true, if_false]
  split
  · rename_i a held hh
    rw [if_neg (by simpa using h2 a held rfl hh)]
    exact hgo _
  · exact hgo _
  · exact hgo _
  · rename_i hh
    exact absurd ⟨rfl, hh⟩ h3

end handlers
/-! ## `onMessage`: the two cases -/

theorem findConn_id {s : Sys} {c : Nat} {x : Conn} (hx : s.findConn c = some x) : x.id = c := by
  simpa using List.find?_some hx

theorem findConn_mem {s : Sys} {c : Nat} {x : Conn} (hx : s.findConn c = some x) : x ∈ s.conns :=
  List.mem_of_find?_eq_some hx

/-- a command refused by validation: the result is the ack (if the object had a type) followed
    by the error frame, as a state equation -/
theorem onMessage_rejected {s : Sys} {c : Nat} {x : Conn} {t : Time} {id : Val} {cmd : Cmd}
    {text : String} (hx : s.findConn c = some x) (hr : rejectText x cmd = some text) :
    s.onMessage c t id cmd =
      (if cmd = .noType then s else s.send c (.ack id)).sendError c text := by
  have hid := findConn_id hx
  unfold onMessage
  simp only [hx]
  cases happ : x.app <;>
  rcases cmd with _ | _ | ⟨_ | v⟩ | ⟨_ | a, _ | sd, i, v⟩ | _ | ⟨p, d, f⟩ | ⟨_ | n, f⟩ | ⟨_ | n⟩ | ⟨_ | m⟩ |
      ⟨_ | ph, _ | bd⟩ | ⟨_ | m, mood⟩ <;>
    simp only [rejectText, needBind, happ] at hr <;> (repeat' split at hr) <;>
    first
    | (cases hr; done)
    | (exfalso; simp_all; done)
    | (cases hr; simp_all [handlePing, handleBind, handleAllocate, handleClaim, handleRelease,
        handleOpen, handleAdd, handleClose, sendError]; done)
    | (cases hr; simp_all [handleBind, handleAdd, sendError]
       first
       | (split <;> simp_all; done)
       | (cases hs : x.side <;> simp_all; done))

theorem needBind_eq_none {x : Conn} {k : Option String} (h : needBind x k = none) :
    (∃ app, x.app = some app) ∧ k = none := by
  unfold needBind at h
  split at h
  · cases h
  · rename_i hn
    exact ⟨Option.ne_none_iff_exists'.1 hn, h⟩

/-- a command accepted by validation: after the ack, only `Good` events follow -/
theorem onMessage_ok {s : Sys} {c : Nat} {x : Conn} {t : Time} {id : Val} {cmd : Cmd}
    (hx : s.findConn c = some x) (hr : rejectText x cmd = none) :
    OutExt (Good (s.conns.map (·.id))) (s.send c (.ack id)) (s.onMessage c t id cmd) := by
  have hid := findConn_id hx
  have hmem : x.id ∈ s.conns.map (·.id) := List.mem_map.2 ⟨x, findConn_mem hx, rfl⟩
  have hall : ∀ y ∈ (s.send c (.ack id)).conns, y.id ∈ s.conns.map (·.id) :=
    fun y hy => List.mem_map.2 ⟨y, hy, rfl⟩
  unfold onMessage
  simp only [hx]
  rcases cmd with _ | _ | ⟨_ | v⟩ | ⟨a, sd, i, v⟩ | _ | ⟨p, d, f⟩ | ⟨n, f⟩ | ⟨n⟩ | ⟨m⟩ | ⟨ph, bd⟩ | ⟨m, mood⟩
  · simp [rejectText] at hr
  · obtain ⟨_, h⟩ := needBind_eq_none hr; cases h
  · simp [rejectText] at hr
  · -- ping
    exact OutExt.refl.send (fun b => by simpa [Good, hid] using hmem)
  · -- bind
    simp only [rejectText] at hr
    split at hr; · cases hr
    rename_i hb
    split at hr; · cases hr
    split at hr; · cases hr
    obtain ⟨a, rfl⟩ := Option.ne_none_iff_exists'.1 ‹¬ a = none›
    obtain ⟨sd, rfl⟩ := Option.ne_none_iff_exists'.1 ‹¬ sd = none›
    have h1 : x.app = none := by
      cases h : x.app
      · rfl
      · exact absurd (Or.inl (by simp [h])) hb
    have h2 : x.side = none ∨ x.side = some "" := by
      cases h : x.side
      · exact Or.inl rfl
      · rename_i sd'
        by_cases hs : sd' = ""
        · exact Or.inr (by rw [hs])
        · exact absurd (Or.inr ⟨by simp [h], by simpa [h] using hs⟩) hb
    exact handleBind_ok h1 h2
  · -- list
    obtain ⟨⟨app, happ⟩, _⟩ := needBind_eq_none hr
    simp only [happ]
    exact handleList_ok hmem
  · -- allocate
    obtain ⟨⟨app, happ⟩, h⟩ := needBind_eq_none hr
    simp only [happ]
    exact handleAllocate_ok hmem (by cases hd : x.didAllocate <;> simp_all)
  · -- claim
    obtain ⟨⟨app, happ⟩, h⟩ := needBind_eq_none hr
    simp only [happ]
    cases n with
    | none => simp at h
    | some name => exact handleClaim_ok hmem (by cases hd : x.didClaim <;> simp_all)
  · -- release
    obtain ⟨⟨app, happ⟩, h⟩ := needBind_eq_none hr
    simp only [happ]
    have h1 : x.didRelease = false := by cases hd : x.didRelease <;> simp_all
    refine handleRelease_ok hmem h1 ?_ ?_
    · intro a held hn hh
      subst hn
      simpa [h1, hh] using h
    · rintro ⟨rfl, hh⟩
      simp [h1, hh] at h
  · -- open
    obtain ⟨⟨app, happ⟩, h⟩ := needBind_eq_none hr
    simp only [happ]
    have h1 : x.mailbox = none := by cases hd : x.mailbox <;> simp_all
    cases m with
    | none => simp [h1] at h
    | some mb => exact handleOpen_ok hmem h1
  · -- add
    obtain ⟨⟨app, happ⟩, h⟩ := needBind_eq_none hr
    simp only [happ]
    cases hm : x.mailbox with
    | none => simp [hm] at h
    | some mb =>
      cases ph with
      | none => simp [hm] at h
      | some ph =>
        cases bd with
        | none => simp [hm] at h
        | some bd => exact handleAdd_ok hall hm
  · -- close
    obtain ⟨⟨app, happ⟩, h⟩ := needBind_eq_none hr
    simp only [happ]
    have h1 : x.didClose = false := by cases hd : x.didClose <;> simp_all
    refine handleClose_ok hmem h1 ?_ ?_
    · intro a held hn hh
      subst hn
      simpa [h1, hh] using h
    · rintro ⟨rfl, hh⟩
      simp [h1, hh] at h

end Sys

/-! ## The property theorems -/

/-- the databases (live and committed), the configuration and the reboot time are the same,
    and no commit happened -/
structure SameStores (s s' : Sys) : Prop where
  db : s'.db = s.db
  disk : s'.disk = s.disk
  udb : s'.udb = s.udb
  udisk : s'.udisk = s.udisk
  cfg : s'.cfg = s.cfg
  rebooted : s'.rebooted = s.rebooted
  snaps : s'.snaps = []

/-- `SameStores` and every connection record (all flags of all connections) is the same:
    everything except the emitted events -/
structure Unchanged (s s' : Sys) : Prop extends SameStores s s' where
  conns : s'.conns = s.conns

theorem step_recv (s : Sys) (c : Nat) (t : Time) (id : Val) (cmd : Cmd) :
    s.step (.recv c t id cmd) = ({ s with out := [], snaps := [] } : Sys).onMessage c t id cmd := rfl

/-- **C17 (welcome)**: `connect` emits exactly one frame, a `welcome` carrying the configured
    map, to the new connection; the connection list gains exactly the fresh unbound record. -/
theorem C17_welcome (s : Sys) (c : Nat) :
    (s.step (.connect c)).out = [.frame c (.welcome s.cfg.welcome) s.synced] ∧
    (s.step (.connect c)).conns = s.conns ++ [({ id := c } : Conn)] ∧
    SameStores s (s.step (.connect c)) :=
  ⟨rfl, rfl, ⟨rfl, rfl, rfl, rfl, rfl, rfl, rfl⟩⟩

example : (({} : Sys).step (.connect 1)).out = [.frame 1 (.welcome "{}") true] ∧
    (({} : Sys).step (.connect 1)).conns = [{ id := 1 }] := by decide

/-- a concrete state for the non-vacuity examples: connection 1 is fresh, connection 2 is bound,
    has claimed nameplate "4" and holds mailbox "mb" -/
def exDb : Chan :=
  { nameplates := [⟨1, "app", "7", "mb7"⟩, ⟨2, "other", "1", "x"⟩, ⟨3, "app", "4", "mb"⟩,
                   ⟨4, "app", "12", "mb12"⟩],
    nextNp := 5 }

def exSys : Sys :=
  { conns := [{ id := 1 },
              { id := 2, app := some "app", side := some "s1", didClaim := true,
                nameplateId := some "4", mailbox := some "mb", mailboxId := some "mb",
                listening := true }],
    db := exDb, disk := exDb }

def exConn2 : Conn :=
  { id := 2, app := some "app", side := some "s1", didClaim := true, nameplateId := some "4",
    mailbox := some "mb", mailboxId := some "mb", listening := true }

example : exSys.findConn 2 = some exConn2 := by decide

private theorem fresh_findConn (s : Sys) (c : Nat) :
    ({ s with out := [], snaps := [] } : Sys).findConn c = s.findConn c := rfl

/-- a message for a connection id that does not exist does nothing (cannot happen: the
    transport only delivers on open connections) -/
theorem recv_no_conn {s : Sys} {c : Nat} (t : Time) (id : Val) (cmd : Cmd) (hx : s.findConn c = none) :
    (s.step (.recv c t id cmd)).out = [] := by
  rw [step_recv]
  unfold Sys.onMessage
  rw [fresh_findConn, hx]

/-- output and state of a refused command -/
private theorem rejected_step {s : Sys} {c : Nat} {x : Conn} {t : Time} {id : Val} {cmd : Cmd}
    {text : String} (hx : s.findConn c = some x) (hr : rejectText x cmd = some text) :
    (s.step (.recv c t id cmd)).out =
      (if cmd = .noType then [] else [.frame c (.ack id) s.synced]) ++
        [.frame c (.error text) s.synced] ∧
    Unchanged s (s.step (.recv c t id cmd)) := by
  rw [step_recv, Sys.onMessage_rejected (s := { s with out := [], snaps := [] }) hx hr]
  by_cases h : cmd = .noType
  · simp only [h, if_true]
    exact ⟨rfl, ⟨rfl, rfl, rfl, rfl, rfl, rfl, rfl⟩, rfl⟩
  · simp only [h, if_false]
    exact ⟨rfl, ⟨rfl, rfl, rfl, rfl, rfl, rfl, rfl⟩, rfl⟩

/-- **C17 (ack first)**: a received object with a `type` on an existing connection is answered
    first with `ack` echoing its `id`; an object without `type` gets exactly one
    `error "missing 'type'"` frame and no ack. -/
theorem C17_ack_first {s : Sys} {c : Nat} {x : Conn} (t : Time) (id : Val) (cmd : Cmd)
    (hx : s.findConn c = some x) :
    (cmd ≠ .noType → ∃ rest, (s.step (.recv c t id cmd)).out = .frame c (.ack id) s.synced :: rest) ∧
    (cmd = .noType →
      (s.step (.recv c t id cmd)).out = [.frame c (.error "missing 'type'") s.synced]) := by
  constructor
  · intro hne
    cases hr : rejectText x cmd with
    | some text =>
      refine ⟨[.frame c (.error text) s.synced], ?_⟩
      rw [(rejected_step hx hr).1]
      simp [hne]
    | none =>
      obtain ⟨l, hl, _⟩ := Sys.onMessage_ok (s := { s with out := [], snaps := [] }) (t := t)
        (id := id) hx hr
      exact ⟨l, by rw [step_recv, hl]; rfl⟩
  · rintro rfl
    exact (rejected_step (text := "missing 'type'") hx rfl).1

example : ∃ rest, (exSys.step (.recv 2 5 (.int 9) (.claim (some "7") "f"))).out =
    .frame 2 (.ack (.int 9)) true :: rest :=
  (C17_ack_first (s := exSys) (c := 2) (x := exConn2) 5 (.int 9) (.claim (some "7") "f")
    (by decide)).1 (by decide)

example : (exSys.step (.recv 1 5 .null .noType)).out = [.frame 1 (.error "missing 'type'") true] := by
  decide

/-- **C17 (ping)**: `ping` with a value is answered by exactly `[ack id, pong v]` to the sender,
    bound or not; nothing else changes. -/
theorem C17_ping {s : Sys} {c : Nat} {x : Conn} (t : Time) (id v : Val)
    (hx : s.findConn c = some x) :
    (s.step (.recv c t id (.ping (some v)))).out =
      [.frame c (.ack id) s.synced, .frame c (.pong v) s.synced] ∧
    Unchanged s (s.step (.recv c t id (.ping (some v)))) := by
  rw [step_recv]
  unfold Sys.onMessage
  rw [fresh_findConn, hx]
  exact ⟨rfl, ⟨rfl, rfl, rfl, rfl, rfl, rfl, rfl⟩, rfl⟩

example : (exSys.step (.recv 1 5 (.str "i") (.ping (some (.int 3))))).out =
    [.frame 1 (.ack (.str "i")) true, .frame 1 (.pong (.int 3)) true] := by decide
example : (exSys.step (.recv 2 5 .null (.ping (some (.str "p"))))).out =
    [.frame 2 (.ack .null) true, .frame 2 (.pong (.str "p")) true] := by decide

/-- **C17 (validation errors are harmless)**: a command refused by validation is answered by
    exactly `[ack?] ++ [error text]` to the sender (ack iff the object had a type) — so nothing
    goes to any other connection — and everything else is unchanged: both databases, their
    committed states, the configuration and the whole connection list (every flag of every
    connection, the sender's included), and nothing was committed. -/
theorem C17_validation_error {s : Sys} {c : Nat} {x : Conn} {cmd : Cmd} {text : String}
    (t : Time) (id : Val) (hx : s.findConn c = some x) (hr : Rejected x cmd text) :
    (s.step (.recv c t id cmd)).out =
      (if cmd = .noType then [] else [.frame c (.ack id) s.synced]) ++
        [.frame c (.error text) s.synced] ∧
    Unchanged s (s.step (.recv c t id cmd)) :=
  rejected_step hx (rejectText_of_rejected hr)

/-- no frame of a refused command goes to another connection -/
theorem C17_validation_error_private {s : Sys} {c : Nat} {x : Conn} {cmd : Cmd} {text : String}
    (t : Time) (id : Val) (hx : s.findConn c = some x) (hr : Rejected x cmd text) :
    ∀ c' f b, .frame c' f b ∈ (s.step (.recv c t id cmd)).out → c' = c := by
  intro c' f b h
  rw [(C17_validation_error t id hx hr).1] at h
  split at h <;> simp at h <;> grind

example : Rejected exConn2 (.claim (some "7") "f") "only one claim per connection" :=
  .secondClaim _ _ (by decide) rfl
example : (exSys.step (.recv 2 5 (.int 9) (.claim (some "7") "f"))).out =
    [.frame 2 (.ack (.int 9)) true, .frame 2 (.error "only one claim per connection") true] := by
  decide
example : Rejected exConn2 (.release (some "5")) "release and claim must use same nameplate" :=
  .releaseOther _ "4" (by decide) rfl rfl (by decide)
example : Rejected exConn2 (.open_ (some "zz")) "only one open per connection" :=
  .openHeld _ (by decide) (by decide)
example : Rejected { id := 1 } .list "must bind first" := .mustBind _ rfl rfl
/-- NOT rejected: a first `claim` (the flags are set before the claim is attempted) -/
example : ¬ ∃ text, Rejected { id := 3, app := some "a", side := some "s" } (.claim (some "7") "f") text := by
  rintro ⟨text, h⟩
  have := rejectText_of_rejected h
  simp [rejectText, needBind] at this

/-- NOT rejected: an `open` after a failed ("crowded") open: `_mailbox_id` was set before
    `open_mailbox` raised, but no handle is held -/
example : ¬ ∃ text, Rejected { id := 3, app := some "a", side := some "s", mailboxId := some "m" }
    (.open_ (some "q")) text := by
  rintro ⟨text, h⟩
  have := rejectText_of_rejected h
  simp [rejectText, needBind] at this
/-- `Rejected` is decidable -/
example : Rejected exConn2 (.claim none "f") "claim requires 'nameplate'" := by decide
example : ¬ Rejected exConn2 (.claim none "f") "only one claim per connection" := by decide

/-- **C17 (the enumeration is complete)**: an `error` frame in the output of a `recv` step whose
    text is not "crowded" / "reclaimed" (the two errors raised by the database layer) goes to the
    sender and comes from a `Rejected` situation with exactly that text. -/
theorem C17_validation_complete {s : Sys} {c : Nat} {t : Time} {id : Val} {cmd : Cmd}
    {c' : Nat} {text : String} {b : Bool}
    (h : .frame c' (.error text) b ∈ (s.step (.recv c t id cmd)).out)
    (h1 : text ≠ "crowded") (h2 : text ≠ "reclaimed") :
    c' = c ∧ ∃ x, s.findConn c = some x ∧ Rejected x cmd text := by
  cases hx : s.findConn c with
  | none => rw [recv_no_conn t id cmd hx] at h; simp at h
  | some x =>
    cases hr : rejectText x cmd with
    | some text' =>
      rw [(rejected_step hx hr).1] at h
      have : c' = c ∧ text = text' := by split at h <;> simp at h <;> grind
      obtain ⟨rfl, rfl⟩ := this
      exact ⟨rfl, x, rfl, rejected_of_rejectText hr⟩
    | none =>
      obtain ⟨l, hl, hg⟩ := Sys.onMessage_ok (s := { s with out := [], snaps := [] }) (t := t)
        (id := id) hx hr
      rw [step_recv, hl] at h
      have hmem : Event.frame c' (.error text) b ∈ l := by
        have : (({ s with out := [], snaps := [] } : Sys).send c (.ack id)).out =
          [.frame c (.ack id) s.synced] := rfl
        rw [this] at h
        simpa using h
      have := hg _ hmem
      simp only [Good] at this
      rcases this.2 with h | h
      · exact absurd h h1
      · exact absurd h h2

/-! ## C18: the answer to `list` -/

/-- `eraseDups` has no duplicates -/
theorem pairwise_ne_eraseDups {α : Type} [BEq α] [LawfulBEq α] :
    ∀ (l : List α), l.eraseDups.Pairwise (fun a b => a ≠ b)
  | [] => by simp
  | a :: as => by
    rw [List.eraseDups_cons]
    refine List.pairwise_cons.2 ⟨?_, pairwise_ne_eraseDups _⟩
    intro b hb
    rw [List.mem_eraseDups, List.mem_filter] at hb
    have := hb.2
    intro hab
    subst hab
    simp at this
termination_by l => l.length
decreasing_by
  simp only [List.length_cons]
  exact Nat.lt_succ_of_le (List.length_filter_le _ _)

/-- sorting a duplicate-free list of strings by `≤` gives a strictly increasing list -/
theorem strictly_sorted_of_nodup (l : List String) (hl : l.Pairwise (fun a b => a ≠ b)) :
    (l.mergeSort (fun a b => decide (a ≤ b))).Pairwise (fun a b => a < b) := by
  have h1 : (l.mergeSort (fun a b => decide (a ≤ b))).Pairwise (fun a b => decide (a ≤ b) = true) :=
    List.pairwise_mergeSort
      (fun a b c hab hbc => by
        simp only [decide_eq_true_eq] at hab hbc ⊢
        exact String.le_trans hab hbc)
      (fun a b => by
        simp only [Bool.or_eq_true, decide_eq_true_eq]
        exact String.le_total a b) l
  have h2 : (l.mergeSort (fun a b => decide (a ≤ b))).Pairwise (fun a b => a ≠ b) :=
    (List.mergeSort_perm l _).symm.pairwise hl (fun h => Ne.symm h)
  refine (h1.and h2).imp ?_
  rintro a b ⟨hle, hne⟩
  simp only [decide_eq_true_eq] at hle
  rcases Decidable.em (a < b) with h | h
  · exact h
  · exact absurd (String.le_antisymm hle (String.not_lt.1 h)) hne

/-- what `list` answers for app `app` -/
def Sys.listAnswer (s : Sys) (app : String) : List String :=
  if s.cfg.allowList then (s.db.namesOfApp app).mergeSort (fun a b => decide (a ≤ b)) else []

theorem mem_namesOfApp {d : Chan} {app n : String} :
    n ∈ d.namesOfApp app ↔ ∃ r ∈ d.nameplates, r.app = app ∧ r.name = n := by
  unfold Chan.namesOfApp
  rw [List.mem_eraseDups, List.mem_map]
  constructor
  · rintro ⟨r, hr, rfl⟩
    rw [List.mem_filter] at hr
    exact ⟨r, hr.1, by simpa using hr.2, rfl⟩
  · rintro ⟨r, hr, ha, rfl⟩
    exact ⟨r, List.mem_filter.2 ⟨hr, by simpa using ha⟩, rfl⟩

/-- **C18 (list)**: for a bound connection, `list` is answered by exactly
    `[ack id, nameplates ids]` to the sender.  When listing is allowed `ids` is strictly
    increasing w.r.t. the order on `String` (sorted, each name once) and contains exactly the
    names of the nameplate rows of the caller's app; when listing is disallowed `ids = []`.
    Nothing else changes. -/
theorem C18_list_answer {s : Sys} {c : Nat} {x : Conn} {app : String} (t : Time) (id : Val)
    (hx : s.findConn c = some x) (happ : x.app = some app) :
    (s.step (.recv c t id .list)).out =
      [.frame c (.ack id) s.synced, .frame c (.nameplates (s.listAnswer app)) s.synced] ∧
    (s.cfg.allowList = true →
      (s.listAnswer app).Pairwise (fun a b => a < b) ∧
      ∀ n, n ∈ s.listAnswer app ↔ ∃ r ∈ s.db.nameplates, r.app = app ∧ r.name = n) ∧
    (s.cfg.allowList = false → s.listAnswer app = []) ∧
    Unchanged s (s.step (.recv c t id .list)) := by
  refine ⟨?_, ?_, ?_, ?_⟩
  · rw [step_recv]
    unfold Sys.onMessage
    rw [fresh_findConn, hx]
    simp only [happ]
    rw [← findConn_id hx]
    rfl
  · intro ha
    unfold Sys.listAnswer
    rw [if_pos ha]
    refine ⟨strictly_sorted_of_nodup _ (pairwise_ne_eraseDups _), fun n => ?_⟩
    rw [List.mem_mergeSort, mem_namesOfApp]
  · intro ha
    unfold Sys.listAnswer
    simp [ha]
  · rw [step_recv]
    unfold Sys.onMessage
    rw [fresh_findConn, hx]
    simp only [happ]
    exact ⟨⟨rfl, rfl, rfl, rfl, rfl, rfl, rfl⟩, rfl⟩

/-- non-vacuity: connection 2 of `exSys` is bound to "app"; the instance of the theorem -/
example := C18_list_answer (s := exSys) (c := 2) (x := exConn2) (app := "app") 5 .null
  (by decide) rfl
/-- the three names of "app", in `String` order ("12" < "4" < "7"), without the other app's "1" -/
example : exSys.listAnswer "app" = ["12", "4", "7"] := by
  simp [Sys.listAnswer, exSys, exDb, Chan.namesOfApp, List.eraseDups_cons, List.mergeSort]

/-! ## C17: every frame goes to an existing connection -/

/-- the connection ids an operation opens -/
def Op.opens : Op → List Nat
  | .connect c => [c]
  | .crashIn _ op => op.opens
  | _ => []

theorem mem_cutAtCommit {e : Event} : ∀ {k : Nat} {l : List Event}, e ∈ Sys.cutAtCommit k l → e ∈ l := by
  intro k l
  fun_induction Sys.cutAtCommit k l <;> simp_all <;> grind

theorem Good.frame_mem {ids : List Nat} {c : Nat} {f : Frame} {b : Bool}
    (h : Good ids (.frame c f b)) : c ∈ ids := by
  cases f <;> simp only [Good] at h <;> first | exact h | exact h.1

private theorem frames_stepPlain (s : Sys) (h0 : s.out = []) (op : Op) :
    ∀ c f b, .frame c f b ∈ (s.stepPlain op).out → c ∈ s.conns.map (·.id) ∨ c ∈ op.opens := by
  intro c' f b h
  cases op with
  | connect c =>
    have : (s.stepPlain (.connect c)).out = s.out ++ [.frame c (.welcome s.cfg.welcome) s.synced] := rfl
    rw [this, h0] at h
    simp at h
    exact Or.inr (by simp [Op.opens, h.1])
  | recv c t id cmd =>
    left
    change Event.frame c' f b ∈ (s.onMessage c t id cmd).out at h
    cases hx : s.findConn c with
    | none =>
      unfold Sys.onMessage at h
      rw [hx, h0] at h
      simp at h
    | some x =>
      have hc : c ∈ s.conns.map (·.id) := List.mem_map.2 ⟨x, findConn_mem hx, findConn_id hx⟩
      cases hr : rejectText x cmd with
      | some text =>
        rw [Sys.onMessage_rejected hx hr] at h
        have : c' = c := by
          split at h <;> simp [Sys.sendError, Sys.send, Sys.emit, h0] at h <;> grind
        exact this ▸ hc
      | none =>
        obtain ⟨l, hl, hg⟩ := Sys.onMessage_ok (t := t) (id := id) hx hr
        rw [hl] at h
        have : (s.send c (.ack id)).out = [.frame c (.ack id) s.synced] := by
          simp [Sys.send, Sys.emit, h0]
        rw [this] at h
        rcases List.mem_append.1 h with h | h
        · simp at h
          exact h.1 ▸ hc
        · exact (hg _ h).frame_mem
  | drop c =>
    change Event.frame c' f b ∈ s.out at h
    rw [h0] at h; simp at h
  | sweep now fault =>
    obtain ⟨l, hl, hn⟩ := Sys.expire_notFrame (s := s) (now := now) (fault := fault)
    change Event.frame c' f b ∈ (s.expire now fault).out at h
    rw [hl, h0] at h
    have hnf : Sys.NotFrame (.frame c' f b) := hn _ (by simpa using h)
    exact False.elim hnf
  | restart t =>
    change Event.frame c' f b ∈ s.out at h
    rw [h0] at h; simp at h
  | crashIn k op =>
    change Event.frame c' f b ∈ s.out at h
    rw [h0] at h; simp at h

/-- **C17 (frames are addressed)**: every frame a step emits goes to a connection that exists
    before the step or that the step opens; i.e. every event is such a frame or a
    commit / internal / fired event. -/
theorem C17_frames_typed (s : Sys) (op : Op) :
    ∀ c f b, .frame c f b ∈ (s.step op).out → c ∈ s.conns.map (·.id) ∨ c ∈ op.opens := by
  intro c f b h
  have key := frames_stepPlain { s with out := [], snaps := [] } rfl
  cases op with
  | crashIn k op =>
    unfold Sys.step at h
    simp only [] at h
    split at h
    · simp at h
    · exact key op c f b (mem_cutAtCommit h)
    · exact key op c f b h
  | connect c' => exact key _ c f b h
  | recv c' t id cmd => exact key _ c f b h
  | drop c' => exact key _ c f b h
  | sweep now fault => exact key _ c f b h
  | restart t => exact key _ c f b h

example : (exSys.step (.recv 2 5 .null (.add (some (.str "ph")) (some (.str "body"))))).out =
    [.frame 2 (.ack .null) true, .commit .chan,
     .frame 2 (.message "s1" (.str "ph") (.str "body") 5 .null) true] := by decide

#print axioms rejected_iff
#print axioms Rejected.unique
#print axioms C17_welcome
#print axioms C17_ack_first
#print axioms C17_ping
#print axioms C17_validation_error
#print axioms C17_validation_error_private
#print axioms C17_validation_complete
#print axioms C17_frames_typed
#print axioms C18_list_answer
#print axioms recv_no_conn

end Wormhole
