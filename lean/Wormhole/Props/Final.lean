/-
  The history-level theorems that were proved relative to a parameter
  `hreach : ∀ g, g.Reach → g.GInv` (so that they could be developed before the global
  invariant was available), instantiated with the proved invariant `GSys.Reach.ginv`.
  Nothing is proved here beyond that instantiation.
-/
import Wormhole.Inv.Main
import Wormhole.Props.C03

namespace Wormhole

/-- the global invariant, in the shape the parametrised theorems expect -/
theorem reach_ginv : ∀ g : GSys, g.Reach → g.GInv := fun _ h => h.ginv

theorem C03_id_never_reused' : type_of% (@C03_id_never_reused reach_ginv) := @C03_id_never_reused reach_ginv
theorem C03_same_mailbox' : type_of% (@C03_same_mailbox reach_ginv) := @C03_same_mailbox reach_ginv
theorem C03_npMbInjective_reach' : type_of% (@C03_npMbInjective_reach reach_ginv) := @C03_npMbInjective_reach reach_ginv
theorem C03_distinct' : type_of% (@C03_distinct reach_ginv) := @C03_distinct reach_ginv
theorem C03_distinct_answers' : type_of% (@C03_distinct_answers reach_ginv) := @C03_distinct_answers reach_ginv

end Wormhole

#print axioms Wormhole.C03_same_mailbox'
#print axioms Wormhole.C03_distinct'
#print axioms Wormhole.C03_distinct_answers'
