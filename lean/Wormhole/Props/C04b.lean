/-
  C04 (history half) — "allocate returns a free, shortest-available nameplate and holds it".

  Props/C04.lean proves the pure part (`C04_findAvailable_some` / `_valid` / `C04_exhausted`: which
  name `_find_available_nameplate_id` returns for a given set of names in use).  This file proves
  what the `allocate` COMMAND does in a state of a history:

  * `C04_allocate_spec`: for a non-rejected `allocate` (connection bound to (a, σ), has not allocated)
    from any state with the invariants (`PInv` of the channel database, nothing uncommitted -- both
    hold in every reachable state, `GInv`): if `findAvailable (names of app a) pick draws = some n` and
    the generated mailbox id `fresh` is not a mailbox id in the database, then
      - the events of the step are exactly `ack id`, effective commits, `allocated n`, both frames
        sent with nothing uncommitted (flag `true`) -- the `allocated` frame is the LAST event;
      - `n` was not the name of any nameplate row of `a` before (whoever created it, by allocation or
        by explicit claim, numeric or not) and satisfies the pure spec of Props/C04.lean;
      - the channel database is `npClaimNew` of the old one: one new mailbox row, one new nameplate
        row `(a, n)`, one CLAIMED nameplate side row for σ, one opened mailbox side row for σ;
      - and this is ALREADY ON DISK (`disk = db`) when the `allocated` frame is emitted: the frame
        carries the flag `true` (= nothing uncommitted at that instant) and `send` does not write;
      - the connection has `didAllocate = true`, no other connection record changes;
      - nothing depends on `cfg.allowList`: the statement does not mention the configuration at all
        (`C04_allowList_irrelevant`: two states that differ only in their configuration give the same
        database, committed copy, connection records and frames; `C04_config_independent` cites
        `C18_config_independent_step` for the full event list modulo usage commits).
  * `C04_not_reissued`: while the nameplate row `(a, n)` lives no `allocate` in app `a` -- on any
    connection, for any outcome of the random choices -- is answered `allocated n`
    (`C04_no_allocated_frame`: the step emits no `allocated n` frame at all).
  * `C04_exhausted_step` (K-alloc-exhaust): if `findAvailable = none` the events are exactly
    `ack, internal ValueError` and nothing at all changes.
-/
import Wormhole.Props.C04
import Wormhole.Props.C18
import Wormhole.Inv.MbClaim
import Wormhole.Inv.NpSpec
import Wormhole.Inv.Main
import Wormhole.Inv.WFDec

namespace Wormhole
open Sys C04

/-- what validation has checked when it lets an `allocate` through -/
theorem allocate_accepted {x : Conn} {p : Nat} {d : List Nat} {f : String}
    (hr : rejectText x (.allocate p d f) = none) : (∃ app, x.app = some app) ∧ x.didAllocate = false := by
  obtain ⟨happ, h⟩ := needBind_eq_none hr
  refine ⟨happ, ?_⟩
  cases hd : x.didAllocate <;> simp_all

theorem step_allocate_eq {s : Sys} {c : Nat} {x : Conn} (hx : s.findConn c = some x) {app : String}
    (happ : x.app = some app) (t : Time) (id : Val) (pick : Nat) (draws : List Nat) (fresh : String) :
    s.step (.recv c t id (.allocate pick draws fresh)) =
      (({ s with out := [], snaps := [] } : Sys).send c (.ack id)).handleAllocate x app (x.side.getD "") t
        pick draws fresh := by
  rw [step_recv]
  unfold onMessage
  have : ({ s with out := [], snaps := [] } : Sys).findConn c = some x := hx
  simp only [this, happ]

/-- **C04_allocate_spec** (see the header) -/
theorem C04_allocate_spec {s : Sys} (hP : s.db.PInv) (hS : s.Synced) {c : Nat} {x : Conn}
    (hx : s.findConn c = some x) {a σ : String} (happ : x.app = some a) (hside : x.side = some σ)
    (hna : x.didAllocate = false) (t : Time) (id : Val) (pick : Nat) (draws : List Nat) (fresh : String)
    {n : String} (hfa : findAvailable (s.db.namesOfApp a) pick draws = some n)
    (hfresh : ∀ m ∈ s.db.mailboxes, m.id ≠ fresh) :
    let s' := s.step (.recv c t id (.allocate pick draws fresh))
    (∃ commits, (∀ e ∈ commits, IsCommit e) ∧
      s'.out = .frame c (.ack id) true :: (commits ++ [.frame c (.allocated n) true])) ∧
    (∀ r ∈ s.db.nameplates, r.app = a → r.name ≠ n) ∧
    s'.db = s.db.npClaimNew a n σ fresh t ∧ s'.disk = s'.db ∧ s'.Synced ∧
    (∃ row ∈ s'.disk.nameplates, row.app = a ∧ row.name = n ∧
      ∃ r ∈ s'.disk.npSides, r.npid = row.id ∧ r.side = σ ∧ r.claimed = true) ∧
    s'.conns = s.conns.map (fun y => if y.id = c then { y with didAllocate := true } else y) := by
  intro s'
  have hid : x.id = c := findConn_id hx
  have hsy : s.synced = true := (synced_iff s).2 hS
  have hnot : ∀ r ∈ s.db.nameplates, r.app = a → r.name ≠ n := by
    obtain ⟨k, _, hnc, _⟩ := C04_findAvailable_some hfa
    intro r hr ha hn
    exact hnc (mem_namesOfApp.2 ⟨r, hr, ha, hn⟩)
  have hnone : s.db.findNameplate a n = none := by
    simp only [Chan.findNameplate, List.find?_eq_none, decide_eq_true_eq, not_and]
    intro r hr ha; exact hnot r hr ha
  have hs' : s' = (({ s with out := [], snaps := [] } : Sys).send c (.ack id)).handleAllocate x a (x.side.getD "") t
      pick draws fresh := step_allocate_eq hx happ t id pick draws fresh
  generalize hA : (({ s with out := [], snaps := [] } : Sys).send c (.ack id)) = sA at hs'
  have hAout : sA.out = [.frame c (.ack id) true] := by rw [← hA, ← hsy]; rfl
  have hAdb : sA.db = s.db := by rw [← hA]; rfl
  have hAdisk : sA.disk = s.disk := by rw [← hA]; rfl
  have hAudb : sA.udb = s.udb := by rw [← hA]; rfl
  have hAudisk : sA.udisk = s.udisk := by rw [← hA]; rfl
  have hAconns : sA.conns = s.conns := by rw [← hA]; rfl
  have hσ : x.side.getD "" = σ := by rw [hside]; rfl
  rw [hσ] at hs'
  unfold handleAllocate at hs'
  simp only [hna, Bool.false_eq_true, if_false, hAdb, hfa] at hs'
  cases e : sA.claimNameplate a n σ t fresh with
  | mk s1 r =>
    rw [e] at hs'
    obtain ⟨hdb1, hconns1, hr⟩ := Sys.Np.claimNameplate_new (by rw [hAdb]; exact hP) (by rw [hAdb]; exact hnone)
      (by rw [hAdb]; exact hfresh) e
    rw [hAdb] at hdb1
    subst hr
    obtain ⟨q, _, hd⟩ := claimNameplate_spec e (by show sA.db.IdsBounded; rw [hAdb]; exact hP.bounded)
    have hsync1 : s1.Synced := by
      refine ⟨hd (by show sA.db = sA.disk; rw [hAdb, hAdisk]; exact hS.1), ?_⟩
      rw [q.udb, q.udisk]; show sA.udb = sA.udisk; rw [hAudb, hAudisk]; exact hS.2
    have hcx := CExt.claimNameplate (OutExt.refl (s := sA)) (app := a) (name := n) (side := σ) (t := t) (fresh := fresh)
    rw [e] at hcx
    obtain ⟨commits, hout, hc⟩ := hcx
    dsimp only at hout hs'
    rw [hAout] at hout
    have hsync' : (s1.updConn x.id (fun y => { y with didAllocate := true })).synced = true :=
      (synced_iff _).2 ⟨hsync1.1, hsync1.2⟩
    have hdb' : s'.db = s.db.npClaimNew a n σ fresh t := by rw [hs']; exact hdb1
    have hdisk' : s'.disk = s'.db := by rw [hs']; exact hsync1.1.symm
    refine ⟨⟨commits, hc, ?_⟩, hnot, hdb', hdisk', ?_, ?_, ?_⟩
    · rw [hs']
      show (s1.updConn x.id _).out ++ [.frame x.id (.allocated n) (s1.updConn x.id _).synced] = _
      rw [hsync', updConn_out, hout, hid]; simp
    · rw [hs']; exact ⟨hsync1.1, hsync1.2⟩
    · rw [hdisk', hdb']
      refine ⟨⟨s.db.nextNp, a, n, fresh⟩, by simp [Chan.npClaimNew], rfl, rfl,
        ⟨s.db.nextNp, true, σ, t⟩, by simp [Chan.npClaimNew], rfl, rfl, rfl⟩
    · rw [hs']
      show (s1.updConn x.id _).conns = _
      simp only [updConn, hconns1, hAconns, hid]

/-- nothing in `C04_allocate_spec` depends on the configuration: two states with the same databases
    and connection records (whatever `allowList`, `usage`, `blur`) give the same database, committed
    copy, connection records and the same two frames -/
theorem C04_allowList_irrelevant {s s₂ : Sys} (hP : s.db.PInv) (hS : s.Synced) (hS₂ : s₂.Synced)
    (hdb : s₂.db = s.db) (hconns : s₂.conns = s.conns) {c : Nat} {x : Conn}
    (hx : s.findConn c = some x) {a σ : String} (happ : x.app = some a) (hside : x.side = some σ)
    (hna : x.didAllocate = false) (t : Time) (id : Val) (pick : Nat) (draws : List Nat) (fresh : String)
    {n : String} (hfa : findAvailable (s.db.namesOfApp a) pick draws = some n)
    (hfresh : ∀ m ∈ s.db.mailboxes, m.id ≠ fresh) :
    (s₂.step (.recv c t id (.allocate pick draws fresh))).db = (s.step (.recv c t id (.allocate pick draws fresh))).db ∧
    (s₂.step (.recv c t id (.allocate pick draws fresh))).disk = (s.step (.recv c t id (.allocate pick draws fresh))).disk ∧
    (s₂.step (.recv c t id (.allocate pick draws fresh))).conns = (s.step (.recv c t id (.allocate pick draws fresh))).conns ∧
    (s₂.step (.recv c t id (.allocate pick draws fresh))).frames = (s.step (.recv c t id (.allocate pick draws fresh))).frames := by
  have hx₂ : s₂.findConn c = some x := by unfold Sys.findConn; rw [hconns]; exact hx
  obtain ⟨⟨cm1, hc1, o1⟩, _, d1, k1, _, _, c1⟩ :=
    C04_allocate_spec hP hS hx happ hside hna t id pick draws fresh hfa hfresh
  obtain ⟨⟨cm2, hc2, o2⟩, _, d2, k2, _, _, c2⟩ :=
    C04_allocate_spec (s := s₂) (by rw [hdb]; exact hP) hS₂ hx₂ happ hside hna t id pick draws fresh
      (by rw [hdb]; exact hfa) (by rw [hdb]; exact hfresh)
  have hfr : ∀ cm : List Event, (∀ e ∈ cm, IsCommit e) → cm.filter Event.isFrame = [] := by
    intro cm h
    rw [List.filter_eq_nil_iff]
    intro e he
    obtain ⟨w, rfl⟩ := h e he
    simp [Event.isFrame]
  refine ⟨by rw [d2, d1, hdb], by rw [k2, k1, d2, d1, hdb], by rw [c2, c1, hconns], ?_⟩
  unfold Sys.frames
  rw [o1, o2]
  simp [List.filter_cons, List.filter_append, Event.isFrame, hfr cm1 hc1, hfr cm2 hc2]

/-- the same, by citation of C18: for ANY two configurations the whole event list of the step agrees
    modulo usage commits, and the channel state agrees -/
theorem C04_config_independent {s₁ s₂ : Sys} (h : CfgSim s₁ s₂) (c : Nat) (t : Time) (id : Val) (pick : Nat)
    (draws : List Nat) (fresh : String) :
    CfgSim (s₁.step (.recv c t id (.allocate pick draws fresh))) (s₂.step (.recv c t id (.allocate pick draws fresh))) ∧
    (s₁.step (.recv c t id (.allocate pick draws fresh))).out.filterMap eraseCfg =
      (s₂.step (.recv c t id (.allocate pick draws fresh))).out.filterMap eraseCfg :=
  C18_config_independent_step h _ rfl

/-- **C04_no_allocated_frame**: every `allocated` frame an `allocate` step emits carries the name
    `findAvailable` returned for the names in use before the step -/
theorem C04_allocated_frame_source {s : Sys} {c : Nat} {x : Conn} (hx : s.findConn c = some x) {a : String}
    (happ : x.app = some a) (t : Time) (id : Val) (pick : Nat) (draws : List Nat) (fresh : String)
    {c' : Nat} {n' : String} {b : Bool}
    (hmem : Event.frame c' (.allocated n') b ∈ (s.step (.recv c t id (.allocate pick draws fresh))).out) :
    findAvailable (s.db.namesOfApp a) pick draws = some n' := by
  rw [step_allocate_eq hx happ t id pick draws fresh] at hmem
  generalize hA : (({ s with out := [], snaps := [] } : Sys).send c (.ack id)) = sA at hmem
  have hAout : sA.out = [.frame c (.ack id) s.synced] := by rw [← hA]; rfl
  have hAdb : sA.db = s.db := by rw [← hA]; rfl
  unfold handleAllocate at hmem
  split at hmem
  · simp [sendError, send, emit, hAout] at hmem
  · rw [hAdb] at hmem
    split at hmem
    · simp [internalErr, emit, hAout] at hmem
    · rename_i name hname
      have hcx := CExt.claimNameplate (OutExt.refl (s := sA)) (app := a) (name := name) (side := x.side.getD "")
        (t := t) (fresh := fresh)
      obtain ⟨commits, hout, hc⟩ := hcx
      rw [hAout] at hout
      have hnotc : ∀ e ∈ commits, e ≠ Event.frame c' (.allocated n') b := by
        intro e he h; obtain ⟨w, hw⟩ := hc e he; rw [hw] at h; cases h
      split at hmem
      all_goals
        rename_i s1 _ e1
        rw [e1] at hout
        dsimp only at hout
      · simp only [send, emit, updConn_out, hout, List.mem_append, List.mem_cons, List.not_mem_nil, or_false] at hmem
        rcases hmem with (h | h) | h
        · cases h
        · exact absurd rfl (hnotc _ h)
        · cases h; exact hname
      all_goals
        simp only [internalErr, emit, hout, List.mem_append, List.mem_cons, List.not_mem_nil, or_false] at hmem
        rcases hmem with (h | h) | h
        · cases h
        · exact absurd rfl (hnotc _ h)
        · cases h

/-- **C04_not_reissued**: while the nameplate row `(a, n)` lives, `findAvailable` never returns `n`
    for app `a`, so no `allocate` in app `a` -- from any connection, whatever the random choices --
    emits an `allocated n` frame -/
theorem C04_not_reissued {d : Chan} {a n : String} (hrow : ∃ r ∈ d.nameplates, r.app = a ∧ r.name = n)
    (pick : Nat) (draws : List Nat) : findAvailable (d.namesOfApp a) pick draws ≠ some n := by
  intro h
  obtain ⟨_, _, hnc, _⟩ := C04_findAvailable_some h
  exact hnc (mem_namesOfApp.2 hrow)

theorem C04_no_allocated_frame {s : Sys} {a n : String} (hrow : ∃ r ∈ s.db.nameplates, r.app = a ∧ r.name = n)
    {c : Nat} {x : Conn} (hx : s.findConn c = some x) (happ : x.app = some a) (t : Time) (id : Val) (pick : Nat)
    (draws : List Nat) (fresh : String) (c' : Nat) (b : Bool) :
    Event.frame c' (.allocated n) b ∉ (s.step (.recv c t id (.allocate pick draws fresh))).out :=
  fun hmem => C04_not_reissued hrow pick draws (C04_allocated_frame_source hx happ t id pick draws fresh hmem)

/-- **C04_exhausted_step** (K-alloc-exhaust): `ValueError` escapes, nothing changes -/
theorem C04_exhausted_step {s : Sys} (hS : s.Synced) {c : Nat} {x : Conn} (hx : s.findConn c = some x) {a : String}
    (happ : x.app = some a) (hna : x.didAllocate = false) (t : Time) (id : Val) (pick : Nat) (draws : List Nat)
    (fresh : String) (hfa : findAvailable (s.db.namesOfApp a) pick draws = none) :
    (s.step (.recv c t id (.allocate pick draws fresh))).out =
      [.frame c (.ack id) true, .internal (some c) "ValueError"] ∧
    Unchanged s (s.step (.recv c t id (.allocate pick draws fresh))) := by
  have hid : x.id = c := findConn_id hx
  have hsy : s.synced = true := (synced_iff s).2 hS
  rw [step_allocate_eq hx happ t id pick draws fresh]
  unfold handleAllocate
  simp only [hna, Bool.false_eq_true, if_false]
  have : (({ s with out := [], snaps := [] } : Sys).send c (.ack id)).db = s.db := rfl
  rw [this, hfa]
  refine ⟨?_, ⟨rfl, rfl, rfl, rfl, rfl, rfl, rfl⟩, rfl⟩
  show [Event.frame c (.ack id) s.synced] ++ [Event.internal (some x.id) "ValueError"] = _
  rw [hsy, hid]; rfl

/-! ### the same for reachable states -/

/-- `C04_allocate_spec` in every state of every well-formed history (crashes included) -/
theorem C04_allocate_spec_reach {g : GSys} (hg : g.Reach) {c : Nat} {x : Conn}
    (hx : g.sys.findConn c = some x) {a σ : String} (happ : x.app = some a) (hside : x.side = some σ)
    (hna : x.didAllocate = false) (t : Time) (id : Val) (pick : Nat) (draws : List Nat) (fresh : String)
    (hw : g.WFOp (.recv c t id (.allocate pick draws fresh)))
    {n : String} (hfa : findAvailable (g.sys.db.namesOfApp a) pick draws = some n) :
    let s' := g.sys.step (.recv c t id (.allocate pick draws fresh))
    (∃ commits, (∀ e ∈ commits, IsCommit e) ∧
      s'.out = .frame c (.ack id) true :: (commits ++ [.frame c (.allocated n) true])) ∧
    (∀ r ∈ g.sys.db.nameplates, r.app = a → r.name ≠ n) ∧
    s'.db = g.sys.db.npClaimNew a n σ fresh t ∧ s'.disk = s'.db ∧ s'.Synced ∧
    (∃ row ∈ s'.disk.nameplates, row.app = a ∧ row.name = n ∧
      ∃ r ∈ s'.disk.npSides, r.npid = row.id ∧ r.side = σ ∧ r.claimed = true) ∧
    s'.conns = g.sys.conns.map (fun y => if y.id = c then { y with didAllocate := true } else y) := by
  have hI := hg.ginv
  refine C04_allocate_spec hI.cinv.toPInv hI.synced hx happ hside hna t id pick draws fresh hfa ?_
  intro m hm e
  exact hw.idFresh fresh rfl (e ▸ hI.used m hm)

/-! ### Non-vacuity -/

namespace C04bExample

def bind (c : Nat) (t : Time) (σ : String) : Op := .recv c t (.int 1) (.bind (some "app") (some σ) none none)
/-- names "1" (allocated earlier) and "3" (explicit claim) are in use; listing is DISALLOWED -/
def H : List Op :=
  [ .connect 1, bind 1 10 "s1", .recv 1 11 (.int 2) (.allocate 0 [] "mb1"),
    .connect 2, bind 2 12 "s2", .recv 2 13 (.int 2) (.claim (some "3") "mb2"),
    .connect 3, bind 3 14 "s3" ]
def g : GSys := (GSys.init { allowList := false } 0).run H
theorem g_reach : g.Reach := GSys.reach_of_wfB _ _ _ (by decide +kernel)
def x3 : Conn := { id := 3, app := some "app", side := some "s3" }
def op : Op := .recv 3 15 (.int 2) (.allocate 1 [] "mb3")

/-- the hypotheses of `C04_allocate_spec_reach` hold: names in use {"1","3"}, `pick = 1` among the free
    one-digit values 2,4,5,… gives "4" -/
example : g.sys.findConn 3 = some x3 ∧ g.WFOp op ∧ g.sys.db.namesOfApp "app" = ["1", "3"] ∧
    findAvailable (g.sys.db.namesOfApp "app") 1 [] = some "4" :=
  ⟨by decide +kernel, GSys.wfOpB_sound (by decide +kernel), by decide +kernel, by decide +kernel⟩
/-- evaluated: the step answers `allocated "4"` after two commits and the claim is on disk -/
example : (g.sys.step op).out =
    [.frame 3 (.ack (.int 2)) true, .commit .chan, .commit .chan, .frame 3 (.allocated "4") true] ∧
    (g.sys.step op).disk.nameplates.map (fun r => (r.app, r.name)) = [("app", "1"), ("app", "3"), ("app", "4")] := by
  decide +kernel
/-- while ("app","4") lives nobody else is given "4" -/
example : findAvailable ((g.sys.step op).db.namesOfApp "app") 1 [] = some "5" := by decide +kernel

end C04bExample
end Wormhole

#print axioms Wormhole.C04_allocate_spec
#print axioms Wormhole.C04_allocate_spec_reach
#print axioms Wormhole.C04_allowList_irrelevant
#print axioms Wormhole.C04_config_independent
#print axioms Wormhole.C04_allocated_frame_source
#print axioms Wormhole.C04_not_reissued
#print axioms Wormhole.C04_no_allocated_frame
#print axioms Wormhole.C04_exhausted_step
