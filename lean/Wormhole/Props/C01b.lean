/-
  C01, second part (audit A, problems 3 and 8(c)).

  (a) `C01_replay_exact_live`  "exactly as submitted" under the weakest hypothesis that makes it true:
      every entry of the LIVE LOG of `(a, m)` carries no JSON number (K-id-coercion) -- instead of
      `C01_replay_exact'`'s "every op of the history is textual".  `textual_ops_imp_live` shows that
      the old hypothesis implies the new one; the example below shows a history to which only the
      new theorem applies.
  (b) `C01_deleted_only_by_close_or_sweep`  the link between the table-reading ghost `liveStep`
      ("row `(a, m)` absent after the step") and the words of the property ("deletion: last close or
      expiry"): from EVERY state satisfying `GInv`, for EVERY operation (crashes at any commit
      included): if the mailbox row `(a, m)` is present before the step and absent after it, the
      operation is either a `close` by a connection bound to `a`, acting on `m`, with no OTHER side
      of `m` open (`ClosesLast`), or a non-faulted sweep that finds the row old and without listener
      (`SweepsOld`).
  (c) `C01_entry_survives`  the history-level corollary: an accepted `add` on `(a, m)` stays in
      `liveLog a m` as long as no later step is a `ClosesLast` or a `SweepsOld` of `(a, m)`.
-/
import Wormhole.Props.C01
import Wormhole.Props.C03
import Wormhole.Props.C08
import Wormhole.Props.C12

namespace Wormhole
open Sys

/-! ## (a) replay exact, hypothesis on the live log only -/

/-- the old hypothesis (every op of the history textual) implies the new one -/
theorem textual_ops_imp_live (a m : String) (cfg : Cfg) (rb : Time) (ops : List Op)
    (htext : ∀ op ∈ ops, op.Textual) : ∀ e ∈ liveLog a m cfg rb ops, e.Textual :=
  liveRun_forall Entry.Textual a m ops
    (fun op hop _ _ _ _ h => addEntryOf_textual h (htext op hop)) _ [] (by simp)

/-- **C01 (replay exact, live form)**: if no entry of the live log of `(a, m)` -- the accepted `add`s
    on `(a, m)` since that mailbox row last did not exist -- carries a JSON number as phase, body or
    id, then an accepted `open` of `(a, m)` answered ok is sent exactly: ack, commits, and that log,
    one frame per entry, in order, with the adder's bound side and phase, body, id EXACTLY AS
    SUBMITTED.  Nothing is required of rejected `add`s, of `add`s to other mailboxes or apps, or of
    `add`s to an earlier incarnation of `(a, m)`. -/
theorem C01_replay_exact_live (cfg : Cfg) (rb : Time) (ops : List Op)
    (hwf : (GSys.init cfg rb).WF ops)
    {c : Nat} {x : Conn} {a σ m : String} (htext : ∀ e ∈ liveLog a m cfg rb ops, e.Textual)
    (t : Time) (id : Val)
    (hx : ((GSys.init cfg rb).run ops).sys.findConn c = some x) (ha : x.app = some a)
    (hσ : x.side = some σ) (hm : x.mailbox = none)
    (hok : ((GSys.init cfg rb).run ops).sys.db.openRes a m σ = .ok) :
    ∃ commits, (∀ e ∈ commits, IsCommit e) ∧
      (((GSys.init cfg rb).run ops).step (.recv c t id (.open_ (some m)))).sys.out =
        [.frame c (.ack id) true] ++ commits ++ (liveLog a m cfg rb ops).map (Entry.asSubmitted c) := by
  obtain ⟨l, hl, ho⟩ := C01_replay_live (fun _ h => h.ginv) cfg rb ops hwf t id hx ha hσ hm hok
  refine ⟨l, hl, ?_⟩
  rw [ho]
  congr 1
  apply List.map_congr_left
  intro e he
  exact Entry.replay_eq_asSubmitted (htext e he) c

/-- the new theorem subsumes the old one -/
example (cfg : Cfg) (rb : Time) (ops : List Op)
    (hwf : (GSys.init cfg rb).WF ops) (htext : ∀ op ∈ ops, op.Textual)
    {c : Nat} {x : Conn} {a σ m : String} (t : Time) (id : Val)
    (hx : ((GSys.init cfg rb).run ops).sys.findConn c = some x) (ha : x.app = some a)
    (hσ : x.side = some σ) (hm : x.mailbox = none)
    (hok : ((GSys.init cfg rb).run ops).sys.db.openRes a m σ = .ok) :
    ∃ commits, (∀ e ∈ commits, IsCommit e) ∧
      (((GSys.init cfg rb).run ops).step (.recv c t id (.open_ (some m)))).sys.out =
        [.frame c (.ack id) true] ++ commits ++ (liveLog a m cfg rb ops).map (Entry.asSubmitted c) :=
  C01_replay_exact_live cfg rb ops hwf (textual_ops_imp_live a m cfg rb ops htext) t id hx ha hσ hm hok

namespace C01bEx

/-- connection 1 (app "A", side "s1") opens "m" and adds a textual message; connection 3 (same app)
    opens ANOTHER mailbox "other" and adds there with the JSON number 5 as id; connection 1 also sends
    an `add` with a numeric phase and NO body, which validation refuses; connection 2 binds. -/
def hist : List Op :=
  [.connect 1, .recv 1 1 .null (.bind (some "A") (some "s1") none none),
   .recv 1 2 .null (.open_ (some "m")),
   .recv 1 3 (.str "i1") (.add (some (.str "ph")) (some (.str "bd"))),
   .connect 3, .recv 3 4 .null (.bind (some "A") (some "s3") none none),
   .recv 3 5 .null (.open_ (some "other")),
   .recv 3 6 (.int 5) (.add (some (.str "ph")) (some (.str "bd"))),
   .recv 1 7 (.int 9) (.add (some (.int 1)) none),
   .connect 2, .recv 2 8 .null (.bind (some "A") (some "s2") none none)]

theorem hist_wf : (GSys.init {} 0).WF hist := GSys.wfB_sound (by decide +kernel)

/-- the old hypothesis fails (two ops are not textual) ... -/
example : ¬ ∀ op ∈ hist, op.Textual := by
  intro h
  have := h (.recv 3 6 (.int 5) (.add (some (.str "ph")) (some (.str "bd")))) (by simp [hist])
  simp [Op.Textual, Op.plain, Val.isInt] at this

/-- ... the live log of ("A","m") is textual all the same ... -/
theorem live_m : liveLog "A" "m" {} 0 hist = [⟨"s1", .str "ph", .str "bd", .str "i1", 3⟩] := by
  decide +kernel

theorem live_textual : ∀ e ∈ liveLog "A" "m" {} 0 hist, e.Textual := by
  rw [live_m]
  intro e he
  simp only [List.mem_singleton] at he
  subst he
  exact ⟨rfl, rfl, rfl⟩

def x2 : Conn := { id := 2, app := some "A", side := some "s2" }

/-- ... and all hypotheses of `C01_replay_exact_live` hold for connection 2 opening "m" -/
example := C01_replay_exact_live {} 0 hist hist_wf (c := 2) (x := x2) (a := "A") (σ := "s2") (m := "m")
  live_textual 9 .null (by decide +kernel) rfl rfl rfl (by decide +kernel)

/-- (the live log of ("A","other") is NOT textual: there the finding K-id-coercion bites) -/
example : liveLog "A" "other" {} 0 hist = [⟨"s3", .str "ph", .str "bd", .int 5, 6⟩] := by decide +kernel

end C01bEx

/-! ## (b) a mailbox row disappears only by a last close or by expiry -/

/-- `op` (or the operation a `crashIn` wraps) is a `close` received on a connection bound to app `a`,
    acting on mailbox `m` (`Conn.closeTarget`: the handle if the connection holds one, else the
    `mailbox` key of the command, else the name the connection remembers), while NO OTHER side of `m`
    is open in the state the command arrives in: the closer's side is the only side row of `m` with
    `opened = true`, or there is none (possible only after a crash inside an earlier `close`).
    The command passes validation (`rejectText = none`, Props/C17.lean). -/
def Sys.ClosesLast (s : Sys) (op : Op) (a m : String) : Prop :=
  ∃ c t id mo mood x, op.inner = .recv c t id (.close mo mood) ∧ s.findConn c = some x ∧
    rejectText x (.close mo mood) = none ∧
    x.app = some a ∧ x.closeTarget mo = some m ∧ ¬ s.db.OtherOpen m (x.side.getD "")

/-- `op` (or the operation a `crashIn` wraps) is a non-faulted sweep at time `now`, the row `(a, m)`
    was last stamped at or before `now - expirationTicks`, and nobody is subscribed to `(a, m)` -/
def Sys.SweepsOld (s : Sys) (op : Op) (a m : String) : Prop :=
  ∃ now row, op.inner = .sweep now false ∧ s.db.findMailbox a m = some row ∧
    row.updated ≤ now - Generated.expirationTicks ∧ s.listeners a m = []

/-- `¬ OtherOpen` in the words of the task: every `opened` side row of `m` is the closer's -/
theorem c01b_not_otherOpen_iff (d : Chan) (m σ : String) :
    ¬ d.OtherOpen m σ ↔ ∀ r ∈ d.mbSides, r.mailbox = m → r.opened = true → r.side = σ := by
  unfold Chan.OtherOpen
  constructor
  · intro h r hr hm ho
    false_or_by_contra
    rename_i hne
    exact h ⟨r, hr, hm, hne, ho⟩
  · rintro h ⟨r, hr, hm, hne, ho⟩
    exact hne (h r hr hm ho)

theorem Op.c01b_inner_eq_core (op : Op) : op.core.isCrash = true ∨ op.inner = op.core := by
  cases op with
  | crashIn k op' =>
    cases hc : op'.isCrash with
    | true => exact .inl hc
    | false => exact .inr (by simp [Op.inner, Op.core, Op.inner_of_not_crash hc])
  | _ => exact .inr rfl

/-- a step that executes nothing (a `crashIn` wrapped around a `crashIn`) and every step that is neither
    a sweep nor a `close` aimed at mailbox id `m` keeps the row `(a, m)` -- at every commit point -/
theorem c01b_hasBox_step_of_no_close {s : Sys} (hs : s.db = s.disk) {a m : String} (hrow : s.db.HasBox a m)
    (op : Op) (hns : op.core.isSweep = false)
    (hnc : ¬ ∃ c t id mo mood x app', op.core = .recv c t id (.close mo mood) ∧ s.findConn c = some x ∧
      x.app = some app' ∧ x.closeTarget mo = some m) :
    (s.step op).db.HasBox a m := by
  refine step_track (R := fun d => d.HasBox a m) (R' := fun d => d.HasBox a m)
    (fun d f hf h => (Chan.Mono.grow hf d).rows _ _ h) (fun _ h => h)
    (by intro hsw; rw [hns] at hsw; cases hsw) ?_ ?_ hrow (by rw [← hs]; exact hrow)
  · intro c t id x mo mood app' tgt _ _ _ _ d h _
    exact h
  · intro c t id x mo mood app' tgt hop hx happ htg d h _
    have hne : m ≠ tgt := by
      rintro rfl
      exact hnc ⟨c, t, id, mo, mood, x, app', hop, hx, happ, htg⟩
    obtain ⟨r, hr, h1, h2⟩ := h
    refine ⟨r, ?_, h1, h2⟩
    simp only [Chan.closeDeletes, Chan.delMailbox, List.mem_filter, decide_not, Bool.not_eq_eq_eq_not,
      Bool.not_true, decide_eq_false_iff_not]
    exact ⟨hr, by rw [h2]; exact hne⟩

/-- a `close` that names a mailbox id existing under ANOTHER app, on a connection without handle:
    refused by validation or answered IntegrityError (K-global-mailbox-id) before any statement ran:
    the database, the committed database and the list of crash points are untouched -/
theorem c01b_handleClose_clash {s : Sys} {x : Conn} {app' mb sd : String} {mo : Option String}
    (hnoh : x.mailbox = none) (hn : x.closeName mo = some mb)
    (h1 : s.db.findMailbox app' mb = none) (h2 : s.db.findMailboxById mb ≠ none)
    (t : Time) (mood : Option String) :
    (s.handleClose x app' sd t mo mood).db = s.db ∧ (s.handleClose x app' sd t mo mood).disk = s.disk ∧
    (s.handleClose x app' sd t mo mood).snaps = s.snaps := by
  have hom : s.openMailbox app' mb sd t = (s, .integrity) := by
    have : s.addMailbox app' mb false t = none := by
      rw [addMailbox_none_iff]; exact ⟨h1, h2⟩
    simp [Sys.openMailbox, this]
  unfold Sys.handleClose
  split
  · exact ⟨rfl, rfl, rfl⟩
  · rcases mo with _ | m0 <;> rcases hh : x.mailboxId with _ | held <;>
      simp only [Conn.closeName, hh, Option.some.injEq, reduceCtorEq] at hn
    · subst hn
      simp only [hnoh, hom]
      exact ⟨rfl, rfl, rfl⟩
    · subst hn
      simp only [hnoh, hom]
      exact ⟨rfl, rfl, rfl⟩
    · subst hn
      simp only []
      split
      · exact ⟨rfl, rfl, rfl⟩
      · simp only [hnoh, hom]
        exact ⟨rfl, rfl, rfl⟩

theorem c01b_onMessage_close_clash {s : Sys} {c : Nat} {x : Conn} {app' mb : String} {mo : Option String}
    (hx : s.findConn c = some x) (happ : x.app = some app') (hnoh : x.mailbox = none)
    (hn : x.closeName mo = some mb)
    (h1 : s.db.findMailbox app' mb = none) (h2 : s.db.findMailboxById mb ≠ none)
    (t : Time) (id : Val) (mood : Option String) :
    (s.onMessage c t id (.close mo mood)).db = s.db ∧ (s.onMessage c t id (.close mo mood)).disk = s.disk ∧
    (s.onMessage c t id (.close mo mood)).snaps = s.snaps := by
  unfold Sys.onMessage
  simp only [hx, happ]
  exact c01b_handleClose_clash (s := s.send c (.ack id)) hnoh hn h1 h2 t mood

theorem Op.c01b_inner_of_core_recv {op : Op} {c : Nat} {t : Time} {id : Val} {cmd : Cmd}
    (h : op.core = .recv c t id cmd) : op.inner = .recv c t id cmd := by
  rcases Op.c01b_inner_eq_core op with hc | hc
  · rw [h] at hc; cases hc
  · rw [hc, h]

theorem Op.c01b_inner_of_core_sweep {op : Op} {now : Time} {fault : Bool}
    (h : op.core = .sweep now fault) : op.inner = .sweep now fault := by
  rcases Op.c01b_inner_eq_core op with hc | hc
  · rw [h] at hc; cases hc
  · rw [hc, h]

/-- a command whose execution changes neither the database nor the committed database and commits
    nothing leaves the database as it was, crashed or not -/
theorem c01b_step_db_of_inert {s : Sys} (hs : s.db = s.disk) (op : Op) {c : Nat} {t : Time} {id : Val} {cmd : Cmd}
    (hop : op.core = .recv c t id cmd)
    (hk : (({ s with out := [], snaps := [] } : Sys).onMessage c t id cmd).db = s.db ∧
      (({ s with out := [], snaps := [] } : Sys).onMessage c t id cmd).disk = s.disk ∧
      (({ s with out := [], snaps := [] } : Sys).onMessage c t id cmd).snaps = []) :
    (s.step op).db = s.db := by
  obtain ⟨k1, k2, k3⟩ := hk
  cases op with
  | crashIn k op' =>
    simp only [Op.core] at hop
    subst hop
    obtain ⟨p, hp, e1, _⟩ := GSys.step_crash_spec s k (.recv c t id cmd)
    rw [e1]
    rcases hp with hp | rfl | rfl
    · rw [show (({ s with out := [], snaps := [] } : Sys).stepPlain (.recv c t id cmd)).snaps = [] from k3] at hp
      cases hp
    · exact k2.trans hs.symm
    · exact hs.symm
  | recv c' t' id' cmd' =>
    simp only [Op.core] at hop
    cases hop
    exact k1
  | _ => simp [Op.core] at hop

/-- a command refused by validation changes no table, crashed or not -/
theorem c01b_step_db_of_rejected {s : Sys} (hs : s.db = s.disk) (op : Op) {c : Nat} {t : Time} {id : Val} {cmd : Cmd}
    {x : Conn} {text : String} (hop : op.core = .recv c t id cmd) (hx : s.findConn c = some x)
    (hr : rejectText x cmd = some text) : (s.step op).db = s.db := by
  apply c01b_step_db_of_inert hs op hop
  rw [onMessage_rejected (s := { s with out := [], snaps := [] }) (t := t) (id := id) hx hr]
  split <;> exact ⟨rfl, rfl, rfl⟩

/-- the part of (b) for every operation that is not a sweep (crashes at any commit included) -/
theorem c01b_deleted_nonsweep {g : GSys} (hI : g.GInv) {a m : String} (hrow : g.sys.db.HasBox a m) (op : Op)
    (hns : op.core.isSweep = false) (hgone : ¬ (g.sys.step op).db.HasBox a m) :
    g.sys.ClosesLast op a m := by
  have hP := hI.cinv.toPInv
  -- a `close` that deletes something was not refused by validation
  have hacc : ∀ {c t id mo mood x}, op.core = .recv c t id (.close mo mood) → g.sys.findConn c = some x →
      rejectText x (.close mo mood) = none := by
    intro c t id mo mood x hop hx
    cases hr : rejectText x (.close mo mood) with
    | none => rfl
    | some text =>
      exfalso
      apply hgone
      rw [c01b_step_db_of_rejected hI.synced.1 op hop hx hr]
      exact hrow
  by_cases hopen : ∃ r ∈ g.sys.db.mbSides, r.mailbox = m ∧ r.opened = true
  · rcases C08.C08_alive_while_open hI hrow hopen op hns with h | ⟨σ, hcl, hall⟩
    · exact absurd h hgone
    · obtain ⟨c, t, id, mo, mood, x, hop, hx, happ, htg, hside⟩ := hcl
      exact ⟨c, t, id, mo, mood, x, Op.c01b_inner_of_core_recv hop, hx, hacc hop hx, happ, htg,
        (c01b_not_otherOpen_iff _ _ _).2 (by rw [hside]; exact hall)⟩
  · by_cases hcl : ∃ c t id mo mood x app', op.core = .recv c t id (.close mo mood) ∧
        g.sys.findConn c = some x ∧ x.app = some app' ∧ x.closeTarget mo = some m
    · obtain ⟨c, t, id, mo, mood, x, app', hop, hx, happ, htg⟩ := hcl
      by_cases hap : app' = a
      · subst hap
        refine ⟨c, t, id, mo, mood, x, Op.c01b_inner_of_core_recv hop, hx, hacc hop hx, happ, htg, ?_⟩
        rintro ⟨r, hr, h1, _, h3⟩
        exact hopen ⟨r, hr, h1, h3⟩
      · -- a connection of another app names the id: IntegrityError, nothing happens
        exfalso
        apply hgone
        have hnoh : x.mailbox = none := by
          cases hh : x.mailbox with
          | none => rfl
          | some h =>
            exfalso
            have : h = m := by simpa [Conn.closeTarget, hh] using htg
            subst this
            obtain ⟨_, a', ha', r, hr, e1, e2⟩ := hI.conn.handle x (findConn_mem hx) h hh
            rw [happ] at ha'; cases ha'
            exact hap ((hP.app_of_id hrow hr e1).symm.trans e2).symm
        have hn : x.closeName mo = some m := by simpa [Conn.closeTarget, hnoh] using htg
        have h1 : g.sys.db.findMailbox app' m = none := by
          rw [Chan.findMailbox_eq_none]
          rintro ⟨r, hr, e1, e2⟩
          exact hap (e1.symm.trans (hP.app_of_id hrow hr e2))
        have h2 : g.sys.db.findMailboxById m ≠ none := by
          obtain ⟨r, hr, _, e2⟩ := hrow
          intro hn'
          simp only [Chan.findMailboxById, List.find?_eq_none, decide_eq_true_eq] at hn'
          exact hn' r hr e2
        have hdb : (g.sys.step op).db = g.sys.db :=
          c01b_step_db_of_inert hI.synced.1 op hop
            (c01b_onMessage_close_clash (s := g.cleared) (c := c) (x := x) (app' := app') (mb := m)
              (mo := mo) hx happ hnoh hn h1 h2 t id mood)
        rw [hdb]; exact hrow
    · exact absurd (c01b_hasBox_step_of_no_close hI.synced.1 hrow op hns hcl) hgone

/-! ### the sweep: a row stamped after the cutoff survives at every commit point -/

/-- `(a, m)` has a row, and every row with id `m` is stamped later than `old` -/
def Chan.Young (a m : String) (old : Time) (d : Chan) : Prop :=
  d.HasBox a m ∧ ∀ r ∈ d.mailboxes, r.id = m → old < r.updated

theorem Chan.Young.of_mailboxes {a m : String} {old : Time} {d d' : Chan} (h : Chan.Young a m old d)
    (e : d'.mailboxes = d.mailboxes) : Chan.Young a m old d' := by
  unfold Chan.Young Chan.HasBox at *
  rw [e]; exact h

theorem Chan.Young.restamp {a m : String} {old now : Time} {d : Chan} (h : Chan.Young a m old d)
    (hlt : old < now) (p : MailboxRow → Prop) [DecidablePred p] :
    Chan.Young a m old
      { d with mailboxes := d.mailboxes.map (fun r => if p r then { r with updated := now } else r) } := by
  obtain ⟨⟨r, hr, h1, h2⟩, hall⟩ := h
  constructor
  · refine ⟨if p r then { r with updated := now } else r, List.mem_map.2 ⟨r, hr, rfl⟩, ?_, ?_⟩ <;>
      split <;> assumption
  · intro r' hr' hid
    obtain ⟨r0, hr0, rfl⟩ := List.mem_map.1 hr'
    split
    · exact hlt
    · rename_i hp
      rw [if_neg hp] at hid
      exact hall r0 hr0 hid

theorem Chan.Young.delMb {a m : String} {old : Time} {d : Chan} (h : Chan.Young a m old d) {i : String}
    (hne : i ≠ m) : Chan.Young a m old (((d.delMessagesOf i).delMbSidesOf i).delMailbox i) := by
  obtain ⟨⟨r, hr, h1, h2⟩, hall⟩ := h
  constructor
  · refine ⟨r, ?_, h1, h2⟩
    simp only [Chan.delMailbox, Chan.delMbSidesOf, Chan.delMessagesOf, List.mem_filter, decide_not,
      Bool.not_eq_eq_eq_not, Bool.not_true, decide_eq_false_iff_not]
    exact ⟨hr, by rw [h2]; exact fun e => hne e.symm⟩
  · intro r' hr' hid
    simp only [Chan.delMailbox, Chan.delMbSidesOf, Chan.delMessagesOf, List.mem_filter] at hr'
    exact hall r' hr'.1 hid

section young
variable {W : Prop} {a m : String} {old : Time}

theorem Sys.AllDb.yPruneNameplates {app now} (l : List Nameplate) :
    ∀ {s : Sys}, AllDb W (Chan.Young a m old) s → AllDb W (Chan.Young a m old) (s.pruneNameplates app now l).1 := by
  induction l with
  | nil => intro s h; exact h
  | cons np rest ih =>
    intro s h
    unfold Sys.pruneNameplates
    simp only []
    have h0 : AllDb W (Chan.Young a m old) (s.modDb (fun d => (d.delNpSidesOf np.id).delNameplate np.id)) :=
      h.modDb (h.db.of_mailboxes rfl)
    split
    · have h1 := h0.storeNameplateUsage (app := app) (sides := s.db.npSidesOf np.id) (t := now) (p := true)
      split <;> rename_i heq <;> rw [heq] at h1
      · exact h1
      · exact ih h1
    · exact ih h0

theorem Sys.AllDb.yPruneMailboxes {app now} (l : List MailboxRow) (hl : ∀ row ∈ l, row.id ≠ m) :
    ∀ {s : Sys}, AllDb W (Chan.Young a m old) s → AllDb W (Chan.Young a m old) (s.pruneMailboxes app now l) := by
  induction l with
  | nil => intro s h; exact h
  | cons row rest ih =>
    intro s h
    unfold Sys.pruneMailboxes
    simp only []
    have h0 : AllDb W (Chan.Young a m old)
        (s.modDb (fun d => ((d.delMessagesOf row.id).delMbSidesOf row.id).delMailbox row.id)) :=
      h.modDb (h.db.delMb (hl row (by simp)))
    have hl' : ∀ r ∈ rest, r.id ≠ m := fun r hr => hl r (by simp [hr])
    split
    · exact ih hl' h0.storeMailboxUsage
    · exact ih hl' h0

/-- one `prune(now, old)` with `old < now`: listened rows are stamped `now`, and only rows NOT stamped
    after `old` are deleted -/
theorem Sys.AllDb.yPrune {s : Sys} (h : AllDb W (Chan.Young a m old) s) {now : Time} (hlt : old < now)
    (app : String) : AllDb W (Chan.Young a m old) (s.prune app now old).1 := by
  rw [prune_eq]
  dsimp only
  unfold pruneRest
  have h1 : AllDb W (Chan.Young a m old) (s.touchListened app now).commit := by
    apply AllDb.commit
    unfold Sys.touchListened
    exact h.modDb (h.db.restamp hlt _)
  generalize hoMb : (((s.touchListened app now).commit.db.mailboxesOfApp app).filter
    (fun r => ¬ r.updated > old)) = oldMb
  have hvict : ∀ row ∈ oldMb, row.id ≠ m := by
    intro row hrow hid
    subst hoMb
    simp only [List.mem_filter, Chan.mailboxesOfApp, decide_eq_true_eq, decide_not, Bool.not_eq_eq_eq_not,
      Bool.not_true, decide_eq_false_iff_not] at hrow
    exact hrow.2 (h1.db.2 row hrow.1.1 hid)
  generalize (((s.touchListened app now).commit.db.nameplatesOfApp app).filter
    (fun r => r.mailbox ∈ oldMb.map (·.id))) = oldNp
  have h2 := AllDb.yPruneNameplates (app := app) (now := now) oldNp h1
  split <;> rename_i s2 heq <;> rw [heq] at h2
  · exact h2
  · dsimp only at h2 ⊢
    have h3 := AllDb.yPruneMailboxes (app := app) (now := now) oldMb hvict h2
    split
    · split
      · exact h3.commit.ucommit
      · exact h3.commit
    · exact h3

theorem Sys.AllDb.yPruneApps {now : Time} (hlt : old < now) (l : List String) :
    ∀ {s : Sys}, AllDb W (Chan.Young a m old) s → AllDb W (Chan.Young a m old) (s.pruneApps now old l).1 := by
  induction l with
  | nil => intro s h; exact h
  | cons app rest ih =>
    intro s h
    unfold Sys.pruneApps
    have h1 := h.yPrune hlt app
    split <;> rename_i s1 heq <;> rw [heq] at h1
    · exact h1
    · exact ih h1

/-- one firing of `expire()` at `now` keeps, at every commit point, a row stamped after
    `now - expirationTicks` -/
theorem Sys.AllDb.yExpire {s : Sys} {now : Time}
    (h : AllDb W (Chan.Young a m (now - Generated.expirationTicks)) s) (fault : Bool) :
    AllDb W (Chan.Young a m (now - Generated.expirationTicks)) (s.expire now fault) := by
  unfold Sys.expire
  simp only []
  apply AllDb.dumpStats
  split
  · exact h.emit.emit
  · have hlt : now - Generated.expirationTicks < now := Int.sub_lt_self now expirationTicks_pos
    have h1 := AllDb.yPruneApps hlt ((s.emit (.fired now (now - Generated.expirationTicks))).allApps)
      (s := s.emit (.fired now (now - Generated.expirationTicks))) h.emit
    split <;> rename_i heq <;> rw [heq] at h1
    · exact h1
    · exact h1.emit

end young

theorem Op.c01b_plain_eq_core (op : Op) : op.plain = op.core := by cases op <;> rfl

/-- the part of (b) for sweeps (crashes at any commit of the sweep included) -/
theorem c01b_deleted_sweep {g : GSys} (hI : g.GInv) {a m : String} {row : MailboxRow}
    (hrow : g.sys.db.findMailbox a m = some row) (op : Op) {now : Time} {fault : Bool}
    (hop : op.core = .sweep now fault) (hgone : ¬ (g.sys.step op).db.HasBox a m) :
    fault = false ∧ row.updated ≤ now - Generated.expirationTicks ∧ g.sys.listeners a m = [] := by
  have hP := hI.cinv.toPInv
  obtain ⟨hrm, hra, hri⟩ := Chan.findMailbox_some_mbx hrow
  have hbox : g.sys.db.HasBox a m := ⟨row, hrm, hra, hri⟩
  have hpl : op.plain = .sweep now fault := by rw [Op.c01b_plain_eq_core, hop]
  -- whatever the step leaves is the live database, the committed one or a crash point of the sweep
  have hcases : ∀ P : Chan → Prop, P g.sys.db →
      AllDb True P (g.cleared.expire now fault) → P (g.sys.step op).db := by
    intro P h0 hA
    have hc := step_db_cases g.sys op
    rw [hpl] at hc
    rcases hc with h | h | ⟨p, hp, h⟩ | h
    · rw [h]; exact hA.db
    · rw [h]; exact (hA.rest trivial).1
    · rw [h]; exact (hA.rest trivial).2 p hp
    · rw [h, ← hI.synced.1]; exact h0
  refine ⟨?_, ?_, ?_⟩
  · -- a faulted firing touches nothing
    cases fault with
    | false => rfl
    | true =>
      exfalso
      apply hgone
      apply hcases (fun d => d.HasBox a m) hbox
      rw [expire_fault]
      exact (AllDb.start hI.synced hbox).emit.emit.dumpStats
  · -- a row stamped after the cutoff survives
    false_or_by_contra
    rename_i hyoung
    have hy : Chan.Young a m (now - Generated.expirationTicks) g.sys.db := by
      refine ⟨hbox, ?_⟩
      intro r hr hid
      have : r = row := Chan.eq_of_pairwise_ne (f := MailboxRow.id) hP.mbIds hr hrm (hid.trans hri.symm)
      subst this
      exact Int.not_le.1 hyoung
    exact hgone (hcases _ hy ((AllDb.start hI.synced hy).yExpire fault)).1
  · -- a mailbox with a listener is never swept (`step_tr`, as in `C02_sweep_keeps_listened`)
    have hna : g.sys.addRowOf op.plain = none := by rw [hpl]; rfl
    obtain ⟨d1, hg, dead, hsh, hok⟩ := Sys.step_tr hI.synced hP.uniqIds op hna
    rw [hpl] at hok
    have hk : (a, m) ∈ g.sys.db.mbKeys := Chan.mem_mbKeys.2 ⟨row, hrm, hra, hri⟩
    obtain ⟨extra, he⟩ := hg.keys
    have hk1 : (a, m) ∈ d1.mbKeys := by rw [he]; exact List.mem_append_left _ hk
    false_or_by_contra
    rename_i hl
    have hnd : m ∉ dead := fun hd => hl (hok (a, m) hk1 hd)
    have hk' : (a, m) ∈ (g.sys.step op).db.mbKeys := by
      rw [hsh.keys, List.mem_filter]
      exact ⟨hk1, by simpa using hnd⟩
    obtain ⟨r, hr, e1, e2⟩ := Chan.mem_mbKeys.1 hk'
    exact hgone ⟨r, hr, e1, e2⟩

/-- **C01 (deletion = last close or expiry).**  From every state satisfying the invariant (hence from
    every reachable state), for EVERY operation -- any command of any connection, connect, drop,
    sweep, restart, and `crashIn k` of any of these at any commit `k`: if the mailbox row `(a, m)` is
    present before the step and absent after it, then the operation (the wrapped one, for a crash) is
      * EITHER a `close` received on a connection bound to app `a` whose target is `m`, in a state in
        which no OTHER side has `m` open (`Sys.ClosesLast`),
      * OR a non-faulted sweep `sweep now false` for which the row was old
        (`updated ≤ now - expirationTicks`) and had no listener (`Sys.SweepsOld`).
    So the ghost `liveStep`, which empties the log of `(a, m)` exactly when the row is absent after a
    step, empties it only at "the mailbox's deletion (last close or expiry)".  In particular
    `connect`, `drop`, `restart`, faulted sweeps, every command other than `close`, every `close`
    by a connection of another app or aimed at another mailbox, every `close` while another side is
    open, and every crash inside any of these delete no mailbox row. -/
theorem C01_deleted_only_by_close_or_sweep {g : GSys} (hI : g.GInv) (op : Op) {a m : String}
    (hpre : g.sys.db.findMailbox a m ≠ none) (hpost : (g.sys.step op).db.findMailbox a m = none) :
    g.sys.ClosesLast op a m ∨ g.sys.SweepsOld op a m := by
  have hgone : ¬ (g.sys.step op).db.HasBox a m := Chan.findMailbox_eq_none.1 hpost
  cases hrow : g.sys.db.findMailbox a m with
  | none => exact absurd hrow hpre
  | some row =>
    cases hsw : op.core.isSweep with
    | false =>
      exact .inl (c01b_deleted_nonsweep hI (Chan.findMailbox_isSome.1 (by simp [hrow])) op hsw hgone)
    | true =>
      right
      obtain ⟨now, fault, hop⟩ : ∃ now fault, op.core = .sweep now fault := by
        cases hc : op.core <;> simp [hc, Op.isSweep] at hsw
        exact ⟨_, _, rfl⟩
      obtain ⟨h1, h2, h3⟩ := c01b_deleted_sweep hI hrow op hop hgone
      subst h1
      exact ⟨now, row, Op.c01b_inner_of_core_sweep hop, hrow, h2, h3⟩

/-- the same for reachable states -/
theorem C01_deleted_only_by_close_or_sweep_reach {g : GSys} (hg : g.Reach) (op : Op) {a m : String}
    (hpre : g.sys.db.findMailbox a m ≠ none) (hpost : (g.sys.step op).db.findMailbox a m = none) :
    g.sys.ClosesLast op a m ∨ g.sys.SweepsOld op a m :=
  C01_deleted_only_by_close_or_sweep hg.ginv op hpre hpost

/-! ### non-vacuity of (b): reachable states, a deleting close, a deleting sweep, crashes inside both -/

namespace C01bEx

/-- connection 1 (app "A", side "s1") opens "m" and adds a message -/
def h1 : List Op :=
  [.connect 1, .recv 1 1 .null (.bind (some "A") (some "s1") none none),
   .recv 1 2 .null (.open_ (some "m")),
   .recv 1 3 (.str "i1") (.add (some (.str "ph")) (some (.str "bd")))]

def g1 : GSys := (GSys.init {} 0).run h1

theorem g1_reach : g1.Reach := GSys.reach_run (.init {} 0) h1 (GSys.wfB_sound (by decide +kernel))

def x1 : Conn :=
  { id := 1, app := some "A", side := some "s1", listening := true, mailbox := some "m", mailboxId := some "m" }

/-- the last (only) open side closes: the row is there before and gone after; the theorem applies ... -/
example : g1.sys.ClosesLast (.recv 1 4 .null (.close none none)) "A" "m" ∨
    g1.sys.SweepsOld (.recv 1 4 .null (.close none none)) "A" "m" :=
  C01_deleted_only_by_close_or_sweep_reach g1_reach (.recv 1 4 .null (.close none none))
    (a := "A") (m := "m") (by decide +kernel) (by decide +kernel)

/-- ... and the disjunct that holds is `ClosesLast`, with these witnesses -/
example : g1.sys.ClosesLast (.recv 1 4 .null (.close none none)) "A" "m" :=
  ⟨1, 4, .null, none, none, x1, rfl, by decide +kernel, by decide, rfl, by decide, by decide +kernel⟩

/-- the same `close` killed right after its SECOND commit (the deletion): the row is gone in the files
    the crash leaves, and the theorem classifies the wrapped operation; killed after the FIRST commit
    (the UPDATE of the side row) the row is still there (hypothesis `hpost` fails) -/
example : g1.sys.ClosesLast (.crashIn 2 (.recv 1 4 .null (.close none none))) "A" "m" ∨
    g1.sys.SweepsOld (.crashIn 2 (.recv 1 4 .null (.close none none))) "A" "m" :=
  C01_deleted_only_by_close_or_sweep_reach g1_reach (.crashIn 2 (.recv 1 4 .null (.close none none)))
    (a := "A") (m := "m") (by decide +kernel) (by decide +kernel)

example : (g1.sys.step (.crashIn 1 (.recv 1 4 .null (.close none none)))).db.findMailbox "A" "m" ≠ none := by
  decide +kernel

/-- connection 1 goes away without closing: the row stays, stamped 3, without listener -/
def h2 : List Op := h1 ++ [.drop 1]

def g2 : GSys := (GSys.init {} 0).run h2

theorem g2_reach : g2.Reach := GSys.reach_run (.init {} 0) h2 (GSys.wfB_sound (by decide +kernel))

/-- the first sweep at which the row is old (`now = 3 + expirationTicks`) deletes it: the theorem
    applies, and the disjunct that holds is `SweepsOld` -/
example : g2.sys.ClosesLast (.sweep (3 + Generated.expirationTicks) false) "A" "m" ∨
    g2.sys.SweepsOld (.sweep (3 + Generated.expirationTicks) false) "A" "m" :=
  C01_deleted_only_by_close_or_sweep_reach g2_reach (.sweep (3 + Generated.expirationTicks) false)
    (a := "A") (m := "m") (by decide +kernel) (by decide +kernel)

example : g2.sys.SweepsOld (.sweep (3 + Generated.expirationTicks) false) "A" "m" :=
  ⟨3 + Generated.expirationTicks, ⟨"A", "m", 3, false⟩, rfl, by decide +kernel, by decide, by decide +kernel⟩

/-- one tick earlier the row is not old and survives; a faulted firing deletes nothing -/
example : (g2.sys.step (.sweep (3 + Generated.expirationTicks - 1) false)).db.findMailbox "A" "m" ≠ none ∧
    (g2.sys.step (.sweep (3 + Generated.expirationTicks) true)).db.findMailbox "A" "m" ≠ none := by
  decide +kernel

/-- the sweep killed right after its first commit (the deletion) -/
example : g2.sys.ClosesLast (.crashIn 1 (.sweep (3 + Generated.expirationTicks) false)) "A" "m" ∨
    g2.sys.SweepsOld (.crashIn 1 (.sweep (3 + Generated.expirationTicks) false)) "A" "m" :=
  C01_deleted_only_by_close_or_sweep_reach g2_reach (.crashIn 1 (.sweep (3 + Generated.expirationTicks) false))
    (a := "A") (m := "m") (by decide +kernel) (by decide +kernel)

end C01bEx

/-! ## (c) history level: an accepted `add` stays in the live log until a last close or an expiry -/

/-- the ghost log over a concatenation of histories, stated on `GSys` -/
theorem c01b_liveRun_append (a m : String) (ops1 ops2 : List Op) :
    ∀ (g : GSys) (l : List Entry),
      liveRun a m g.sys (ops1 ++ ops2) l = liveRun a m (g.run ops1).sys ops2 (liveRun a m g.sys ops1 l) := by
  induction ops1 with
  | nil => intro g l; rfl
  | cons op rest ih =>
    intro g l
    exact ih (g.step op) (liveStep a m g.sys op l)

/-- along a history none of whose steps is a last close or an expiry of `(a, m)`, the row `(a, m)`
    stays and the ghost log of `(a, m)` loses nothing -/
theorem c01b_liveRun_keeps {e : Entry} (a m : String) (ops : List Op) :
    ∀ {g : GSys} (live : List Entry), g.GInv → g.WF ops → e ∈ live →
      g.sys.db.findMailbox a m ≠ none →
      (∀ p1 op p2, ops = p1 ++ op :: p2 →
        ¬ (g.run p1).sys.ClosesLast op a m ∧ ¬ (g.run p1).sys.SweepsOld op a m) →
      e ∈ liveRun a m g.sys ops live ∧ (g.run ops).sys.db.findMailbox a m ≠ none := by
  induction ops with
  | nil => intro g live _ _ he hrow _; exact ⟨he, hrow⟩
  | cons op rest ih =>
    intro g live hI hwf he hrow hk
    obtain ⟨k1, k2⟩ := hk [] op rest rfl
    have hrow' : (g.sys.step op).db.findMailbox a m ≠ none := by
      intro hgone
      rcases C01_deleted_only_by_close_or_sweep hI op hrow hgone with h | h
      · exact k1 h
      · exact k2 h
    refine ih (g := g.step op) (liveStep a m g.sys op live) (hI.step op hwf.1) hwf.2 ?_ hrow' ?_
    · unfold liveStep
      rw [if_neg hrow']
      split
      · split
        · exact List.mem_append_left _ he
        · exact he
      · exact he
    · intro p1 op' p2 hsplit
      exact hk (op :: p1) op' p2 (by rw [hsplit]; rfl)

/-- **C01 (history form of "not discarded except by last close or expiry").**  In a well-formed
    history `pre ++ addop :: post` from the initial state, let `addop` be an accepted `add` on `(a, m)`
    that reaches the disk (`addEntryOf … = some (a, m, e)`, not `crashIn 0`).  If no step of `post` is
      (i) an accepted `close` by a connection bound to `a`, acting on `m`, while no other side of `m` is
          open (`Sys.ClosesLast`, evaluated in the state the step starts from), or
      (ii) a non-faulted sweep at which the row `(a, m)` is old and has no listener (`Sys.SweepsOld`),
    then the entry `e` is still in the live log of `(a, m)` at the end -- hence (`C01_replay_live`,
    `C01_replay_exact_live`) it is replayed to every accepted `open` of `(a, m)` at that point.  Whatever
    else happens in `post` -- disconnects, restarts, crashes, other closes, sweeps that find the row
    young or subscribed, traffic of other mailboxes and apps -- is irrelevant. -/
theorem C01_entry_survives (cfg : Cfg) (rb : Time) (pre : List Op) (addop : Op) (post : List Op)
    (hwf : (GSys.init cfg rb).WF (pre ++ addop :: post)) {a m : String} {e : Entry}
    (hadd : ((GSys.init cfg rb).run pre).sys.addEntryOf addop.plain = some (a, m, e))
    (hl : addop.lands = true)
    (hkeep : ∀ p1 op p2, post = p1 ++ op :: p2 →
      ¬ ((GSys.init cfg rb).run (pre ++ addop :: p1)).sys.ClosesLast op a m ∧
      ¬ ((GSys.init cfg rb).run (pre ++ addop :: p1)).sys.SweepsOld op a m) :
    e ∈ liveLog a m cfg rb (pre ++ addop :: post) := by
  obtain ⟨hw1, hw2, hw3⟩ := C05.wf_append hwf
  have hg1 : ((GSys.init cfg rb).run pre).Reach := GSys.reach_run (.init cfg rb) pre hw1
  have hI1 := hg1.ginv
  generalize hgen : (GSys.init cfg rb).run pre = gp at hw2 hw3 hg1 hI1 hadd
  -- the step of the `add`: the row is there afterwards and the entry is appended
  have hrowOf : gp.sys.addRowOf addop.plain = some (e.row a m) := by
    rw [addRowOf_eq, hadd]; rfl
  have hpres := addEntryOf_present hI1 hadd
  have hnl : ¬ ∃ op', addop = .crashIn 0 op' := by
    intro h
    rw [(Op.lands_eq_false_iff addop).2 h] at hl
    cases hl
  have hrow' : (gp.sys.step addop).db.findMailbox a m ≠ none := by
    rcases Sys.step_add hI1.synced addop hrowOf with ⟨h0, _⟩ | ⟨_, hd⟩
    · exact absurd h0 hnl
    · rw [hd]
      intro hc
      rw [Chan.findMailbox_eq_none_iff, Chan.mbKeys_add] at hc
      exact hc hpres
  have hstep : e ∈ liveStep a m gp.sys addop (liveRun a m (GSys.init cfg rb).sys pre []) := by
    unfold liveStep
    rw [if_neg hrow', hadd]
    simp [hl]
  unfold liveLog
  rw [c01b_liveRun_append, hgen]
  refine (c01b_liveRun_keeps a m post (g := gp.step addop) _ (hI1.step addop hw2) hw3 hstep hrow' ?_).1
  intro p1 op p2 hsplit
  have := hkeep p1 op p2 hsplit
  rw [show pre ++ addop :: p1 = pre ++ ([addop] ++ p1) from rfl, C05.run_append, hgen] at this
  exact this

namespace C01bEx

/-- non-vacuity of (c): connection 1 opens "m" (`pre`), adds (`addop`), then disappears; a sweep at
    `now = 100` finds the row young (stamped 3); connection 2 arrives.  No step of `post` is a last
    close or an expiry of ("A","m"), so the entry is still in the live log. -/
def pre : List Op :=
  [.connect 1, .recv 1 1 .null (.bind (some "A") (some "s1") none none), .recv 1 2 .null (.open_ (some "m"))]
def addop : Op := .recv 1 3 (.str "i1") (.add (some (.str "ph")) (some (.str "bd")))
def post : List Op :=
  [.drop 1, .sweep 100 false, .connect 2, .recv 2 101 .null (.bind (some "A") (some "s2") none none)]

theorem not_closesLast_of_inner {s : Sys} {op : Op} {a m : String}
    (h : ∀ c t id mo mood, op.inner ≠ .recv c t id (.close mo mood)) : ¬ s.ClosesLast op a m := by
  rintro ⟨c, t, id, mo, mood, _, hop, _⟩
  exact h c t id mo mood hop

theorem not_sweepsOld_of_inner {s : Sys} {op : Op} {a m : String}
    (h : ∀ now, op.inner ≠ .sweep now false) : ¬ s.SweepsOld op a m := by
  rintro ⟨now, _, hop, _⟩
  exact h now hop

example : (⟨"s1", .str "ph", .str "bd", .str "i1", 3⟩ : Entry) ∈ liveLog "A" "m" {} 0 (pre ++ addop :: post) := by
  apply C01_entry_survives {} 0 pre addop post (GSys.wfB_sound (by decide +kernel)) (by decide +kernel) rfl
  intro p1 op p2 hsplit
  rcases p1 with _ | ⟨o1, _ | ⟨o2, _ | ⟨o3, _ | ⟨o4, p1⟩⟩⟩⟩ <;>
    simp only [post, List.nil_append, List.cons_append, List.cons.injEq] at hsplit
  · obtain ⟨rfl, rfl⟩ := hsplit
    exact ⟨not_closesLast_of_inner (by intro c t id mo mood h; cases h),
      not_sweepsOld_of_inner (by intro now h; cases h)⟩
  · obtain ⟨rfl, rfl, rfl⟩ := hsplit
    refine ⟨not_closesLast_of_inner (by intro c t id mo mood h; cases h), ?_⟩
    -- the sweep at 100: the row is stamped 3, not old
    rintro ⟨now, row, hop, hrow, hold, _⟩
    cases hop
    rw [show ((GSys.init {} 0).run (pre ++ addop :: [.drop 1])).sys.db.findMailbox "A" "m" =
      some ⟨"A", "m", 3, false⟩ by decide +kernel] at hrow
    cases hrow
    exact absurd hold (by decide)
  · obtain ⟨rfl, rfl, rfl, rfl⟩ := hsplit
    exact ⟨not_closesLast_of_inner (by intro c t id mo mood h; cases h),
      not_sweepsOld_of_inner (by intro now h; cases h)⟩
  · obtain ⟨rfl, rfl, rfl, rfl, rfl⟩ := hsplit
    exact ⟨not_closesLast_of_inner (by intro c t id mo mood h; cases h),
      not_sweepsOld_of_inner (by intro now h; cases h)⟩
  · obtain ⟨_, _, _, _, h⟩ := hsplit
    cases p1 <;> simp at h

end C01bEx

#print axioms textual_ops_imp_live
#print axioms C01_replay_exact_live
#print axioms C01_deleted_only_by_close_or_sweep
#print axioms C01_deleted_only_by_close_or_sweep_reach
#print axioms C01_entry_survives

end Wormhole
