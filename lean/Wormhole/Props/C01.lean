/-
  C01 — "Opening a mailbox replays every stored message, and nothing else".

  Step-local refinement (all for EVERY state satisfying the invariant `GSys.GInv`, any number of
  connections / apps / mailboxes, crashes at any commit included):
  * `C01_add_appends`      an accepted `add` appends exactly its row to `messagesOf a m`;
  * `C01_frame_messages`   every other step leaves `messagesOf a m` alone, unless the mailbox row
                           `(a, m)` is absent afterwards, and then `messagesOf a m = []`;
  * `C01_open_replays`     an accepted `open` answered ok outputs ack, commits, and one `message`
                           frame per stored row of `(a, m)` ordered by `rx` -- nothing else;
  history level:
  * `liveLog`              the ghost log of `(a, m)`; `C01_live_invariant`, `C01_replay_exact`;
  * `C01_int_id_counterexample` (K-id-coercion), `C01_fresh_incarnation_empty`, `C01_no_foreign`.
-/
import Wormhole.Inv.Main
import Wormhole.Inv.MsgOpen

namespace Wormhole
open Sys

/-! ## database-level consequences of the step relations -/

namespace Chan

theorem PInv.msgKeys {d : Chan} (h : d.PInv) : ∀ r ∈ d.messages, (r.app, r.mailbox) ∈ d.mbKeys := by
  intro r hr
  obtain ⟨m, hm, h1, h2⟩ := h.msgFk r hr
  exact mem_mbKeys.2 ⟨m, hm, h2, h1⟩

theorem messagesOf_eq_nil_of_absent {d : Chan} (hfk : ∀ r ∈ d.messages, (r.app, r.mailbox) ∈ d.mbKeys)
    {a m : String} (h : (a, m) ∉ d.mbKeys) : d.messagesOf a m = [] := by
  simp only [messagesOf, List.filter_eq_nil_iff, decide_eq_true_eq]
  rintro r hr ⟨rfl, rfl⟩
  exact h (hfk r hr)

theorem ShrinkBy.messagesOf {dead : List String} {d d' : Chan} (h : ShrinkBy dead d d') (a m : String) :
    d'.messagesOf a m = if m ∈ dead then [] else d.messagesOf a m := by
  simp only [Chan.messagesOf, h.msgs, List.filter_filter]
  split
  · rename_i hm
    simp only [List.filter_eq_nil_iff, Bool.and_eq_true, decide_eq_true_eq, not_and]
    rintro r _ ⟨_, rfl⟩
    simpa using hm
  · rename_i hm
    apply List.filter_congr
    intro r _
    by_cases h1 : r.app = a ∧ r.mailbox = m
    · simp [h1, hm]
    · simp [h1]

/-- what a grow-then-delete step does to the messages of one mailbox -/
theorem Tr.messagesOf {ok} {d d' : Chan} (h : Tr ok d d')
    (hfk : ∀ r ∈ d.messages, (r.app, r.mailbox) ∈ d.mbKeys) (a m : String) :
    ((a, m) ∈ d'.mbKeys → d'.messagesOf a m = d.messagesOf a m) ∧
    ((a, m) ∉ d'.mbKeys → d'.messagesOf a m = []) := by
  obtain ⟨d1, g, dead, sh, _⟩ := h
  have e1 : d1.messagesOf a m = d.messagesOf a m := by simp [Chan.messagesOf, g.msgs]
  have e := sh.messagesOf a m
  rw [e1] at e
  constructor
  · intro hk
    rw [sh.keys, List.mem_filter] at hk
    have : m ∉ dead := by simpa using hk.2
    rw [e, if_neg this]
  · intro hk
    by_cases hd : m ∈ dead
    · rw [e, if_pos hd]
    · rw [e, if_neg hd]
      apply messagesOf_eq_nil_of_absent hfk
      intro hk0
      apply hk
      rw [sh.keys, List.mem_filter]
      obtain ⟨extra, he⟩ := g.keys
      exact ⟨by rw [he]; exact List.mem_append_left _ hk0, by simpa using hd⟩

theorem messagesOf_add (d : Chan) (r : Message) (a m : String) :
    ((d.insMessage r).touch r.mailbox r.rx).messagesOf a m =
      d.messagesOf a m ++ (if r.app = a ∧ r.mailbox = m then [r] else []) := by
  simp only [Chan.messagesOf, Chan.touch, Chan.insMessage, List.filter_append, List.filter_cons,
    List.filter_nil]
  congr 1
  split <;> simp_all

theorem mbKeys_add (d : Chan) (r : Message) : ((d.insMessage r).touch r.mailbox r.rx).mbKeys = d.mbKeys := by
  have := congrArg Prod.snd (mpart_touch (d.insMessage r) r.mailbox r.rx)
  simpa [mpart] using this

end Chan

/-! ## which step is an accepted `add` on `(a, m)` -/

/-- `op` (or the operation it wraps, for a crash) is an `add` carrying phase and body, received on a
    connection that is bound to app `a` and holds the handle of mailbox `m`, i.e. an `add` that
    validation does not reject -/
def Sys.AddsTo (s : Sys) (op : Op) (a m : String) : Prop :=
  ∃ r, s.addRowOf op.plain = some r ∧ r.app = a ∧ r.mailbox = m

/-- `addRowOf` spelled out: an `add` not refused by validation (C17's `rejectText`) -/
theorem addRowOf_recv_add {s : Sys} {c : Nat} {x : Conn} {a σ m : String} (t : Time) (id ph bd : Val)
    (hx : s.findConn c = some x) (ha : x.app = some a) (hσ : x.side = some σ) (hm : x.mailbox = some m) :
    s.addRowOf (.recv c t id (.add (some ph) (some bd))) =
      some ⟨a, m, σ, ph.toText, bd.toText, t, id.toText⟩ ∧
    rejectText x (.add (some ph) (some bd)) = none := by
  simp [Sys.addRowOf, hx, ha, hσ, hm, rejectText, needBind]

/-- conversely, an `add` that validation accepts is one with `addRowOf = some _` -/
theorem addRowOf_of_accepted {s : Sys} {c : Nat} {x : Conn} (t : Time) (id : Val) (ph bd : Option Val)
    (hx : s.findConn c = some x) (hr : rejectText x (.add ph bd) = none) :
    ∃ a m p b, x.app = some a ∧ x.mailbox = some m ∧ ph = some p ∧ bd = some b ∧
      s.addRowOf (.recv c t id (.add ph bd)) =
        some ⟨a, m, x.side.getD "", p.toText, b.toText, t, id.toText⟩ := by
  obtain ⟨⟨a, ha⟩, h⟩ := Sys.needBind_eq_none hr
  cases hm : x.mailbox with
  | none => simp [hm] at h
  | some m =>
    cases ph with
    | none => simp [hm] at h
    | some p =>
      cases bd with
      | none => simp [hm] at h
      | some b => exact ⟨a, m, p, b, ha, rfl, rfl, rfl, by simp [Sys.addRowOf, hx, ha, hm]⟩

/-! ## (1) an accepted `add` appends exactly its row -/

/-- **C01 (1)**: a non-rejected `add` by connection `c` (bound to `(a, σ)`, holding the handle of
    `m`): afterwards `messagesOf a m` is what it was plus exactly one row, whose `side` is the
    side of the connection's `bind` (the command has no say), whose phase/body/id are the
    submitted ones seen through TEXT affinity (`Val.toText`), and whose `rx` is the time of the
    step; the messages of every other `(app, mailbox)` and the set of mailbox rows are unchanged. -/
theorem C01_add_appends {g : GSys} (hI : g.GInv) {c : Nat} {x : Conn} {a σ m : String} (t : Time)
    (id ph bd : Val) (hx : g.sys.findConn c = some x) (ha : x.app = some a) (hσ : x.side = some σ)
    (hm : x.mailbox = some m) :
    let d' := (g.step (.recv c t id (.add (some ph) (some bd)))).sys.db
    d'.messagesOf a m = g.sys.db.messagesOf a m ++ [⟨a, m, σ, ph.toText, bd.toText, t, id.toText⟩] ∧
    (∀ a' m', ¬ (a' = a ∧ m' = m) → d'.messagesOf a' m' = g.sys.db.messagesOf a' m') ∧
    d'.mbKeys = g.sys.db.mbKeys := by
  intro d'
  have hr := (addRowOf_recv_add t id ph bd hx ha hσ hm).1
  rcases Sys.step_add hI.synced (.recv c t id (.add (some ph) (some bd))) (r := _) hr with ⟨⟨_, h⟩, _⟩ | ⟨_, h⟩
  · cases h
  · have hd : d' = _ := h
    rw [hd]
    refine ⟨?_, ?_, Chan.mbKeys_add _ _⟩
    · rw [Chan.messagesOf_add]; simp
    · intro a' m' hne
      rw [Chan.messagesOf_add]
      have : ¬ (a = a' ∧ m = m') := fun h => hne ⟨h.1.symm, h.2.symm⟩
      simp [this]

/-- the same when the process is killed during the step: a crash before the (only) commit leaves
    the table as it was, a crash at or after it leaves the row stored -/
theorem C01_add_appends_crash {g : GSys} (hI : g.GInv) {c : Nat} {x : Conn} {a σ m : String} (k : Nat)
    (t : Time) (id ph bd : Val) (hx : g.sys.findConn c = some x) (ha : x.app = some a)
    (hσ : x.side = some σ) (hm : x.mailbox = some m) :
    let d' := (g.step (.crashIn k (.recv c t id (.add (some ph) (some bd))))).sys.db
    (k = 0 → d' = g.sys.db) ∧
    (k ≠ 0 → d'.messagesOf a m =
        g.sys.db.messagesOf a m ++ [⟨a, m, σ, ph.toText, bd.toText, t, id.toText⟩] ∧
      (∀ a' m', ¬ (a' = a ∧ m' = m) → d'.messagesOf a' m' = g.sys.db.messagesOf a' m') ∧
      d'.mbKeys = g.sys.db.mbKeys) := by
  intro d'
  have hr := (addRowOf_recv_add t id ph bd hx ha hσ hm).1
  rcases Sys.step_add hI.synced (.crashIn k (.recv c t id (.add (some ph) (some bd)))) (r := _) hr with
    ⟨⟨op', h0⟩, h⟩ | ⟨h0, h⟩
  · cases h0
    exact ⟨fun _ => h, fun hk => absurd rfl hk⟩
  · have hk : k ≠ 0 := fun hk => h0 ⟨_, by rw [hk]⟩
    refine ⟨fun h => absurd h hk, fun _ => ?_⟩
    have hd : d' = _ := h
    rw [hd]
    refine ⟨?_, ?_, Chan.mbKeys_add _ _⟩
    · rw [Chan.messagesOf_add]; simp
    · intro a' m' hne
      rw [Chan.messagesOf_add]
      have : ¬ (a = a' ∧ m = m') := fun h => hne ⟨h.1.symm, h.2.symm⟩
      simp [this]

/-! ## (2) every other step -/

/-- **C01 (2)**: every step that is not an accepted `add` on `(a, m)` -- any command of any
    connection (accepted `add`s on other mailboxes included), connects, drops, sweeps, restarts,
    and crashes of any of these at any commit -- leaves `messagesOf a m` unchanged if the mailbox
    row `(a, m)` exists afterwards, and leaves `messagesOf a m = []` if it does not.
    (The second half is where "no message without its mailbox row", `PInv.msgFk`, is used -- on
    the PRE-state; the post-state need not be known to satisfy the invariant.) -/
theorem C01_frame_messages {g : GSys} (hI : g.GInv) (op : Op) (a m : String)
    (hna : ¬ g.sys.AddsTo op a m) :
    let d' := (g.step op).sys.db
    ((d'.findMailbox a m).isSome → d'.messagesOf a m = g.sys.db.messagesOf a m) ∧
    (d'.findMailbox a m = none → d'.messagesOf a m = []) := by
  intro d'
  rw [Chan.findMailbox_isSome_iff, Chan.findMailbox_eq_none_iff]
  have hfk := hI.cinv.toPInv.msgKeys
  cases hr : g.sys.addRowOf op.plain with
  | none =>
    exact (Sys.step_tr hI.synced hI.cinv.toPInv.uniqIds op hr).messagesOf hfk a m
  | some r =>
    have hne : ¬ (r.app = a ∧ r.mailbox = m) := fun h => hna ⟨r, hr, h.1, h.2⟩
    rcases Sys.step_add hI.synced op hr with ⟨_, h⟩ | ⟨_, h⟩
    · have hd : d' = g.sys.db := h
      rw [hd]
      exact ⟨fun _ => rfl, fun h => Chan.messagesOf_eq_nil_of_absent hfk h⟩
    · have hd : d' = _ := h
      rw [hd, Chan.messagesOf_add, Chan.mbKeys_add, if_neg hne, List.append_nil]
      exact ⟨fun _ => rfl, fun h => Chan.messagesOf_eq_nil_of_absent hfk h⟩

/-- the same in one line: unchanged, or emptied together with the mailbox row -/
theorem C01_frame_messages' {g : GSys} (hI : g.GInv) (op : Op) (a m : String)
    (hna : ¬ g.sys.AddsTo op a m) :
    (g.step op).sys.db.messagesOf a m = g.sys.db.messagesOf a m ∨
    ((g.step op).sys.db.messagesOf a m = [] ∧ (g.step op).sys.db.findMailbox a m = none) := by
  obtain ⟨h1, h2⟩ := C01_frame_messages hI op a m hna
  cases h : (g.step op).sys.db.findMailbox a m with
  | none => exact .inr ⟨h2 h, rfl⟩
  | some r => exact .inl (h1 (by simp [h]))

/-! ## (3) an accepted `open` -/

/-- a `message` frame -/
def Event.isMessage : Event → Bool
  | .frame _ (.message _ _ _ _ _) _ => true
  | _ => false

theorem isMessage_of_isCommit {e : Event} (h : IsCommit e) : e.isMessage = false := by
  obtain ⟨w, rfl⟩ := h; rfl

/-- **C01 (3)**: a non-rejected `open` of `m` by connection `c` bound to `(a, σ)` which
    `open_mailbox` answers ok (no id clash with another app, at most two sides afterwards:
    `Chan.openRes`) outputs exactly: the ack, then commit events, then one `message` frame per row
    of the PRE-state's `messagesOf a m`, ordered by `rx` (stable) -- all addressed to `c`, each sent
    with nothing uncommitted; and the step does not change `messagesOf a m`. -/
theorem C01_open_replays {g : GSys} (hI : g.GInv) {c : Nat} {x : Conn} {a σ m : String} (t : Time)
    (id : Val) (hx : g.sys.findConn c = some x) (ha : x.app = some a) (hσ : x.side = some σ)
    (hm : x.mailbox = none) (hok : g.sys.db.openRes a m σ = .ok) :
    let s' := (g.step (.recv c t id (.open_ (some m)))).sys
    (∃ commits, (∀ e ∈ commits, IsCommit e) ∧
      s'.out = [.frame c (.ack id) true] ++ commits ++ (g.sys.db.replayRows a m).map (replayFrame c)) ∧
    s'.db.messagesOf a m = g.sys.db.messagesOf a m := by
  intro s'
  have hs0 : ({ g.sys with out := [], snaps := [] } : Sys).Synced := hI.synced
  obtain ⟨⟨l, hl, ho⟩, _, hg⟩ := Sys.onMessage_open_spec (t := t) (id := id) (m := m) hs0
    (show ({ g.sys with out := [], snaps := [] } : Sys).findConn c = some x from hx) ha hm
    (by rw [hσ]; exact hok)
  refine ⟨⟨l, hl, ?_⟩, ?_⟩
  · have : s'.out = _ := ho
    rw [this]; simp
  · have : s'.db.messages = g.sys.db.messages := hg.msgs
    simp [Chan.messagesOf, this]

/-- (3) as a multiset statement: the `message` frames of the step are, up to order, one per
    stored row of `(a, m)` -/
theorem C01_open_replays_perm {g : GSys} (hI : g.GInv) {c : Nat} {x : Conn} {a σ m : String} (t : Time)
    (id : Val) (hx : g.sys.findConn c = some x) (ha : x.app = some a) (hσ : x.side = some σ)
    (hm : x.mailbox = none) (hok : g.sys.db.openRes a m σ = .ok) :
    ((g.step (.recv c t id (.open_ (some m)))).sys.out.filter Event.isMessage).Perm
      ((g.sys.db.messagesOf a m).map (replayFrame c)) := by
  obtain ⟨⟨l, hl, ho⟩, _⟩ := C01_open_replays hI t id hx ha hσ hm hok
  rw [ho]
  simp only [List.filter_append, List.filter_cons, List.filter_nil, Event.isMessage]
  have h1 : l.filter Event.isMessage = [] := by
    simp only [List.filter_eq_nil_iff]
    intro e he
    simp [isMessage_of_isCommit (hl e he)]
  have h2 : ((g.sys.db.replayRows a m).map (replayFrame c)).filter Event.isMessage =
      (g.sys.db.replayRows a m).map (replayFrame c) := by
    simp only [List.filter_eq_self, List.mem_map]
    rintro e ⟨r, _, rfl⟩
    rfl
  rw [h1, h2]
  simp only [Bool.false_eq_true, if_false, List.nil_append]
  exact (List.mergeSort_perm _ _).map _

/-- **C01 (no foreign message)**: every `message` frame of an accepted `open` goes to the opener
    and stems from a stored row with THAT app and THAT mailbox id -/
theorem C01_no_foreign {g : GSys} (hI : g.GInv) {c : Nat} {x : Conn} {a σ m : String} (t : Time)
    (id : Val) (hx : g.sys.findConn c = some x) (ha : x.app = some a) (hσ : x.side = some σ)
    (hm : x.mailbox = none) (hok : g.sys.db.openRes a m σ = .ok) {c' : Nat} {sd : String} {ph bd : Val}
    {rx : Time} {mid : Val} {b : Bool}
    (hf : Event.frame c' (.message sd ph bd rx mid) b ∈ (g.step (.recv c t id (.open_ (some m)))).sys.out) :
    c' = c ∧ b = true ∧ ∃ r ∈ g.sys.db.messages, r.app = a ∧ r.mailbox = m ∧
      r.side = sd ∧ r.phase = ph ∧ r.body = bd ∧ r.rx = rx ∧ r.msgId = mid := by
  obtain ⟨⟨l, hl, ho⟩, _⟩ := C01_open_replays hI t id hx ha hσ hm hok
  rw [ho] at hf
  simp only [List.mem_append, List.mem_singleton, List.mem_map] at hf
  rcases hf with (hf | hf) | ⟨r, hr, hf⟩
  · cases hf
  · obtain ⟨w, hw⟩ := hl _ hf; cases hw
  · have hr' : r ∈ g.sys.db.messagesOf a m := (List.mergeSort_perm _ _).mem_iff.1 hr
    simp only [Chan.messagesOf, List.mem_filter, decide_eq_true_eq] at hr'
    simp only [replayFrame, Event.frame.injEq, Frame.message.injEq] at hf
    obtain ⟨rfl, ⟨rfl, rfl, rfl, rfl, rfl⟩, rfl⟩ := hf
    exact ⟨rfl, rfl, r, hr'.1, hr'.2.1, hr'.2.2, rfl, rfl, rfl, rfl, rfl⟩

/-- every frame of an accepted `open` is addressed to the opener: nothing goes to anybody else -/
theorem C01_open_private {g : GSys} (hI : g.GInv) {c : Nat} {x : Conn} {a σ m : String} (t : Time)
    (id : Val) (hx : g.sys.findConn c = some x) (ha : x.app = some a) (hσ : x.side = some σ)
    (hm : x.mailbox = none) (hok : g.sys.db.openRes a m σ = .ok) {c' : Nat} {f : Frame} {b : Bool}
    (hf : Event.frame c' f b ∈ (g.step (.recv c t id (.open_ (some m)))).sys.out) : c' = c := by
  obtain ⟨⟨l, hl, ho⟩, _⟩ := C01_open_replays hI t id hx ha hσ hm hok
  rw [ho] at hf
  simp only [List.mem_append, List.mem_singleton, List.mem_map] at hf
  rcases hf with (hf | hf) | ⟨r, _, hf⟩
  · cases hf; rfl
  · obtain ⟨w, hw⟩ := hl _ hf; cases hw
  · simp only [replayFrame, Event.frame.injEq] at hf
    exact hf.1.symm

/-- **C01 (fresh incarnation)**: opening a mailbox id whose row does not exist (never created, or
    deleted by the last close / by expiry) replays nothing: the output is the ack and commits -/
theorem C01_fresh_incarnation_empty {g : GSys} (hI : g.GInv) {c : Nat} {x : Conn} {a σ m : String}
    (t : Time) (id : Val) (hx : g.sys.findConn c = some x) (ha : x.app = some a) (hσ : x.side = some σ)
    (hm : x.mailbox = none) (hok : g.sys.db.openRes a m σ = .ok)
    (habs : g.sys.db.findMailbox a m = none) :
    ∃ commits, (∀ e ∈ commits, IsCommit e) ∧
      (g.step (.recv c t id (.open_ (some m)))).sys.out = [.frame c (.ack id) true] ++ commits := by
  obtain ⟨⟨l, hl, ho⟩, _⟩ := C01_open_replays hI t id hx ha hσ hm hok
  have : g.sys.db.messagesOf a m = [] :=
    Chan.messagesOf_eq_nil_of_absent hI.cinv.toPInv.msgKeys (Chan.findMailbox_eq_none_iff.1 habs)
  refine ⟨l, hl, ?_⟩
  rw [ho]
  simp [Chan.replayRows, this]

/-! ## (4) the ghost log of a mailbox and the history theorem -/

/-- one accepted `add`, as submitted: the adder's bound side, the phase / body / id of the command
    (before TEXT affinity), the server time of the step -/
structure Entry where
  side : String
  phase : Val
  body : Val
  id : Val
  rx : Time
  deriving DecidableEq, Repr

/-- the row `_add_message` stores for it -/
def Entry.row (a m : String) (e : Entry) : Message :=
  ⟨a, m, e.side, e.phase.toText, e.body.toText, e.rx, e.id.toText⟩

/-- the `add` a plain operation submits, if validation accepts it: app, mailbox, entry -/
def Sys.addEntryOf (s : Sys) : Op → Option (String × String × Entry)
  | .recv c t id (.add (some ph) (some bd)) =>
    match s.findConn c with
    | some x =>
      match x.app, x.mailbox with
      | some a, some m => some (a, m, ⟨x.side.getD "", ph, bd, id, t⟩)
      | _, _ => none
    | none => none
  | _ => none

theorem addRowOf_eq (s : Sys) (op : Op) :
    s.addRowOf op = (s.addEntryOf op).map (fun p => p.2.2.row p.1 p.2.1) := by
  cases op with
  | recv c t id cmd =>
    cases cmd with
    | add ph bd =>
      cases ph with
      | none => rfl
      | some ph =>
        cases bd with
        | none => rfl
        | some bd =>
          simp only [Sys.addRowOf, Sys.addEntryOf]
          cases s.findConn c with
          | none => rfl
          | some x =>
            rcases h1 : x.app with _ | a <;> rcases h2 : x.mailbox with _ | m <;> simp [Entry.row, h1, h2]
    | _ => rfl
  | _ => rfl

/-- does the first commit of the operation reach the disk?  (`crashIn 0` kills the process before it) -/
def Op.lands : Op → Bool
  | .crashIn 0 _ => false
  | _ => true

theorem Op.lands_eq_false_iff (op : Op) : op.lands = false ↔ ∃ op', op = .crashIn 0 op' := by
  cases op with
  | crashIn k op' => cases k <;> simp [Op.lands]
  | _ => simp [Op.lands]

/-- one step of the ghost log of `(a, m)`: emptied whenever the mailbox row `(a, m)` is absent after
    the step; extended by the submitted entry at every accepted `add` on `(a, m)` that is committed -/
def liveStep (a m : String) (s : Sys) (op : Op) (live : List Entry) : List Entry :=
  if (s.step op).db.findMailbox a m = none then []
  else match s.addEntryOf op.plain with
    | some (a', m', e) => if a' = a ∧ m' = m ∧ op.lands = true then live ++ [e] else live
    | none => live

/-- the ghost log after a history -/
def liveRun (a m : String) : Sys → List Op → List Entry → List Entry
  | _, [], l => l
  | s, op :: rest, l => liveRun a m (s.step op) rest (liveStep a m s op l)

/-- the ghost log of `(a, m)` after the history `ops` from the initial state: the accepted `add`s on
    `(a, m)` since the mailbox row `(a, m)` was last absent, in order -/
def liveLog (a m : String) (cfg : Cfg) (rb : Time) (ops : List Op) : List Entry :=
  liveRun a m (GSys.init cfg rb).sys ops []

theorem Op.time_of_plain_recv {op : Op} {c : Nat} {t : Time} {id : Val} {cmd : Cmd}
    (h : op.plain = .recv c t id cmd) (hp : ∀ k op', op = .crashIn k op' → op'.isCrash = false) :
    op.time? = some t := by
  cases op with
  | crashIn k op' =>
    simp only [Op.plain] at h
    subst h
    rfl
  | recv c' t' id' cmd' => simp only [Op.plain] at h; cases h; rfl
  | _ => simp [Op.plain] at h

theorem addEntryOf_rx {s : Sys} {op : Op} {a m : String} {e : Entry}
    (h : s.addEntryOf op = some (a, m, e)) : ∃ c id cmd, op = .recv c e.rx id cmd := by
  unfold Sys.addEntryOf at h
  split at h
  · split at h
    · split at h
      · cases h; exact ⟨_, _, _, rfl⟩
      · cases h
    · cases h
  · cases h

/-- the mailbox an accepted `add` goes to exists (the handle is only held while the row exists) -/
theorem addEntryOf_present {g : GSys} (hI : g.GInv) {op : Op} {a m : String} {e : Entry}
    (h : g.sys.addEntryOf op = some (a, m, e)) : (a, m) ∈ g.sys.db.mbKeys := by
  unfold Sys.addEntryOf at h
  split at h
  · split at h
    · rename_i x hx
      split at h
      · rename_i a' m' ha hm
        cases h
        obtain ⟨_, a'', ha', r, hr, h1, h2⟩ := hI.conn.handle x (findConn_mem hx) _ hm
        rw [ha] at ha'
        cases ha'
        exact Chan.mem_mbKeys.2 ⟨r, hr, h2, h1⟩
      · cases h
    · cases h
  · cases h

/-- one step keeps "table = ghost" -/
theorem liveStep_inv {g : GSys} (hI : g.GInv) (op : Op) (a m : String) (live : List Entry)
    (h : g.sys.db.messagesOf a m = live.map (Entry.row a m)) :
    (g.step op).sys.db.messagesOf a m = (liveStep a m g.sys op live).map (Entry.row a m) := by
  have hfk := hI.cinv.toPInv.msgKeys
  have hrow := addRowOf_eq g.sys op.plain
  have frame : ¬ g.sys.AddsTo op a m →
      (((g.sys.step op).db.findMailbox a m).isSome → (g.sys.step op).db.messagesOf a m = g.sys.db.messagesOf a m) ∧
      ((g.sys.step op).db.findMailbox a m = none → (g.sys.step op).db.messagesOf a m = []) :=
    fun hna => C01_frame_messages hI op a m hna
  have isSome_of : ¬ (g.sys.step op).db.findMailbox a m = none → ((g.sys.step op).db.findMailbox a m).isSome := by
    intro hn
    cases hf : (g.sys.step op).db.findMailbox a m with
    | none => exact absurd hf hn
    | some _ => rfl
  show (g.sys.step op).db.messagesOf a m = _
  unfold liveStep
  cases he : g.sys.addEntryOf op.plain with
  | none =>
    rw [he] at hrow
    have hna : ¬ g.sys.AddsTo op a m := by
      rintro ⟨r, hr, _⟩
      rw [hrow] at hr; cases hr
    obtain ⟨f1, f2⟩ := frame hna
    split
    · rename_i hn; exact f2 hn
    · rename_i hn
      rw [f1 (isSome_of hn), h]
  | some p =>
    obtain ⟨a', m', e⟩ := p
    rw [he] at hrow
    simp only [Option.map_some] at hrow
    by_cases hto : a' = a ∧ m' = m
    · obtain ⟨rfl, rfl⟩ := hto
      have hpres := addEntryOf_present hI he
      rcases Sys.step_add hI.synced op hrow with ⟨h0, hd⟩ | ⟨h0, hd⟩
      · have hl : op.lands = false := (Op.lands_eq_false_iff op).2 h0
        rw [hd]
        rw [if_neg (by rw [Chan.findMailbox_eq_none_iff]; exact fun hc => hc hpres)]
        simp [hl, h]
      · have hl : op.lands = true := by
          cases hl : op.lands
          · exact absurd ((Op.lands_eq_false_iff op).1 hl) h0
          · rfl
        rw [hd]
        rw [if_neg (by
          rw [Chan.findMailbox_eq_none_iff, Chan.mbKeys_add]; exact fun hc => hc hpres)]
        rw [Chan.messagesOf_add]
        simp [hl, h, Entry.row]
    · have hna : ¬ g.sys.AddsTo op a m := by
        rintro ⟨r, hr, h1, h2⟩
        rw [hrow] at hr
        cases hr
        exact hto ⟨h1, h2⟩
      obtain ⟨f1, f2⟩ := frame hna
      have hto' : ¬ (a' = a ∧ m' = m ∧ op.lands = true) := fun hc => hto ⟨hc.1, hc.2.1⟩
      split
      · rename_i hn; exact f2 hn
      · rename_i hn
        simp only [hto', if_false]
        rw [f1 (isSome_of hn), h]

/-- the entries of the ghost log carry nondecreasing times bounded by the clock -/
theorem liveStep_time {g : GSys} (op : Op) (hw : g.WFOp op) (a m : String) (live : List Entry)
    (h1 : ∀ e ∈ live, e.rx ≤ g.clock) (h2 : live.Pairwise (fun e e' => e.rx ≤ e'.rx)) :
    (∀ e ∈ liveStep a m g.sys op live, e.rx ≤ (g.step op).clock) ∧
    (liveStep a m g.sys op live).Pairwise (fun e e' => e.rx ≤ e'.rx) := by
  have hmono : g.clock ≤ (g.step op).clock := by
    simp only [GSys.step]
    cases ht : op.time? with
    | none => exact Int.le_refl _
    | some t => exact hw.mono t ht
  have hold : ∀ e ∈ live, e.rx ≤ (g.step op).clock := fun e he => Int.le_trans (h1 e he) hmono
  unfold liveStep
  split
  · exact ⟨by simp, List.Pairwise.nil⟩
  · split
    · rename_i a' m' e he
      split
      · obtain ⟨c, id, cmd, hop⟩ := addEntryOf_rx he
        have ht := Op.time_of_plain_recv hop (fun k op' h => (hw.crashPlain k op' h).1)
        have hc : (g.step op).clock = e.rx := by simp [GSys.step, ht]
        refine ⟨?_, ?_⟩
        · intro e' he'
          rcases List.mem_append.1 he' with h | h
          · exact hold e' h
          · simp only [List.mem_singleton] at h; subst h; rw [hc]; exact Int.le_refl _
        · rw [List.pairwise_append]
          refine ⟨h2, List.pairwise_singleton _ _, ?_⟩
          intro x hx y hy
          simp only [List.mem_singleton] at hy
          subst hy
          rw [← hc]; exact hold x hx
      · exact ⟨hold, h2⟩
    · exact ⟨hold, h2⟩

/-- **C01 (4), the invariant**: along every well-formed history from a reachable state,
    "the `messages` rows of `(a, m)` are the ghost log seen through TEXT affinity" is preserved,
    and the log stays sorted by time.  `hreach` is the lead's `GSys.Reach.ginv`. -/
theorem C01_live_invariant (hreach : ∀ g : GSys, g.Reach → g.GInv) (a m : String) (ops : List Op) :
    ∀ {g : GSys}, g.Reach → g.WF ops → ∀ (live : List Entry),
      g.sys.db.messagesOf a m = live.map (Entry.row a m) →
      (∀ e ∈ live, e.rx ≤ g.clock) → live.Pairwise (fun e e' => e.rx ≤ e'.rx) →
      (g.run ops).sys.db.messagesOf a m = (liveRun a m g.sys ops live).map (Entry.row a m) ∧
      (∀ e ∈ liveRun a m g.sys ops live, e.rx ≤ (g.run ops).clock) ∧
      (liveRun a m g.sys ops live).Pairwise (fun e e' => e.rx ≤ e'.rx) := by
  induction ops with
  | nil => intro g _ _ live h0 h1 h2; exact ⟨h0, h1, h2⟩
  | cons op rest ih =>
    intro g hg hwf live h0 h1 h2
    obtain ⟨t1, t2⟩ := liveStep_time op hwf.1 a m live h1 h2
    exact ih (g := g.step op) (.step op hg hwf.1) hwf.2 _ (liveStep_inv (hreach g hg) op a m live h0) t1 t2

/-- **C01 (4)**: in every state reached by a well-formed history from the initial state, the
    stored messages of `(a, m)` are exactly the ghost log, mapped through `toText` on phase / body / id -/
theorem C01_table_is_live (hreach : ∀ g : GSys, g.Reach → g.GInv) (cfg : Cfg) (rb : Time) (ops : List Op)
    (hwf : (GSys.init cfg rb).WF ops) (a m : String) :
    ((GSys.init cfg rb).run ops).sys.db.messagesOf a m = (liveLog a m cfg rb ops).map (Entry.row a m) ∧
    (liveLog a m cfg rb ops).Pairwise (fun e e' => e.rx ≤ e'.rx) := by
  obtain ⟨h1, _, h3⟩ := C01_live_invariant hreach a m ops (.init cfg rb) hwf [] rfl (by simp) List.Pairwise.nil
  exact ⟨h1, h3⟩

/-- the frame that replays a ghost entry (what TEXT affinity makes of it) -/
def Entry.replay (c : Nat) (e : Entry) : Event :=
  .frame c (.message e.side e.phase.toText e.body.toText e.rx e.id.toText) true

/-- the frame that carries a ghost entry exactly as submitted -/
def Entry.asSubmitted (c : Nat) (e : Entry) : Event :=
  .frame c (.message e.side e.phase e.body e.rx e.id) true

/-- **C01, history form**: after any well-formed history from the initial state, an accepted `open`
    of `m` under app `a` answered ok outputs exactly: ack, commits, and the ghost log of `(a, m)`
    -- one frame per entry, in the order of the `add`s, fields through `toText` -/
theorem C01_replay_live (hreach : ∀ g : GSys, g.Reach → g.GInv) (cfg : Cfg) (rb : Time) (ops : List Op)
    (hwf : (GSys.init cfg rb).WF ops) {c : Nat} {x : Conn} {a σ m : String} (t : Time) (id : Val)
    (hx : ((GSys.init cfg rb).run ops).sys.findConn c = some x) (ha : x.app = some a)
    (hσ : x.side = some σ) (hm : x.mailbox = none)
    (hok : ((GSys.init cfg rb).run ops).sys.db.openRes a m σ = .ok) :
    ∃ commits, (∀ e ∈ commits, IsCommit e) ∧
      (((GSys.init cfg rb).run ops).step (.recv c t id (.open_ (some m)))).sys.out =
        [.frame c (.ack id) true] ++ commits ++ (liveLog a m cfg rb ops).map (Entry.replay c) := by
  have hI := hreach _ (GSys.reach_run (.init cfg rb) ops hwf)
  obtain ⟨⟨l, hl, ho⟩, _⟩ := C01_open_replays hI t id hx ha hσ hm hok
  obtain ⟨h1, h3⟩ := C01_table_is_live hreach cfg rb ops hwf a m
  refine ⟨l, hl, ?_⟩
  rw [ho]
  congr 1
  unfold Chan.replayRows
  rw [h1, List.mergeSort_of_pairwise]
  · simp only [List.map_map]
    apply List.map_congr_left
    intro e _
    rfl
  · rw [List.pairwise_map]
    refine h3.imp ?_
    intro e e' h
    exact decide_eq_true h

/-! ### "exactly as submitted": strings and null -/

def Val.isInt : Val → Bool
  | .int _ => true
  | _ => false

theorem Val.toText_of_not_int {v : Val} (h : v.isInt = false) : v.toText = v := by
  cases v <;> simp_all [Val.isInt, Val.toText]

/-- the `add`s of the operation carry no JSON number as id, phase or body -/
def Op.Textual (op : Op) : Prop :=
  match op.plain with
  | .recv _ _ id (.add ph bd) =>
    id.isInt = false ∧ (∀ v, ph = some v → v.isInt = false) ∧ (∀ v, bd = some v → v.isInt = false)
  | _ => True

def Entry.Textual (e : Entry) : Prop := e.phase.isInt = false ∧ e.body.isInt = false ∧ e.id.isInt = false

theorem Entry.replay_eq_asSubmitted {e : Entry} (h : e.Textual) (c : Nat) : e.replay c = e.asSubmitted c := by
  simp [Entry.replay, Entry.asSubmitted, Val.toText_of_not_int h.1, Val.toText_of_not_int h.2.1,
    Val.toText_of_not_int h.2.2]

theorem addEntryOf_textual {s : Sys} {op : Op} {a m : String} {e : Entry}
    (h : s.addEntryOf op.plain = some (a, m, e)) (ht : op.Textual) : e.Textual := by
  unfold Op.Textual at ht
  unfold Sys.addEntryOf at h
  split at h
  · rename_i hop
    rw [hop] at ht
    split at h
    · split at h
      · cases h
        exact ⟨ht.2.1 _ rfl, ht.2.2 _ rfl, ht.1⟩
      · cases h
    · cases h
  · cases h

/-- every entry of the ghost log stems from an `add` of the history -/
theorem liveRun_forall (Q : Entry → Prop) (a m : String) (ops : List Op)
    (hops : ∀ op ∈ ops, ∀ (s : Sys) a' m' e, s.addEntryOf op.plain = some (a', m', e) → Q e) :
    ∀ (s : Sys) (live : List Entry), (∀ e ∈ live, Q e) → ∀ e ∈ liveRun a m s ops live, Q e := by
  induction ops with
  | nil => intro s live h; exact h
  | cons op rest ih =>
    intro s live h
    apply ih (fun op' h' => hops op' (List.mem_cons_of_mem _ h'))
    intro e he
    unfold liveStep at he
    split at he
    · simp at he
    · split at he
      · rename_i a' m' e' hadd
        split at he
        · rcases List.mem_append.1 he with h' | h'
          · exact h e h'
          · simp only [List.mem_singleton] at h'
            subst h'
            exact hops op (List.mem_cons_self ..) s a' m' e hadd
        · exact h e he
      · exact h e he

/-- **C01 (replay exact)**: if no `add` of the history carries a JSON number as id, phase or body
    (real clients send strings; see `C01_int_id_counterexample` for the rest), then after any
    well-formed history every accepted `open` of `(a, m)` answered ok is sent exactly the accepted
    `add`s on `(a, m)` since that mailbox row last did not exist -- each once, in order, with the
    adder's bound side and phase, body, id EXACTLY AS SUBMITTED -- and no other `message` frame. -/
theorem C01_replay_exact (hreach : ∀ g : GSys, g.Reach → g.GInv) (cfg : Cfg) (rb : Time) (ops : List Op)
    (hwf : (GSys.init cfg rb).WF ops) (htext : ∀ op ∈ ops, op.Textual)
    {c : Nat} {x : Conn} {a σ m : String} (t : Time) (id : Val)
    (hx : ((GSys.init cfg rb).run ops).sys.findConn c = some x) (ha : x.app = some a)
    (hσ : x.side = some σ) (hm : x.mailbox = none)
    (hok : ((GSys.init cfg rb).run ops).sys.db.openRes a m σ = .ok) :
    ∃ commits, (∀ e ∈ commits, IsCommit e) ∧
      (((GSys.init cfg rb).run ops).step (.recv c t id (.open_ (some m)))).sys.out =
        [.frame c (.ack id) true] ++ commits ++ (liveLog a m cfg rb ops).map (Entry.asSubmitted c) := by
  obtain ⟨l, hl, ho⟩ := C01_replay_live hreach cfg rb ops hwf t id hx ha hσ hm hok
  refine ⟨l, hl, ?_⟩
  rw [ho]
  congr 1
  apply List.map_congr_left
  intro e he
  apply Entry.replay_eq_asSubmitted
  exact liveRun_forall Entry.Textual a m ops
    (fun op hop s a' m' e h => addEntryOf_textual h (htext op hop)) _ [] (by simp) e he

/-! ## non-vacuity: a concrete state satisfying the invariant

  Two apps whose mailboxes have identical mailbox-relative contents (same sides, phases, bodies,
  ids, times); app "A" has three subscribers on "mA" (two of them with the same side), one more
  connection bound but not subscribed, one unbound. -/

namespace C01Ex

def db : Chan :=
  { mailboxes := [⟨"A", "mA", 10, false⟩, ⟨"B", "mB", 10, false⟩],
    mbSides := [⟨"mA", true, "s1", 5, none⟩, ⟨"mA", true, "s2", 6, none⟩, ⟨"mB", true, "s1", 5, none⟩],
    messages := [⟨"A", "mA", "s1", .str "pake", .str "b1", 7, .str "i1"⟩,
                 ⟨"B", "mB", "s1", .str "pake", .str "b1", 7, .str "i1"⟩,
                 ⟨"A", "mA", "s2", .str "0", .str "b2", 9, .null⟩] }

def x1 : Conn :=
  { id := 1, app := some "A", side := some "s1", listening := true, mailbox := some "mA", mailboxId := some "mA" }
def x4 : Conn :=
  { id := 4, app := some "B", side := some "s1", listening := true, mailbox := some "mB", mailboxId := some "mB" }
def x5 : Conn := { id := 5, app := some "A", side := some "s2" }

def sys : Sys :=
  { db := db, disk := db,
    conns := [x1,
      { id := 2, app := some "A", side := some "s2", listening := true, mailbox := some "mA", mailboxId := some "mA" },
      { id := 3, app := some "A", side := some "s1", listening := true, mailbox := some "mA", mailboxId := some "mA" },
      x4, x5, { id := 6 }] }

def g : GSys := ⟨sys, 10, ["mA", "mB"]⟩

theorem ginv : g.GInv := by
  refine ⟨⟨⟨?_, ?_, ⟨?_, ?_⟩, ?_, ?_, ?_, ?_, ?_, ?_, ?_⟩, ?_⟩, ⟨?_, ?_, ?_, ?_⟩, ⟨rfl, rfl⟩, ?_, ?_, ?_⟩
  all_goals first | decide | skip
  all_goals simp [g, sys, db, x1, x4, x5]

/-- (1): connection 1 adds to ("A","mA") -/
example := C01_add_appends ginv (c := 1) (x := x1) (a := "A") (σ := "s1") (m := "mA") 20 (.str "id")
  (.str "ph") (.str "bd") (by decide) rfl rfl rfl
example : (g.step (.recv 1 20 (.str "id") (.add (some (.str "ph")) (some (.str "bd"))))).sys.db.messagesOf "A" "mA" =
    db.messagesOf "A" "mA" ++ [⟨"A", "mA", "s1", .str "ph", .str "bd", 20, .str "id"⟩] ∧
    (g.step (.recv 1 20 (.str "id") (.add (some (.str "ph")) (some (.str "bd"))))).sys.db.messagesOf "B" "mB" =
    db.messagesOf "B" "mB" := by decide +kernel
example := C01_add_appends_crash ginv (c := 1) (x := x1) (a := "A") (σ := "s1") (m := "mA") 1 20 (.str "id")
  (.str "ph") (.str "bd") (by decide) rfl rfl rfl

/-- (2): connection 4 (the only opened side of "mB") closes: the mailbox row and its messages go
    together; the identical contents of ("A","mA") stay -/
example : ¬ g.sys.AddsTo (.recv 4 20 .null (.close none (some "happy"))) "B" "mB" := by
  rintro ⟨r, hr, _⟩; simp [Sys.addRowOf, Op.plain] at hr
example := C01_frame_messages ginv (.recv 4 20 .null (.close none (some "happy"))) "B" "mB"
  (by rintro ⟨r, hr, _⟩; simp [Sys.addRowOf, Op.plain] at hr)
example : (g.step (.recv 4 20 .null (.close none (some "happy")))).sys.db.findMailbox "B" "mB" = none ∧
    (g.step (.recv 4 20 .null (.close none (some "happy")))).sys.db.messagesOf "B" "mB" = [] ∧
    (g.step (.recv 4 20 .null (.close none (some "happy")))).sys.db.messagesOf "A" "mA" = db.messagesOf "A" "mA" ∧
    db.messagesOf "B" "mB" ≠ [] := by decide +kernel
/-- a sweep (here: late enough to expire every untouched mailbox) is covered by (2) as well -/
example := C01_frame_messages' ginv (.sweep 100000 false) "B" "mB"
  (by rintro ⟨r, hr, _⟩; simp [Sys.addRowOf, Op.plain] at hr)

/-- (3): connection 5 (bound to ("A","s2"), no handle) opens "mA" -/
example : g.sys.db.openRes "A" "mA" "s2" = .ok := by decide
example := C01_open_replays ginv (c := 5) (x := x5) (a := "A") (σ := "s2") (m := "mA") 20 (.str "o")
  (by decide) rfl rfl rfl (by decide)
example : ∃ commits, (∀ e ∈ commits, IsCommit e) ∧
    (g.step (.recv 5 20 (.str "o") (.open_ (some "mA")))).sys.out =
      [.frame 5 (.ack (.str "o")) true] ++ commits ++
      [.frame 5 (.message "s1" (.str "pake") (.str "b1") 7 (.str "i1")) true,
       .frame 5 (.message "s2" (.str "0") (.str "b2") 9 .null) true] := by
  obtain ⟨⟨l, hl, ho⟩, _⟩ := C01_open_replays ginv (c := 5) (x := x5) (a := "A") (σ := "s2") (m := "mA") 20
    (.str "o") (by decide) rfl rfl rfl (by decide)
  refine ⟨l, hl, ?_⟩
  rw [ho]
  congr 1
  unfold Chan.replayRows
  rw [show g.sys.db.messagesOf "A" "mA" =
    [⟨"A", "mA", "s1", .str "pake", .str "b1", 7, .str "i1"⟩, ⟨"A", "mA", "s2", .str "0", .str "b2", 9, .null⟩]
    by decide, List.mergeSort_of_pairwise (by decide)]
  rfl

end C01Ex

/-! ## K-id-coercion: the live frame and the replayed frame differ for a numeric id -/

/-- a well-formed history from the initial state: connection 1 binds, opens "m" and adds with the
    JSON number 5 as id; connection 2 binds (and then opens "m") -/
def C01Ex.hist : List Op :=
  [.connect 1, .recv 1 1 .null (.bind (some "A") (some "s1") none none),
   .recv 1 2 .null (.open_ (some "m")),
   .recv 1 3 (.int 5) (.add (some (.str "ph")) (some (.str "bd"))),
   .connect 2, .recv 2 4 .null (.bind (some "A") (some "s2") none none)]

/-- **K-id-coercion**: `add` with `id := 5` (a JSON number) is broadcast live with id `5` but every
    later `open` replays it with id `"5"`: for integer ids (phases, bodies) "exactly as submitted"
    fails, which is why `C01_replay_exact` carries the hypothesis `Op.Textual`. -/
theorem C01_int_id_counterexample :
    Event.frame 1 (.message "s1" (.str "ph") (.str "bd") 3 (.int 5)) true ∈
      (({ } : Sys).run C01Ex.hist).2 ∧
    Event.frame 2 (.message "s1" (.str "ph") (.str "bd") 3 (.str "5")) true ∈
      ((({ } : Sys).run C01Ex.hist).1.step (.recv 2 5 .null (.open_ (some "m")))).out ∧
    Event.frame 2 (.message "s1" (.str "ph") (.str "bd") 3 (.int 5)) true ∉
      ((({ } : Sys).run C01Ex.hist).1.step (.recv 2 5 .null (.open_ (some "m")))).out ∧
    ¬ (Op.recv 1 3 (.int 5) (.add (some (.str "ph")) (some (.str "bd")))).Textual := by
  refine ⟨by decide +kernel, by decide +kernel, by decide +kernel, ?_⟩
  simp [Op.Textual, Op.plain, Val.isInt]

/-- the ghost log of that history records the entry as submitted (id `5`) -/
example : liveLog "A" "m" {} 0 C01Ex.hist = [⟨"s1", .str "ph", .str "bd", .int 5, 3⟩] := by
  decide +kernel

/-! ## the history theorems with the lead's `GSys.Reach.ginv` plugged in -/

theorem C01_table_is_live' (cfg : Cfg) (rb : Time) (ops : List Op) (hwf : (GSys.init cfg rb).WF ops)
    (a m : String) :
    ((GSys.init cfg rb).run ops).sys.db.messagesOf a m = (liveLog a m cfg rb ops).map (Entry.row a m) ∧
    (liveLog a m cfg rb ops).Pairwise (fun e e' => e.rx ≤ e'.rx) :=
  C01_table_is_live (fun _ h => h.ginv) cfg rb ops hwf a m

theorem C01_replay_exact' (cfg : Cfg) (rb : Time) (ops : List Op)
    (hwf : (GSys.init cfg rb).WF ops) (htext : ∀ op ∈ ops, op.Textual)
    {c : Nat} {x : Conn} {a σ m : String} (t : Time) (id : Val)
    (hx : ((GSys.init cfg rb).run ops).sys.findConn c = some x) (ha : x.app = some a)
    (hσ : x.side = some σ) (hm : x.mailbox = none)
    (hok : ((GSys.init cfg rb).run ops).sys.db.openRes a m σ = .ok) :
    ∃ commits, (∀ e ∈ commits, IsCommit e) ∧
      (((GSys.init cfg rb).run ops).step (.recv c t id (.open_ (some m)))).sys.out =
        [.frame c (.ack id) true] ++ commits ++ (liveLog a m cfg rb ops).map (Entry.asSubmitted c) :=
  C01_replay_exact (fun _ h => h.ginv) cfg rb ops hwf htext t id hx ha hσ hm hok

#print axioms C01_add_appends
#print axioms C01_add_appends_crash
#print axioms C01_frame_messages
#print axioms C01_frame_messages'
#print axioms C01_open_replays
#print axioms C01_open_replays_perm
#print axioms C01_no_foreign
#print axioms C01_open_private
#print axioms C01_fresh_incarnation_empty
#print axioms C01_live_invariant
#print axioms C01_table_is_live
#print axioms C01_replay_live
#print axioms C01_replay_exact
#print axioms C01_int_id_counterexample
#print axioms C01_table_is_live'
#print axioms C01_replay_exact'

end Wormhole
