/-
  C16 — blurred usage timestamps never reveal exact client times (pure part).

  Contents
  * `blur_floor`, `blur_floor_rate`     : arithmetic of `B * (t / B)` (floor to a multiple of `B`)
  * `blurTicks_eq_some_iff`, `C16_blurTime` : what `Sys.blurTicks` / `Sys.blurTime` compute
  * `sortTimes_*`                        : `sortTimes l` is a sorted permutation of `l`; its head is
                                           the minimum (`List.min?`) of `l`, its second element the
                                           minimum of the rest
  * `C16_storeNameplateUsage`, `C16_storeMailboxUsage`, `C16_logClientVersion` :
      the usage database after each of the three writing primitives is the one before with exactly
      one row appended, whose `started` / `time` column is `s.blurTime (smallest added / receive time)`.

  The tick rate only enters through `Generated.ticksPerSecond`; the only fact about it that is used
  is `0 < Generated.ticksPerSecond` (`ticksPerSecond_pos`, by `decide` on the name, re-checked when
  the translator regenerates the constant).
-/
import Wormhole.Core

namespace Wormhole
namespace C16

/-! ### 1. Arithmetic -/

/-- Rounding down to a multiple of `B`: the result is a multiple of `B`, is `≤ t`, and lies less
    than one interval before `t`.  For every integer `B > 0` and every integer `t` (negative too). -/
theorem blur_floor (B t : Int) (hB : 0 < B) :
    B ∣ B * (t / B) ∧ B * (t / B) ≤ t ∧ t < B * (t / B) + B := by
  have h1 := Int.mul_ediv_add_emod t B
  have h2 := Int.emod_nonneg t (Int.ne_of_gt hB)
  have h3 := Int.emod_lt_of_pos t hB
  exact ⟨Int.dvd_mul_right B (t / B), by omega, by omega⟩

/-- The blurred value is the *only* multiple of `B` in the window `(t - B, t]`: the three facts of
    `blur_floor` determine it. -/
theorem blur_floor_unique (B t x : Int) (hB : 0 < B) (hd : B ∣ x) (hle : x ≤ t) (hlt : t < x + B) :
    x = B * (t / B) := by
  obtain ⟨q, rfl⟩ := hd
  have h1 := Int.mul_ediv_add_emod t B
  have h2 := Int.emod_nonneg t (Int.ne_of_gt hB)
  have h3 := Int.emod_lt_of_pos t hB
  have hq : q = t / B := by
    -- B*q ≤ t < B*q + B  and  B*(t/B) ≤ t < B*(t/B) + B
    have a : B * q < B * (t / B) + B := by omega
    have b : B * (t / B) < B * q + B := by omega
    have a' : B * q < B * (t / B + 1) := by rw [Int.mul_add, Int.mul_one]; exact a
    have b' : B * (t / B) < B * (q + 1) := by rw [Int.mul_add, Int.mul_one]; exact b
    have a'' := Int.lt_of_mul_lt_mul_left a' (Int.le_of_lt hB)
    have b'' := Int.lt_of_mul_lt_mul_left b' (Int.le_of_lt hB)
    omega
  rw [hq]

/-- Generic in the interval `b ≥ 1` (seconds) and in the tick rate `q ≥ 1` (ticks per second):
    DESIGN.md `C16_blur_floor`. -/
theorem blur_floor_rate (b q : Nat) (hb : 1 ≤ b) (hq : 1 ≤ q) (t : Int) :
    let B : Int := (b : Int) * (q : Int)
    0 < B ∧ B ∣ B * (t / B) ∧ B * (t / B) ≤ t ∧ t < B * (t / B) + B := by
  intro B
  have hB : 0 < B := Int.mul_pos (by omega) (by omega)
  exact ⟨hB, blur_floor B t hB⟩

example : (20 * 8 : Int) ∣ (20 * 8) * (1234567 / (20 * 8)) ∧ (20 * 8 : Int) * (1234567 / (20 * 8)) = 1234560 := by
  decide
example : (7 : Int) * (-3 / 7) = -7 := by decide   -- floor, not truncation, for negative times

/-! ### 2. `Sys.blurTicks`, `Sys.blurTime` -/

/-- The only fact about the tick rate that the theorems use. -/
theorem ticksPerSecond_pos : 0 < Generated.ticksPerSecond := by decide

/-- Blurring is in effect exactly when `--blur-usage b` was given with `b ≥ 1`, and then the
    interval is `b` seconds expressed in ticks. -/
theorem blurTicks_eq_some_iff (s : Sys) (B : Int) :
    s.blurTicks = some B ↔
      ∃ b : Nat, s.cfg.blur = some b ∧ 1 ≤ b ∧ B = (b : Int) * (Generated.ticksPerSecond : Int) := by
  unfold Sys.blurTicks
  cases h : s.cfg.blur with
  | none => simp
  | some b =>
    by_cases hb : b = 0
    · subst hb; simp
    · simp only [hb, if_false, Option.some.injEq]
      constructor
      · intro e; exact ⟨b, rfl, by omega, e.symm⟩
      · rintro ⟨b', e, _, rfl⟩; cases e; rfl

theorem blurTicks_eq_none_iff (s : Sys) :
    s.blurTicks = none ↔ s.cfg.blur = none ∨ s.cfg.blur = some 0 := by
  unfold Sys.blurTicks
  cases h : s.cfg.blur with
  | none => simp
  | some b => by_cases hb : b = 0 <;> simp [hb]

/-- `C16_blurTime`: what `blurTime` computes, for every state and every time.  With a blur interval
    in effect the stored time is a multiple of the interval, not after the true time and less than
    one interval before it; without, the time is stored as is. -/
theorem C16_blurTime (s : Sys) (t : Time) :
    (∀ B, s.blurTicks = some B →
        (∃ b : Nat, s.cfg.blur = some b ∧ 1 ≤ b ∧ B = (b : Int) * (Generated.ticksPerSecond : Int)) ∧
        0 < B ∧ s.blurTime t = B * (t / B) ∧
        B ∣ s.blurTime t ∧ s.blurTime t ≤ t ∧ t < s.blurTime t + B) ∧
    (s.blurTicks = none → s.blurTime t = t) := by
  constructor
  · intro B hB
    have hcfg := (blurTicks_eq_some_iff s B).1 hB
    obtain ⟨b, hb, hb1, rfl⟩ := hcfg
    have hq : 1 ≤ Generated.ticksPerSecond := ticksPerSecond_pos
    have hr := blur_floor_rate b Generated.ticksPerSecond hb1 hq t
    have hbt : s.blurTime t
        = ((b : Int) * (Generated.ticksPerSecond : Int)) * (t / ((b : Int) * (Generated.ticksPerSecond : Int))) := by
      unfold Sys.blurTime; rw [hB]
    refine ⟨⟨b, hb, hb1, rfl⟩, hr.1, hbt, ?_⟩
    rw [hbt]; exact hr.2
  · intro hN
    unfold Sys.blurTime; rw [hN]

/-- The same in terms of the configuration only (no mention of `blurTicks`). -/
theorem C16_blurTime_cfg (s : Sys) (b : Nat) (hb : s.cfg.blur = some b) (hb1 : 1 ≤ b) (t : Time) :
    let B : Int := (b : Int) * (Generated.ticksPerSecond : Int)
    0 < B ∧ B ∣ s.blurTime t ∧ s.blurTime t ≤ t ∧ t < s.blurTime t + B := by
  intro B
  have hB : s.blurTicks = some B := (blurTicks_eq_some_iff s B).2 ⟨b, hb, hb1, rfl⟩
  have h := (C16_blurTime s t).1 B hB
  exact ⟨h.2.1, h.2.2.2⟩

theorem blurTime_of_no_blur (s : Sys) (h : s.cfg.blur = none ∨ s.cfg.blur = some 0) (t : Time) :
    s.blurTime t = t :=
  (C16_blurTime s t).2 ((blurTicks_eq_none_iff s).2 h)

-- non-vacuity: an interval that does not divide a minute, a time that is not a multiple
example : ({ cfg := { blur := some 7 } } : Sys).blurTicks = some (7 * (Generated.ticksPerSecond : Int)) := by
  decide
example : ({ cfg := { blur := some 7 } } : Sys).blurTime 1000 = 952 := by decide
example : ({ cfg := { blur := some 0 } } : Sys).blurTime 1001 = 1001 := by decide
example : ({ cfg := { blur := none } } : Sys).blurTime 1001 = 1001 := by decide

/-! ### 3. `sortTimes` -/

theorem sortTimes_perm (l : List Time) : (sortTimes l).Perm l :=
  List.mergeSort_perm l _

theorem mem_sortTimes {l : List Time} {x : Time} : x ∈ sortTimes l ↔ x ∈ l :=
  (sortTimes_perm l).mem_iff

@[simp] theorem length_sortTimes (l : List Time) : (sortTimes l).length = l.length :=
  (sortTimes_perm l).length_eq

theorem sortTimes_sorted (l : List Time) : (sortTimes l).Pairwise (· ≤ ·) := by
  have h := List.pairwise_mergeSort (le := fun a b : Time => decide (a ≤ b))
    (by intro a b c; simp only [decide_eq_true_eq]; exact Int.le_trans)
    (by intro a b; simp only [Bool.or_eq_true, decide_eq_true_eq]; exact Int.le_total a b) l
  unfold sortTimes
  exact h.imp (by intro a b; simp)

theorem sortTimes_eq_nil_iff (l : List Time) : sortTimes l = [] ↔ l = [] := by
  rw [← List.length_eq_zero_iff, length_sortTimes, List.length_eq_zero_iff]

/-- An already sorted list is left alone. -/
theorem sortTimes_of_sorted {l : List Time} (h : l.Pairwise (· ≤ ·)) : sortTimes l = l :=
  List.mergeSort_of_pairwise (h.imp (by intro a b; simp))

/-- `m` is a least element of `l`. -/
def IsMin (l : List Time) (m : Time) : Prop := m ∈ l ∧ ∀ x ∈ l, m ≤ x

theorem isMin_iff_min? (l : List Time) (m : Time) : IsMin l m ↔ l.min? = some m := by
  unfold IsMin
  rw [List.min?_eq_some_iff]

theorem IsMin.unique {l : List Time} {a b : Time} (ha : IsMin l a) (hb : IsMin l b) : a = b := by
  exact Int.le_antisymm (ha.2 b hb.1) (hb.2 a ha.1)

/-- The head of the sorted list is a member of the original list and `≤` every element of it. -/
theorem sortTimes_head_isMin {l : List Time} {t0 : Time} {rest : List Time}
    (h : sortTimes l = t0 :: rest) : IsMin l t0 := by
  have hs := sortTimes_sorted l
  rw [h] at hs
  have hp := sortTimes_perm l
  rw [h] at hp
  refine ⟨hp.mem_iff.1 (by simp), fun x hx => ?_⟩
  have hx' : x ∈ t0 :: rest := hp.mem_iff.2 hx
  rcases List.mem_cons.1 hx' with rfl | hx''
  · exact Int.le_refl _
  · exact (List.pairwise_cons.1 hs).1 x hx''

/-- … and the second element is a least element of what is left after removing one occurrence of
    the first. -/
theorem sortTimes_second_isMin {l : List Time} {t0 t1 : Time} {rest : List Time}
    (h : sortTimes l = t0 :: t1 :: rest) : IsMin (l.erase t0) t1 := by
  have hs := sortTimes_sorted l
  rw [h] at hs
  have hp : (t0 :: t1 :: rest).Perm l := h ▸ sortTimes_perm l
  have hp' : (t1 :: rest).Perm (l.erase t0) := by
    have := hp.erase t0
    simpa using this
  refine ⟨hp'.mem_iff.1 (by simp), fun x hx => ?_⟩
  have hx' : x ∈ t1 :: rest := hp'.mem_iff.2 hx
  rcases List.mem_cons.1 hx' with rfl | hx''
  · exact Int.le_refl _
  · exact (List.pairwise_cons.1 (List.pairwise_cons.1 hs).2).1 x hx''

/-- Head of the sorted list = `List.min?` of the original list (both `none` for `[]`). -/
theorem sortTimes_head? (l : List Time) : (sortTimes l).head? = l.min? := by
  cases h : sortTimes l with
  | nil =>
    have := (sortTimes_eq_nil_iff l).1 h
    subst this; rfl
  | cons t0 rest =>
    exact ((isMin_iff_min? l t0).1 (sortTimes_head_isMin h)).symm

/-- Shape of the sorted list in terms of `min?`: it starts with the minimum, followed by the
    sorted remainder's minimum. -/
theorem sortTimes_cases (l : List Time) :
    (l = [] ∧ sortTimes l = []) ∨
    (∃ t0, l.min? = some t0 ∧ l.length = 1 ∧ sortTimes l = [t0]) ∨
    (∃ t0 t1 rest, l.min? = some t0 ∧ (l.erase t0).min? = some t1 ∧ 2 ≤ l.length ∧
        sortTimes l = t0 :: t1 :: rest) := by
  cases h : sortTimes l with
  | nil => exact Or.inl ⟨(sortTimes_eq_nil_iff l).1 h, rfl⟩
  | cons t0 r =>
    have hlen : (sortTimes l).length = l.length := length_sortTimes l
    have h0 := (isMin_iff_min? l t0).1 (sortTimes_head_isMin h)
    cases r with
    | nil =>
      refine Or.inr (Or.inl ⟨t0, h0, ?_, rfl⟩)
      rw [h] at hlen; simpa using hlen.symm
    | cons t1 rest =>
      refine Or.inr (Or.inr ⟨t0, t1, rest, h0, ?_, ?_, rfl⟩)
      · exact (isMin_iff_min? _ t1).1 (sortTimes_second_isMin h)
      · rw [h] at hlen; simp at hlen; omega

example : sortTimes [5, 3, 9, 3] = [3, 3, 5, 9] := by simp [sortTimes, List.mergeSort]
example : IsMin [5, 3, 9, 3] 3 := by unfold IsMin; decide
example : IsMin ([5, 3, 9, 3].erase 3) 3 := by unfold IsMin; decide

/-! ### 4. The `started` field of the two summaries -/

theorem summarizeNameplate_eq_none_iff (blur : Time → Time) (added : List Time) (dt : Time) (pruned : Bool) :
    summarizeNameplate blur added dt pruned = none ↔ added = [] := by
  unfold summarizeNameplate
  cases h : sortTimes added with
  | nil => simpa using (sortTimes_eq_nil_iff added).1 h
  | cons t0 rest =>
    have : added ≠ [] := fun e => by rw [e] at h; simp [sortTimes] at h
    simpa using this

/-- `started` of a nameplate summary is the blurred least `added`. -/
theorem summarizeNameplate_started {blur : Time → Time} {added : List Time} {dt : Time} {pruned : Bool}
    {u : Summary} (h : summarizeNameplate blur added dt pruned = some u) :
    ∃ m, added.min? = some m ∧ IsMin added m ∧ u.started = blur m := by
  unfold summarizeNameplate at h
  cases hs : sortTimes added with
  | nil => rw [hs] at h; simp at h
  | cons t0 rest =>
    rw [hs] at h
    simp only [Option.some.injEq] at h
    have hm := sortTimes_head_isMin hs
    exact ⟨t0, (isMin_iff_min? _ _).1 hm, hm, by rw [← h]⟩

/-- `started` of a mailbox summary is the blurred least `added` (the blurred deletion time when
    there is no side row at all). -/
theorem summarizeMailbox_started (blur : Time → Time) (sides : List MbSide) (dt : Time) (pruned : Bool) :
    (summarizeMailbox blur sides dt pruned).started = blur ((sides.map (·.added)).min?.getD dt) := by
  unfold summarizeMailbox
  simp only
  rw [← sortTimes_head?]
  cases sortTimes (sides.map (·.added)) <;> rfl

/-! ### 5. The three writing paths: exactly one row appended, with a blurred time -/

/-- `_summarize_nameplate_and_store`: with no side row nothing is written (`IndexError`);
    otherwise the usage db is the old one with exactly one `nameplates` row appended whose
    `started` is `s.blurTime` of the smallest `added`; nothing else in the state changes. -/
theorem C16_storeNameplateUsage (s : Sys) (app : String) (sides : List NpSide) (t : Time) (pruned : Bool) :
    (sides = [] ∧ s.storeNameplateUsage app sides t pruned = (s, false)) ∨
    (∃ m u, (sides.map (·.added)).min? = some m ∧ IsMin (sides.map (·.added)) m ∧
        summarizeNameplate s.blurTime (sides.map (·.added)) t pruned = some u ∧
        u.started = s.blurTime m ∧
        s.storeNameplateUsage app sides t pruned =
          ({ s with udb := { s.udb with nameplates := s.udb.nameplates ++
              [⟨app, s.blurTime m, u.waiting, u.total, u.result⟩] } }, true)) := by
  unfold Sys.storeNameplateUsage
  cases h : summarizeNameplate s.blurTime (sides.map (·.added)) t pruned with
  | none =>
    left
    have := (summarizeNameplate_eq_none_iff _ _ _ _).1 h
    exact ⟨by simpa using this, rfl⟩
  | some u =>
    right
    obtain ⟨m, hm, hmin, hst⟩ := summarizeNameplate_started h
    exact ⟨m, u, hm, hmin, rfl, hst, by simp [Sys.modUdb, hst]⟩

/-- `_summarize_mailbox_and_store`: exactly one `mailboxes` row appended, `started` =
    `s.blurTime` of the smallest `added` (of the deletion time if there is no side row);
    nothing else in the state changes. -/
theorem C16_storeMailboxUsage (s : Sys) (app : String) (forNp : Bool) (sides : List MbSide) (t : Time)
    (pruned : Bool) :
    let u := summarizeMailbox s.blurTime sides t pruned
    u.started = s.blurTime ((sides.map (·.added)).min?.getD t) ∧
    s.storeMailboxUsage app forNp sides t pruned =
      { s with udb := { s.udb with mailboxes := s.udb.mailboxes ++
          [⟨app, forNp, s.blurTime ((sides.map (·.added)).min?.getD t), u.total, u.waiting, u.result⟩] } } := by
  intro u
  have hst := summarizeMailbox_started s.blurTime sides t pruned
  refine ⟨hst, ?_⟩
  unfold Sys.storeMailboxUsage
  simp only [Sys.modUdb]
  rw [hst]

theorem ucommit_udb (s : Sys) : s.ucommit.udb = s.udb := by
  unfold Sys.ucommit; split <;> rfl

theorem ucommit_udisk (s : Sys) : s.ucommit.udisk = s.udb := by
  unfold Sys.ucommit; split
  · next h => exact h.symm
  · rfl

/-- `log_client_version`: with a usage db exactly one `client_versions` row is appended, whose
    `connect_time` is `s.blurTime` of the receive time, and it is committed; without, nothing. -/
theorem C16_logClientVersion (s : Sys) (app side : String) (t : Time) (impl version : Option String) :
    (s.cfg.usage = true →
      (s.logClientVersion app side t impl version).udb =
        { s.udb with clients := s.udb.clients ++ [⟨app, side, s.blurTime t, impl, version⟩] } ∧
      (s.logClientVersion app side t impl version).udisk =
        (s.logClientVersion app side t impl version).udb) ∧
    (s.cfg.usage = false → s.logClientVersion app side t impl version = s) := by
  unfold Sys.logClientVersion
  constructor
  · intro h
    simp only [h, if_true]
    rw [ucommit_udb, ucommit_udisk]
    exact ⟨rfl, rfl⟩
  · intro h; simp [h]

/-- The three paths together with the arithmetic: with `--blur-usage b`, `b ≥ 1`, the time column
    of the row written by each path is a multiple of the interval `B = b * ticksPerSecond`, is not
    after the true time (smallest `added` / receive time) and is less than `B` before it. -/
theorem C16_paths_blurred (s : Sys) (b : Nat) (hb : s.cfg.blur = some b) (hb1 : 1 ≤ b) :
    let B : Int := (b : Int) * (Generated.ticksPerSecond : Int)
    let ok (stored true_ : Time) : Prop := B ∣ stored ∧ stored ≤ true_ ∧ true_ < stored + B
    0 < B ∧
    -- nameplate record
    (∀ app sides t pruned s', s.storeNameplateUsage app sides t pruned = (s', true) →
      ∃ m row, IsMin (sides.map (·.added)) m ∧ s'.udb.nameplates = s.udb.nameplates ++ [row] ∧
        ok row.started m) ∧
    -- mailbox record
    (∀ app forNp sides t pruned,
      ∃ row, (s.storeMailboxUsage app forNp sides t pruned).udb.mailboxes = s.udb.mailboxes ++ [row] ∧
        ok row.started ((sides.map (·.added)).min?.getD t)) ∧
    -- client-version record
    (∀ app side t impl version, s.cfg.usage = true →
      ∃ row, (s.logClientVersion app side t impl version).udb.clients = s.udb.clients ++ [row] ∧
        ok row.time t) := by
  intro B ok
  have hblur : ∀ t, ok (s.blurTime t) t := fun t => (C16_blurTime_cfg s b hb hb1 t).2
  refine ⟨(C16_blurTime_cfg s b hb hb1 0).1, ?_, ?_, ?_⟩
  · intro app sides t pruned s' h
    rcases C16_storeNameplateUsage s app sides t pruned with ⟨_, h0⟩ | ⟨m, u, _, hmin, _, _, h1⟩
    · rw [h0] at h; cases h
    · rw [h1] at h
      cases h
      exact ⟨m, _, hmin, rfl, hblur m⟩
  · intro app forNp sides t pruned
    have h := (C16_storeMailboxUsage s app forNp sides t pruned).2
    rw [h]
    exact ⟨_, rfl, hblur _⟩
  · intro app side t impl version hu
    have h := ((C16_logClientVersion s app side t impl version).1 hu).1
    rw [h]
    exact ⟨_, rfl, hblur t⟩

-- non-vacuity: a state with blur 7 s and a usage db; two sides added at 1001 and 1000
example :
    let s : Sys := { cfg := { blur := some 7, usage := true } }
    (s.storeNameplateUsage "a" [⟨1, true, "x", 1001⟩, ⟨1, false, "y", 1000⟩] 2000 false).1.udb.nameplates
      = [⟨"a", 952, some 1, 1000, "happy"⟩] := by
  simp [Sys.storeNameplateUsage, summarizeNameplate, sortTimes, List.mergeSort, Sys.modUdb, Sys.blurTime,
    Sys.blurTicks, Generated.ticksPerSecond]
example :
    let s : Sys := { cfg := { blur := some 7, usage := true } }
    (s.logClientVersion "a" "x" 1001 none none).udb.clients = [⟨"a", "x", 952, none, none⟩] := by
  decide

#print axioms blur_floor
#print axioms blur_floor_unique
#print axioms blur_floor_rate
#print axioms C16_blurTime
#print axioms sortTimes_head_isMin
#print axioms sortTimes_second_isMin
#print axioms sortTimes_head?
#print axioms C16_storeNameplateUsage
#print axioms C16_storeMailboxUsage
#print axioms C16_logClientVersion
#print axioms C16_paths_blurred

end C16
end Wormhole
