/-
  C02 — "Each added message reaches every subscribed connection exactly once".

  * `C02_fanout_exact`   the exact output of an accepted `add`: ack, one commit, and one `message`
                         frame per connection of `listeners a m`, in connection order;
                         `C02_exactly_once`, `C02_no_other`, `C02_unmodified` are read off it;
  * `C02_listeners_*`    step-local facts: who enters `listeners a m` (`open` answered ok: exactly
                         the opener), who leaves (own accepted `close`; `drop`; restart / crash:
                         everybody; deletion of the mailbox by a `close`: everybody on it), and that
                         NO other step -- in particular no sweep and no `bind` -- changes any
                         `listeners a m`; a sweep never deletes a mailbox that has a listener;
  * `subsLog`, `C02_subscribers`   `listeners a m` as a ghost over the history.
  Everything is for every state satisfying `GSys.GInv`: any number of connections, apps, mailboxes.
-/
import Wormhole.Inv.Main
import Wormhole.Inv.MsgConns
import Wormhole.Props.C01

namespace Wormhole
open Sys

/-! ## the fan-out of an accepted `add` -/

/-- **C02 (fan-out)**: a non-rejected `add` by connection `c` (bound to `(a, σ)`, holding the handle
    of `m`) outputs exactly: the ack, the commit of the stored row, and then one
    `message σ phase body t id` frame per connection of `listeners a m` -- in connection order,
    each sent with nothing uncommitted.  Connection ids are unique, so every listener is listed
    once; the sender is among them. -/
theorem C02_fanout_exact {g : GSys} (hI : g.GInv) {c : Nat} {x : Conn} {a σ m : String} (t : Time)
    (id ph bd : Val) (hx : g.sys.findConn c = some x) (ha : x.app = some a) (hσ : x.side = some σ)
    (hm : x.mailbox = some m) :
    (g.step (.recv c t id (.add (some ph) (some bd)))).sys.out =
      [.frame c (.ack id) true, .commit .chan] ++
        (g.sys.listeners a m).map (fun c' => Event.frame c' (.message σ ph bd t id) true) ∧
    (g.sys.listeners a m).Pairwise (· ≠ ·) ∧
    c ∈ g.sys.listeners a m := by
  have hs0 : ({ g.sys with out := [], snaps := [] } : Sys).Synced := hI.synced
  obtain ⟨_, _, _, _, _, _, _, ho⟩ := Sys.onMessage_add_spec (t := t) (id := id) (ph := ph) (bd := bd) hs0
    (show ({ g.sys with out := [], snaps := [] } : Sys).findConn c = some x from hx) ha hm
  refine ⟨?_, listeners_pairwise hI.conn.ids a m, ?_⟩
  · have e : (g.step (.recv c t id (.add (some ph) (some bd)))).sys.out = _ := ho
    rw [e, hσ]
    rfl
  · obtain ⟨hl, _⟩ := hI.conn.handle x (findConn_mem hx) m hm
    exact mem_listeners_iff.2 ⟨x, findConn_mem hx, findConn_id hx, isL_iff.2 ⟨hl, ha, hm⟩⟩

/-- **exactly once**: the frame for a subscriber occurs exactly once in the output -/
theorem C02_exactly_once {g : GSys} (hI : g.GInv) {c : Nat} {x : Conn} {a σ m : String} (t : Time)
    (id ph bd : Val) (hx : g.sys.findConn c = some x) (ha : x.app = some a) (hσ : x.side = some σ)
    (hm : x.mailbox = some m) {c' : Nat} (hc' : c' ∈ g.sys.listeners a m) :
    (g.step (.recv c t id (.add (some ph) (some bd)))).sys.out.count
      (Event.frame c' (.message σ ph bd t id) true) = 1 := by
  obtain ⟨ho, hp, _⟩ := C02_fanout_exact hI t id ph bd hx ha hσ hm
  rw [ho, List.count_append]
  have h1 : List.count (Event.frame c' (.message σ ph bd t id) true) [.frame c (.ack id) true, .commit .chan] = 0 := by
    rw [List.count_eq_zero]; simp
  have hnd : ((g.sys.listeners a m).map (fun c' => Event.frame c' (.message σ ph bd t id) true)).Nodup := by
    unfold List.Nodup
    rw [List.pairwise_map]
    exact hp.imp (fun h he => h (by injection he))
  rw [h1, hnd.count, if_pos (List.mem_map.2 ⟨c', hc', rfl⟩)]

/-- **nobody else, nothing else**: every `message` frame of the step goes to a subscriber of
    `(a, m)` and is the one frame described in `C02_unmodified` -/
theorem C02_no_other {g : GSys} (hI : g.GInv) {c : Nat} {x : Conn} {a σ m : String} (t : Time)
    (id ph bd : Val) (hx : g.sys.findConn c = some x) (ha : x.app = some a) (hσ : x.side = some σ)
    (hm : x.mailbox = some m) {e : Event}
    (he : e ∈ (g.step (.recv c t id (.add (some ph) (some bd)))).sys.out) (hmsg : e.isMessage = true) :
    ∃ c' ∈ g.sys.listeners a m, e = .frame c' (.message σ ph bd t id) true := by
  obtain ⟨ho, _, _⟩ := C02_fanout_exact hI t id ph bd hx ha hσ hm
  rw [ho] at he
  simp only [List.mem_append, List.mem_cons, List.mem_map, List.not_mem_nil, or_false] at he
  rcases he with (rfl | rfl) | ⟨c', hc', rfl⟩
  · cases hmsg
  · cases hmsg
  · exact ⟨c', hc', rfl⟩

/-- **C02 (unmodified, stamped with the binder's side)**: every frame delivered for an accepted
    `add` carries phase, body and id EXACTLY as they stand in the command (no TEXT affinity: compare
    `C01_add_appends`, where the stored row has `toText` of them), the server time of the step, and
    as `side` the side the ADDING connection bound to.

    A `side` key inside the `add` command cannot influence this: the model's `Cmd.add` has no
    side field at all, because the decoder (harness/translate, mirroring `handle_add`, which reads
    `self._side` and never `msg["side"]`) drops it; that the code behaves like the model on
    commands carrying a spoofed `side` is checked on the implementation by the correspondence
    runner (generator profile "add carrying a spoofed side key"), not proved here. -/
theorem C02_unmodified {g : GSys} (hI : g.GInv) {c : Nat} {x : Conn} {a σ m : String} (t : Time)
    (id ph bd : Val) (hx : g.sys.findConn c = some x) (ha : x.app = some a) (hσ : x.side = some σ)
    (hm : x.mailbox = some m) {c' : Nat} {sd : String} {ph' bd' : Val} {rx : Time} {id' : Val} {b : Bool}
    (he : Event.frame c' (.message sd ph' bd' rx id') b ∈
      (g.step (.recv c t id (.add (some ph) (some bd)))).sys.out) :
    sd = σ ∧ ph' = ph ∧ bd' = bd ∧ rx = t ∧ id' = id ∧ b = true ∧ c' ∈ g.sys.listeners a m := by
  obtain ⟨c'', hc'', e⟩ := C02_no_other hI t id ph bd hx ha hσ hm he rfl
  injection e with e1 e2 e3
  injection e2 with f1 f2 f3 f4 f5
  subst e1
  exact ⟨f1, f2, f3, f4, f5, e3, hc''⟩

/-! ## who is in `listeners a m`: the step-local facts -/

theorem step_recv_sys (g : GSys) (c : Nat) (t : Time) (id : Val) (cmd : Cmd) :
    (g.step (.recv c t id cmd)).sys = ({ g.sys with out := [], snaps := [] } : Sys).onMessage c t id cmd := rfl

/-- the mailbox row of a subscription exists (the handle is dropped when the mailbox is deleted) -/
theorem listeners_present {g : GSys} (hI : g.GInv) {a m : String} {c : Nat} (hc : c ∈ g.sys.listeners a m) :
    (a, m) ∈ g.sys.db.mbKeys := by
  obtain ⟨x, hx, _, hl⟩ := mem_listeners_iff.1 hc
  rw [isL_iff] at hl
  obtain ⟨_, a', ha', r, hr, h1, h2⟩ := hI.conn.handle x hx m hl.2.2
  rw [hl.2.1] at ha'
  cases ha'
  exact Chan.mem_mbKeys.2 ⟨r, hr, h2, h1⟩

/-- a connection that holds no handle is on no subscription list -/
theorem not_listener_of_no_handle {g : GSys} (hI : g.GInv) {c : Nat} {x : Conn}
    (hx : g.sys.findConn c = some x) (hm : x.mailbox = none) (a m : String) : c ∉ g.sys.listeners a m := by
  intro hc
  obtain ⟨y, hy, hid, hl⟩ := mem_listeners_iff.1 hc
  have : y = x := Chan.eq_of_pairwise_ne (f := Conn.id) hI.conn.ids hy (findConn_mem hx)
    (hid.trans (findConn_id hx).symm)
  subst this
  rw [isL_iff, hm] at hl
  exact absurd hl.2.2 (by simp)

/-- `connect`: nobody enters or leaves -/
theorem C02_listeners_connect (g : GSys) (c : Nat) (a m : String) :
    (g.step (.connect c)).sys.listeners a m = g.sys.listeners a m := by
  show (List.filter _ (g.sys.conns ++ [({ id := c } : Conn)])).map _ = _
  rw [List.filter_append]
  simp [Sys.listeners]

/-- `drop c`: exactly `c` leaves (every list it was on) -/
theorem C02_listeners_drop (g : GSys) (c : Nat) (a m : String) :
    (g.step (.drop c)).sys.listeners a m = (g.sys.listeners a m).filter (· ≠ c) := by
  show (List.filter _ (g.sys.conns.filter (fun x => ¬ x.id = c))).map _ = _
  rw [Sys.listeners, List.filter_map, List.filter_filter, List.filter_filter]
  congr 1
  apply List.filter_congr
  intro x _
  simp [Bool.and_comm]

/-- `restart`: everybody leaves -/
theorem C02_listeners_restart (g : GSys) (t : Time) (a m : String) :
    (g.step (.restart t)).sys.listeners a m = [] := rfl

/-- a crash (at any point of any operation): everybody leaves -/
theorem C02_listeners_crash (g : GSys) (k : Nat) (op : Op) (a m : String) :
    (g.step (.crashIn k op)).sys.listeners a m = [] := by
  have : (g.step (.crashIn k op)).sys.conns = [] := by
    simp only [GSys.step, Sys.step]
    cases k with
    | zero => rfl
    | succ k => split <;> rfl
  simp [Sys.listeners, this]

/-- **a sweep changes no subscription list** (registry independence: on the repaired tree a
    subscription does not hang off an object that `prune_all_apps` may drop), whether or not it
    faults -/
theorem C02_listeners_sweep (g : GSys) (now : Time) (fault : Bool) (a m : String) :
    (g.step (.sweep now fault)).sys.listeners a m = g.sys.listeners a m :=
  listeners_congr (expire_conns _ now fault) a m

/-- **a sweep never deletes a mailbox that has a listener**: `prune` stamps every mailbox with a
    listener `updated := now`, and only rows with `updated ≤ now - expirationTicks` are old
    (`0 < Generated.expirationTicks`, by `decide` on the name); so the row `(a, m)` is still there
    (and, by `C01_frame_messages`, so are its messages) -/
theorem C02_sweep_keeps_listened {g : GSys} (hI : g.GInv) (now : Time) (fault : Bool) {a m : String}
    (hl : g.sys.listeners a m ≠ []) :
    ((g.step (.sweep now fault)).sys.db.findMailbox a m).isSome ∧
    (g.step (.sweep now fault)).sys.db.messagesOf a m = g.sys.db.messagesOf a m := by
  have hna : g.sys.addRowOf (Op.sweep now fault).plain = none := rfl
  obtain ⟨d1, hg, dead, hsh, hok⟩ := Sys.step_tr hI.synced hI.cinv.toPInv.uniqIds (.sweep now fault) hna
  obtain ⟨c, hc⟩ := List.exists_mem_of_ne_nil _ hl
  have hk := listeners_present hI hc
  obtain ⟨extra, he⟩ := hg.keys
  have hk1 : (a, m) ∈ d1.mbKeys := by rw [he]; exact List.mem_append_left _ hk
  have hnd : m ∉ dead := fun hd => hl (hok (a, m) hk1 hd)
  have hk' : (a, m) ∈ (g.step (.sweep now fault)).sys.db.mbKeys := by
    show (a, m) ∈ (g.sys.step (.sweep now fault)).db.mbKeys
    rw [hsh.keys, List.mem_filter]
    exact ⟨hk1, by simpa using hnd⟩
  have hsome := Chan.findMailbox_isSome_iff.2 hk'
  refine ⟨hsome, (C01_frame_messages hI (.sweep now fault) a m ?_).1 hsome⟩
  rintro ⟨r, hr, _⟩
  rw [hna] at hr; cases hr

/-- **every command other than `bind` / `open` / `close`** -- `ping`, `list`, `allocate`, `claim`,
    `release`, `add`, unknown or untyped objects, accepted or refused, on any connection -- changes
    no subscription list -/
theorem C02_listeners_other (g : GSys) (c : Nat) (t : Time) (id : Val) {cmd : Cmd}
    (hc : cmd.touchesSubs = false) (a m : String) :
    (g.step (.recv c t id cmd)).sys.listeners a m = g.sys.listeners a m :=
  (Sys.onMessage_keepL (s := { g.sys with out := [], snaps := [] }) hc).listeners a m

/-- a command for a connection id that does not exist changes nothing -/
theorem C02_listeners_no_conn (g : GSys) {c : Nat} (t : Time) (id : Val) (cmd : Cmd)
    (hx : g.sys.findConn c = none) (a m : String) :
    (g.step (.recv c t id cmd)).sys.listeners a m = g.sys.listeners a m := by
  have : (g.step (.recv c t id cmd)).sys = ({ g.sys with out := [], snaps := [] } : Sys) := by
    show Sys.onMessage _ c t id cmd = _
    unfold Sys.onMessage
    rw [show ({ g.sys with out := [], snaps := [] } : Sys).findConn c = none from hx]
  rw [this]; rfl

/-- **`bind` changes no subscription list** (the subscription of a connection does not depend on
    when it, or anybody else, bound) -/
theorem C02_listeners_bind {g : GSys} (hI : g.GInv) (c : Nat) (t : Time) (id : Val) (ap sd i v)
    (a m : String) :
    (g.step (.recv c t id (.bind ap sd i v))).sys.listeners a m = g.sys.listeners a m := by
  cases hx : g.sys.findConn c with
  | none => exact C02_listeners_no_conn g t id _ hx a m
  | some x =>
    rcases Sys.onMessage_bind_conns (s := { g.sys with out := [], snaps := [] }) (t := t) (id := id)
      (a := ap) (sd := sd) (i := i) (v := v) (show ({ g.sys with out := [], snaps := [] } : Sys).findConn c = some x from hx)
      with h | ⟨hxa, a', sd', h⟩
    · exact listeners_congr h a m
    · -- the record was unbound, hence held no handle, hence is on no list before or after
      have hxm : x.mailbox = none := by
        cases hm : x.mailbox with
        | none => rfl
        | some mb =>
          obtain ⟨_, a'', ha'', _⟩ := hI.conn.handle x (findConn_mem hx) mb hm
          rw [hxa] at ha''; cases ha''
      rw [step_recv_sys, listeners_of_map (s := { g.sys with out := [], snaps := [] }) _ h
        (fun y _ => by show (if y.id = c then _ else y).id = y.id; split <;> rfl) a m]
      show _ = g.sys.listeners a m
      rw [listeners_eq]
      congr 1
      apply List.filter_congr
      intro y hy
      show isL a m (if y.id = c then _ else y) = isL a m y
      split
      · rename_i hyc
        have : y = x := Chan.eq_of_pairwise_ne (f := Conn.id) hI.conn.ids hy (findConn_mem hx)
          (hyc.trans (findConn_id hx).symm)
        subst this
        simp [isL, hxm]
      · rfl

/-- **`open`: exactly the opener enters, exactly the list of the opened mailbox** -- and only when
    the command is accepted and `open_mailbox` answers ok; otherwise (refused, crowded,
    IntegrityError) no list changes -/
theorem C02_listeners_open {g : GSys} (hI : g.GInv) {c : Nat} {x : Conn} (t : Time) (id : Val)
    (mailbox : Option String) (hx : g.sys.findConn c = some x) (a m : String) (c' : Nat) :
    c' ∈ (g.step (.recv c t id (.open_ mailbox))).sys.listeners a m ↔
      c' ∈ g.sys.listeners a m ∨
      (c' = c ∧ x.app = some a ∧ mailbox = some m ∧ x.mailbox = none ∧
        g.sys.db.openRes a m (x.side.getD "") = .ok) := by
  rcases Sys.onMessage_open_conns (s := { g.sys with out := [], snaps := [] }) (t := t) (id := id)
    (mailbox := mailbox) (show ({ g.sys with out := [], snaps := [] } : Sys).findConn c = some x from hx)
    with h | ⟨a', mb, ha', hmb, hxm, hok, h⟩
  · have e : (g.step (.recv c t id (.open_ mailbox))).sys.listeners a m = g.sys.listeners a m := h.listeners a m
    rw [e]
    constructor
    · exact .inl
    · rintro (h' | ⟨rfl, h1, h2, h3, h4⟩)
      · exact h'
      · -- accepted and ok: then the opener IS a listener afterwards, but it was none before
        exfalso
        have hsp := (Sys.onMessage_open_spec (s := { g.sys with out := [], snaps := [] }) (t := t) (id := id)
          (m := m) hI.synced (show ({ g.sys with out := [], snaps := [] } : Sys).findConn c' = some x from hx)
          h1 h3 h4).2.1
        subst h2
        have hin : c' ∈ (g.step (.recv c' t id (.open_ (some m)))).sys.listeners a m := by
          rw [mem_listeners_iff]
          refine ⟨{ x with mailboxId := some m, mailbox := some m, listening := true }, ?_,
            (findConn_id hx : x.id = c'), ?_⟩
          · rw [step_recv_sys, hsp]
            exact List.mem_map.2 ⟨{ x with mailboxId := some m },
              List.mem_map.2 ⟨x, findConn_mem hx, by simp [findConn_id hx]⟩, by simp [findConn_id hx]⟩
          · simp [isL, h1]
        rw [e] at hin
        exact not_listener_of_no_handle hI hx h3 a m hin
  · -- accepted, ok
    have hcl : ∀ y ∈ g.sys.conns, y.id = c → y = x := fun y hy hyc =>
      Chan.eq_of_pairwise_ne (f := Conn.id) hI.conn.ids hy (findConn_mem hx) (hyc.trans (findConn_id hx).symm)
    have hmap : (g.step (.recv c t id (.open_ mailbox))).sys.conns = g.sys.conns.map
        (fun y => if y.id = c then { y with mailboxId := some mb, mailbox := some mb, listening := true } else y) := by
      show (Sys.onMessage _ c t id (.open_ mailbox)).conns = _
      rw [h]
      simp only [updL, List.map_map]
      apply List.map_congr_left
      intro y _
      by_cases hy : y.id = c <;> simp [hy]
    rw [listeners_of_map (s := g.sys) _ hmap (fun y _ => by split <;> rfl) a m, mem_listeners_iff]
    simp only [List.mem_map, List.mem_filter]
    constructor
    · rintro ⟨y, ⟨hy, hl⟩, rfl⟩
      by_cases hyc : y.id = c
      · right
        have := hcl y hy hyc
        subst this
        rw [if_pos hyc, isL_iff] at hl
        simp only at hl
        obtain ⟨_, h1, h2⟩ := hl
        cases h2
        rw [ha'] at h1; cases h1
        exact ⟨hyc, ha', hmb, hxm, hok⟩
      · left
        rw [if_neg hyc] at hl
        exact ⟨y, hy, rfl, hl⟩
    · rintro (⟨y, hy, rfl, hl⟩ | ⟨rfl, h1, h2, _, _⟩)
      · have hyc : y.id ≠ c := by
          intro hyc
          have := hcl y hy hyc
          subst this
          rw [isL_iff, hxm] at hl
          exact absurd hl.2.2 (by simp)
        exact ⟨y, ⟨hy, by rw [if_neg hyc]; exact hl⟩, rfl⟩
      · rw [hmb] at h2; cases h2
        rw [ha'] at h1; cases h1
        refine ⟨x, ⟨findConn_mem hx, ?_⟩, findConn_id hx⟩
        rw [if_pos (findConn_id hx)]
        simp [isL, ha']

/-- **`close`**: an accepted `close` by `c` removes `c` from the list it was on; if it deletes the
    mailbox (last opened side), everybody leaves that mailbox's list (the stop callbacks), and no
    row with that id is left; nobody else is affected.  A refused `close` changes nothing. -/
theorem C02_listeners_close {g : GSys} (hI : g.GInv) {c : Nat} {x : Conn} (t : Time) (id : Val)
    (mb : Option String) (mood : Option String) (hx : g.sys.findConn c = some x) :
    (rejectText x (.close mb mood) ≠ none ∧
      ∀ a m, (g.step (.recv c t id (.close mb mood))).sys.listeners a m = g.sys.listeners a m) ∨
    (rejectText x (.close mb mood) = none ∧ ∃ (ax : String) (stopped : Bool) (h : String), x.app = some ax ∧
      (∀ a m c', c' ∈ (g.step (.recv c t id (.close mb mood))).sys.listeners a m ↔
        c' ∈ g.sys.listeners a m ∧ c' ≠ c ∧ ¬ (stopped = true ∧ a = ax ∧ m = h)) ∧
      (stopped = true → ∀ k ∈ (g.step (.recv c t id (.close mb mood))).sys.db.mbKeys, ¬ k.2 = h)) := by
  rcases Sys.onMessage_close_conns (s := { g.sys with out := [], snaps := [] }) (t := t) (id := id)
    (m := mb) (mood := mood) (show ({ g.sys with out := [], snaps := [] } : Sys).findConn c = some x from hx)
    with ⟨hrej | hxm, hk⟩ | ⟨hacc, ax, stopped, h, hax, hsh, hst⟩
  · exact .inl ⟨hrej, fun a m => hk.listeners a m⟩
  · -- accepted but answered crowded / IntegrityError: `c` held no handle, nothing changes
    cases hr : rejectText x (.close mb mood) with
    | some text => exact .inl ⟨by simp, fun a m => hk.listeners a m⟩
    | none =>
      obtain ⟨⟨ax, hax⟩, _⟩ := Sys.needBind_eq_none hr
      refine .inr ⟨rfl, ax, false, "", hax, ?_, by simp⟩
      intro a m c'
      have e : (g.step (.recv c t id (.close mb mood))).sys.listeners a m = g.sys.listeners a m := hk.listeners a m
      rw [e]
      constructor
      · intro hc'
        refine ⟨hc', ?_, by simp⟩
        rintro rfl
        exact not_listener_of_no_handle hI hx hxm a m hc'
      · exact fun h => h.1
  · exact .inr ⟨hacc, ax, stopped, h, hax, fun a m c' => hsh.listeners a m c', hst⟩

/-! ## `listeners a m` as a ghost over the history -/

/-- what an operation does to the subscriber set of `(a, m)`, read off the operation and the
    state it is applied to -/
inductive SubChange where
  | keep
  | enter (c : Nat)
  | leave (c : Nat)
  | reset
  deriving DecidableEq, Repr

/-- * `enter c`: a non-rejected `open` of `m` by `c` (bound to app `a`, no handle yet) that
      `open_mailbox` answers ok;
    * `leave c`: `c`'s own accepted `close`, or `c`'s `drop`;
    * `reset`: a restart or a crash;
    * `keep`: everything else -- sweeps, binds, every other command of every connection. -/
def subChange (s : Sys) (a m : String) : Op → SubChange
  | .crashIn _ _ => .reset
  | .restart _ => .reset
  | .drop c => .leave c
  | .recv c _ _ (.open_ (some m')) =>
    match s.findConn c with
    | some x =>
      if x.app = some a ∧ m' = m ∧ x.mailbox = none ∧ s.db.openRes a m (x.side.getD "") = .ok then .enter c
      else .keep
    | none => .keep
  | .recv c _ _ (.close mb mood) =>
    match s.findConn c with
    | some x => if rejectText x (.close mb mood) = none then .leave c else .keep
    | none => .keep
  | _ => .keep

/-- one step of the ghost subscriber set of `(a, m)`: emptied whenever the mailbox row `(a, m)` is
    absent after the step (deletion runs the stop callbacks) -/
def subsStep (a m : String) (s : Sys) (op : Op) (subs : List Nat) : List Nat :=
  if (s.step op).db.findMailbox a m = none then []
  else match subChange s a m op with
    | .keep => subs
    | .enter c => subs ++ [c]
    | .leave c => subs.filter (· ≠ c)
    | .reset => []

def subsRun (a m : String) : Sys → List Op → List Nat → List Nat
  | _, [], l => l
  | s, op :: rest, l => subsRun a m (s.step op) rest (subsStep a m s op l)

/-- the ghost subscriber set of `(a, m)` after the history `ops` from the initial state: the
    connections whose last accepted-and-ok `open` of `m` under app `a` has not been followed by
    their own accepted `close`, their `drop`, a restart / crash, or a step after which the mailbox
    row `(a, m)` was absent -/
def subsLog (a m : String) (cfg : Cfg) (rb : Time) (ops : List Op) : List Nat :=
  subsRun a m (GSys.init cfg rb).sys ops []

/-- one step keeps "`listeners a m` = ghost" (as sets; `listeners` is in connection order) -/
theorem subsStep_inv {g : GSys} (hI : g.GInv) (op : Op) (hI' : (g.step op).GInv) (a m : String)
    (subs : List Nat) (h : ∀ c, c ∈ g.sys.listeners a m ↔ c ∈ subs) :
    ∀ c, c ∈ (g.step op).sys.listeners a m ↔ c ∈ subsStep a m g.sys op subs := by
  intro c'
  unfold subsStep
  split
  · rename_i habs
    constructor
    · intro hc
      have := listeners_present hI' hc
      rw [Chan.findMailbox_eq_none_iff] at habs
      exact absurd this habs
    · intro hc; simp at hc
  · rename_i hpres
    have hkey : (a, m) ∈ (g.step op).sys.db.mbKeys := by
      apply Classical.byContradiction
      intro hn
      exact hpres (Chan.findMailbox_eq_none_iff.2 hn)
    cases op with
    | connect c => simp only [subChange]; rw [C02_listeners_connect]; exact h c'
    | drop c =>
      simp only [subChange]
      rw [C02_listeners_drop, List.mem_filter, List.mem_filter, h c']
    | restart t => simp only [subChange]; rw [C02_listeners_restart]
    | crashIn k op' => simp only [subChange]; rw [C02_listeners_crash]
    | sweep now fault => simp only [subChange]; rw [C02_listeners_sweep]; exact h c'
    | recv c t id cmd =>
      cases hx : g.sys.findConn c with
      | none =>
        rw [C02_listeners_no_conn g t id cmd hx]
        have : subChange g.sys a m (.recv c t id cmd) = .keep := by
          unfold subChange
          split <;> simp_all
        rw [this]; exact h c'
      | some x =>
        by_cases hts : cmd.touchesSubs = false
        · rw [C02_listeners_other g c t id hts]
          have : subChange g.sys a m (.recv c t id cmd) = .keep := by
            unfold subChange
            split <;> simp_all [Cmd.touchesSubs]
          rw [this]; exact h c'
        · cases cmd with
          | bind ap sd i v =>
            rw [C02_listeners_bind hI]
            simp only [subChange]; exact h c'
          | open_ mailbox =>
            rw [C02_listeners_open hI t id mailbox hx a m c']
            cases mailbox with
            | none =>
              simp only [subChange]
              rw [h c']
              constructor
              · rintro (h' | ⟨_, _, h2, _⟩)
                · exact h'
                · cases h2
              · exact .inl
            | some m' =>
              by_cases hc : x.app = some a ∧ m' = m ∧ x.mailbox = none ∧
                  g.sys.db.openRes a m (x.side.getD "") = .ok
              · simp only [subChange, hx, if_pos hc]
                rw [List.mem_append, h c', List.mem_singleton]
                constructor
                · rintro (h' | ⟨h1, _⟩)
                  · exact .inl h'
                  · exact .inr h1
                · rintro (h' | h1)
                  · exact .inl h'
                  · exact .inr ⟨h1, hc.1, by rw [hc.2.1], hc.2.2.1, hc.2.2.2⟩
              · simp only [subChange, hx, if_neg hc]
                rw [h c']
                constructor
                · rintro (h' | ⟨_, h1, h2, h3, h4⟩)
                  · exact h'
                  · cases h2
                    exact absurd ⟨h1, rfl, h3, h4⟩ hc
                · exact .inl
          | close mb mood =>
            simp only [subChange, hx]
            rcases C02_listeners_close hI t id mb mood hx with ⟨hrej, hsame⟩ | ⟨hacc, ax, stopped, hh, hax, hl, hst⟩
            · rw [if_neg hrej, hsame a m]; exact h c'
            · rw [if_pos hacc, hl a m c', List.mem_filter, h c']
              constructor
              · rintro ⟨h1, h2, _⟩; exact ⟨h1, by simpa using h2⟩
              · rintro ⟨h1, h2⟩
                refine ⟨h1, by simpa using h2, ?_⟩
                rintro ⟨hs, rfl, rfl⟩
                exact hst hs (a, m) hkey rfl
          | _ => simp [Cmd.touchesSubs] at hts

/-- **C02 (subscribers)**: after every well-formed history, `listeners a m` is exactly the ghost
    subscriber set.  `hreach` is the lead's `GSys.Reach.ginv`. -/
theorem C02_subscribers_invariant (hreach : ∀ g : GSys, g.Reach → g.GInv) (a m : String) (ops : List Op) :
    ∀ {g : GSys}, g.Reach → g.WF ops → ∀ (subs : List Nat),
      (∀ c, c ∈ g.sys.listeners a m ↔ c ∈ subs) →
      ∀ c, c ∈ (g.run ops).sys.listeners a m ↔ c ∈ subsRun a m g.sys ops subs := by
  induction ops with
  | nil => intro g _ _ subs h; exact h
  | cons op rest ih =>
    intro g hg hwf subs h
    have hg' : (g.step op).Reach := .step op hg hwf.1
    exact ih hg' hwf.2 _ (subsStep_inv (hreach g hg) op (hreach _ hg') a m subs h)

theorem C02_subscribers (hreach : ∀ g : GSys, g.Reach → g.GInv) (cfg : Cfg) (rb : Time) (ops : List Op)
    (hwf : (GSys.init cfg rb).WF ops) (a m : String) (c : Nat) :
    c ∈ ((GSys.init cfg rb).run ops).sys.listeners a m ↔ c ∈ subsLog a m cfg rb ops :=
  C02_subscribers_invariant hreach a m ops (.init cfg rb) hwf [] (by simp [GSys.init, Sys.listeners]) c

/-- **C02, history form**: after any well-formed history, an accepted `add` on `(a, m)` is delivered
    -- as the one frame `message σ phase body t id`, with nothing uncommitted -- to exactly the ghost
    subscribers of `(a, m)`, each exactly once, and no other `message` frame is sent to anybody -/
theorem C02_delivery (hreach : ∀ g : GSys, g.Reach → g.GInv) (cfg : Cfg) (rb : Time) (ops : List Op)
    (hwf : (GSys.init cfg rb).WF ops) {c : Nat} {x : Conn} {a σ m : String} (t : Time) (id ph bd : Val)
    (hx : ((GSys.init cfg rb).run ops).sys.findConn c = some x) (ha : x.app = some a)
    (hσ : x.side = some σ) (hm : x.mailbox = some m) :
    let out := (((GSys.init cfg rb).run ops).step (.recv c t id (.add (some ph) (some bd)))).sys.out
    (∀ c', c' ∈ subsLog a m cfg rb ops → out.count (Event.frame c' (.message σ ph bd t id) true) = 1) ∧
    (∀ e ∈ out, e.isMessage = true → ∃ c' ∈ subsLog a m cfg rb ops, e = .frame c' (.message σ ph bd t id) true) ∧
    c ∈ subsLog a m cfg rb ops := by
  have hI := hreach _ (GSys.reach_run (.init cfg rb) ops hwf)
  have hsub := C02_subscribers hreach cfg rb ops hwf a m
  refine ⟨?_, ?_, ?_⟩
  · intro c' hc'
    exact C02_exactly_once hI t id ph bd hx ha hσ hm ((hsub c').2 hc')
  · intro e he hmsg
    obtain ⟨c', hc', rfl⟩ := C02_no_other hI t id ph bd hx ha hσ hm he hmsg
    exact ⟨c', (hsub c').1 hc', rfl⟩
  · exact (hsub c).1 (C02_fanout_exact hI t id ph bd hx ha hσ hm).2.2

/-! ## non-vacuity (the state of `C01Ex`: three subscribers of ("A","mA") of which connection 1 is
    the sender, one subscriber of the identical ("B","mB"), one bound connection without
    subscription, one unbound connection) -/

namespace C02Ex
open C01Ex

example : g.sys.listeners "A" "mA" = [1, 2, 3] ∧ g.sys.listeners "B" "mB" = [4] := by decide

example := C02_fanout_exact ginv (c := 1) (x := x1) (a := "A") (σ := "s1") (m := "mA") 20 (.int 7)
  (.str "ph") (.str "bd") (by decide) rfl rfl rfl

/-- the sender and the two other subscribers get the frame (numeric id NOT coerced), nobody else -/
example : (g.step (.recv 1 20 (.int 7) (.add (some (.str "ph")) (some (.str "bd"))))).sys.out =
    [.frame 1 (.ack (.int 7)) true, .commit .chan,
     .frame 1 (.message "s1" (.str "ph") (.str "bd") 20 (.int 7)) true,
     .frame 2 (.message "s1" (.str "ph") (.str "bd") 20 (.int 7)) true,
     .frame 3 (.message "s1" (.str "ph") (.str "bd") 20 (.int 7)) true] := by decide +kernel

/-- while the stored row has the id coerced to text (C01) -/
example : (g.step (.recv 1 20 (.int 7) (.add (some (.str "ph")) (some (.str "bd"))))).sys.db.messages.getLast? =
    some ⟨"A", "mA", "s1", .str "ph", .str "bd", 20, .str "7"⟩ := by decide +kernel

example := C02_sweep_keeps_listened ginv 100000 false (a := "B") (m := "mB") (by decide)

/-- connection 4 closes ("B","mB") (last opened side): the mailbox is deleted, its list is empty,
    the list of ("A","mA") is untouched -/
example : (g.step (.recv 4 20 .null (.close none none))).sys.listeners "B" "mB" = [] ∧
    (g.step (.recv 4 20 .null (.close none none))).sys.listeners "A" "mA" = [1, 2, 3] := by decide +kernel

/-- connection 2 closes ("A","mA"): side "s1" is still open, 1 and 3 stay subscribed -/
example : (g.step (.recv 2 20 .null (.close none none))).sys.listeners "A" "mA" = [1, 3] := by decide +kernel

/-- connection 5 opens "mA": it enters, the others stay -/
example : ∀ c', c' ∈ (g.step (.recv 5 20 .null (.open_ (some "mA")))).sys.listeners "A" "mA" ↔
    c' ∈ [1, 2, 3] ∨ c' = 5 := by
  intro c'
  rw [C02_listeners_open ginv (c := 5) (x := x5) 20 .null (some "mA") (by decide) "A" "mA" c']
  rw [show g.sys.listeners "A" "mA" = [1, 2, 3] by decide]
  constructor
  · rintro (h | ⟨h, _⟩)
    · exact .inl h
    · exact .inr h
  · rintro (h | h)
    · exact .inl h
    · exact .inr ⟨h, rfl, rfl, rfl, by decide⟩

/-- the ghost over a history from the initial state: 1 and 2 subscribe, a sweep runs, 1 closes -/
def hist : List Op :=
  [.connect 1, .recv 1 1 .null (.bind (some "A") (some "s1") none none),
   .recv 1 2 .null (.open_ (some "m")),
   .connect 2, .recv 2 3 .null (.bind (some "A") (some "s2") none none),
   .recv 2 4 .null (.open_ (some "m")), .sweep 9000 false,
   .recv 1 9001 .null (.close none none)]

example : subsLog "A" "m" {} 0 (hist.take 7) = [1, 2] ∧ subsLog "A" "m" {} 0 hist = [2] := by decide +kernel

end C02Ex

/-! ## the history theorems with the lead's `GSys.Reach.ginv` plugged in -/

theorem C02_subscribers' (cfg : Cfg) (rb : Time) (ops : List Op) (hwf : (GSys.init cfg rb).WF ops)
    (a m : String) (c : Nat) :
    c ∈ ((GSys.init cfg rb).run ops).sys.listeners a m ↔ c ∈ subsLog a m cfg rb ops :=
  C02_subscribers (fun _ h => h.ginv) cfg rb ops hwf a m c

#print axioms C02_fanout_exact
#print axioms C02_exactly_once
#print axioms C02_no_other
#print axioms C02_unmodified
#print axioms C02_listeners_connect
#print axioms C02_listeners_drop
#print axioms C02_listeners_restart
#print axioms C02_listeners_crash
#print axioms C02_listeners_sweep
#print axioms C02_sweep_keeps_listened
#print axioms C02_listeners_other
#print axioms C02_listeners_bind
#print axioms C02_listeners_open
#print axioms C02_listeners_close
#print axioms C02_subscribers_invariant
#print axioms C02_subscribers
#print axioms C02_delivery
#print axioms C02_subscribers'

end Wormhole
