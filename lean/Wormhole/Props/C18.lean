/-
  C18 — listing and usage options change nothing but what they advertise.

  (The first half of the property, what `list` answers, is `C18_list_answer` in Props/C17.lean.)

  This file: `C18_config_independent`, a simulation between two runs of the same history under
  two configurations.  The relation between the two states BETWEEN operations is `CfgSim`:

      same channel database as seen by the process (`db`: five tables and the AUTOINCREMENT
      counter), same committed channel database (`disk`), same connection records (`conns`),
      same welcome text, nothing uncommitted in either run, nameplate tables in order (`NpOk`).

  NOTHING is assumed about `cfg.allowList`, `cfg.usage`, `cfg.blur`, about the contents of the
  two usage databases (beyond `udb = udisk`, i.e. nothing uncommitted) or about `rebooted`.
  `cfg.welcome` must agree: the `welcome` frame carries it, and the property compares runs that
  differ in {listing, usage database, blur} only.

  Events are compared after `eraseCfg` (Inv/SimDefs.lean), which
    (a) drops `Event.commit .usage` (effective commits of the usage database);
    (b) replaces the payload of a `nameplates` frame by `[]` — the ONE answer the listing
        option may change; the frame itself, its position, its addressee and its flag stay;
    (c) keeps everything else: every other frame (with addressee, content and `synced` flag),
        every channel commit, every `internal` event (exception class included), every `fired`.
  The `synced` flags can be kept because both runs are `Synced` between operations, hence
  (C09, `Sys.Ok`) every frame of either run is sent with the flag `true`.
  This is stronger than DESIGN.md §6 C18 ("traces with `nameplates` frames erased").

  Theorems (all for ALL states in the relation, ALL operations other than `crashIn`, ALL
  configurations):
  * `C18_config_independent_step`   one operation: relation again, erased outputs equal;
  * `C18_config_independent_run`    a history from related states;
  * `C18_config_independent`        from the initial states of two configurations;
  * `C18_config_independent_prefix` ... after every prefix of the history.

  Crashes: `crashIn k op` is NOT covered, and cannot be in this form.  `k` counts the effective
  commits of `op` on BOTH databases, so with a usage database the k-th commit is a different
  point of the operation than without one: the two runs of `crashIn k op` are two different
  experiments.  `crash_not_comparable` below exhibits a `close` for which `crashIn 2` leaves
  the mailbox row in place with a usage database and deleted without one.  (What does hold for
  crashes is the one-run statement C10: every snapshot satisfies the commit-point invariant.)

  How it is proved: the generic walk of Inv/SimCore.lean + Inv/SimWs.lean (every function of
  Core.lean and Ws.lean preserves any relation closed under the channel primitives and the
  usage blocks) instantiated with `Sys.CfgRel` (Inv/SimCfg.lean).  `cfg.allowList` is read in
  `handleList` only; `cfg.usage`, `cfg.blur`, `udb` feed usage writes, usage commits and the
  `IndexError` of `_summarize_nameplate_usage`, which `NpOk` rules out in both runs.
-/
import Wormhole.Inv.SimCfg

namespace Wormhole
open Sys

/-- the relation between the two runs, between operations -/
structure CfgSim (s₁ s₂ : Sys) : Prop where
  chan : ChanEq s₁ s₂
  welcome : s₁.cfg.welcome = s₂.cfg.welcome
  synced₁ : s₁.Synced
  synced₂ : s₂.Synced
  np : s₁.db.NpOk

/-- **C18, one operation.**  For all states related by `CfgSim` (arbitrary `allowList`, `usage`,
    `blur`, usage databases, `rebooted` on both sides) and every operation other than a crash:
    the states after the operation are related again, and the events of the step are equal
    after `eraseCfg`. -/
theorem C18_config_independent_step {s₁ s₂ : Sys} (h : CfgSim s₁ s₂) (op : Op) (hop : op.isCrash = false) :
    CfgSim (s₁.step op) (s₂.step op) ∧
      (s₁.step op).out.filterMap eraseCfg = (s₂.step op).out.filterMap eraseCfg := by
  rw [step_eq_of_not_crash s₁ hop, step_eq_of_not_crash s₂ hop]
  have hn2 : s₂.db.NpOk := by rw [← h.chan.1]; exact h.np
  have w : W CfgRel ({ s₁ with out := [], snaps := [] } : Sys) ({ s₂ with out := [], snaps := [] } : Sys) :=
    ⟨⟨h.chan, h.welcome, rfl⟩, Ok.clear h.synced₁ h.np, Ok.clear h.synced₂ hn2⟩
  have w' := w.stepPlain_cfg op
  exact ⟨⟨w'.rel.chan, w'.rel.welcome, w'.oka.synced, w'.okb.synced, w'.oka.np⟩, w'.rel.out⟩

/-- **C18, histories from related states.** -/
theorem C18_config_independent_run (ops : List Op) (hops : ∀ op ∈ ops, op.isCrash = false) :
    ∀ {s₁ s₂ : Sys}, CfgSim s₁ s₂ →
      CfgSim (Sys.run s₁ ops).1 (Sys.run s₂ ops).1 ∧
        (Sys.run s₁ ops).2.filterMap eraseCfg = (Sys.run s₂ ops).2.filterMap eraseCfg := by
  induction ops with
  | nil => intro s₁ s₂ h; exact ⟨h, rfl⟩
  | cons op rest ih =>
    intro s₁ s₂ h
    obtain ⟨h1, o1⟩ := C18_config_independent_step h op (hops op (by simp))
    obtain ⟨h2, o2⟩ := ih (fun o ho => hops o (by simp [ho])) h1
    simp only [Sys.run]
    exact ⟨h2, by rw [List.filterMap_append, List.filterMap_append, o1, o2]⟩

/-- the initial states of two configurations with the same welcome text are related, whatever
    the start times -/
theorem cfgSim_init (cfg₁ cfg₂ : Cfg) (hw : cfg₁.welcome = cfg₂.welcome) (rb₁ rb₂ : Time) :
    CfgSim ({ cfg := cfg₁, rebooted := rb₁ } : Sys) ({ cfg := cfg₂, rebooted := rb₂ } : Sys) :=
  ⟨⟨rfl, rfl, rfl⟩, hw, ⟨rfl, rfl⟩, ⟨rfl, rfl⟩,
    ⟨⟨by intro n hn; simp at hn, by intro r hr; simp at hr⟩, List.Pairwise.nil, by intro n hn; simp at hn⟩⟩

/-- **C18 (second half).**  For every crash-free history and every two configurations (listing
    allowed or not, usage database or not, any blur interval; same welcome text), started at
    any two times: the traces are equal after `eraseCfg`, and the channel database (five tables
    and the id counter), its committed copy and the connection records are equal at the end. -/
theorem C18_config_independent (cfg₁ cfg₂ : Cfg) (hw : cfg₁.welcome = cfg₂.welcome) (rb₁ rb₂ : Time)
    (ops : List Op) (hops : ∀ op ∈ ops, op.isCrash = false) :
    (Sys.run ({ cfg := cfg₁, rebooted := rb₁ } : Sys) ops).2.filterMap eraseCfg =
      (Sys.run ({ cfg := cfg₂, rebooted := rb₂ } : Sys) ops).2.filterMap eraseCfg ∧
    (Sys.run ({ cfg := cfg₁, rebooted := rb₁ } : Sys) ops).1.db =
      (Sys.run ({ cfg := cfg₂, rebooted := rb₂ } : Sys) ops).1.db ∧
    (Sys.run ({ cfg := cfg₁, rebooted := rb₁ } : Sys) ops).1.disk =
      (Sys.run ({ cfg := cfg₂, rebooted := rb₂ } : Sys) ops).1.disk ∧
    (Sys.run ({ cfg := cfg₁, rebooted := rb₁ } : Sys) ops).1.conns =
      (Sys.run ({ cfg := cfg₂, rebooted := rb₂ } : Sys) ops).1.conns := by
  obtain ⟨h, o⟩ := C18_config_independent_run ops hops (cfgSim_init cfg₁ cfg₂ hw rb₁ rb₂)
  exact ⟨o, h.chan.1, h.chan.2.1, h.chan.2.2⟩

/-- ... and the same after every prefix of the history ("after every step"). -/
theorem C18_config_independent_prefix (cfg₁ cfg₂ : Cfg) (hw : cfg₁.welcome = cfg₂.welcome) (rb₁ rb₂ : Time)
    (ops : List Op) (hops : ∀ op ∈ ops, op.isCrash = false) (n : Nat) :
    (Sys.run ({ cfg := cfg₁, rebooted := rb₁ } : Sys) (ops.take n)).2.filterMap eraseCfg =
      (Sys.run ({ cfg := cfg₂, rebooted := rb₂ } : Sys) (ops.take n)).2.filterMap eraseCfg ∧
    (Sys.run ({ cfg := cfg₁, rebooted := rb₁ } : Sys) (ops.take n)).1.db =
      (Sys.run ({ cfg := cfg₂, rebooted := rb₂ } : Sys) (ops.take n)).1.db :=
  let h := C18_config_independent cfg₁ cfg₂ hw rb₁ rb₂ (ops.take n)
    (fun op ho => hops op (List.mem_of_mem_take ho))
  ⟨h.1, h.2.1⟩

/-! ### what `eraseCfg` keeps -/

/-- every frame other than a `nameplates` answer survives `eraseCfg` unchanged -/
theorem eraseCfg_frame (c : Nat) (f : Frame) (b : Bool) (hf : ∀ ids, f ≠ .nameplates ids) :
    eraseCfg (.frame c f b) = some (.frame c f b) := by
  cases f <;> first | rfl | exact absurd rfl (hf _)

theorem eraseCfg_nameplates (c : Nat) (ids : List String) (b : Bool) :
    eraseCfg (.frame c (.nameplates ids) b) = some (.frame c (.nameplates []) b) := rfl

theorem eraseCfg_commit_chan : eraseCfg (.commit .chan) = some (.commit .chan) := rfl
theorem eraseCfg_commit_usage : eraseCfg (.commit .usage) = none := rfl
theorem eraseCfg_internal (c : Option Nat) (cls : String) : eraseCfg (.internal c cls) = some (.internal c cls) := rfl
theorem eraseCfg_fired (now old : Time) : eraseCfg (.fired now old) = some (.fired now old) := rfl

/-! ### Non-vacuity -/

namespace C18Example

/-- connect, bind, claim (new nameplate "4" with mailbox "mb1"), list, open, close -/
def hist : List Op :=
  [ .connect 1,
    .recv 1 10 (.int 1) (.bind (some "app") (some "s1") (some "impl") (some "v")),
    .recv 1 11 (.int 2) (.claim (some "4") "mb1"),
    .recv 1 12 (.int 3) .list,
    .recv 1 13 (.int 4) (.open_ (some "mb1")),
    .recv 1 14 (.int 5) (.close (some "mb1") (some "happy")) ]

def cfgs : List Cfg :=
  [ { allowList := true,  usage := false },
    { allowList := false, usage := false },
    { allowList := true,  usage := true, blur := some 3600 },
    { allowList := false, usage := true, blur := some 7 } ]

def trace (c : Cfg) : List Event := (Sys.run ({ cfg := c, rebooted := 0 } : Sys) hist).2
def finalDb (c : Cfg) : Chan := (Sys.run ({ cfg := c, rebooted := 0 } : Sys) hist).1.db

/-- a non-trivial instance of `CfgSim` (the hypothesis of `C18_config_independent_step`): a live
    nameplate and a bound connection; the two sides differ in listing, usage, blur, the usage
    database and the start time -/
def exDb : Chan :=
  { nameplates := [⟨1, "app", "4", "mb1"⟩], npSides := [⟨1, true, "s1", 11⟩],
    mailboxes := [⟨"app", "mb1", 11, true⟩], mbSides := [⟨"mb1", true, "s1", 11, none⟩], nextNp := 2 }

def exConns : List Conn := [{ id := 1, app := some "app", side := some "s1", didClaim := true, nameplateId := some "4" }]

example : CfgSim
    { cfg := { allowList := true, usage := true, blur := some 60 }, db := exDb, disk := exDb,
      udb := { clients := [⟨"app", "s1", 0, none, none⟩] }, udisk := { clients := [⟨"app", "s1", 0, none, none⟩] },
      conns := exConns, rebooted := 5 }
    { cfg := { allowList := false }, db := exDb, disk := exDb, conns := exConns, rebooted := 9 } :=
  ⟨⟨rfl, rfl, rfl⟩, rfl, ⟨rfl, rfl⟩, ⟨rfl, rfl⟩,
    ⟨⟨by decide, by decide⟩, by unfold Chan.NpIdsUnique; decide, by unfold Chan.NpHasSide; decide⟩⟩

/-- the hypotheses of `C18_config_independent` hold for the example -/
example : (∀ c ∈ cfgs, c.welcome = "{}") ∧ ∀ op ∈ hist, op.isCrash = false := by decide

/-- evaluated, not derived from the theorem: the four erased traces are equal and so are the
    four final channel databases ... -/
example : ∀ c ∈ cfgs, (trace c).filterMap eraseCfg = (trace { allowList := true, usage := false }).filterMap eraseCfg ∧
    finalDb c = finalDb { allowList := true, usage := false } := by
  decide +kernel

/-- ... while the raw traces are pairwise different (the `nameplates` answer is `["4"]` or `[]`;
    with a usage database there are usage commits) -/
example : cfgs.Pairwise (fun c d => trace c ≠ trace d) := by decide +kernel

/-- the answer to `list` in the first and in the second configuration -/
example : Event.frame 1 (.nameplates ["4"]) true ∈ trace { allowList := true, usage := false } ∧
    Event.frame 1 (.nameplates []) true ∈ trace { allowList := false, usage := false } := by
  decide +kernel

/-- the erased trace is not trivial: 9 frames and 5 channel commits (2 usage commits erased) -/
example : ((trace { allowList := true, usage := true, blur := some 3600 }).filterMap eraseCfg).length = 14 := by
  decide +kernel

/-- `crashIn k` is not comparable between a run with and a run without a usage database:
    after connect, bind, open, the `close` commits chan, usage, chan with a usage database and
    chan, chan without; a crash after the 2nd commit leaves the mailbox row on disk in the
    first run and deleted in the second. -/
def crashHist : List Op :=
  [ .connect 1,
    .recv 1 10 (.int 1) (.bind (some "app") (some "s1") none none),
    .recv 1 11 (.int 2) (.open_ (some "mb1")),
    .crashIn 2 (.recv 1 12 (.int 3) (.close (some "mb1") (some "happy"))) ]

theorem crash_not_comparable :
    (Sys.run ({ cfg := { usage := true }, rebooted := 0 } : Sys) crashHist).1.db ≠
      (Sys.run ({ cfg := { usage := false }, rebooted := 0 } : Sys) crashHist).1.db := by
  decide +kernel

example : ((Sys.run ({ cfg := { usage := true }, rebooted := 0 } : Sys) crashHist).1.db.mailboxes.length,
    (Sys.run ({ cfg := { usage := false }, rebooted := 0 } : Sys) crashHist).1.db.mailboxes.length) = (1, 0) := by
  decide +kernel

end C18Example

end Wormhole

#print axioms Wormhole.C18_config_independent_step
#print axioms Wormhole.C18_config_independent_run
#print axioms Wormhole.C18_config_independent
#print axioms Wormhole.C18_config_independent_prefix
#print axioms Wormhole.C18Example.crash_not_comparable
