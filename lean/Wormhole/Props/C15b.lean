/-
  C15 (history half) — "Exactly one correctly classified usage record per retired nameplate/mailbox".

  Props/C15.lean proves what a record SAYS (`C15_summarizeNameplate`, `C15_summarizeMailbox`: the
  classification and the three times, for every list of side rows).  This file proves WHICH records
  are written, for every operation of every crash-free history:

  * `C15_one_record_each` (step level, from ANY state satisfying the global invariant `GInv`, with a
    usage database configured, for every non-crash operation):
      usage `nameplates` after = before ++ R, where R is, up to order (`List.Perm`), one record per
      RETIRED nameplate row, the record being `npRecord` (= `summarizeNameplate` of the `added` times
      of that nameplate's side rows, the step's time, `pruned := the operation is a sweep`, under the
      nameplate's app); the same for usage `mailboxes` and retired mailbox rows (`mbRecord` =
      `summarizeMailbox` of the mailbox's side rows, with `for_nameplate` of the row);
      `client_versions` gains exactly `newClients` (one row in an accepted `bind`, else nothing);
      the configuration is unchanged.
    RETIRED = row of the base `B = Sys.usageBase s op` whose id is absent from the channel database
    after the step (`Chan.retiredNp B db'`, `Chan.retiredMb B db'`).  `B` is the channel database
    before the step, except for an accepted `close` by side σ with mood μ on mailbox `tgt`: there
    `B = D.closeSide tgt σ μ` where `D` is the database before the step or — for a connection that
    holds no handle — the database COMMITTED by the implicit `open_mailbox` inside the step
    (`C15_base_commit_point`: `D` is the first component of one of the step's snapshots).  So the
    side rows a mailbox record is computed from are those AT THE MOMENT OF DELETION: the closing
    side's own row already carries `opened = 0` and the submitted mood (and exists, stamped with the
    step's time, even if the closing side had never opened the mailbox).
    THE SUBTLE CASE: a `close` on a mailbox id that does not exist creates the row and the closing
    side's row, commits, closes, deletes, and writes one usage record -- for an object that is in
    neither the pre- nor the post-state.  The theorem is TRUE for it because "retired" refers to `B`:
    the row is in `B` (it is in the commit point `D`) and absent afterwards
    (`C15bExample.phantom_close`).
    For nameplates the base rows are always those of the pre-state (`usageBase_nameplates`,
    `usageBase_npSides`): a record is computed from the `added` times, which no statement changes.
  * corollaries: `C15_nothing_retired_nothing_written`, `C15_tables_only_grow`,
    `C15_nameplate_record_is_summary`, `C15_mailbox_record_is_summary`, `C15_client_rows`;
  * `C15_history_counts`: over any crash-free well-formed history from a state with `GInv` the
    number of usage nameplate (mailbox) records grows by exactly the number of retirements;
    `C15_history_counts_init` from the initial state (records = retirements);
    `C15_retired_absent` / `C15_retired_nameplate_never_returns`: an object still present has no
    record -- a retired row's id is absent after the step, and (nameplate row ids are AUTOINCREMENT)
    never appears again;
  * `C15_no_usage_db_no_writes`: with `cfg.usage = false` the usage database never changes (any
    operation, crashes included).

  No theorem here carries a hypothesis "GInv is preserved": `GSys.GInv.step` (Inv/Main.lean) is used.
-/
import Wormhole.Inv.UsageSnaps
import Wormhole.Inv.Main
import Wormhole.Inv.WFDec

namespace Wormhole
open Sys

/-! ### the records are the model's summaries -/

/-- `npRecord` is the row built from `summarizeNameplate` (which succeeds: there is a side row) -/
theorem npRecord_spec (blur : Time → Time) (app : String) {added : List Time} (t : Time) (pruned : Bool)
    (h : added ≠ []) :
    ∃ u, summarizeNameplate blur added t pruned = some u ∧
      npRecord blur app added t pruned = ⟨app, u.started, u.waiting, u.total, u.result⟩ := by
  refine ⟨C15.nameplateSpec blur added t pruned, ?_, rfl⟩
  rw [C15.C15_summarizeNameplate, if_neg h]

/-- `mbRecord` is the row built from `summarizeMailbox` -/
theorem mbRecord_spec (blur : Time → Time) (app : String) (forNp : Bool) (sides : List MbSide) (t : Time)
    (pruned : Bool) :
    mbRecord blur app forNp sides t pruned =
      (let u := summarizeMailbox blur sides t pruned
       ⟨app, forNp, u.started, u.total, u.waiting, u.result⟩) := by
  unfold mbRecord
  rw [C15.C15_summarizeMailbox]

/-! ### the base -/

theorem Sys.usageBase_nameplates (s : Sys) (op : Op) : (s.usageBase op).nameplates = s.db.nameplates := by
  unfold Sys.usageBase
  split
  · split
    · rfl
    · split
      · split
        · exact closePre_nameplates _ _ _ _ _
        · rfl
      · rfl
  · rfl

theorem Sys.usageBase_npSides (s : Sys) (op : Op) : (s.usageBase op).npSides = s.db.npSides := by
  unfold Sys.usageBase
  split
  · split
    · rfl
    · split
      · split
        · exact closePre_npSides _ _ _ _ _
        · rfl
      · rfl
  · rfl

theorem Sys.usageBase_npSidesOf (s : Sys) (op : Op) (i : Nat) : (s.usageBase op).npSidesOf i = s.db.npSidesOf i := by
  unfold Chan.npSidesOf; rw [Sys.usageBase_npSides]

/-- **the base of a `close` is made from a commit point of the step** (or from the pre-state) -/
theorem C15_base_commit_point {g : GSys} (hI : g.GInv) {c : Nat} {x : Conn} (hx : g.sys.findConn c = some x)
    {m mood : Option String} (hr : rejectText x (.close m mood) = none) {app : String} (happ : x.app = some app)
    {tgt : String} (htg : x.closeTarget m = some tgt) (t : Time) (id : Val) :
    g.sys.usageBase (.recv c t id (.close m mood)) = g.sys.db ∨
    ∃ D : Chan, (D = g.sys.db ∨ ∃ p ∈ (g.sys.step (.recv c t id (.close m mood))).snaps, p.1 = D) ∧
      D.nameplates = g.sys.db.nameplates ∧ D.npSides = g.sys.db.npSides ∧
      g.sys.usageBase (.recv c t id (.close m mood)) = D.closeSide tgt (x.side.getD "") mood :=
  usageBase_commit_point hI.cinv.toPInv hI.synced hx hr happ htg t id

/-- for every operation that is not a `close` the base is the pre-state -/
theorem C15_base_of_not_close (s : Sys) {op : Op} (h : ∀ c t id m mood, op ≠ .recv c t id (.close m mood)) :
    s.usageBase op = s.db := usageBase_of_not_close s h

/-! ### the step theorem -/

theorem GSys.opTime_eq (g : GSys) (op : Op) : g.opTime op = op.time?.getD g.clock := by
  unfold GSys.opTime; cases op.time? <;> rfl

/-- **C15_one_record_each** (see the header) -/
theorem C15_one_record_each {g : GSys} (hI : g.GInv) (hu : g.sys.cfg.usage = true) (op : Op)
    (hop : op.isCrash = false) :
    UsageStep g.sys (g.step op).sys (g.sys.usageBase op) (g.opTime op) op.isSweep (g.sys.newClients op) := by
  rw [GSys.opTime_eq]
  exact step_usage hI.cinv hI.synced hu op hop g.clock

/-- a step that retires nothing writes no usage `nameplates` / `mailboxes` row -/
theorem C15_nothing_retired_nothing_written {g : GSys} (hI : g.GInv) (hu : g.sys.cfg.usage = true) (op : Op)
    (hop : op.isCrash = false) :
    ((g.sys.usageBase op).retiredNp (g.step op).sys.db = [] →
      (g.step op).sys.udb.nameplates = g.sys.udb.nameplates) ∧
    ((g.sys.usageBase op).retiredMb (g.step op).sys.db = [] →
      (g.step op).sys.udb.mailboxes = g.sys.udb.mailboxes) := by
  have h := C15_one_record_each hI hu op hop
  constructor
  · intro e
    obtain ⟨recs, e1, e2⟩ := h.nameplates
    rw [e] at e2
    have hnil : recs = [] := List.Perm.eq_nil (by simpa using e2)
    rw [e1, hnil]; simp
  · intro e
    obtain ⟨recs, e1, e2⟩ := h.mailboxes
    rw [e] at e2
    have hnil : recs = [] := List.Perm.eq_nil (by simpa using e2)
    rw [e1, hnil]; simp

/-- exactly as many new records as retired rows; no row of the three tables is removed or changed -/
theorem C15_tables_only_grow {g : GSys} (hI : g.GInv) (hu : g.sys.cfg.usage = true) (op : Op)
    (hop : op.isCrash = false) :
    g.sys.udb.nameplates <+: (g.step op).sys.udb.nameplates ∧
    g.sys.udb.mailboxes <+: (g.step op).sys.udb.mailboxes ∧
    g.sys.udb.clients <+: (g.step op).sys.udb.clients ∧
    (g.step op).sys.udb.nameplates.length =
      g.sys.udb.nameplates.length + ((g.sys.usageBase op).retiredNp (g.step op).sys.db).length ∧
    (g.step op).sys.udb.mailboxes.length =
      g.sys.udb.mailboxes.length + ((g.sys.usageBase op).retiredMb (g.step op).sys.db).length := by
  have h := C15_one_record_each hI hu op hop
  obtain ⟨r1, e1, p1⟩ := h.nameplates
  obtain ⟨r2, e2, p2⟩ := h.mailboxes
  refine ⟨⟨r1, e1.symm⟩, ⟨r2, e2.symm⟩, ⟨_, h.clients.symm⟩, ?_, ?_⟩
  · rw [e1, List.length_append, p1.length_eq, List.length_map]
  · rw [e2, List.length_append, p2.length_eq, List.length_map]

/-- every retired nameplate has its record among the new rows, and the record is the model's
    `summarizeNameplate` of the `added` times of its side rows (as in the pre-state: no statement
    changes them), the step's time and `pruned := sweep`, under the nameplate's app -/
theorem C15_nameplate_record_is_summary {g : GSys} (hI : g.GInv) (hu : g.sys.cfg.usage = true) (op : Op)
    (hop : op.isCrash = false) {n : Nameplate} (hn : n ∈ (g.sys.usageBase op).retiredNp (g.step op).sys.db) :
    n ∈ g.sys.db.nameplates ∧ (∀ n' ∈ (g.step op).sys.db.nameplates, n'.id ≠ n.id) ∧
    ∃ u, summarizeNameplate g.sys.blurTime ((g.sys.db.npSidesOf n.id).map (·.added)) (g.opTime op) op.isSweep
        = some u ∧
      ∃ recs, (g.step op).sys.udb.nameplates = g.sys.udb.nameplates ++ recs ∧
        (⟨n.app, u.started, u.waiting, u.total, u.result⟩ : UNameplate) ∈ recs := by
  have h := C15_one_record_each hI hu op hop
  obtain ⟨hnB, habs⟩ := Chan.mem_retiredNp.1 hn
  rw [Sys.usageBase_nameplates] at hnB
  have hne : (g.sys.db.npSidesOf n.id).map (·.added) ≠ [] := by
    have := npSidesOf_ne_nil hI.cinv.npHasSide hnB
    simpa using this
  obtain ⟨u, hu1, hu2⟩ := npRecord_spec g.sys.blurTime n.app (g.opTime op) op.isSweep hne
  obtain ⟨recs, e1, p1⟩ := h.nameplates
  refine ⟨hnB, habs, u, hu1, recs, e1, ?_⟩
  rw [← hu2]
  apply p1.symm.subset
  apply List.mem_map.2
  refine ⟨n, hn, ?_⟩
  unfold Chan.npRec
  rw [Sys.usageBase_npSidesOf]

/-- every retired mailbox has its record among the new rows, and the record is the model's
    `summarizeMailbox` of its side rows in the base (at the moment of deletion), the step's time and
    `pruned := sweep`, under the row's app, with the row's `for_nameplate` -/
theorem C15_mailbox_record_is_summary {g : GSys} (hI : g.GInv) (hu : g.sys.cfg.usage = true) (op : Op)
    (hop : op.isCrash = false) {m : MailboxRow} (hm : m ∈ (g.sys.usageBase op).retiredMb (g.step op).sys.db) :
    m ∈ (g.sys.usageBase op).mailboxes ∧ (∀ m' ∈ (g.step op).sys.db.mailboxes, m'.id ≠ m.id) ∧
    ∃ recs, (g.step op).sys.udb.mailboxes = g.sys.udb.mailboxes ++ recs ∧
      (let u := summarizeMailbox g.sys.blurTime ((g.sys.usageBase op).mbSidesOf m.id) (g.opTime op) op.isSweep
       (⟨m.app, m.forNp, u.started, u.total, u.waiting, u.result⟩ : UMailbox)) ∈ recs := by
  have h := C15_one_record_each hI hu op hop
  obtain ⟨hmB, habs⟩ := Chan.mem_retiredMb.1 hm
  obtain ⟨recs, e1, p1⟩ := h.mailboxes
  refine ⟨hmB, habs, recs, e1, ?_⟩
  rw [← mbRecord_spec]
  apply p1.symm.subset
  exact List.mem_map.2 ⟨m, hm, rfl⟩

/-- `client_versions`: exactly one row (blurred receive time) in an accepted `bind`, nothing otherwise -/
theorem C15_client_rows (s : Sys) (hu : s.cfg.usage = true) (op : Op) :
    (∀ c t id a sd i v x, op = .recv c t id (.bind (some a) (some sd) i v) → s.findConn c = some x →
      rejectText x (.bind (some a) (some sd) i v) = none →
      s.newClients op = [⟨a, sd, s.blurTime t, i, v⟩]) ∧
    ((∀ c t id a sd i v x, op = .recv c t id (.bind (some a) (some sd) i v) → s.findConn c = some x →
      rejectText x (.bind (some a) (some sd) i v) ≠ none) → s.newClients op = []) := by
  constructor
  · intro c t id a sd i v x e hx hr
    subst e
    simp only [newClients, cmdClients, hx, bindRows, hu, true_and]
    rw [if_pos]
    intro hb
    simp only [rejectText] at hr
    rw [if_pos (by
      rcases hb with h | ⟨h1, h2⟩
      · left; intro e; rw [e] at h; simp at h
      · right; exact ⟨by intro e; rw [e] at h1; simp at h1, h2⟩)] at hr
    cases hr
  · intro h
    cases op with
    | recv c t id cmd =>
      cases cmd with
      | bind a sd i v =>
        simp only [newClients, cmdClients]
        cases hx : s.findConn c with
        | none => rfl
        | some x =>
          cases a with
          | none => rfl
          | some a' =>
            cases sd with
            | none => rfl
            | some sd' =>
              have hr := h c t id a' sd' i v x rfl hx
              simp only [bindRows, hu, true_and]
              rw [if_neg]
              intro hb
              apply hr
              simp only [rejectText]
              rw [if_neg (by
                rintro (h1 | ⟨h1, h2⟩)
                · apply hb; left
                  cases hxa : x.app with
                  | none => exact absurd hxa h1
                  | some _ => rfl
                · apply hb; right
                  refine ⟨?_, h2⟩
                  cases hxs : x.side with
                  | none => exact absurd hxs h1
                  | some _ => rfl)]
              simp
      | _ => rfl
    | _ => rfl

/-! ### histories -/

/-- the number of nameplate rows retired along a history -/
def GSys.retiredNps (g : GSys) : List Op → Nat
  | [] => 0
  | op :: rest => ((g.sys.usageBase op).retiredNp (g.step op).sys.db).length + (g.step op).retiredNps rest

/-- the number of mailbox rows retired along a history -/
def GSys.retiredMbs (g : GSys) : List Op → Nat
  | [] => 0
  | op :: rest => ((g.sys.usageBase op).retiredMb (g.step op).sys.db).length + (g.step op).retiredMbs rest

/-- **history corollary**: over a crash-free well-formed history the usage tables grow (as lists:
    nothing is removed or changed) by exactly one record per retirement -/
theorem C15_history_counts {g : GSys} (hI : g.GInv) (hu : g.sys.cfg.usage = true) (ops : List Op)
    (hwf : g.WF ops) (hcf : ∀ op ∈ ops, op.isCrash = false) :
    g.sys.udb.nameplates <+: (g.run ops).sys.udb.nameplates ∧
    g.sys.udb.mailboxes <+: (g.run ops).sys.udb.mailboxes ∧
    (g.run ops).sys.udb.nameplates.length = g.sys.udb.nameplates.length + g.retiredNps ops ∧
    (g.run ops).sys.udb.mailboxes.length = g.sys.udb.mailboxes.length + g.retiredMbs ops := by
  induction ops generalizing g with
  | nil => exact ⟨List.prefix_refl _, List.prefix_refl _, rfl, rfl⟩
  | cons op rest ih =>
    have hop := hcf op List.mem_cons_self
    obtain ⟨p1, p2, _, l1, l2⟩ := C15_tables_only_grow hI hu op hop
    have hu' : (g.step op).sys.cfg.usage = true := by
      show (g.sys.step op).cfg.usage = true
      rw [step_cfg]; exact hu
    obtain ⟨q1, q2, m1, m2⟩ := ih (hI.step op hwf.1) hu' hwf.2 (fun o ho => hcf o (List.mem_cons_of_mem _ ho))
    refine ⟨p1.trans q1, p2.trans q2, ?_, ?_⟩
    · show ((g.step op).run rest).sys.udb.nameplates.length = _
      rw [m1, l1]; simp only [GSys.retiredNps]; omega
    · show ((g.step op).run rest).sys.udb.mailboxes.length = _
      rw [m2, l2]; simp only [GSys.retiredMbs]; omega

/-- from the initial state: records = retirements -/
theorem C15_history_counts_init (cfg : Cfg) (hu : cfg.usage = true) (rb : Time) (ops : List Op)
    (hwf : (GSys.init cfg rb).WF ops) (hcf : ∀ op ∈ ops, op.isCrash = false) :
    ((GSys.init cfg rb).run ops).sys.udb.nameplates.length = (GSys.init cfg rb).retiredNps ops ∧
    ((GSys.init cfg rb).run ops).sys.udb.mailboxes.length = (GSys.init cfg rb).retiredMbs ops := by
  obtain ⟨_, _, h1, h2⟩ := C15_history_counts (GSys.GInv.init cfg rb) hu ops hwf hcf
  constructor
  · rw [h1]; simp [GSys.init]
  · rw [h2]; simp [GSys.init]

/-- an object that is present after the step is not among the retired ones -/
theorem C15_retired_absent (B d : Chan) :
    (∀ n ∈ B.retiredNp d, ∀ n' ∈ d.nameplates, n'.id ≠ n.id) ∧
    (∀ m ∈ B.retiredMb d, ∀ m' ∈ d.mailboxes, m'.id ≠ m.id) :=
  ⟨fun _ hn => (Chan.mem_retiredNp.1 hn).2, fun _ hm => (Chan.mem_retiredMb.1 hm).2⟩

theorem GSys.run_npGrow {g : GSys} (hI : g.GInv) (ops : List Op) (hwf : g.WF ops) :
    Chan.NpGrow g.sys.db (g.run ops).sys.db := by
  induction ops generalizing g with
  | nil => exact Chan.NpGrow.refl _
  | cons op rest ih =>
    have h1 : Chan.NpGrow g.sys.db (g.step op).sys.db :=
      Sys.step_NpGrow g.sys hI.synced.1 hI.cinv.npIds op
    exact h1.trans (ih (hI.step op hwf.1) hwf.2)

/-- a retired nameplate row never comes back: its row id (AUTOINCREMENT) is not the id of any
    nameplate row of any later state -/
theorem C15_retired_nameplate_never_returns {g : GSys} (hI : g.GInv) (op : Op) (hw : g.WFOp op)
    {n : Nameplate} (hn : n ∈ (g.sys.usageBase op).retiredNp (g.step op).sys.db) (ops : List Op)
    (hwf : (g.step op).WF ops) : ∀ n' ∈ ((g.step op).run ops).sys.db.nameplates, n'.id ≠ n.id := by
  obtain ⟨hnB, habs⟩ := Chan.mem_retiredNp.1 hn
  rw [Sys.usageBase_nameplates] at hnB
  have hlt : n.id < g.sys.db.nextNp := hI.cinv.bounded.1 n hnB
  have h1 : Chan.NpGrow g.sys.db (g.step op).sys.db := Sys.step_NpGrow g.sys hI.synced.1 hI.cinv.npIds op
  have h2 := GSys.run_npGrow (hI.step op hw) ops hwf
  intro n' hn' e
  have := h2.rows n' hn' (by rw [e]; exact Nat.lt_of_lt_of_le hlt h1.next)
  exact habs n' this e

/-! ### without a usage database -/

theorem uclosed_noUsage (c0 : Cfg) (h0 : c0.usage = false) (U0 : Usage) :
    UClosed c0 (fun s => s.cfg = c0 ∧ s.udb = U0 ∧ s.udisk = U0 ∧ ∀ p ∈ s.snaps, p.2 = U0) where
  cfg := fun _ h => h.1
  emit := fun _ _ h => h
  commit := fun s h => by
    refine ⟨by rw [commit_cfg]; exact h.1, by rw [commit_udb]; exact h.2.1, by rw [commit_udisk]; exact h.2.2.1, ?_⟩
    unfold Sys.commit; split
    · exact h.2.2.2
    · intro p hp
      rcases List.mem_append.1 hp with hp | hp
      · exact h.2.2.2 p hp
      · simp only [List.mem_singleton] at hp; subst hp; exact h.2.2.1
  ucommit := fun s h => by
    refine ⟨by rw [ucommit_cfg]; exact h.1, by rw [ucommit_udb]; exact h.2.1, by rw [ucommit_udisk]; exact h.2.1, ?_⟩
    unfold Sys.ucommit; split
    · exact h.2.2.2
    · intro p hp
      rcases List.mem_append.1 hp with hp | hp
      · exact h.2.2.2 p hp
      · simp only [List.mem_singleton] at hp; subst hp; exact h.2.1
  modDb := fun _ _ h => h
  conns := fun _ _ h => h
  storeNp := fun hu => by rw [h0] at hu; cases hu
  storeMb := fun hu => by rw [h0] at hu; cases hu
  client := fun hu => by rw [h0] at hu; cases hu
  current := fun hu => by rw [h0] at hu; cases hu

/-- **without a usage database nothing is ever written**: for every operation, crashes included,
    from a state whose usage database has nothing uncommitted -/
theorem C15_no_usage_db_no_writes {s : Sys} (hS : s.udb = s.udisk) (hu : s.cfg.usage = false) (op : Op) :
    (s.step op).udb = s.udb ∧ (s.step op).udisk = s.udb := by
  have hT := uclosed_noUsage s.cfg hu s.udb
  have h0 : (fun z : Sys => z.cfg = s.cfg ∧ z.udb = s.udb ∧ z.udisk = s.udb ∧ ∀ p ∈ z.snaps, p.2 = s.udb)
      ({ s with out := [], snaps := [] } : Sys) := ⟨rfl, rfl, hS.symm, by simp⟩
  have hplain : ∀ op', (fun z : Sys => z.cfg = s.cfg ∧ z.udb = s.udb ∧ z.udisk = s.udb ∧ ∀ p ∈ z.snaps, p.2 = s.udb)
      (({ s with out := [], snaps := [] } : Sys).stepPlain op') := fun op' =>
    hT.stepPlain (fun z t h => ⟨h.1, h.2.2.1, h.2.2.1, h.2.2.2⟩) h0 op'
  cases hc : op.isCrash with
  | false =>
    rw [Sys.step_eq_of_not_crash s hc]
    exact ⟨(hplain op).2.1, (hplain op).2.2.1⟩
  | true =>
    cases op with
    | crashIn k op' =>
      obtain ⟨p, hp, _, _, e3, e4, _⟩ := GSys.step_crash_spec s k op'
      have : p.2 = s.udb := by
        rcases hp with hp | rfl | rfl
        · exact (hplain op').2.2.2 p hp
        · exact (hplain op').2.2.1
        · exact hS.symm
      exact ⟨e3.trans this, e4.trans this⟩
    | _ => simp [Op.isCrash] at hc

/-- ... along every well-formed history (crashes included) -/
theorem C15_no_usage_history {g : GSys} (hI : g.GInv) (hu : g.sys.cfg.usage = false) (ops : List Op)
    (hwf : g.WF ops) : (g.run ops).sys.udb = g.sys.udb := by
  induction ops generalizing g with
  | nil => rfl
  | cons op rest ih =>
    have h1 := (C15_no_usage_db_no_writes hI.synced.2 hu op).1
    have hu' : (g.step op).sys.cfg.usage = false := by
      show (g.sys.step op).cfg.usage = false
      rw [step_cfg]; exact hu
    show ((g.step op).run rest).sys.udb = _
    rw [ih (hI.step op hwf.1) hu' hwf.2]
    exact h1

end Wormhole

/-! ### Non-vacuity -/

namespace Wormhole
namespace C15bExample
open Sys

def cfg : Cfg := { usage := true }
def bind (c : Nat) (t : Time) (σ : String) : Op := .recv c t (.int 1) (.bind (some "app") (some σ) (some "impl") none)

/-- side s1 claims nameplate "4" (mailbox "mb1") and goes away -/
def H1 : List Op := [ .connect 1, bind 1 10 "s1", .recv 1 11 (.int 2) (.claim (some "4") "mb1"), .drop 1 ]
def g1 : GSys := (GSys.init cfg 0).run H1
theorem g1_reach : g1.Reach := GSys.reach_of_wfB _ _ _ (by decide +kernel)

/-- the sweep that expires both objects -/
def sweepOp : Op := .sweep 100000 false

/-- the hypotheses of `C15_one_record_each` hold, and the step retires one nameplate and one mailbox -/
example : g1.GInv ∧ g1.sys.cfg.usage = true ∧ sweepOp.isCrash = false := ⟨g1_reach.ginv, rfl, rfl⟩
example : (g1.sys.usageBase sweepOp).retiredNp (g1.step sweepOp).sys.db = [⟨1, "app", "4", "mb1"⟩] ∧
    (g1.sys.usageBase sweepOp).retiredMb (g1.step sweepOp).sys.db = [⟨"app", "mb1", 11, true⟩] := by
  decide +kernel
/-- ... and the usage tables gain exactly the two records (evaluated) -/
example : g1.sys.udb.nameplates = [] ∧ g1.sys.udb.mailboxes = [] ∧
    (g1.step sweepOp).sys.udb.nameplates = [⟨"app", 11, none, 99989, "pruney"⟩] ∧
    (g1.step sweepOp).sys.udb.mailboxes = [⟨"app", true, 11, 99989, none, "pruney"⟩] := by decide +kernel
example : UsageStep g1.sys (g1.step sweepOp).sys g1.sys.db 100000 true [] := by
  have h := C15_one_record_each g1_reach.ginv rfl sweepOp rfl
  rwa [C15_base_of_not_close g1.sys (by intro c t id m mood e; cases e)] at h

/-- THE SUBTLE CASE: a bound connection closes a mailbox id that does not exist -/
def H2 : List Op := [ .connect 1, bind 1 10 "s1" ]
def g2 : GSys := (GSys.init cfg 0).run H2
theorem g2_reach : g2.Reach := GSys.reach_of_wfB _ _ _ (by decide +kernel)
def phantomClose : Op := .recv 1 11 (.int 2) (.close (some "zz") (some "happy"))

/-- no mailbox before, none after, yet one mailbox row of the base is retired and one record written:
    the base contains the row the implicit `open_mailbox` created and committed -/
theorem phantom_close :
    g2.sys.db.mailboxes = [] ∧ (g2.step phantomClose).sys.db.mailboxes = [] ∧
    (g2.sys.usageBase phantomClose).retiredMb (g2.step phantomClose).sys.db = [⟨"app", "zz", 11, false⟩] ∧
    (g2.sys.usageBase phantomClose).mbSidesOf "zz" = [⟨"zz", false, "s1", 11, some "happy"⟩] ∧
    (g2.step phantomClose).sys.udb.mailboxes = [⟨"app", false, 11, 0, none, "lonely"⟩] ∧
    -- the commit point the base comes from
    (g2.sys.step phantomClose).snaps.map (fun p => p.1.mailboxes) =
      [[⟨"app", "zz", 11, false⟩], [⟨"app", "zz", 11, false⟩], [⟨"app", "zz", 11, false⟩], []] := by
  decide +kernel
example : UsageStep g2.sys (g2.step phantomClose).sys (g2.sys.usageBase phantomClose) 11 false [] :=
  C15_one_record_each g2_reach.ginv rfl phantomClose rfl

/-- the accepted `bind` of `H2` wrote exactly one `client_versions` row -/
example : ((GSys.init cfg 0).run [.connect 1]).sys.newClients (bind 1 10 "s1") =
    [⟨"app", "s1", 10, some "impl", none⟩] := by decide +kernel
example : g2.sys.udb.clients = [⟨"app", "s1", 10, some "impl", none⟩] := by decide +kernel

/-- records of objects with two sides (values via the classification theorem, not by evaluation of
    `mergeSort`) -/
example : npRecord id "app" [13, 11] 15 false = ⟨"app", 11, some 2, 4, "happy"⟩ := by
  unfold npRecord; decide
example : mbRecord id "app" true [⟨"m", false, "s1", 11, some "happy"⟩, ⟨"m", false, "s2", 13, some "scary"⟩] 15 false
    = ⟨"app", true, 11, 4, some 2, "scary"⟩ := by
  unfold mbRecord; decide

/-- the history corollary on `H1 ++ [sweep]`: two retirements, two records -/
example : (GSys.init cfg 0).WF (H1 ++ [sweepOp]) ∧ (∀ op ∈ H1 ++ [sweepOp], op.isCrash = false) ∧
    (GSys.init cfg 0).retiredNps (H1 ++ [sweepOp]) = 1 ∧ (GSys.init cfg 0).retiredMbs (H1 ++ [sweepOp]) = 1 :=
  ⟨GSys.wfB_sound (by decide +kernel), by decide, by decide +kernel, by decide +kernel⟩

/-- without a usage database: the hypotheses are satisfiable and nothing is written -/
example : ((GSys.init {} 0).run (H1 ++ [sweepOp])).sys.udb = {} :=
  C15_no_usage_history (GSys.GInv.init {} 0) rfl _ (GSys.wfB_sound (by decide +kernel))

end C15bExample
end Wormhole

#print axioms Wormhole.C15_one_record_each
#print axioms Wormhole.C15_base_commit_point
#print axioms Wormhole.C15_nothing_retired_nothing_written
#print axioms Wormhole.C15_tables_only_grow
#print axioms Wormhole.C15_nameplate_record_is_summary
#print axioms Wormhole.C15_mailbox_record_is_summary
#print axioms Wormhole.C15_client_rows
#print axioms Wormhole.C15_history_counts
#print axioms Wormhole.C15_history_counts_init
#print axioms Wormhole.C15_retired_nameplate_never_returns
#print axioms Wormhole.C15_no_usage_db_no_writes
#print axioms Wormhole.C15_no_usage_history
#print axioms Wormhole.C15bExample.phantom_close
