/-
  C08 — "A mailbox lives until its last open side closes, and close always completes".

  All step theorems are for EVERY state satisfying the invariant `GSys.GInv` (no reachability
  hypothesis, no bounds) and every input.  `Sys.HandleRow` ("a connection that holds a mailbox handle
  has a side row in that mailbox") is an invariant of reachable states that is not part of `GInv`;
  it is proved to be one in Props/C05.lean (`C05.handleRow_step`, `C05.handleRow_reach`) and is taken as an
  explicit hypothesis where a `close` over a held handle is concerned (`C08_close_spec_reach` discharges it
  for reachable states).

  * `C08_close_spec`          exact output and exact post-state of a `close` that passes validation
                              and is not answered `crowded` / IntegrityError
  * `C08_close_keeps`         readable consequences in the "survives" case
  * `C08_close_frame`         readable consequences in the "deleted" case (the frame condition)
  * `C08_open_side_stays`     every operation other than a sweep keeps the row (app, mb) and keeps
                              side σ open in it, unless it is σ's own `close` of (app, mb)
  * `C08_alive_while_open`    ... hence the row of a mailbox with an open side survives every
                              operation other than a sweep, unless it is a `close` by the ONLY open side
  * `C08_reclose_gone`        repeated close, mailbox gone: `closed`, channel database unchanged
  * `C08_reclose_survives_partial` repeated close, other side still open, at most two side rows: `closed`, the
                              tables unchanged except `updated` of that mailbox row and the own row's
                              `opened/mood` (K-close-touch); `C08_reclose_touch_counterexample`,
                              `C08_reclose_crowded_counterexample` (K-crowded-rejoin)
-/
import Wormhole.Inv.MbClaim
import Wormhole.Inv.Main
import Wormhole.Props.C05

namespace Wormhole
namespace C08
open Sys

/-! ## preliminaries on connection lists -/

theorem find_map_id {f : Conn → Conn} (hf : ∀ y, (f y).id = y.id) (c : Nat) (cs : List Conn) :
    (cs.map f).find? (fun y => y.id = c) = (cs.find? (fun y => y.id = c)).map f := by
  induction cs with
  | nil => rfl
  | cons y rest ih =>
    simp only [List.map_cons, List.find?_cons, hf]
    split
    · rfl
    · exact ih

theorem findConn_closeConns {cs : List Conn} {c : Nat} {x : Conn}
    (h : cs.find? (fun y => y.id = c) = some x) :
    (closeConns cs c).find? (fun y => y.id = c) = some (closerUpd x) := by
  have hid : x.id = c := by simpa using List.find?_some h
  unfold closeConns
  rw [find_map_id (by intro y; split <;> rfl), h]
  simp [hid]

theorem findConn_closeConnsDel {cs : List Conn} {c : Nat} {x : Conn} (app mb : String)
    (h : cs.find? (fun y => y.id = c) = some x) :
    (closeConnsDel cs c app mb).find? (fun y => y.id = c) = some (closerUpd x) := by
  have hid : x.id = c := by simpa using List.find?_some h
  unfold closeConnsDel
  rw [find_map_id (by intro y; split <;> (try split) <;> rfl), h]
  simp [hid]

/-- every other connection record is literally unchanged by `closeConns` -/
theorem mem_closeConns_of_ne {cs : List Conn} {c : Nat} {y : Conn} (hy : y ∈ cs) (hne : y.id ≠ c) :
    y ∈ closeConns cs c := by
  unfold closeConns
  exact List.mem_map.2 ⟨y, hy, by simp [hne]⟩

/-- `closeConnsDel`: the closer as in `closeConns`; the subscribers of (app, mb) lose handle and
    subscription; every other record is literally unchanged -/
theorem mem_closeConnsDel_of_ne {cs : List Conn} {c : Nat} {app mb : String} {y : Conn} (hy : y ∈ cs)
    (hne : y.id ≠ c) :
    (if y.listening ∧ y.app = some app ∧ y.mailbox = some mb
      then { y with mailbox := none, listening := false } else y) ∈ closeConnsDel cs c app mb := by
  unfold closeConnsDel
  exact List.mem_map.2 ⟨y, hy, by simp [hne]⟩

/-! ## C08_close_spec -/

/-- the hypotheses shared by the theorems about one `close`: connection `c` has record `x`, is
    bound to `app`, validation lets `close m mood` through, and the close acts on mailbox `tgt`
    (the handle if `x` holds one, else the `mailbox` key, else the remembered name) -/
structure CloseCase (s : Sys) (c : Nat) (x : Conn) (m mood : Option String) (app tgt : String) : Prop where
  conn : s.findConn c = some x
  valid : rejectText x (.close m mood) = none
  bound : x.app = some app
  target : x.closeTarget m = some tgt

/-- the close goes through: it is not answered IntegrityError (K-global-mailbox-id) or `crowded`
    (both possible only when the connection holds no handle and `open_mailbox` runs first) -/
def Proceeds (s : Sys) (x : Conn) (app tgt : String) (t : Time) : Prop :=
  ¬ (x.mailbox = none ∧
      (s.db.Clash app tgt ∨ ((closePre s x app tgt t).mbSidesOf tgt).length > 2))

/-- **C08 (close, exactly).**  A `close` that passes validation and is not refused as crowded:
    * output: exactly `ack id`, effective commits, `closed` — all frames sent with nothing uncommitted;
    * the closing connection ends with no handle, not listening, `didClose = true`, all its other
      fields as before;
    * if some OTHER side of the mailbox is still open: the database is that after the implicit
      open (`closePre`; the database itself if the connection held a handle) with the one side row
      (tgt, side) set to `opened := false, mood := mood` — nothing else; no other connection
      record and no usage row changes;
    * otherwise: the database is `dropMailbox` of the ORIGINAL database (mailbox row, its side
      rows, its messages, the nameplates of `app` pointing at it and their side rows removed, every
      other row of every table kept — `C08_close_frame`); the connections that were subscribed to
      it lose handle and subscription, every other record is unchanged; with a usage database one
      mailbox row and one nameplate row per deleted nameplate are appended (`CloseUsage`). -/
theorem C08_close_spec {g : GSys} (hI : g.GInv) (hH : g.sys.HandleRow)
    {c : Nat} {x : Conn} {m mood : Option String} {app tgt : String}
    (hc : CloseCase g.sys c x m mood app tgt) (t : Time) (id : Val)
    (hgo : Proceeds g.sys x app tgt t) :
    (∃ commits, (∀ e ∈ commits, IsCommit e) ∧
      (g.sys.step (.recv c t id (.close m mood))).out =
        .frame c (.ack id) true :: (commits ++ [.frame c .closed true])) ∧
    (g.sys.step (.recv c t id (.close m mood))).Synced ∧
    (g.sys.step (.recv c t id (.close m mood))).cfg = g.sys.cfg ∧
    (g.sys.step (.recv c t id (.close m mood))).findConn c = some (closerUpd x) ∧
    (g.sys.db.OtherOpen tgt (x.side.getD "") →
      (g.sys.step (.recv c t id (.close m mood))).db =
        (closePre g.sys x app tgt t).closeSide tgt (x.side.getD "") mood ∧
      (g.sys.step (.recv c t id (.close m mood))).conns = closeConns g.sys.conns c ∧
      (g.sys.step (.recv c t id (.close m mood))).udb = g.sys.udb) ∧
    (¬ g.sys.db.OtherOpen tgt (x.side.getD "") →
      (g.sys.step (.recv c t id (.close m mood))).db = g.sys.db.dropMailbox app tgt ∧
      (g.sys.step (.recv c t id (.close m mood))).conns = closeConnsDel g.sys.conns c app tgt ∧
      CloseUsage g.sys (g.sys.step (.recv c t id (.close m mood))) app tgt) := by
  obtain ⟨hx, hr, happ, htg⟩ := hc
  have hP := hI.cinv.toPInv
  obtain ⟨_, _, h3⟩ := close_step hP hI.cinv.npHasSide hI.synced hx hr happ htg t id
  obtain ⟨hout, hdb, hsync, hcfg, _, hsurv, hdel⟩ := h3 hgo
  -- the mailbox row and the own side row exist in the database the close works on
  have hpre : (closePre g.sys x app tgt t).HasBox app tgt ∧
      (closePre g.sys x app tgt t).findMbSide tgt (x.side.getD "") ≠ none := by
    unfold closePre
    cases hh : x.mailbox with
    | none =>
      simp only [if_true]
      exact ⟨Chan.openDb_hasBox _ _ _ _ _, Chan.openDb_findMbSide_ne_none _ _ _ _ _⟩
    | some h =>
      have : tgt = h := by simp [Conn.closeTarget, hh] at htg; exact htg.symm
      subst this
      simp only [reduceCtorEq, if_false]
      have hxm := findConn_mem hx
      obtain ⟨_, a, ha, m0, hm0, hi, hma⟩ := hI.conn.handle x hxm tgt hh
      rw [happ] at ha; cases ha
      refine ⟨⟨m0, hm0, hma, hi⟩, ?_⟩
      obtain ⟨r, hr0, h1, h2⟩ := hH x hxm tgt hh
      intro hn
      exact Chan.findMbSide_eq_none.1 hn r hr0 ⟨h1, h2⟩
  have hoo : (closePre g.sys x app tgt t).OtherOpen tgt (x.side.getD "") ↔
      g.sys.db.OtherOpen tgt (x.side.getD "") := by
    unfold closePre
    split
    · exact Chan.otherOpen_openDb _ _ _ _ _
    · exact Iff.rfl
  have hdrop : (closePre g.sys x app tgt t).dropMailbox app tgt = g.sys.db.dropMailbox app tgt := by
    unfold closePre
    split
    · exact Chan.dropMailbox_openDb _ _ _ _ _
    · rfl
  refine ⟨hout, hsync, hcfg, ?_, ?_, ?_⟩
  · by_cases ho : g.sys.db.OtherOpen tgt (x.side.getD "")
    · have := (hsurv (fun hk => hk.2.2 (hoo.2 ho))).1
      unfold Sys.findConn; rw [this]
      exact findConn_closeConns hx
    · have := (hdel hpre.1 hpre.2 (fun hk => ho (hoo.1 hk))).1
      unfold Sys.findConn; rw [this]
      exact findConn_closeConnsDel app tgt hx
  · intro ho
    obtain ⟨h1, h2⟩ := hsurv (fun hk => hk.2.2 (hoo.2 ho))
    refine ⟨?_, h1, h2⟩
    rw [hdb]
    unfold Chan.closeDb
    rw [if_pos hpre, if_pos (hoo.2 ho)]
  · intro ho
    obtain ⟨h1, h2⟩ := hdel hpre.1 hpre.2 (fun hk => ho (hoo.1 hk))
    refine ⟨?_, h1, h2⟩
    rw [hdb]
    unfold Chan.closeDb
    rw [if_pos hpre, if_neg (fun hk => ho (hoo.1 hk)), hdrop]

/-- **C08 (one side's close never removes the other side's access).**  The ordinary close (the
    connection holds the handle) while another side is open: the mailbox row, every message,
    every nameplate row and nameplate side row are literally unchanged; the side rows are those of
    before except that the closer's row now reads `opened = false, mood = mood`; every other
    connection record — handle and subscription included — is literally unchanged. -/
theorem C08_close_keeps {g : GSys} (hI : g.GInv) (hH : g.sys.HandleRow)
    {c : Nat} {x : Conn} {m mood : Option String} {app tgt : String}
    (hc : CloseCase g.sys c x m mood app tgt) (t : Time) (id : Val)
    (hheld : x.mailbox = some tgt) (hother : g.sys.db.OtherOpen tgt (x.side.getD "")) :
    (g.sys.step (.recv c t id (.close m mood))).db.mailboxes = g.sys.db.mailboxes ∧
    (g.sys.step (.recv c t id (.close m mood))).db.messages = g.sys.db.messages ∧
    (g.sys.step (.recv c t id (.close m mood))).db.nameplates = g.sys.db.nameplates ∧
    (g.sys.step (.recv c t id (.close m mood))).db.npSides = g.sys.db.npSides ∧
    (g.sys.step (.recv c t id (.close m mood))).db.nextNp = g.sys.db.nextNp ∧
    (∀ r, r ∈ (g.sys.step (.recv c t id (.close m mood))).db.mbSides ↔
      (r ∈ g.sys.db.mbSides ∧ ¬ (r.mailbox = tgt ∧ r.side = x.side.getD "")) ∨
      (∃ r0 ∈ g.sys.db.mbSides, r0.mailbox = tgt ∧ r0.side = x.side.getD "" ∧
        r = { r0 with opened := false, mood := mood })) ∧
    (∀ mb', mb' ≠ tgt →
      (g.sys.step (.recv c t id (.close m mood))).db.mbSidesOf mb' = g.sys.db.mbSidesOf mb') ∧
    (∀ y ∈ g.sys.conns, y.id ≠ c → y ∈ (g.sys.step (.recv c t id (.close m mood))).conns) ∧
    (g.sys.step (.recv c t id (.close m mood))).udb = g.sys.udb := by
  have hgo : Proceeds g.sys x app tgt t := by
    intro hk; rw [hheld] at hk; cases hk.1
  obtain ⟨_, _, _, _, hsurv, _⟩ := C08_close_spec hI hH hc t id hgo
  obtain ⟨hdb, hconns, hudb⟩ := hsurv hother
  have hpre : closePre g.sys x app tgt t = g.sys.db := by simp [closePre, hheld]
  rw [hpre] at hdb
  rw [hdb, hconns]
  refine ⟨rfl, rfl, rfl, rfl, rfl, fun r => Chan.mem_closeSide_mbSides, ?_, ?_, hudb⟩
  · intro mb' hne; exact Chan.closeSide_mbSidesOf_other _ _ _ _ hne
  · intro y hy hne; exact mem_closeConns_of_ne hy hne

/-- **C08 (the frame condition of a deleting close)**, as a statement about `dropMailbox` on a
    database satisfying `PInv` in which `mb` is not a mailbox of another app: (app, mb) is gone
    with everything that belongs to it, and every other mailbox row is still there with exactly its
    side rows and messages, every nameplate not pointing at (app, mb) is still there with exactly
    its side rows, no row appears. -/
theorem C08_close_frame {d : Chan} (hP : d.PInv) {app mb : String} (hnc : ¬ d.Clash app mb) :
    -- gone
    ¬ (d.dropMailbox app mb).HasBox app mb ∧
    (d.dropMailbox app mb).mbSidesOf mb = [] ∧
    (d.dropMailbox app mb).messagesOf app mb = [] ∧
    (d.dropMailbox app mb).nameplatesOfMailbox app mb = [] ∧
    -- every other mailbox is untouched
    (∀ m0 ∈ d.mailboxes, ¬ (m0.app = app ∧ m0.id = mb) →
      m0 ∈ (d.dropMailbox app mb).mailboxes ∧
      (d.dropMailbox app mb).mbSidesOf m0.id = d.mbSidesOf m0.id ∧
      (d.dropMailbox app mb).messagesOf m0.app m0.id = d.messagesOf m0.app m0.id) ∧
    -- every other nameplate is untouched
    (∀ n ∈ d.nameplates, ¬ (n.app = app ∧ n.mailbox = mb) →
      n ∈ (d.dropMailbox app mb).nameplates ∧
      (d.dropMailbox app mb).npSidesOf n.id = d.npSidesOf n.id) ∧
    -- nothing appears
    (∀ m0 ∈ (d.dropMailbox app mb).mailboxes, m0 ∈ d.mailboxes) ∧
    (∀ r ∈ (d.dropMailbox app mb).mbSides, r ∈ d.mbSides) ∧
    (∀ r ∈ (d.dropMailbox app mb).messages, r ∈ d.messages) ∧
    (∀ n ∈ (d.dropMailbox app mb).nameplates, n ∈ d.nameplates) ∧
    (∀ r ∈ (d.dropMailbox app mb).npSides, r ∈ d.npSides) ∧
    (d.dropMailbox app mb).nextNp = d.nextNp := by
  refine ⟨Chan.dropMailbox_not_hasBox d app mb, Chan.dropMailbox_mbSidesOf_self d app mb,
    Chan.dropMailbox_messagesOf_self d app mb, Chan.dropMailbox_nameplatesOfMailbox_self d app mb,
    ?_, ?_, ?_, ?_, ?_, ?_, ?_, rfl⟩
  · intro m0 hm0 hne
    have hid : m0.id ≠ mb := by
      intro hid
      by_cases hh : d.HasBox app mb
      · exact hne ⟨hP.app_of_id hh hm0 hid, hid⟩
      · exact hnc ⟨⟨m0, hm0, hid, fun ha => hne ⟨ha, hid⟩⟩, hh⟩
    exact ⟨(Chan.mem_dropMailbox_mailboxes d app mb).2 ⟨hm0, hne⟩,
      Chan.dropMailbox_mbSidesOf_other d app mb hid,
      Chan.dropMailbox_messagesOf_other d app mb (fun hk => hid hk.2)⟩
  · intro n hn hne
    exact ⟨(Chan.mem_dropMailbox_nameplates d app mb).2 ⟨hn, hne⟩,
      Chan.dropMailbox_npSidesOf_other d app mb hP.npIds hn hne⟩
  · intro m0 h; exact ((Chan.mem_dropMailbox_mailboxes d app mb).1 h).1
  · intro r h; exact ((Chan.mem_dropMailbox_mbSides d app mb).1 h).1
  · intro r h; exact ((Chan.mem_dropMailbox_messages d app mb).1 h).1
  · intro n h; exact ((Chan.mem_dropMailbox_nameplates d app mb).1 h).1
  · intro r h; exact ((Chan.mem_dropMailbox_npSides d app mb).1 h).1

/-- `C08_close_spec` for reachable states: both hypotheses on the state (`GInv`, `HandleRow`) are
    discharged (`GSys.Reach.ginv`, `C05.handleRow_reach`) -/
theorem C08_close_spec_reach {g : GSys} (hg : g.Reach)
    {c : Nat} {x : Conn} {m mood : Option String} {app tgt : String}
    (hc : CloseCase g.sys c x m mood app tgt) (t : Time) (id : Val)
    (hgo : Proceeds g.sys x app tgt t) :
    (∃ commits, (∀ e ∈ commits, IsCommit e) ∧
      (g.sys.step (.recv c t id (.close m mood))).out =
        .frame c (.ack id) true :: (commits ++ [.frame c .closed true])) ∧
    (g.sys.step (.recv c t id (.close m mood))).Synced ∧
    (g.sys.step (.recv c t id (.close m mood))).cfg = g.sys.cfg ∧
    (g.sys.step (.recv c t id (.close m mood))).findConn c = some (closerUpd x) ∧
    (g.sys.db.OtherOpen tgt (x.side.getD "") →
      (g.sys.step (.recv c t id (.close m mood))).db =
        (closePre g.sys x app tgt t).closeSide tgt (x.side.getD "") mood ∧
      (g.sys.step (.recv c t id (.close m mood))).conns = closeConns g.sys.conns c ∧
      (g.sys.step (.recv c t id (.close m mood))).udb = g.sys.udb) ∧
    (¬ g.sys.db.OtherOpen tgt (x.side.getD "") →
      (g.sys.step (.recv c t id (.close m mood))).db = g.sys.db.dropMailbox app tgt ∧
      (g.sys.step (.recv c t id (.close m mood))).conns = closeConnsDel g.sys.conns c app tgt ∧
      CloseUsage g.sys (g.sys.step (.recv c t id (.close m mood))) app tgt) :=
  C08_close_spec hg.ginv (C05.handleRow_reach (fun _ h => h.ginv) hg) hc t id hgo

/-! ## C08_alive_while_open -/

/-- the operation (or the operation a `crashIn` wraps) is a `close` by a connection bound to
    `app` with side `σ` that acts on mailbox `mb` -/
def ClosesSide (s : Sys) (op : Op) (app mb σ : String) : Prop :=
  ∃ c t id m mood x, op.core = .recv c t id (.close m mood) ∧ s.findConn c = some x ∧
    x.app = some app ∧ x.closeTarget m = some mb ∧ x.side.getD "" = σ

/-- **C08 (an open side stays open).**  Over every operation that is not a sweep — crashes at
    any commit point included — the row (app, mb) stays and side σ keeps it open, unless the
    operation is σ's own `close` of (app, mb). -/
theorem C08_open_side_stays {g : GSys} (hI : g.GInv) {app mb σ : String}
    (hopen : g.sys.db.OpenAt app mb σ) (op : Op) (hns : op.core.isSweep = false)
    (hnc : ¬ ClosesSide g.sys op app mb σ) :
    (g.sys.step op).db.OpenAt app mb σ := by
  have hP := hI.cinv.toPInv
  have h := step_track (s := g.sys) (op := op)
    (R := fun d => (∀ m0 ∈ d.mailboxes, m0.id = mb → m0.app = app) ∧ d.OpenAt app mb σ)
    (R' := fun d => (∀ m0 ∈ d.mailboxes, m0.id = mb → m0.app = app) ∧ d.OpenAt app mb σ)
    (by
      intro d f hf ⟨h1, h2⟩
      refine ⟨?_, h2.grow hf⟩
      cases hf with
      | insMailbox r hfree =>
        intro m0 hm0 hid
        simp only [Chan.insMailbox, List.mem_append, List.mem_singleton] at hm0
        rcases hm0 with hm0 | rfl
        · exact h1 m0 hm0 hid
        · obtain ⟨m1, hm1, _, hi1⟩ := h2.1
          exact absurd (hi1.trans hid.symm) (hfree m1 hm1)
      | touch mb' t' =>
        intro m0 hm0 hid
        simp only [Chan.touch, List.mem_map] at hm0
        obtain ⟨m1, hm1, rfl⟩ := hm0
        have := h1 m1 hm1 (by rw [← hid]; split <;> rfl)
        rw [← this]; split <;> rfl
      | _ => exact h1)
    (fun _ h => h)
    (by intro hsw; rw [hns] at hsw; cases hsw)
    (by
      intro c t id x m mood app' tgt hop hx happ htg d ⟨h1, h2⟩ hh
      refine ⟨h1, h2.closeSide mood ?_⟩
      rintro ⟨rfl, hside⟩
      obtain ⟨m0, hm0, ha, hi⟩ := hh
      have : app' = app := by rw [← ha]; exact h1 m0 hm0 hi
      subst this
      exact hnc ⟨c, t, id, m, mood, x, hop, hx, happ, htg, hside⟩)
    (by
      intro c t id x m mood app' tgt _ _ _ _ d ⟨h1, h2⟩ hno
      refine ⟨?_, h2.closeDeletes app' tgt hno⟩
      intro m0 hm0 hid
      simp only [Chan.closeDeletes, Chan.delMailbox, List.mem_filter] at hm0
      exact h1 m0 hm0.1 hid)
    ⟨fun m0 hm0 hid => hP.app_of_id hopen.1 hm0 hid, hopen⟩
    (by rw [← hI.synced.1]; exact ⟨fun m0 hm0 hid => hP.app_of_id hopen.1 hm0 hid, hopen⟩)
  exact h.2

/-- **C08 (a mailbox lives while a side has it open).**  A mailbox row that has an `opened` side
    row is still present after every operation that is not a sweep (crashes included), unless that
    operation is a `close` by a connection bound to the same app, acting on this mailbox, whose side
    is the ONLY side that still has it open.  (What a sweep may remove is property C12.) -/
theorem C08_alive_while_open {g : GSys} (hI : g.GInv) {app mb : String}
    (hrow : g.sys.db.HasBox app mb)
    (hopen : ∃ r ∈ g.sys.db.mbSides, r.mailbox = mb ∧ r.opened = true)
    (op : Op) (hns : op.core.isSweep = false) :
    (g.sys.step op).db.HasBox app mb ∨
    ∃ σ, ClosesSide g.sys op app mb σ ∧
      ∀ r ∈ g.sys.db.mbSides, r.mailbox = mb → r.opened = true → r.side = σ := by
  obtain ⟨r, hr, hm, ho⟩ := hopen
  by_cases hcl : ClosesSide g.sys op app mb r.side
  · -- the operation closes r's side: is another side open?
    by_cases hall : ∀ r' ∈ g.sys.db.mbSides, r'.mailbox = mb → r'.opened = true → r'.side = r.side
    · exact Or.inr ⟨r.side, hcl, hall⟩
    · obtain ⟨r', hr', hm', ho', hne⟩ : ∃ r' ∈ g.sys.db.mbSides, r'.mailbox = mb ∧ r'.opened = true ∧
          r'.side ≠ r.side := by
        false_or_by_contra
        rename_i hcon
        apply hall
        intro r' hr' hm' ho'
        false_or_by_contra
        rename_i hne
        exact hcon ⟨r', hr', hm', ho', hne⟩
      left
      refine (C08_open_side_stays hI (σ := r'.side) ⟨hrow, r', hr', hm', rfl, ho'⟩ op hns ?_).1
      rintro ⟨c, t, id, m, mood, x, hop, hx, happ, htg, hside⟩
      obtain ⟨c2, t2, id2, m2, mood2, x2, hop2, hx2, _, _, hside2⟩ := hcl
      rw [hop] at hop2
      cases hop2
      rw [hx] at hx2; cases hx2
      exact hne (hside.symm.trans hside2)
  · exact Or.inl (C08_open_side_stays hI (σ := r.side) ⟨hrow, r, hr, hm, rfl, ho⟩ op hns hcl).1

/-! ## C08_reclose -/

/-- a bound connection that has not opened, claimed a handle or closed anything yet -/
structure FreshBound (x : Conn) (app : String) : Prop where
  bound : x.app = some app
  noHandle : x.mailbox = none
  noName : x.mailboxId = none
  notClosed : x.didClose = false

theorem FreshBound.closeCase {s : Sys} {c : Nat} {x : Conn} {app : String} (hf : FreshBound x app)
    (hx : s.findConn c = some x) (mb : String) (mood : Option String) :
    CloseCase s c x (some mb) mood app mb := by
  refine ⟨hx, ?_, hf.bound, ?_⟩
  · simp [rejectText, needBind, hf.bound, hf.notClosed, hf.noName]
  · simp [Conn.closeTarget, Conn.closeName, hf.noHandle]

/-- **C08 (re-close, mailbox gone).**  A `close` of a mailbox id that has no row any more (the
    mailbox was deleted by the last close, or never existed), sent on a fresh bound connection:
    answered `ack`, commits, `closed`; the channel database afterwards IS the one before (the
    mailbox row and the side row that the implicit open creates are deleted again within the
    step); only the closing connection's record changes. -/
theorem C08_reclose_gone {g : GSys} (hI : g.GInv) {c : Nat} {x : Conn} {app : String}
    (hx : g.sys.findConn c = some x) (hf : FreshBound x app) {mb : String}
    (hgone : ¬ g.sys.db.HasId mb) (mood : Option String) (t : Time) (id : Val) :
    (∃ commits, (∀ e ∈ commits, IsCommit e) ∧
      (g.sys.step (.recv c t id (.close (some mb) mood))).out =
        .frame c (.ack id) true :: (commits ++ [.frame c .closed true])) ∧
    (g.sys.step (.recv c t id (.close (some mb) mood))).db = g.sys.db ∧
    (g.sys.step (.recv c t id (.close (some mb) mood))).Synced ∧
    (g.sys.step (.recv c t id (.close (some mb) mood))).conns = closeConns g.sys.conns c := by
  have hP := hI.cinv.toPInv
  have hc := hf.closeCase hx mb mood
  have hnoside : ∀ r ∈ g.sys.db.mbSides, r.mailbox ≠ mb := by
    intro r hr hk
    obtain ⟨m0, hm0, hi⟩ := hP.msFk r hr
    exact hgone ⟨m0, hm0, hi.trans hk⟩
  have hgo : Proceeds g.sys x app mb t := by
    rintro ⟨_, hk | hk⟩
    · obtain ⟨⟨m0, hm0, hi, _⟩, _⟩ := hk
      exact hgone ⟨m0, hm0, hi⟩
    · have hpre' : closePre g.sys x app mb t = g.sys.db.openDb app mb (x.side.getD "") t := by
        simp [closePre, hf.noHandle]
      rw [hpre', Chan.openDb_mbSidesOf] at hk
      have h0 : g.sys.db.mbSidesOf mb = [] := by
        simp only [Chan.mbSidesOf, List.filter_eq_nil_iff, decide_eq_true_eq]
        exact fun r hr => hnoside r hr
      rw [h0] at hk
      split at hk <;> simp at hk
  obtain ⟨_, _, h3⟩ := close_step hP hI.cinv.npHasSide hI.synced hc.conn hc.valid hc.bound hc.target t id
  obtain ⟨hout, hdb, hsync, _, _, _, hdel⟩ := h3 hgo
  have hpre : closePre g.sys x app mb t = g.sys.db.openDb app mb (x.side.getD "") t := by
    simp [closePre, hf.noHandle]
  have hno : ¬ (closePre g.sys x app mb t).OtherOpen mb (x.side.getD "") := by
    rw [hpre, Chan.otherOpen_openDb]
    rintro ⟨r, hr, hk, _⟩
    exact hnoside r hr hk
  have hhas : (closePre g.sys x app mb t).HasBox app mb := by rw [hpre]; exact Chan.openDb_hasBox _ _ _ _ _
  have hside : (closePre g.sys x app mb t).findMbSide mb (x.side.getD "") ≠ none := by
    rw [hpre]; exact Chan.openDb_findMbSide_ne_none _ _ _ _ _
  obtain ⟨hconns, _⟩ := hdel hhas hside hno
  refine ⟨hout, ?_, hsync, ?_⟩
  · rw [hdb]
    unfold Chan.closeDb
    rw [if_pos ⟨hhas, hside⟩, if_neg hno, hpre, Chan.dropMailbox_openDb, Chan.dropMailbox_eq_self hP hgone]
  · rw [hconns]
    unfold closeConnsDel closeConns
    apply List.map_congr_left
    intro y hy
    by_cases hyc : y.id = c
    · simp [hyc]
    · simp only [hyc, if_false]
      rw [if_neg]
      rintro ⟨_, _, hk⟩
      obtain ⟨_, _, _, m0, hm0, hi, _⟩ := hI.conn.handle y hy mb hk
      exact hgone ⟨m0, hm0, hi⟩

/-- the database after a re-close that finds the mailbox alive: `updated := t` on the row
    (app, mb) and `opened := false, mood := mood` on the row (mb, side); everything else as it was -/
def recloseDb (d : Chan) (app mb side : String) (mood : Option String) (t : Time) : Chan :=
  { d with
    mailboxes := d.mailboxes.map (fun r => if r.app = app ∧ r.id = mb then { r with updated := t } else r)
    mbSides := d.mbSides.map (fun r => if r.mailbox = mb ∧ r.side = side
      then { r with opened := false, mood := mood } else r) }

/-- **C08 (re-close, mailbox alive) — PARTIAL, findings K-close-touch and K-crowded-rejoin.**
    Full statement (FALSE for the model and the code): "a repeated close by a side whose row is
    already closed, while the other side is still open, is answered `closed` and leaves the tables
    as they were".  What holds, under the guard "the mailbox has at most two side rows"
    (K-crowded-rejoin: otherwise the answer is `crowded`, `C08_reclose_crowded_counterexample`):
    the answer is `closed` and the tables are as they were EXCEPT `updated` of that one mailbox row,
    which becomes the time of the repeat (K-close-touch, `C08_reclose_touch_counterexample`), and
    the own side row's `mood` (its `opened` was already false).  No connection record other
    than the closer's and no usage row changes. -/
theorem C08_reclose_survives_partial {g : GSys} (hI : g.GInv) {c : Nat} {x : Conn} {app : String}
    (hx : g.sys.findConn c = some x) (hf : FreshBound x app) {mb : String}
    (hrow : g.sys.db.HasBox app mb)
    (hown : ∃ r ∈ g.sys.db.mbSides, r.mailbox = mb ∧ r.side = x.side.getD "")
    (hother : g.sys.db.OtherOpen mb (x.side.getD ""))
    (hguard : (g.sys.db.mbSidesOf mb).length ≤ 2)
    (mood : Option String) (t : Time) (id : Val) :
    (∃ commits, (∀ e ∈ commits, IsCommit e) ∧
      (g.sys.step (.recv c t id (.close (some mb) mood))).out =
        .frame c (.ack id) true :: (commits ++ [.frame c .closed true])) ∧
    (g.sys.step (.recv c t id (.close (some mb) mood))).db =
      recloseDb g.sys.db app mb (x.side.getD "") mood t ∧
    (g.sys.step (.recv c t id (.close (some mb) mood))).Synced ∧
    (g.sys.step (.recv c t id (.close (some mb) mood))).conns = closeConns g.sys.conns c ∧
    (g.sys.step (.recv c t id (.close (some mb) mood))).udb = g.sys.udb := by
  have hP := hI.cinv.toPInv
  have hc := hf.closeCase hx mb mood
  obtain ⟨r0, hr0, hk1, hk2⟩ := hown
  have hfind : ∃ r1, g.sys.db.findMbSide mb (x.side.getD "") = some r1 := by
    cases hfs : g.sys.db.findMbSide mb (x.side.getD "") with
    | some r1 => exact ⟨r1, rfl⟩
    | none => exact absurd ⟨hk1, hk2⟩ (Chan.findMbSide_eq_none.1 hfs r0 hr0)
  obtain ⟨r1, hr1⟩ := hfind
  have hpre : closePre g.sys x app mb t = g.sys.db.openDb app mb (x.side.getD "") t := by
    simp [closePre, hf.noHandle]
  have hsides : (closePre g.sys x app mb t).mbSidesOf mb = g.sys.db.mbSidesOf mb := by
    rw [hpre, Chan.openDb_mbSidesOf, hr1]; simp
  have hgo : Proceeds g.sys x app mb t := by
    rintro ⟨_, hk | hk⟩
    · exact hk.2 hrow
    · rw [hsides] at hk; omega
  obtain ⟨_, _, h3⟩ := close_step hP hI.cinv.npHasSide hI.synced hc.conn hc.valid hc.bound hc.target t id
  obtain ⟨hout, hdb, hsync, _, _, hsurv, _⟩ := h3 hgo
  have hoo : (closePre g.sys x app mb t).OtherOpen mb (x.side.getD "") := by
    rw [hpre, Chan.otherOpen_openDb]; exact hother
  have hhas : (closePre g.sys x app mb t).HasBox app mb := by rw [hpre]; exact Chan.openDb_hasBox _ _ _ _ _
  have hside : (closePre g.sys x app mb t).findMbSide mb (x.side.getD "") ≠ none := by
    rw [hpre]; exact Chan.openDb_findMbSide_ne_none _ _ _ _ _
  obtain ⟨hconns, hudb⟩ := hsurv (fun hk => hk.2.2 hoo)
  refine ⟨hout, ?_, hsync, hconns, hudb⟩
  rw [hdb]
  unfold Chan.closeDb
  rw [if_pos ⟨hhas, hside⟩, if_pos hoo, hpre]
  obtain ⟨rowm, hrowm⟩ : ∃ row, g.sys.db.findMailbox app mb = some row := by
    cases hfm : g.sys.db.findMailbox app mb with
    | some row => exact ⟨row, rfl⟩
    | none => exact absurd hrow (Chan.findMailbox_eq_none.1 hfm)
  simp [Chan.openDb, Chan.closeSide, recloseDb, hrowm, hr1]

/-! ## Non-vacuity and the counterexamples -/

namespace Ex

instance (d : Chan) : Decidable d.IdsBounded := by unfold Chan.IdsBounded; infer_instance

/-- two sides have mailbox "m" of app "app" open since t = 100; side s1 holds nameplate 1 ("7")
    pointing at it; another mailbox "other" with a message and a nameplate exists -/
def db0 : Chan :=
  { nameplates := [⟨1, "app", "7", "m"⟩, ⟨2, "app", "9", "other"⟩],
    npSides := [⟨1, true, "s1", 90⟩, ⟨2, true, "s9", 95⟩],
    mailboxes := [⟨"app", "m", 100, true⟩, ⟨"app", "other", 95, true⟩],
    mbSides := [⟨"m", true, "s1", 100, none⟩, ⟨"m", true, "s2", 100, none⟩, ⟨"other", true, "s9", 95, none⟩],
    messages := [⟨"app", "m", "s1", .str "pake", .str "b", 100, .str "i"⟩,
                 ⟨"app", "other", "s9", .str "pake", .str "b", 95, .str "i"⟩],
    nextNp := 3 }

def conn1 : Conn :=
  { id := 1, app := some "app", side := some "s1", mailbox := some "m", mailboxId := some "m", listening := true }
def conn2 : Conn :=
  { id := 2, app := some "app", side := some "s2", mailbox := some "m", mailboxId := some "m", listening := true }
/-- a fresh bound connection of side s1 -/
def conn3 : Conn := { id := 3, app := some "app", side := some "s1" }

def sys0 : Sys := { db := db0, disk := db0, conns := [conn1, conn2, conn3] }
def g0 : GSys := ⟨sys0, 100, ["m", "other"]⟩

theorem g0_ginv : g0.GInv :=
  ⟨⟨by constructor <;> decide, by decide⟩, by constructor <;> decide, ⟨rfl, rfl⟩, by decide, by decide, by decide⟩

theorem g0_handleRow : g0.sys.HandleRow := by
  intro y hy mb hm
  simp only [g0, sys0, List.mem_cons, List.not_mem_nil, or_false] at hy
  rcases hy with rfl | rfl | rfl
  · cases hm; exact ⟨⟨"m", true, "s1", 100, none⟩, by decide, rfl, rfl⟩
  · cases hm; exact ⟨⟨"m", true, "s2", 100, none⟩, by decide, rfl, rfl⟩
  · cases hm

/-- s1 closes while s2 is open: hypotheses of `C08_close_spec` / `C08_close_keeps` -/
example : CloseCase g0.sys 1 conn1 (some "m") (some "happy") "app" "m" ∧
    Proceeds g0.sys conn1 "app" "m" 200 ∧ g0.sys.db.OtherOpen "m" "s1" := by
  refine ⟨⟨by decide, by decide, rfl, by decide⟩, ?_, by decide⟩
  intro hk; cases hk.1

/-- ... and the evaluated outcome: `ack, commit, closed`; s2's row, the message and the nameplate
    are still there -/
example : (g0.sys.step (.recv 1 200 (.int 5) (.close (some "m") (some "happy")))).out =
      [.frame 1 (.ack (.int 5)) true, .commit .chan, .frame 1 .closed true] ∧
    (g0.sys.step (.recv 1 200 (.int 5) (.close (some "m") (some "happy")))).db =
      { db0 with mbSides := [⟨"m", false, "s1", 100, some "happy"⟩, ⟨"m", true, "s2", 100, none⟩,
                             ⟨"other", true, "s9", 95, none⟩] } := by
  decide +kernel

/-- the state after s1's close: the start of the re-close examples -/
def sys1 : Sys :=
  { sys0 with
    db := { db0 with mbSides := [⟨"m", false, "s1", 100, some "happy"⟩, ⟨"m", true, "s2", 100, none⟩,
                                 ⟨"other", true, "s9", 95, none⟩] }
    disk := { db0 with mbSides := [⟨"m", false, "s1", 100, some "happy"⟩, ⟨"m", true, "s2", 100, none⟩,
                                 ⟨"other", true, "s9", 95, none⟩] }
    conns := [closerUpd conn1, conn2, conn3] }
def g1 : GSys := ⟨sys1, 200, ["m", "other"]⟩

theorem g1_ginv : g1.GInv :=
  ⟨⟨by constructor <;> decide, by decide⟩, by constructor <;> decide, ⟨rfl, rfl⟩, by decide, by decide, by decide⟩

/-- hypotheses of `C08_reclose_survives_partial` hold in `g1` for connection 3 (side s1 again) -/
example : g1.sys.findConn 3 = some conn3 ∧ FreshBound conn3 "app" ∧ g1.sys.db.HasBox "app" "m" ∧
    (∃ r ∈ g1.sys.db.mbSides, r.mailbox = "m" ∧ r.side = conn3.side.getD "") ∧
    g1.sys.db.OtherOpen "m" (conn3.side.getD "") ∧ (g1.sys.db.mbSidesOf "m").length ≤ 2 :=
  ⟨by decide, ⟨rfl, rfl, rfl, rfl⟩, by decide, by decide, by decide, by decide⟩

/-- **K-close-touch**: the repeated close (at t = 300) is answered `closed`, but the channel
    database is NOT what it was: `mailboxes.updated` of "m" went from 100 to 300. -/
theorem C08_reclose_touch_counterexample :
    (g1.sys.step (.recv 3 300 (.int 6) (.close (some "m") (some "happy")))).out =
      [.frame 3 (.ack (.int 6)) true, .commit .chan, .frame 3 .closed true] ∧
    (g1.sys.step (.recv 3 300 (.int 6) (.close (some "m") (some "happy")))).db ≠ g1.sys.db ∧
    (g1.sys.step (.recv 3 300 (.int 6) (.close (some "m") (some "happy")))).db =
      { g1.sys.db with mailboxes := [⟨"app", "m", 300, true⟩, ⟨"app", "other", 95, true⟩] } := by
  decide +kernel

/-- a third side s3 has touched "m" meanwhile (it was answered `crowded`, its row stays) -/
def sys2 : Sys :=
  { sys1 with
    db := { sys1.db with mbSides := sys1.db.mbSides ++ [⟨"m", true, "s3", 250, none⟩] }
    disk := { sys1.db with mbSides := sys1.db.mbSides ++ [⟨"m", true, "s3", 250, none⟩] } }
def g2 : GSys := ⟨sys2, 250, ["m", "other"]⟩

theorem g2_ginv : g2.GInv :=
  ⟨⟨by constructor <;> decide, by decide⟩, by constructor <;> decide, ⟨rfl, rfl⟩, by decide, by decide, by decide⟩

/-- **K-crowded-rejoin**: all hypotheses of `C08_reclose_survives_partial` except the guard hold in `g2`, and
    the repeated close of side s1 — one of the first two sides — is answered `crowded`, not `closed`. -/
theorem C08_reclose_crowded_counterexample :
    g2.sys.findConn 3 = some conn3 ∧ g2.sys.db.HasBox "app" "m" ∧
    (∃ r ∈ g2.sys.db.mbSides, r.mailbox = "m" ∧ r.side = conn3.side.getD "") ∧
    g2.sys.db.OtherOpen "m" (conn3.side.getD "") ∧ ¬ (g2.sys.db.mbSidesOf "m").length ≤ 2 ∧
    (g2.sys.step (.recv 3 300 (.int 6) (.close (some "m") (some "happy")))).out =
      [.frame 3 (.ack (.int 6)) true, .commit .chan, .frame 3 (.error "crowded") true] := by
  decide +kernel

/-- `C08_reclose_gone`: hypotheses hold for a name that is not in the database, and the evaluated
    step leaves the channel database as it was (three commits: the implicit open, the UPDATE of the
    side row, the deletion) -/
example : g1.sys.findConn 3 = some conn3 ∧ FreshBound conn3 "app" ∧ ¬ g1.sys.db.HasId "gone" :=
  ⟨by decide, ⟨rfl, rfl, rfl, rfl⟩, by decide⟩

example : (g1.sys.step (.recv 3 300 (.int 6) (.close (some "gone") none))).out =
      [.frame 3 (.ack (.int 6)) true, .commit .chan, .commit .chan, .commit .chan, .frame 3 .closed true] ∧
    (g1.sys.step (.recv 3 300 (.int 6) (.close (some "gone") none))).db = g1.sys.db := by
  decide +kernel

/-- `C08_close_frame` / the deleting case: s2 closes last in `g1`; mailbox "m", its two side rows,
    its message, nameplate 1 and its side row go; everything about "other" stays -/
example : CloseCase g1.sys 2 conn2 none none "app" "m" ∧ ¬ g1.sys.db.OtherOpen "m" "s2" ∧
    ¬ g1.sys.db.Clash "app" "m" :=
  ⟨⟨by decide, by decide, rfl, by decide⟩, by decide, by decide⟩

example : (g1.sys.step (.recv 2 300 (.int 7) (.close none none))).db =
      { nameplates := [⟨2, "app", "9", "other"⟩], npSides := [⟨2, true, "s9", 95⟩],
        mailboxes := [⟨"app", "other", 95, true⟩], mbSides := [⟨"other", true, "s9", 95, none⟩],
        messages := [⟨"app", "other", "s9", .str "pake", .str "b", 95, .str "i"⟩], nextNp := 3 } ∧
    (g1.sys.step (.recv 2 300 (.int 7) (.close none none))).db = g1.sys.db.dropMailbox "app" "m" := by
  decide +kernel

/-- `C08_alive_while_open`: hypotheses hold in `g0` for every non-sweep operation -/
example : g0.sys.db.HasBox "app" "m" ∧ (∃ r ∈ g0.sys.db.mbSides, r.mailbox = "m" ∧ r.opened = true) ∧
    (Op.crashIn 1 (.recv 1 200 .null (.close none none))).core.isSweep = false :=
  ⟨by decide, by decide, rfl⟩

/-- the exception of `C08_alive_while_open` is real: in `g1` side s2 is the only open side, its
    close removes the row -/
example : ¬ (g1.sys.step (.recv 2 300 (.int 7) (.close none none))).db.HasBox "app" "m" := by
  decide +kernel

end Ex

end C08
end Wormhole

#print axioms Wormhole.C08.C08_close_spec
#print axioms Wormhole.C08.C08_close_spec_reach
#print axioms Wormhole.C08.C08_close_keeps
#print axioms Wormhole.C08.C08_close_frame
#print axioms Wormhole.C08.C08_open_side_stays
#print axioms Wormhole.C08.C08_alive_while_open
#print axioms Wormhole.C08.C08_reclose_gone
#print axioms Wormhole.C08.C08_reclose_survives_partial
#print axioms Wormhole.C08.Ex.C08_reclose_touch_counterexample
#print axioms Wormhole.C08.Ex.C08_reclose_crowded_counterexample
